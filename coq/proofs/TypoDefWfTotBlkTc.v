(* Helper file for TypoDefWfTotBlk.v: tree consistency (TypoDefWfTotBlkDefs.TC) and the kind frame
   (kkeep) under the heap operations and under the functions of the default block parsers
   (p_open, p_continue, p_close, transform_paragraph); what paragraph_close and transform_paragraph
   leave untouched. *)
Require Import GM.model.Base GM.model.Util GM.model.Reader GM.model.ReaderSpec GM.model.Blocks GM.model.ListItem
               GM.model.LeafBlocks GM.model.CodeBlock GM.model.LinkDest GM.model.Regex GM.model.BlockParse
               GM.model.TypoDefParseD.
Require Import GM.proofs.ReaderProofs GM.proofs.BlocksProofs GM.proofs.ParseBlocksTotalReader
               GM.proofs.ParseBlocksTotalDefs GM.proofs.ParseBlocksTotalSpec GM.proofs.ParseBlocksTotalSt
               GM.proofs.ParseBlocksTotalShape GM.proofs.GfmConservativeDefs GM.proofs.TypoDefConservativeBlkInv
               GM.proofs.TypoDefConservativeBlkA GM.proofs.TypoDefConservativeBlkB GM.proofs.TypoDefConservativeBlkC
               GM.proofs.TypoDefWfTotBlkDefs.
From Coq Require Import ZArith Lia List Bool.
Import ListNotations.
Open Scope Z_scope.

(* ---------- the heap operations ---------- *)
(* same length, every node keeps children and parent *)
Definition pcs (h h' : heap) : Prop :=
  length h' = length h /\
  forall j n, nth_error h j = Some n -> exists n', nth_error h' j = Some n' /\ bch n' = bch n /\ bpar n' = bpar n.

Lemma pcs_back h h' j n' : pcs h h' -> nth_error h' j = Some n' ->
  exists n, nth_error h j = Some n /\ bch n' = bch n /\ bpar n' = bpar n.
Proof.
  intros [L H] E. assert (Hj : (j < length h)%nat) by (rewrite <- L; eapply nth_error_lt, E).
  destruct (nth_error_ex_lt h j Hj) as [n En]. destruct (H j n En) as (n2 & E2 & C & P).
  rewrite E in E2. injection E2 as <-. exists n. auto.
Qed.

Lemma TC_pcs h h' : TC h -> pcs h h' -> TC h'.
Proof.
  intros HT HS. split.
  - intros p pn' c Hp Hc. destruct (pcs_back _ _ _ _ HS Hp) as (pn & Ep & C & _). rewrite C in Hc.
    destruct (tc_par h HT p pn c Ep Hc) as (cn & Ec & Pc). destruct (proj2 HS c cn Ec) as (cn' & Ec' & _ & P').
    exists cn'. split; [exact Ec'|congruence].
  - intros p pn' Hp. destruct (pcs_back _ _ _ _ HS Hp) as (pn & Ep & C & _). rewrite C. exact (tc_nd h HT p pn Ep).
Qed.

Lemma pcs_hset h i n n' : nth_error h i = Some n -> bch n' = bch n -> bpar n' = bpar n -> pcs h (hset h i n').
Proof.
  intros Hi C P. split; [apply hset_length|]. intros j x Hj. destruct (Nat.eq_dec i j) as [<-|Hne].
  - rewrite hset_same by (eapply nth_error_lt, Hi). exists n'. rewrite Hi in Hj. injection Hj as <-. auto.
  - rewrite hset_other by exact Hne. exists x. auto.
Qed.

Lemma TC_hset h i n n' : TC h -> nth_error h i = Some n -> bch n' = bch n -> bpar n' = bpar n -> TC (hset h i n').
Proof. intros HT Hi C P. eapply TC_pcs; [exact HT|]. eapply pcs_hset; eassumption. Qed.

Lemma TC_hupd h i f h' : TC h -> hupd h i f = Ok h' -> (forall n, bch (f n) = bch n /\ bpar (f n) = bpar n) -> TC h'.
Proof.
  intros HT H F. destruct (hupd_inv _ _ _ _ H) as (n & E & ->). eapply TC_hset; [exact HT|exact E|apply F|apply F].
Qed.

Lemma TC_alloc h n : TC h -> bch n = [] -> bpar n = None -> TC (h ++ [n]).
Proof.
  intros HT C P. split.
  - intros p pn c Hp Hc. destruct (nth_error_alloc_inv _ _ _ _ Hp) as [E|[_ ->]].
    + destruct (tc_par h HT p pn c E Hc) as (cn & Ec & Pc). exists cn. split; [apply nth_error_alloc_old, Ec|exact Pc].
    + rewrite C in Hc. contradiction.
  - intros p pn Hp. destruct (nth_error_alloc_inv _ _ _ _ Hp) as [E|[_ ->]].
    + exact (tc_nd h HT p pn E).
    + rewrite C. constructor.
Qed.

Lemma TC_hsame_pc h h' : TC h -> hsame_pc h h' -> TC h'.
Proof.
  intros HT [L H]. eapply TC_pcs; [exact HT|]. split; [exact L|]. intros j n E.
  destruct (H j n E) as (n' & E' & _ & C & P). exists n'. auto.
Qed.

(* --- the two elementary steps --- *)
(* the parent of a node that is in a child list is the owner of the list *)
Lemma TC_owner h c cn q qn : TC h -> nth_error h c = Some cn -> nth_error h q = Some qn -> In c (bch qn) -> bpar cn = Some q.
Proof.
  intros HT Hc Hq Hin. destruct (tc_par h HT q qn c Hq Hin) as (cn' & E & P). rewrite Hc in E. injection E as <-. exact P.
Qed.

(* the parent of a node that is in no child list may be set to anything *)
Lemma TC_set_par h c cn v : TC h -> nth_error h c = Some cn ->
  (forall q qn, nth_error h q = Some qn -> ~ In c (bch qn)) -> TC (hset h c (set_par cn v)).
Proof.
  intros HT Hc Hfree. assert (Lc : (c < length h)%nat) by (eapply nth_error_lt, Hc).
  assert (Hb : forall q qn', nth_error (hset h c (set_par cn v)) q = Some qn' ->
               exists qn, nth_error h q = Some qn /\ bch qn' = bch qn).
  { intros q qn' Hq. destruct (Nat.eq_dec c q) as [<-|Hne].
    - rewrite hset_same in Hq by exact Lc. injection Hq as <-. exists cn. auto.
    - rewrite hset_other in Hq by exact Hne. exists qn'. auto. }
  split.
  - intros p pn' x Hp Hx. destruct (Hb p pn' Hp) as (pn & Ep & C). rewrite C in Hx.
    destruct (tc_par h HT p pn x Ep Hx) as (xn & Ex & Px).
    assert (Hxc : c <> x) by (intros <-; exact (Hfree p pn Ep Hx)).
    exists xn. split; [rewrite hset_other by exact Hxc; exact Ex|exact Px].
  - intros p pn' Hp. destruct (Hb p pn' Hp) as (pn & Ep & C). rewrite C. exact (tc_nd h HT p pn Ep).
Qed.

(* the child list of a node may be set to a duplicate-free list of nodes that point to it *)
Lemma TC_set_ch h p pn l : TC h -> nth_error h p = Some pn -> NoDup l ->
  (forall x, In x l -> exists xn, nth_error h x = Some xn /\ bpar xn = Some p) -> TC (hset h p (set_ch pn l)).
Proof.
  intros HT Hp Hnd Hl. assert (Lp : (p < length h)%nat) by (eapply nth_error_lt, Hp).
  assert (Hf : forall x xn, nth_error h x = Some xn ->
               exists xn', nth_error (hset h p (set_ch pn l)) x = Some xn' /\ bpar xn' = bpar xn).
  { intros x xn Hx. destruct (Nat.eq_dec p x) as [<-|Hne].
    - rewrite hset_same by exact Lp. rewrite Hp in Hx. injection Hx as <-. eexists. split; [reflexivity|reflexivity].
    - rewrite hset_other by exact Hne. exists xn. auto. }
  split.
  - intros q qn' x Hq Hx. destruct (Nat.eq_dec p q) as [<-|Hne].
    + rewrite hset_same in Hq by exact Lp. injection Hq as <-. cbn [bch set_ch] in Hx.
      destruct (Hl x Hx) as (xn & Ex & Px). destruct (Hf x xn Ex) as (xn' & Ex' & Px'). exists xn'. split; [exact Ex'|congruence].
    + rewrite hset_other in Hq by exact Hne. destruct (tc_par h HT q qn' x Hq Hx) as (xn & Ex & Px).
      destruct (Hf x xn Ex) as (xn' & Ex' & Px'). exists xn'. split; [exact Ex'|congruence].
  - intros q qn' Hq. destruct (Nat.eq_dec p q) as [<-|Hne].
    + rewrite hset_same in Hq by exact Lp. injection Hq as <-. exact Hnd.
    + rewrite hset_other in Hq by exact Hne. exact (tc_nd h HT q qn' Hq).
Qed.

Lemma tc_hset_comm h : forall i j a b, i <> j -> hset (hset h i a) j b = hset (hset h j b) i a.
Proof.
  induction h as [|x t IH]; intros [|i] [|j] a b Hne; cbn [hset]; try reflexivity; try congruence.
  f_equal. apply IH. congruence.
Qed.

Lemma tc_opt_eqb_true a b : opt_nat_eqb a b = true -> a = b.
Proof.
  destruct a as [x|], b as [y|]; cbn [opt_nat_eqb]; intros H; try discriminate; [|reflexivity].
  apply Nat.eqb_eq in H. congruence.
Qed.
Lemma tc_opt_eqb_refl a : opt_nat_eqb a a = true.
Proof. destruct a as [x|]; cbn [opt_nat_eqb]; [apply Nat.eqb_refl|reflexivity]. Qed.

(* --- lists --- *)
Lemma tc_remove_id_incl c l x : In x (remove_id c l) -> In x l.
Proof.
  induction l as [|y t IH]; cbn [remove_id]; [auto|]. destruct (Nat.eqb c y); cbn [In]; intros H; [auto|].
  destruct H as [H|H]; auto.
Qed.
Lemma tc_remove_id_nodup c l : NoDup l -> NoDup (remove_id c l) /\ ~ In c (remove_id c l).
Proof.
  induction l as [|y t IH]; cbn [remove_id]; intros H; [split; [constructor|intros []]|].
  inversion H as [|y' t' Hy Ht]; subst. destruct (Nat.eqb_spec c y) as [->|Hne]; [split; assumption|].
  destruct (IH Ht) as [N1 N2]. split.
  - constructor; [|exact N1]. intros Hin. apply Hy. eapply tc_remove_id_incl, Hin.
  - cbn [In]. intros [E|Hin]; [congruence|exact (N2 Hin)].
Qed.
Lemma tc_replace_id_in old new l x : In x (replace_id old new l) -> x = new \/ In x l.
Proof.
  induction l as [|y t IH]; cbn [replace_id]; [auto|]. destruct (Nat.eqb old y); cbn [In]; intros H.
  - destruct H as [H|H]; auto.
  - destruct H as [H|H]; [auto|]. destruct (IH H); auto.
Qed.
Lemma tc_replace_id_nodup old new l : NoDup l -> ~ In new l ->
  NoDup (replace_id old new l) /\ (new <> old -> ~ In old (replace_id old new l)).
Proof.
  induction l as [|y t IH]; cbn [replace_id]; intros H Hn; [split; [constructor|intros _ []]|].
  inversion H as [|y' t' Hy Ht]; subst. cbn [In] in Hn.
  destruct (Nat.eqb_spec old y) as [->|Hne].
  - split; [constructor; [tauto|exact Ht]|]. intros Hno. cbn [In]. intros [E|Hin]; [congruence|exact (Hy Hin)].
  - destruct (IH Ht ltac:(tauto)) as [N1 N2]. split.
    + constructor; [|exact N1]. intros Hin. destruct (tc_replace_id_in _ _ _ _ Hin) as [E|Hin2]; [apply Hn; auto|exact (Hy Hin2)].
    + intros Hno. cbn [In]. intros [E|Hin]; [congruence|exact (N2 Hno Hin)].
Qed.
Lemma tc_insert_after_in ref new l x : In x (insert_after_id ref new l) -> x = new \/ In x l.
Proof.
  induction l as [|y t IH]; cbn [insert_after_id].
  - cbn [In]. intros [H|[]]; auto.
  - destruct (Nat.eqb ref y); cbn [In]; intros H.
    + destruct H as [H|[H|H]]; auto.
    + destruct H as [H|H]; [auto|]. destruct (IH H); auto.
Qed.
Lemma tc_insert_after_nodup ref new l : NoDup l -> ~ In new l -> NoDup (insert_after_id ref new l).
Proof.
  induction l as [|y t IH]; cbn [insert_after_id]; intros H Hn; [constructor; [intros []|constructor]|].
  inversion H as [|y' t' Hy Ht]; subst. cbn [In] in Hn.
  destruct (Nat.eqb ref y).
  - constructor; [cbn [In]; intros [E|Hin]; [apply Hn; auto|exact (Hy Hin)]|]. constructor; [tauto|exact Ht].
  - constructor; [|apply IH; [exact Ht|tauto]]. intros Hin.
    destruct (tc_insert_after_in _ _ _ _ Hin) as [E|Hin2]; [apply Hn; auto|exact (Hy Hin2)].
Qed.
Lemma tc_nodup_snoc (l : list nat) c : NoDup l -> ~ In c l -> NoDup (l ++ [c]).
Proof.
  induction l as [|y t IH]; cbn [app]; intros H Hn; [constructor; [intros []|constructor]|].
  inversion H as [|y' t' Hy Ht]; subst. cbn [In] in Hn. constructor; [|apply IH; [exact Ht|tauto]].
  rewrite in_app_iff. cbn [In]. intros [Hin|[E|[]]]; [exact (Hy Hin)|apply Hn; auto].
Qed.

(* a detached node is in no child list *)
Lemma TC_detached_free h c cn : TC h -> nth_error h c = Some cn -> bpar cn = None ->
  forall q qn, nth_error h q = Some qn -> ~ In c (bch qn).
Proof. intros HT Hc Hd q qn Hq Hin. pose proof (TC_owner h c cn q qn HT Hc Hq Hin) as E. congruence. Qed.

(* AppendChild of a detached node *)
Lemma TC_append_child h p c h' cn : TC h -> append_child h p c = Ok h' -> nth_error h c = Some cn -> bpar cn = None ->
  c <> p -> TC h'.
Proof.
  intros HT H Hc Hd Hne. unfold append_child in H. gc_bind H h1 E1.
  destruct (hupd_inv _ _ _ _ E1) as (cn0 & Ec & ->). rewrite Hc in Ec. injection Ec as <-.
  destruct (hupd_inv _ _ _ _ H) as (pn & Ep & ->).
  assert (Lc : (c < length h)%nat) by (eapply nth_error_lt, Hc).
  pose proof (TC_detached_free h c cn HT Hc Hd) as Hfree.
  pose proof (TC_set_par h c cn (Some p) HT Hc Hfree) as HT1.
  pose proof Ep as Ep0. rewrite hset_other in Ep0 by exact Hne.
  apply TC_set_ch; [exact HT1|exact Ep| |].
  - cbn [bch set_ch]. apply tc_nodup_snoc; [exact (tc_nd _ HT1 p pn Ep)|]. exact (Hfree p pn Ep0).
  - intros x Hx. apply in_app_iff in Hx. destruct Hx as [Hx|[<-|[]]].
    + exact (tc_par _ HT1 p pn x Ep Hx).
    + rewrite hset_same by exact Lc. eexists. split; [reflexivity|reflexivity].
Qed.

Lemma TC_remove_child h p c h' : TC h -> remove_child h p c = Ok h' -> c <> p -> TC h'.
Proof.
  intros HT H Hne. unfold remove_child in H. gc_bind H cn Ec. apply hget_inv in Ec.
  destruct (opt_nat_eqb (bpar cn) (Some p)) eqn:Eo; [|injection H as <-; exact HT].
  apply tc_opt_eqb_true in Eo. gc_bind H h1 E1.
  destruct (hupd_inv _ _ _ _ E1) as (pn & Ep & ->).
  destruct (hupd_inv _ _ _ _ H) as (cn0 & Ec0 & ->).
  assert (Lp : (p < length h)%nat) by (eapply nth_error_lt, Ep).
  pose proof Ec0 as Ec1. rewrite hset_other in Ec1 by congruence. rewrite Ec in Ec1. injection Ec1 as <-.
  destruct (tc_remove_id_nodup c (bch pn) (tc_nd _ HT p pn Ep)) as [N1 N2].
  assert (HT1 : TC (hset h p (set_ch pn (remove_id c (bch pn))))).
  { apply TC_set_ch; [exact HT|exact Ep|exact N1|]. intros x Hx. apply (tc_par _ HT p pn x Ep). eapply tc_remove_id_incl, Hx. }
  apply TC_set_par; [exact HT1|exact Ec0|]. intros q qn Hq Hin.
  destruct (Nat.eq_dec p q) as [<-|Hpq].
  - rewrite hset_same in Hq by exact Lp. injection Hq as <-. exact (N2 Hin).
  - rewrite hset_other in Hq by exact Hpq. pose proof (TC_owner h c cn q qn HT Ec Hq Hin). congruence.
Qed.

(* ReplaceChild by a detached node *)
Lemma TC_replace_child h p old new h' nn : TC h -> replace_child h p old new = Ok h' ->
  nth_error h new = Some nn -> bpar nn = None -> new <> p -> new <> old -> old <> p -> TC h'.
Proof.
  intros HT H Hn Hd Hnp Hno Hop. unfold replace_child in H. gc_bind H on Eo. apply hget_inv in Eo.
  destruct (opt_nat_eqb (bpar on) (Some p)) eqn:Eq; [|injection H as <-; exact HT].
  apply tc_opt_eqb_true in Eq. gc_bind H h1 E1. gc_bind H h2 E2.
  destruct (hupd_inv _ _ _ _ E1) as (pn & Ep & ->).
  destruct (hupd_inv _ _ _ _ E2) as (nn0 & En0 & ->).
  destruct (hupd_inv _ _ _ _ H) as (on0 & Eo0 & ->).
  rewrite hset_other in En0 by congruence. rewrite Hn in En0. injection En0 as <-.
  pose proof Eo0 as Eo1. rewrite !hset_other in Eo1 by congruence. rewrite Eo in Eo1. injection Eo1 as <-.
  assert (Lp : (p < length h)%nat) by (eapply nth_error_lt, Ep).
  assert (Ln : (new < length h)%nat) by (eapply nth_error_lt, Hn).
  rewrite (tc_hset_comm h p new) in * by congruence.
  pose proof (TC_detached_free h new nn HT Hn Hd) as Hfree.
  pose proof (TC_set_par h new nn (Some p) HT Hn Hfree) as HT1.
  set (h1 := hset h new (set_par nn (Some p))) in *.
  assert (Ep1 : nth_error h1 p = Some pn) by (unfold h1; rewrite hset_other by exact Hnp; exact Ep).
  destruct (tc_replace_id_nodup old new (bch pn) (tc_nd _ HT p pn Ep) (Hfree p pn Ep)) as [N1 N2].
  assert (HT2 : TC (hset h1 p (set_ch pn (replace_id old new (bch pn))))).
  { apply TC_set_ch; [exact HT1|exact Ep1|exact N1|]. intros x Hx.
    destruct (tc_replace_id_in _ _ _ _ Hx) as [->|Hx2].
    - unfold h1. rewrite hset_same by exact Ln. eexists. split; [reflexivity|reflexivity].
    - exact (tc_par _ HT1 p pn x Ep1 Hx2). }
  apply TC_set_par; [exact HT2|exact Eo0|]. intros q qn Hq Hin.
  destruct (Nat.eq_dec p q) as [<-|Hpq].
  - rewrite hset_same in Hq by (unfold h1; rewrite hset_length; exact Lp). injection Hq as <-. exact (N2 Hno Hin).
  - rewrite hset_other in Hq by exact Hpq.
    assert (Eo2 : nth_error h1 old = Some on) by (unfold h1; rewrite hset_other by exact Hno; exact Eo).
    pose proof (TC_owner h1 old on q qn HT1 Eo2 Hq Hin). congruence.
Qed.

(* InsertAfter of a detached node *)
Lemma TC_insert_after h p ref new h' nn : TC h -> insert_after h p ref new = Ok h' ->
  nth_error h new = Some nn -> bpar nn = None -> new <> p -> TC h'.
Proof.
  intros HT H Hn Hd Hnp. unfold insert_after in H. gc_bind H h1 E1.
  destruct (hupd_inv _ _ _ _ E1) as (pn & Ep & ->).
  destruct (hupd_inv _ _ _ _ H) as (nn0 & En0 & ->).
  rewrite hset_other in En0 by congruence. rewrite Hn in En0. injection En0 as <-.
  assert (Ln : (new < length h)%nat) by (eapply nth_error_lt, Hn).
  rewrite (tc_hset_comm h p new) by congruence.
  pose proof (TC_detached_free h new nn HT Hn Hd) as Hfree.
  pose proof (TC_set_par h new nn (Some p) HT Hn Hfree) as HT1.
  set (h1 := hset h new (set_par nn (Some p))) in *.
  assert (Ep1 : nth_error h1 p = Some pn) by (unfold h1; rewrite hset_other by exact Hnp; exact Ep).
  apply TC_set_ch; [exact HT1|exact Ep1| |].
  - apply tc_insert_after_nodup; [exact (tc_nd _ HT p pn Ep)|exact (Hfree p pn Ep)].
  - intros x Hx. destruct (tc_insert_after_in _ _ _ _ Hx) as [->|Hx2].
    + unfold h1. rewrite hset_same by exact Ln. eexists. split; [reflexivity|reflexivity].
    + exact (tc_par _ HT1 p pn x Ep1 Hx2).
Qed.

(* what RemoveChild of an attached child does, under TC *)
Lemma remove_child_TC_spec h p c pn cn : TC h -> nth_error h p = Some pn -> nth_error h c = Some cn -> In c (bch pn) -> c <> p ->
  remove_child h p c = Ok (hset (hset h p (set_ch pn (remove_id c (bch pn)))) c (set_par cn None)) /\
  ~ In c (remove_id c (bch pn)).
Proof.
  intros HT Hp Hc Hin Hne. split; [|exact (proj2 (tc_remove_id_nodup c (bch pn) (tc_nd _ HT p pn Hp)))].
  unfold remove_child. rewrite (hget_some _ _ _ Hc). cbn [bind].
  rewrite (TC_owner h c cn p pn HT Hc Hp Hin), tc_opt_eqb_refl.
  rewrite (hupd_ok _ _ _ _ Hp). cbn [bind].
  rewrite (hupd_ok _ c cn (fun m => set_par m None)); [reflexivity|]. rewrite hset_other by congruence. exact Hc.
Qed.

(* ---------- the Open functions: at most one new node, detached and without children ---------- *)
Definition open_post2 (s s' : st) (o : open_res) : Prop :=
  match o with
  | None => s_h s' = s_h s
  | Some (id, k, r) => exists nd, s_h s' = s_h s ++ [nd] /\ id = length (s_h s) /\ bpar nd = None /\ bch nd = [] /\ dnode nd
  end.

Ltac op_none2 H := injection H as <- <-; unfold open_post2; prj; reflexivity.
Ltac op_some2 H :=
  injection H as <- <-; unfold open_post2; prj;
  eexists; split; [reflexivity|split; [reflexivity|split; [reflexivity|split; [reflexivity|]]]].

Section Open2.
Variable space_table : list N.
Variable re_t1o re_t2 re_t3 re_t4 re_t5 re_t6 re_t7 : re.
Variable allowed_tags : list bytes.

Lemma paragraph_open_post2 s s' o : paragraph_open space_table s = Ok (s', o) -> open_post2 s s' o.
Proof.
  unfold paragraph_open. intros H. peek H. gc_bind H sg Esg.
  destruct (seg_is_empty sg); [op_none2 H|].
  newn H. adv H. op_some2 H. apply dnode_kind. cbn. discriminate.
Qed.

Lemma thematic_open_post2 s s' o : thematic_open space_table s = Ok (s', o) -> open_post2 s s' o.
Proof.
  unfold thematic_open. intros H. peek H. loff H.
  destruct (is_thematic_break _ _ _); [|op_none2 H].
  adv H. newn H. op_some2 H. apply dnode_kind. cbn. discriminate.
Qed.

Lemma atx_open_s_post2 s s' o : atx_open_s space_table s = Ok (s', o) -> open_post2 s s' o.
Proof.
  unfold atx_open_s. intros H. peek H. gc_bind H a Ea.
  destruct a as [[level body]|]; [|op_none2 H].
  newn H. op_some2 H. apply dnode_kind. cbn. discriminate.
Qed.

Lemma fenced_open_post2 s s' o : fenced_open space_table s = Ok (s', o) -> open_post2 s s' o.
Proof.
  unfold fenced_open. intros H. peek H. gc_bind H a Ea.
  destruct a as [[[[ch indent] flen] info]|]; [|op_none2 H].
  newn H. op_some2 H. apply dnode_kind. cbn. discriminate.
Qed.

Lemma code_open_post2 s s' o : code_open space_table s = Ok (s', o) -> open_post2 s s' o.
Proof.
  unfold code_open. intros H. gc_bind H x Ex.
  destruct x as [[sg r]|]; [|op_none2 H].
  newn H. op_some2 H. apply dnode_kind. cbn. discriminate.
Qed.

Lemma bq_open_post2 s s' o : bq_open s = Ok (s', o) -> open_post2 s s' o.
Proof.
  unfold bq_open. intros H. gc_bind H x Ex. destruct x as [r ok].
  destruct ok; [|op_none2 H].
  newn H. op_some2 H. apply dnode_kind. cbn. discriminate.
Qed.

Lemma setext_open_post2 s parent s' o : setext_open space_table s parent = Ok (s', o) -> open_post2 s s' o.
Proof.
  unfold setext_open. intros H.
  destruct (last_opened (s_c s)) as [[last lp]|] eqn:El; [|op_none2 H].
  gc_bind H ln Eln. apply hget_inv in Eln.
  destruct (bkind_eqb_spec (bk ln) BParagraph) as [Ek|Ek]; cbn [andb negb] in H; [|op_none2 H].
  destruct (opt_nat_eqb (bpar ln) (Some parent)); cbn [negb] in H; [|op_none2 H].
  peek H. gc_bind H mb Emb. destruct mb as [c|]; [|op_none2 H].
  newn H. op_some2 H. apply dnode_kind; cbn; discriminate.
Qed.

Lemma list_open_post2 s parent s' o : list_open space_table s parent = Ok (s', o) -> open_post2 s s' o.
Proof.
  unfold list_open. intros H. gc_bind H lst Elst.
  match type of H with (if ?b then _ else _) = _ => destruct b end; [op_none2 H|].
  peek H. destruct (matches_list_item _ _) as [m typ].
  destruct (N.eqb typ 0); [op_none2 H|].
  match type of H with (if ?b then _ else _) = _ => destruct b end; [op_none2 H|].
  gc_bind H mk Emk.
  match type of H with context [if -1 <? ?x then _ else _] => destruct (-1 <? x) end;
    newn H; op_some2 H; apply dnode_kind; cbn; discriminate.
Qed.

Lemma list_item_open_s_post2 s parent s' o : list_item_open_s space_table s parent = Ok (s', o) -> open_post2 s s' o.
Proof.
  unfold list_item_open_s. intros H. gc_bind H pn Epn.
  destruct (negb _); [op_none2 H|].
  gc_bind H offset Eoff. gc_bind H x Ex.
  destruct x as [[[node_offset r] children]|]; [|op_none2 H].
  newn H. op_some2 H. apply dnode_kind. cbn. discriminate.
Qed.

Lemma html_open_post2 s s' o :
  html_open space_table re_t1o re_t2 re_t3 re_t4 re_t5 re_t6 re_t7 allowed_tags s = Ok (s', o) -> open_post2 s s' o.
Proof.
  unfold html_open. intros H. peek H.
  destruct (c_boff _ <? 0); [op_none2 H|].
  gc_bind H c Ec. destruct (negb _); [op_none2 H|].
  gc_bind H lip Elip.
  match type of H with (if ?t =? 0 then _ else _) = _ => assert (Htyp : 0 <= t <= 7); [clear H|set (typ := t) in *] end.
  { repeat first [ match goal with |- context [if ?b then _ else _] => destruct b end
                 | match goal with |- context [match ?b with Some _ => _ | None => _ end] => destruct b end ]; lia. }
  destruct (typ =? 0); [op_none2 H|].
  adv H. newn H. op_some2 H. apply dnode_typ; cbn [b_i1 set_lines mknode]; lia.
Qed.

Lemma p_open_post2 bp s parent s' o :
  p_open space_table re_t1o re_t2 re_t3 re_t4 re_t5 re_t6 re_t7 allowed_tags bp s parent = Ok (s', o) -> open_post2 s s' o.
Proof.
  destruct bp; cbn [p_open]; intros H.
  - eapply setext_open_post2, H.
  - eapply thematic_open_post2, H.
  - eapply list_open_post2, H.
  - eapply list_item_open_s_post2, H.
  - eapply code_open_post2, H.
  - eapply atx_open_s_post2, H.
  - eapply fenced_open_post2, H.
  - eapply bq_open_post2, H.
  - eapply html_open_post2, H.
  - eapply paragraph_open_post2, H.
Qed.
End Open2.

(* ---------- the Continue functions keep children and parent of every node ---------- *)
Lemma pcs_refl h : pcs h h.
Proof. split; [reflexivity|]. intros j n E. exists n. auto. Qed.
Lemma pcs_hupd h i f h' : hupd h i f = Ok h' -> (forall n, bch (f n) = bch n /\ bpar (f n) = bpar n) -> pcs h h'.
Proof.
  intros H F. destruct (hupd_inv _ _ _ _ H) as (n & E & ->). eapply pcs_hset; [exact E|apply F|apply F].
Qed.

Ltac pcfin := prjall; first [apply pcs_refl | eapply pcs_hupd; [eassumption|intros ?; cbn; auto]].

Section Cont2.
Variable space_table : list N.
Variable re_t1c : re.

Lemma paragraph_continue_pcs s node s' b : paragraph_continue space_table s node = Ok (s', b) -> pcs (s_h s) (s_h s').
Proof.
  unfold paragraph_continue. intros H. peek H.
  destruct (Reader.is_blank _ _); [injection H as <- <-; pcfin|].
  gc_bind H h Eh. adv H. injection H as <- <-. pcfin.
Qed.

Lemma fenced_continue_pcs s node s' b : fenced_continue space_table s node = Ok (s', b) -> pcs (s_h s) (s_h s').
Proof.
  unfold fenced_continue. intros H.
  destruct (c_fence (s_c s)) as [[[[ch indent] flen] nd]|]; [|discriminate].
  peek H. gc_bind H y Ey. destruct y as [[closed ln] r].
  destruct closed; [injection H as <- <-; pcfin|].
  destruct ln as [[start padding]|]; [|discriminate].
  gc_bind H h Eh. injection H as <- <-. pcfin.
Qed.

Lemma code_continue_pcs s node s' b : code_continue space_table s node = Ok (s', b) -> pcs (s_h s) (s_h s').
Proof.
  unfold code_continue. intros H. gc_bind H x Ex.
  destruct x as [[sg r]|]; [|injection H as <- <-; pcfin].
  gc_bind H h Eh. injection H as <- <-. pcfin.
Qed.

Lemma bq_continue_pcs s s' b : bq_continue s = Ok (s', b) -> pcs (s_h s) (s_h s').
Proof.
  unfold bq_continue. intros H. gc_bind H x Ex. destruct x as [r ok]. injection H as <- <-. pcfin.
Qed.

Lemma html_continue_pcs s node s' b : html_continue space_table re_t1c s node = Ok (s', b) -> pcs (s_h s) (s_h s').
Proof.
  unfold html_continue. intros H. gc_bind H n En. peek H.
  destruct ((1 <=? b_i1 n) && (b_i1 n <=? 5)).
  - gc_bind H fc Efc. destruct fc; [injection H as <- <-; pcfin|].
    match type of H with (if ?c then _ else _) = _ => destruct c end.
    + gc_bind H h Eh. adv H. injection H as <- <-. pcfin.
    + gc_bind H h Eh. adv H. injection H as <- <-. pcfin.
  - destruct (Reader.is_blank _ _); [injection H as <- <-; pcfin|].
    gc_bind H h Eh. adv H. injection H as <- <-. pcfin.
Qed.

Lemma list_continue_pcs s node s' b : list_continue space_table s node = Ok (s', b) -> pcs (s_h s) (s_h s').
Proof.
  unfold list_continue. intros H. gc_bind H n En. peek H. gc_bind H lastc Elc. gc_bind H lcc Elcc.
  destruct (Reader.is_blank _ _).
  { injection H as <- <-. destruct (lcc =? 0); pcfin. }
  gc_bind H offset Eoff. loff H.
  destruct (_ || _).
  - destruct (matches_list_item _ _) as [m typ].
    destruct (_ && _ && _).
    + gc_bind H mk Emk. destruct (negb _); [injection H as <- <-; pcfin|].
      destruct (is_thematic_break _ _ _); [|injection H as <- <-; pcfin].
      gc_bind H lp Elp. gc_bind H bar Ebar. destruct (negb _); injection H as <- <-; pcfin.
    + repeat match type of H with (if ?c then _ else _) = _ => destruct c end; injection H as <- <-; pcfin.
  - repeat match type of H with (if ?c then _ else _) = _ => destruct c end; injection H as <- <-; pcfin.
Qed.

Lemma list_item_continue_pcs s node s' b : list_item_continue space_table s node = Ok (s', b) -> pcs (s_h s) (s_h s').
Proof.
  unfold list_item_continue. intros H. gc_bind H n En.
  gc_bind H pk Epk. destruct pk as [[s1 line] sg]. apply peek_line_s_inv in Epk. destruct Epk as [r1 ->].
  destruct (Reader.is_blank _ _); [adv H; injection H as <- <-; pcfin|].
  gc_bind H p Ep. gc_bind H offset Eoff.
  gc_bind H lo Elo. destruct lo as [s2' off]. apply line_offset_s_inv in Elo. destruct Elo as [r2' ->].
  assert (Hgo : forall s2 r, (let '(pos, padding) := indent_position (line_of line) off offset in
                   r <- r_advance_and_set_padding (s_r s2) pos padding ;; Ok (st_r s2 r, true)) = Ok r -> exists r2, fst r = st_r s2 r2).
  { intros s2 r0 Hr. destruct (indent_position _ _ _) as [pos padding]. gc_bind Hr r2 Er2. injection Hr as <-. cbn [fst]. eauto. }
  destruct (_ && _).
  - destruct (matches_list_item _ _) as [m typ].
    destruct (negb (N.eqb typ 0)); [injection H as <- <-; pcfin|].
    destruct (negb _); [injection H as <- <-; pcfin|].
    apply Hgo in H. destruct H as [r2 Hr]. cbn [fst] in Hr. subst s'. pcfin.
  - apply Hgo in H. destruct H as [r2 Hr]. cbn [fst] in Hr. subst s'. pcfin.
Qed.

Lemma p_continue_pcs bp s node s' c b : p_continue space_table re_t1c bp s node = Ok (s', c, b) -> pcs (s_h s) (s_h s').
Proof.
  destruct bp; cbn [p_continue]; intros H;
    try (injection H as <- _ _; apply pcs_refl);
    gc_bind H x Ex; destruct x as [s2 c2]; injection H as <- _ _; cbn [fst].
  - eapply list_continue_pcs, Ex.
  - eapply list_item_continue_pcs, Ex.
  - eapply code_continue_pcs, Ex.
  - eapply fenced_continue_pcs, Ex.
  - eapply bq_continue_pcs, Ex.
  - eapply html_continue_pcs, Ex.
  - eapply paragraph_continue_pcs, Ex.
Qed.
End Cont2.

(* ---------- the Close functions ---------- *)
(* a parent has a smaller number than its child (HInv.hi_par), carried through the loops of list_close *)
Definition PLt (h : heap) : Prop := forall i n p, nth_error h i = Some n -> bpar n = Some p -> (p < i)%nat.

Lemma PLt_pcs h h' : PLt h -> pcs h h' -> PLt h'.
Proof.
  intros HP HS i n' p Hi Hp. destruct (pcs_back _ _ _ _ HS Hi) as (n & En & _ & P). apply (HP i n p En). congruence.
Qed.
Lemma PLt_alloc h n : PLt h -> bpar n = None -> PLt (h ++ [n]).
Proof.
  intros HP Hn i x p Hi Hp. destruct (nth_error_alloc_inv _ _ _ _ Hi) as [E|[_ ->]]; [exact (HP i x p E Hp)|congruence].
Qed.
Lemma PLt_hupd h i f h' : PLt h -> hupd h i f = Ok h' ->
  (forall n, bpar (f n) = bpar n \/ bpar (f n) = None \/ exists p, bpar (f n) = Some p /\ (p < i)%nat) -> PLt h'.
Proof.
  intros HP H F. destruct (hupd_inv _ _ _ _ H) as (n & E & ->). intros j x p Hj Hp.
  destruct (Nat.eq_dec i j) as [<-|Hne].
  - rewrite hset_same in Hj by (eapply nth_error_lt, E). injection Hj as <-.
    destruct (F n) as [F1|[F1|(q & F1 & F2)]].
    + apply (HP i n p E). congruence.
    + congruence.
    + rewrite F1 in Hp. injection Hp as <-. exact F2.
  - rewrite hset_other in Hj by exact Hne. exact (HP j x p Hj Hp).
Qed.
Lemma PLt_replace_child h p old new h' : PLt h -> replace_child h p old new = Ok h' -> (p < new)%nat -> PLt h'.
Proof.
  intros HP H Hpn. unfold replace_child in H. gc_bind H on Eo.
  destruct (opt_nat_eqb (bpar on) (Some p)); [|injection H as <-; exact HP].
  gc_bind H h1 E1. gc_bind H h2 E2.
  eapply PLt_hupd; [|exact H|intros m; right; left; reflexivity].
  eapply PLt_hupd; [|exact E2|intros m; right; right; exists p; split; [reflexivity|exact Hpn]].
  eapply PLt_hupd; [exact HP|exact E1|intros m; left; reflexivity].
Qed.
Lemma tc_replace_child_length h p old new h' : replace_child h p old new = Ok h' -> length h' = length h.
Proof.
  unfold replace_child. intros H. gc_bind H on Eo.
  destruct (opt_nat_eqb (bpar on) (Some p)); [|injection H as <-; reflexivity].
  gc_bind H h1 E1. gc_bind H h2 E2.
  rewrite (hupd_length _ _ _ _ H), (hupd_length _ _ _ _ E2). exact (hupd_length _ _ _ _ E1).
Qed.
Lemma replace_child_other h p old new h' : replace_child h p old new = Ok h' ->
  forall j, j <> p -> j <> old -> j <> new -> nth_error h' j = nth_error h j.
Proof.
  unfold replace_child. intros H j J1 J2 J3. gc_bind H on Eo.
  destruct (opt_nat_eqb (bpar on) (Some p)); [|injection H as <-; reflexivity].
  gc_bind H h1 E1. gc_bind H h2 E2.
  destruct (hupd_inv _ _ _ _ E1) as (a & _ & ->). destruct (hupd_inv _ _ _ _ E2) as (b & _ & ->).
  destruct (hupd_inv _ _ _ _ H) as (c & _ & ->). rewrite !hset_other by congruence. reflexivity.
Qed.

Lemma lc_kids_TP c : forall gs s s', TC (s_h s) -> PLt (s_h s) -> (c < length (s_h s))%nat ->
  Forall (fun g => g <> c) gs -> lc_kids c gs s = Ok s' ->
  TC (s_h s') /\ PLt (s_h s') /\ (length (s_h s) <= length (s_h s'))%nat.
Proof.
  induction gs as [|g tl IH]; intros s s' HT HP Hc Hg H.
  - injection H as <-. auto.
  - rewrite lc_kids_cons in H. gc_bind H gn Egn. apply hget_inv in Egn.
    inversion Hg as [|g' tl' Hgc Htl]; subst g' tl'.
    destruct (bkind_eqb (bk gn) BParagraph); [|exact (IH _ _ HT HP Hc Htl H)].
    newn H. gc_bind H h Eh. prjall.
    set (t := set_lines (mknode BTextBlock 0) (blines gn)) in *.
    assert (HT1 : TC (s_h s ++ [t])) by (apply TC_alloc; [exact HT|reflexivity|reflexivity]).
    assert (HP1 : PLt (s_h s ++ [t])) by (apply PLt_alloc; [exact HP|reflexivity]).
    assert (Lg : (g < length (s_h s))%nat) by (eapply nth_error_lt, Egn).
    assert (HT2 : TC h).
    { eapply TC_replace_child; [exact HT1|exact Eh|apply nth_error_alloc_new|reflexivity|lia|lia|exact Hgc]. }
    assert (HP2 : PLt h) by (eapply PLt_replace_child; [exact HP1|exact Eh|exact Hc]).
    assert (Lh : length h = S (length (s_h s))).
    { rewrite (tc_replace_child_length _ _ _ _ _ Eh), app_length. cbn [length]. lia. }
    destruct (IH (st_h (st_h s (s_h s ++ [t])) h) s' HT2 HP2 ltac:(prj; lia) Htl H) as (R1 & R2 & R3).
    prjall. split; [exact R1|]. split; [exact R2|lia].
Qed.

Lemma lc_items_TP : forall cs s s', TC (s_h s) -> PLt (s_h s) -> lc_items cs s = Ok s' -> TC (s_h s') /\ PLt (s_h s').
Proof.
  induction cs as [|c rest IH]; intros s s' HT HP H; cbn [lc_items] in H.
  - injection H as <-. auto.
  - gc_bind H cn Ecn. apply hget_inv in Ecn. gc_bind H s1 Es1.
    assert (Hg : Forall (fun g => g <> c) (bch cn)).
    { apply Forall_forall. intros g Hin. destruct (tc_par _ HT c cn g Ecn Hin) as (gn & Eg & Pg).
      pose proof (HP g gn c Eg Pg). lia. }
    destruct (lc_kids_TP c (bch cn) s s1 HT HP ltac:(eapply nth_error_lt, Ecn) Hg Es1) as (R1 & R2 & _).
    exact (IH s1 s' R1 R2 H).
Qed.

Lemma list_close_TC s node s' : TC (s_h s) -> PLt (s_h s) -> list_close s node = Ok s' -> TC (s_h s').
Proof.
  unfold list_close. intros HT HP H. gc_bind H n En. gc_bind H tight Et. gc_bind H h Eh.
  assert (S1 : pcs (s_h s) h) by (eapply pcs_hupd; [exact Eh|intros m; cbn; auto]).
  pose proof (TC_pcs _ _ HT S1) as HT1. pose proof (PLt_pcs _ _ HP S1) as HP1.
  destruct (negb tight); [injection H as <-; exact HT1|].
  exact (proj1 (lc_items_TP (bch n) (st_h s h) s' HT1 HP1 H)).
Qed.

Section S.
Variable space_table punct_table : list N.
Variable norm : bytes -> bytes.
Variable re_t1o re_t1c re_t2 re_t3 re_t4 re_t5 re_t6 re_t7 : re.
Variable allowed_tags : list bytes.
Variable src : bytes.
Notation HInv := (HInv space_table src).
Notation p_open := (p_open space_table re_t1o re_t2 re_t3 re_t4 re_t5 re_t6 re_t7 allowed_tags).
Notation p_continue := (p_continue space_table re_t1c).
Notation p_close := (p_close space_table).
Notation transform_paragraph := (transform_paragraph space_table punct_table norm).

(* ---------- the functions of the default block parsers ---------- *)
(* `Proof using All`: the six lemmas take all section variables (the files that use them were written
   against that signature) *)
(* Open: the heap is unchanged or gets one detached node without children that is no node of the
   DefinitionList extension *)
Lemma p_open_TC bp s parent s' o : TC (s_h s) -> p_open bp s parent = Ok (s', o) ->
  TC (s_h s') /\ kkeep (s_h s) (s_h s') /\
  match o with
  | None => s_h s' = s_h s
  | Some (id, k, r) => exists nd, s_h s' = s_h s ++ [nd] /\ id = length (s_h s) /\ bpar nd = None /\ bch nd = [] /\ dnode nd
  end.
Proof using All.
  intros HT H. apply p_open_post2 in H. unfold open_post2 in H. destruct o as [[[id k] r]|].
  - destruct H as (nd & Eh & Eid & Pn & Cn & Dn). rewrite Eh.
    split; [apply TC_alloc; assumption|]. split; [apply kkeep_alloc|]. exists nd. auto.
  - rewrite H. split; [exact HT|]. split; [apply kkeep_refl|reflexivity].
Qed.

Lemma p_continue_TC bp s node s' c k : TC (s_h s) -> p_continue bp s node = Ok (s', c, k) ->
  TC (s_h s') /\ kkeep (s_h s) (s_h s').
Proof using All.
  intros HT H. split.
  - eapply TC_pcs; [exact HT|]. eapply p_continue_pcs, H.
  - eapply kkeep_hRk. exact (proj1 (p_continue_sR space_table re_t1c 0%nat bp s node s' c k H)).
Qed.

Lemma PLt_HInv h : HInv h -> PLt h.
Proof. intros HH i n p Hi Hp. exact (hi_par _ _ _ HH i n p Hi Hp). Qed.

Lemma code_close_pcs s node s' : code_close space_table s node = Ok s' -> pcs (s_h s) (s_h s').
Proof.
  unfold code_close. intros H. gc_bind H n En. gc_bind H ls Els. gc_bind H h Eh. injection H as <-. pcfin.
Qed.
Lemma fenced_close_pcs s node s' : fenced_close s node = Ok s' -> pcs (s_h s) (s_h s').
Proof.
  unfold fenced_close. intros H. destruct (c_fence (s_c s)) as [[[[ch ind] fl] n]|]; [|discriminate].
  injection H as <-. destruct (Nat.eqb n node); pcfin.
Qed.

Lemma paragraph_close_TC s node s' : PLt (s_h s) -> TC (s_h s) -> paragraph_close space_table s node = Ok s' -> TC (s_h s').
Proof.
  unfold paragraph_close. intros HP HT H. gc_bind H n En. apply hget_inv in En.
  destruct (blines n) as [|sg0 rest].
  - destruct (bpar n) as [p|] eqn:Ep; [|discriminate]. gc_bind H h Eh. injection H as <-. prj.
    eapply TC_remove_child; [exact HT|exact Eh|]. pose proof (HP node n p En Ep). lia.
  - gc_bind H ls Els. destruct (rev ls) as [|lst pre]; [discriminate|].
    gc_bind H lst2 El2. gc_bind H h Eh. injection H as <-. prj.
    eapply TC_hupd; [exact HT|exact Eh|intros m; cbn; auto].
Qed.

Lemma setext_close_TC s node s' : PLt (s_h s) -> TC (s_h s) -> setext_close space_table s node = Ok s' -> TC (s_h s').
Proof.
  unfold setext_close. intros HP HT H. gc_bind H n En. apply hget_inv in En.
  destruct (blines n) as [|sg rest]; [discriminate|].
  destruct (c_tmp_para (s_c s)) as [tmp|]; [|discriminate].
  gc_bind H h1 Eh1. prjall.
  assert (S1 : pcs (s_h s) h1) by (eapply pcs_hupd; [exact Eh1|intros m; cbn; auto]).
  pose proof (TC_pcs _ _ HT S1) as HT1. pose proof (PLt_pcs _ _ HP S1) as HP1.
  gc_bind H t Et. apply hget_inv in Et.
  destruct (blines t) as [|tl0 tls].
  - destruct (bpar n) as [p|] eqn:Epn; [|discriminate].
    gc_bind H pn Ep. apply hget_inv in Ep. gc_bind H sg2 Esg. gc_bind H is_para Eip. gc_bind H s2 Es2. gc_bind H h3 Eh3.
    injection H as <-. prj.
    assert (HT2 : TC (s_h s2)).
    { destruct is_para.
      - match type of Es2 with match ?nx with Some _ => _ | None => _ end = _ => destruct nx as [y|] end; [|discriminate].
        gc_bind Es2 h2 Eh2. gc_bind Es2 ny Eny. destruct (blines ny); [discriminate|]. injection Es2 as <-. prj.
        eapply TC_hupd; [exact HT1|exact Eh2|]. intros m. cbv beta. destruct (blines m); cbn; auto.
      - newn Es2. gc_bind Es2 h2 Eh2. injection Es2 as <-. prjall.
        assert (HTa : TC (h1 ++ [set_lines (mknode BParagraph 0) [sg2]])) by (apply TC_alloc; [exact HT1|reflexivity|reflexivity]).
        eapply TC_insert_after; [exact HTa|exact Eh2|apply nth_error_alloc_new|reflexivity|].
        apply nth_error_lt in Ep. lia. }
    eapply TC_remove_child; [exact HT2|exact Eh3|]. pose proof (HP node n p En Epn). lia.
  - gc_bind H h2 Eh2.
    assert (HT2 : TC h2) by (eapply TC_hupd; [exact HT1|exact Eh2|intros m; cbn; auto]).
    destruct (bpar t) as [tp|] eqn:Ept.
    + gc_bind H h3 Eh3. injection H as <-. prj. eapply TC_remove_child; [exact HT2|exact Eh3|].
      pose proof (HP1 tmp t tp Et Ept). lia.
    + injection H as <-. prj. exact HT2.
Qed.

Lemma lrd_transform_TC s node s' : PLt (s_h s) -> TC (s_h s) ->
  lrd_transform space_table punct_table norm s node = Ok s' -> TC (s_h s').
Proof.
  unfold lrd_transform. intros HP HT H. gc_bind H n En. apply hget_inv in En. gc_bind H br Ebr. gc_bind H x Ex.
  destruct x as [c removes]. gc_bind H lines Elines.
  destruct lines as [|l0 ls].
  - newn H. destruct (bpar n) as [p|] eqn:Ep; [|discriminate]. gc_bind H h Eh. injection H as <-. prjall.
    pose proof (HP node n p En Ep) as Hlt. pose proof (nth_error_lt _ _ _ En) as Hl.
    assert (HTa : TC (s_h s ++ [set_blank (mknode BTextBlock 0) (bblank n)])) by (apply TC_alloc; [exact HT|reflexivity|reflexivity]).
    eapply TC_replace_child; [exact HTa|exact Eh|apply nth_error_alloc_new|reflexivity|lia|lia|lia].
  - gc_bind H h Eh. injection H as <-. prjall. eapply TC_hupd; [exact HT|exact Eh|intros m; cbn; auto].
Qed.

Lemma p_close_TC bp s node s' : HInv (s_h s) -> TC (s_h s) -> p_close bp s node = Ok s' ->
  TC (s_h s') /\ kkeep (s_h s) (s_h s').
Proof using All.
  intros HH HT H. pose proof (PLt_HInv _ HH) as HP. split.
  - destruct bp; cbn [p_close] in H; try (injection H as <-; exact HT).
    + eapply setext_close_TC; eassumption.
    + eapply list_close_TC; eassumption.
    + eapply TC_pcs; [exact HT|]. eapply code_close_pcs, H.
    + eapply TC_pcs; [exact HT|]. eapply fenced_close_pcs, H.
    + eapply paragraph_close_TC; eassumption.
  - eapply kkeep_hRk. exact (proj1 (p_close_sR space_table 0%nat bp s node s' (Nat.le_0_l _) H)).
Qed.

Lemma transform_paragraph_TC s node s' g : HInv (s_h s) -> TC (s_h s) -> transform_paragraph s node = Ok (s', g) ->
  TC (s_h s') /\ kkeep (s_h s) (s_h s').
Proof using All.
  intros HH HT H. pose proof (PLt_HInv _ HH) as HP. split.
  - unfold BlockParse.transform_paragraph in H. gc_bind H s1 Es1. gc_bind H n En. injection H as <- _.
    eapply lrd_transform_TC; eassumption.
  - eapply kkeep_hRk.
    exact (proj1 (transform_paragraph_sR space_table punct_table norm 0%nat s node s' g (Nat.le_0_l _) H)).
Qed.

(* ---------- what closing and transforming a paragraph leaves untouched ---------- *)
Lemma paragraph_close_same s node s' n : nth_error (s_h s) node = Some n -> blines n <> [] ->
  paragraph_close space_table s node = Ok s' ->
  forall j, j <> node -> nth_error (s_h s') j = nth_error (s_h s) j.
Proof using All.
  intros Hn Hl H j Hj. unfold paragraph_close in H. rewrite (hget_some _ _ _ Hn) in H. cbn [bind] in H.
  destruct (blines n) as [|sg0 rest]; [congruence|].
  gc_bind H ls Els. destruct (rev ls) as [|lst pre]; [discriminate|].
  gc_bind H lst2 El2. gc_bind H h Eh. injection H as <-. prj.
  destruct (hupd_inv _ _ _ _ Eh) as (m & _ & ->). apply hset_other. congruence.
Qed.

(* every old node but the paragraph and its parent *)
Lemma transform_paragraph_same s node s' g n p : nth_error (s_h s) node = Some n -> bpar n = Some p ->
  transform_paragraph s node = Ok (s', g) ->
  forall j, j <> node -> j <> p -> (j < length (s_h s))%nat -> nth_error (s_h s') j = nth_error (s_h s) j.
Proof using All.
  intros Hn Hp H j Hjn Hjp Hjl. unfold BlockParse.transform_paragraph in H. gc_bind H s1 Es1. gc_bind H n1 En1.
  injection H as <- _. unfold lrd_transform in Es1. rewrite (hget_some _ _ _ Hn) in Es1. cbn [bind] in Es1.
  gc_bind Es1 br Ebr. gc_bind Es1 x Ex. destruct x as [c removes]. gc_bind Es1 lines Elines.
  destruct lines as [|l0 ls].
  - newn Es1. rewrite Hp in Es1. gc_bind Es1 h Eh. injection Es1 as <-. prjall.
    rewrite (replace_child_other _ _ _ _ _ Eh j) by lia. apply nth_error_app1. exact Hjl.
  - gc_bind Es1 h Eh. injection Es1 as <-. prjall.
    destruct (hupd_inv _ _ _ _ Eh) as (m & _ & ->). apply hset_other. congruence.
Qed.

End S.
