(* C11 for the model with the DefinitionList extension, block phase (helper file 1):
   the invariant of the heap of the default block parser that makes the generalised driver of
   model/TypoDefParseD.v coincide with the driver of model/BlockParse.v when the extension is
   off:  no node of the heap is one of the three node kinds of the extension (dheap), and
   the steps of the default parsers keep kind, type field and (for old nodes) detachedness (hRk). *)
Require Import GM.model.Base GM.model.Util GM.model.Reader GM.model.Blocks GM.model.ListItem
               GM.model.LeafBlocks GM.model.CodeBlock GM.model.LinkDest GM.model.Regex
               GM.model.BlockParse GM.model.TypoDefParseD.
Require Import GM.proofs.GfmConservativeDefs GM.proofs.ParseBlocksTotalDefs.
From Coq Require Import List ZArith NArith Bool Lia.
Import ListNotations.
Open Scope Z_scope.

(* ---------- no node of the DefinitionList extension ---------- *)
Definition dnode (n : bnode) : Prop := is_dl n = false /\ is_dt n = false /\ is_dd n = false.
Definition dheap (h : heap) : Prop :=
  Forall (fun n => is_dl n = false /\ is_dt n = false /\ is_dd n = false) h.

Lemma dnode_same n n' : bk n' = bk n -> b_i1 n' = b_i1 n -> dnode n -> dnode n'.
Proof. unfold dnode, is_dl, is_dt, is_dd. intros -> ->. auto. Qed.
Lemma dnode_kind n : bk n <> BHTML -> dnode n.
Proof.
  unfold dnode, is_dl, is_dt, is_dd. intros H.
  destruct (bkind_eqb_spec (bk n) BHTML) as [E|_]; [contradiction|]. auto.
Qed.
Lemma dnode_typ n : b_i1 n <> 100 -> b_i1 n <> 101 -> b_i1 n <> 102 -> dnode n.
Proof.
  unfold dnode, is_dl, is_dt, is_dd. intros H0 H1 H2.
  destruct (Z.eqb_spec (b_i1 n) 100); [contradiction|].
  destruct (Z.eqb_spec (b_i1 n) 101); [contradiction|].
  destruct (Z.eqb_spec (b_i1 n) 102); [contradiction|].
  rewrite !andb_false_r. auto.
Qed.
Lemma dheap_nth h i n : dheap h -> nth_error h i = Some n -> dnode n.
Proof. intros H E. unfold dheap in H. rewrite Forall_forall in H. apply H. eapply nth_error_In, E. Qed.
Lemma dheap_intro h : (forall i n, nth_error h i = Some n -> dnode n) -> dheap h.
Proof.
  intros H. unfold dheap. rewrite Forall_forall. intros n Hin.
  destruct (In_nth_error _ _ Hin) as [i E]. exact (H i n E).
Qed.

(* ---------- one or more steps of the heap ---------- *)
(* old nodes keep kind and type field, old nodes below k stay detached when they are, new nodes
   are no nodes of the extension *)
Definition hRk (k : nat) (h h' : heap) : Prop :=
  (length h <= length h')%nat /\
  (forall i n, nth_error h i = Some n -> exists n', nth_error h' i = Some n' /\ bk n' = bk n /\ b_i1 n' = b_i1 n /\
      ((i < k)%nat -> bpar n = None -> bpar n' = None)) /\
  (forall i n', (length h <= i)%nat -> nth_error h' i = Some n' -> dnode n').

Lemma hRk_refl k h : hRk k h h.
Proof.
  split; [lia|]. split.
  - intros i n E. exists n. auto.
  - intros i n' L E. apply nth_error_lt in E. lia.
Qed.
Lemma hRk_trans k a b c : hRk k a b -> hRk k b c -> hRk k a c.
Proof.
  intros (L1 & O1 & N1) (L2 & O2 & N2). split; [lia|]. split.
  - intros i n E. destruct (O1 i n E) as (n1 & E1 & K1 & T1 & P1).
    destruct (O2 i n1 E1) as (n2 & E2 & K2 & T2 & P2). exists n2. split; [exact E2|].
    split; [congruence|]. split; [congruence|]. auto.
  - intros i n' L E. destruct (Nat.lt_ge_cases i (length b)) as [Hlt|Hge].
    + destruct (nth_error_ex_lt b i Hlt) as [n1 E1]. destruct (O2 i n1 E1) as (n2 & E2 & K2 & T2 & _).
      rewrite E in E2. injection E2 as <-. eapply dnode_same; [exact K2|exact T2|]. exact (N1 i n1 L E1).
    + exact (N2 i n' Hge E).
Qed.
Lemma hRk_mono k k' h h' : (k' <= k)%nat -> hRk k h h' -> hRk k' h h'.
Proof.
  intros Hk (L & O & N). split; [exact L|]. split; [|exact N].
  intros i n E. destruct (O i n E) as (n1 & E1 & K1 & T1 & P1). exists n1. split; [exact E1|].
  split; [exact K1|]. split; [exact T1|]. intros Hi. apply P1. lia.
Qed.
Lemma hRk_len k h h' : hRk k h h' -> (length h <= length h')%nat.
Proof. intros H. apply H. Qed.
Lemma hRk_dheap k h h' : hRk k h h' -> dheap h -> dheap h'.
Proof.
  intros (L & O & N) D. apply dheap_intro. intros i n' E.
  destruct (Nat.lt_ge_cases i (length h)) as [Hlt|Hge]; [|exact (N i n' Hge E)].
  destruct (nth_error_ex_lt h i Hlt) as [n En]. destruct (O i n En) as (n1 & E1 & K1 & T1 & _).
  rewrite E in E1. injection E1 as <-. eapply dnode_same; [exact K1|exact T1|]. eapply dheap_nth; eassumption.
Qed.
Lemma hRk_nth k h h' i n : hRk k h h' -> nth_error h i = Some n ->
  exists n', nth_error h' i = Some n' /\ bk n' = bk n /\ b_i1 n' = b_i1 n /\ ((i < k)%nat -> bpar n = None -> bpar n' = None).
Proof. intros (_ & O & _) E. exact (O i n E). Qed.
(* the composition of the steps of two functions, each stated for the heap at its entry *)
Lemma hRk_seq a b c : hRk (length a) a b -> hRk (length b) b c -> hRk (length a) a c.
Proof.
  intros H1 H2. eapply hRk_trans; [exact H1|]. eapply hRk_mono; [|exact H2]. apply (hRk_len _ _ _ H1).
Qed.

Lemma hRk_hset k h i n n' : nth_error h i = Some n -> bk n' = bk n -> b_i1 n' = b_i1 n ->
  ((i < k)%nat -> bpar n = None -> bpar n' = None) -> hRk k h (hset h i n').
Proof.
  intros E K T P. split; [rewrite hset_length; lia|]. split.
  - intros j x Ej. destruct (Nat.eq_dec i j) as [<-|Hne].
    + rewrite hset_same by (eapply nth_error_lt, E). exists n'. rewrite E in Ej. injection Ej as <-. auto.
    + rewrite hset_other by exact Hne. exists x. auto.
  - intros j x L Ej. rewrite <- (hset_length h i n') in L. apply nth_error_lt in Ej. lia.
Qed.
Lemma hupd_inv h i f h' : hupd h i f = Ok h' -> exists n, nth_error h i = Some n /\ h' = hset h i (f n).
Proof.
  unfold hupd. intros H. gc_bind H n En. injection H as <-. exists n. split; [apply hget_inv, En|reflexivity].
Qed.
Lemma hRk_hupd k h i f h' : hupd h i f = Ok h' ->
  (forall n, bk (f n) = bk n) -> (forall n, b_i1 (f n) = b_i1 n) ->
  (forall n, (i < k)%nat -> bpar n = None -> bpar (f n) = None) -> hRk k h h'.
Proof.
  intros H K T P. destruct (hupd_inv _ _ _ _ H) as (n & E & ->). eapply hRk_hset; [exact E|apply K|apply T|apply P].
Qed.
(* an update that keeps kind, type field and parent *)
Lemma hRk_hupd_simple k h i f h' : hupd h i f = Ok h' ->
  (forall n, bk (f n) = bk n /\ b_i1 (f n) = b_i1 n /\ bpar (f n) = bpar n) -> hRk k h h'.
Proof.
  intros H F. eapply hRk_hupd; [exact H|apply F|apply F|]. intros n _ E. rewrite (proj2 (proj2 (F n))). exact E.
Qed.
Lemma hupd_length h i f h' : hupd h i f = Ok h' -> length h' = length h.
Proof. intros H. destruct (hupd_inv _ _ _ _ H) as (n & _ & ->). apply hset_length. Qed.
Lemma hRk_alloc k h n : dnode n -> hRk k h (h ++ [n]).
Proof.
  intros D. split; [rewrite app_length; cbn [length]; lia|]. split.
  - intros i x E. exists x. split; [apply nth_error_alloc_old, E|auto].
  - intros i x L E. destruct (nth_error_alloc_inv _ _ _ _ E) as [E1|[_ ->]]; [|exact D].
    apply nth_error_lt in E1. lia.
Qed.

Lemma hRk_append_child k h p c h' : append_child h p c = Ok h' -> (k <= c)%nat -> hRk k h h'.
Proof.
  unfold append_child. intros H Hk. gc_bind H h1 E1.
  eapply hRk_trans; [eapply hRk_hupd; [exact E1|reflexivity|reflexivity|intros; lia]|].
  eapply hRk_hupd_simple; [exact H|]. intros n. auto.
Qed.
Lemma append_child_length h p c h' : append_child h p c = Ok h' -> length h' = length h.
Proof.
  unfold append_child. intros H. gc_bind H h1 E1. rewrite (hupd_length _ _ _ _ H). exact (hupd_length _ _ _ _ E1).
Qed.
Lemma hRk_remove_child k h p c h' : remove_child h p c = Ok h' -> hRk k h h'.
Proof.
  unfold remove_child. intros H. gc_bind H n En.
  destruct (opt_nat_eqb (bpar n) (Some p)); [|injection H as <-; apply hRk_refl].
  gc_bind H h1 E1.
  eapply hRk_trans; [eapply hRk_hupd_simple; [exact E1|]; intros m; auto|].
  eapply hRk_hupd; [exact H|reflexivity|reflexivity|reflexivity].
Qed.
Lemma hRk_replace_child k h p old new h' : replace_child h p old new = Ok h' -> (k <= new)%nat -> hRk k h h'.
Proof.
  unfold replace_child. intros H Hk. gc_bind H n En.
  destruct (opt_nat_eqb (bpar n) (Some p)); [|injection H as <-; apply hRk_refl].
  gc_bind H h1 E1. gc_bind H h2 E2.
  eapply hRk_trans; [eapply hRk_hupd_simple; [exact E1|]; intros m; auto|].
  eapply hRk_trans; [eapply hRk_hupd; [exact E2|reflexivity|reflexivity|intros; lia]|].
  eapply hRk_hupd; [exact H|reflexivity|reflexivity|reflexivity].
Qed.
Lemma hRk_insert_after k h p ref new h' : insert_after h p ref new = Ok h' -> (k <= new)%nat -> hRk k h h'.
Proof.
  unfold insert_after. intros H Hk. gc_bind H h1 E1.
  eapply hRk_trans; [eapply hRk_hupd_simple; [exact E1|]; intros m; auto|].
  eapply hRk_hupd; [exact H|reflexivity|reflexivity|intros; lia].
Qed.

(* ---------- steps of the state: the heap steps and the opened-blocks slice is kept ---------- *)
Definition sR (k : nat) (s s' : st) : Prop :=
  hRk k (s_h s) (s_h s') /\ c_arr (s_c s') = c_arr (s_c s) /\ c_len (s_c s') = c_len (s_c s).

Lemma sR_refl k s : sR k s s.
Proof. split; [apply hRk_refl|auto]. Qed.
Lemma sR_trans k a b c : sR k a b -> sR k b c -> sR k a c.
Proof.
  intros (H1 & A1 & L1) (H2 & A2 & L2). split; [eapply hRk_trans; eassumption|]. split; congruence.
Qed.
Lemma sR_mono k k' s s' : (k' <= k)%nat -> sR k s s' -> sR k' s s'.
Proof. intros Hk (H & A & L). split; [eapply hRk_mono; eassumption|auto]. Qed.
Lemma sR_seq a b c : sR (length (s_h a)) a b -> sR (length (s_h b)) b c -> sR (length (s_h a)) a c.
Proof.
  intros H1 H2. eapply sR_trans; [exact H1|]. eapply sR_mono; [|exact H2]. apply (hRk_len _ _ _ (proj1 H1)).
Qed.
Lemma sR_st_r k s s' r : sR k s s' -> sR k s (st_r s' r).
Proof. intros H. exact H. Qed.
Lemma sR_st_h k s s' h : sR k s s' -> hRk k (s_h s') h -> sR k s (st_h s' h).
Proof. intros (H & A & L) Hh. split; [eapply hRk_trans; eassumption|auto]. Qed.
Lemma sR_st_c k s s' c : sR k s s' -> c_arr c = c_arr (s_c s') -> c_len c = c_len (s_c s') -> sR k s (st_c s' c).
Proof. intros (H & A & L) Ha Hl. split; [exact H|]. cbn [st_c s_c]. split; congruence. Qed.
Lemma sR_len k s s' : sR k s s' -> (length (s_h s) <= length (s_h s'))%nat.
Proof. intros H. apply (hRk_len _ _ _ (proj1 H)). Qed.
Lemma sR_dheap k s s' : sR k s s' -> dheap (s_h s) -> dheap (s_h s').
Proof. intros H. apply (hRk_dheap _ _ _ (proj1 H)). Qed.

(* ---------- the reader functions of the state ---------- *)
Lemma peek_line_s_inv s s' l sg : peek_line_s s = Ok (s', l, sg) -> exists r, s' = st_r s r.
Proof.
  unfold peek_line_s. intros H. gc_bind H x Ex. destruct x as [[r l0] sg0]. injection H as <- _ _. eauto.
Qed.
Lemma line_offset_s_inv s s' o : line_offset_s s = Ok (s', o) -> exists r, s' = st_r s r.
Proof.
  unfold line_offset_s. intros H. gc_bind H x Ex. destruct x as [r o0]. injection H as <- _. eauto.
Qed.
Lemma advance_s_inv s n s' : advance_s s n = Ok s' -> exists r, s' = st_r s r.
Proof. unfold advance_s. intros H. gc_bind H r Er. injection H as <-. eauto. Qed.

(* ---------- sublists of the opened-blocks array ---------- *)
Lemma incl_firstn {A} n (l : list A) : incl (firstn n l) l.
Proof.
  revert l. induction n as [|n IH]; intros l x Hx; [contradiction|].
  destruct l as [|y l]; [contradiction|]. cbn [firstn In] in *. destruct Hx as [->|Hx]; [auto|right; apply IH, Hx].
Qed.
Lemma incl_skipn {A} n (l : list A) : incl (skipn n l) l.
Proof.
  revert l. induction n as [|n IH]; intros l x Hx; [exact Hx|].
  destruct l as [|y l]; [contradiction|]. cbn [skipn] in Hx. right. apply IH, Hx.
Qed.
