(* The printer md_of is a homomorphism on documents without reference definitions: the spelling
   of d1 ++ d2 is the spelling of d1, an empty line, the spelling of d2 - for ANY blocks, any tab
   spelling.  With a conformance theorem for a class of documents closed under concatenation this
   gives block independence (C09) for that class; done here for the quoted documents of
   proofs/SpecQuoteConform.v (block quotes nested to any depth around plain paragraphs). *)
Require Import GM.model.Base GM.model.Util GM.model.UtilI GM.model.Reader GM.model.HtmlWriter GM.model.Html GM.model.HtmlI
               GM.model.SpecDoc GM.model.BlockParse GM.model.InlineParse GM.model.ParseI.
Require Import GM.proofs.SpecConformance GM.proofs.SpecParaConform GM.proofs.SpecParaSpec
               GM.proofs.SpecQuoteShape GM.proofs.SpecQuoteSpec GM.proofs.SpecQuoteConform.
From Coq Require Import List NArith ZArith Bool Lia.
Import ListNotations.
Open Scope N_scope.

Lemma doc_lines_app : forall d1 d2, d1 <> [] -> d2 <> [] ->
  doc_lines (d1 ++ d2) = doc_lines d1 ++ [blank] ++ doc_lines d2.
Proof.
  induction d1 as [|b r IH]; intros d2 H1 H2; [contradiction|].
  destruct r as [|b2 r'].
  - destruct d2 as [|x d2']; [contradiction|]. reflexivity.
  - change ((b :: b2 :: r') ++ d2) with (b :: (b2 :: r') ++ d2).
    change (doc_lines (b :: (b2 :: r') ++ d2)) with (block_lines b ++ [blank] ++ doc_lines ((b2 :: r') ++ d2)).
    rewrite (IH d2 ltac:(discriminate) H2).
    change (doc_lines (b :: b2 :: r')) with (block_lines b ++ [blank] ++ doc_lines (b2 :: r')).
    rewrite <- !app_assoc. reflexivity.
Qed.
Lemma line_md_blank tabs : line_md tabs blank = [].
Proof. destruct tabs; reflexivity. Qed.

Theorem md_of_app : forall tabs fin d1 d2,
  d1 <> [] -> d2 <> [] ->
  flat_map block_defs d1 = [] -> flat_map block_defs d2 = [] ->
  map (line_md tabs) (doc_lines d1) <> [] -> map (line_md tabs) (doc_lines d2) <> [] ->
  md_of tabs fin (d1 ++ d2) = md_of tabs true d1 ++ nl ++ md_of tabs fin d2.
Proof.
  intros tabs fin d1 d2 H1 H2 D1 D2 L1 L2. unfold md_of.
  rewrite flat_map_app, D1, D2. cbn [app]. rewrite !app_nil_r.
  rewrite (doc_lines_app d1 d2 H1 H2). rewrite !map_app.
  rewrite join_app_ne; [|exact L1|discriminate].
  rewrite join_app_ne; [|discriminate|exact L2].
  cbn [map join]. rewrite line_md_blank. cbn [app]. rewrite <- !app_assoc. reflexivity.
Qed.

(* ---------- C09 for quoted documents ---------- *)
Lemma qdoc_inv fuel d : qdoc fuel d = true -> d <> [] /\ forallb (qblock fuel) d = true.
Proof.
  unfold qdoc. intros H. apply andb_true_iff in H. destruct H as [Hn Hd].
  split; [destruct d; [discriminate|discriminate]|exact Hd].
Qed.
Lemma qdoc_app fuel d1 d2 : qdoc fuel d1 = true -> qdoc fuel d2 = true -> qdoc fuel (d1 ++ d2) = true.
Proof.
  intros H1 H2. destruct (qdoc_inv fuel d1 H1) as [Hn1 Hd1]. destruct (qdoc_inv fuel d2 H2) as [Hn2 Hd2].
  unfold qdoc. rewrite forallb_app, Hd1, Hd2. destruct d1; [congruence|reflexivity].
Qed.
Lemma qdoc_facts fuel d : qdoc fuel d = true ->
  d <> [] /\ flat_map block_defs d = [] /\ map (line_md false) (doc_lines d) <> [].
Proof.
  intros H. destruct (qdoc_inv fuel d H) as [Hn _].
  change (qdoc_s fuel d = true) in H.
  destruct (qdoc_spec fuel d H) as (Hok & _ & Hd & HL).
  destruct (top_lines _ Hok) as (Hne & _ & _ & _).
  split; [exact Hn|]. split; [exact Hd|]. rewrite HL. exact Hne.
Qed.
Lemma qdoc_md_app fuel d1 d2 fin : qdoc fuel d1 = true -> qdoc fuel d2 = true ->
  md_of false true d1 ++ nl ++ md_of false fin d2 = md_of false fin (d1 ++ d2).
Proof.
  intros H1 H2. destruct (qdoc_facts fuel d1 H1) as (N1 & D1 & L1). destruct (qdoc_facts fuel d2 H2) as (N2 & D2 & L2).
  symmetry. apply md_of_app; assumption.
Qed.

(* a quoted document, an empty line, a quoted document: the conversions side by side *)
Theorem quoted_docs_independent : forall c fin fuel d1 d2 o1 o2,
  hardwraps c = false -> qdoc fuel d1 = true -> qdoc fuel d2 = true ->
  ConvertModel c (md_of false true d1) = Ok o1 ->
  ConvertModel c (md_of false fin d2) = Ok o2 ->
  ConvertModel c (md_of false true d1 ++ nl ++ md_of false fin d2) = Ok (o1 ++ o2).
Proof.
  intros c fin fuel d1 d2 o1 o2 Hc H1 H2 E1 E2.
  rewrite (quoted_doc_conforms c true fuel d1 Hc H1) in E1. injection E1 as <-.
  rewrite (quoted_doc_conforms c fin fuel d2 Hc H2) in E2. injection E2 as <-.
  rewrite (qdoc_md_app fuel d1 d2 fin H1 H2).
  rewrite (quoted_doc_conforms c fin fuel (d1 ++ d2) Hc (qdoc_app fuel d1 d2 H1 H2)).
  unfold html_of. rewrite flat_map_app. reflexivity.
Qed.

Example quoted_indep_example :
  let d1 := [BQuote 0 [BPara 0 [AWord [97]]; BQuote 1 [BPara 0 [AWord [98]]]]] in
  let d2 := [BPara 0 [AWord [99]]] in
  qdoc 3 d1 = true /\ qdoc 3 d2 = true /\
  md_of false true d1 ++ nl ++ md_of false true d2 = [62;32;97;10; 62;10; 62;32;62;98;10; 10; 99;10].
Proof. vm_compute. repeat split. Qed.
