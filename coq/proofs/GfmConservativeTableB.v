(* C11 for the GFM parser model, Table extension, part B: on a source without '-' (byte 45) a
   successful run of the block driver with the Table paragraph transformer (model/BlockParseX.v,
   table_on = true) is a run of the driver without it (table_on = false) with the same result.
   The transformer is only reached with the lines of a paragraph of the same source
   (GfmConservativeTableBSrc.v: no block-phase step changes the source of the reader), and on
   such a source it finds no delimiter row (GfmConservativeTableA.v). *)
Require Import GM.model.Base GM.model.Util GM.model.Reader GM.model.Blocks GM.model.ListItem
               GM.model.LeafBlocks GM.model.CodeBlock GM.model.LinkDest GM.model.Regex
               GM.model.Html GM.model.TableX GM.model.BlockParse GM.model.BlockParseX.
Require Import GM.proofs.GfmConservativeDefs GM.proofs.GfmConservativeTableA
               GM.proofs.GfmConservativeTableBSrc.
From Coq Require Import List ZArith NArith Bool Lia.
Import ListNotations.
Open Scope Z_scope.

(* the state inside the results of the driver functions *)
Definition tbx_sum (r : stx + stx) : stx := match r with inl x => x | inr x => x end.
Definition tbx_try (t : try_resX) : stx := match t with TRetryX _ _ _ x => x | TDoneX _ x => x end.

Ltac tb_nope := let H := fresh "Hnope" in intros H; discriminate H.
Ltac tb_src := unfold src_of in *; cbn [bx_s stx_s st_c st_h st_r s_r tbx_sum tbx_try fst snd] in *; congruence.

Section TabB.
Variable space_table punct_table : list N.
Variable norm : bytes -> bytes.
Variable re_t1o re_t1c re_t2 re_t3 re_t4 re_t5 re_t6 re_t7 : re.
Variable allowed_tags : list bytes.
Variable src : bytes.
Hypothesis Hnd : ~ In 45%N src.
Notation p_open := (p_open space_table re_t1o re_t2 re_t3 re_t4 re_t5 re_t6 re_t7 allowed_tags).
Notation p_continue := (p_continue space_table re_t1c).
Notation p_close := (p_close space_table).
Notation lrd_transform := (lrd_transform space_table punct_table norm).
Notation TPX b := (transform_paragraphX b space_table punct_table norm).
Notation CRX b := (close_rangeX b space_table punct_table norm).
Notation CBX b := (close_blocksX b space_table punct_table norm).
Notation TRYX b := (try_parsersX b space_table punct_table norm re_t1o re_t2 re_t3 re_t4 re_t5 re_t6 re_t7 allowed_tags).
Notation OBLX b := (open_blocks_loopX b space_table punct_table norm re_t1o re_t2 re_t3 re_t4 re_t5 re_t6 re_t7 allowed_tags).
Notation OBX b := (open_blocksX b space_table punct_table norm re_t1o re_t1c re_t2 re_t3 re_t4 re_t5 re_t6 re_t7 allowed_tags).
Notation EOX b := (each_openedX b space_table punct_table norm re_t1o re_t1c re_t2 re_t3 re_t4 re_t5 re_t6 re_t7 allowed_tags).
Notation LLX b := (lines_loopX b space_table punct_table norm re_t1o re_t1c re_t2 re_t3 re_t4 re_t5 re_t6 re_t7 allowed_tags).
Notation PBLX b := (parse_blocks_loopX b space_table punct_table norm re_t1o re_t1c re_t2 re_t3 re_t4 re_t5 re_t6 re_t7 allowed_tags).

(* transformParagraph: the Table transformer finds nothing *)
Lemma tbx_transform_paragraph x node r : src_of (bx_s x) = src ->
  TPX true x node = Ok r -> TPX false x node = Ok r /\ src_of (bx_s (fst r)) = src.
Proof.
  intros Hx. unfold transform_paragraphX.
  destruct (lrd_transform (bx_s x) node) as [s| |] eqn:El; cbn [bind]; try tb_nope.
  apply tbs_lrd_transform in El.
  destruct (hget (s_h s) node) as [n| |] eqn:En; cbn [bind]; try tb_nope.
  destruct (bpar n) as [p|] eqn:Ep.
  - intros H. gc_bind H x1 H1. unfold table_transform in H1. cbn [bx_s stx_s] in H1.
    rewrite En in H1. cbn [bind] in H1. gc_bind H1 t Ht.
    apply transform_no_dash_ok in Ht; [|rewrite El, Hx; exact Hnd]. subst t.
    injection H1 as <-. cbn [bx_s stx_s] in H. rewrite En in H. cbn [bind] in H. rewrite Ep in H.
    injection H as <-. split; [reflexivity|]. cbn [fst bx_s stx_s]. congruence.
  - intros H. injection H as <-. split; [reflexivity|]. cbn [fst bx_s stx_s]. congruence.
Qed.

Lemma tbx_close_range : forall cnt x blocks i r, src_of (bx_s x) = src ->
  CRX true x blocks cnt i = Ok r -> CRX false x blocks cnt i = Ok r /\ src_of (bx_s r) = src.
Proof.
  induction cnt as [|k IH]; intros x blocks i r Hx; cbn [close_rangeX].
  - intros H. injection H as <-. split; [reflexivity|exact Hx].
  - destruct ((i <? 0) || (zlen blocks <=? i)); [tb_nope|].
    destruct (nth_error blocks (Z.to_nat i)) as [[node p]|]; [|tb_nope].
    destruct (is_paragraph (s_h (bx_s x)) node) as [isp| |]; cbn [bind]; try tb_nope.
    destruct (attached (s_h (bx_s x)) node) as [att| |]; cbn [bind]; try tb_nope.
    assert (Htail : forall x1, src_of (bx_s x1) = src ->
      (att <- attached (s_h (bx_s x1)) node ;;
       x <- (if att then lift0 x1 (p_close p (bx_s x1) node) else Ok x1) ;;
       CRX true x blocks k (i - 1)) = Ok r ->
      (att <- attached (s_h (bx_s x1)) node ;;
       x <- (if att then lift0 x1 (p_close p (bx_s x1) node) else Ok x1) ;;
       CRX false x blocks k (i - 1)) = Ok r /\ src_of (bx_s r) = src).
    { intros x1 Hx1.
      destruct (attached (s_h (bx_s x1)) node) as [att2| |]; cbn [bind]; try tb_nope.
      destruct att2.
      - unfold lift0. destruct (p_close p (bx_s x1) node) as [s2| |] eqn:Ec; cbn [bind]; try tb_nope.
        apply tbs_p_close in Ec. apply IH. cbn [bx_s stx_s]. congruence.
      - cbn [bind]. apply IH. exact Hx1. }
    destruct (isp && att).
    + destruct (TPX true x node) as [y| |] eqn:Ey; cbn [bind]; try tb_nope.
      destruct (tbx_transform_paragraph _ _ _ Hx Ey) as [Eyf Hy]. rewrite Eyf. cbn [bind].
      apply Htail. exact Hy.
    + cbn [bind]. apply Htail. exact Hx.
Qed.

Lemma tbx_close_blocks x from to r : src_of (bx_s x) = src ->
  CBX true x from to = Ok r -> CBX false x from to = Ok r /\ src_of (bx_s r) = src.
Proof.
  intros Hx. unfold close_blocksX.
  destruct (CRX true x (opened (s_c (bx_s x))) (Z.to_nat (from - to + 1)) from) as [x1| |] eqn:E1; cbn [bind]; try tb_nope.
  destruct (tbx_close_range _ _ _ _ _ Hx E1) as [E1f Hx1]. rewrite E1f. cbn [bind].
  destruct (from =? Z.of_nat (c_len (s_c (bx_s x1))) - 1).
  - destruct ((to <? 0) || (Z.of_nat (c_len (s_c (bx_s x1))) <? to)); [tb_nope|].
    intros H. injection H as <-. split; [reflexivity|tb_src].
  - destruct ((to <? 0) || (from + 1 <? to) || (Z.of_nat (c_len (s_c (bx_s x1))) <? from + 1)); [tb_nope|].
    intros H. injection H as <-. split; [reflexivity|tb_src].
Qed.

Lemma tbx_try_parsers : forall bps parent blank cont res w x r, src_of (bx_s x) = src ->
  TRYX true bps parent blank cont res w x = Ok r ->
  TRYX false bps parent blank cont res w x = Ok r /\ src_of (bx_s (tbx_try r)) = src.
Proof.
  induction bps as [|bp rest IH]; intros parent blank cont res w x r Hx; cbn [try_parsersX].
  - intros H. injection H as <-. split; [reflexivity|exact Hx].
  - destruct (cont && (res =? noBlocksOpened) && negb (can_interrupt_paragraph bp)); [apply IH; exact Hx|].
    destruct ((3 <? w) && negb (can_accept_indented bp)); [apply IH; exact Hx|].
    destruct (p_open bp (bx_s x) parent) as [[s o]| |] eqn:Eo; cbn [bind]; try tb_nope.
    apply tbs_p_open in Eo. assert (Hs : src_of s = src) by congruence.
    destruct o as [[[node hc] rp]|].
    2:{ apply IH. cbn [bx_s stx_s]. exact Hs. }
    cbn [bx_s stx_s].
    match goal with |- (bind ?A _ = _) -> (bind ?B _ = _) /\ _ => set (RT := A); set (RF := B) end.
    assert (HR : forall rr, RT = Ok rr -> RF = Ok rr /\ src_of (bx_s (tbx_sum rr)) = src).
    { subst RT RF. intros rr.
      destruct rp; [|intros H; injection H as <-; split; [reflexivity|exact Hs]].
      destruct (last_opened (s_c (bx_s x))) as [[last lp]|];
        [|intros H; injection H as <-; split; [reflexivity|exact Hs]].
      destruct (hget (s_h s) parent) as [pn| |]; cbn [bind]; try tb_nope.
      destruct (opt_nat_eqb (Some last) (last_id (bch pn)));
        [|intros H; injection H as <-; split; [reflexivity|exact Hs]].
      destruct (p_close lp s last) as [s1| |] eqn:Ec; cbn [bind]; try tb_nope.
      apply tbs_p_close in Ec.
      destruct (Nat.eqb (c_len (s_c s1)) 0); [tb_nope|].
      match goal with |- (bind ?A _ = _) -> _ => destruct A as [[x2 gone]| |] eqn:Et end; cbn [bind]; try tb_nope.
      apply tbx_transform_paragraph in Et; [|tb_src].
      destruct Et as [Etf Hx2]. rewrite Etf. cbn [bind].
      destruct gone; intros H; injection H as <-; (split; [reflexivity|exact Hx2]). }
    clearbody RT RF. destruct RT as [rr| |]; cbn [bind]; try tb_nope.
    destruct (HR rr eq_refl) as [ERF Hrr]. rewrite ERF. cbn [bind]. clear HR ERF RF.
    destruct rr as [x1|x1]; cbn [tbx_sum] in Hrr.
    2:{ intros H. injection H as <-. split; [reflexivity|exact Hrr]. }
    destruct (hupd (s_h (bx_s x1)) node (fun n => set_blank n blank)) as [h| |]; cbn [bind]; try tb_nope.
    assert (Htail : forall x2, src_of (bx_s x2) = src ->
      (h0 <- append_child (s_h (bx_s x2)) parent node ;;
       (if hc
        then Ok (TRetryX node cont newBlocksOpened
                   (stx_s x2 (st_c (st_h (bx_s x2) h0) (push_opened (s_c (bx_s x2)) (node, bp)))))
        else Ok (TDoneX newBlocksOpened
                   (stx_s x2 (st_c (st_h (bx_s x2) h0) (push_opened (s_c (bx_s x2)) (node, bp))))))) = Ok r ->
      src_of (bx_s (tbx_try r)) = src).
    { intros x2 Hx2. destruct (append_child (s_h (bx_s x2)) parent node) as [h0| |]; cbn [bind]; try tb_nope.
      destruct hc; intros H; injection H as <-; tb_src. }
    destruct (last_opened (s_c (bx_s x))) as [[last lp]|].
    + cbn [bx_s stx_s st_h s_h].
      destruct (attached h last) as [att| |]; cbn [bind]; try tb_nope.
      destruct (negb att).
      * match goal with |- (bind ?A _ = _) -> _ => destruct A as [x2| |] eqn:Ecb end; cbn [bind]; try tb_nope.
        apply tbx_close_blocks in Ecb; [|tb_src].
        destruct Ecb as [Ecbf Hx2]. rewrite Ecbf. cbn [bind].
        intros H. split; [exact H|]. exact (Htail x2 Hx2 H).
      * cbn [bind]. intros H. split; [exact H|]. refine (Htail _ _ H). tb_src.
    + cbn [bind]. intros H. split; [exact H|]. refine (Htail _ _ H). tb_src.
Qed.

Lemma tbx_open_blocks_loop : forall fuel parent blank cont res x r, src_of (bx_s x) = src ->
  OBLX true fuel parent blank cont res x = Ok r ->
  OBLX false fuel parent blank cont res x = Ok r /\ src_of (bx_s (snd r)) = src.
Proof.
  induction fuel as [|f IH]; intros parent blank cont res x r Hx; cbn [open_blocks_loopX]; [tb_nope|].
  destruct (peek_line_s (bx_s x)) as [[[s line] sg]| |] eqn:Ep; cbn [bind]; try tb_nope.
  apply tbs_peek_line_s in Ep.
  destruct (line_offset_s s) as [[s1 off]| |] eqn:Eo; cbn [bind]; try tb_nope.
  apply tbs_line_offset_s in Eo.
  destruct (Blocks.indent_width (line_of line) off) as [w pos].
  match goal with |- (if ?b then _ else _) = _ -> _ => destruct b end.
  - intros H. injection H as <-. split; [reflexivity|]. cbn [snd]. tb_src.
  - match goal with |- (bind ?A _ = _) -> _ => destruct A as [t| |] eqn:Et end; cbn [bind]; try tb_nope.
    apply tbx_try_parsers in Et; [|tb_src].
    destruct Et as [Etf Ht]. rewrite Etf. cbn [bind].
    destruct t as [p2 c2 r2 x2|r2 x2]; cbn [tbx_try] in Ht.
    + apply IH. exact Ht.
    + intros H. injection H as <-. split; [reflexivity|exact Ht].
Qed.

Lemma tbx_open_blocks fuel parent blank x r : src_of (bx_s x) = src ->
  OBX true fuel parent blank x = Ok r -> OBX false fuel parent blank x = Ok r /\ src_of (bx_s (snd r)) = src.
Proof.
  intros Hx. unfold open_blocksX.
  match goal with |- (bind ?e _ = _) -> _ => destruct e as [cont| |] end; cbn [bind]; try tb_nope.
  destruct (OBLX true fuel parent blank cont noBlocksOpened x) as [[[res c2] x2]| |] eqn:El; cbn [bind]; try tb_nope.
  apply tbx_open_blocks_loop in El; [|exact Hx]. destruct El as [Elf Hx2]. rewrite Elf. cbn [bind snd] in *.
  destruct ((res =? noBlocksOpened) && c2).
  - destruct (last_opened (s_c (bx_s x2))) as [[l lp]|]; [|tb_nope].
    destruct (p_continue lp (bx_s x2) l) as [[[s3 c3] k3]| |] eqn:Ec; cbn [bind]; try tb_nope.
    apply tbs_p_continue in Ec. intros H. injection H as <-. split; [reflexivity|]. cbn [snd]. tb_src.
  - intros H. injection H as <-. split; [reflexivity|exact Hx2].
Qed.

Lemma tbx_advance_line x : src_of (bx_s x) = src -> src_of (bx_s (advance_line_x x)) = src.
Proof. intros Hx. unfold advance_line_x. cbn [bx_s stx_s]. rewrite tbs_advance_line_s. exact Hx. Qed.

Lemma tbx_each_opened : forall fuel captured root i last_index stats x r, src_of (bx_s x) = src ->
  EOX true fuel captured root i last_index stats x = Ok r ->
  EOX false fuel captured root i last_index stats x = Ok r /\ src_of (bx_s (tbx_sum (fst r))) = src.
Proof.
  induction fuel as [|f IH]; intros captured root i last_index stats x r Hx; cbn [each_openedX]; [tb_nope|].
  destruct (last_index <? i); [intros H; injection H as <-; split; [reflexivity|exact Hx]|].
  destruct (nth_error captured (Z.to_nat i)) as [[node bp]|]; [|tb_nope].
  destruct (peek_line_s (bx_s x)) as [[[s line] sg]| |] eqn:Ep; cbn [bind]; try tb_nope.
  apply tbs_peek_line_s in Ep. assert (Hs : src_of s = src) by congruence.
  cbn [bx_s stx_s].
  destruct line as [line|].
  2:{ match goal with |- (bind ?A _ = _) -> _ => destruct A as [x2| |] eqn:Ecb end; cbn [bind]; try tb_nope.
      apply tbx_close_blocks in Ecb; [|exact Hs].
      destruct Ecb as [Ecbf Hx2]. rewrite Ecbf. cbn [bind].
      intros H. injection H as <-. split; [reflexivity|]. cbn [fst tbx_sum]. apply tbx_advance_line. exact Hx2. }
  destruct (is_paragraph (s_h s) node) as [isp| |]; cbn [bind]; try tb_nope.
  match goal with |- (bind ?A _ = _) -> _ => set (C := A) end.
  assert (HC : forall c, C = Ok c -> src_of (bx_s (fst (fst c))) = src).
  { subst C. intros c. destruct (negb isp).
    - destruct (p_continue bp s node) as [[[s1 c1] k1]| |] eqn:Ec; cbn [bind]; try tb_nope.
      apply tbs_p_continue in Ec. intros H. injection H as <-. cbn [fst]. tb_src.
    - intros H. injection H as <-. exact Hs. }
  clearbody C. destruct C as [[[x1 cont] kids]| |]; cbn [bind]; try tb_nope.
  pose proof (HC _ eq_refl) as Hx1. cbn [fst] in Hx1. clear HC.
  destruct cont.
  - destruct (kids && (i =? last_index)).
    + match goal with |- (bind ?A _ = _) -> _ => destruct A as [o| |] eqn:Eob end; cbn [bind]; try tb_nope.
      apply tbx_open_blocks in Eob; [|exact Hx1].
      destruct Eob as [Eobf Ho]. rewrite Eobf. cbn [bind].
      intros H. injection H as <-. split; [reflexivity|exact Ho].
    + apply IH. exact Hx1.
  - match goal with |- (bind ?e _ = _) -> _ => destruct e as [tp| |] end; cbn [bind]; try tb_nope.
    match goal with |- (bind ?e _ = _) -> _ => destruct e as [ln| |] end; cbn [bind]; try tb_nope.
    match goal with |- (bind ?A _ = _) -> _ => destruct A as [[res x2]| |] eqn:Eob end; cbn [bind]; try tb_nope.
    apply tbx_open_blocks in Eob; [|exact Hx1].
    destruct Eob as [Eobf Hx2]. rewrite Eobf. cbn [bind snd] in *.
    destruct (negb (res =? paragraphContinuation)).
    + match goal with |- (bind ?e _ = _) -> _ => destruct e as [nl| |] end; cbn [bind]; try tb_nope.
      match goal with |- (bind ?A _ = _) -> _ => destruct A as [x3| |] eqn:Ecb end; cbn [bind]; try tb_nope.
      apply tbx_close_blocks in Ecb; [|exact Hx2].
      destruct Ecb as [Ecbf Hx3]. rewrite Ecbf. cbn [bind].
      intros H. injection H as <-. split; [reflexivity|exact Hx3].
    + intros H. injection H as <-. split; [reflexivity|exact Hx2].
Qed.

Lemma tbx_lines_loop : forall fuel root stats x r, src_of (bx_s x) = src ->
  LLX true fuel root stats x = Ok r ->
  LLX false fuel root stats x = Ok r /\ src_of (bx_s (tbx_sum (fst r))) = src.
Proof.
  induction fuel as [|f IH]; intros root stats x r Hx; cbn [lines_loopX]; [tb_nope|].
  destruct (opened (s_c (bx_s x))) as [|e0 cap].
  - intros H. injection H as <-. split; [reflexivity|exact Hx].
  - match goal with |- (bind ?A _ = _) -> _ => destruct A as [[y st1]| |] eqn:Ee end; cbn [bind]; try tb_nope.
    apply tbx_each_opened in Ee; [|exact Hx].
    destruct Ee as [Eef Hy]. rewrite Eef. cbn [bind fst] in *.
    destruct y as [x1|x1]; cbn [tbx_sum] in Hy.
    + intros H. injection H as <-. split; [reflexivity|exact Hy].
    + apply IH. apply tbx_advance_line. exact Hy.
Qed.

Lemma tbx_parse_blocks_loop : forall fuel root stats x r, src_of (bx_s x) = src ->
  PBLX true fuel root stats x = Ok r -> PBLX false fuel root stats x = Ok r /\ src_of (bx_s r) = src.
Proof.
  induction fuel as [|f IH]; intros root stats x r Hx; cbn [parse_blocks_loopX]; [tb_nope|].
  destruct (r_skip_blank_lines space_table (S (length (src_of (bx_s x)))) (s_r (bx_s x))) as [[[[rd a] lines] ok]| |] eqn:Es;
    cbn [bind]; try tb_nope.
  apply tbs_r_skip_blank_lines in Es.
  assert (Hs : src_of (st_r (bx_s x) rd) = src) by tb_src.
  cbn [bx_s stx_s]. destruct (negb ok); [intros H; injection H as <-; split; [reflexivity|exact Hs]|].
  match goal with |- (bind ?A _ = _) -> _ => destruct A as [[res x1]| |] eqn:Eob end; cbn [bind]; try tb_nope.
  apply tbx_open_blocks in Eob; [|exact Hs].
  destruct Eob as [Eobf Hx1]. rewrite Eobf. cbn [bind snd] in *.
  destruct (negb (res =? newBlocksOpened)); [intros H; injection H as <-; split; [reflexivity|exact Hx1]|].
  match goal with |- (bind ?A _ = _) -> _ => destruct A as [[y st2]| |] eqn:El end; cbn [bind]; try tb_nope.
  apply tbx_lines_loop in El; [|apply tbx_advance_line; exact Hx1].
  destruct El as [Elf Hy]. rewrite Elf. cbn [bind fst] in *.
  destruct y as [x2|x2]; cbn [tbx_sum] in Hy.
  - intros H. injection H as <-. split; [reflexivity|exact Hy].
  - apply IH. exact Hy.
Qed.

End TabB.

(* on a source without '-', a successful block phase with the Table extension is the block phase
   without it *)
Theorem parse_blocksX_table_ok :
  forall space_table punct_table norm re_t1o re_t1c re_t2 re_t3 re_t4 re_t5 re_t6 re_t7 allowed_tags src x,
  ~ In 45%N src ->
  parse_blocksX true space_table punct_table norm re_t1o re_t1c re_t2 re_t3 re_t4 re_t5 re_t6 re_t7 allowed_tags src = Ok x ->
  parse_blocksX false space_table punct_table norm re_t1o re_t1c re_t2 re_t3 re_t4 re_t5 re_t6 re_t7 allowed_tags src = Ok x.
Proof.
  intros space_table punct_table norm re_t1o re_t1c re_t2 re_t3 re_t4 re_t5 re_t6 re_t7 allowed_tags src x Hnd H.
  unfold parse_blocksX in *.
  eapply tbx_parse_blocks_loop in H; [exact (proj1 H)|exact Hnd|].
  unfold src_of. cbn [bx_s s_r]. unfold new_reader. apply tbs_advance_line.
Qed.
