(* C01 / C05: the modelled block and inline scanners never panic on the inputs the driver gives
   them, and every position they produce lies inside the line they were given. *)
Require Import GM.model.Base GM.model.Util GM.model.Reader GM.model.Blocks GM.model.ListItem GM.model.LeafBlocks GM.model.Delim.
From Coq Require Import ZArith Lia ZifyBool ZifyNat ZifyN.
Open Scope Z_scope.

Section WithTables.
Variable space_table : list N.

(* parseListItem: when it recognises a marker, the indices it reports are ordered and inside the line *)
Theorem parse_list_item_in_range (line : bytes) (m : lmatch) (typ : N) :
  parse_list_item line = (m, typ) -> typ <> 0%N ->
  0 <= m1 m <= 3 /\ m2 m = m1 m /\ m1 m < m3 m <= zlen line /\
  ((m4 m = -1 /\ m5 m = -1 /\ m3 m = zlen line) \/ (m4 m = m3 m /\ m3 m < zlen line /\ m4 m <= m5 m <= zlen line)).
Proof. Admitted.

(* IndentPosition: a found position is inside the byte string and the padding is not negative *)
Theorem indent_position_in_range (bs : bytes) (cur width pos padding : Z) :
  0 <= cur -> 0 <= width ->
  indent_position bs cur width = (pos, padding) -> pos <> -1 ->
  0 <= pos <= zlen bs /\ 0 <= padding.
Proof. Admitted.

(* ATX headings *)
Theorem atx_open_total (line : bytes) (pos : Z) : atx_open space_table line pos <> Panic.
Proof. Admitted.
Theorem atx_open_in_range (line : bytes) (pos lv a b : Z) :
  atx_open space_table line pos = Ok (Some (lv, Some (a, b))) ->
  1 <= lv <= 6 /\ pos < a /\ a < b /\ b <= zlen line.
Proof. Admitted.
Theorem atx_open_level (line : bytes) (pos lv : Z) (o : option (Z * Z)) :
  atx_open space_table line pos = Ok (Some (lv, o)) -> 1 <= lv <= 6.
Proof. Admitted.

(* fences *)
Theorem fence_open_total (line : bytes) (pos : Z) : pos < zlen line -> fence_open space_table line pos <> Panic.
Proof. Admitted.
Theorem fence_open_in_range (line : bytes) (pos : Z) (ch : N) (ind n : Z) (info : option (Z * Z)) :
  0 <= pos ->
  fence_open space_table line pos = Ok (Some (ch, ind, n, info)) ->
  (ch = 96%N \/ ch = 126%N) /\ ind = pos /\ 3 <= n /\ pos + n <= zlen line /\
  match info with Some (a, b) => pos + n <= a /\ a < b /\ b <= zlen line | None => True end.
Proof. Admitted.
Theorem fence_continue_in_range (line : bytes) (off pad : Z) (ch : N) (indent flen : Z) :
  0 <= off -> 0 <= pad -> 0 <= indent ->
  match fence_continue space_table line off pad ch indent flen with
  | inl adv => 0 <= adv <= zlen line
  | inr (p, padding) => 0 <= p + pad /\ p <= zlen line /\ 0 <= padding
  end.
Proof. Admitted.
End WithTables.

(* ScanDelimiter reads line[0] and the rune after the run: no panic on a non-empty line, and the
   run it reports is inside the line *)
Theorem scan_delimiter_total (pr sr : N -> bool) (isd : N -> bool) (line : bytes) (before : N) (minimum : Z) :
  line <> [] -> scan_delimiter pr sr isd line before minimum <> Panic.
Proof. Admitted.
Theorem scan_delimiter_in_range (pr sr : N -> bool) (isd : N -> bool) (line : bytes) (before : N) (minimum : Z) co cc len ch :
  scan_delimiter pr sr isd line before minimum = Ok (Some (co, cc, len, ch)) ->
  1 <= len <= zlen line /\ minimum <= len /\ isd ch = true.
Proof. Admitted.
