(* C01 / C05: the modelled block and inline scanners never panic on the inputs the driver gives
   them, and every position they produce lies inside the line they were given. *)
Require Import GM.model.Base GM.model.Util GM.model.Reader GM.model.Blocks GM.model.ListItem GM.model.LeafBlocks GM.model.Delim.
From Coq Require Import ZArith Lia ZifyBool ZifyNat ZifyN.
Open Scope Z_scope.

(* ---------- auxiliary range lemmas ---------- *)
Lemma br_zlen_nonneg {A} (l : list A) : 0 <= zlen l.
Proof. unfold zlen. lia. Qed.
Lemma br_zlen_cons {A} (x : A) (l : list A) : zlen (x :: l) = 1 + zlen l.
Proof. unfold zlen. cbn [length]. lia. Qed.
Lemma br_zlen_nil {A} : zlen (@nil A) = 0.
Proof. reflexivity. Qed.

Lemma br_zlen_zskip {A} (n : Z) (l : list A) : zlen (zskip n l) = Z.max 0 (zlen l - Z.max 0 n).
Proof. unfold zlen, zskip. rewrite skipn_length. lia. Qed.

Lemma br_count_byte_range ch l : 0 <= count_byte ch l <= zlen l.
Proof.
  induction l as [|c r IH]; cbn [count_byte].
  - unfold zlen; cbn [length]; lia.
  - rewrite br_zlen_cons. destruct (N.eqb c ch); lia.
Qed.
Lemma br_count_blanks_range l : 0 <= count_blanks l <= zlen l.
Proof.
  induction l as [|c r IH]; cbn [count_blanks].
  - unfold zlen; cbn [length]; lia.
  - rewrite br_zlen_cons. destruct (N.eqb c 32); lia.
Qed.
Lemma br_count_digits_range l : 0 <= count_digits l <= zlen l.
Proof.
  induction l as [|c r IH]; cbn [count_digits].
  - unfold zlen; cbn [length]; lia.
  - rewrite br_zlen_cons. destruct (N.leb 48 c && N.leb c 57)%bool; lia.
Qed.
Lemma br_tls_range st l : 0 <= trim_left_space_len st l <= zlen l.
Proof.
  induction l as [|c r IH]; cbn [trim_left_space_len].
  - unfold zlen; cbn [length]; lia.
  - rewrite br_zlen_cons. destruct (is_space st c); lia.
Qed.
Lemma br_trs_range st l : 0 <= trim_right_space_len st l <= zlen l.
Proof.
  unfold trim_right_space_len. pose proof (br_tls_range st (rev l)) as H.
  unfold zlen in *. rewrite rev_length in H. exact H.
Qed.

Lemma br_ip_loop_range bs cur width : forall w i p w' i',
  indent_position_loop bs cur w i p width = (w', i') -> i <= i' <= i + zlen bs.
Proof.
  induction bs as [|c r IH]; intros w i p w' i' H; cbn [indent_position_loop] in H.
  - injection H as _ Hi. unfold zlen; cbn [length]; lia.
  - rewrite br_zlen_cons. pose proof (br_zlen_nonneg r) as Hr.
    destruct (0 <? p).
    { apply IH in H. lia. }
    destruct (N.eqb c 9 && (w <? width))%bool.
    { apply IH in H. lia. }
    destruct (N.eqb c 32 && (w <? width))%bool.
    { apply IH in H. lia. }
    injection H as _ Hi. lia.
Qed.

Lemma br_fnsp_range l : forall i, first_non_space_position l i = -1 \/ i <= first_non_space_position l i < i + zlen l.
Proof.
  induction l as [|c r IH]; intros i; cbn [first_non_space_position].
  - left. reflexivity.
  - rewrite br_zlen_cons. pose proof (br_zlen_nonneg r) as Hr.
    destruct (N.eqb c 32 || N.eqb c 9)%bool.
    { destruct (IH (i + 1)) as [E|E]; [left; exact E|right; lia]. }
    destruct (N.eqb c 10); [left; reflexivity|right; lia].
Qed.

Lemma br_boh_range line start : forall fuel i, start - 1 <= i ->
  start - 1 <= back_over_hashes fuel line i start <= i.
Proof.
  induction fuel as [|f IH]; intros i Hi; cbn [back_over_hashes].
  - lia.
  - destruct (N.eqb (nth_byte line i) 35); cbn [andb]; [|lia].
    destruct (Z.leb_spec start i) as [Hle|Hlt]; [|lia].
    specialize (IH (i - 1)). lia.
Qed.

Lemma br_body_nonempty (n : Z) (x s : bytes) : length (trim_right (zfirst n x) s) <> 0%nat -> 0 < n.
Proof.
  intros H. destruct (Z.ltb_spec 0 n) as [Hlt|Hge]; [exact Hlt|].
  exfalso. apply H. unfold zfirst. replace (Z.to_nat n) with 0%nat by lia. reflexivity.
Qed.

Section WithTables.
Variable space_table : list N.

(* parseListItem: when it recognises a marker, the indices it reports are ordered and inside the line *)
Lemma br_tail_range (line : bytes) (ind i : Z) (t : N) (m : lmatch) (typ : N) :
  parse_list_item_tail line ind i t = (m, typ) -> typ <> 0%N -> 0 <= ind <= 3 -> ind < i <= zlen line ->
  0 <= m1 m <= 3 /\ m2 m = m1 m /\ m1 m < m3 m <= zlen line /\
  ((m4 m = -1 /\ m5 m = -1 /\ m3 m = zlen line) \/ (m4 m = m3 m /\ m3 m < zlen line /\ m4 m <= m5 m <= zlen line)).
Proof.
  intros H Htyp Hind Hi. unfold parse_list_item_tail in H. cbv zeta in H.
  destruct ((i <? zlen line) && negb (N.eqb (nth_byte line i) 10) && (fst (indent_width (zskip i line) 0) =? 0))%bool.
  { injection H as _ Ht. congruence. }
  destruct (Z.leb_spec (zlen line) i) as [Hle|Hlt].
  { injection H as Hm _. subst m. cbn [m1 m2 m3 m4 m5]. lia. }
  injection H as Hm _. subst m. cbn [m1 m2 m3 m4 m5].
  destruct (N.eqb (nth_byte line (zlen line - 1)) 10 && negb (N.eqb (nth_byte line i) 10))%bool; lia.
Qed.

Theorem parse_list_item_in_range (line : bytes) (m : lmatch) (typ : N) :
  parse_list_item line = (m, typ) -> typ <> 0%N ->
  0 <= m1 m <= 3 /\ m2 m = m1 m /\ m1 m < m3 m <= zlen line /\
  ((m4 m = -1 /\ m5 m = -1 /\ m3 m = zlen line) \/ (m4 m = m3 m /\ m3 m < zlen line /\ m4 m <= m5 m <= zlen line)).
Proof.
  intros H Htyp. unfold parse_list_item in H. cbv zeta in H.
  pose proof (br_count_blanks_range line) as Hb.
  destruct (Z.ltb_spec 3 (count_blanks line)) as [H3|H3].
  { injection H as _ Ht. congruence. }
  destruct (Z.leb_spec (zlen line) (count_blanks line)) as [Hl|Hl].
  { injection H as _ Ht. congruence. }
  destruct (N.eqb (nth_byte line (count_blanks line)) 45 || N.eqb (nth_byte line (count_blanks line)) 42
            || N.eqb (nth_byte line (count_blanks line)) 43)%bool.
  { apply br_tail_range in H; [exact H|exact Htyp|lia|lia]. }
  pose proof (br_count_digits_range (zskip (count_blanks line) line)) as Hd.
  destruct (Z.eqb_spec (count_digits (zskip (count_blanks line) line)) 0) as [E0|E0]; cbn [orb] in H.
  { injection H as _ Ht. congruence. }
  destruct (Z.ltb_spec 9 (count_digits (zskip (count_blanks line) line))) as [E9|E9].
  { injection H as _ Ht. congruence. }
  destruct (Z.ltb_spec (count_blanks line + count_digits (zskip (count_blanks line) line)) (zlen line)) as [Hj|Hj];
    cbn [andb] in H.
  2:{ injection H as _ Ht. congruence. }
  destruct (N.eqb (nth_byte line (count_blanks line + count_digits (zskip (count_blanks line) line))) 46
            || N.eqb (nth_byte line (count_blanks line + count_digits (zskip (count_blanks line) line))) 41)%bool.
  2:{ injection H as _ Ht. congruence. }
  apply br_tail_range in H; [exact H|exact Htyp|lia|lia].
Qed.

(* IndentPosition: a found position is inside the byte string and the padding is not negative *)
Theorem indent_position_in_range (bs : bytes) (cur width pos padding : Z) :
  0 <= cur -> 0 <= width ->
  indent_position bs cur width = (pos, padding) -> pos <> -1 ->
  0 <= pos <= zlen bs /\ 0 <= padding.
Proof.
  intros Hcur Hw H Hpos. unfold indent_position, indent_position_padding in H.
  pose proof (br_zlen_nonneg bs) as Hbs.
  destruct (Z.eqb_spec width 0) as [E|E].
  { injection H as Hp Hq. lia. }
  destruct (indent_position_loop bs cur 0 0 0 width) as [w i] eqn:Hloop.
  apply br_ip_loop_range in Hloop.
  destruct (Z.leb_spec width w) as [Hle|Hlt].
  - injection H as Hp Hq. lia.
  - injection H as Hp Hq. lia.
Qed.

(* ATX headings *)
Lemma br_atx_open_cases (line : bytes) (pos : Z) :
  atx_open space_table line pos = Ok None \/
  exists lv, 1 <= lv <= 6 /\
    (atx_open space_table line pos = Ok (Some (lv, None)) \/
     exists a b, atx_open space_table line pos = Ok (Some (lv, Some (a, b))) /\ pos < a /\ a < b /\ b <= zlen line).
Proof.
  unfold atx_open.
  destruct (Z.ltb_spec pos 0) as [Hneg|Hpos]; [left; reflexivity|].
  cbv zeta.
  set (k := count_byte 35 (zskip pos line)).
  assert (Hk : 0 <= k <= zlen (zskip pos line)) by apply br_count_byte_range.
  rewrite br_zlen_zskip in Hk.
  replace (pos + k - pos) with k by lia.
  destruct (Z.eqb_spec (pos + k) pos) as [E|E]; [left; reflexivity|].
  destruct (Z.ltb_spec 6 k) as [E6|E6]; [left; reflexivity|]. cbn [orb].
  destruct (Z.eqb_spec (pos + k) (zlen line)) as [El|El].
  { right. exists k. split; [lia|]. left. reflexivity. }
  set (tl := trim_left_space_len space_table (zskip (pos + k) line)).
  assert (Htl : 0 <= tl <= zlen (zskip (pos + k) line)) by apply br_tls_range.
  rewrite br_zlen_zskip in Htl.
  destruct (Z.eqb_spec tl 0) as [Et|Et]; [left; reflexivity|].
  set (start := if zlen line <=? pos + k + tl then zlen line - 1 else pos + k + tl).
  assert (Hstart : pos + k <= start <= zlen line - 1).
  { subst start. destruct (Z.leb_spec (zlen line) (pos + k + tl)); lia. }
  set (stop0 := zlen line - trim_right_space_len space_table line).
  assert (Hstop0 : stop0 <= zlen line).
  { subst stop0. pose proof (br_trs_range space_table line). lia. }
  right. exists k. split; [lia|].
  destruct (Z.leb_spec stop0 start) as [Hss|Hss].
  - destruct (Z.ltb_spec start 0) as [Hs0|Hs0]; [lia|].
    destruct (Nat.eqb_spec (length (trim_right (zfirst (start - start) (zskip start line)) [35%N])) 0) as [Eb|Eb].
    + left. reflexivity.
    + apply br_body_nonempty in Eb. lia.
  - set (j := back_over_hashes (length line) line (stop0 - 1) start).
    assert (Hj : start - 1 <= j <= stop0 - 1) by (apply br_boh_range; lia).
    destruct (Z.ltb_spec j 0) as [Hj0|Hj0]; [lia|].
    set (j' := if (negb (j =? stop0 - 1) && negb (is_space space_table (nth_byte line j)))%bool then stop0 - 1 else j).
    assert (Hj' : 0 <= j' <= stop0 - 1).
    { subst j'. destruct (negb (j =? stop0 - 1) && negb (is_space space_table (nth_byte line j)))%bool; lia. }
    destruct (Z.ltb_spec (j' + 1) 0) as [Hp|Hp]; [lia|].
    destruct (Nat.eqb_spec (length (trim_right (zfirst (j' + 1 - start) (zskip start line)) [35%N])) 0) as [Eb|Eb].
    + left. reflexivity.
    + right. exists start, (j' + 1). split; [reflexivity|].
      apply br_body_nonempty in Eb. lia.
Qed.

Theorem atx_open_total (line : bytes) (pos : Z) : atx_open space_table line pos <> Panic.
Proof.
  destruct (br_atx_open_cases line pos) as [E|[lv [_ [E|[a [b [E _]]]]]]]; rewrite E; discriminate.
Qed.
Theorem atx_open_in_range (line : bytes) (pos lv a b : Z) :
  atx_open space_table line pos = Ok (Some (lv, Some (a, b))) ->
  1 <= lv <= 6 /\ pos < a /\ a < b /\ b <= zlen line.
Proof.
  intros H.
  destruct (br_atx_open_cases line pos) as [E|[lv' [Hlv [E|[a' [b' [E Hab]]]]]]]; rewrite E in H; try discriminate.
  injection H as H1 H2 H3. subst lv' a' b'. split; [exact Hlv|exact Hab].
Qed.
Theorem atx_open_level (line : bytes) (pos lv : Z) (o : option (Z * Z)) :
  atx_open space_table line pos = Ok (Some (lv, o)) -> 1 <= lv <= 6.
Proof.
  intros H.
  destruct (br_atx_open_cases line pos) as [E|[lv' [Hlv [E|[a' [b' [E Hab]]]]]]]; rewrite E in H; try discriminate.
  - injection H as H1 _. subst lv'. exact Hlv.
  - injection H as H1 _. subst lv'. exact Hlv.
Qed.

(* fences *)
Theorem fence_open_total (line : bytes) (pos : Z) : pos < zlen line -> fence_open space_table line pos <> Panic.
Proof.
  intros Hlt. unfold fence_open.
  destruct (Z.ltb_spec pos 0) as [Hneg|Hpos]; [discriminate|].
  unfold at_.
  destruct (Z.leb_spec 0 pos) as [_|Hc]; [|lia].
  destruct (Z.ltb_spec pos (zlen line)) as [_|Hc]; [|lia].
  cbn [andb bind]. cbv zeta.
  set (c := nth (Z.to_nat pos) line 0%N).
  destruct (negb (N.eqb c 96 || N.eqb c 126)); [discriminate|].
  destruct (count_byte c (zskip pos line) <? 3); [discriminate|].
  destruct (pos + count_byte c (zskip pos line) <? zlen line - 1); [|discriminate].
  match goal with |- (if ?b then _ else _) <> _ => destruct b end; [|discriminate].
  match goal with |- (if ?b then _ else _) <> _ => destruct b end; discriminate.
Qed.

Theorem fence_open_in_range (line : bytes) (pos : Z) (ch : N) (ind n : Z) (info : option (Z * Z)) :
  0 <= pos ->
  fence_open space_table line pos = Ok (Some (ch, ind, n, info)) ->
  (ch = 96%N \/ ch = 126%N) /\ ind = pos /\ 3 <= n /\ pos + n <= zlen line /\
  match info with Some (a, b) => pos + n <= a /\ a < b /\ b <= zlen line | None => True end.
Proof.
  intros Hpos H. unfold fence_open in H.
  destruct (Z.ltb_spec pos 0) as [Hneg|_]; [lia|].
  unfold at_ in H.
  destruct (Z.leb_spec 0 pos) as [_|Hc]; [|lia].
  destruct (Z.ltb_spec pos (zlen line)) as [Hlt|Hge]; cbn [andb bind] in H; [|discriminate].
  cbv zeta in H.
  set (c := nth (Z.to_nat pos) line 0%N) in H.
  assert (Hc : negb (N.eqb c 96 || N.eqb c 126) = false -> c = 96%N \/ c = 126%N).
  { destruct (N.eqb_spec c 96) as [E|E]; [left; exact E|].
    destruct (N.eqb_spec c 126) as [E'|E']; [right; exact E'|]. cbn. discriminate. }
  destruct (negb (N.eqb c 96 || N.eqb c 126)); [discriminate|].
  specialize (Hc eq_refl).
  set (k := count_byte c (zskip pos line)) in H.
  assert (Hk : 0 <= k <= zlen (zskip pos line)) by apply br_count_byte_range.
  rewrite br_zlen_zskip in Hk.
  destruct (Z.ltb_spec k 3) as [H3|H3]; [discriminate|].
  destruct (Z.ltb_spec (pos + k) (zlen line - 1)) as [Hi|Hi].
  2:{ injection H as H1 H2 H3' H4. subst ch ind n info. repeat split; try lia; exact Hc. }
  set (rest := zskip (pos + k) line) in H.
  assert (Hrest : zlen rest = zlen line - (pos + k)).
  { subst rest. rewrite br_zlen_zskip. lia. }
  pose proof (br_tls_range space_table rest) as Hl.
  pose proof (br_trs_range space_table rest) as Hr.
  destruct (Z.ltb_spec (trim_left_space_len space_table rest) (zlen rest - trim_right_space_len space_table rest)) as [Hlr|Hlr].
  2:{ injection H as H1 H2 H3' H4. subst ch ind n info. repeat split; try lia; exact Hc. }
  match type of H with (if ?b then _ else _) = _ => destruct b end; [discriminate|].
  injection H as H1 H2 H3' H4. subst ch ind n info. repeat split; try lia; exact Hc.
Qed.

Theorem fence_continue_in_range (line : bytes) (off pad : Z) (ch : N) (indent flen : Z) :
  0 <= off -> 0 <= pad -> 0 <= indent ->
  match fence_continue space_table line off pad ch indent flen with
  | inl adv => 0 <= adv <= zlen line
  | inr (p, padding) => 0 <= p + pad /\ p <= zlen line /\ 0 <= padding
  end.
Proof.
  intros Hoff Hpad Hind. unfold fence_continue.
  pose proof (br_zlen_nonneg line) as Hlen.
  destruct (indent_width line off) as [w pos]. cbv zeta.
  match goal with |- match (if ?b then _ else _) with _ => _ end => destruct b end.
  - destruct line as [|c0 r0].
    + cbn. lia.
    + rewrite br_zlen_cons in *. pose proof (br_zlen_nonneg r0) as Hr0.
      destruct (N.eqb (nth_byte (c0 :: r0) (1 + zlen r0 - 1)) 10); lia.
  - unfold indent_position_padding.
    destruct (Z.eqb_spec indent 0) as [E|E].
    + destruct (Z.ltb_spec 0 0) as [Hc|_]; [lia|]. lia.
    + destruct (indent_position_loop line off 0 0 pad indent) as [w' i'] eqn:Hloop.
      apply br_ip_loop_range in Hloop.
      assert (Hq : 0 <= (if first_non_space_position line 0 <? 0 then 0 else first_non_space_position line 0 - pad) + pad /\
                   (if first_non_space_position line 0 <? 0 then 0 else first_non_space_position line 0 - pad) <= zlen line).
      { destruct (br_fnsp_range line 0) as [Eq|Eq].
        - rewrite Eq. cbn. lia.
        - destruct (Z.ltb_spec (first_non_space_position line 0) 0); lia. }
      destruct (Z.leb_spec indent w') as [Hle|Hlt].
      * destruct (Z.ltb_spec (i' - pad) 0) as [Hn|Hn]; [lia|]. lia.
      * destruct (Z.ltb_spec (-1) 0) as [_|Hc]; [|lia]. lia.
Qed.
End WithTables.

(* ScanDelimiter reads line[0] and the rune after the run: no panic on a non-empty line, and the
   run it reports is inside the line *)
Lemma br_to_rune_ok (line : bytes) (j : Z) : j < zlen line -> to_rune line j <> Panic.
Proof.
  intros Hj. unfold to_rune.
  destruct (Z.ltb_spec j 0) as [_|_]; [discriminate|].
  destruct (Z.leb_spec (zlen line) j) as [Hc|_]; [lia|].
  destruct (rune_start_before _ _); discriminate.
Qed.

Lemma br_count_byte_head c r : 1 <= count_byte c (c :: r) <= zlen (c :: r).
Proof.
  pose proof (br_count_byte_range c (c :: r)) as H. split; [|apply H].
  cbn [count_byte]. rewrite N.eqb_refl. pose proof (br_count_byte_range c r). lia.
Qed.

Theorem scan_delimiter_total (pr sr : N -> bool) (isd : N -> bool) (line : bytes) (before : N) (minimum : Z) :
  line <> [] -> scan_delimiter pr sr isd line before minimum <> Panic.
Proof.
  intros Hne. destruct line as [|c r]; [contradiction|].
  unfold scan_delimiter. cbv zeta.
  destruct (negb (isd c)); [discriminate|].
  pose proof (br_count_byte_head c r) as Hj.
  destruct (count_byte c (c :: r) <? minimum); [discriminate|].
  destruct (Z.eqb_spec (count_byte c (c :: r)) (zlen (c :: r))) as [E|E].
  - cbn [bind]. destruct (N.eqb c 95); discriminate.
  - pose proof (br_to_rune_ok (c :: r) (count_byte c (c :: r))) as Hr.
    destruct (to_rune (c :: r) (count_byte c (c :: r))) as [a| |] eqn:Er.
    + cbn [bind]. destruct (N.eqb c 95); discriminate.
    + exfalso. apply Hr; [lia|reflexivity].
    + cbn [bind]. discriminate.
Qed.

Theorem scan_delimiter_in_range (pr sr : N -> bool) (isd : N -> bool) (line : bytes) (before : N) (minimum : Z) co cc len ch :
  scan_delimiter pr sr isd line before minimum = Ok (Some (co, cc, len, ch)) ->
  1 <= len <= zlen line /\ minimum <= len /\ isd ch = true.
Proof.
  intros H. destruct line as [|c r]; [discriminate|].
  unfold scan_delimiter in H. cbv zeta in H.
  destruct (isd c) eqn:Hd; cbn [negb] in H; [|discriminate].
  pose proof (br_count_byte_head c r) as Hj.
  remember (count_byte c (c :: r)) as j eqn:Ej. clear Ej.
  destruct (Z.ltb_spec j minimum) as [Hm|Hm]; [discriminate|].
  destruct (if j =? zlen (c :: r) then Ok 32%N else to_rune (c :: r) j)
    as [a| |]; cbn [bind] in H; try discriminate.
  destruct (N.eqb c 95); injection H as _ _ Hlen Hch; subst len ch; (split; [lia|split; [lia|exact Hd]]).
Qed.
