(* Helper library for FootnoteWfBlk.v, part N (port of ParseBlocksRangeN.v to the driver of
   model/FootnoteParseBlock.v): openBlocks with the footnote parser as one more candidate. *)
Require Import GM.model.Base GM.model.Util GM.model.Reader GM.model.ReaderSpec GM.model.Blocks GM.model.ListItem
               GM.model.LeafBlocks GM.model.CodeBlock GM.model.LinkDest GM.model.Regex GM.model.HtmlWriter
               GM.model.Html GM.model.HtmlSpec GM.model.BlockParse GM.model.InlineParse GM.model.FootnoteParseBlock.
Require Import GM.proofs.ReaderProofs GM.proofs.BlockRangeProofs GM.proofs.ParseInv
               GM.proofs.ParseBlocksRangeA GM.proofs.ParseBlocksRangeB GM.proofs.ParseBlocksRangeC
               GM.proofs.ParseBlocksRangeD GM.proofs.ParseBlocksRangeE GM.proofs.ParseBlocksRangeF
               GM.proofs.ParseBlocksRangeG GM.proofs.ParseBlocksRangeJ GM.proofs.ParseBlocksRangeM GM.proofs.ParseBlocksRangeN
               GM.proofs.FootnoteWfDefs GM.proofs.FootnoteWfBlkInv GM.proofs.FootnoteWfBlkFrame GM.proofs.FootnoteWfBlkO
               GM.proofs.FootnoteWfBlkL.
From Coq Require Import ZArith Lia Sorted List Bool.
Import ListNotations.
Open Scope Z_scope.

Lemma nth_app_oldF {X} (h : list X) n i x : nth_error h i = Some x -> nth_error (h ++ [n]) i = Some x.
Proof. intros H. rewrite nth_error_app1 by (eapply nth_some_lt; eassumption). exact H. Qed.

Section N.
Variable space_table punct_table : list N.
Variable norm : bytes -> bytes.
Variable re_t1o re_t1c re_t2 re_t3 re_t4 re_t5 re_t6 re_t7 : re.
Variable allowed_tags : list bytes.
Variable src : bytes.
Hypothesis sp32 : is_space space_table 32%N = true.
Set Default Proof Using "All".

Notation CC f := (f space_table punct_table norm re_t1o re_t1c re_t2 re_t3 re_t4 re_t5 re_t6 re_t7 allowed_tags src sp32) (only parsing).
Notation SInv := (SInv space_table src).
Notation HI := (HI space_table src).
Notation heapS := (heapS space_table src).
Notation openS := (openS src).
Notation fin_lines := (fin_lines src).
Hypothesis Hsrc : bytes_ok src.
Notation CE f := (f space_table punct_table norm re_t1o re_t1c re_t2 re_t3 re_t4 re_t5 re_t6 re_t7 allowed_tags src sp32) (only parsing).
Notation CJ f := (f space_table punct_table norm re_t1o re_t1c re_t2 re_t3 re_t4 re_t5 re_t6 re_t7 allowed_tags src sp32 Hsrc) (only parsing).
Notation CF f := (f space_table punct_table norm re_t1o re_t1c re_t2 re_t3 re_t4 re_t5 re_t6 re_t7 allowed_tags) (only parsing).
Notation OInv := (OInv space_table src).
Notation FInv := (FInv space_table src).
Notation popen_post := (popen_post space_table src).
Notation p_open := (p_open space_table re_t1o re_t2 re_t3 re_t4 re_t5 re_t6 re_t7 allowed_tags).
Notation p_openF := (p_openF space_table punct_table re_t1o re_t2 re_t3 re_t4 re_t5 re_t6 re_t7 allowed_tags).
Notation p_closeF := (p_closeF space_table).
Notation p_continueF := (p_continueF space_table re_t1c).
Notation transform_paragraphF := (transform_paragraphF space_table punct_table norm).
Notation close_blocksF := (close_blocksF space_table punct_table norm).
Notation try_parsersF := (try_parsersF space_table punct_table norm re_t1o re_t2 re_t3 re_t4 re_t5 re_t6 re_t7 allowed_tags).
Notation open_blocks_loopF := (open_blocks_loopF space_table punct_table norm re_t1o re_t2 re_t3 re_t4 re_t5 re_t6 re_t7 allowed_tags).
Notation open_blocksF := (open_blocksF space_table punct_table norm re_t1o re_t1c re_t2 re_t3 re_t4 re_t5 re_t6 re_t7 allowed_tags).

(* ---------- the wrappers of the core functions ---------- *)
Lemma p_closeF_core bp x node x' n : nth_error (s_h (bf_s x)) node = Some n -> is_footnote_node n = false ->
  p_closeF bp x node = Ok x' -> exists s', p_close space_table bp (bf_s x) node = Ok s' /\ x' = stf_s x s'.
Proof.
  intros En Ef H. unfold FootnoteParseBlock.p_closeF, is_footnote, hget in H. rewrite En in H. cbn [bind] in H. rewrite Ef in H.
  unfold lift0F in H. bind_inv H s' Es. injection H as <-. eauto.
Qed.

Lemma p_continueF_core bp x node x' c k n : nth_error (s_h (bf_s x)) node = Some n -> is_footnote_node n = false ->
  p_continueF bp x node = Ok (x', c, k) ->
  exists s', p_continue space_table re_t1c bp (bf_s x) node = Ok (s', c, k) /\ x' = stf_s x s'.
Proof.
  intros En Ef H. unfold FootnoteParseBlock.p_continueF, is_footnote, hget in H. rewrite En in H. cbn [bind] in H. rewrite Ef in H.
  bind_inv H y Ey. destruct y as [[s1 c1] k1]. injection H as <- <- <-. eauto.
Qed.

Lemma transform_paragraphF_core x node x' g : transform_paragraphF x node = Ok (x', g) ->
  exists s', transform_paragraph space_table punct_table norm (bf_s x) node = Ok (s', g) /\ x' = stf_s x s'.
Proof.
  unfold FootnoteParseBlock.transform_paragraphF, liftF. intros H. bind_inv H y Ey. destruct y as [s1 g1]. injection H as <- <-. eauto.
Qed.

Lemma not_footnote_kind n : bk n <> BBlockquote -> is_footnote_node n = false.
Proof. intros K. destruct (is_footnote_node n) eqn:E; [|reflexivity]. apply is_footnote_node_spec in E. destruct E. congruence. Qed.

(* ---------- Open of any parser of the footnote driver ---------- *)
Lemma p_openF_spec bp x parent x' o A D N : SInv FF (bf_s x) A D N -> Oeq (s_c (bf_s x)) (A ++ D ++ N) -> PC N (s_h (bf_s x)) ->
  FLs x A D N -> p_openF bp x parent = Ok (x', o) ->
  popen_post (tag_of bp) (bf_s x) parent (bf_s x') o A D N /\ FLs x' A D N /\ bf_list x' = bf_list x /\
  (tag_of bp <> PSetext -> c_tmp_para (s_c (bf_s x')) = c_tmp_para (s_c (bf_s x))) /\
  (tag_of bp = PListItem -> o <> None -> exists pn, nth_error (s_h (bf_s x)) parent = Some pn /\ bk pn = BList).
Proof.
  intros HS HO HPC HF H. destruct bp as [p|]; cbn [FootnoteParseBlock.p_openF tag_of] in *.
  - unfold liftF in H. bind_inv H y Ey. destruct y as [s1 o1]. cbn [fst snd] in H. injection H as <- <-. cbn [stf_s bf_s bf_list].
    csplit; auto.
    + eapply (CC p_open_spec); eassumption.
    + eapply FLs_cfr; [exact HF| |reflexivity]. cbn [stf_s bf_s]. eapply (CF p_open_cfr). exact Ey.
    + intros Hp. eapply (CJ p_open_tmp); eassumption.
    + intros -> Ho. destruct o1 as [r|]; [|congruence]. cbn [BlockParse.p_open] in Ey.
      eapply (CJ list_item_open_parent). exact Ey.
  - unfold liftF in H. bind_inv H y Ey. destruct y as [s1 o1]. cbn [fst snd] in H. injection H as <- <-. cbn [stf_s bf_s bf_list].
    destruct (CC footnote_open_ok _ _ _ _ _ _ HS Ey) as [Hp [Ht Hh]]. csplit; auto.
    + apply (CC open_post_popen). exact Hp.
    + unfold FLs in *. cbn [stf_s bf_s bf_list]. destruct o1 as [r|].
      * destruct Hh as [sg Eh]. rewrite Eh. destruct HF as [HF Hn]. split; [|exact Hn].
        apply FL_app; [exact HF|reflexivity|]. intros _. right. cbn. csplit; auto. eexists. reflexivity.
      * destruct Hp as [_ [_ [_ Eh]]]. rewrite Eh. exact HF.
    + discriminate.
Qed.

(* ---------- the bookkeeping of one call of openBlocks, relative to its start ---------- *)
Section Track.
Variables (x0 : stf) (A D0 : list (nat * bparser)) (cont0 : bool).

Notation TrkF x := (Trk (bf_s x0) D0 cont0 (bf_s x)).
Definition TPreF (x : stf) (D N : list (nat * bparser)) (parent : nat) : Prop :=
  FInv FF x A D N /\ parent = lastid (ids (A ++ N)) /\ topC (A ++ N).

Lemma TrkF_same x x1 D N res cont : TrkF x D N res cont -> s_h (bf_s x1) = s_h (bf_s x) ->
  c_arr (s_c (bf_s x1)) = c_arr (s_c (bf_s x)) -> TrkF x1 D N res cont.
Proof. intros [T1 T2 T3 T4 T5 T6] Eh Ea. constructor; rewrite ?Eh, ?Ea; auto. Qed.

Lemma TPreF_same x x1 D N parent : TPreF x D N parent -> SInv FF (bf_s x1) A D N -> FLs x1 A D N ->
  c_arr (s_c (bf_s x1)) = c_arr (s_c (bf_s x)) -> c_len (s_c (bf_s x1)) = c_len (s_c (bf_s x)) -> TPreF x1 D N parent.
Proof.
  intros [[[_ [HO Hu]] _] [Hp Ht]] HS HF Ea El. split; [|split; assumption]. split; [|exact HF]. split; [exact HS|]. split; [|exact Hu].
  eapply (CE Oeq_same); eassumption.
Qed.

(* the parent of the blocks to be opened is not the FootnoteList *)
Lemma parent_not_list fl x D N l : SInv fl (bf_s x) A D N -> FLs x A D N -> bf_list x = Some l -> l <> lastid (ids (A ++ N)).
Proof.
  intros HS [HF Hn] El E. destruct (CE lastid_cases (ids (A ++ N))) as [[_ E0]|[_ Hin]].
  - destruct HS as [_ HH]. eapply FL_list_not_root; [exact (hi_heap _ _ _ _ _ _ _ _ HH)|exact HF|exact El|congruence].
  - apply (Hn l El). rewrite E. rewrite !ids_app in *. apply in_app_or in Hin. apply in_or_app.
    destruct Hin; [left; assumption|right; apply in_or_app; right; assumption].
Qed.

(* the tail of a successful Open: Blank flag, AppendChild, append to the opened blocks *)
Lemma tail_okF fl (xa : stf) D N parent node bp blank (lb : option (nat * bparser)) nn h2 x2 h3 :
  OInv fl (bf_s xa) A D N -> FLs xa A D N ->
  nth_error (s_h (bf_s xa)) node = Some nn -> bpar nn = None -> bch nn = [] -> bk nn = pkind bp ->
  (bp = PATX -> fin_lines (blines nn)) ->
  (bp = PSetext -> (forall z, ~ In (z, PSetext) (A ++ D ++ N)) /\
     exists tmp t, c_tmp_para (s_c (bf_s xa)) = Some tmp /\ nth_error (s_h (bf_s xa)) tmp = Some t /\ bk t = BParagraph /\
                   fin_lines (blines t) /\ ~ In tmp (ids (A ++ D ++ N)) /\ tmp <> node) ->
  (forall tmp y, c_tmp_para (s_c (bf_s xa)) = Some tmp -> In (y, PSetext) (A ++ D ++ N) -> tmp <> node) ->
  ~ In node (ids (A ++ D ++ N)) -> node <> 0%nat -> topC (A ++ N) -> parent = lastid (ids (A ++ N)) ->
  (bp = PListItem -> exists pn, nth_error (s_h (bf_s xa)) parent = Some pn /\ bk pn = BList) ->
  (forall last lp, lb = Some (last, lp) -> last <> node /\ exists nl q, nth_error (s_h (bf_s xa)) last = Some nl /\ bpar nl = Some q) ->
  (forall l, bf_list xa = Some l -> l <> node) ->
  hupd (s_h (bf_s xa)) node (fun n => set_blank n blank) = Ok h2 ->
  match lb with
  | Some (last, _) =>
      att <- attached (s_h (bf_s (stf_s xa (st_h (bf_s xa) h2)))) last ;;
      (if negb att
       then close_blocksF (stf_s xa (st_h (bf_s xa) h2)) (Z.of_nat (c_len (s_c (bf_s (stf_s xa (st_h (bf_s xa) h2))))) - 1)
              (Z.of_nat (c_len (s_c (bf_s (stf_s xa (st_h (bf_s xa) h2))))) - 1)
       else Ok (stf_s xa (st_h (bf_s xa) h2)))
  | None => Ok (stf_s xa (st_h (bf_s xa) h2))
  end = Ok x2 ->
  append_child (s_h (bf_s x2)) parent node = Ok h3 ->
  FInv fl (stf_s x2 (st_c (st_h (bf_s x2) h3) (push_opened (s_c (bf_s x2)) (node, bp)))) A D (N ++ [(node, bp)]) /\
  length h3 = length (s_h (bf_s xa)).
Proof.
  intros HO HF En Pn Cn Kn Hatx Hset Htmp Hni Hn0 Htop Hpar Hli Hlb Hll Eh2 Es2 Eh3.
  pose proof Eh2 as Eh2'. apply hupd_ok in Eh2. destruct Eh2 as [nn0 [En0 ->]]. assert (nn0 = nn) by congruence. subst nn0.
  assert (x2 = stf_s xa (st_h (bf_s xa) (hset (s_h (bf_s xa)) node (set_blank nn blank)))) as ->.
  { destruct lb as [[last lp]|]; [|injection Es2 as <-; reflexivity].
    destruct (Hlb last lp eq_refl) as [Hne [nl [q [Enl Pnl]]]].
    unfold attached, hget in Es2. cbn [stf_s bf_s st_h s_h] in Es2. rewrite nth_hset_ne in Es2 by congruence. rewrite Enl in Es2.
    cbn [bind] in Es2. rewrite Pnl in Es2. cbn [negb] in Es2. injection Es2 as <-. reflexivity. }
  cbn [stf_s bf_s bf_list st_h s_h s_c] in *.
  destruct (CE parent_node fl (bf_s xa) A D N (proj1 HO) Htop) as [np [Ep Kp]].
  assert (length h3 = length (s_h (bf_s xa))) as Hlen3.
  { apply (CJ append_child_length) in Eh3. rewrite Eh3. apply length_hset. }
  split; [|exact Hlen3]. split.
  - subst parent. eapply (CJ attach_state fl (bf_s xa) _ A D N node bp nn np blank); try eassumption; try reflexivity.
    intros Kli. assert (bp = PListItem) as Eb by (destruct bp; cbn [pkind] in *; congruence).
    destruct (Hli Eb) as [pn [Epn Kpn]]. congruence.
  - unfold FLs. cbn [stf_s bf_s bf_list st_c st_h s_h]. destruct HF as [HF Hn]. split.
    + eapply FL_append; [|exact Eh3| |].
      * eapply cfr_FL; [|exact HF]. eapply cfr_hupd; [exact Eh2'|]. intros m _. unfold keepsF. cbn. csplit; auto.
      * subst parent. destruct (CE lastid_cases (ids (A ++ N))) as [[_ E]|[_ Hin]]; [congruence|]. intros E. apply Hni. rewrite E.
        rewrite !ids_app in *. apply in_app_or in Hin. apply in_or_app. destruct Hin; [left; assumption|right; apply in_or_app; right; assumption].
      * intros l El. split; [|apply Hll; exact El]. subst parent. eapply parent_not_list; [exact (proj1 HO)|split; eassumption|exact El].
    + intros l El Hin. replace (A ++ D ++ N ++ [(node, bp)]) with ((A ++ D ++ N) ++ [(node, bp)]) in Hin by (rewrite <- !app_assoc; reflexivity).
      rewrite (CC ids_snoc) in Hin. apply in_app_or in Hin. destruct Hin as [Hin|[Hin|[]]]; [exact (Hn l El Hin)|].
      cbn [fst] in Hin. apply (Hll l El). congruence.
Qed.

Lemma try_parsersF_ok blank w : forall bps x D N parent res cont t, TPreF x D N parent -> TrkF x D N res cont ->
  try_parsersF bps parent blank cont res w x = Ok t ->
  match t with
  | TRetryF p' cont' res' x' => exists D' N', TPreF x' D' N' p' /\ TrkF x' D' N' res' cont'
  | TDoneF res' x' => exists D' N', FInv WW x' A D' N' /\ TrkF x' D' N' res' cont /\ (N' = [] -> FInv FF x' A D' N')
  end.
Proof.
  induction bps as [|bp rest IH]; intros x D N parent res cont t HP HT H.
  - cbn [FootnoteParseBlock.try_parsersF] in H. injection H as <-. exists D, N. destruct HP as [[HO HF] _].
    split; [split; [apply (CE OInv_FW); exact HO|exact HF]|]. split; [exact HT|]. intros _. split; assumption.
  - cbn [FootnoteParseBlock.try_parsersF] in H.
    destruct (cont && (res =? noBlocksOpened) && negb (can_interrupt_paragraphF bp))%bool; [eapply IH; eassumption|].
    destruct ((3 <? w) && negb (can_accept_indentedF bp))%bool; [eapply IH; eassumption|].
    cbv zeta in H. bind_inv H y Ey. destruct y as [x1 o].
    pose proof HP as [[[HS [HO Hu]] HF] [Hpar Htop]].
    assert (PC N (s_h (bf_s x))) as HPC.
    { intros HN. rewrite <- (CJ lastid_app_ne A N HN). eapply (CE parent_node); eassumption. }
    destruct (p_openF_spec bp x parent x1 o A D N HS HO HPC HF Ey) as [[Ea [El Hpost]] [HF1 [Elst1 [Htmp1 Hli1]]]].
    set (tg := tag_of bp) in *.
    assert (Oeq (s_c (bf_s x1)) (A ++ D ++ N)) as HO1 by (eapply (CE Oeq_same); eassumption).
    assert (last_opened (s_c (bf_s x1)) = last_opened (s_c (bf_s x))) as Elo1 by (unfold last_opened; rewrite Ea, El; reflexivity).
    destruct o as [[[node hc] rp]|].
    2: { destruct Hpost as [HS1 Eh1]. eapply IH; [eapply TPreF_same; eassumption|eapply TrkF_same; eassumption|exact H]. }
    destruct Hpost as [Hnode [[n [Eh1 [Pn [Cn [Kn Hatx]]]]] [HW1 [Hhc [Hrpf Hrpt]]]]].
    assert (nth_error (s_h (bf_s x1)) node = Some n) as En1 by (rewrite Eh1, Hnode; apply nth_app_new).
    assert (forall y, In y (ids (A ++ D ++ N)) -> (y < node)%nat) as Hold.
    { intros y Hy. apply in_ids_inv in Hy. destruct Hy as [bq Hy].
      destruct (CE SInv_entry _ _ _ _ _ _ _ HS Hy) as [ny [_ [_ Hlt]]]. lia. }
    assert (node <> 0%nat) as Hn0.
    { destruct HS as [_ HH]. destruct (hs_root _ _ _ (hi_heap _ _ _ _ _ _ _ _ HH)) as [r0 [E0 _]]. apply nth_some_lt in E0. lia. }
    assert (~ In node (ids (A ++ D ++ N))) as Hni by (intros Hi; apply Hold in Hi; lia).
    assert (length (s_h (bf_s x1)) = S (length (s_h (bf_s x)))) as Hlen1 by (rewrite Eh1, app_length; cbn [length]; lia).
    assert (forall l, bf_list x = Some l -> (l < node)%nat) as Hlold.
    { intros l El'. pose proof (FL_list_lt _ _ _ (proj1 HF) El'). lia. }
    destruct rp.
    + (* RequireParagraph: a setext heading *)
      destruct (Hrpt eq_refl) as [Etg [-> [HF1' [-> [last [lp [nl [Elo [Etmp [Enl [Knl Pnl]]]]]]]]]]].
      rewrite Elo in H. bind_inv H r Er. bind_inv Er pn Epn. apply hget_ok in Epn.
      assert (nth_error (s_h (bf_s x1)) last = Some nl) as Enl1 by (rewrite Eh1; apply nth_app_oldF; exact Enl).
      rewrite <- Elo1 in Elo.
      destruct (CJ setext_pos FF (bf_s x1) A D last lp nl parent HF1' HO1 Elo Enl1 Knl Pnl Hpar) as [-> [[pn' [Epn' Hlc]] Hno]].
      assert (pn' = pn) by congruence. subst pn'. rewrite Hlc in Er. cbn [opt_nat_eqb] in Er. rewrite Nat.eqb_refl in Er.
      assert (lp = PParagraph) as ->.
      { assert (In (last, lp) (A ++ [(last, PParagraph)] ++ [])) as Hin.
        { pose proof (CC last_opened_spec _ _ HO1) as Hs. rewrite Elo in Hs. destruct Hs as [E' HE]. rewrite HE. apply in_or_app. right. left. reflexivity. }
        destruct (CE SInv_entry _ _ _ _ _ _ _ HF1' Hin) as [n0 [En0 [K0 _]]]. apply (CE pkind_para). congruence. }
      bind_inv Er x2 Ec2.
      destruct (p_closeF_core PParagraph x1 last x2 nl Enl1 ltac:(apply not_footnote_kind; congruence) Ec2) as [s2 [Ec2s ->]].
      cbn [p_close] in Ec2s. cbn [stf_s bf_s bf_list] in Er.
      assert (In (last, PParagraph) (A ++ [(last, PParagraph)] ++ [])) as Hin by (apply in_or_app; right; left; reflexivity).
      destruct (CE paragraph_close_ok FF (bf_s x1) last s2 A _ [] HF1' Hin Ec2s) as [HF2 [Ec2' [Er2 [Hlen2 [Hsh2 [n2 [En2 Ffin2]]]]]]].
      assert (cfr (s_h (bf_s x1)) (s_h s2)) as Hcf2.
      { eapply (CF p_close_cfr) with (bp := PParagraph); [| |exact Ec2s]; [intros m Em; cbn [pkind]; congruence|discriminate]. }
      destruct (Nat.eqb (c_len (s_c s2)) 0); [discriminate|].
      set (s3 := st_c s2 (cset_open (s_c s2) (c_arr (s_c s2)) (Init.Nat.pred (c_len (s_c s2))))) in *.
      bind_inv Er t4 Et. destruct t4 as [x4 gone].
      destruct (transform_paragraphF_core _ _ _ _ Et) as [s4 [Ets ->]]. cbn [stf_s bf_s bf_list] in Ets.
      assert (SInv FF s3 A ([] ++ [(last, PParagraph)]) []) as HF3 by (apply (CC SInv_ctx); auto).
      destruct (CJ transform_paragraph_ok FF s3 last s4 gone A [] [] HF3 Ets) as [T1 [T2 [T3 [T4 [T5 [T6 [T7 T8]]]]]]].
      pose proof (CJ transform_frame _ _ _ _ Ets) as Hfr. cbn [s3 st_c s_h] in Hfr, T5.
      assert (cfr (s_h s2) (s_h s4)) as Hcf4.
      { change (cfr (s_h s3) (s_h s4)). eapply (CF transform_paragraph_cfr); [|exact Ets]. cbn [s3 st_c s_h]. intros m Em.
        destruct (Hsh2 last nl Enl1) as [m' [Em' [Km' _]]]. congruence. }
      assert (Oeq (s_c s4) (A ++ [] ++ [])) as HO4.
      { eapply (CE Oeq_same); [|exact T1|exact T2]. cbn [s3 st_c s_c app]. rewrite app_nil_r. rewrite Ec2'.
        eapply (CE Oeq_pop). cbn [app] in HO1. exact HO1. }
      assert (uniqS (A ++ [] ++ [])) as Hu4.
      { eapply (CE uniqS_incl); [exact Hu|]. intros e He. cbn [app] in He. rewrite app_nil_r in He. apply in_or_app. left. exact He. }
      assert (c_arr (s_c s4) = c_arr (s_c (bf_s x))) as Earr4 by (rewrite T1; cbn [s3 st_c s_c cset_open c_arr]; congruence).
      assert (length (s_h (bf_s x0)) <= length (s_h s4))%nat as Hlen4 by (pose proof (tk_len _ _ _ _ _ _ _ _ HT); lia).
      assert (D0 = [(last, PParagraph)]) as ED0.
      { destruct (tk_D _ _ _ _ _ _ _ _ HT) as [E|[E _]]; [congruence|discriminate]. }
      (* the footnote facts after Close and Transform of the paragraph *)
      assert (FLs (stf_s (stf_s x1 s2) s4) A [(last, PParagraph)] []) as HFL4.
      { eapply FLs_cfr; [exact HF1| |reflexivity]. cbn [stf_s bf_s]. eapply cfr_trans; eassumption. }
      assert (FLs (stf_s (stf_s x1 s2) s4) A [] []) as HFL4'.
      { apply (FLs_drop _ A [] [] (last, PParagraph)). exact HFL4. }
      destruct gone.
      * (* the paragraph held only link reference definitions *)
        injection Er as <-. injection H as <-. exists [], []. split.
        -- split; [|split; assumption]. split; [|exact HFL4']. split; [apply T7; reflexivity|]. split; assumption.
        -- constructor; auto.
           ++ right. split; [reflexivity|]. eauto.
           ++ intros _. cbn [stf_s bf_s]. rewrite Earr4. apply (tk_arr _ _ _ _ _ _ _ _ HT). reflexivity.
           ++ destruct (tk_res _ _ _ _ _ _ _ _ HT) as [Hr|[_ Hr]]; [left; exact Hr|congruence].
           ++ discriminate.
           ++ intros y [].
      * (* the heading is attached, the paragraph becomes its temporary paragraph *)
        injection Er as <-. destruct (T8 eq_refl) as [HF4 Hfin4].
        bind_inv H h5 Eh5. bind_inv H x5 Ex5. bind_inv H h6 Eh6. injection H as <-.
        (* the new node after Close and Transform *)
        destruct (Hsh2 node n En1) as [n2' [En2' [K2 [P2 C2]]]].
        assert (node <> last) as Hnl by (apply nth_some_lt in Enl; lia).
        destruct (Hfr node n2' En2' Hnl ltac:(lia)) as [n4 [En4 [K4 [P4 C4]]]].
        assert (In (last, PParagraph) (A ++ ([] ++ [(last, PParagraph)]) ++ [])) as Hin4 by (apply in_or_app; right; left; reflexivity).
        destruct (CE SInv_entry _ _ _ _ _ _ _ HF4 Hin4) as [l4 [El4 [Kl4 _]]].
        assert (fin_lines (blines l4)) as Ffin4 by (eapply Hfin4; [exact En2|exact El4|exact Ffin2]).
        assert (SInv FF s4 A [] []) as HF4'.
        { eapply (CE SInv_drop); [exact HF4|]. intros m Em _ _. assert (m = l4) by congruence. subst m. exact Ffin4. }
        assert (~ In last (ids (A ++ [] ++ []))) as Hlast.
        { destruct HF1' as [_ HH]. pose proof (os_nodup _ _ _ _ _ _ (hi_open _ _ _ _ _ _ _ _ HH)) as Hnd.
          cbn [app]. rewrite app_nil_r. rewrite ids_app in Hnd. intros Hi. eapply (CJ nodup_app_disj); [exact Hnd|exact Hi|left; reflexivity]. }
        destruct (tail_okF FF (stf_s (stf_s x1 s2) s4) [] [] parent node PSetext blank (Some (last, PParagraph)) n4 h5 x5 h6) as [HO6 Hlen6]; auto.
        -- split; [exact HF4'|split; assumption].
        -- congruence.
        -- apply C4. congruence.
        -- cbn [pkind]. rewrite Etg in Kn. cbn [pkind] in Kn. congruence.
        -- discriminate.
        -- intros _. split; [intros z Hz; apply (Hno z); cbn [app] in *; rewrite app_nil_r in Hz; apply in_or_app; left; exact Hz|].
           exists last, l4. csplit; auto. cbn [stf_s bf_s]. rewrite T3. cbn [s3 st_c s_c cset_open c_tmp_para]. rewrite Ec2'. exact Etmp.
        -- intros tmp y _ Hy. exfalso. apply (Hno y). cbn [app] in *. rewrite app_nil_r in Hy. apply in_or_app. left. exact Hy.
        -- intros Hi. apply Hni. cbn [app] in *. rewrite app_nil_r in Hi. rewrite ids_app in *. apply in_or_app. left. exact Hi.
        -- discriminate.
        -- intros l' lp' E. injection E as <- <-. split; [auto|]. destruct (bpar l4) as [q|] eqn:Pq.
           ++ eauto.
           ++ pose proof (proj2 (T6 l4 El4) Pq). discriminate.
        -- cbn [stf_s bf_list]. intros l El' E. rewrite Elst1 in El'. apply Hlold in El'. lia.
        -- rewrite Etg. exists [], ([] ++ [(node, PSetext)]). split; [|split; [|intros E; discriminate]].
           ++ destruct HO6 as [HO6 HFL6]. split; [apply (CE OInv_FW); exact HO6|exact HFL6].
           ++ constructor; auto.
              ** cbn [stf_s bf_s st_c st_h s_h] in *. lia.
              ** right. split; [reflexivity|]. eauto.
              ** intros E. discriminate.
              ** right. split; [reflexivity|discriminate].
              ** intros Hc. split; [exact (proj1 (tk_cont _ _ _ _ _ _ _ _ HT Hc))|intros E; discriminate].
              ** intros y [<-|[]]. cbn [fst]. pose proof (tk_len _ _ _ _ _ _ _ _ HT). lia.
    + (* an ordinary Open *)
      pose proof (Hrpf eq_refl) as Hbp. cbn [bind] in H. bind_inv H h2 Eh2. bind_inv H x2 Ex2. bind_inv H h3 Eh3.
      pose proof (Htmp1 Hbp) as Etmp.
      assert (forall fl, SInv fl (bf_s x1) A D N ->
                FInv fl (stf_s x2 (st_c (st_h (bf_s x2) h3) (push_opened (s_c (bf_s x2)) (node, tg)))) A D (N ++ [(node, tg)]) /\
                length h3 = length (s_h (bf_s x1))) as Hatt.
      { intros fl HS1. eapply (tail_okF fl x1 D N parent node tg blank (last_opened (s_c (bf_s x))) n h2 x2 h3); auto; try eassumption.
        - split; [exact HS1|split; assumption].
        - intros E. congruence.
        - intros tmp y Et Hy. destruct HS as [_ HH]. destruct (os_tmp _ _ _ _ _ _ (hi_open _ _ _ _ _ _ _ _ HH) y Hy) as [tmp' [t' [T1 [T2 _]]]].
          rewrite Etmp in Et. assert (tmp' = tmp) by congruence. subst tmp'. apply nth_some_lt in T2. lia.
        - intros E. destruct (Hli1 E ltac:(discriminate)) as [pn [Epn Kpn]].
          exists pn. split; [rewrite Eh1; apply nth_app_oldF; exact Epn|exact Kpn].
        - intros last lp Elo.
          assert (In last (ids (A ++ D ++ N))) as Hin.
          { pose proof (CC last_opened_spec _ _ HO) as Hs. rewrite Elo in Hs. destruct Hs as [E' HE]. rewrite HE, (CC ids_snoc).
            apply in_or_app. right. left. reflexivity. }
          split; [apply Hold in Hin; lia|]. destruct (CE opened_attached _ _ _ _ _ _ HS Hin) as [q [ny [Ey' Py]]].
          exists ny, q. split; [rewrite Eh1; apply nth_app_oldF; exact Ey'|exact Py].
        - intros l El' E. rewrite Elst1 in El'. apply Hlold in El'. lia. }
      assert (TrkF (stf_s x2 (st_c (st_h (bf_s x2) h3) (push_opened (s_c (bf_s x2)) (node, tg)))) D (N ++ [(node, tg)]) newBlocksOpened cont) as HT3.
      { destruct (Hatt WW HW1) as [_ Hlen3]. constructor.
        - cbn [stf_s bf_s st_c st_h s_h]. pose proof (tk_len _ _ _ _ _ _ _ _ HT). lia.
        - exact (tk_D _ _ _ _ _ _ _ _ HT).
        - intros E. destruct N; discriminate.
        - right. split; [reflexivity|]. destruct N; discriminate.
        - intros Hc. split; [exact (proj1 (tk_cont _ _ _ _ _ _ _ _ HT Hc))|intros E; destruct N; discriminate].
        - intros y Hy. rewrite (CC ids_snoc) in Hy. apply in_app_or in Hy. destruct Hy as [Hy|[<-|[]]].
          + exact (tk_new _ _ _ _ _ _ _ _ HT y Hy).
          + cbn [fst]. pose proof (tk_len _ _ _ _ _ _ _ _ HT). lia. }
      destruct hc.
      * injection H as <-. destruct (Hhc eq_refl) as [Kc HFF1]. exists D, (N ++ [(node, tg)]). split; [|exact HT3].
        split; [exact (proj1 (Hatt FF HFF1))|]. split.
        -- rewrite app_assoc. rewrite (CE lastid_ids_snoc). reflexivity.
        -- intros E' y bq HE. rewrite app_assoc in HE. apply app_inj_tail in HE. destruct HE as [_ HE]. injection HE as <- <-. exact Kc.
      * injection H as <-. exists D, (N ++ [(node, tg)]). split; [exact (proj1 (Hatt WW HW1))|]. split; [exact HT3|].
        intros E. destruct N; discriminate.
Qed.

Lemma open_blocks_loopF_ok blank : forall fuel parent x D N res cont res' cont' x', TPreF x D N parent -> TrkF x D N res cont ->
  open_blocks_loopF fuel parent blank cont res x = Ok (res', cont', x') ->
  exists D' N', FInv WW x' A D' N' /\ TrkF x' D' N' res' cont' /\ (N' = [] -> FInv FF x' A D' N').
Proof.
  induction fuel as [|f IH]; intros parent x D N res cont res' cont' x' HP HT H; [discriminate|].
  cbn [FootnoteParseBlock.open_blocks_loopF] in H. bind_inv H y Ey. destruct y as [[s1 line] sg].
  pose proof HP as [[[HS [HO Hu]] HF] [Hpar Htop]].
  destruct (CC peek_s_ok _ _ _ _ _ _ _ HS Ey) as [HS1 [Eh1 [Ec1 _]]].
  bind_inv H z Ez. destruct z as [s2 off].
  destruct (CC loff_s_ok _ _ _ _ _ _ HS1 Ez) as [HS2 [Eh2 [Ec2 _]]].
  destruct (indent_width (line_of line) off) as [w pos].
  match type of H with context [st_c s2 ?c] => set (c3 := c) in * end.
  assert (c_tmp_para c3 = c_tmp_para (s_c s2) /\ c_fence c3 = c_fence (s_c s2) /\ c_refs c3 = c_refs (s_c s2) /\
          c_arr c3 = c_arr (s_c s2) /\ c_len c3 = c_len (s_c s2)) as [C1 [C2 [C3 [C4 C5]]]].
  { unfold c3. destruct (zlen (line_of line) <=? w); cbn [cset_off c_tmp_para c_fence c_refs c_arr c_len]; auto. }
  assert (TPreF (stf_s x (st_c s2 c3)) D N parent) as HP3.
  { eapply TPreF_same; [exact HP|apply (CC SInv_ctx); auto| |cbn [stf_s bf_s st_c s_c]; congruence|cbn [stf_s bf_s st_c s_c]; congruence].
    eapply FLs_same; [exact HF|cbn [stf_s bf_s st_c s_h]; congruence|reflexivity]. }
  assert (TrkF (stf_s x (st_c s2 c3)) D N res cont) as HT3.
  { eapply TrkF_same; [exact HT|cbn [stf_s bf_s st_c s_h]; congruence|cbn [stf_s bf_s st_c s_c]; congruence]. }
  match type of H with (if ?b then _ else _) = _ => destruct b end.
  - injection H as <- <- <-. exists D, N. destruct HP3 as [[HO3 HF3] _].
    split; [split; [apply (CE OInv_FW); exact HO3|exact HF3]|]. split; [exact HT3|]. intros _. split; assumption.
  - bind_inv H t Et. pose proof (try_parsersF_ok _ _ _ _ _ _ _ _ _ _ HP3 HT3 Et) as Ht. destruct t as [p' c' r' st'|r' st'].
    + destruct Ht as [D' [N' [HP' HT']]]. eapply IH; eassumption.
    + injection H as <- <- <-. exact Ht.
Qed.

End Track.

(* ---------- openBlocks ---------- *)
Lemma open_blocksF_ok fuel parent blank x A D res x' : FInv FF x A D [] -> topC A -> parent = lastid (ids A) ->
  open_blocksF fuel parent blank x = Ok (res, x') ->
  exists D' N', FInv WW x' A D' N' /\
    (D' = D \/ (D' = [] /\ exists y, D = [(y, PParagraph)] /\ ~ In y (ids N') /\ (N' = [] -> c_arr (s_c (bf_s x')) = c_arr (s_c (bf_s x))))) /\
    (res = paragraphContinuation -> D' = D /\ N' = [] /\ shape_le (s_h (bf_s x)) (s_h (bf_s x'))) /\
    (res <> newBlocksOpened -> N' = []) /\ (length (s_h (bf_s x)) <= length (s_h (bf_s x')))%nat.
Proof.
  intros HO0 Htop Hpar H. unfold FootnoteParseBlock.open_blocksF in H. bind_inv H cont0 Ec0. bind_inv H y Ey. destruct y as [[res1 cont1] x1].
  assert (TPreF A x D [] parent) as HP.
  { split; [exact HO0|]. rewrite app_nil_r. auto. }
  assert (Trk (bf_s x) D cont0 (bf_s x) D [] noBlocksOpened cont0) as HT.
  { constructor; auto. - intros Hc. split; [exact Hc|]. intros _. split; [reflexivity|apply shape_le_refl]. - intros y []. }
  destruct (open_blocks_loopF_ok x A D cont0 blank _ _ _ _ _ _ _ _ _ _ HP HT Ey) as [D' [N' [HW1 [HT1 HF1]]]].
  assert (D' = D \/ (D' = [] /\ exists y, D = [(y, PParagraph)] /\ ~ In y (ids N') /\ (N' = [] -> c_arr (s_c (bf_s x1)) = c_arr (s_c (bf_s x))))) as HD.
  { destruct (tk_D _ _ _ _ _ _ _ _ HT1) as [E|[E [y Ey']]]; [left; exact E|right]. split; [exact E|]. exists y. csplit; auto.
    - intros Hi. apply (tk_new _ _ _ _ _ _ _ _ HT1) in Hi.
      assert (In (y, PParagraph) (A ++ D ++ [])) as Hin by (rewrite Ey'; apply in_or_app; right; left; reflexivity).
      destruct (CE SInv_entry _ _ _ _ _ _ _ (proj1 (proj1 HO0)) Hin) as [_ [_ [_ Hlt]]]. lia.
    - exact (tk_arr _ _ _ _ _ _ _ _ HT1). }
  pose proof (tk_len _ _ _ _ _ _ _ _ HT1) as Hlen1.
  destruct ((res1 =? noBlocksOpened) && cont1)%bool eqn:Ecnd.
  - apply andb_true_iff in Ecnd. destruct Ecnd as [Er1 ->]. apply Z.eqb_eq in Er1. subst res1.
    destruct (tk_res _ _ _ _ _ _ _ _ HT1) as [[_ ->]|[Hr _]]; [|discriminate].
    destruct (tk_cont _ _ _ _ _ _ _ _ HT1 eq_refl) as [-> Hc]. destruct (Hc eq_refl) as [-> Hsh1].
    pose proof (HF1 eq_refl) as [[HS1 [HO1 Hu1]] HFL1].
    destruct (last_opened (s_c (bf_s x1))) as [[l lp]|] eqn:Elo; [|discriminate].
    bind_inv H z Ez. destruct z as [[x2 c2] k2]. injection H as <- <-.
    pose proof (CC last_opened_spec _ _ HO1) as Hs. rewrite Elo in Hs. destruct Hs as [E' HE].
    destruct HO0 as [[HS0 [HO0 Hu0]] HFL0]. rewrite HE in HO0. rewrite (CE Oeq_last _ _ _ HO0) in Ec0.
    unfold is_paragraph in Ec0. bind_inv Ec0 nl Enl. apply hget_ok in Enl. injection Ec0 as Ek. apply (CC bkind_eqb_eq) in Ek.
    assert (In (l, lp) (A ++ D ++ [])) as Hin by (rewrite HE; apply in_or_app; right; left; reflexivity).
    destruct (CE SInv_entry _ _ _ _ _ _ _ HS0 Hin) as [n0 [En0 [K0 _]]]. assert (n0 = nl) by congruence. subst n0.
    assert (lp = PParagraph) as -> by (apply (CE pkind_para); congruence).
    destruct (CE SInv_entry _ _ _ _ _ _ _ HS1 Hin) as [nl1 [Enl1 [Kl1 _]]].
    destruct (p_continueF_core PParagraph x1 l x2 c2 k2 nl1 Enl1 ltac:(apply not_footnote_kind; cbn [pkind] in Kl1; congruence) Ez) as [s2 [Ezs ->]].
    cbn [p_continue] in Ezs. bind_inv Ezs z Ez'. destruct z as [s2' c2']. cbn [fst snd] in Ezs. injection Ezs as <- <- <-.
    destruct (CC paragraph_continue_ok _ _ _ _ _ _ _ HS1 Hin Ez') as [Ea [El [Hcf Hct]]].
    pose proof (CJ paragraph_continue_shape _ _ _ _ Ez') as Hsh2.
    assert (cfr (s_h (bf_s x1)) (s_h s2')) as Hcf2.
    { eapply (CF p_continue_cfr) with (bp := PParagraph) (node := l) (c := c2') (k := false); [intros m Em; congruence|].
      cbn [p_continue]. rewrite Ez'. reflexivity. }
    exists D, []. cbn [stf_s bf_s bf_list]. csplit.
    + split; [|eapply FLs_cfr; [exact HFL1|exact Hcf2|reflexivity]].
      split; [destruct c2'; [apply Hct; reflexivity|apply (CC SInv_FW); apply Hcf; reflexivity]|].
      split; [eapply (CE Oeq_same); eassumption|exact Hu1].
    + left. reflexivity.
    + intros _. csplit; auto. eapply shape_le_trans; eassumption.
    + intros _. reflexivity.
    + apply (CJ shape_le_length) in Hsh2. lia.
  - injection H as <- <-. exists D', N'. csplit; auto.
    + intros E. destruct (tk_res _ _ _ _ _ _ _ _ HT1) as [[Hr _]|[Hr _]]; rewrite Hr in E; discriminate.
    + intros Hne. destruct (tk_res _ _ _ _ _ _ _ _ HT1) as [[_ Hr]|[Hr _]]; [exact Hr|congruence].
Qed.

End N.
