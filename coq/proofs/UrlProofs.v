(* Laws of URLEscape's escaping stage (C19). *)
Require Import GM.model.Base GM.model.Util GM.model.UrlSpec GM.proofs.Finite.
From Coq Require Import Lia ZifyBool ZifyNat ZifyN.
Open Scope N_scope.

Section Url.
Variable url_escape_table : list N.
Variable utf8len_table : list N.
Hypothesis tables_ok : url_tables_ok url_escape_table utf8len_table = true.

Notation url_escape_raw := (url_escape_raw url_escape_table utf8len_table).
Notation url_escape_loop := (url_escape_loop url_escape_table utf8len_table).
Notation UOut := (UOut url_escape_table utf8len_table).
Notation UTok := (UTok url_escape_table utf8len_table).
Notation url_safe := (url_safe url_escape_table).
Notation u8len := (u8len utf8len_table).
Notation url_escape_other := (url_escape_other utf8len_table).

Definition all_bytes (v : bytes) : Prop := Forall (fun c => c < 256) v.

(* ---------- table facts ---------- *)
Lemma range_forall (P : N -> bool) :
  forallb P (map N.of_nat (seq 0 256)) = true -> forall c, c < 256 -> P c = true.
Proof.
  intros H c Hc. rewrite forallb_forall in H. apply H.
  apply in_map_iff. exists (N.to_nat c). split. apply N2Nat.id. apply in_seq. lia.
Qed.

Lemma tbl_fact c : c < 256 ->
  (url_safe c = true -> 32 < c /\ c < 127 /\ c <> 34 /\ c <> 60 /\ c <> 62 /\ c <> 37) /\
  (u8len c = 99 -> 128 <= c) /\
  (u8len c = 1 \/ u8len c = 2 \/ u8len c = 3 \/ u8len c = 4 \/ u8len c = 99) /\
  (c < 128 -> u8len c = 1) /\
  (194 <= c <= 223 -> u8len c = 2) /\
  (224 <= c <= 239 -> u8len c = 3) /\
  (240 <= c <= 244 -> u8len c = 4) /\
  (query_unreserved c = true -> url_safe c = true).
Proof.
  intro Hc. pose proof tables_ok as H. unfold url_tables_ok in H.
  apply andb_prop in H as [_ H]. unfold byte_range in H.
  pose proof (range_forall _ H c Hc) as Hb. cbv beta in Hb.
  generalize dependent (url_safe c). generalize dependent (u8len c).
  generalize dependent (query_unreserved c).
  intros q l s Hb. lia.
Qed.

Lemma tbl_len : length url_escape_table = 256%nat /\ length utf8len_table = 256%nat.
Proof.
  pose proof tables_ok as H. unfold url_tables_ok in H.
  apply andb_prop in H as [H _]. apply andb_prop in H as [H1 H2].
  apply Nat.eqb_eq in H1. apply Nat.eqb_eq in H2. auto.
Qed.

Lemma safe_big c : 256 <= c -> url_safe c = false.
Proof.
  intro Hc. unfold Util.url_safe. rewrite tbl_overflow; [reflexivity| apply tbl_len | exact Hc].
Qed.

Lemma u8len_big c : 256 <= c -> u8len c = 1.
Proof.
  intro Hc. unfold Util.u8len. rewrite tbl_overflow; [reflexivity| apply tbl_len | exact Hc].
Qed.

Lemma safe_fact c : url_safe c = true ->
  32 < c /\ c < 127 /\ c <> 34 /\ c <> 60 /\ c <> 62 /\ c <> 37.
Proof.
  intro Hs. destruct (N.lt_ge_cases c 256) as [Hc|Hc].
  - apply (tbl_fact c Hc). exact Hs.
  - rewrite (safe_big c Hc) in Hs. discriminate.
Qed.

Lemma u8len99 c : u8len c = 99 -> 128 <= c /\ c < 256.
Proof.
  intro H. destruct (N.lt_ge_cases c 256) as [Hc|Hc].
  - split; [|exact Hc]. apply (tbl_fact c Hc). exact H.
  - rewrite (u8len_big c Hc) in H. discriminate.
Qed.

(* ---------- hex digits ---------- *)
Lemma hexdigit_hex n : n < 16 -> is_hex (hexdigit_upper n) = true.
Proof. intro H. unfold is_hex, hexdigit_upper. destruct (N.ltb_spec n 10); lia. Qed.

Lemma hexdigit_lt n : n < 16 -> hexdigit_upper n < 128.
Proof. intro H. unfold hexdigit_upper. destruct (N.ltb_spec n 10); lia. Qed.

Lemma div16 c : c < 256 -> c / 16 < 16.
Proof. intro H. apply N.div_lt_upper_bound; lia. Qed.

Lemma mod16 c : c mod 16 < 16.
Proof. apply N.mod_lt. lia. Qed.

Lemma pct_tok c : c < 256 -> UTok (pct c).
Proof.
  intro H. unfold pct. apply ut_pct; apply hexdigit_hex; [apply div16; exact H | apply mod16].
Qed.

Lemma hex_not_pct h : is_hex h = true -> h <> 37.
Proof. unfold is_hex. lia. Qed.

Lemma hex_byte_ok h : is_hex h = true -> url_byte_ok h = true.
Proof. unfold is_hex, url_byte_ok. lia. Qed.

Lemma hex_ascii h : is_hex h = true -> h < 128.
Proof. unfold is_hex. lia. Qed.

(* ---------- closure of all_bytes ---------- *)
Lemma all_bytes_firstn n v : all_bytes v -> all_bytes (firstn n v).
Proof.
  unfold all_bytes. intro H. rewrite <- (firstn_skipn n v) in H.
  apply Forall_app in H. apply H.
Qed.

Lemma all_bytes_skipn n v : all_bytes v -> all_bytes (skipn n v).
Proof.
  unfold all_bytes. intro H. rewrite <- (firstn_skipn n v) in H.
  apply Forall_app in H. apply H.
Qed.

(* ---------- fuel independence ---------- *)
Lemma other_ext total c rest rec1 rec2 :
  (forall r, (length r <= length rest)%nat -> rec1 r = rec2 r) ->
  url_escape_other total c rest rec1 = url_escape_other total c rest rec2.
Proof.
  intro H. unfold Util.url_escape_other. cbv zeta.
  assert (H0 : rec1 rest = rec2 rest) by (apply H; lia).
  assert (Hk : forall k, rec1 (skipn k rest) = rec2 (skipn k rest)).
  { intro k. apply H. rewrite skipn_length. lia. }
  rewrite H0, Hk. reflexivity.
Qed.

Lemma loop_fuel total : forall f1 f2 v,
  (length v <= f1)%nat -> (length v <= f2)%nat ->
  url_escape_loop f1 total v = url_escape_loop f2 total v.
Proof.
  induction f1 as [|f1 IH]; intros f2 v H1 H2.
  - destruct v as [|c rest]; [|cbn [length] in H1; lia]. destruct f2; reflexivity.
  - destruct f2 as [|f2].
    { destruct v as [|c rest]; [reflexivity | cbn [length] in H2; lia]. }
    cbn [Util.url_escape_loop]. destruct v as [|c rest]; [reflexivity|].
    cbn [length] in H1, H2.
    assert (Hrec : forall r, (length r <= length rest)%nat ->
                     url_escape_loop f1 total r = url_escape_loop f2 total r).
    { intros r Hr. apply IH; lia. }
    pose proof (other_ext total c rest _ _ Hrec) as Ho.
    destruct (url_safe c).
    + f_equal. apply Hrec. lia.
    + destruct rest as [|h1 [|h2 rest2]]; try exact Ho.
      destruct ((c =? 37) && is_hex h1 && is_hex h2); [|exact Ho].
      do 3 f_equal. apply Hrec. cbn [length]. lia.
Qed.

(* the loop's result does not depend on the fuel once it covers the input *)
Theorem url_escape_fuel_enough : forall v total f1 f2,
  (length v <= f1)%nat -> (length v <= f2)%nat ->
  url_escape_loop f1 total v = url_escape_loop f2 total v.
Proof. intros v total f1 f2 H1 H2. apply loop_fuel; assumption. Qed.

(* ---------- output grammar, with '+' as an explicit extra token ---------- *)
Inductive Tok' : bytes -> Prop :=
| t_tok t : UTok t -> Tok' t
| t_plus : Tok' [43].

Inductive Out' : bytes -> Prop :=
| o_nil : Out' []
| o_app t w : Tok' t -> Out' w -> Out' (t ++ w).

Lemma out_app a b : Out' a -> Out' b -> Out' (a ++ b).
Proof.
  intros Ha Hb. induction Ha as [|t w Ht Hw IH]; [exact Hb|].
  rewrite <- app_assoc. apply o_app; assumption.
Qed.

Lemma tok_out t : Tok' t -> Out' t.
Proof. intro H. rewrite <- (app_nil_r t). apply o_app; [exact H | apply o_nil]. Qed.

Lemma qe1_out c : c < 256 -> Out' (query_escape1 c).
Proof.
  intro Hc. unfold query_escape1. destruct (query_unreserved c) eqn:Hq.
  - apply tok_out, t_tok, ut_safe. apply (tbl_fact c Hc). exact Hq.
  - destruct (c =? 32).
    + apply tok_out, t_plus.
    + apply tok_out, t_tok, pct_tok. exact Hc.
Qed.

Lemma qe_out s : all_bytes s -> Out' (query_escape s).
Proof.
  intro H. induction H as [|c s Hc Hs IH]; unfold query_escape; cbn [flat_map].
  - apply o_nil.
  - apply out_app; [apply qe1_out; exact Hc | exact IH].
Qed.

Lemma other_out total c rest rec :
  total <> 1 -> c < 256 -> url_safe c = false -> all_bytes rest ->
  (forall r, all_bytes r -> Out' (rec r)) ->
  Out' (url_escape_other total c rest rec).
Proof.
  intros Ht Hc Hs Hr Hrec. unfold Util.url_escape_other. cbv zeta.
  destruct (N.eqb_spec (u8len c) 99) as [H99|H99].
  - apply (o_app [c]); [apply t_tok, ut_raw; assumption | apply Hrec; exact Hr].
  - destruct (N.eqb_spec c 32) as [Hsp|Hsp].
    + apply o_app; [apply t_tok, ut_pct; reflexivity | apply Hrec; exact Hr].
    + set (l := if total <? u8len c then total - 1 else u8len c).
      destruct (N.eqb_spec l 0) as [Hl0|Hl0].
      * destruct (N.eqb_spec total 1) as [Ht1|Ht1]; [contradiction | apply Hrec; exact Hr].
      * destruct (N.of_nat (length rest) + 1 <? l); [apply Hrec; exact Hr|].
        apply out_app.
        -- apply qe_out. constructor; [exact Hc | apply all_bytes_firstn; exact Hr].
        -- apply Hrec. apply all_bytes_skipn. exact Hr.
Qed.

Lemma loop_out total : total <> 1 -> forall fuel v, all_bytes v ->
  Out' (url_escape_loop fuel total v).
Proof.
  intros Ht fuel. induction fuel as [|f IH]; intros v Hv; cbn [Util.url_escape_loop].
  - apply o_nil.
  - destruct v as [|c rest]; [apply o_nil|].
    inversion Hv as [|c' rest' Hc Hr]; subst c' rest'.
    destruct (url_safe c) eqn:Hs.
    + apply (o_app [c]); [apply t_tok, ut_safe; exact Hs | apply IH; exact Hr].
    + assert (Ho : Out' (url_escape_other total c rest (url_escape_loop f total))).
      { apply other_out; assumption. }
      destruct rest as [|h1 [|h2 rest2]]; try exact Ho.
      destruct ((c =? 37) && is_hex h1 && is_hex h2) eqn:Hcond; [|exact Ho].
      apply andb_prop in Hcond as [Hcond H2]. apply andb_prop in Hcond as [Hc37 H1].
      apply N.eqb_eq in Hc37. subst c.
      apply (o_app [37; h1; h2]); [apply t_tok, ut_pct; assumption|].
      apply IH. inversion Hr as [|x1 l1 Hx1 Hr1]; subst x1 l1.
      inversion Hr1 as [|x2 l2 Hx2 Hr2]; subst x2 l2. exact Hr2.
Qed.

Lemma out_out' : forall v, all_bytes v ->
  Out' (url_escape_raw v) \/ (exists c, v = [c] /\ 128 <= c /\ url_escape_raw v = [c]).
Proof.
  intros v Hv. destruct (Nat.eq_dec (length v) 1) as [H1|H1].
  - destruct v as [|c [|c2 rest]]; try (cbn [length] in H1; lia).
    inversion Hv as [|c' rest' Hc Hr]; subst c' rest'.
    unfold Util.url_escape_raw. cbn [length]. change (N.of_nat 1) with 1.
    cbn [Util.url_escape_loop].
    destruct (url_safe c) eqn:Hs.
    + left. apply tok_out, t_tok, ut_safe. exact Hs.
    + unfold Util.url_escape_other. cbv zeta.
      destruct (N.eqb_spec (u8len c) 99) as [H99|H99].
      * left. apply tok_out, t_tok, ut_raw; assumption.
      * destruct (N.eqb_spec c 32) as [Hsp|Hsp].
        -- left. apply (o_app [37; 50; 48]); [apply t_tok, ut_pct; reflexivity | apply o_nil].
        -- set (l := if 1 <? u8len c then 1 - 1 else u8len c).
           destruct (N.eqb_spec l 0) as [Hl0|Hl0].
           ++ right. exists c. change (1 =? 1) with true. cbv iota.
              split; [reflexivity|]. split; [|reflexivity].
              pose proof (tbl_fact c Hc) as (_ & _ & Hcls & Hl1 & _).
              subst l. destruct (N.ltb_spec 1 (u8len c)); lia.
           ++ left. destruct (N.of_nat (length (@nil N)) + 1 <? l); [apply o_nil|].
              apply out_app; [|apply o_nil].
              apply qe_out. constructor; [exact Hc | apply all_bytes_firstn; exact Hr].
  - left. unfold Util.url_escape_raw. apply loop_out; [lia | exact Hv].
Qed.

(* ---------- alphabet ---------- *)
Lemma tok_alpha t : Tok' t -> forallb url_byte_ok t = true.
Proof.
  intro Ht. destruct Ht as [t Ht|]; [|reflexivity].
  destruct Ht as [c Hs | h1 h2 H1 H2 | c Hc H99 Hs]; cbn [forallb].
  - apply safe_fact in Hs. unfold url_byte_ok. lia.
  - rewrite (hex_byte_ok h1 H1), (hex_byte_ok h2 H2). reflexivity.
  - apply u8len99 in H99. unfold url_byte_ok. lia.
Qed.

Lemma out_alpha w : Out' w -> forallb url_byte_ok w = true.
Proof.
  intro H. induction H as [|t w Ht Hw IH]; [reflexivity|].
  rewrite forallb_app, (tok_alpha t Ht), IH. reflexivity.
Qed.

(* no space, control, DEL, double-quote or angle-bracket byte *)
Theorem url_escape_alphabet : forall v, all_bytes v ->
  forallb url_byte_ok (url_escape_raw v) = true.
Proof.
  intros v Hv. destruct (out_out' v Hv) as [H|(c & _ & Hc & Hr)].
  - apply out_alpha. exact H.
  - rewrite Hr. cbn [forallb]. unfold url_byte_ok. lia.
Qed.

(* ---------- percent ---------- *)
Lemma percent_skip c w : c <> 37 -> percent_ok (c :: w) = percent_ok w.
Proof.
  intro H. cbn [percent_ok]. destruct (N.eqb_spec c 37) as [E|E]; [contradiction | reflexivity].
Qed.

Lemma out_percent w : Out' w -> percent_ok w = true.
Proof.
  intro H. induction H as [|t w Ht Hw IH]; [reflexivity|].
  destruct Ht as [t Ht|].
  - destruct Ht as [c Hs | h1 h2 H1 H2 | c Hc H99 Hs]; cbn [app].
    + rewrite percent_skip; [exact IH|]. apply safe_fact in Hs. lia.
    + change (percent_ok (37 :: h1 :: h2 :: w))
        with (is_hex h1 && is_hex h2 && percent_ok (h1 :: h2 :: w)).
      rewrite H1, H2. rewrite percent_skip by (apply hex_not_pct; exact H1).
      rewrite percent_skip by (apply hex_not_pct; exact H2). rewrite IH. reflexivity.
    + rewrite percent_skip; [exact IH|]. apply u8len99 in H99. lia.
  - cbn [app]. rewrite percent_skip; [exact IH | lia].
Qed.

(* every % is followed by two hex digits *)
Theorem url_escape_percent : forall v, all_bytes v -> percent_ok (url_escape_raw v) = true.
Proof.
  intros v Hv. destruct (out_out' v Hv) as [H|(c & _ & Hc & Hr)].
  - apply out_percent. exact H.
  - rewrite Hr. rewrite percent_skip; [reflexivity | lia].
Qed.

(* an existing %XX triple met by the scan is kept as it is *)
Theorem url_escape_keeps_triple : forall f total h1 h2 rest,
  is_hex h1 = true -> is_hex h2 = true ->
  url_escape_loop (S f) total (37 :: h1 :: h2 :: rest) = 37 :: h1 :: h2 :: url_escape_loop f total rest.
Proof.
  intros f total h1 h2 rest H1 H2. cbn [Util.url_escape_loop].
  destruct (url_safe 37) eqn:Hs.
  - apply safe_fact in Hs. lia.
  - rewrite H1, H2. reflexivity.
Qed.

(* ---------- ASCII output on valid UTF-8 ---------- *)
Lemma decode_cases c rest r w : decode_rune (c :: rest) = (r, w) ->
  (r = 65533 /\ w = 1) \/ (c < 128 /\ w = 1) \/
  (194 <= c <= 223 /\ w = 2 /\ (1 <= length rest)%nat) \/
  (224 <= c <= 239 /\ w = 3 /\ (2 <= length rest)%nat) \/
  (240 <= c <= 244 /\ w = 4 /\ (3 <= length rest)%nat).
Proof.
  unfold decode_rune. cbv zeta. intro H.
  repeat match type of H with
  | (if ?b then _ else _) = _ => destruct b eqn:?
  | match ?l with [] => _ | _ :: _ => _ end = _ => destruct l
  end; injection H as <- <-; cbn [length]; lia.
Qed.

Lemma valid_step f c rest : valid_utf8_fuel f (c :: rest) = true ->
  exists f' w, valid_utf8_fuel f' (skipn (N.to_nat w - 1) rest) = true /\
    (N.to_nat w - 1 <= length rest)%nat /\
    ((c < 128 /\ w = 1) \/ (194 <= c <= 223 /\ w = 2) \/
     (224 <= c <= 239 /\ w = 3) \/ (240 <= c <= 244 /\ w = 4)).
Proof.
  destruct f as [|f]; cbn [valid_utf8_fuel]; [discriminate|].
  destruct (decode_rune (c :: rest)) as [r w] eqn:Hd. intro H.
  apply decode_cases in Hd.
  destruct ((r =? 65533) && (w =? 1)) eqn:E; [discriminate|].
  exists f, w.
  assert (Hw : 1 <= w) by lia.
  replace (N.to_nat w) with (S (N.to_nat w - 1)) in H at 1 by lia. cbn [skipn] in H.
  split; [exact H|]. split; lia.
Qed.

Lemma valid_ascii_tail f c rest : valid_utf8_fuel f (c :: rest) = true -> c < 128 ->
  exists f', valid_utf8_fuel f' rest = true.
Proof.
  intros H Hc. destruct (valid_step f c rest H) as (f' & w & Hv & _ & Hcls).
  exists f'. replace (N.to_nat w - 1)%nat with 0%nat in Hv by lia. exact Hv.
Qed.

Lemma qe1_ascii c : c < 256 -> Forall (fun b => b < 128) (query_escape1 c).
Proof.
  intro Hc. unfold query_escape1. destruct (query_unreserved c) eqn:Hq.
  - constructor; [|constructor]. unfold query_unreserved, is_alnum in Hq. lia.
  - destruct (c =? 32).
    + constructor; [lia | constructor].
    + unfold pct. constructor; [lia|]. constructor; [apply hexdigit_lt, div16; exact Hc|].
      constructor; [apply hexdigit_lt, mod16 | constructor].
Qed.

Lemma qe_ascii s : all_bytes s -> Forall (fun b => b < 128) (query_escape s).
Proof.
  intro H. induction H as [|c s Hc Hs IH]; unfold query_escape; cbn [flat_map].
  - constructor.
  - apply Forall_app. split; [apply qe1_ascii; exact Hc | exact IH].
Qed.

Lemma loop_ascii total : forall fuel v f, all_bytes v -> valid_utf8_fuel f v = true ->
  N.of_nat (length v) <= total -> Forall (fun b => b < 128) (url_escape_loop fuel total v).
Proof.
  induction fuel as [|fu IH]; intros v f Hv Hval Hlen; cbn [Util.url_escape_loop].
  - constructor.
  - destruct v as [|c rest]; [constructor|].
    inversion Hv as [|c' rest' Hc Hr]; subst c' rest'.
    destruct (valid_step _ _ _ Hval) as (f' & w & Hval' & Hwl & Hcls).
    cbn [length] in Hlen.
    pose proof (tbl_fact c Hc) as (Hsafe & H99 & _ & Hl1 & Hl2 & Hl3 & Hl4 & _).
    assert (Hu : u8len c = w) by lia.
    assert (Hother : Forall (fun b => b < 128)
                       (url_escape_other total c rest (url_escape_loop fu total))).
    { unfold Util.url_escape_other. cbv zeta. rewrite Hu.
      destruct (N.eqb_spec w 99) as [E99|E99]; [lia|].
      destruct (N.eqb_spec c 32) as [Hsp|Hsp].
      - apply Forall_app. split; [repeat (constructor; [lia|]); constructor|].
        replace (N.to_nat w - 1)%nat with 0%nat in Hval' by lia. cbn [skipn] in Hval'.
        apply (IH rest f'); [exact Hr | exact Hval' | lia].
      - destruct (N.ltb_spec total w) as [Htw|Htw]; [lia|].
        destruct (N.eqb_spec w 0) as [Hw0|Hw0]; [lia|].
        destruct (N.ltb_spec (N.of_nat (length rest) + 1) w) as [Hlw|Hlw]; [lia|].
        apply Forall_app. split.
        + apply qe_ascii. constructor; [exact Hc | apply all_bytes_firstn; exact Hr].
        + apply (IH _ f'); [apply all_bytes_skipn; exact Hr | exact Hval' |].
          rewrite skipn_length. lia. }
    destruct (url_safe c) eqn:Hs.
    + specialize (Hsafe eq_refl). constructor; [lia|].
      replace (N.to_nat w - 1)%nat with 0%nat in Hval' by lia. cbn [skipn] in Hval'.
      apply (IH rest f'); [exact Hr | exact Hval' | lia].
    + destruct rest as [|h1 [|h2 rest2]]; try exact Hother.
      destruct ((c =? 37) && is_hex h1 && is_hex h2) eqn:Hcond; [|exact Hother].
      apply andb_prop in Hcond as [Hcond H2]. apply andb_prop in Hcond as [Hc37 H1].
      apply N.eqb_eq in Hc37. apply hex_ascii in H1. apply hex_ascii in H2.
      replace (N.to_nat w - 1)%nat with 0%nat in Hval' by lia. cbn [skipn] in Hval'.
      destruct (valid_ascii_tail _ _ _ Hval' H1) as (f1 & Hval1).
      destruct (valid_ascii_tail _ _ _ Hval1 H2) as (f2 & Hval2).
      constructor; [lia|]. constructor; [exact H1|]. constructor; [exact H2|].
      inversion Hr as [|x1 l1 Hx1 Hr1]; subst x1 l1.
      inversion Hr1 as [|x2 l2 Hx2 Hr2]; subst x2 l2.
      apply (IH rest2 f2); [exact Hr2 | exact Hval2 |]. cbn [length] in Hlen. lia.
Qed.

(* pure ASCII output for valid UTF-8 input *)
Theorem url_escape_ascii : forall v, all_bytes v -> valid_utf8 v = true ->
  Forall (fun b => b < 128) (url_escape_raw v).
Proof.
  intros v Hv Hval. unfold Util.url_escape_raw.
  apply (loop_ascii _ _ v (length v)); [exact Hv | exact Hval | lia].
Qed.

(* ---------- laws that need '+' to be a pass-through byte ---------- *)
(* Extra table fact, NOT derivable from url_tables_ok: '+' is passed through unchanged.
   QueryEscape turns a space inside a multi-byte slice into '+', so '+' has to be a
   fixed point of the scan for the output grammar and for idempotence.
   Used only by url_escape_out and url_escape_idempotent; holds on the real table
   (to be discharged by computation). *)
Hypothesis plus_safe : url_safe 43 = true.


Lemma out'_uout w : Out' w -> UOut w.
Proof.
  intro H. induction H as [|t w Ht Hw IH]; [apply uo_nil|].
  apply uo_app; [|exact IH].
  destruct Ht as [t Ht|]; [exact Ht | apply ut_safe; exact plus_safe].
Qed.

(* output language: a sequence of pass-through bytes, %XX triples and raw invalid lead bytes;
   the only exception is a one-byte input consisting of a multi-byte lead byte, which the Go
   code returns unchanged *)
Theorem url_escape_out : forall v, all_bytes v ->
  UOut (url_escape_raw v) \/ (exists c, v = [c] /\ 128 <= c /\ url_escape_raw v = [c]).
Proof.
  intros v Hv. destruct (out_out' v Hv) as [H|H]; [left; apply out'_uout; exact H | right; exact H].
Qed.

(* ---------- idempotence ---------- *)
Lemma loop_fix total : forall w, UOut w -> forall fuel, (length w <= fuel)%nat ->
  url_escape_loop fuel total w = w.
Proof.
  intros w H. induction H as [|t w Ht Hw IH]; intros fuel Hf.
  - destruct fuel; reflexivity.
  - destruct Ht as [c Hs | h1 h2 H1 H2 | c Hc H99 Hs]; cbn [app length] in *.
    + destruct fuel as [|f]; [lia|]. cbn [Util.url_escape_loop]. rewrite Hs.
      f_equal. apply IH. lia.
    + destruct fuel as [|f]; [lia|]. rewrite url_escape_keeps_triple by assumption.
      do 3 f_equal. apply IH. lia.
    + destruct fuel as [|f]; [lia|]. cbn [Util.url_escape_loop]. rewrite Hs.
      assert (Ho : url_escape_other total c w (url_escape_loop f total) = c :: w).
      { unfold Util.url_escape_other. cbv zeta. rewrite H99. rewrite N.eqb_refl.
        f_equal. apply IH. lia. }
      destruct w as [|h1 [|h2 w2]]; try exact Ho.
      destruct ((c =? 37) && is_hex h1 && is_hex h2) eqn:Hcond; [|exact Ho].
      apply u8len99 in H99. lia.
Qed.

(* idempotence of the escaping stage *)
Theorem url_escape_idempotent : forall v, all_bytes v ->
  url_escape_raw (url_escape_raw v) = url_escape_raw v.
Proof.
  intros v Hv. destruct (url_escape_out v Hv) as [H|(c & Hv1 & Hc & Hr)].
  - set (w := url_escape_raw v) in *. unfold Util.url_escape_raw.
    apply loop_fix; [exact H | lia].
  - rewrite Hr. subst v. exact Hr.
Qed.

End Url.
