(* Helper file for FootnoteWfTotBlk.v (fork of the first half of ParseBlocksTotalEach.v): lists, chains and the line
   invariant LineInv under the steps of each_openedF; the line invariant after openBlocks and closeBlocks
   (eo_finish).  CHANGES: the invariants take the number of the FootnoteList (lst; in the drivers bf_list x) as
   a lemma argument (it may differ between the states of eo_finish); the order of node numbers holds for the
   opened blocks only (li_ops_nl, li_root_nl); the third alternative of the parent clause of CFrame. *)
Require Import GM.model.Base GM.model.Util GM.model.Reader GM.model.ReaderSpec GM.model.Blocks GM.model.ListItem
               GM.model.LeafBlocks GM.model.CodeBlock GM.model.LinkDest GM.model.Regex GM.model.BlockParse
               GM.model.FootnoteParseBlock.
Require Import GM.proofs.ReaderProofs GM.proofs.BlocksProofs
               GM.proofs.ParseBlocksTotalReader GM.proofs.FootnoteWfTotBlkDefs GM.proofs.FootnoteWfTotBlkSpec
               GM.proofs.FootnoteWfTotBlkSt GM.proofs.FootnoteWfTotBlkShape
               GM.proofs.FootnoteWfTotBlkLeaf2 GM.proofs.FootnoteWfTotBlkCont GM.proofs.FootnoteWfTotBlkPair
               GM.proofs.FootnoteWfTotBlkClose GM.proofs.FootnoteWfTotBlkOpenI.
From Coq Require Import ZArith Lia List Bool.
Open Scope Z_scope.

(* ---------- lists ---------- *)
Lemma eo_nth_lo {A} (l new : list A) j k : (k < j)%nat -> (j <= length l)%nat ->
  nth_error (firstn j l ++ new) k = nth_error l k.
Proof.
  intros Hk Hj. rewrite nth_error_app1 by (rewrite firstn_length; lia).
  revert l k Hk Hj. induction j as [|j IH]; intros l k Hk Hj; [lia|].
  destruct l as [|x l]; [cbn in Hj; lia|]. destruct k as [|k]; [reflexivity|]. cbn [firstn nth_error].
  apply IH; cbn [length] in Hj; lia.
Qed.
Lemma eo_nth_hi {A} (l new : list A) j k : (j <= k)%nat -> (j <= length l)%nat ->
  nth_error (firstn j l ++ new) k = nth_error new (k - j).
Proof.
  intros Hk Hj. rewrite nth_error_app2 by (rewrite firstn_length; lia). rewrite firstn_length. f_equal. lia.
Qed.
Lemma eo_len_glue {A} (l new : list A) j : (j <= length l)%nat -> length (firstn j l ++ new) = (j + length new)%nat.
Proof. intros Hj. rewrite app_length, firstn_length. lia. Qed.

Lemma eo_par_at_lo p0 (cap new : list (nat * bparser)) j k : (j <= length cap)%nat -> (k <= j)%nat ->
  par_at p0 (firstn j cap ++ new) k = par_at p0 cap k.
Proof.
  intros Hj Hk. destruct k as [|k]; [reflexivity|]. cbn [par_at]. f_equal.
  rewrite app_nth1 by (rewrite firstn_length; lia). apply nth_firstn_lt. lia.
Qed.
Lemma eo_par_at_hi p0 (cap new : list (nat * bparser)) j k : (j <= length cap)%nat -> (j <= k)%nat ->
  par_at p0 (firstn j cap ++ new) k = par_at (par_at p0 cap j) new (k - j).
Proof.
  intros Hj Hk. destruct (k - j)%nat as [|m] eqn:E.
  - assert (k = j) by lia. subst k. cbn [par_at]. apply eo_par_at_lo; lia.
  - assert (k = S (j + m)) by lia. subst k. cbn [par_at]. f_equal.
    rewrite app_nth2 by (rewrite firstn_length; lia). rewrite firstn_length. f_equal. lia.
Qed.

(* suffix of the first part of an appended list *)
Lemma eo_range_suffix {A} (base new : list A) j : (j <= length base)%nat ->
  firstn (length base - j) (skipn j (base ++ new)) = skipn j base.
Proof.
  intros Hj. rewrite skipn_app. replace (j - length base)%nat with O by lia. cbn [skipn].
  rewrite <- (skipn_length j base). rewrite firstn_app, Nat.sub_diag, firstn_all. cbn [firstn]. apply app_nil_r.
Qed.
Lemma eo_range_of (base new : list (nat * bparser)) j : (j <= length base)%nat ->
  range_of (base ++ new) (Z.to_nat (zlen base - 1 - Z.of_nat j + 1)) (zlen base - 1) = skipn j base.
Proof.
  intros Hj. unfold range_of, zlen.
  replace (Z.to_nat (Z.of_nat (length base) - 1 - Z.of_nat j + 1)) with (length base - j)%nat by lia.
  replace (Z.to_nat (Z.of_nat (length base) - 1 + 1 - Z.of_nat (length base - j))) with j by lia.
  apply eo_range_suffix, Hj.
Qed.
Lemma eo_after_close {A} (base new : list A) j : (j <= length base)%nat ->
  firstn j (base ++ new) ++ skipn (length base) (base ++ new) = firstn j base ++ new.
Proof.
  intros Hj. rewrite firstn_app. replace (j - length base)%nat with O by lia. cbn [firstn]. rewrite app_nil_r.
  rewrite skipn_app, Nat.sub_diag, skipn_all. reflexivity.
Qed.

(* ---------- chains ---------- *)
Lemma eo_chain_frame h h' parent l : Chain h parent l ->
  (forall n p nn, In (n, p) l -> nth_error h n = Some nn -> exists nn', nth_error h' n = Some nn' /\ bpar nn' = bpar nn) ->
  (forall L Ln, In (L, PList) l -> nth_error h L = Some Ln -> exists Ln', nth_error h' L = Some Ln' /\ bch Ln' = bch Ln) ->
  Chain h' parent l.
Proof.
  intros HC Hp Hc. constructor.
  - intros k n p Hk. destruct (ch_par _ _ _ HC k n p Hk) as [nn [Hn Hpar]].
    destruct (Hp n p nn (nth_error_In _ _ Hk) Hn) as [nn' [Hn' Hpar']]. exists nn'. split; [exact Hn'|congruence].
  - exact (ch_cont _ _ _ HC).
  - intros k L Hk. destruct (ch_list _ _ _ HC k L Hk) as [it [Ln (A & B & C)]].
    destruct (Hc L Ln (nth_error_In _ _ Hk) B) as [Ln' [B' C']]. exists it, Ln'. csplit; auto. congruence.
Qed.

Lemma eo_chain_glue h0 h j cap new :
  Chain h0 0%nat cap -> (j <= length cap)%nat ->
  (forall k e, (k < j)%nat -> nth_error cap k = Some e -> is_container (snd e) = true) ->
  (forall k n p nn, (k < j)%nat -> nth_error cap k = Some (n, p) -> nth_error h0 n = Some nn ->
     exists nn', nth_error h n = Some nn' /\ bpar nn' = bpar nn) ->
  (forall k L Ln, (S k < j)%nat -> nth_error cap k = Some (L, PList) -> nth_error h0 L = Some Ln ->
     exists Ln', nth_error h L = Some Ln' /\ bch Ln' = bch Ln) ->
  (forall k L, j = S k -> nth_error cap k = Some (L, PList) ->
     exists it Ln, nth_error new 0%nat = Some (it, PListItem) /\ nth_error h L = Some Ln /\ last_id (bch Ln) = Some it) ->
  Chain h (par_at 0%nat cap j) new ->
  Chain h 0%nat (firstn j cap ++ new).
Proof.
  intros HC Hj Hcont Hpar Hch Hlist HN. constructor.
  - intros k n p Hk. destruct (Nat.lt_ge_cases k j) as [Hlt|Hge].
    + rewrite eo_nth_lo in Hk by lia. destruct (ch_par _ _ _ HC k n p Hk) as [nn [Hn Hp]].
      destruct (Hpar k n p nn Hlt Hk Hn) as [nn' [Hn' Hp']]. exists nn'. split; [exact Hn'|].
      rewrite Hp', Hp. f_equal. symmetry. apply eo_par_at_lo; lia.
    + rewrite eo_nth_hi in Hk by lia. destruct (ch_par _ _ _ HN _ n p Hk) as [nn [Hn Hp]]. exists nn.
      split; [exact Hn|]. rewrite Hp. f_equal. symmetry. apply eo_par_at_hi; lia.
  - intros k e Hk Hlen. rewrite eo_len_glue in Hlen by lia. destruct (Nat.lt_ge_cases k j) as [Hlt|Hge].
    + rewrite eo_nth_lo in Hk by lia. eapply Hcont; eauto.
    + rewrite eo_nth_hi in Hk by lia. eapply (ch_cont _ _ _ HN); [exact Hk|lia].
  - intros k L Hk. destruct (Nat.lt_ge_cases k j) as [Hlt|Hge].
    + rewrite eo_nth_lo in Hk by lia. destruct (Nat.eq_dec j (S k)) as [Ej|Ej].
      * destruct (Hlist k L Ej Hk) as [it [Ln (A & B & C)]]. exists it, Ln. split; [|auto].
        rewrite eo_nth_hi by lia. replace (S k - j)%nat with O by lia. exact A.
      * destruct (ch_list _ _ _ HC k L Hk) as [it [Ln (A & B & C)]].
        destruct (Hch k L Ln ltac:(lia) Hk B) as [Ln' [B' C']]. exists it, Ln'. rewrite eo_nth_lo by lia.
        split; [exact A|]. split; [exact B'|congruence].
    + rewrite eo_nth_hi in Hk by lia. destruct (ch_list _ _ _ HN _ L Hk) as [it [Ln (A & B & C)]]. exists it, Ln.
      rewrite eo_nth_hi by lia. replace (S k - j)%nat with (S (k - j)) by lia. auto.
Qed.

(* the last opened block, read off the slice *)
Lemma eo_last_opened c : (c_len c <= length (c_arr c))%nat ->
  last_opened c = nth_error (opened c) (pred (length (opened c))).
Proof.
  intros H. rewrite last_opened_spec by exact H. rewrite (opened_length c H).
  destruct (c_len c) as [|k] eqn:E; [|reflexivity]. unfold opened. rewrite E. reflexivity.
Qed.

Section S.
Variable space_table : list N.
Variable src : bytes.
Notation SI := (SI space_table src).
Notation LineInv := (LineInv space_table src).
Notation HInv := (HInv space_table src).

(* the invariant inside the loop: the opened blocks are still the captured ones, and no paragraph
   line reaches the reader's position *)
Definition LineMid (lst : option nat) (cap : list (nat * bparser)) (s : st) : Prop :=
  LineInv lst s /\ ops s = cap /\ Below (s_h s) (s_r s).

(* ---------- basic access to the opened blocks ---------- *)
Lemma eo_ops_len lst s : SI lst s -> length (ops s) = c_len (s_c s).
Proof using All. intros HS. apply opened_length, (ci_len _ _ _ (si_c _ _ _ _ HS)). Qed.

Lemma eo_ops_node lst s k n p : SI lst s -> nth_error (ops s) k = Some (n, p) ->
  exists nn, nth_error (s_h s) n = Some nn /\ bk nn = kind_of_parser p.
Proof using All.
  intros HS Hk. apply nth_error_In in Hk. apply opened_in in Hk.
  exact (ci_arr _ _ _ (si_c _ _ _ _ HS) _ Hk).
Qed.

Lemma eo_last lst s : SI lst s -> last_opened (s_c s) = nth_error (ops s) (pred (length (ops s))).
Proof using All. intros HS. apply eo_last_opened, (ci_len _ _ _ (si_c _ _ _ _ HS)). Qed.

Lemma eo_par_at_S (cap : list (nat * bparser)) k n p : nth_error cap k = Some (n, p) -> par_at 0%nat cap (S k) = n.
Proof using All. intros H. cbn [par_at]. rewrite (nth_error_nth _ _ _ H). reflexivity. Qed.

(* a block below a List node is a list item *)
Lemma eo_parent_list lst s k n p pn : LineInv lst s -> nth_error (ops s) k = Some (n, p) ->
  nth_error (s_h s) (par_at 0%nat (ops s) k) = Some pn -> bk pn = BList -> p = PListItem.
Proof using All.
  intros HL Hk Hpn Kp. pose proof (li_si _ _ _ _ HL) as HS.
  destruct (ch_par _ _ _ (li_chain _ _ _ _ HL) k n p Hk) as [nn [Hn Hp]].
  destruct (eo_ops_node lst s k n p HS Hk) as [nn' [Hn' Kn]]. rewrite Hn in Hn'. injection Hn' as <-.
  pose proof (hi_listp _ _ _ _ (si_h _ _ _ _ HS) n nn _ pn Hn Hp Hpn Kp) as K. rewrite Kn in K.
  destruct p; cbn in K; congruence.
Qed.

(* a list item follows its list *)
Lemma eo_item_prev lst s k it : LineInv lst s -> nth_error (ops s) (S k) = Some (it, PListItem) ->
  exists L, nth_error (ops s) k = Some (L, PList).
Proof using All.
  intros HL Hk. pose proof (li_si _ _ _ _ HL) as HS.
  destruct (ch_par _ _ _ (li_chain _ _ _ _ HL) (S k) it PListItem Hk) as [nn [Hn Hp]]. cbn [par_at] in Hp.
  destruct (eo_ops_node lst s (S k) it PListItem HS Hk) as [nn' [Hn' Kn]]. rewrite Hn in Hn'. injection Hn' as <-.
  cbn [kind_of_parser] in Kn.
  destruct (nth_error (ops s) k) as [[L q]|] eqn:Ek.
  2:{ apply nth_error_None in Ek. apply nth_error_lt in Hk. lia. }
  rewrite (nth_error_nth _ _ _ Ek) in Hp. cbn [fst] in Hp.
  destruct (eo_ops_node lst s k L q HS Ek) as [Ln [HLn KL]].
  pose proof (hi_item _ _ _ _ (si_h _ _ _ _ HS) it nn L Ln Hn Kn Hp HLn) as K. rewrite KL in K.
  destruct q; cbn in K; try discriminate. exists L. reflexivity.
Qed.

Lemma eo_root_not_item lst s it : LineInv lst s -> nth_error (ops s) 0%nat <> Some (it, PListItem).
Proof using All.
  intros HL E. pose proof (li_si _ _ _ _ HL) as HS. destruct (li_root _ _ _ _ HL) as [n0 [H0 K0]].
  pose proof (eo_parent_list lst s 0%nat it PListItem n0 HL E H0) as K. cbn [par_at] in K.
  destruct (ch_par _ _ _ (li_chain _ _ _ _ HL) 0%nat it PListItem E) as [nn [Hn Hp]]. cbn [par_at] in Hp.
  destruct (eo_ops_node lst s 0%nat it PListItem HS E) as [nn' [Hn' Kn]]. rewrite Hn in Hn'. injection Hn' as <-.
  pose proof (hi_item _ _ _ _ (si_h _ _ _ _ HS) it nn 0%nat n0 Hn Kn Hp H0). congruence.
Qed.

(* the parent of position j lies before every block at position >= j *)
Lemma eo_par_lt lst s j m e : LineInv lst s -> (j <= m)%nat -> nth_error (ops s) m = Some e ->
  (par_at 0%nat (ops s) j < fst e)%nat.
Proof using All.
  intros HL Hjm Hm. pose proof (si_h _ _ _ _ (li_si _ _ _ _ HL)) as HH. destruct j as [|j]; cbn [par_at].
  - exact (chain_parent_lt space_table src lst _ _ _ HH (li_chain _ _ _ _ HL) (li_ops_nl _ _ _ _ HL) (li_root_nl _ _ _ _ HL) m e Hm).
  - destruct (nth_error_ex_lt (ops s) j) as [a Ha]; [apply nth_error_lt in Hm; lia|].
    rewrite (nth_error_nth _ _ _ Ha).
    exact (chain_sorted space_table src lst _ _ _ HH (li_chain _ _ _ _ HL) (li_ops_nl _ _ _ _ HL) j m a e ltac:(lia) Ha Hm).
Qed.

(* the parent of position j is a node of the heap *)
Lemma eo_par_node lst s j : LineInv lst s -> (j <= length (ops s))%nat ->
  exists pn, nth_error (s_h s) (par_at 0%nat (ops s) j) = Some pn /\
    (forall k n p, j = S k -> nth_error (ops s) k = Some (n, p) -> bk pn = kind_of_parser p).
Proof using All.
  intros HL Hj. destruct j as [|k].
  - destruct (li_root _ _ _ _ HL) as [n0 [H0 K0]]. exists n0. split; [exact H0|]. intros k n p C. discriminate.
  - destruct (nth_error_ex_lt (ops s) k ltac:(lia)) as [[n p] Hk].
    destruct (eo_ops_node lst s k n p (li_si _ _ _ _ HL) Hk) as [nn [Hn Kn]]. exists nn.
    rewrite (eo_par_at_S _ _ _ _ Hk). split; [exact Hn|]. intros k' n' p' E Hk'. injection E as <-.
    rewrite Hk in Hk'. injection Hk' as <- <-. exact Kn.
Qed.

Lemma eo_attached lst s : LineInv lst s -> forall e n, In e (ops s) -> nth_error (s_h s) (fst e) = Some n -> bpar n <> None.
Proof using All.
  intros HL [x p] n He Hn. apply In_nth_error in He. destruct He as [k Hk].
  destruct (ch_par _ _ _ (li_chain _ _ _ _ HL) k x p Hk) as [nn [Hn' Hp]]. cbn [fst] in Hn. rewrite Hn in Hn'.
  injection Hn' as <-. congruence.
Qed.

Lemma eo_lastok_cont h c : (forall n p, last_opened c = Some (n, p) -> is_container p = true) -> LastOK h c.
Proof using All. intros H n p nn E _. specialize (H n p E). split; intros ->; discriminate. Qed.

(* ---------- heap relations, backwards ---------- *)
Lemma eo_struct_back h h' j n' : hsame_struct h h' -> nth_error h' j = Some n' ->
  exists n, nth_error h j = Some n /\ bk n' = bk n /\ bch n' = bch n /\ bpar n' = bpar n /\ blines n' = blines n.
Proof using All.
  intros [L H] Hj. destruct (nth_error_ex_lt h j) as [n Hn]; [apply nth_error_lt in Hj; lia|].
  destruct (H j n Hn) as [n2 (A & B)]. rewrite Hj in A. injection A as <-. exists n. split; [exact Hn|exact B].
Qed.
Lemma eo_pc_back h h' j n' : hsame_pc h h' -> nth_error h' j = Some n' ->
  exists n, nth_error h j = Some n /\ bk n' = bk n /\ bch n' = bch n /\ bpar n' = bpar n.
Proof using All.
  intros [L H] Hj. destruct (nth_error_ex_lt h j) as [n Hn]; [apply nth_error_lt in Hj; lia|].
  destruct (H j n Hn) as [n2 (A & B)]. rewrite Hj in A. injection A as <-. exists n. split; [exact Hn|exact B].
Qed.
Lemma eo_struct_pc h h' : hsame_struct h h' -> hsame_pc h h'.
Proof using All.
  intros [L H]. split; [exact L|]. intros j n Hn. destruct (H j n Hn) as [n' (A & B & C & D & _)]. exists n'. auto.
Qed.

Lemma eo_chain_pc h h' parent l : Chain h parent l -> hsame_pc h h' -> Chain h' parent l.
Proof using All.
  intros HC [L H]. eapply eo_chain_frame; [exact HC| |].
  - intros n p nn _ Hn. destruct (H n nn Hn) as [n' (A & B & C & D)]. exists n'. auto.
  - intros x Ln _ Hn. destruct (H x Ln Hn) as [n' (A & B & C & D)]. exists n'. auto.
Qed.

Lemma eo_ops_cframe s s' : cframe (s_c s) (s_c s') -> ops s' = ops s /\ last_opened (s_c s') = last_opened (s_c s).
Proof using All. intros (A & B & _). unfold ops, opened, last_opened. rewrite A, B. auto. Qed.

(* ---------- the line invariant under steps that keep the structure ---------- *)
Lemma eo_inv_pc lst l' s s' : LineInv lst s -> SI l' s' -> hsame_pc (s_h s) (s_h s') -> ops s' = ops s ->
  c_fence (s_c s') = c_fence (s_c s) -> c_tmp_para (s_c s') = c_tmp_para (s_c s) ->
  (forall n nn nn', last_opened (s_c s) = Some (n, PSetext) -> nth_error (s_h s) n = Some nn ->
                    nth_error (s_h s') n = Some nn' -> blines nn' = blines nn) ->
  LineInv l' s'.
Proof using All.
  intros HL S' Hpc Ho Hf Ht Hl. pose proof (li_si _ _ _ _ HL) as HS. constructor.
  - exact S'.
  - rewrite Ho. eapply eo_chain_pc; [apply HL|exact Hpc].
  - intros n p nn' Hlo Hn'. rewrite (eo_last l' s' S'), Ho, <- (eo_last lst s HS) in Hlo.
    destruct (eo_pc_back _ _ _ _ Hpc Hn') as [nn (Hn & _)].
    destruct (li_last _ _ _ _ HL n p nn Hlo Hn) as [A B]. split.
    + intros E. rewrite Hf. exact (A E).
    + intros E. destruct (B E) as [B1 B2]. rewrite Ht. split; [exact B1|]. subst p.
      rewrite (Hl n nn nn' Hlo Hn Hn'). exact B2.
  - destruct (li_root _ _ _ _ HL) as [n0 [H0 K0]]. destruct Hpc as [_ Hpc].
    destruct (Hpc _ _ H0) as [n0' (A & B & _)]. exists n0'. split; [exact A|congruence].
Qed.

Lemma eo_below_struct h h' r r' : Below h r -> hsame_struct h h' -> r_le r r' -> Below h' r'.
Proof using All.
  intros HB Hs (_ & Hle & _) i n' Hn' Hk. destruct (eo_struct_back _ _ _ _ Hs Hn') as [n (Hn & K & _ & _ & Ls)].
  rewrite Ls. specialize (HB i n Hn ltac:(congruence)). eapply Forall_impl; [|exact HB]. cbv beta. intros sg Hsg. lia.
Qed.

Lemma eo_mid_struct lst cap s s' : LineMid lst cap s -> SI lst s' -> hsame_struct (s_h s) (s_h s') -> cframe (s_c s) (s_c s') ->
  c_fence (s_c s') = c_fence (s_c s) -> c_tmp_para (s_c s') = c_tmp_para (s_c s) -> r_le (s_r s) (s_r s') ->
  LineMid lst cap s'.
Proof using All.
  intros (HL & Ho & HB) S' Hs Hc Hf Ht Hle. destruct (eo_ops_cframe s s' Hc) as [Eo El].
  split; [|split].
  - apply (eo_inv_pc lst lst s s' HL S' (eo_struct_pc _ _ Hs) Eo Hf Ht).
    intros n nn nn' _ Hn Hn'. destruct Hs as [_ Hs]. destruct (Hs n nn Hn) as [n2 (A & _ & _ & _ & E)].
    rewrite Hn' in A. injection A as <-. exact E.
  - congruence.
  - eapply eo_below_struct; eassumption.
Qed.

Lemma eo_mid_scache lst cap s s1 : LineMid lst cap s -> SI lst s1 -> scache s s1 -> LineMid lst cap s1.
Proof using All.
  intros HM S1 (Eh & Ec & Ep). apply (eo_mid_struct lst cap s s1 HM S1).
  - rewrite Eh. apply hsame_struct_refl.
  - rewrite Ec. unfold cframe. auto.
  - rewrite Ec. reflexivity.
  - rewrite Ec. reflexivity.
  - apply same_pos_le, Ep.
Qed.

Lemma eo_mid_cont lst cap bp node s s' cont kids : LineMid lst cap s -> cont_post space_table src lst bp node s s' cont kids ->
  (is_container bp = true \/ cont = false) -> LineMid lst cap s' /\ same_line (s_r s) (s_r s').
Proof using All.
  intros HM (P1 & P2 & P3 & P4 & P5 & P6 & P7 & P8 & P9) Hor.
  assert (Hs : hsame_struct (s_h s) (s_h s') /\ same_line (s_r s) (s_r s')).
  { destruct (is_container bp) eqn:Ec.
    - destruct (P7 eq_refl) as [A B]. rewrite A. split; [apply hsame_struct_refl|exact B].
    - destruct Hor as [C|C]; [discriminate|]. exact (P8 eq_refl C). }
  destruct Hs as [Hs Hl]. split; [|exact Hl]. eapply eo_mid_struct; eassumption.
Qed.

(* ---------- what closeBlocks needs from the closed range ---------- *)
Lemma eo_all_cont_ready s (l : list (nat * bparser)) : Forall (fun x => is_container (snd x) = true) l ->
  match l with [] => True | e :: t => ReadyLeaf s (fst e) (snd e) /\ Forall (fun x => is_container (snd x) = true) t end.
Proof using All.
  intros H. destruct l as [|e t]; [exact I|]. inversion H as [|x y Hx Hy]; subst.
  split; [apply container_ready; exact Hx|exact Hy].
Qed.

Lemma eo_skipn_nth (cap : list (nat * bparser)) j e : In e (skipn j cap) -> exists m, (j <= m)%nat /\ nth_error cap m = Some e.
Proof using All.
  intros H. apply In_nth_error in H. destruct H as [k Hk]. rewrite nth_error_skipn_add in Hk. exists (j + k)%nat.
  split; [lia|exact Hk].
Qed.

(* the range j .. last of the opened blocks, closed from the top: the last block is ready in s1
   (a state reached from s by steps that keep the context's records), the others are containers *)
Lemma eo_closed_shape lst cap j s s1 : LineInv lst s -> ops s = cap -> (j < length cap)%nat ->
  (c_fence (s_c s) <> None -> c_fence (s_c s1) <> None) ->
  (c_tmp_para (s_c s) <> None -> c_tmp_para (s_c s1) <> None) ->
  (forall n nn nn1, last_opened (s_c s) = Some (n, PSetext) -> nth_error (s_h s) n = Some nn ->
                    nth_error (s_h s1) n = Some nn1 -> blines nn1 = blines nn) ->
  match rev (skipn j cap) with
  | [] => True
  | e :: t => ReadyLeaf s1 (fst e) (snd e) /\ Forall (fun x => is_container (snd x) = true) t
  end.
Proof using All.
  intros HL Ho Hj Hf Ht Hl. destruct (rev (skipn j cap)) as [|e t] eqn:E; [exact I|].
  assert (Es : skipn j cap = rev t ++ [e]).
  { rewrite <- (rev_involutive (skipn j cap)), E. reflexivity. }
  assert (Ec : cap = (firstn j cap ++ rev t) ++ [e]).
  { rewrite <- app_assoc, <- Es. symmetry. apply firstn_skipn. }
  pose proof (li_si _ _ _ _ HL) as HS. pose proof (ci_len _ _ _ (si_c _ _ _ _ HS)) as Hlen.
  assert (Hlast : last_opened (s_c s) = Some e).
  { apply (last_opened_app _ (firstn j cap ++ rev t)); [exact Hlen|]. fold (ops s). rewrite Ho. exact Ec. }
  split.
  - destruct e as [n p]. cbn [fst snd].
    pose proof (last_opened_in _ _ Hlen Hlast) as Hin.
    destruct (ci_arr _ _ _ (si_c _ _ _ _ HS) _ Hin) as [nn [Hn Kn]]. cbn [fst snd] in Hn, Kn.
    destruct (li_last _ _ _ _ HL n p nn Hlast Hn) as [A B]. split.
    + intros Ep. apply Hf, A, Ep.
    + intros Ep. destruct (B Ep) as [B1 B2]. split; [apply Ht, B1|]. subst p. intros n1 Hn1 _.
      rewrite (Hl n nn n1 Hlast Hn Hn1). exact B2.
  - apply Forall_forall. intros x Hx. apply in_rev in Hx. apply In_nth_error in Hx. destruct Hx as [k Hk].
    assert (Hkl : (k < length (rev t))%nat) by (eapply nth_error_lt, Hk).
    assert (Hc : nth_error cap (j + k) = Some x).
    { rewrite <- nth_error_skipn_add, Es, nth_error_app1 by exact Hkl. exact Hk. }
    pose proof (li_chain _ _ _ _ HL) as HC. rewrite Ho in HC. apply (ch_cont _ _ _ HC (j + k)%nat x Hc).
    rewrite Ec at 1. rewrite !app_length, firstn_length. cbn [length]. lia.
Qed.

(* ---------- the line invariant after openBlocks and closeBlocks ----------
   t: the state before openBlocks (opened blocks cap); t1: after openBlocks below position j
   (blocks `new` opened; old nodes changed within OFrame); u: after closing `closed`, a part of
   cap[j..], with opened blocks cap[0..j) ++ new. *)
Lemma eo_finish lst l1 lu cap j t t1 u new closed :
  LineInv lst t -> ops t = cap -> (j <= length cap)%nat ->
  (forall k e, (k < j)%nat -> nth_error cap k = Some e -> is_container (snd e) = true) ->
  SI l1 t1 ->
  OFrame (s_h t) (s_h t1) (par_at 0%nat cap j) (last_para (s_c t)) ->
  Chain (s_h t1) (par_at 0%nat cap j) new ->
  (forall e, In e new -> (length (s_h t) <= fst e)%nat /\ In e (c_arr (s_c t1))) ->
  (forall k L, j = S k -> nth_error cap k = Some (L, PList) ->
     exists it pn', nth_error new 0%nat = Some (it, PListItem) /\ nth_error (s_h t1) L = Some pn' /\
                    last_id (bch pn') = Some it) ->
  (forall t0, c_tmp_para (s_c t1) = Some t0 -> (t0 < length (s_h t))%nat) ->
  (forall n p nn, nth_error new (pred (length new)) = Some (n, p) -> nth_error (s_h t1) n = Some nn ->
     (p = PFenced -> exists ch ind fl, c_fence (s_c t1) = Some (ch, ind, fl, n)) /\
     (p = PSetext -> c_tmp_para (s_c t1) <> None /\ blines nn <> [] /\
                     exists x, last_opened (s_c t) = Some (x, PParagraph))) ->
  SI lu u -> ops u = firstn j cap ++ new ->
  (forall e, In e closed -> In e (skipn j cap)) ->
  (forall ch ind fl nd, c_fence (s_c t1) = Some (ch, ind, fl, nd) -> ~ In (nd, PFenced) closed ->
                        c_fence (s_c u) = c_fence (s_c t1)) ->
  ((forall H, ~ In (H, PSetext) closed) -> c_tmp_para (s_c u) = c_tmp_para (s_c t1)) ->
  CFrame (Dacc (s_h t1) (s_c t1) closed) (fun x => In x (map fst closed)) (s_h t1) (s_h u) ->
  LineInv lu u.
Proof using All.
  intros HL Ho Hj Hcont S1 [OL OF] HN Hnew Hlist Htmp Hlastnew SU Hou Hclosed Hfence Htmpu [CL CF].
  pose proof (li_si _ _ _ _ HL) as HS. pose proof (si_h _ _ _ _ HS) as HH.
  pose proof (li_chain _ _ _ _ HL) as HC. rewrite Ho in HC.
  pose proof (li_ops_nl _ _ _ _ HL) as Hnlc. rewrite Ho in Hnlc.
  (* closed entries are old entries at positions >= j *)
  assert (F1 : forall e, In e closed -> exists m, (j <= m)%nat /\ nth_error cap m = Some e).
  { intros e He. apply eo_skipn_nth, Hclosed, He. }
  assert (F2 : forall m n p, nth_error cap m = Some (n, p) ->
            exists nn, nth_error (s_h t) n = Some nn /\ bk nn = kind_of_parser p /\ (n < length (s_h t))%nat).
  { intros m n p Hm. rewrite <- Ho in Hm. destruct (eo_ops_node lst t m n p HS Hm) as [nn [Hn Kn]]. exists nn.
    csplit; auto. eapply nth_error_lt, Hn. }
  assert (Fnotclosed : forall n, (length (s_h t) <= n)%nat -> ~ In n (map fst closed)).
  { intros n Hn Hin. apply in_map_iff in Hin. destruct Hin as [[x p] [Ex Hin]]. cbn [fst] in Ex. subst x.
    destruct (F1 _ Hin) as [m [_ Hm]]. destruct (F2 m n p Hm) as [nn (_ & _ & Hlt)]. lia. }
  (* old container entries below j keep parent and (for lists other than the parent) children *)
  assert (K1 : forall k n p nn, (k < j)%nat -> nth_error cap k = Some (n, p) -> nth_error (s_h t) n = Some nn ->
            exists nn', nth_error (s_h u) n = Some nn' /\ bk nn' = bk nn /\ bpar nn' = bpar nn /\
                        (bk nn = BList -> n <> par_at 0%nat cap j -> bch nn' = bch nn)).
  { intros k n p nn Hk Hc Hn. pose proof (Hcont k _ Hk Hc) as Hcp. cbn [snd] in Hcp.
    destruct (F2 k n p Hc) as [nn0 (Hn0 & Kn0 & _)]. rewrite Hn in Hn0. injection Hn0 as <-.
    assert (Knp : bk nn <> BParagraph) by (rewrite Kn0; destruct p; cbn in *; congruence).
    assert (Hnl : Some n <> last_para (s_c t)).
    { intros E. unfold last_para in E. destruct (last_opened (s_c t)) as [[x q]|] eqn:El; [|discriminate].
      destruct q; try discriminate. injection E as <-.
      pose proof (last_opened_in _ _ (ci_len _ _ _ (si_c _ _ _ _ HS)) El) as Hin.
      destruct (ci_arr _ _ _ (si_c _ _ _ _ HS) _ Hin) as [nx [Hx Kx]]. cbn [fst snd kind_of_parser] in Hx, Kx.
      rewrite Hn in Hx. injection Hx as <-. contradiction. }
    destruct (OF n nn Hn) as [n1 (A1 & A2 & A3 & A4)]. destruct (A3 Hnl) as [_ A3p].
    destruct (CF n n1 A1) as [n2 (B1 & B2 & B3 & B4 & B5)]. exists n2. csplit.
    - exact B1.
    - congruence.
    - destruct B5 as [B5|[[B5 _]|[_ B5]]]; [congruence| |].
      + rewrite A2 in B5. contradiction.
      + (* n is not closed: the closed entries come later in the chain *)
        exfalso. apply in_map_iff in B5. destruct B5 as [[n' q] [En Hin]]. cbn [fst] in En. subst n'.
        destruct (F1 _ Hin) as [m [Hjm Hm]].
        pose proof (chain_sorted space_table src lst _ _ _ HH HC Hnlc k m (n, p) (n, q) ltac:(lia) Hc Hm) as Hlt.
        cbn [fst] in Hlt. lia.
    - intros Kl Hne. rewrite B4 by congruence. apply A4; assumption. }
  assert (Hfresh_nd : forall k n p, nth_error new k = Some (n, p) ->
            exists nn, nth_error (s_h t1) n = Some nn /\ bk nn = kind_of_parser p /\ (length (s_h t) <= n)%nat).
  { intros k n p Hk. destruct (Hnew _ (nth_error_In _ _ Hk)) as [A B].
    destruct (ci_arr _ _ _ (si_c _ _ _ _ S1) _ B) as [nn [Hn Kn]]. exists nn. auto. }
  constructor.
  - exact SU.
  - rewrite Hou. apply (eo_chain_glue (s_h t) (s_h u) j cap new HC Hj Hcont).
    + intros k n p nn Hk Hc Hn. destruct (K1 k n p nn Hk Hc Hn) as [nn' (A & _ & B & _)]. exists nn'. auto.
    + intros k L Ln Hk Hc Hn. destruct (K1 k L PList Ln ltac:(lia) Hc Hn) as [nn' (A & _ & _ & B)]. exists nn'.
      split; [exact A|]. destruct (F2 k L PList Hc) as [x (Hx & Kx & _)]. rewrite Hn in Hx. injection Hx as <-.
      apply B; [exact Kx|]. destruct j as [|j']; [lia|].
      destruct (nth_error_ex_lt cap j' ltac:(lia)) as [[a pa] Ha]. rewrite (eo_par_at_S _ _ _ _ Ha).
      pose proof (chain_sorted space_table src lst _ _ _ HH HC Hnlc k j' (L, PList) (a, pa) ltac:(lia) Hc Ha) as Hlt.
      cbn [fst] in Hlt. lia.
    + intros k L Ej Hc. destruct (Hlist k L Ej Hc) as [it [pn' (A & B & C)]].
      destruct (F2 k L PList Hc) as [Ln (HLn & KLn & _)]. cbn [kind_of_parser] in KLn.
      destruct (OF L Ln HLn) as [n1 (A1 & A2 & _)].
      rewrite B in A1. injection A1 as <-. destruct (CF L pn' B) as [n2 (B1 & B2 & B3 & B4 & B5)].
      exists it, n2. csplit; auto. rewrite B4 by congruence. exact C.
    + eapply eo_chain_frame; [exact HN| |].
      * intros n p nn Hin Hn. destruct (CF n nn Hn) as [n2 (B1 & B2 & B3 & B4 & B5)]. exists n2. split; [exact B1|].
        apply In_nth_error in Hin. destruct Hin as [k Hk].
        destruct (Hfresh_nd k n p Hk) as [nn' (Hn' & _ & Hfr)].
        destruct B5 as [B5|[[B5 B6]|[_ B6]]]; [exact B5| |exfalso; exact (Fnotclosed n Hfr B6)]. exfalso.
        destruct (ch_par _ _ _ HN k n p Hk) as [nn2 [Hn2 Hp2]]. rewrite Hn in Hn2. injection Hn2 as <-.
        destruct B6 as [B6|[[B6 _]|B6]].
        -- exact (Fnotclosed n Hfr B6).
        -- apply Htmp in B6. lia.
        -- destruct B6 as [L [c [ln (D1 & D2 & D3 & D4)]]]. destruct (F1 _ D1) as [m [Hjm Hm]].
           destruct (F2 m L PList Hm) as [Ln (HLn & KLn & _)].
           pose proof (eo_par_lt lst t j m (L, PList) HL Hjm ltac:(rewrite Ho; exact Hm)) as Hpl. rewrite Ho in Hpl.
           cbn [fst] in Hpl. destruct (OF L Ln HLn) as [n1 (A1 & A2 & _ & A4)]. rewrite D3 in A1. injection A1 as <-.
           rewrite (A4 KLn ltac:(lia)) in D4.
           assert (HnlL : lst <> Some L) by (eapply hi_lst_kind; [exact HH|exact HLn|rewrite KLn; discriminate]).
           pose proof (hi_ch_ord _ _ _ _ _ _ HH HLn HnlL) as Hch. rewrite Forall_forall in Hch. specialize (Hch c D4). cbv beta in Hch.
           rewrite Hp2 in D2. injection D2 as <-. destruct k as [|k]; cbn [par_at] in Hch; [lia|].
           destruct (nth_error_ex_lt new k) as [[a pa] Ha]; [apply nth_error_lt in Hk; lia|].
           rewrite (nth_error_nth _ _ _ Ha) in Hch. cbn [fst] in Hch.
           destruct (Hfresh_nd k a pa Ha) as [_ (_ & _ & Hfa)]. lia.
      * intros L Ln Hin Hn. destruct (Hnew _ Hin) as [_ Hina].
        destruct (ci_arr _ _ _ (si_c _ _ _ _ S1) _ Hina) as [x [Hx Kx]]. cbn [fst snd kind_of_parser] in Hx, Kx.
        rewrite Hn in Hx. injection Hx as <-. destruct (CF L Ln Hn) as [n2 (B1 & B2 & B3 & B4 & B5)].
        exists n2. split; [exact B1|]. apply B4, Kx.
  - intros n p nn Hlo Hn. rewrite (eo_last lu u SU), Hou, eo_len_glue in Hlo by exact Hj.
    destruct new as [|e0 new0] eqn:Enew.
    + cbn [length] in Hlo. rewrite Nat.add_0_r in Hlo. destruct j as [|j']; [cbn in Hlo; discriminate|].
      cbn [pred] in Hlo. rewrite eo_nth_lo in Hlo by lia. pose proof (Hcont j' _ ltac:(lia) Hlo) as Hcp.
      cbn [snd] in Hcp. split; intros ->; discriminate.
    + rewrite <- Enew in *. assert (Hlen : (0 < length new)%nat) by (rewrite Enew; cbn; lia).
      rewrite eo_nth_hi in Hlo by lia. replace (pred (j + length new) - j)%nat with (pred (length new)) in Hlo by lia.
      destruct (Hfresh_nd _ n p Hlo) as [nn1 (Hn1 & Kn1 & Hfr)].
      destruct (Hlastnew n p nn1 Hlo Hn1) as [A C].
      destruct (CF n nn1 Hn1) as [n2 (B1 & B2 & B3 & B4 & B5)]. rewrite Hn in B1. injection B1 as <-.
      assert (Hold : forall q, ~ In (n, q) closed).
      { intros q Hq. apply (Fnotclosed n Hfr). apply in_map_iff. exists (n, q). auto. }
      split.
      * intros ->. destruct (A eq_refl) as (ch & ind & fl & E). rewrite (Hfence ch ind fl n E (Hold PFenced)), E. discriminate.
      * intros ->. destruct (C eq_refl) as (C1 & C2 & [x C3]). rewrite (B3 (Fnotclosed n Hfr)). split; [|exact C2].
        rewrite Htmpu; [exact C1|]. intros H Hin. destruct (F1 _ Hin) as [m [Hjm Hm]].
        rewrite (eo_last lst t HS), Ho in C3. pose proof (nth_error_lt _ _ _ Hm) as Hml.
        destruct (Nat.eq_dec m (pred (length cap))) as [->|Hne]; [congruence|].
        pose proof (ch_cont _ _ _ HC m _ Hm ltac:(lia)) as Hcp. discriminate.
  - destruct (li_root _ _ _ _ HL) as [n0 [H0 K0]]. destruct (OF _ _ H0) as [n1 (A1 & A2 & _)].
    destruct (CF _ _ A1) as [n2 (B1 & B2 & _)]. exists n2. split; [exact B1|congruence].
Qed.

End S.
