(* Helper library for GfmWfBlk.v (ported from ParseBlocksRangeL.v to the driver of BlockParseX.v), part L:
   Close of any parser, closeBlocks with the table paragraph transformer. *)
Require Import GM.model.Base GM.model.Util GM.model.Reader GM.model.ReaderSpec GM.model.Blocks GM.model.ListItem
               GM.model.LeafBlocks GM.model.CodeBlock GM.model.LinkDest GM.model.Regex GM.model.HtmlWriter
               GM.model.Html GM.model.HtmlSpec GM.model.TableX GM.model.BlockParse GM.model.InlineParse GM.model.BlockParseX.
Require Import GM.proofs.ReaderProofs GM.proofs.BlockRangeProofs GM.proofs.ParseInv GM.proofs.GfmWfDefs
               GM.proofs.ParseBlocksRangeA GM.proofs.GfmWfBlkB GM.proofs.GfmWfBlkC
               GM.proofs.GfmWfBlkD GM.proofs.GfmWfBlkE
               GM.proofs.GfmWfBlkG GM.proofs.GfmWfBlkH GM.proofs.GfmWfBlkI GM.proofs.GfmWfBlkJ
               GM.proofs.GfmWfBlkQ GM.proofs.GfmWfBlkR GM.proofs.GfmWfBlkS.
From Coq Require Import ZArith Lia Sorted.
Open Scope Z_scope.

Section L.
Variable table_on : bool.
Variable space_table punct_table : list N.
Variable norm : bytes -> bytes.
Variable re_t1o re_t1c re_t2 re_t3 re_t4 re_t5 re_t6 re_t7 : re.
Variable allowed_tags : list bytes.
Variable src : bytes.
Hypothesis sp32 : is_space space_table 32%N = true.
Hypothesis sp10 : is_space space_table 10%N = true.
Set Default Proof Using "All".

(* lemmas of parts C and D take all the section variables: CC supplies them *)
Notation CC f := (f space_table punct_table norm re_t1o re_t1c re_t2 re_t3 re_t4 re_t5 re_t6 re_t7 allowed_tags src sp32) (only parsing).
Notation SInv := (SInv space_table src).
Notation HI := (HI space_table src).
Notation nodeP := (nodeP space_table src).
Notation heapS := (heapS space_table src).
Notation Jinv := (Jinv src).
Notation openS := (openS src).
Notation pline := (pline space_table src).
Notation oline := (oline src).
Notation fin_lines := (fin_lines src).
Notation fin := (fin src).
Notation cont_post := (cont_post space_table src).
Notation item_guard := (item_guard space_table).
Notation verdict := (verdict space_table).
Hypothesis Hsrc : bytes_ok src.
Notation CE f := (f space_table punct_table norm re_t1o re_t1c re_t2 re_t3 re_t4 re_t5 re_t6 re_t7 allowed_tags src sp32) (only parsing).
Notation CJ f := (f space_table punct_table norm re_t1o re_t1c re_t2 re_t3 re_t4 re_t5 re_t6 re_t7 allowed_tags src sp32 Hsrc) (only parsing).
Notation OInv := (OInv space_table src).
Notation CS f := (f space_table punct_table norm re_t1o re_t1c re_t2 re_t3 re_t4 re_t5 re_t6 re_t7 allowed_tags src sp32 sp10 Hsrc) (only parsing).
Notation transform_paragraphX := (transform_paragraphX table_on space_table punct_table norm).
Notation close_rangeX := (close_rangeX table_on space_table punct_table norm).
Notation close_blocksX := (close_blocksX table_on space_table punct_table norm).

(* the invariant of the drivers of BlockParseX.v: that of the core drivers, and the tables kept next
   to the heap lie inside the source *)
Definition XInv (fl : flavor) (x : stx) (A D N : list (nat * bparser)) : Prop :=
  OInv fl (bx_s x) A D N /\ tabs_ok src (bx_tabs x).

Lemma in_mid {X} (A D N : list X) e : In e (A ++ (D ++ [e]) ++ N).
Proof. apply in_or_app. right. apply in_or_app. left. apply in_or_app. right. left. reflexivity. Qed.

(* what a closing step leaves unchanged *)
Definition cframe (s s' : st) : Prop :=
  c_arr (s_c s') = c_arr (s_c s) /\ c_len (s_c s') = c_len (s_c s) /\ s_r s' = s_r s /\
  (length (s_h s) <= length (s_h s'))%nat.
Lemma cframe_refl s : cframe s s.
Proof. unfold cframe. csplit; auto. Qed.
Lemma cframe_trans a b c : cframe a b -> cframe b c -> cframe a c.
Proof. unfold cframe. intros [H1 [H2 [H3 H4]]] [K1 [K2 [K3 K4]]]. csplit; try congruence. lia. Qed.

(* ---------- Close of any parser, on the last of the blocks being closed ---------- *)
Lemma p_close_ok fl s x bp s' A D N : SInv fl s A (D ++ [(x, bp)]) N -> uniqS (A ++ (D ++ [(x, bp)]) ++ N) ->
  p_close space_table bp s x = Ok s' -> SInv fl s' A D N /\ cframe s s'.
Proof.
  intros HS Hu H.
  assert (forall s1, SInv fl s1 A (D ++ [(x, bp)]) N -> bp <> PSetext -> bp <> PParagraph -> bp <> PATX -> SInv fl s1 A D N) as Hdrop.
  { intros s1 HS1 B1 B2 B3. eapply (CE SInv_drop); [exact HS1|]. intros n En _.
    destruct (CE SInv_entry _ _ _ _ _ _ _ HS1 (in_mid _ _ _ _)) as [n0 [En0 [K _]]].
    assert (n0 = n) by congruence. subst n0. intros [Kp|Kh]; rewrite K in *; destruct bp; cbn [pkind] in *; congruence. }
  destruct bp; cbn [p_close] in H.
  - (* setext *)
    destruct (CE setext_close_ok fl s x s' A D N HS) as [H1 [H2 [H3 [H4 H5]]]]; [|exact H|].
    + intros y Hy. apply Hu; [exact Hy|apply in_mid].
    + split; [exact H1|]. unfold cframe. auto.
  - injection H as <-. split; [apply Hdrop; auto; discriminate|apply cframe_refl].
  - destruct (CE list_close_ok fl s x s' A D N HS H) as [H1 [H2 [H3 H4]]].
    split; [apply Hdrop; auto; discriminate|]. unfold cframe. rewrite H2. auto.
  - injection H as <-. split; [apply Hdrop; auto; discriminate|apply cframe_refl].
  - destruct (CE code_close_ok fl s x s' A _ N HS (in_mid _ _ _ _) H) as [H1 [H2 [H3 H4]]].
    split; [apply Hdrop; auto; discriminate|]. unfold cframe. rewrite H2. csplit; auto. lia.
  - (* ATX: the lines are final *)
    injection H as <-. split; [|apply cframe_refl]. eapply (CE SInv_drop); [exact HS|]. intros n En _ _.
    destruct HS as [_ HH]. destruct (os_atx _ _ _ _ _ _ (hi_open _ _ _ _ _ _ _ _ HH) x (in_mid _ _ _ _)) as [n0 [En0 F]].
    congruence.
  - destruct (CE fenced_close_ok fl s x s' A _ N HS H) as [H1 [H2 [H3 [H4 [H5 H6]]]]].
    split; [apply Hdrop; auto; discriminate|]. unfold cframe. rewrite H2. csplit; auto.
  - injection H as <-. split; [apply Hdrop; auto; discriminate|apply cframe_refl].
  - injection H as <-. split; [apply Hdrop; auto; discriminate|apply cframe_refl].
  - destruct (CE paragraph_close_ok fl s x s' A D N HS H) as [H1 [H2 [H3 [H4 _]]]].
    split; [exact H1|unfold cframe; rewrite H2; csplit; auto; lia].
Qed.

Lemma tframe_cframe s s' : tframe s s' -> cframe s s'.
Proof. unfold tframe, cframe. intros [H1 [H2 [_ [_ [H5 H6]]]]]. auto. Qed.

(* ---------- one round of closeBlocks ---------- *)
Lemma close_stepX_ok fl x node bp x1 x' isp att att' A D N :
  SInv fl (bx_s x) A (D ++ [(node, bp)]) N -> tabs_ok src (bx_tabs x) -> uniqS (A ++ (D ++ [(node, bp)]) ++ N) ->
  is_paragraph (s_h (bx_s x)) node = Ok isp -> attached (s_h (bx_s x)) node = Ok att ->
  (if (isp && att)%bool then (y <- transform_paragraphX x node ;; Ok (fst y)) else Ok x) = Ok x1 ->
  attached (s_h (bx_s x1)) node = Ok att' ->
  (if att' then lift0 x1 (p_close space_table bp (bx_s x1) node) else Ok x1) = Ok x' ->
  SInv fl (bx_s x') A D N /\ tabs_ok src (bx_tabs x') /\ cframe (bx_s x) (bx_s x').
Proof.
  intros HS Htabs Hu Hisp Hatt Ht Hatt' Hc.
  destruct (CE SInv_entry _ _ _ _ _ _ _ HS (in_mid _ _ _ _)) as [n [En [K _]]].
  unfold is_paragraph in Hisp. unfold hget in Hisp. rewrite En in Hisp. cbn [bind] in Hisp. injection Hisp as <-.
  unfold attached, hget in Hatt. rewrite En in Hatt. cbn [bind] in Hatt. injection Hatt as <-.
  (* closing a block that is not attached any more: nothing to do *)
  assert (forall s2, SInv fl s2 A (D ++ [(node, bp)]) N -> (forall n2, nth_error (s_h s2) node = Some n2 -> bpar n2 = None) ->
            SInv fl s2 A D N) as Hgone.
  { intros s2 HS2 Hn2. eapply (CE SInv_drop); [exact HS2|]. intros n2 E2 P2. exfalso. apply P2. eapply Hn2. exact E2. }
  assert (forall x2 x3, lift0 x2 (p_close space_table bp (bx_s x2) node) = Ok x3 -> SInv fl (bx_s x2) A (D ++ [(node, bp)]) N ->
            SInv fl (bx_s x3) A D N /\ bx_tabs x3 = bx_tabs x2 /\ cframe (bx_s x2) (bx_s x3)) as Hclose.
  { intros x2 x3 Hl HS2. unfold lift0 in Hl. bind_inv Hl s3 Es3. injection Hl as <-. cbn [stx_s bx_s bx_tabs].
    destruct (p_close_ok fl (bx_s x2) node bp s3 A D N HS2 Hu Es3) as [H1 H2]. auto. }
  destruct (bkind_eqb (bk n) BParagraph && match bpar n with Some _ => true | None => false end)%bool eqn:Ecnd.
  - apply andb_true_iff in Ecnd. destruct Ecnd as [Ek Ea]. apply (CE bkind_eqb_eq) in Ek.
    assert (bp = PParagraph) as -> by (apply (CE pkind_para); congruence).
    bind_inv Ht y Ey. cbn [fst] in Ht. injection Ht as <-.
    unfold BlockParseX.transform_paragraphX in Ey. bind_inv Ey s1 Es1. bind_inv Ey n1 En1. apply hget_ok in En1. cbn [stx_s bx_s] in En1.
    destruct (CJ lrd_open_ok fl _ _ _ _ _ _ HS Es1) as [Hf1 [n1' [En1' Hcase]]]. assert (n1' = n1) by congruence. subst n1'.
    destruct (bpar n1) as [q|] eqn:Pq.
    + destruct Hcase as [[Hbad _]|[_ HS1]]; [discriminate|].
      destruct table_on.
      * bind_inv Ey x2 Ex2. bind_inv Ey n2 En2. injection Ey as <-. cbn [fst] in *.
        destruct (CS table_close_ok fl (stx_s x s1) node x2 att' x' A D N HS1 Htabs Ex2 Hatt' Hc) as [H1 [H2 H3]].
        csplit; auto. eapply cframe_trans; apply tframe_cframe; eassumption.
      * injection Ey as <-. cbn [fst stx_s bx_s bx_tabs] in *.
        unfold attached, hget in Hatt'. rewrite En1 in Hatt'. cbn [bind] in Hatt'. rewrite Pq in Hatt'. injection Hatt' as <-.
        destruct (Hclose _ _ Hc HS1) as [H1 [H2 H3]]. csplit; auto; [rewrite H2; exact Htabs|].
        eapply cframe_trans; [apply tframe_cframe; exact Hf1|exact H3].
    + destruct Hcase as [[_ HS1]|[Hbad _]]; [|congruence]. injection Ey as <-. cbn [fst stx_s bx_s bx_tabs] in *.
      unfold attached, hget in Hatt'. rewrite En1 in Hatt'. cbn [bind] in Hatt'. rewrite Pq in Hatt'. injection Hatt' as <-.
      injection Hc as <-. cbn [stx_s bx_s bx_tabs]. csplit; auto. apply tframe_cframe. exact Hf1.
  - injection Ht as <-. unfold attached, hget in Hatt'. rewrite En in Hatt'. cbn [bind] in Hatt'. injection Hatt' as <-.
    destruct (bpar n) eqn:Ep.
    + destruct (Hclose _ _ Hc HS) as [H1 [H2 H3]]. csplit; auto. rewrite H2. exact Htabs.
    + injection Hc as <-. csplit; auto; [|apply cframe_refl]. apply Hgone; [exact HS|]. intros n2 E2. congruence.
Qed.

(* ---------- closeBlocks: the blocks D2 are closed from the last one down ---------- *)
Lemma nth_error_mid {X} (P : list X) e R : nth_error (P ++ e :: R) (length P) = Some e.
Proof. rewrite nth_error_app2 by lia. rewrite Nat.sub_diag. reflexivity. Qed.

Lemma close_rangeX_ok fl A N : forall D2 R D1 x x' blocks i,
  blocks = A ++ D1 ++ D2 ++ R -> i = zlen (A ++ D1 ++ D2) - 1 ->
  SInv fl (bx_s x) A (D1 ++ D2) N -> tabs_ok src (bx_tabs x) -> uniqS (A ++ (D1 ++ D2) ++ N) ->
  close_rangeX x blocks (length D2) i = Ok x' ->
  SInv fl (bx_s x') A D1 N /\ tabs_ok src (bx_tabs x') /\ cframe (bx_s x) (bx_s x').
Proof.
  intros D2. induction D2 as [|[y bp] D2' IH] using rev_ind; intros R D1 x x' blocks i Hb Hi HS Htabs Hu H.
  - cbn [length BlockParseX.close_rangeX] in H. injection H as <-. rewrite app_nil_r in HS. csplit; auto. apply cframe_refl.
  - rewrite app_length in H. cbn [length] in H. rewrite Nat.add_1_r in H. cbn [BlockParseX.close_rangeX] in H.
    destruct ((i <? 0) || (zlen blocks <=? i))%bool; [discriminate|].
    assert (nth_error blocks (Z.to_nat i) = Some (y, bp)) as Enth.
    { subst blocks i. rewrite !app_assoc. rewrite <- (app_assoc _ [(y, bp)] R). cbn [app].
      replace (Z.to_nat (zlen (((A ++ D1) ++ D2') ++ [(y, bp)]) - 1)) with (length ((A ++ D1) ++ D2')).
      - apply nth_error_mid.
      - unfold zlen. rewrite (app_length _ [(y, bp)]). cbn [length]. lia. }
    rewrite Enth in H.
    bind_inv H isp Eisp. bind_inv H att Eatt. bind_inv H x1 Ex1. bind_inv H att' Eatt'. bind_inv H x2 Ex2.
    rewrite (app_assoc D1 D2' [(y, bp)]) in HS, Hu.
    destruct (close_stepX_ok fl x y bp x1 x2 isp att att' A (D1 ++ D2') N HS Htabs Hu Eisp Eatt Ex1 Eatt' Ex2) as [HS2 [Ht2 Hf2]].
    destruct (IH ((y, bp) :: R) D1 x2 x' blocks (i - 1)) as [HS3 [Ht3 Hf3]]; auto.
    + subst blocks. rewrite <- !app_assoc. reflexivity.
    + subst i. unfold zlen. rewrite !app_length. cbn [length]. lia.
    + eapply (CE uniqS_incl); [exact Hu|]. intros e He. apply in_app_or in He. apply in_or_app.
      destruct He as [He|He]; [left; exact He|right]. apply in_app_or in He. apply in_or_app.
      destruct He as [He|He]; [left; apply in_or_app; left; exact He|right; exact He].
    + csplit; auto. eapply cframe_trans; eassumption.
Qed.

Lemma firstn_app_exact {X} (a b : list X) : firstn (length a) (a ++ b) = a.
Proof. rewrite firstn_app, Nat.sub_diag, firstn_all. cbn [firstn]. apply app_nil_r. Qed.
Lemma skipn_app_exact {X} (a b : list X) : skipn (length a) (a ++ b) = b.
Proof. rewrite skipn_app, Nat.sub_diag, skipn_all. reflexivity. Qed.

Lemma opened_prefix c (A B : list (nat * bparser)) : opened c = A ++ B -> firstn (length A) (c_arr c) = A.
Proof.
  unfold opened. intros H. assert (length A <= c_len c)%nat as Hle.
  { apply (f_equal (@length _)) in H. rewrite firstn_length, app_length in H. lia. }
  transitivity (firstn (length A) (firstn (c_len c) (c_arr c))).
  - rewrite firstn_firstn. f_equal. lia.
  - rewrite H. apply firstn_app_exact.
Qed.

Lemma close_blocksX_ok fl x x' A D N from to : XInv fl x A D N -> to = zlen A -> from = zlen A + zlen D - 1 ->
  close_blocksX x from to = Ok x' -> XInv fl x' A [] N /\ s_r (bx_s x') = s_r (bx_s x) /\
  (length (s_h (bx_s x)) <= length (s_h (bx_s x')))%nat.
Proof.
  intros [[HS [[Ho Hl] Hu]] Htabs] Hto Hfrom H. unfold BlockParseX.close_blocksX in H. bind_inv H x1 E1.
  replace (Z.to_nat (from - to + 1)) with (length D) in E1 by (subst; unfold zlen; lia).
  destruct (close_rangeX_ok fl A N D N [] x x1 (opened (s_c (bx_s x))) from) as [HS1 [Htabs1 [F1 [F2 [F3 F4]]]]]; auto.
  { subst from. cbn [app]. rewrite zlen_app. lia. }
  remember (bx_s x) as s eqn:Es. remember (bx_s x1) as s1 eqn:Es1.
  assert (Z.of_nat (c_len (s_c s1)) = zlen A + zlen D + zlen N) as Hn.
  { rewrite F2. apply (f_equal (@length _)) in Ho. unfold opened in Ho. rewrite firstn_length, !app_length in Ho. unfold zlen. lia. }
  assert (forall a l, SInv fl (st_c s1 (cset_open (s_c s1) a l)) A [] N) as Hctx.
  { intros a l. apply (CC SInv_ctx); auto. }
  assert (uniqS (A ++ [] ++ N)) as Hu'.
  { eapply (CE uniqS_incl); [exact Hu|]. intros e He. cbn [app] in He. apply in_app_or in He. apply in_or_app.
    destruct He as [He|He]; [left; exact He|right; apply in_or_app; right; exact He]. }
  assert (firstn (length A) (c_arr (s_c s1)) = A) as HA by (rewrite F1; eapply opened_prefix; exact Ho).
  pose proof (zlen_nonneg A) as HzA. pose proof (zlen_nonneg D) as HzD. pose proof (zlen_nonneg N) as HzN.
  destruct (Z.eqb_spec from (Z.of_nat (c_len (s_c s1)) - 1)) as [Efn|Efn].
  - destruct ((to <? 0) || (Z.of_nat (c_len (s_c s1)) <? to))%bool; [discriminate|]. injection H as <-.
    assert (N = []) as -> by (destruct N; [reflexivity|rewrite zlen_cons in Hn; pose proof (zlen_nonneg N); lia]).
    cbn [stx_s bx_s bx_tabs st_c s_r s_h]. csplit; auto. split; [|exact Htabs1]. split; [apply Hctx|]. split; [|exact Hu'].
    unfold Oeq, opened. cbn [stx_s bx_s st_c s_c cset_open c_arr c_len]. cbn [app]. rewrite app_nil_r.
    subst to. unfold zlen. rewrite Nat2Z.id. split; [exact HA|].
    apply (f_equal (@length _)) in HA. rewrite firstn_length in HA. lia.
  - destruct ((to <? 0) || (from + 1 <? to) || (Z.of_nat (c_len (s_c s1)) <? from + 1))%bool; [discriminate|]. injection H as <-.
    cbn [stx_s bx_s bx_tabs st_c s_r s_h]. csplit; auto. split; [|exact Htabs1]. split; [apply Hctx|]. split; [|exact Hu'].
    assert (zskip (from + 1) (firstn (c_len (s_c s1)) (c_arr (s_c s1))) = N) as Hmoved.
    { rewrite F1, F2. fold (opened (s_c s)). rewrite Ho. unfold zskip.
      replace (Z.to_nat (from + 1)) with (length (A ++ D)) by (subst from; unfold zlen; rewrite app_length; lia).
      rewrite app_assoc. apply skipn_app_exact. }
    unfold Oeq, opened. cbn [stx_s bx_s st_c s_c cset_open c_arr c_len]. rewrite Hmoved. cbn [app].
    unfold zfirst. subst to. replace (Z.to_nat (zlen A)) with (length A) by (unfold zlen; lia). rewrite HA.
    split.
    + rewrite app_assoc. rewrite <- (app_length A N). apply firstn_app_exact.
    + rewrite !app_length. lia.
Qed.

End L.
