(* C05 / C03 / C04 (block phase of the parser model with extension.DefinitionList switched on,
   model/TypoDefParseD.v + model/TypoDefParse.v parse_blocks_treeTD): the tree the block phase
   produces is well formed (HtmlSpec.wf_node), the lines of its inline-bearing blocks (paragraphs,
   text blocks, headings, definition terms) are what the block reader of the inline phase wants
   (TypoDefWfDefs.tree_lines_okTD: lines_ok, or one line with padding), and the reference map holds
   byte strings.  Port of proofs/ParseBlocksRange*.v (parse_blocks_tree_ok_sp); template for the
   port to a generalised driver: proofs/GfmWfBlk*.v.  Helper files proofs/TypoDefWfBlk{B..T}.v (compile order
   B T C D E F G H I J M Q R S L O N P K): B heap and invariant (what changed: its header), T the opened-blocks part
   of the invariant under changes; C Open of the parsers of the default configuration; D, F Continue; E regrouping;
   G, H, I Close; J link reference definitions; M the opened-blocks slice; Q Continue of the definition list parsers,
   p_continueD; R the heap operations of the definition list parsers (append_childD of a new block / of a list that
   is opened again, terms, removal of the paragraph); S Open of the two definition list parsers; L Close of
   descriptions, p_closeD, closeBlocks; O frames, the line the loop looks at; N openBlocks (with the proof that the
   description parser opens right after the list parser: the b_seg of a list is set for one round of the loop
   only); P the loops and the final invariant; K to_treeD.
   The hypothesis sp10 is not used.
   (With the switch off the block phase is that of the default parser: TypoDefConservativeBlk.v
   parse_blocksD_off; that case is dealt with in TypoDefWf.v.) *)
Require Import GM.model.Base GM.model.Util GM.model.UtilI GM.model.Reader GM.model.ReaderSpec GM.model.Regex GM.model.HtmlWriter
               GM.model.Html GM.model.HtmlSpec GM.model.BlockParse GM.model.InlineParse
               GM.model.TypoDefParseT GM.model.TypoDefParseD GM.model.TypoDefParse.
Require Import GM.proofs.ParseInv GM.proofs.TypoDefWfDefs GM.proofs.TypoDefWfBlkB GM.proofs.TypoDefWfBlkT GM.proofs.TypoDefWfBlkK GM.proofs.TypoDefWfBlkP.
From Coq Require Import ZArith List Bool.
Import ListNotations.
Open Scope Z_scope.

Section S.
Variable space_table punct_table : list N.
Variable norm : bytes -> bytes.
Variable re_t1o re_t1c re_t2 re_t3 re_t4 re_t5 re_t6 re_t7 : re.
Variable allowed_tags : list bytes.
(* the white space table classifies the blank and the newline as white space *)
Hypothesis sp32 : is_space space_table 32%N = true.
Hypothesis sp10 : is_space space_table 10%N = true.

Theorem parse_blocks_treeTD_ok_sp : forall tc src t refs,
  t_deflist tc = true -> bytes_ok src ->
  parse_blocks_treeTD tc space_table punct_table norm re_t1o re_t1c re_t2 re_t3 re_t4 re_t5 re_t6 re_t7 allowed_tags src = Ok (t, refs) ->
  wf_node src false false t = true /\ tree_lines_okTD src t = true /\ refs_ok refs.
Proof.
  intros tc src t refs Hdl Hsrc H. unfold parse_blocks_treeTD in H. rewrite Hdl in H.
  destruct (parse_blocksD true space_table punct_table norm re_t1o re_t1c re_t2 re_t3 re_t4 re_t5 re_t6 re_t7 allowed_tags src)
    as [s| |] eqn:Es; cbn [bind] in H; try discriminate.
  destruct (to_treeD (S (length (s_h s))) src (s_h s) 0%nat) as [t'| |] eqn:Et; cbn [bind] in H; try discriminate.
  injection H as <- <-.
  destruct (parse_blocksD_final space_table punct_table norm re_t1o re_t1c re_t2 re_t3 re_t4 re_t5 re_t6 re_t7 allowed_tags
              src true sp32 Hsrc s Es) as [HhS [HJ Hr]].
  destruct (to_treeD_ok space_table punct_table norm re_t1o re_t1c re_t2 re_t3 re_t4 re_t5 re_t6 re_t7 allowed_tags
              src sp32 Hsrc (s_h s) HhS HJ _ 0%nat t' (or_introl eq_refl) Et) as [Hwf Hl].
  auto.
Qed.

End S.
