(* Totality of the heading-options model, block phase: fork of the first half of ParseBlocksTotalOpen.v, ported to
   the driver of model/HeadingOpts.v over x : sth: one pass of try_parsersH under the state invariant SI (hx_s x).
   New: p_open_h (the ATX heading Open may move the reader to a later line and sets attributes); the facts about a
   pushed block (PF) say that the lines of a new ATX heading are olineE and that the temporary paragraph of a new
   Setext heading has been closed, transformed and popped and has lines without padding; the hypothesis LastParaLC
   (the open paragraph is the last child of its parent) makes the branch of the RequireParagraph path that leaves
   that paragraph open contradictory. *)
Require Import GM.model.Base GM.model.Util GM.model.Reader GM.model.ReaderSpec GM.model.Blocks GM.model.ListItem
               GM.model.LeafBlocks GM.model.CodeBlock GM.model.LinkDest GM.model.Regex GM.model.BlockParse
               GM.model.HtmlWriter GM.model.Html GM.model.Attr GM.model.Ids GM.model.HeadingOpts.
Require Import GM.proofs.ReaderProofs GM.proofs.BlocksProofs GM.proofs.BlockRangeProofs
               GM.proofs.ParseBlocksTotalReader GM.proofs.ParseBlocksTotalDefs GM.proofs.ParseBlocksTotalSpec
               GM.proofs.ParseBlocksTotalSt GM.proofs.HeadingOptsWfTotShape
               GM.proofs.ParseBlocksTotalLeaf GM.proofs.ParseBlocksTotalLeaf2 GM.proofs.ParseBlocksTotalCont
               GM.proofs.ParseBlocksTotalTransform GM.proofs.HeadingOptsWfAttr GM.proofs.HeadingOptsWfTotOpsO.
From Coq Require Import ZArith Lia List Bool.
Open Scope Z_scope.

(* the paragraph at the end of the opened blocks, if any *)
Definition last_para (c : pctx) : option nat :=
  match last_opened c with Some (x, PParagraph) => Some x | _ => None end.

(* what openBlocks may do to the old nodes: kinds stay; lines and parents stay except at the last
   opened paragraph; the children of List nodes other than `parent0` stay *)
Definition OFrame (h h' : heap) (parent0 : nat) (x0 : option nat) : Prop :=
  (length h <= length h')%nat /\
  forall j n, nth_error h j = Some n -> exists n', nth_error h' j = Some n' /\ bk n' = bk n /\
    (Some j <> x0 -> blines n' = blines n /\ bpar n' = bpar n) /\
    (bk n = BList -> j <> parent0 -> bch n' = bch n).


(* the open paragraph is the last child of its parent *)
Definition LastParaLC (s : st) : Prop :=
  forall l n, last_opened (s_c s) = Some (l, PParagraph) -> nth_error (s_h s) l = Some n ->
    exists q qn, bpar n = Some q /\ nth_error (s_h s) q = Some qn /\ last_id (bch qn) = Some l.

(* generic list facts                                                                        *)
Definition lst {A} (l : list A) : option A := nth_error l (pred (length l)).
Lemma lst_cons {A} (e : A) l : lst (e :: l) = match l with [] => Some e | _ => lst l end.
Proof. unfold lst. destruct l as [|x l]; reflexivity. Qed.
Lemma lst_app {A} (l : list A) e : lst (l ++ [e]) = Some e.
Proof.
  unfold lst. rewrite app_length. cbn [length]. replace (pred (length l + 1)) with (length l) by lia.
  rewrite nth_error_app2 by lia. rewrite Nat.sub_diag. reflexivity.
Qed.

(* relations between states                                                                  *)
Definition lastlist (s : st) : Prop :=
  exists l lp ln, last_opened (s_c s) = Some (l, lp) /\ nth_error (s_h s) l = Some ln /\ bk ln = BList.
Definition lastatt (s : st) : Prop :=
  forall l lp n, last_opened (s_c s) = Some (l, lp) -> nth_error (s_h s) l = Some n -> bpar n <> None.

(* what a declined Open (and the bookkeeping at the head of a round) keeps *)
Definition dcl (s s' : st) : Prop :=
  s_h s' = s_h s /\ same_pos (s_r s) (s_r s') /\ c_arr (s_c s') = c_arr (s_c s) /\ c_len (s_c s') = c_len (s_c s) /\
  c_fence (s_c s') = c_fence (s_c s) /\ c_tmp_para (s_c s') = c_tmp_para (s_c s).

Lemma dcl_refl s : dcl s s.
Proof. unfold dcl. csplit; auto. apply same_pos_refl. Qed.
Lemma dcl_trans a b c : dcl a b -> dcl b c -> dcl a c.
Proof.
  unfold dcl. intros (A1 & A2 & A3 & A4 & A5 & A6) (B1 & B2 & B3 & B4 & B5 & B6).
  csplit; try congruence. eapply same_pos_trans; eassumption.
Qed.
Lemma dcl_view a b : dcl a b -> sview b = sview a.
Proof. intros (_ & H & _). apply same_pos_view, H. Qed.
Lemma dcl_off a b : dcl a b -> soff b = soff a.
Proof. intros (_ & H & _). apply same_pos_column, H. Qed.
Lemma dcl_sin a b : dcl a b -> (sin a <-> sin b).
Proof. intros (_ & H & _). unfold sin. rewrite (same_pos_in_range _ _ H). tauto. Qed.
Lemma dcl_last a b : dcl a b -> last_opened (s_c b) = last_opened (s_c a).
Proof. intros (_ & _ & H1 & H2 & _). unfold last_opened. rewrite H1, H2. reflexivity. Qed.
Lemma dcl_ops a b : dcl a b -> ops b = ops a.
Proof. intros (_ & _ & H1 & H2 & _). unfold ops, opened. rewrite H1, H2. reflexivity. Qed.
Lemma dcl_lastpara a b : dcl a b -> last_para (s_c b) = last_para (s_c a).
Proof. intros H. unfold last_para. rewrite (dcl_last _ _ H). reflexivity. Qed.
Lemma dcl_lastlist a b : dcl a b -> (lastlist a <-> lastlist b).
Proof.
  intros H. unfold lastlist. rewrite (dcl_last _ _ H). destruct H as (E & _). rewrite E. tauto.
Qed.
Lemma dcl_lastatt a b : dcl a b -> lastatt a -> lastatt b.
Proof.
  intros H HA l lp n E1 E2. rewrite (dcl_last _ _ H) in E1. destruct H as (E & _). rewrite E in E2. eapply HA; eassumption.
Qed.
Lemma dcl_pos a b : dcl a b -> r_pos (s_r b) = r_pos (s_r a).
Proof. intros (_ & (_ & H & _) & _). exact H. Qed.

Lemma dcl_LastParaLC a b : dcl a b -> LastParaLC a -> LastParaLC b.
Proof.
  intros H HA l n E1 E2. rewrite (dcl_last _ _ H) in E1. destruct H as (E & _). rewrite E in *. eapply HA; eassumption.
Qed.
Lemma last_para_none_LastParaLC s : last_para (s_c s) = None -> LastParaLC s.
Proof. intros H l n E _. unfold last_para in H. rewrite E in H. discriminate. Qed.

(* frame of one openBlocks step: x is the paragraph that may lose lines or its parent; when there is
   no such paragraph every node but `parent` is untouched *)
Definition AF (h h' : heap) (parent : nat) (x : option nat) : Prop :=
  (length h <= length h')%nat /\
  forall j n, nth_error h j = Some n -> exists n', nth_error h' j = Some n' /\ bk n' = bk n /\
    (Some j <> x -> blines n' = blines n /\ bpar n' = bpar n) /\
    (bk n = BList -> j <> parent -> bch n' = bch n) /\
    (x = None -> j <> parent -> n' = n).

Lemma AF_refl h p x : AF h h p x.
Proof. split; [lia|]. intros j n H. exists n. csplit; auto. Qed.

Lemma AF_trans a b c p x x' : (x' = None \/ x' = x) -> AF a b p x -> AF b c p x' -> AF a c p x.
Proof.
  intros Hx [L1 H1] [L2 H2]. split; [lia|]. intros j n Hj.
  destruct (H1 j n Hj) as (n1 & E1 & K1 & A1 & B1 & C1).
  destruct (H2 j n1 E1) as (n2 & E2 & K2 & A2 & B2 & C2).
  exists n2. csplit.
  - exact E2.
  - congruence.
  - intros Hne. destruct (A1 Hne) as [Q1 Q2].
    assert (Hne' : Some j <> x') by (destruct Hx as [->| ->]; [discriminate|exact Hne]).
    destruct (A2 Hne') as [Q3 Q4]. split; congruence.
  - intros Kl Hp. rewrite (B2 ltac:(congruence) Hp). apply B1; assumption.
  - intros -> Hp. assert (x' = None) as -> by (destruct Hx; assumption).
    rewrite (C2 eq_refl Hp). apply C1; auto.
Qed.

(* the second step works below a node that is new for the first heap *)
Lemma AF_trans2 a b c p x q : (length a <= q)%nat -> AF a b p x -> AF b c q None -> AF a c p x.
Proof.
  intros Hq [L1 H1] [L2 H2]. split; [lia|]. intros j n Hj.
  destruct (H1 j n Hj) as (n1 & E1 & K1 & A1 & B1 & C1).
  destruct (H2 j n1 E1) as (n2 & E2 & K2 & A2 & B2 & C2).
  assert (Hjq : j <> q) by (apply nth_error_lt in Hj; lia).
  pose proof (C2 eq_refl Hjq) as ->. exists n1. csplit; auto.
Qed.

Lemma AF_OFrame h h' p x : AF h h' p x -> OFrame h h' p x.
Proof.
  intros [L H]. split; [exact L|]. intros j n Hj. destruct (H j n Hj) as (n' & E & K & A & B & _).
  exists n'. csplit; auto.
Qed.

(* a chain that starts with a container *)
Lemma Chain_nil h p : Chain h p [].
Proof.
  constructor.
  - intros k n q H. destruct k; discriminate.
  - intros k e H. destruct k; discriminate.
  - intros k L H. destruct k; discriminate.
Qed.

Lemma Chain_single h p node bp nn : nth_error h node = Some nn -> bpar nn = Some p -> bp <> PList ->
  Chain h p [(node, bp)].
Proof.
  intros Hn Hp Hl. constructor.
  - intros k n q H. destruct k as [|k]; [|destruct k; discriminate]. cbn in H. injection H as <- <-.
    exists nn. split; [exact Hn|exact Hp].
  - intros k e H Hlt. cbn [length] in Hlt. lia.
  - intros k L H. destruct k as [|k]; [|destruct k; discriminate]. cbn in H. injection H as <- E. congruence.
Qed.

Lemma Chain_cons h p node bp nn new : nth_error h node = Some nn -> bpar nn = Some p ->
  (new <> [] -> is_container bp = true) ->
  (bp = PList -> exists it, nth_error new 0%nat = Some (it, PListItem) /\ last_id (bch nn) = Some it) ->
  Chain h node new -> Chain h p ((node, bp) :: new).
Proof.
  intros Hn Hp Hc Hl [C1 C2 C3]. constructor.
  - intros k n q H. destruct k as [|k].
    + cbn in H. injection H as <- <-. exists nn. split; [exact Hn|exact Hp].
    + cbn [nth_error] in H. destruct (C1 k n q H) as [m [Em Pm]]. exists m. split; [exact Em|].
      rewrite Pm. destruct k as [|k]; reflexivity.
  - intros k e H Hlt. destruct k as [|k].
    + cbn in H. injection H as <-. cbn [snd]. apply Hc. destruct new; [cbn in Hlt; lia|discriminate].
    + cbn [nth_error] in H. apply (C2 k e H). cbn [length] in Hlt. lia.
  - intros k L H. destruct k as [|k].
    + cbn in H. injection H as <- E. destruct (Hl E) as [it [E1 E2]]. exists it, nn. auto.
    + cbn [nth_error] in H. destruct (C3 k L H) as (it & Ln & E1 & E2 & E3). exists it, Ln. auto.
Qed.

(* reduce sth_s / hx_s on explicit records *)
Ltac sx := unfold sth_s; cbn [hx_s hx_ids hx_attrs].
Ltac sx_in H := unfold sth_s in H; cbn [hx_s hx_ids hx_attrs] in H.

Section S.
Variable hc : hcfg.
Variable space_table punct_table : list N.
Variable norm : bytes -> bytes.
Variable re_t1o re_t1c re_t2 re_t3 re_t4 re_t5 re_t6 re_t7 : re.
Variable allowed_tags : list bytes.
Variable utf8len_table : list N.
Variable spaces : bytes.
Variable src : bytes.
Hypothesis tbl : TblOK space_table.
Hypothesis attr_total : AttrTotal space_table punct_table.
Notation SI := (SI space_table src).
Notation olineE := (olineE src).
Notation POH := (p_open_h hc space_table punct_table re_t1o re_t2 re_t3 re_t4 re_t5 re_t6 re_t7 allowed_tags).
Notation PCH := (p_close_h hc space_table punct_table utf8len_table spaces).
Notation CBH := (close_blocksH hc space_table punct_table norm utf8len_table spaces).
Notation TPH := (try_parsersH hc space_table punct_table norm re_t1o re_t2 re_t3 re_t4 re_t5 re_t6 re_t7 allowed_tags utf8len_table spaces).

Notation open_post := (open_post space_table src).
Notation PO := (p_open space_table re_t1o re_t2 re_t3 re_t4 re_t5 re_t6 re_t7 allowed_tags).
Notation isb := (Reader.is_blank space_table).
Notation itb := (is_thematic_break space_table).

(* facts about single parsers that the postcondition open_post does not give                 *)
Lemma is_blank_skipn n : forall l, isb (skipn n l) = false -> isb l = false.
Proof.
  induction n as [|n IH]; intros l H; [exact H|]. destruct l as [|c l]; [exact H|].
  cbn [skipn] in H. cbn [Reader.is_blank]. rewrite (IH l H). apply andb_false_r.
Qed.

Lemma count_in_pos set l : 0 < count_in set l -> exists c r, l = c :: r /\ existsb (N.eqb c) set = true.
Proof.
  destruct l as [|c r]; cbn [count_in]; [lia|]. destruct (existsb (N.eqb c) set) eqn:E; [|lia]. eauto.
Qed.

Lemma setext_bar_nonblank line c : matches_setext_bar space_table line = Ok (Some c) -> isb line = false.
Proof.
  unfold matches_setext_bar. cbv zeta.
  destruct (3 <? count_in [32%N] line); [discriminate|].
  destruct (at_ line (zlen line - 1)) as [lc| |]; cbn [bind]; try discriminate.
  set (rest := zskip (count_in [32%N] line) line).
  match goal with |- (if ?b then _ else _) = _ -> _ => destruct b eqn:Ec end; [|discriminate].
  intros _. apply (is_blank_skipn (Z.to_nat (count_in [32%N] line))).
  change (isb rest = false).
  apply orb_true_iff in Ec. destruct Ec as [Ec|Ec]; apply andb_true_iff in Ec; destruct Ec as [Ec _]; apply Z.ltb_lt in Ec.
  - destruct (count_in_pos _ _ Ec) as (x & r & -> & Hx). cbn in Hx. rewrite orb_false_r in Hx.
    apply N.eqb_eq in Hx. subst x. cbn [Reader.is_blank]. rewrite tbl. reflexivity.
  - destruct (count_in [61%N] rest =? 0); [|lia].
    destruct (count_in_pos _ _ Ec) as (x & r & -> & Hx). cbn in Hx. rewrite orb_false_r in Hx.
    apply N.eqb_eq in Hx. subst x. cbn [Reader.is_blank]. rewrite tbl. reflexivity.
Qed.

Lemma setext_open_some_nonblank s parent s' x : SI s -> sin s ->
  setext_open space_table s parent = Ok (s', Some x) -> isb (sview s) = false.
Proof.
  intros HS Hin. unfold setext_open.
  destruct (last_opened (s_c s)) as [[last lp]|]; [|discriminate].
  destruct (hget (s_h s) last) as [ln| |]; cbn [bind]; try discriminate.
  destruct (negb (bkind_eqb (bk ln) BParagraph && opt_nat_eqb (bpar ln) (Some parent))); [discriminate|].
  destruct (peek_line_s_ok _ _ s HS) as [s1 (E1 & _)]. rewrite E1. cbn [bind].
  unfold sin in Hin. rewrite Hin. cbn [line_of].
  destruct (matches_setext_bar space_table (sview s)) as [[c|]| |] eqn:Em; cbn [bind]; try discriminate.
  intros _. eapply setext_bar_nonblank, Em.
Qed.

Lemma fenced_open_some s s' id k r : fenced_open space_table s = Ok (s', Some (id, k, r)) ->
  exists ch ind fl, c_fence (s_c s') = Some (ch, ind, fl, id).
Proof.
  unfold fenced_open. destruct (peek_line_s s) as [[[s1 line] sg]| |]; cbn [bind]; try discriminate.
  destruct (fence_open space_table (line_of line) (c_boff (s_c s1))) as [a| |]; cbn [bind]; try discriminate.
  destruct a as [[[[ch ind] fl] info]|]; [|discriminate].
  rewrite new_node_eq. intros H. inversion H; subst. cbn [st_c s_c cset_fence c_fence]. eauto.
Qed.

Lemma paragraph_open_some s s' o : SI s -> sin s -> isb (sview s) = false ->
  paragraph_open space_table s = Ok (s', o) -> o <> None.
Proof.
  intros HS Hin Hb. unfold paragraph_open.
  destruct (peek_line_s_ok _ _ s HS) as [s1 (E1 & S1 & C1 & _)]. rewrite E1. cbn [bind].
  pose proof (ri_bounds _ (si_r _ _ _ HS)) as Hbd. rewrite (si_src _ _ _ HS) in Hbd.
  unfold seg_trim_left_space, src_of. rewrite (si_src _ _ _ S1). rewrite slice_sub by lia. cbn [bind].
  set (v := sub src (s_start (r_pos (s_r s))) (s_stop (r_pos (s_r s)))).
  pose proof (cur_seg_nonblank space_table src tbl s HS Hb) as Hnb. unfold seg_nonblank in Hnb. fold v in Hnb.
  destruct (tls_nonblank space_table norm v Hnb) as [Hlt _].
  assert (Hv : zlen v = s_stop (r_pos (s_r s)) - s_start (r_pos (s_r s))) by (unfold v; apply zlen_sub; lia).
  unfold seg_is_empty. cbn [mkseg s_start s_stop s_pad]. rewrite Z.eqb_refl, andb_true_r.
  destruct (Z.leb_spec (s_stop (r_pos (s_r s))) (s_start (r_pos (s_r s)) + trim_left_space_len space_table v)) as [Hle|Hgt]; [lia|].
  rewrite new_node_eq.
  match goal with |- context [advance_s ?a ?b] => destruct (advance_s a b) as [s3| |] end; cbn [bind]; try discriminate.
  intros H. inversion H. discriminate.
Qed.

(* the dispatch: every Open succeeds as a function, with its postcondition and the extra facts *)
Lemma p_open_ok bp s parent pn : SI s -> sin s -> BoffOK s -> nth_error (s_h s) parent = Some pn ->
  exists s' o, PO bp s parent = Ok (s', o) /\ open_post bp parent s s' o /\
    (bp = PThematic -> (o = None <-> itb (sview s) (soff s) = false)) /\
    (bp = PList -> lastlist s \/ c_skip_list (s_c s) = true -> o = None) /\
    (bp = PListItem -> (bk pn = BList -> snd (parse_list_item (sview s)) <> 0%N -> o <> None) /\
                       (bk pn <> BList -> o = None)) /\
    (bp = PFenced -> forall id k r, o = Some (id, k, r) -> exists ch ind fl, c_fence (s_c s') = Some (ch, ind, fl, id)) /\
    (bp = PSetext -> o <> None -> isb (sview s) = false) /\
    (bp = PParagraph -> isb (sview s) = false -> o <> None).
Proof using All.
  intros HS Hin HB Hp. destruct bp; cbn [p_open].
  - destruct (setext_open_ok space_table punct_table norm re_t1o re_t1c re_t2 re_t3 re_t4 re_t5 re_t6 re_t7 allowed_tags src tbl s parent HS Hin)
      as (s' & o & E & P). exists s', o. csplit; auto; try discriminate.
    intros _ Ho. destruct o as [x|]; [|congruence]. eapply setext_open_some_nonblank; eassumption.
  - destruct (thematic_open_ok space_table punct_table norm re_t1o re_t1c re_t2 re_t3 re_t4 re_t5 re_t6 re_t7 allowed_tags src tbl s parent HS Hin)
      as (s' & o & E & P & X). exists s', o. csplit; auto; try discriminate.
  - destruct (list_open_ok space_table src tbl s parent HS Hin) as (s' & o & E & P & X).
    exists s', o. csplit; auto; try discriminate.
  - destruct (list_item_open_ok space_table src tbl s parent pn HS Hin Hp) as (s' & o & E & P & X1 & X2).
    exists s', o. csplit; auto; try discriminate.
  - destruct (code_open_ok space_table punct_table norm re_t1o re_t1c re_t2 re_t3 re_t4 re_t5 re_t6 re_t7 allowed_tags src tbl s parent HS Hin)
      as (s' & o & E & P). exists s', o. csplit; auto; try discriminate.
  - destruct (atx_open_ok space_table punct_table norm re_t1o re_t1c re_t2 re_t3 re_t4 re_t5 re_t6 re_t7 allowed_tags src tbl s parent HS Hin)
      as (s' & o & E & P). exists s', o. csplit; auto; try discriminate.
  - destruct (fenced_open_ok space_table punct_table norm re_t1o re_t1c re_t2 re_t3 re_t4 re_t5 re_t6 re_t7 allowed_tags src tbl s parent HS Hin HB)
      as (s' & o & E & P). exists s', o. csplit; auto; try discriminate.
    intros _ id k r ->. eapply fenced_open_some, E.
  - destruct (bq_open_ok space_table src tbl s parent HS Hin) as (s' & o & E & P).
    exists s', o. csplit; auto; try discriminate.
  - destruct (html_open_ok space_table punct_table norm re_t1o re_t1c re_t2 re_t3 re_t4 re_t5 re_t6 re_t7 allowed_tags src tbl s parent HS Hin HB)
      as (s' & o & E & P). exists s', o. csplit; auto; try discriminate.
  - destruct (paragraph_open_ok space_table punct_table norm re_t1o re_t1c re_t2 re_t3 re_t4 re_t5 re_t6 re_t7 allowed_tags src tbl s parent HS Hin)
      as (s' & o & E & P). exists s', o. csplit; auto; try discriminate.
    intros _ Hb. eapply paragraph_open_some; eassumption.
Qed.

(* the dispatch of the H model: the ATX heading parser is atx_open_h, the others are those of the core *)
Lemma p_open_h_ok bp x parent pn : let s := hx_s x in
  SI s -> sin s -> BoffOK s -> nth_error (s_h s) parent = Some pn ->
  exists x' o, POH bp x parent = Ok (x', o) /\ open_post bp parent s (hx_s x') o /\
    (bp = PThematic -> (o = None <-> itb (sview s) (soff s) = false)) /\
    (bp = PList -> lastlist s \/ c_skip_list (s_c s) = true -> o = None) /\
    (bp = PListItem -> (bk pn = BList -> snd (parse_list_item (sview s)) <> 0%N -> o <> None) /\
                       (bk pn <> BList -> o = None)) /\
    (bp = PFenced -> forall id k r, o = Some (id, k, r) -> exists ch ind fl, c_fence (s_c (hx_s x')) = Some (ch, ind, fl, id)) /\
    (bp = PSetext -> o <> None -> isb (sview s) = false) /\
    (bp = PParagraph -> isb (sview s) = false -> o <> None) /\
    (bp = PATX -> forall id k r nd, o = Some (id, k, r) -> nth_error (s_h (hx_s x')) id = Some nd -> Forall olineE (blines nd)).
Proof using All.
  intros s HS Hin HB Hp.
  assert (Hd : bp = PATX \/ bp <> PATX) by (destruct bp; (left; reflexivity) || (right; discriminate)).
  destruct Hd as [->|Hna].
  - cbn [p_open_h].
    destruct (atx_open_h_ok hc space_table punct_table src tbl attr_total x parent HS Hin HB) as (x' & o & E & P & L).
    exists x', o. csplit; auto; try discriminate.
  - destruct (p_open_ok bp s parent pn HS Hin HB Hp) as (s' & o & E & P & X1 & X2 & X3 & X4 & X5 & X6).
    exists (sth_s x s'), o. cbn [sth_s hx_s]. csplit; auto; try contradiction.
    destruct bp; try contradiction; cbn [p_open_h]; unfold hlift; fold s; rewrite E; reflexivity.
Qed.

(* the indentation of the peeked line and the dispatch list                                   *)
Lemma iwp_mono bs : forall cur w pos w' pos', indent_width_pos bs cur w pos = (w', pos') -> pos' - pos <= w' - w.
Proof.
  induction bs as [|c bs IH]; intros cur w pos w' pos' H; cbn [indent_width_pos] in H.
  - injection H as <- <-. lia.
  - destruct (N.eqb c 32); [apply IH in H; lia|].
    destruct (N.eqb c 9).
    + apply IH in H. pose proof (Z.mod_pos_bound (cur + w) 4 ltac:(lia)). lia.
    + injection H as <- <-. lia.
Qed.

Lemma iwp_spaces k : forall rest cur w pos,
  indent_width_pos (repeat 32%N k ++ rest) cur w pos = indent_width_pos rest cur (w + Z.of_nat k) (pos + Z.of_nat k).
Proof.
  induction k as [|k IH]; intros rest cur w pos.
  - cbn [repeat app]. f_equal; lia.
  - cbn [repeat app indent_width_pos]. rewrite N.eqb_refl. rewrite IH. f_equal; lia.
Qed.

Lemma view_indent s off w pos : SI s -> indent_width (sview s) off = (w, pos) ->
  s_pad (r_pos (s_r s)) <= pos /\ pos <= w /\ 0 <= pos.
Proof.
  intros HS H. pose proof (ri_bounds _ (si_r _ _ _ HS)) as Hb.
  pose proof (iwp_mono _ _ _ _ _ _ H) as Hm. pose proof (indent_pos_bounds _ _ _ _ _ _ H) as Hp.
  unfold indent_width, sview, r_view, spaces_n in H. rewrite iwp_spaces in H.
  apply indent_pos_bounds in H. lia.
Qed.

Lemma iw_nl r off : indent_width (10%N :: r) off = (0, 0).
Proof. reflexivity. Qed.

Lemma pli_first_not_nl c r : snd (parse_list_item (c :: r)) <> 0%N -> c <> 10%N.
Proof.
  intros H ->. destruct (list_line_indent space_table src tbl _ 0 H) as (w & pos & E & _ & _ & _ & M).
  rewrite iw_nl in E. injection E as <- <-. unfold is_marker, nth_byte in M. cbn in M. lia.
Qed.

Fixpoint tp (bps : list bparser) : bool :=
  match bps with [] => false | PThematic :: _ => true | PList :: _ => false | _ :: r => tp r end.
Fixpoint lst_ok (bps : list bparser) : bool :=
  match bps with
  | PListItem :: _ => true
  | PSetext :: r | PThematic :: r => lst_ok r
  | PList :: PListItem :: _ => true
  | _ => false
  end.

Lemma tp_pre pre r : (forall p, In p pre -> p = PSetext \/ p = PThematic) -> In PThematic pre -> tp (pre ++ r) = true.
Proof.
  induction pre as [|a pre IH]; intros H1 H2; [contradiction|].
  destruct (H1 a (or_introl eq_refl)) as [->| ->]; [|reflexivity].
  cbn [app tp]. apply IH; [intros p Hp; apply H1; right; exact Hp|].
  destruct H2 as [H2|H2]; [discriminate|exact H2].
Qed.
Lemma lst_ok_pre pre r : (forall p, In p pre -> p = PSetext \/ p = PThematic) ->
  lst_ok (pre ++ PList :: PListItem :: r) = true.
Proof.
  induction pre as [|a pre IH]; intros H1; [reflexivity|].
  destruct (H1 a (or_introl eq_refl)) as [->| ->]; cbn [app lst_ok]; apply IH; intros p Hp; apply H1; right; exact Hp.
Qed.

Lemma cand_list_marker c : In PList (candidates c) -> is_marker c.
Proof.
  intros H. unfold candidates in H.
  destruct (N.eqb c 45 || N.eqb c 43 || N.eqb c 42 || (48 <=? c) && (c <=? 57))%N eqn:E.
  - clear H. unfold is_marker. repeat rewrite orb_true_iff in E. destruct E as [[[E|E]|E]|E]; try (apply N.eqb_eq in E; lia).
    apply andb_true_iff in E. destruct E as [E1 E2]. apply N.leb_le in E1, E2. lia.
  - exfalso. revert H.
    destruct (N.eqb c 45 || N.eqb c 61); destruct (N.eqb c 45 || N.eqb c 42 || N.eqb c 95); destruct (N.eqb c 35);
      destruct (N.eqb c 126 || N.eqb c 96); destruct (N.eqb c 62); destruct (N.eqb c 60); cbn; intuition discriminate.
Qed.

Lemma cand_paragraph c : In PParagraph (candidates c).
Proof.
  unfold candidates. match goal with |- In _ (match ?t with _ => _ end) => generalize t end.
  intros trig. destruct trig; [cbn; auto|]. apply in_or_app. right. cbn. auto.
Qed.

Definition th (bps : list bparser) (w : Z) (s : st) : Prop :=
  In PList bps -> tp bps = true \/ itb (sview s) (soff s) = false \/ 3 < w.
(* below a List node: the list item parser is reached and opens an item *)
Definition LB (bps : list bparser) (w : Z) (s : st) : Prop :=
  lst_ok bps = true /\ snd (parse_list_item (sview s)) <> 0%N /\ itb (sview s) (soff s) = false /\ (3 <? w) = false /\
  match bps with PListItem :: _ => True | _ => lastlist s \/ c_skip_list (s_c s) = true end.

Definition cands (l : bytes) (pos : Z) : list bparser :=
  if pos <? zlen l then candidates (nth_byte l pos) else free_parsers.

Lemma cands_th l off w pos : indent_width l off = (w, pos) -> In PList (cands l pos) ->
  tp (cands l pos) = true \/ itb l off = false.
Proof.
  intros Hiw H. unfold cands in *. pose proof (indent_pos_bounds _ _ _ _ _ _ Hiw) as Hp.
  destruct (Z.ltb_spec pos (zlen l)) as [Hlt|Hge]; [|cbn in H; intuition discriminate].
  pose proof (cand_list_marker _ H) as M.
  destruct (candidates_marker space_table src tbl _ M) as (pre & E & Hpre & Hth).
  destruct M as [M|[M|M]].
  - left. rewrite E. apply tp_pre; auto.
  - left. rewrite E. apply tp_pre; auto.
  - right. eapply (marker_not_thematic space_table src tbl); [exact Hiw|lia|exact M].
Qed.

Lemma cands_list l off w pos : snd (parse_list_item l) <> 0%N -> indent_width l off = (w, pos) ->
  (3 <? w) = false /\ lst_ok (cands l pos) = true.
Proof.
  intros H Hiw. destruct (list_line_indent space_table src tbl l off H) as (w' & pos' & E & Hw & Hpos & _ & M).
  rewrite Hiw in E. injection E as <- <-. split; [apply Z.ltb_ge; lia|].
  unfold cands. destruct (Z.ltb_spec pos (zlen l)) as [_|Hge]; [|lia].
  destruct (candidates_marker space_table src tbl _ M) as (pre & E & Hpre & _). rewrite E. apply lst_ok_pre, Hpre.
Qed.

Lemma cands_paragraph l pos : In PParagraph (cands l pos).
Proof. unfold cands. destruct (pos <? zlen l); [apply cand_paragraph|cbn; auto]. Qed.

(* the body of try_parsersH behind a successful Open                                           *)
Definition req_paraH (parent : nat) (last_block : option (nat * bparser)) (x : sth) (require_para : bool)
  : result (sth + sth) :=
  if require_para then
    match last_block with
    | None => Ok (inl x)
    | Some (last, lp) =>
      pn <- hget (s_h (hx_s x)) parent ;;
      if opt_nat_eqb (Some last) (last_id (bch pn)) then
        x <- PCH lp x last ;;
        let s := hx_s x in
        let c := s_c s in
        (if Nat.eqb (c_len c) 0 then Panic
         else
           let s := st_c s (cset_open c (c_arr c) (pred (c_len c))) in
           t <- transform_paragraph space_table punct_table norm s last ;;
           let '(s, gone) := t in
           if gone then Ok (inr (sth_s x s)) else Ok (inl (sth_s x s)))
      else Ok (inl x)
    end
  else Ok (inl x).

Definition att_stepH (last_block : option (nat * bparser)) (x : sth) : result sth :=
  match last_block with
  | None => Ok x
  | Some (last, _) =>
    att <- attached (s_h (hx_s x)) last ;;
    if negb att then
      let lp := Z.of_nat (c_len (s_c (hx_s x))) - 1 in CBH x lp lp
    else Ok x
  end.

Definition attachH (bp : bparser) (parent : nat) (blank continuable : bool) (last_block : option (nat * bparser))
                   (x : sth) (node : nat) (has_children : bool) : result try_resH :=
  h <- hupd (s_h (hx_s x)) node (fun n => set_blank n blank) ;;
  let x := sth_s x (st_h (hx_s x) h) in
  x <- att_stepH last_block x ;;
  h <- append_child (s_h (hx_s x)) parent node ;;
  let s := hx_s x in
  let x := sth_s x (st_c (st_h s h) (push_opened (s_c s) (node, bp))) in
  if has_children then Ok (TRetryH node continuable newBlocksOpened x)
  else Ok (TDoneH newBlocksOpened x).

Definition after_openH (bp : bparser) (parent : nat) (blank continuable : bool) (res : Z)
                       (last_block : option (nat * bparser)) (x : sth) (node : nat) (has_children require_para : bool)
  : result try_resH :=
  r <- req_paraH parent last_block x require_para ;;
  match r with
  | inr x => Ok (TRetryH parent false res x)
  | inl x => attachH bp parent blank continuable last_block x node has_children
  end.

Lemma try_parsersH_cons bp rest parent blank continuable res w x :
  TPH (bp :: rest) parent blank continuable res w x =
  if continuable && (res =? noBlocksOpened) && negb (can_interrupt_paragraph bp) then
    TPH rest parent blank continuable res w x
  else if (3 <? w) && negb (can_accept_indented bp) then
    TPH rest parent blank continuable res w x
  else
    y <- POH bp x parent ;;
    let '(x', o) := y in
    match o with
    | None => TPH rest parent blank continuable res w x'
    | Some (node, has_children, require_para) =>
      after_openH bp parent blank continuable res (last_opened (s_c (hx_s x))) x' node has_children require_para
    end.
Proof. reflexivity. Qed.

Lemma CInv_push h c n p nn : CInv h c -> nth_error h n = Some nn -> bk nn = kind_of_parser p ->
  CInv h (push_opened c (n, p)).
Proof.
  intros [C1 C2 C3 C4] Hn Hk. destruct (push_opened_spec c (n, p) C1) as (P1 & P2 & P3 & P4 & _ & _ & _ & _ & _ & P10 & P11).
  constructor.
  - exact P3.
  - intros e He. destruct (P4 e He) as [->|Hin]; [exists nn; auto|apply C2, Hin].
  - rewrite P11. exact C3.
  - rewrite P10. exact C4.
Qed.

Lemma node_ok_set_blank n b : node_ok space_table src n -> node_ok space_table src (set_blank n b).
Proof. unfold node_ok. cbn [set_blank bk blines b_seg b_i1]. auto. Qed.

(* the new node is marked, appended below `parent` and pushed on the opened blocks *)
Lemma attach_ok bp parent blank cont last_block x node kids pnX ndX : let s := hx_s x in
  SI s -> nth_error (s_h s) node = Some ndX -> nth_error (s_h s) parent = Some pnX -> (parent < node)%nat ->
  bpar ndX = None -> (bk pnX = BList -> bk ndX = BListItem) -> (bk ndX = BListItem -> bk pnX = BList) ->
  bk ndX = kind_of_parser bp ->
  (forall l lp, last_block = Some (l, lp) -> exists n, nth_error (s_h s) l = Some n /\ bpar n <> None /\ l <> node) ->
  exists s', attachH bp parent blank cont last_block x node kids =
               Ok (if kids then TRetryH node cont newBlocksOpened (sth_s x s') else TDoneH newBlocksOpened (sth_s x s')) /\
    SI s' /\ s_r s' = s_r s /\ s_c s' = push_opened (s_c s) (node, bp) /\ length (s_h s') = length (s_h s) /\
    nth_error (s_h s') node = Some (set_par (set_blank ndX blank) (Some parent)) /\
    nth_error (s_h s') parent = Some (set_ch pnX (bch pnX ++ [node])) /\
    (forall j, j <> parent -> j <> node -> nth_error (s_h s') j = nth_error (s_h s) j).
Proof.
  destruct x as [s ids ats]. cbn [hx_s].
  intros HS Hn Hp Hlt Hdet Hl1 Hl2 Hk Hlast. unfold attachH. sx.
  rewrite (hupd_ok _ _ _ _ Hn). cbn [bind].
  set (h1 := hset (s_h s) node (set_blank ndX blank)).
  assert (Hnl : (node < length (s_h s))%nat) by (eapply nth_error_lt, Hn).
  assert (S1 : SI (st_h s h1)).
  { apply (upd_node_ok space_table src s node ndX); auto.
    - apply node_ok_set_blank. exact (hi_ok _ _ _ (si_h _ _ _ HS) node ndX Hn).
    - cbn [set_blank bk blines]. intros K. exact (si_lim _ _ _ HS node ndX Hn K). }
  assert (Hn1 : nth_error h1 node = Some (set_blank ndX blank)) by (unfold h1; apply hset_same; exact Hnl).
  assert (Hp1 : nth_error h1 parent = Some pnX) by (unfold h1; rewrite hset_other by lia; exact Hp).
  assert (Es : att_stepH last_block {| hx_s := st_h s h1; hx_ids := ids; hx_attrs := ats |} =
               Ok {| hx_s := st_h s h1; hx_ids := ids; hx_attrs := ats |}).
  { unfold att_stepH. destruct last_block as [[l lp]|]; [|reflexivity].
    destruct (Hlast l lp eq_refl) as (n & En & Pn & Hne). unfold attached. cbn [hx_s st_h s_h].
    assert (E1 : nth_error h1 l = Some n) by (unfold h1; rewrite hset_other by lia; exact En).
    rewrite (hget_some _ _ _ E1). cbn [bind]. destruct (bpar n); [reflexivity|congruence]. }
  cbv zeta. fold h1. sx. rewrite Es. cbn [bind]. sx. cbn [st_h s_h s_c].
  destruct (append_child_ok space_table src h1 parent node pnX (set_blank ndX blank) (si_h _ _ _ S1) Hp1 Hn1 Hlt)
    as (h2 & E2 & St2 & L2 & N2 & P2 & O2); cbn [set_blank bk]; auto.
  rewrite E2. cbn [bind].
  assert (S2 : SI (st_h (st_h s h1) h2)) by (apply SI_set_h; [exact S1|exact St2]).
  set (s' := st_c (st_h (st_h s h1) h2) (push_opened (s_c s) (node, bp))).
  exists s'. split; [destruct kids; reflexivity|].
  assert (HS' : SI s').
  { apply SI_set_c; [exact S2|]. cbn [st_h s_h].
    eapply CInv_push; [exact (si_c _ _ _ S2)|exact N2|]. cbn [set_par set_blank bk]. exact Hk. }
  csplit; auto.
  - cbn [s' st_c st_h s_h]. rewrite L2. unfold h1. apply hset_length.
  - intros j J1 J2. cbn [s' st_c st_h s_h]. rewrite (O2 j J1 J2). unfold h1. apply hset_other. lia.
Qed.

(* the three outcomes of try_parsersH                                                         *)
Definition ODecl (pn : bnode) (bps : list bparser) (cont : bool) (res w : Z) (s : st) (t : try_resH) : Prop :=
  exists x', t = TDoneH res x' /\ SI (hx_s x') /\ dcl s (hx_s x') /\ bk pn <> BList /\
    (In PParagraph bps -> cont && (res =? noBlocksOpened) = true \/ (3 <? w) = true \/ isb (sview s) = true).

Definition OPop (parent : nat) (pn : bnode) (res w : Z) (s : st) (t : try_resH) : Prop :=
  exists x' base x, t = TRetryH parent false res x' /\ SI (hx_s x') /\ same_pos (s_r s) (s_r (hx_s x')) /\
    ops s = base ++ [(x, PParagraph)] /\ ops (hx_s x') = base /\
    AF (s_h s) (s_h (hx_s x')) parent (Some x) /\ c_fence (s_c (hx_s x')) = c_fence (s_c s) /\
    c_tmp_para (s_c (hx_s x')) <> None /\ (forall t, c_tmp_para (s_c (hx_s x')) = Some t -> (t < length (s_h s))%nat) /\
    (3 <? w) = false /\ isb (sview s) = false /\ bk pn <> BList.

(* the facts about a pushed block (the last two are new in the fork) *)
Definition PF (parent : nat) (pn : bnode) (s : st) (bp : bparser) (node : nat) (kids : bool) (s' : st) : Prop :=
    SI s' /\ r_le (s_r s) (s_r s') /\ (kids = true -> same_line (s_r s) (s_r s') /\ is_container bp = true) /\
    node = length (s_h s) /\
    (ops s' = ops s ++ [(node, bp)] \/
     (bp = PSetext /\ exists base x, ops s = base ++ [(x, PParagraph)] /\ ops s' = base ++ [(node, bp)])) /\
    AF (s_h s) (s_h s') parent (last_para (s_c s)) /\
    (exists nn, nth_error (s_h s') node = Some nn /\ bk nn = kind_of_parser bp /\ bpar nn = Some parent /\
                (bp = PSetext -> blines nn <> [])) /\
    (exists pn', nth_error (s_h s') parent = Some pn' /\ last_id (bch pn') = Some node) /\
    (bk pn = BList -> bp = PListItem) /\
    (bp = PFenced -> exists ch ind fl, c_fence (s_c s') = Some (ch, ind, fl, node)) /\
    (bp <> PFenced -> c_fence (s_c s') = c_fence (s_c s)) /\
    (bp = PSetext -> c_tmp_para (s_c s') <> None /\
                     (forall t, c_tmp_para (s_c s') = Some t -> (t < length (s_h s))%nat) /\
                     exists x, last_opened (s_c s) = Some (x, PParagraph)) /\
    (bp <> PSetext -> c_tmp_para (s_c s') = c_tmp_para (s_c s)) /\
    (bp = PList -> kids = true /\ sin s' /\ snd (parse_list_item (sview s')) <> 0%N /\ itb (sview s') (soff s') = false /\
                   ~ lastlist s /\ same_pos (s_r s) (s_r s')) /\
    (kids = true -> bp <> PList -> s_start (r_pos (s_r s)) + 1 <= s_start (r_pos (s_r s'))) /\
    (* the lines of a new ATX heading *)
    (bp = PATX -> forall nn, nth_error (s_h s') node = Some nn -> Forall olineE (blines nn)) /\
    (* a setext heading is pushed in place of the paragraph in front of it, which is its temporary paragraph and
       has been trimmed *)
    (bp = PSetext -> exists base x xn, ops s = base ++ [(x, PParagraph)] /\ ops s' = base ++ [(node, bp)] /\
                       c_tmp_para (s_c s') = Some x /\ nth_error (s_h s') x = Some xn /\ Forall pad0 (blines xn)).

(* the paragraph parser is not tried while a paragraph could be continued *)
Definition OPush (parent : nat) (pn : bnode) (cont : bool) (res : Z) (s : st) (t : try_resH) : Prop :=
  exists bp node (kids : bool) x',
    t = (if kids then TRetryH node cont newBlocksOpened x' else TDoneH newBlocksOpened x') /\
    PF parent pn s bp node kids (hx_s x') /\
    (bp = PParagraph -> cont && (res =? noBlocksOpened) = false).

Lemma OPop_pre parent pn res w s0 s t : dcl s0 s -> OPop parent pn res w s t -> OPop parent pn res w s0 t.
Proof.
  intros D (s' & base & x & H1 & H2 & H3 & H4 & H5 & H6 & H7 & H8 & H9 & H10 & H11 & H12).
  pose proof D as (Eh & Ep & Ea & El & Ef & Et).
  exists s', base, x. rewrite (dcl_ops _ _ D), (dcl_view _ _ D), Eh, Ef in *. csplit; auto.
  eapply same_pos_trans; eassumption.
Qed.

Lemma OPush_pre parent pn cont res s0 s t : dcl s0 s -> OPush parent pn cont res s t -> OPush parent pn cont res s0 t.
Proof.
  intros D (bp & node & kids & s' & H1 & (H2 & H3 & H4 & H5 & H6 & H7 & H8 & H9 & H10 & H11 & H12 & H13 & H14 & H15 & H16 & H17 & H18) & HR).
  pose proof D as (Eh & Ep & Ea & El & Ef & Et).
  exists bp, node, kids, s'.
  rewrite (dcl_ops _ _ D), (dcl_lastpara _ _ D), (dcl_last _ _ D), (dcl_pos _ _ D), Eh, Ef, Et in *.
  split; [exact H1|]. split; [|exact HR]. unfold PF. csplit; auto.
  - eapply r_le_trans; [apply same_pos_le, Ep|exact H3].
  - intros K. destruct (H4 K) as [Q1 Q2]. split; [|exact Q2]. eapply same_line_trans; [apply same_pos_line, Ep|exact Q1].
  - intros K. destruct (H15 K) as (Q1 & Q2 & Q3 & Q4 & Q5 & Q6). csplit; auto.
    + intros L. apply Q5. apply (dcl_lastlist _ _ D). exact L.
    + eapply same_pos_trans; eassumption.
Qed.

(* frames                                                                                     *)
Lemma AF_alloc h nd p x : AF h (h ++ [nd]) p x.
Proof.
  split; [rewrite app_length; lia|]. intros j n H. exists n. split; [apply nth_error_alloc_old, H|]. csplit; auto.
Qed.

(* what attaching the new node does to the other nodes *)
Definition ATT (h h' : heap) (parent node : nat) : Prop :=
  (length h <= length h')%nat /\
  forall j n, nth_error h j = Some n -> j <> node -> exists n', nth_error h' j = Some n' /\ bk n' = bk n /\
    blines n' = blines n /\ bpar n' = bpar n /\ (j <> parent -> n' = n).

Lemma AF_att a b c p x node : AF a b p x -> ATT b c p node -> (length a <= node)%nat -> AF a c p x.
Proof.
  intros [L1 H1] [L2 H2] Hn. split; [lia|]. intros j n Hj.
  destruct (H1 j n Hj) as (n1 & E1 & K1 & A1 & B1 & C1).
  assert (Hjn : j <> node) by (apply nth_error_lt in Hj; lia).
  destruct (H2 j n1 E1 Hjn) as (n2 & E2 & K2 & Q1 & Q2 & Q3).
  exists n2. csplit.
  - exact E2.
  - congruence.
  - intros Hne. destruct (A1 Hne). split; congruence.
  - intros Kl Hp. rewrite (Q3 Hp). apply B1; assumption.
  - intros Hx Hp. rewrite (Q3 Hp). apply C1; assumption.
Qed.

(* closing and transforming the paragraph `last` *)
Lemma AF_close2 h h1 h2 h4 parent last nd :
  h1 = h ++ [nd] ->
  close_frame last (fun _ _ => False) h1 h2 -> close_frame last (fun j _ => j = last) h2 h4 ->
  AF h h4 parent (Some last).
Proof.
  intros -> [L1 H1] [L2 H2]. split; [rewrite app_length in L1; cbn [length] in L1; lia|]. intros j n Hj.
  destruct (H1 j n (nth_error_alloc_old _ _ _ _ Hj)) as (n2 & E2 & K2 & A2 & B2 & C2).
  destruct (H2 j n2 E2) as (n4 & E4 & K4 & A4 & B4 & C4).
  exists n4. csplit.
  - exact E4.
  - congruence.
  - intros Hne. assert (Hj' : j <> last) by congruence. split.
    + rewrite (A4 Hj'). apply A2, Hj'.
    + destruct C2 as [C2|[_ []]]. destruct C4 as [C4|[_ C4]]; [congruence|contradiction].
  - intros Kl _. rewrite B4 by congruence. apply B2, Kl.
  - discriminate.
Qed.

Lemma CInv_pop h c : CInv h c -> CInv h (cset_open c (c_arr c) (pred (c_len c))).
Proof.
  intros [C1 C2 C3 C4]. constructor; cbn [cset_open c_arr c_len c_tmp_para c_fence]; auto. lia.
Qed.

Lemma kind_para_parser lp : kind_of_parser lp = BParagraph -> lp = PParagraph.
Proof. destruct lp; cbn; congruence. Qed.

Lemma last_opened_len c e : last_opened c = Some e -> c_len c <> 0%nat.
Proof. unfold last_opened. destruct (c_len c); [discriminate|lia]. Qed.

Lemma container_cases bp : is_container bp = true -> bp = PBlockquote \/ bp = PList \/ bp = PListItem.
Proof. destruct bp; cbn; intros H; try discriminate; auto. Qed.

(* attaching the new node: the "pushed" outcome                                                *)
Lemma attach_push bp parent pn blank cont res s s1 xX kids req ndX : let sX := hx_s xX in
  SI s -> nth_error (s_h s) parent = Some pn ->
  (bk pn = BList -> bp = PListItem) ->
  open_post bp parent s s1 (Some (length (s_h s), kids, req)) ->
  (bp = PFenced -> exists ch ind fl, c_fence (s_c s1) = Some (ch, ind, fl, length (s_h s))) ->
  (bp = PList -> itb (sview s) (soff s) = false) ->
  sin s ->
  SI sX -> s_r sX = s_r s1 -> c_fence (s_c sX) = c_fence (s_c s1) -> c_tmp_para (s_c sX) = c_tmp_para (s_c s1) ->
  (opened (s_c sX) = ops s \/ (bp = PSetext /\ exists x, ops s = opened (s_c sX) ++ [(x, PParagraph)])) ->
  AF (s_h s) (s_h sX) parent (last_para (s_c s)) ->
  nth_error (s_h sX) (length (s_h s)) = Some ndX -> bpar ndX = None -> bk ndX = kind_of_parser bp ->
  (bp = PSetext -> blines ndX <> []) ->
  (forall l lp, last_opened (s_c s) = Some (l, lp) -> exists n, nth_error (s_h sX) l = Some n /\ bpar n <> None) ->
  (bp = PATX -> Forall olineE (blines ndX)) ->
  (bp = PSetext -> exists x xn, ops s = opened (s_c sX) ++ [(x, PParagraph)] /\ c_tmp_para (s_c s1) = Some x /\
                                nth_error (s_h sX) x = Some xn /\ Forall pad0 (blines xn)) ->
  (bp = PParagraph -> cont && (res =? noBlocksOpened) = false) ->
  exists t, attachH bp parent blank cont (last_opened (s_c s)) xX (length (s_h s)) kids = Ok t /\ OPush parent pn cont res s t.
Proof.
  destruct xX as [sX ids ats]. cbn [hx_s].
  intros HS Hp Hlist OP Hfen Htb Hin SX Er Ef Et Hops HAF Hnd Hdet Hk Hlines Hlast Hatx Hpop Hnint.
  destruct OP as (S1 & Lr & Cf & nd & Eh & _ & Kn & Pn & Cn & Ereq & Kc & Ff & Ff2 & Ft & X).
  assert (Hpl : (parent < length (s_h s))%nat) by (eapply nth_error_lt, Hp).
  pose proof HAF as [LA HA]. destruct (HA parent pn Hp) as (pnX & EpX & KpX & ApX & BpX & CpX).
  destruct (attach_ok bp parent blank cont (last_opened (s_c s)) {| hx_s := sX; hx_ids := ids; hx_attrs := ats |}
              (length (s_h s)) kids pnX ndX SX Hnd EpX)
    as (s' & Et' & S' & Rr & Cc & Ll & Nn & Pp & Oo); auto.
  { rewrite KpX, Hk. intros K. rewrite (Hlist K). reflexivity. }
  { rewrite Hk, KpX. intros K. assert (bp = PListItem) by (destruct bp; cbn in K; congruence). subst bp.
    cbn [open_extra] in X. destruct X as [(pn0 & E0 & K0) _]. rewrite Hp in E0. injection E0 as <-. exact K0. }
  { intros l lp El. destruct (Hlast l lp El) as (n & En & Pn'). exists n. csplit; auto.
    destruct (is_paragraph_ok space_table src s l lp HS El) as (n0 & En0 & _). apply nth_error_lt in En0. lia. }
  cbn [hx_s] in *. sx_in Et'.
  destruct (push_opened_spec (s_c sX) (length (s_h s), bp) (ci_len _ _ (si_c _ _ _ SX)))
    as (P1 & _ & _ & _ & _ & _ & _ & _ & _ & P10 & P11).
  assert (HATT : ATT (s_h sX) (s_h s') parent (length (s_h s))).
  { split; [lia|]. intros j n Hj Hjn. destruct (Nat.eq_dec j parent) as [->|Hne].
    + rewrite EpX in Hj. injection Hj as <-. eexists. split; [exact Pp|]. cbn [set_ch bk blines bpar]. csplit; auto.
      intros C. contradiction.
    + exists n. rewrite (Oo j Hne Hjn). csplit; auto. }
  eexists. split; [exact Et'|]. exists bp, (length (s_h s)), kids, {| hx_s := s'; hx_ids := ids; hx_attrs := ats |}.
  split; [reflexivity|]. cbn [hx_s]. split; [|exact Hnint]. unfold PF. csplit.
  - exact S'.
  - rewrite Rr, Er. exact Lr.
  - intros K. pose proof (Kc K) as Kc'. split; [|exact Kc']. rewrite Rr, Er.
    destruct (container_cases bp Kc') as [->|[->| ->]]; cbn [open_extra] in X.
    + destruct X as (_ & X & _). exact X.
    + destruct X as (_ & X & _). apply same_pos_line, X.
    + destruct X as (_ & X). destruct (X K) as [X1 _]. exact X1.
  - reflexivity.
  - unfold ops in *. rewrite Cc, P1. destruct Hops as [Ho|(Eb & x & Ho)].
    + left. rewrite Ho. reflexivity.
    + right. split; [exact Eb|]. exists (opened (s_c sX)), x. split; [exact Ho|reflexivity].
  - apply (AF_att (s_h s) (s_h sX) (s_h s') parent _ (length (s_h s))); [exact HAF|exact HATT|lia].
  - eexists. split; [exact Nn|]. cbn [set_par set_blank bk bpar blines]. csplit; auto.
  - eexists. split; [exact Pp|]. cbn [set_ch bch]. apply last_id_app.
  - exact Hlist.
  - intros K. rewrite Cc, P10, Ef. apply Hfen, K.
  - intros K. rewrite Cc, P10, Ef. apply Ff, K.
  - intros ->. cbn [open_extra] in X. destruct X as (last & lp & ln & El & En & Kl & Pl & Tl & Ll' & Sp).
    rewrite Cc, P11, Et, Tl. split; [discriminate|]. split.
    + intros t Ht. injection Ht as <-. eapply nth_error_lt, En.
    + exists last. destruct (is_paragraph_ok space_table src s last lp HS El) as (n0 & En0 & Kn0 & _).
      rewrite En in En0. injection En0 as <-. rewrite Kl in Kn0. symmetry in Kn0. apply kind_para_parser in Kn0.
      subst lp. exact El.
  - intros K. rewrite Cc, P11, Et. apply Ft, K.
  - intros ->. cbn [open_extra] in X. destruct X as (Xk & Xp & Xs & Xl & Xn).
    assert (Ev : sview s' = sview s) by (unfold sview; rewrite Rr, Er; apply same_pos_view, Xp).
    assert (Eo : soff s' = soff s) by (unfold soff; rewrite Rr, Er; apply same_pos_column, Xp).
    rewrite Ev, Eo. csplit; auto.
    + unfold sin. rewrite Rr, Er. rewrite (same_pos_in_range _ _ Xp). exact Hin.
    + intros (l & lp & ln & E1 & E2 & E3). exact (Xn l lp ln E1 E2 E3).
    + rewrite Rr, Er. exact Xp.
  - intros K NL. rewrite Rr, Er. destruct (container_cases bp (Kc K)) as [->|[->| ->]]; cbn [open_extra] in X.
    + destruct X as (_ & _ & X). exact X.
    + congruence.
    + destruct X as (_ & X). destruct (X K) as [_ X2]. exact X2.
  - intros K nn Enn. rewrite Nn in Enn. injection Enn as <-. cbn [set_par set_blank blines]. exact (Hatx K).
  - intros K. destruct (Hpop K) as (x & xn & Ex & Etx & Exn & Lx).
    assert (Hxl : (x < length (s_h s))%nat).
    { assert (Hinx : In (x, PParagraph) (ops s)) by (rewrite Ex; apply in_or_app; right; left; reflexivity).
      destruct (ci_arr _ _ (si_c _ _ _ HS) _ (opened_in _ _ Hinx)) as (n0 & En0 & _). eapply nth_error_lt, En0. }
    destruct HATT as [_ HT]. destruct (HT x xn Exn ltac:(lia)) as (xn' & Exn' & _ & Lxn' & _).
    exists (opened (s_c sX)), x, xn'. csplit; auto.
    + unfold ops. rewrite Cc, P1. reflexivity.
    + rewrite Cc, P11, Et. exact Etx.
    + rewrite Lxn'. exact Lx.
Qed.

(* everything behind a successful Open: the paragraph in front of a setext bar is closed and transformed
   (it may disappear: retry), then the new node is attached *)
Lemma after_open_ok bp parent pn blank cont res w s x1 node kids req : let s1 := hx_s x1 in
  SI s -> sin s -> nth_error (s_h s) parent = Some pn -> lastatt s -> LastParaLC s ->
  (bp = PParagraph -> cont && (res =? noBlocksOpened) = false) ->
  (bk pn = BList -> bp = PListItem) ->
  open_post bp parent s s1 (Some (node, kids, req)) ->
  (bp = PFenced -> exists ch ind fl, c_fence (s_c s1) = Some (ch, ind, fl, node)) ->
  (bp = PSetext -> isb (sview s) = false /\ (3 <? w) = false) ->
  (bp = PList -> itb (sview s) (soff s) = false) ->
  (bp = PATX -> forall nd, nth_error (s_h s1) node = Some nd -> Forall olineE (blines nd)) ->
  exists t, after_openH bp parent blank cont res (last_opened (s_c s)) x1 node kids req = Ok t /\
            (OPop parent pn res w s t \/ OPush parent pn cont res s t).
Proof using All.
  destruct x1 as [s1 ids ats]. cbn [hx_s].
  intros HS Hin Hp Hatt Hllc Hnint Hlist OP Hfen Hset Htb Hatx.
  pose proof OP as (S1 & Lr & Cf & nd & Eh & En & Kn & Pn & Cn & Ereq & Kc & Ff & Ff2 & Ft & X). subst node. try subst req.
  assert (Hnd1 : nth_error (s_h s1) (length (s_h s)) = Some nd) by (rewrite Eh; apply nth_error_alloc_new).
  assert (Hlast1 : forall l lp, last_opened (s_c s) = Some (l, lp) -> exists n, nth_error (s_h s1) l = Some n /\ bpar n <> None).
  { intros l lp El. destruct (is_paragraph_ok space_table src s l lp HS El) as (n0 & En0 & _).
    exists n0. split; [rewrite Eh; apply nth_error_alloc_old, En0|eapply Hatt; eassumption]. }
  assert (Hops1 : opened (s_c s1) = ops s).
  { unfold ops, opened. destruct Cf as (A & B & _). rewrite A, B. reflexivity. }
  assert (AF1 : AF (s_h s) (s_h s1) parent (last_para (s_c s))) by (rewrite Eh; apply AF_alloc).
  assert (Plain : bp <> PSetext ->
                  exists t, attachH bp parent blank cont (last_opened (s_c s)) {| hx_s := s1; hx_ids := ids; hx_attrs := ats |}
                              (length (s_h s)) kids = Ok t /\ OPush parent pn cont res s t).
  { intros Hns. eapply (attach_push bp parent pn blank cont res s s1 {| hx_s := s1; hx_ids := ids; hx_attrs := ats |} kids _ nd);
      cbn [hx_s]; eauto; intros K; contradiction. }
  unfold after_openH, req_paraH.
  assert (Hdec : bp = PSetext \/ bp <> PSetext) by (destruct bp; (left; reflexivity) || (right; discriminate)).
  destruct Hdec as [->|Hns].
  2:{ assert (Hreq : (match bp with PSetext => true | _ => false end) = false) by (destruct bp; congruence).
      rewrite Hreq. cbn [bind].
      destruct (Plain Hns) as [t [E O]]. exists t. split; [exact E|right; exact O]. }
  cbn [open_extra] in X. destruct X as (last & lp & ln & El & Eln & Kl & Pl & Tl & Ll & Sp).
  rewrite El. cbn [hx_s].
  assert (Hp1 : nth_error (s_h s1) parent = Some pn) by (rewrite Eh; apply nth_error_alloc_old, Hp).
  rewrite (hget_some _ _ _ Hp1). cbn [bind].
  assert (lp = PParagraph).
  { destruct (is_paragraph_ok space_table src s last lp HS El) as (n0 & En0 & Kn0 & _).
    rewrite Eln in En0. injection En0 as <-. rewrite Kl in Kn0. symmetry in Kn0. apply kind_para_parser in Kn0. exact Kn0. }
  subst lp.
  destruct (opt_nat_eqb (Some last) (last_id (bch pn))) eqn:Eq.
  2:{ (* the open paragraph is the last child of `parent` *)
      exfalso. destruct (Hllc last ln El Eln) as (q & qn & Eq1 & Eq2 & Eq3).
      rewrite Pl in Eq1. injection Eq1 as <-. rewrite Hp in Eq2. injection Eq2 as <-.
      rewrite Eq3 in Eq. cbn [opt_nat_eqb] in Eq. rewrite Nat.eqb_refl in Eq. discriminate. }
  cbn [p_close_h p_close]. unfold hlift0. cbn [hx_s].
  assert (Eln1 : nth_error (s_h s1) last = Some ln) by (rewrite Eh; apply nth_error_alloc_old, Eln).
  destruct (paragraph_close_ok space_table punct_table norm re_t1o re_t1c re_t2 re_t3 re_t4 re_t5 re_t6 re_t7 allowed_tags
              src tbl s1 last ln S1 Eln1 Kl) as (s2 & E2 & CP & _ & (n2 & En2 & Pn2)).
  rewrite E2. cbn [bind]. cbv zeta. sx.
  destruct CP as (S2 & R2 & Cf2 & Ffc & _ & Ftc & CF2).
  assert (Hlen : c_len (s_c s2) <> 0%nat).
  { destruct Cf2 as (_ & B2 & _). destruct Cf as (_ & B1 & _). rewrite B2, B1. eapply last_opened_len, El. }
  destruct (Nat.eqb_spec (c_len (s_c s2)) 0) as [C|_]; [contradiction|].
  set (s3 := st_c s2 (cset_open (s_c s2) (c_arr (s_c s2)) (pred (c_len (s_c s2))))).
  assert (S3 : SI s3) by (apply SI_set_c; [exact S2|apply CInv_pop, (si_c _ _ _ S2)]).
  assert (Kn2 : bk n2 = BParagraph).
  { destruct CF2 as [_ H]. destruct (H last ln Eln1) as (n2' & E' & K' & _). rewrite En2 in E'. injection E' as <-. congruence. }
  destruct (transform_paragraph_ok space_table punct_table norm src tbl s3 last n2 S3 En2 Kn2) as (s4 & gone & E4 & TPo).
  { rewrite Pn2, Pl. discriminate. }
  rewrite E4. cbn [bind]. cbv iota beta.
  pose proof (paragraph_close_pad0 space_table s1 last s2 n2 E2 En2) as Hp2.
  destruct TPo as (S4 & R4 & Cf4 & Ff4 & Ft4 & _ & _ & CF4 & (n4 & En4 & Hgone) & _).
  pose proof (transform_paragraph_lines_Forall space_table punct_table pad0 norm s3 last s4 gone n2 n4 En2 Hp2 E4 En4) as Hp4.
  destruct (last_opened_inv (s_c s) (last, PParagraph) (ci_len _ _ (si_c _ _ _ HS)) El) as [base Eb].
  assert (Eo2 : opened (s_c s2) = base ++ [(last, PParagraph)]).
  { rewrite <- Eb. unfold opened. destruct Cf2 as (A2 & B2 & _). destruct Cf as (A1 & B1 & _). rewrite A2, B2, A1, B1. reflexivity. }
  destruct (pop_opened_spec (s_c s2) base (last, PParagraph) (ci_len _ _ (si_c _ _ _ S2)) Eo2) as [Eo3 _].
  assert (Eo4 : opened (s_c s4) = base).
  { rewrite <- Eo3. unfold opened. destruct Cf4 as (A4 & B4 & _). rewrite A4, B4. reflexivity. }
  assert (HAF4 : AF (s_h s) (s_h s4) parent (Some last)).
  { apply (AF_close2 (s_h s) (s_h s1) (s_h s2) (s_h s4) parent last nd Eh); [exact CF2|exact CF4]. }
  assert (Elp : last_para (s_c s) = Some last) by (unfold last_para; rewrite El; reflexivity).
  assert (Er4 : s_r s4 = s_r s1) by (rewrite R4; cbn [s3 st_c s_r]; exact R2).
  assert (Ef4 : c_fence (s_c s4) = c_fence (s_c s1)).
  { rewrite Ff4. cbn [s3 st_c s_c cset_open c_fence]. apply Ffc. discriminate. }
  assert (Et4 : c_tmp_para (s_c s4) = c_tmp_para (s_c s1)).
  { rewrite Ft4. cbn [s3 st_c s_c cset_open c_tmp_para]. apply Ftc. discriminate. }
  destruct gone.
  - eexists. split; [reflexivity|]. left. exists {| hx_s := s4; hx_ids := ids; hx_attrs := ats |}, base, last.
    cbn [hx_s]. csplit; auto.
    + rewrite Er4. exact Sp.
    + rewrite Ef4. apply Ff. discriminate.
    + rewrite Et4, Tl. discriminate.
    + intros t Ht. rewrite Et4, Tl in Ht. injection Ht as <-. eapply nth_error_lt, Eln.
    + apply Hset. reflexivity.
    + apply Hset. reflexivity.
    + intros K. specialize (Hlist K). discriminate.
  - (* the new node after closing and transforming *)
    assert (Hnd4 : exists nd4, nth_error (s_h s4) (length (s_h s)) = Some nd4 /\ bpar nd4 = None /\ bk nd4 = BHeading /\
                               blines nd4 <> []).
    { destruct CF2 as [_ H2]. destruct (H2 _ nd Hnd1) as (nd2 & E2' & K2 & A2 & _ & C2).
      destruct CF4 as [_ H4]. destruct (H4 _ nd2 E2') as (nd4 & E4' & K4 & A4 & _ & C4).
      assert (Hne : length (s_h s) <> last) by (apply nth_error_lt in Eln; lia).
      exists nd4. csplit.
      - exact E4'.
      - destruct C4 as [C4|[C4 _]]; [|rewrite K2, Kn in C4; discriminate].
        destruct C2 as [C2|[_ []]]. congruence.
      - rewrite K4, K2, Kn. reflexivity.
      - rewrite (A4 Hne), (A2 Hne). exact Ll. }
    destruct Hnd4 as (nd4 & End4 & Pnd4 & Knd4 & Lnd4).
    destruct (attach_push PSetext parent pn blank cont res s s1 {| hx_s := s4; hx_ids := ids; hx_attrs := ats |} kids true nd4)
      as (t & E & O); cbn [hx_s]; auto.
    + right. split; [reflexivity|]. exists last. rewrite Eo4. exact Eb.
    + rewrite Elp. exact HAF4.
    + intros l lp El'. rewrite El in El'. injection El' as <- <-. exists n4. split; [exact En4|].
      intros C. apply Hgone in C. discriminate.
    + discriminate.
    + intros _. exists last, n4. rewrite Eo4. csplit; auto.
    + rewrite El in E. exists t. split; [exact E|right; exact O].
Qed.

(* try_parsersH                                                                               *)
Definition TI (parent : nat) (pn : bnode) (bps : list bparser) (w : Z) (s : st) : Prop :=
  SI s /\ sin s /\ BoffOK s /\ nth_error (s_h s) parent = Some pn /\ lastatt s /\
  (bk pn = BList -> LB bps w s) /\ th bps w s /\ LastParaLC s.

Lemma th_skip bp rest w s : th (bp :: rest) w s -> (bp = PThematic -> itb (sview s) (soff s) = false \/ 3 < w) ->
  th rest w s.
Proof.
  intros H Hb Hin'. destruct (H (or_intror Hin')) as [T|X]; [|right; exact X].
  destruct bp; cbn [tp] in T; try (left; exact T); try discriminate. right. apply Hb. reflexivity.
Qed.
Lemma th_dcl bps w s s1 : dcl s s1 -> th bps w s -> th bps w s1.
Proof. intros D H Hin'. rewrite (dcl_view _ _ D), (dcl_off _ _ D). apply H, Hin'. Qed.

Lemma ODecl_cons pn bp rest cont res w s0 t : ODecl pn rest cont res w s0 t ->
  (bp = PParagraph -> cont && (res =? noBlocksOpened) = true \/ (3 <? w) = true \/ isb (sview s0) = true) ->
  ODecl pn (bp :: rest) cont res w s0 t.
Proof.
  intros (s' & H1 & H2 & H3 & H4 & H5) Hb. exists s'. csplit; auto.
  intros [Hb'|Hin']; [apply Hb; exact Hb'|apply H5, Hin'].
Qed.

Lemma lst_ok_cases bp rest : lst_ok (bp :: rest) = true ->
  bp = PSetext \/ bp = PThematic \/ bp = PList \/ bp = PListItem.
Proof. destruct bp; cbn [lst_ok]; intros H; try discriminate; auto. Qed.

Lemma try_parsers_ok parent pn blank cont res w s0 : forall bps x, dcl s0 (hx_s x) -> TI parent pn bps w (hx_s x) ->
  exists t, TPH bps parent blank cont res w x = Ok t /\
    (ODecl pn bps cont res w s0 t \/ OPop parent pn res w s0 t \/ OPush parent pn cont res s0 t).
Proof using All.
  induction bps as [|bp rest IH]; intros x D (HS & Hin & HB & Hp & Hatt & HLB & Hth & Hllc).
  - cbn [try_parsersH]. exists (TDoneH res x). split; [reflexivity|]. left. exists x.
    split; [reflexivity|]. split; [exact HS|]. split; [exact D|]. split; [|intros []].
    intros K. destruct (HLB K) as (L & _). discriminate.
  - rewrite try_parsersH_cons. set (s := hx_s x) in *.
    destruct (cont && (res =? noBlocksOpened) && negb (can_interrupt_paragraph bp)) eqn:C1.
    { (* the parser may not interrupt a paragraph *)
      apply andb_true_iff in C1. destruct C1 as [C1 C1'].
      assert (Hnl : bk pn <> BList).
      { intros K. destruct (HLB K) as (L & _). destruct (lst_ok_cases _ _ L) as [->|[->|[->| ->]]]; discriminate. }
      destruct (IH x D) as (t & E & O).
      { fold s. unfold TI. csplit; auto; [intros K; contradiction|].
        apply (th_skip bp); [exact Hth|]. intros ->. discriminate. }
      exists t. split; [exact E|]. destruct O as [O|O]; [left|right; exact O].
      apply ODecl_cons; [exact O|]. intros _. left. exact C1. }
    destruct ((3 <? w) && negb (can_accept_indented bp)) eqn:C2.
    { apply andb_true_iff in C2. destruct C2 as [C2 C2'].
      assert (Hnl : bk pn <> BList).
      { intros K. destruct (HLB K) as (_ & _ & _ & L & _). congruence. }
      destruct (IH x D) as (t & E & O).
      { fold s. unfold TI. csplit; auto; [intros K; contradiction|].
        apply (th_skip bp); [exact Hth|]. intros _. right. apply Z.ltb_lt, C2. }
      exists t. split; [exact E|]. destruct O as [O|O]; [left|right; exact O].
      apply ODecl_cons; [exact O|]. intros _. right. left. exact C2. }
    destruct (p_open_h_ok bp x parent pn HS Hin HB Hp) as (x1 & o & E & OP & XT & XL & XI & XF & XS & XP & XA).
    fold s in OP, XT, XL, XI, XS, XP.
    rewrite E. cbn [bind]. cbv iota beta. set (s1 := hx_s x1) in *.
    destruct o as [[[node kids] req]|].
    + (* the parser opens a block *)
      destruct (after_open_ok bp parent pn blank cont res w s x1 node kids req HS Hin Hp Hatt Hllc) as (t & Et & O); fold s1; auto.
      * intros ->. cbn [can_interrupt_paragraph negb] in C1. rewrite andb_true_r in C1. exact C1.
      * intros K. destruct (HLB K) as (L1 & L2 & L3 & L4 & L5).
        destruct (lst_ok_cases _ _ L1) as [->|[->|[->| ->]]].
        -- exfalso. destruct OP as (_ & _ & _ & nd & _ & _ & _ & _ & _ & _ & _ & _ & _ & _ & X).
           cbn [open_extra] in X. destruct X as (last & lp & ln & _ & Eln & Kl & Pl & _).
           pose proof (hi_listp _ _ _ (si_h _ _ _ HS) last ln parent pn Eln Pl Hp K) as C. congruence.
        -- exfalso. destruct (XT eq_refl) as [_ X]. specialize (X L3). discriminate.
        -- exfalso. specialize (XL eq_refl L5). discriminate.
        -- reflexivity.
      * intros ->. eapply (XF eq_refl). reflexivity.
      * intros ->. split; [apply (XS eq_refl); discriminate|].
        cbn [can_accept_indented negb] in C2. rewrite andb_true_r in C2. exact C2.
      * intros ->. destruct (Hth (or_introl eq_refl)) as [T|[T|T]]; [discriminate|exact T|].
        cbn [can_accept_indented negb] in C2. rewrite andb_true_r in C2. apply Z.ltb_ge in C2. lia.
      * intros K nd Hnd. eapply (XA K); [reflexivity|exact Hnd].
      * exists t. split; [exact Et|]. right. destruct O as [O|O]; [left; eapply OPop_pre; eassumption|right; eapply OPush_pre; eassumption].
    + (* the parser declines *)
      destruct OP as (S1 & Lr & Cf & Eh & Sp & Ef & Etm & _ & Esk).
      assert (D1 : dcl s s1).
      { destruct Cf as (A & B & _). unfold dcl. csplit; auto. }
      pose proof (dcl_trans _ _ _ D D1) as D01.
      destruct (IH x1 D01) as (t & Et & O).
      { fold s1. unfold TI. csplit.
        - exact S1.
        - apply (dcl_sin _ _ D1), Hin.
        - destruct HB as [B1 B2]. destruct Cf as (_ & _ & Cb & _). unfold BoffOK.
          rewrite (dcl_view _ _ D1), (dcl_pos _ _ D1), Cb. split; assumption.
        - rewrite Eh. exact Hp.
        - apply (dcl_lastatt s s1 D1 Hatt).
        - intros K. destruct (HLB K) as (L1 & L2 & L3 & L4 & L5).
          unfold LB. rewrite (dcl_view _ _ D1), (dcl_off _ _ D1).
          destruct (lst_ok_cases _ _ L1) as [->|[->|[->| ->]]].
          + cbn [lst_ok] in L1. csplit; auto. destruct rest as [|[] rest']; auto;
              (destruct L5 as [L5|L5]; [left; apply (dcl_lastlist _ _ D1), L5|right; rewrite Esk by discriminate; exact L5]).
          + cbn [lst_ok] in L1. csplit; auto. destruct rest as [|[] rest']; auto;
              (destruct L5 as [L5|L5]; [left; apply (dcl_lastlist _ _ D1), L5|right; rewrite Esk by discriminate; exact L5]).
          + cbn [lst_ok] in L1. destruct rest as [|[] rest']; try discriminate. csplit; auto.
          + exfalso. destruct (XI eq_refl) as [X _]. apply (X K L2). reflexivity.
        - apply (th_dcl _ _ s); [exact D1|]. apply (th_skip bp); [exact Hth|].
          intros ->. left. apply (XT eq_refl). reflexivity.
        - apply (dcl_LastParaLC s s1 D1 Hllc). }
      exists t. split; [exact Et|]. destruct O as [O|O]; [left|right; exact O].
      apply ODecl_cons; [exact O|]. intros ->. right. right. rewrite <- (dcl_view _ _ D).
      destruct (isb (sview s)) eqn:Eb; [reflexivity|]. exfalso. apply (XP eq_refl eq_refl). reflexivity.
Qed.

End S.
