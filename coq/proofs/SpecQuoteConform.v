(* C09 and C08 on a fragment, for EVERY document of the fragment, about the whole Convert model
   (model/ParseI.v): block independence for plain documents, and the block quote law / CommonMark
   conformance for block quotes (nested to any depth) around plain paragraphs.
   Builds on proofs/SpecPara*.v.  Helper files: proofs/SpecQuote*.v. *)
Require Import GM.model.Base GM.model.Util GM.model.UtilI GM.model.Reader GM.model.HtmlWriter GM.model.Html GM.model.HtmlI
               GM.model.SpecDoc GM.model.BlockParse GM.model.InlineParse GM.model.ParseI.
Require Import GM.proofs.SpecConformance GM.proofs.SpecParaConform.
Require Import GM.proofs.SpecParaBytes GM.proofs.SpecParaSpec GM.proofs.SpecParaCompose GM.proofs.SpecQuoteIndep
               GM.proofs.SpecQuoteShape GM.proofs.SpecQuoteSpec GM.proofs.SpecQuoteParse.
From Coq Require Import List NArith ZArith Bool Lia.
Import ListNotations.
Open Scope N_scope.

(* ---------- C09: closed blocks render independently (plain documents) ----------
   a plain document followed by an empty line and another plain document converts to the
   concatenation of the two conversions *)
Theorem plain_docs_independent : forall c fin d1 d2 o1 o2,
  hardwraps c = false -> plain_doc d1 = true -> plain_doc d2 = true ->
  ConvertModel c (md_of false true d1) = Ok o1 ->
  ConvertModel c (md_of false fin d2) = Ok o2 ->
  ConvertModel c (md_of false true d1 ++ nl ++ md_of false fin d2) = Ok (o1 ++ o2).
Proof.
  intros c fin d1 d2 o1 o2 Hc H1 H2 E1 E2.
  destruct (plain_doc_shape d1 H1) as (p1 & Hok1 & Hmd1 & _).
  destruct (plain_doc_shape d2 H2) as (p2 & Hok2 & Hmd2 & _).
  rewrite (Hmd1 true) in E1 |- *. rewrite (Hmd2 fin) in E2 |- *.
  rewrite (convert_plain c p1 true Hc Hok1) in E1. rewrite (convert_plain c p2 fin Hc Hok2) in E2.
  injection E1 as <-. injection E2 as <-.
  rewrite pdoc_src_app; [|apply doc_ok_inv; exact Hok1|apply doc_ok_inv; exact Hok2].
  rewrite <- pdoc_html_app. apply convert_plain; [exact Hc|apply doc_ok_app; assumption].
Qed.

(* ---------- block quotes around plain paragraphs ----------
   quoted documents: plain paragraphs and block quotes (marker style 0 = "> ", 1 = ">") of quoted
   documents, nested to any depth *)
Fixpoint qblock (fuel : nat) (b : block) : bool :=
  match fuel with
  | O => false
  | S f =>
    match b with
    | BPara 0 a => plain_para (BPara 0 a)
    | BQuote st bs => (st <=? 1) && negb (match bs with [] => true | _ => false end) && forallb (qblock f) bs
    | _ => false
    end
  end.
Definition qdoc (fuel : nat) (d : doc) : bool := negb (match d with [] => true | _ => false end) && forallb (qblock fuel) d.

(* C02 on the fragment: the Convert model maps md_of to html_of *)
Theorem quoted_doc_conforms : forall c fin fuel d,
  hardwraps c = false -> qdoc fuel d = true ->
  ConvertModel c (md_of false fin d) = Ok (html_of d).
Proof.
  intros c fin fuel d Hc Hd.
  destruct (qdoc_shape fuel d Hd) as (q & Hok & Hmd & Hhtml).
  rewrite (Hmd fin), Hhtml. apply convert_quoted; assumption.
Qed.

(* C08 on the fragment: prefixing every line of the spelling of d with "> " (a bare ">" on an
   empty line) wraps the conversion in one more blockquote element *)
Definition quote_lines (md : bytes) : bytes :=
  join nl (map (fun l => match l with [] => [62] | _ => [62;32] ++ l end) (split_lines md [])).
Theorem quoting_wraps : forall c fuel d o,
  hardwraps c = false -> qdoc fuel d = true ->
  ConvertModel c (md_of false false d) = Ok o ->
  ConvertModel c (quote_lines (md_of false false d)) =
    Ok (tag [98;108;111;99;107;113;117;111;116;101] ++ nl ++ o ++ ctag [98;108;111;99;107;113;117;111;116;101] ++ nl).
Proof.
  intros c fuel d o Hc Hd E.
  destruct (quote_lines_shape fuel d Hd) as (q & Hok & Hmd & Hhtml & Hql).
  rewrite Hmd in E. rewrite (convert_quoted c q false Hc Hok) in E. injection E as <-.
  change (quote_lines (md_of false false d)) with (quote_lines_s (md_of false false d)). rewrite Hql.
  rewrite (convert_quoted c (QOne (QQ true q)) false Hc Hok). reflexivity.
Qed.
