(* The heading option model without the Attribute option (h_attr = false), both settings of
   automatic heading ids: C05 / C01 / C03 / C04 carried over from the default parser model
   (proofs/ParseFinal.v) and from the pass of model/HeadingIds.v (proofs/HeadingIdsProofs.v)
   through the equalities of proofs/HeadingOptsEq.v. *)
Require Import GM.model.Base GM.model.Util GM.model.Reader GM.model.HtmlWriter GM.model.Html GM.model.HtmlI GM.model.HtmlSpec
               GM.model.BlockParse GM.model.InlineParse GM.model.ParseI GM.model.HeadingIds GM.model.HeadingOpts GM.model.HeadingOptsI.
Require Import GM.proofs.ParseInv GM.proofs.HtmlConcrete GM.proofs.ParseFinal GM.proofs.HeadingIdsProofs GM.proofs.HeadingOptsEq GM.proofs.ParseInlineTotal.
From Coq Require Import List ZArith Bool.
Import ListNotations.

(* a configuration without the Attribute option is one of the two of HeadingOptsEq.v *)
Lemma hcfg_off_cases hc : h_attr hc = false -> hc = h_none \/ hc = h_ids.
Proof. destruct hc as [a [|]]; cbn [h_attr]; intros ->; [right|left]; reflexivity. Qed.

Lemma ParseTreeH_off hc src : h_attr hc = false -> bytes_ok src ->
  ParseTreeH hc src = if h_autoid hc then ParseTreeA src else ParseTree src.
Proof.
  intros Ha Hb. destruct (hcfg_off_cases hc Ha) as [->| ->]; cbn [h_autoid h_none h_ids].
  - apply heading_opts_none_is_default.
  - apply heading_opts_ids_is_pass. exact Hb.
Qed.

Theorem ParseTreeH_wf_off : forall hc src t, h_attr hc = false -> bytes_ok src ->
  ParseTreeH hc src = Ok t -> wf_tree src t = true.
Proof.
  intros hc src t Ha Hb H. rewrite (ParseTreeH_off hc src Ha Hb) in H. destruct (h_autoid hc).
  - exact (ParseTreeA_wf src t Hb H).
  - exact (ParseTree_wf_all src t Hb H).
Qed.

Theorem ParseTreeH_total_off : forall hc src, h_attr hc = false -> bytes_ok src -> exists t, ParseTreeH hc src = Ok t.
Proof.
  intros hc src Ha Hb. rewrite (ParseTreeH_off hc src Ha Hb). destruct (h_autoid hc).
  - exact (ParseTreeA_total InlineChildren_total src Hb).
  - exact (ParseTree_total_all src Hb).
Qed.
