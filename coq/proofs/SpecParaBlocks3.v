(* Plain paragraphs, block phase, part 3: the source of a plain document has the shape the
   driver lemmas expect, the resulting heap maps to the expected tree, and the theorem on
   ParseBlocksTree. *)
Require Import GM.model.Base GM.model.Util GM.model.UtilI GM.model.Reader GM.model.ListItem GM.model.Blocks GM.model.CodeBlock
               GM.model.Regex GM.model.BlockParse GM.model.HtmlWriter GM.model.Html GM.model.SpecDoc GM.model.ParseI.
Require Import GM.gen.Tables GM.gen.Regexes GM.proofs.SpecParaBytes GM.proofs.SpecParaReader GM.proofs.SpecParaBlocks GM.proofs.SpecParaBlocks2.
From Coq Require Import List NArith ZArith Bool Lia.
Import ListNotations.
Open Scope Z_scope.

Opaque space_table punct_table.

(* ---------- the shape of the source ---------- *)
Lemma para_ptail eb after next :
  (exists term suf0, after = term ++ suf0 /\ term_ok term suf0 /\ ptail eb [] suf0 next) ->
  forall bs body, forallb body_okb bs = true ->
  exists term suf, para_src (body :: bs) ++ after = body ++ term ++ suf /\ term_ok term suf /\ ptail eb bs suf next.
Proof.
  intros (term0 & suf0 & Ha & Ht0 & Hp0). induction bs as [|b' bs IH]; intros body Hbs.
  - exists term0, suf0. split; [|split; assumption]. unfold para_src. cbn [join]. rewrite Ha. reflexivity.
  - cbn [forallb] in Hbs. apply andb_true_iff in Hbs. destruct Hbs as [Hb' Hbs].
    destruct (IH b' Hbs) as (term & suf & He & Ht & Hp).
    exists [10%N], (b' ++ term ++ suf). split; [|split].
    + rewrite para_src_cons2. rewrite <- !app_assoc. rewrite He. reflexivity.
    + left. reflexivity.
    + apply pt_line; assumption.
Qed.

Lemma pdoc_src_cons2 p p' ps fin : pdoc_src (p :: p' :: ps) fin = para_src p ++ 10%N :: 10%N :: pdoc_src (p' :: ps) fin.
Proof. unfold pdoc_src, pdoc_body. cbn [map join]. rewrite <- !app_assoc. reflexivity. Qed.

Lemma doc_dtail fin d : d <> [] -> forallb para_ok d = true -> dtail d (pdoc_src d fin).
Proof.
  induction d as [|p ps IH]; intros Hne Hd; [congruence|].
  cbn [forallb] in Hd. apply andb_true_iff in Hd. destruct Hd as [Hp Hps].
  destruct (para_ok_inv p Hp) as (body & bs & -> & Hb & Hbs).
  destruct ps as [|p' ps].
  - assert (Hbase : exists term suf0, (if fin then [10%N] else []) = term ++ suf0 /\ term_ok term suf0 /\ ptail false [] suf0 []).
    { destruct fin.
      - exists [10%N], []. split; [reflexivity|]. split; [left; reflexivity|constructor].
      - exists [], []. split; [reflexivity|]. split; [right; split; reflexivity|constructor]. }
    destruct (para_ptail false _ [] Hbase bs body Hbs) as (term & suf & He & Ht & Hpt).
    unfold pdoc_src, pdoc_body. cbn [map join]. fold (para_src (body :: bs)). rewrite He. apply dt_last; assumption.
  - assert (Hbase : exists term suf0, 10%N :: 10%N :: pdoc_src (p' :: ps) fin = term ++ suf0 /\ term_ok term suf0 /\
                                      ptail true [] suf0 (pdoc_src (p' :: ps) fin)).
    { exists [10%N], (10%N :: pdoc_src (p' :: ps) fin). split; [reflexivity|]. split; [left; reflexivity|constructor]. }
    destruct (para_ptail true _ _ Hbase bs body Hbs) as (term & suf & He & Ht & Hpt).
    rewrite pdoc_src_cons2. rewrite He. apply (dt_more body bs term suf (pdoc_src (p' :: ps) fin)); try assumption.
    apply IH; [discriminate|exact Hps].
Qed.

(* ---------- from the heap to the tree ---------- *)
Lemma to_tree_S f src h i : to_tree (S f) src h i =
  (n <- hget h i ;; k <- kind_of src n ;; kids <- map_res (to_tree f src h) (bch n) ;; Ok (Node k (blines n) None kids)).
Proof. reflexivity. Qed.
Lemma to_tree_para g src h i ls bl : hget h i = Ok (pnode (Some 0%nat) ls bl) ->
  to_tree (S g) src h i = Ok (Node KParagraph ls None []).
Proof. intros H. cbn [to_tree]. rewrite H. reflexivity. Qed.

Lemma to_tree_kids g src d0 : forall d ns pre_ns off, pnodes_ok off d ns ->
  map_res (to_tree (S g) src (d0 :: pre_ns ++ ns)) (seq (S (length pre_ns)) (length d)) = Ok (doc_blocks off d).
Proof.
  induction d as [|p d IH]; intros ns pre_ns off Hok; [reflexivity|].
  destruct ns as [|n ns]; [contradiction|]. cbn [pnodes_ok] in Hok. destruct Hok as [[bl ->] Hok].
  cbn [length seq map_res doc_blocks].
  rewrite (to_tree_para g src _ _ (para_segs off p) bl).
  2:{ unfold hget. cbn [nth_error]. rewrite nth_error_app2 by lia. rewrite Nat.sub_diag. reflexivity. }
  cbn [bind].
  pose proof (IH ns (pre_ns ++ [pnode (Some 0%nat) (para_segs off p) bl]) _ Hok) as H.
  rewrite app_length in H. cbn [length] in H. rewrite Nat.add_1_r in H. rewrite <- app_assoc in H. cbn [app] in H.
  rewrite H. reflexivity.
Qed.

Lemma to_tree_doc src d ns : pnodes_ok 0 d ns ->
  to_tree (S (length (dnode (seq 1 (length d)) :: ns))) src (dnode (seq 1 (length d)) :: ns) 0 =
  Ok (Node KDocument [] None (doc_blocks 0 d)).
Proof.
  intros Hok. cbn [length]. rewrite to_tree_S. cbn [hget nth_error bind dnode bk kind_of bch blines].
  pose proof (to_tree_kids (length ns) src (dnode (seq 1 (length d))) d ns [] 0 Hok) as H. cbn [app length] in H.
  rewrite H. reflexivity.
Qed.

(* ---------- the block phase on a plain document ---------- *)
Theorem parse_blocks_tree_plain d fin : doc_ok d = true ->
  ParseBlocksTree (pdoc_src d fin) = Ok (Node KDocument [] None (doc_blocks 0 d), []).
Proof.
  intros Hd. unfold doc_ok in Hd. apply andb_true_iff in Hd. destruct Hd as [Hne Hd].
  assert (Hne' : d <> []) by (destruct d; [discriminate|discriminate]).
  pose proof (doc_dtail fin d Hne' Hd) as Hdt.
  pose proof (dtail_len _ _ Hdt) as Hlen.
  destruct (pbl_doc ToLinkReference re_htmlBlockType1Open re_htmlBlockType1Close re_htmlBlockType2Open re_htmlBlockType3Open
              re_htmlBlockType4Open re_htmlBlockType5Open re_htmlBlockType6 re_htmlBlockType7 allowed_block_tags
              d (pdoc_src d fin) Hdt (S (length (pdoc_src d fin))) [] [] [] [] 0 [] (pdoc_src d fin))
    as (sfin & ns & Hrun & Hh & Hns & Hrefs); [lia|reflexivity|].
  unfold ParseBlocksTree, ParseBlocks, parse_blocks. rewrite new_reader_suf.
  change (mknode BDocument 0) with (dnode []). change init_ctx with (ctx [] 0).
  rewrite Hrun. cbn [bind]. rewrite Hh. cbn [app length].
  pose proof (to_tree_doc (pdoc_src d fin) d ns Hns) as Ht. cbn [length] in Ht. rewrite Ht. cbn [bind]. rewrite Hrefs. reflexivity.
Qed.
