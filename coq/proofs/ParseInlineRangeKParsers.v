(* Helper file for ParseInlineRange.v (public inline kinds): the inline parsers, scan_line and the loop
   over the lines keep the invariants of ParseInlineRangeKInv.v: the delimiter list of the context is the
   list of the delimiter children of the block node, label state nodes with a parent are in the label
   state list, node 0 is the only block node. *)
Require Import GM.model.Base GM.model.Util GM.model.Reader GM.model.ReaderSpec GM.model.Blocks GM.model.ListItem
               GM.model.LeafBlocks GM.model.CodeSpan GM.model.LinkDest GM.model.Regex GM.model.Delim GM.model.HtmlSpec
               GM.model.BlockParse GM.model.InlineParse.
Require Import GM.proofs.BReaderProofs GM.proofs.BlockRangeProofs GM.proofs.RegexProofs GM.proofs.ParseInv.
Require Import GM.proofs.ParseInlineRangeHeap GM.proofs.ParseInlineRangeReader GM.proofs.ParseInlineRangeParsers.
Require Import GM.proofs.ParseInlineRangeKList GM.proofs.ParseInlineRangeKStep GM.proofs.ParseInlineRangeKDelim
               GM.proofs.ParseInlineRangeKLabel GM.proofs.ParseInlineRangeKInv.
From Coq Require Import ZArith Lia List Bool.
Import ListNotations.
Open Scope Z_scope.

(* ---------- parsers that only make a plain node ---------- *)
(* the context after the parser: unchanged, or one fresh plain node *)
Definition newnode_shape (c c' : ictx) (res : option nat) : Prop :=
  (c' = c /\ res = None) \/ exists k n, plain k /\ new_inode c k = (c', n) /\ res = Some n.

Record quiet (c c' : ictx) (res : option nat) : Prop := {
  q_g : gstep (i_h c) (i_h c');
  q_K : K (i_h c') = K (i_h c);
  q_d : dch (i_h c') = dch (i_h c);
  q_t : tree_ok (i_h c');
  q_f : i_dfirst c' = i_dfirst c;
  q_l : i_dlast c' = i_dlast c;
  q_lab : i_labels c' = i_labels c;
  q_b : i_bottoms c' = i_bottoms c;
  q_kd : forall j, (j < length (i_h c))%nat -> kd (i_h c') j = kd (i_h c) j;
  q_res : forall n, res = Some n -> pr (i_h c') n = None /\ nkey (i_h c') n /\ n <> 0%nat
}.

Lemma quiet_refl c : tree_ok (i_h c) -> quiet c c None.
Proof. intros Ht. constructor; auto; [apply gstep_refl|intros n E; discriminate]. Qed.

Lemma quiet_shape c c' res : newnode_shape c c' res -> tree_ok (i_h c) -> (0 < length (i_h c))%nat -> quiet c c' res.
Proof.
  intros [[-> ->]|(k & n & Hp & En & ->)] Ht H0; [apply quiet_refl; exact Ht|].
  destruct (gstep_new c k c' n En Hp Ht) as (G & EK & ED & Ht' & Kn & Pn & _ & Hn & _ & _ & Kne).
  destruct (new_inode_view c k c' n En) as (_ & _ & F1 & F2 & F3 & F4 & _).
  constructor; try assumption.
  - intros j Hj. apply Kne. lia.
  - intros m Em. inversion Em; subst m. split; [exact Pn|]. split; [eapply nkey_kd; eassumption|lia].
Qed.

Lemma autolink_shape url_table email_table re_email_domain s s' res :
  autolink_parse url_table email_table re_email_domain s = Ok (s', res) -> newnode_shape (t_c s) (t_c s') res.
Proof.
  unfold autolink_parse. intros H.
  destruct (b_peek_line (t_r s)) as [[[r1 line] sg]| |]; cbn [bind] in H; try discriminate.
  destruct line as [[|c0 tl]|]; try discriminate.
  match type of H with (let '(stop, email) := ?X in _) = _ => destruct X as [stop email] end.
  destruct (stop <? 0); [inversion H; subst; left; auto|].
  destruct (_ || _); [inversion H; subst; left; auto|].
  cbn [ist_r t_c t_r] in H.
  destruct (new_inode (t_c s) _) as [c1 n] eqn:En.
  destruct (b_advance _ _) as [r2| |]; cbn [bind] in H; try discriminate.
  inversion H; subst s' res. right. do 2 eexists. split; [|split; [exact En|reflexivity]]. unfold plain. cbn. lia.
Qed.

Lemma plain_raw segs : plain (IRawHTML segs).
Proof. unfold plain. cbn. lia. Qed.

Lemma raw_regexp_shape s rx s' res : raw_regexp s rx = Ok (s', res) -> newnode_shape (t_c s) (t_c s') res.
Proof.
  unfold raw_regexp. intros H.
  destruct (rune_input _ _ _) as [inp| |]; cbn [bind] in H; try discriminate.
  destruct (re_find rx inp) as [caps|].
  - destruct (cap_at caps 0) as [[a b]|]; [|discriminate].
    destruct (b_set_position (t_r s) _ _) as [r1| |]; cbn [bind] in H; try discriminate.
    destruct (b_advance r1 _) as [r2| |]; cbn [bind] in H; try discriminate.
    destruct (b_set_position r2 _ _) as [r3| |]; cbn [bind] in H; try discriminate.
    destruct (raw_regexp_lines _ _ _ _ _ _ _) as [[segs r4]| |]; cbn [bind] in H; try discriminate.
    destruct (new_inode (t_c s) (IRawHTML segs)) as [c n] eqn:En.
    inversion H; subst s' res. right. do 2 eexists. split; [apply plain_raw|split; [exact En|reflexivity]].
  - destruct (b_set_position _ _ _) as [r1| |]; cbn [bind] in H; try discriminate.
    inversion H; subst. left. auto.
Qed.

Lemma raw_collect_shape s closer offset s' res : raw_collect s closer offset = Ok (s', res) -> newnode_shape (t_c s) (t_c s') res.
Proof.
  unfold raw_collect. intros H.
  destruct (raw_until _ _ _ _ _) as [[[segs r]|]| |]; cbn [bind] in H; try discriminate.
  - destruct (new_inode (t_c s) (IRawHTML segs)) as [c n] eqn:En.
    inversion H; subst s' res. right. do 2 eexists. split; [apply plain_raw|split; [exact En|reflexivity]].
  - destruct (b_set_position _ _ _) as [r1| |]; cbn [bind] in H; try discriminate.
    inversion H; subst. left. auto.
Qed.

Lemma raw_html_shape re_open_tag re_close_tag s s' res :
  raw_html_parse re_open_tag re_close_tag s = Ok (s', res) -> newnode_shape (t_c s) (t_c s') res.
Proof.
  unfold raw_html_parse. intros H.
  destruct (b_peek_line (t_r s)) as [[[r1 line] sg]| |]; cbn [bind] in H; try discriminate.
  assert (Hs : forall X, newnode_shape (t_c (ist_r s r1)) X res -> newnode_shape (t_c s) X res) by (intros X HX; exact HX).
  destruct (_ && _); [apply Hs; eapply raw_regexp_shape; exact H|].
  destruct (_ && _); [apply Hs; eapply raw_regexp_shape; exact H|].
  destruct (prefix_of open_comment _).
  { destruct (prefix_of empty_comment1 _).
    { cbn [ist_r t_c t_r] in H. destruct (new_inode (t_c s) _) as [c n] eqn:En.
      destruct (b_advance _ _) as [r2| |]; cbn [bind] in H; try discriminate.
      inversion H; subst s' res. right. do 2 eexists. split; [apply plain_raw|split; [exact En|reflexivity]]. }
    destruct (prefix_of empty_comment2 _).
    { cbn [ist_r t_c t_r] in H. destruct (new_inode (t_c s) _) as [c n] eqn:En.
      destruct (b_advance _ _) as [r2| |]; cbn [bind] in H; try discriminate.
      inversion H; subst s' res. right. do 2 eexists. split; [apply plain_raw|split; [exact En|reflexivity]]. }
    apply Hs. eapply raw_collect_shape; exact H. }
  destruct (prefix_of open_pi _); [apply Hs; eapply raw_collect_shape; exact H|].
  destruct (_ && _); [apply Hs; eapply raw_collect_shape; exact H|].
  destruct (prefix_of open_cdata _); [apply Hs; eapply raw_collect_shape; exact H|].
  inversion H; subst. left. auto.
Qed.

(* code spans: a text node, or a code span node with fresh raw text children *)
Lemma code_span_add_g n : forall segs c c',
  (fix add (l : list seg) (c : ictx) : result ictx :=
     match l with
     | [] => Ok c
     | sg :: t => let '(c, x) := new_inode c (IText sg false false true) in
                  h <- i_append (i_h c) n x ;; add t (cx_h c h)
     end) segs c = Ok c' ->
  tree_ok (i_h c) -> (0 < length (i_h c))%nat -> n <> 0%nat ->
  gstep (i_h c) (i_h c') /\ K (i_h c') = K (i_h c) /\ dch (i_h c') = dch (i_h c) /\ tree_ok (i_h c') /\
  i_dfirst c' = i_dfirst c /\ i_dlast c' = i_dlast c /\ i_labels c' = i_labels c /\ i_bottoms c' = i_bottoms c /\
  (forall j, (j < length (i_h c))%nat -> kd (i_h c') j = kd (i_h c) j /\ pr (i_h c') j = pr (i_h c) j).
Proof.
  induction segs as [|sg t IH]; intros c c' H Ht H0 Hn.
  - inversion H; subst. split; [apply gstep_refl|]. repeat (split; [reflexivity|]). split; [exact Ht|]. repeat (split; [reflexivity|]). auto.
  - destruct (new_inode c (IText sg false false true)) as [c1 x] eqn:En.
    destruct (i_append (i_h c1) n x) as [h| |] eqn:Ea; cbn [bind] in H; try discriminate.
    destruct (fresh_append_g c _ n c1 x h Ht (plain_text _ _ _ _) H0 En Ea) as (G & EK & ED & Ht2 & _ & P2 & K2 & Hx).
    destruct (new_inode_view c _ c1 x En) as (_ & _ & F1 & F2 & F3 & F4 & _).
    pose proof (kle_length _ _ (g_kle _ _ G)) as Hlen.
    assert (H0' : (0 < length (i_h (cx_h c1 h)))%nat) by (cbn [i_h cx_h]; lia).
    destruct (IH (cx_h c1 h) c' H Ht2 H0' Hn) as (G' & EK' & ED' & Ht' & F1' & F2' & F3' & F4' & Hold).
    cbn [i_h cx_h i_dfirst i_dlast i_labels i_bottoms] in *.
    split; [eapply gstep_trans; eassumption|]. split; [congruence|]. split; [congruence|]. split; [exact Ht'|].
    split; [congruence|]. split; [congruence|]. split; [congruence|]. split; [congruence|].
    intros j Hj. destruct (Hold j ltac:(lia)) as [A B]. rewrite A, B, K2, P2.
    destruct (Nat.eqb_spec j x); [lia|auto].
Qed.

Lemma code_span_quiet space_table s s' res : code_span_parse_s space_table s = Ok (s', res) ->
  tree_ok (i_h (t_c s)) -> (0 < length (i_h (t_c s)))%nat -> quiet (t_c s) (t_c s') res.
Proof.
  unfold code_span_parse_s. intros H Ht H0.
  destruct (code_span_parse space_table (t_r s)) as [[cres r]| |]; cbn [bind] in H; try discriminate.
  destruct cres as [segs|sg].
  - destruct (new_inode (t_c s) ICodeSpan) as [c1 n] eqn:En.
    match type of H with (_ <- ?X ;; _) = _ => destruct X as [c2| |] eqn:Eadd end; cbn [bind] in H; try discriminate.
    inversion H; subst s' res. clear H. cbn [t_c].
    assert (Hp : plain ICodeSpan) by (unfold plain; cbn; lia).
    destruct (gstep_new _ _ _ _ En Hp Ht) as (G1 & EK1 & ED1 & Ht1 & Kn & Pn & _ & Hn & _ & _ & Kne).
    destruct (new_inode_view _ _ _ _ En) as (_ & L1 & F1 & F2 & F3 & F4 & _).
    destruct (code_span_add_g n segs c1 c2 Eadd Ht1 ltac:(lia) ltac:(lia)) as (G2 & EK2 & ED2 & Ht2 & G1' & G2' & G3' & G4' & Hold).
    constructor; [eapply gstep_trans; eassumption|congruence|congruence|exact Ht2|congruence|congruence|congruence|congruence| |].
    + intros j Hj. destruct (Hold j ltac:(lia)) as [A _]. rewrite A. apply Kne. lia.
    + intros m Em. inversion Em; subst m. destruct (Hold n ltac:(lia)) as [A B]. split; [rewrite B; exact Pn|].
      split; [|lia]. eapply nkey_kd; [rewrite A; exact Kn|exact Hp].
  - destruct (new_inode (t_c s) (mk_text sg)) as [c1 n] eqn:En.
    inversion H; subst s' res. cbn [t_c]. apply quiet_shape; try assumption.
    right. do 2 eexists. split; [apply plain_text|split; [exact En|reflexivity]].
Qed.

Lemma push_delimiter_len c d c' : push_delimiter c d = Ok c' -> length (i_h c') = length (i_h c).
Proof.
  unfold push_delimiter. intros H. destruct (i_dfirst c); [|inversion H; reflexivity].
  destruct (i_dlast c) as [l|]; [|discriminate].
  destruct (dset_next (i_h c) l (Some d)) as [h1| |] eqn:E1; cbn [bind] in H; try discriminate.
  destruct (dset_prev h1 d (Some l)) as [h2| |] eqn:E2; cbn [bind] in H; try discriminate.
  inversion H; subst c'. cbn [i_h cx_h cx_d].
  apply dset_next_step in E1. destruct E1 as (? & ? & _ & S1). apply dset_prev_step in E2. destruct E2 as (? & ? & _ & S2).
  destruct (link_step_view _ _ _ _ _ S1) as (_ & _ & _ & _ & _ & L1 & _).
  destruct (link_step_view _ _ _ _ _ S2) as (_ & _ & _ & _ & _ & L2 & _). congruence.
Qed.

(* moving siblings that are not children of the block node *)
Lemma i_next_at h x p X Y r : tree_ok h -> ch h p = X ++ x :: Y -> i_next h x = Ok r -> r = hd_error Y.
Proof.
  intros Ht Hr H. unfold i_next in H.
  assert (Hp : pr h x = Some p). { apply (t_child h Ht). rewrite Hr, in_app_iff. cbn. auto. }
  destruct (iget h x) as [n| |] eqn:E; cbn [bind] in H; try discriminate.
  apply iget_kd in E. destruct E as (_ & Ep & _). rewrite <- Ep, Hp in H.
  destruct (iget h p) as [pn| |] eqn:E0; cbn [bind] in H; try discriminate.
  apply iget_kd in E0. destruct E0 as (_ & _ & Ec). inversion H. rewrite <- Ec, Hr.
  apply next_in_mid.
  pose proof (t_nodup h Ht p) as ND. rewrite Hr in ND. apply NoDup_remove_2 in ND. rewrite in_app_iff in ND. tauto.
Qed.

Lemma move_children_off : forall fuel h cur stop node h' p, move_children fuel h cur stop node = Ok h' ->
  tree_ok h -> node <> 0%nat -> p <> 0%nat -> pr h 0%nat = None -> (forall x, cur = Some x -> pr h x = Some p) ->
  gstep h h' /\ tree_ok h' /\ rch h' = rch h /\ same_nodes h h'.
Proof.
  induction fuel as [|f IH]; intros h cur stop node h' p H Ht Hn0 Hp0 Hr0 Hcur; cbn [move_children] in H; [discriminate|].
  destruct cur as [x|].
  2:{ inversion H; subst h'. split; [apply gstep_refl|]. split; [exact Ht|]. split; [reflexivity|constructor; reflexivity]. }
  destruct (opt_nat_eqb (Some x) stop).
  { inversion H; subst h'. split; [apply gstep_refl|]. split; [exact Ht|]. split; [reflexivity|constructor; reflexivity]. }
  destruct (i_next h x) as [nx| |] eqn:En; cbn [bind] in H; try discriminate.
  destruct (i_append h node x) as [h1| |] eqn:Ea; cbn [bind] in H; try discriminate.
  pose proof (Hcur x eq_refl) as Hpx. pose proof (t_par h Ht x p Hpx) as Hin.
  destruct (in_split x _ Hin) as (X & Y & Hsp).
  pose proof (i_next_at h x p X Y nx Ht Hsp En) as Hnx. subst nx.
  pose proof (append_ord h node x h1 Ea Ht) as Ho.
  assert (Hx0 : x <> 0%nat) by congruence.
  destruct (gstep_attach _ _ _ _ Ho Ht Hx0) as (G1 & _ & R1); [intros _; split; [congruence|exact Hn0]|].
  assert (Hr1 : rch h1 = rch h).
  { rewrite (R1 Hn0). apply remove_id_notin. apply notin_other_parent; [exact Ht|]. rewrite Hpx. congruence. }
  destruct (IH h1 (hd_error Y) stop node h' p H (ao_tree _ _ _ _ Ho) Hn0 Hp0) as (G2 & Ht2 & R2 & S2).
  { apply (g_root _ _ G1). exact Hr0. }
  { intros y Ey. rewrite (ao_pr _ _ _ _ Ho).
    assert (HyY : In y Y) by (destruct Y; cbn in Ey; inversion Ey; subst; cbn; auto).
    pose proof (t_nodup h Ht p) as ND. rewrite Hsp in ND. apply NoDup_remove_2 in ND. rewrite in_app_iff in ND.
    destruct (Nat.eqb_spec y x) as [->|]; [tauto|]. apply (t_child h Ht). rewrite Hsp, in_app_iff. cbn. auto. }
  split; [eapply gstep_trans; eassumption|]. split; [exact Ht2|]. split; [congruence|].
  destruct (ao_same _ _ _ _ Ho) as [L1 K1]. destruct S2 as [L2 K2]. constructor; [congruence|]. intros j. rewrite K2. apply K1.
Qed.

Lemma image_children_g img link : forall l h h',
  (fix mv (l : list nat) (h : iheap) : result iheap :=
     match l with [] => Ok h | x :: t => h <- i_append h img x ;; mv t h end) l h = Ok h' ->
  tree_ok h -> img <> 0%nat -> link <> 0%nat -> pr h 0%nat = None -> (forall x, In x l -> pr h x = Some link) -> NoDup l ->
  gstep h h' /\ tree_ok h' /\ rch h' = rch h /\ same_nodes h h'.
Proof.
  induction l as [|x t IH]; intros h h' H Ht Hi0 Hl0 Hr0 Hl ND.
  - inversion H; subst h'. split; [apply gstep_refl|]. split; [exact Ht|]. split; [reflexivity|constructor; reflexivity].
  - destruct (i_append h img x) as [h1| |] eqn:Ea; cbn [bind] in H; try discriminate.
    pose proof (Hl x ltac:(cbn; auto)) as Hpx.
    pose proof (append_ord h img x h1 Ea Ht) as Ho.
    assert (Hx0 : x <> 0%nat) by congruence.
    destruct (gstep_attach _ _ _ _ Ho Ht Hx0) as (G1 & _ & R1); [intros _; split; [congruence|exact Hi0]|].
    assert (Hr1 : rch h1 = rch h).
    { rewrite (R1 Hi0). apply remove_id_notin. apply notin_other_parent; [exact Ht|]. rewrite Hpx. congruence. }
    inversion ND as [|? ? Hxt ND']; subst.
    destruct (IH h1 h' H (ao_tree _ _ _ _ Ho) Hi0 Hl0) as (G2 & Ht2 & R2 & S2).
    + apply (g_root _ _ G1). exact Hr0.
    + intros y Hy. rewrite (ao_pr _ _ _ _ Ho). destruct (Nat.eqb_spec y x) as [->|]; [contradiction|]. apply Hl. cbn. auto.
    + exact ND'.
    + split; [eapply gstep_trans; eassumption|]. split; [exact Ht2|]. split; [congruence|].
      destruct (ao_same _ _ _ _ Ho) as [L1 K1]. destruct S2 as [L2 K2]. constructor; [congruence|]. intros j. rewrite K2. apply K1.
Qed.

Section KP.
Variable space_table punct_table : list N.
Variable norm : bytes -> bytes.
Variable url_table email_table : list N.
Variable re_email_domain re_open_tag re_close_tag : re.
Variable punct_rune space_rune : N -> bool.
Variable refs : list (bytes * (bytes * option bytes)).
Variable src : bytes.
Variable lines : list seg.
Hypothesis Hsp32 : is_space space_table 32 = true.
Hypothesis Hsp10 : is_space space_table 10 = true.
Hypothesis Hsrc : bytes_ok src.
Hypothesis Hrefs : refs_ok refs.

Notation RI := (RI src lines).
Notation st_ok := (st_ok src lines).
Notation pstep := (pstep src lines).

(* what is known about the node a parser returns, before it is appended to the block node *)
Definition pend (h : iheap) (L LL : list nat) (res : option nat) : Prop :=
  match res with
  | None => dch h = L
  | Some n => (iskey h n = true -> pr h n = None) /\ n <> 0%nat /\ L = dch h ++ (if isdel h n then [n] else []) /\
              (iskey h n = true -> forall x, In x (K h) -> (x < n)%nat) /\ (islab h n = true -> In n LL)
  end.

Record hinv (c : ictx) (LL : list nat) : Prop := {
  hi_g : ginv (i_h c);
  hi_lc : lchain c LL;
  hi_la : latt (i_h c) LL [];
  hi_b : botinv (i_h c) LL (i_bottoms c)
}.

Definition pstepk (s s' : ist) (res : option nat) : Prop :=
  exists L' LL', st_ok s' L' /\ kle (i_h (t_c s)) (i_h (t_c s')) /\ res_ok s' L' res /\
                 hinv (t_c s') LL' /\ pend (i_h (t_c s')) L' LL' res.

Lemma hinv_gstep c c' LL : hinv c LL -> gstep (i_h c) (i_h c') -> i_labels c' = i_labels c -> i_bottoms c' = i_bottoms c ->
  hinv c' LL.
Proof.
  intros [A B C D] G Hl Hb. constructor.
  - eapply ginv_gstep; eassumption.
  - eapply lchain_gstep; eassumption.
  - eapply latt_gstep; eassumption.
  - rewrite Hb. eapply botinv_kle; [exact D|exact (g_kle _ _ G)].
Qed.

Lemma dl_isdel E c L d : dl_ok E c L -> In d L -> isdel (i_h c) d = true.
Proof. intros H Hd. apply isdel_dlk. eapply dseg_in; [exact (dl_chain _ _ _ H)|exact Hd]. Qed.

Lemma quiet_pstepk s s' res L LL : st_ok s L -> hinv (t_c s) LL -> dch (i_h (t_c s)) = L ->
  quiet (t_c s) (t_c s') res -> pstep s s' res -> pstepk s s' res.
Proof.
  intros [[Hh Hd] Hr] Hi HS Q (L' & [[Hh' Hd'] Hr'] & Hk & Hres).
  assert (EL : L' = L).
  { eapply dl_unique; [exact Hd|exact Hd'|exact (q_f _ _ _ Q)|]. intros d Hin. apply dlk_kd. apply (q_kd _ _ _ Q).
    apply (dl_valid _ _ _ _ Hd). exact Hin. }
  subst L'. exists L, LL. split; [split; [split|]; assumption|]. split; [exact Hk|]. split; [exact Hres|].
  split; [eapply hinv_gstep; [exact Hi|exact (q_g _ _ _ Q)|exact (q_lab _ _ _ Q)|exact (q_b _ _ _ Q)]|].
  destruct res as [n|]; cbn [pend].
  - destruct (q_res _ _ _ Q n eq_refl) as (Pn & Nk & N0). pose proof (nkey_iskey _ _ Nk) as Hk'.
    assert (Hdn : isdel (i_h (t_c s')) n = false) by (unfold iskey in Hk'; apply orb_false_iff in Hk'; tauto).
    assert (Hln : islab (i_h (t_c s')) n = false) by (unfold iskey in Hk'; apply orb_false_iff in Hk'; tauto).
    rewrite Hdn, Hk', Hln, app_nil_r, (q_d _ _ _ Q). repeat split; auto; discriminate.
  - rewrite (q_d _ _ _ Q). exact HS.
Qed.

Lemma K_valid h x : tree_ok h -> In x (K h) -> (x < length h)%nat.
Proof. intros Ht Hin. apply filter_In in Hin. apply (rch_valid h x Ht). tauto. Qed.

Lemma lchain_kd_frame c c' LL : lchain c LL -> i_labels c' = i_labels c ->
  (forall x, islab (i_h c) x = true -> kd (i_h c') x = kd (i_h c) x) -> lchain c' LL.
Proof.
  intros Hc Hl Hk. eapply lchain_frame; [exact Hc|exact Hl|]. intros x Hx. apply Hk. eapply lchain_islab; eassumption.
Qed.

(* ---------- emphasis ---------- *)
Lemma emphasis_parse_k s s' res L LL : st_ok s L -> hinv (t_c s) LL -> dch (i_h (t_c s)) = L ->
  emphasis_parse punct_rune space_rune s = Ok (s', res) -> pstepk s s' res.
Proof.
  unfold emphasis_parse. intros [Hc Hr] Hi HS H.
  destruct (b_preceding (t_r s)) as [before| |]; cbn [bind] in H; try discriminate.
  destruct (b_peek_line (t_r s)) as [[[r1 line] sg]| |] eqn:Ep; cbn [bind] in H; try discriminate.
  destruct (ri_peek _ _ _ _ _ _ Hr Ep) as (-> & -> & Hline).
  destruct (scan_delimiter _ _ _ _ _ _) as [d| |] eqn:Es; cbn [bind] in H; try discriminate.
  destruct d as [[[[co cc] len] chh]|].
  2:{ inversion H; subst s' res. exists L, LL. split; [split; assumption|]. split; [apply kle_refl|]. split; [intros n E; discriminate|].
      split; [exact Hi|exact HS]. }
  apply scan_delimiter_in_range in Es. destruct Es as (Hlen & _ & _).
  destruct line as [l|]; cbn [line_of] in Hlen; [|change (zlen (@nil N)) with 0 in Hlen; lia].
  destruct Hline as (Hin & Hv & Hl & Hs0 & Hs1 & Hs2 & _).
  cbn [ist_r t_c t_r] in H.
  destruct (new_inode (t_c s) _) as [c1 n] eqn:En.
  destruct (b_advance (t_r s) len) as [r2| |] eqn:Ea; cbn [bind] in H; try discriminate.
  destruct (push_delimiter c1 n) as [c2| |] eqn:Epd; cbn [bind] in H; try discriminate.
  inversion H; subst s' res. clear H.
  assert (Hko : kind_ok src (IDelim (seg_with_stop (b_pos (t_r s)) (s_start (b_pos (t_r s)) + len)) co cc len len chh None None)).
  { cbn. split; [|split; [lia|reflexivity]]. apply seg_in_intro; cbn [seg_with_stop mksegp s_start s_stop s_pad]; try lia.
    rewrite (ri_pad _ _ _ Hr). lia. }
  destruct (ctx_new src _ _ _ _ _ _ En Hko Hc) as (Hc1 & Hk1 & _ & Kn & _ & _ & HnL & _).
  destruct (push_delimiter_ok src _ _ _ _ _ len Epd Hc1) as (Hc2 & Hk2 & Fl2 & Fb2 & P2 & C2 & Kd2).
  { unfold dlk. rewrite Kn. reflexivity. }
  { exact HnL. }
  { unfold dlen. rewrite Kn. reflexivity. }
  { lia. }
  (* the new facts *)
  pose proof (h_tree _ _ (proj1 Hc)) as Ht. destruct Hi as [Hg Hlc Hla Hb].
  destruct (new_node_g _ _ _ _ En ltac:(cbn; lia) Ht Hg) as (Hg1 & Ht1 & _ & _ & EK1 & ED1 & _ & Pn & Hn & _ & _ & Kne & Hlat1).
  destruct (new_inode_view _ _ _ _ En) as (_ & L1 & _ & _ & F3 & F4 & _).
  assert (Hlab2 : forall x, islab (i_h c1) x = true -> kd (i_h c2) x = kd (i_h c1) x).
  { intros x Hx. apply Kd2. apply islab_dlk. exact Hx. }
  destruct (gstep_same_tree _ _ Hk2 (push_delimiter_len _ _ _ Epd) P2 C2 Ht1 Hlab2) as (G2 & EK2 & ED2).
  assert (Hdn : isdel (i_h c2) n = true).
  { destruct (Hk2 n _ Kn) as (k' & Ek' & Ck'). unfold isdel, kcls. rewrite Ek', Ck'. reflexivity. }
  pose proof (ginv_pos _ Hg) as H0.
  exists (L ++ [n]), LL. split; [split; [exact Hc2|]|].
  { cbn [t_r]. eapply ri_advance_in; [exact Hr|exact Hin| |exact Ea]. lia. }
  split; [eapply kle_trans; eassumption|]. split; [intros m Em; inversion Em; subst m; right; rewrite in_app_iff; cbn; auto|].
  cbn [t_c]. split.
  - constructor.
    + eapply ginv_gstep; eassumption.
    + eapply lchain_kd_frame; [eapply lchain_kd_frame; [exact Hlc|exact F3|]|exact Fl2|exact Hlab2].
      intros x Hx. apply Kne. apply islab_valid in Hx. lia.
    + eapply latt_gstep; [apply Hlat1; exact Hla|exact G2].
    + rewrite Fb2, F4. eapply botinv_kle; [exact Hb|eapply kle_trans; eassumption].
  - cbn [pend]. rewrite Hdn. split; [intros _; rewrite P2; exact Pn|]. split; [lia|]. split; [rewrite ED2, ED1, HS; reflexivity|]. split.
    + intros _ x Hx. rewrite EK2, EK1 in Hx. apply (K_valid _ _ Ht) in Hx. lia.
    + unfold islab. unfold isdel in Hdn. apply Nat.eqb_eq in Hdn. rewrite Hdn. discriminate.
Qed.

(* ---------- links: the label-failure exit ---------- *)
Lemma latt_drop h LL x : latt h LL [x] -> pr h x = None -> latt h LL [].
Proof. intros H Hp y Hy Hpy. destruct (H y Hy Hpy) as [Hin|[<-|[]]]; [left; exact Hin|contradiction]. Qed.

Lemma islab_not_dch h x : islab h x = true -> ~ In x (dch h).
Proof.
  intros Hl Hin. apply filter_In in Hin. destruct Hin as [_ Hd]. unfold islab, isdel in *.
  apply Nat.eqb_eq in Hl. apply Nat.eqb_eq in Hd. congruence.
Qed.

Lemma label_fail_k s last s' res L LL0 :
  ctx_ok src [] (t_c s) L -> ginv (i_h (t_c s)) -> dch (i_h (t_c s)) = L -> lchain (t_c s) LL0 ->
  latt (i_h (t_c s)) LL0 [last] -> botinv (i_h (t_c s)) (LL0 ++ [last]) (i_bottoms (t_c s)) ->
  label_fail s last = Ok (s', res) ->
  ctx_ok src [] (t_c s') L /\ kle (i_h (t_c s)) (i_h (t_c s')) /\ hinv (t_c s') LL0 /\ dch (i_h (t_c s')) = L /\
  t_r s' = t_r s /\ res = None.
Proof.
  unfold label_fail. intros Hc Hg HS Hlc Hla Hb H.
  destruct (lget (i_h (t_c s)) last) as [[[[[[sg im] p] nx] fs] ls]| |] eqn:El; cbn [bind] in H; try discriminate.
  apply lget_view in El.
  assert (Hlab : islab (i_h (t_c s)) last = true) by (unfold islab, kcls; rewrite El; reflexivity).
  destruct (iget (i_h (t_c s)) last) as [n| |] eqn:Eg; cbn [bind] in H; try discriminate.
  apply iget_kd in Eg. destruct Eg as (_ & Epn & _).
  destruct (ipar n) as [par|] eqn:Epar; [|discriminate].
  destruct (merge_or_replace (t_c s) par last sg) as [c1| |] eqn:Em; cbn [bind] in H; try discriminate.
  destruct (pop_bottom c1) as [c2 b] eqn:Epb. inversion H; subst s' res. cbn [t_c t_r ist_c].
  pose proof (h_tree _ _ (proj1 Hc)) as Ht.
  destruct (nstep_neutral src _ _ (fun Hh => proj1 (merge_or_replace_ok src _ _ _ _ _ Em Hh (h_kind _ _ Hh last _ El))) [] L Hc) as [Hc1 Hk1].
  destruct (merge_or_replace_g _ _ _ _ _ Em Ht Epn) as (G1 & Ht1 & Pd & Cj & Cp & _ & _ & _ & F3 & F4).
  destruct (splice_K _ _ last par Ht G1 Epn Cj Cp) as [_ ED].
  destruct (botinv_last _ _ _ _ Hb) as (bs0 & b0 & Ebs & Hb0 & _).
  rewrite (pop_bottom_snoc c1 bs0 b0) in Epb by congruence. inversion Epb; subst c2 b.
  destruct (pop_bottom_nstep src c1 [] L Hc1) as [Hc2 _]. rewrite (pop_bottom_snoc c1 bs0 b0) in Hc2 by congruence. cbn [fst] in Hc2.
  split; [exact Hc2|]. cbn [i_h cx_bottoms]. split; [exact Hk1|]. split; [|split; [|auto]].
  - constructor; cbn [i_h cx_bottoms i_bottoms].
    + eapply ginv_gstep; eassumption.
    + eapply lchain_frame; [eapply lchain_gstep; [exact Hlc|exact F3|exact G1]|reflexivity|reflexivity].
    + eapply latt_drop; [eapply latt_gstep; eassumption|exact Pd].
    + eapply botinv_kle; [exact Hb0|exact Hk1].
  - rewrite ED, HS. apply remove_id_notin. rewrite <- HS. apply islab_not_dch. exact Hlab.
Qed.

(* ---------- links: opening a label ---------- *)
Lemma open_label_k cc L LL start stop im c1 st c2 : ctx_ok src [] cc L -> hinv cc LL -> dch (i_h cc) = L ->
  new_inode (push_bottom cc) (ILabel (mkseg start stop) im None None None None) = (c1, st) -> push_label c1 st = Ok c2 ->
  hinv c2 (LL ++ [st]) /\ pend (i_h c2) L (LL ++ [st]) (Some st).
Proof.
  intros Hc [Hg Hlc Hla Hb] HS En Ep. pose proof (h_tree _ _ (proj1 Hc)) as Ht.
  destruct (new_node_g _ _ _ _ En ltac:(cbn; lia) Ht Hg) as (Hg1 & Ht1 & Hk1 & _ & EK1 & ED1 & Kn & Pn & Hn & _ & P1 & Kne & Hlat1).
  cbn [i_h push_bottom cx_bottoms] in *.
  destruct (new_inode_view _ _ _ _ En) as (_ & _ & _ & _ & F3 & F4 & _). cbn [push_bottom cx_bottoms i_labels i_bottoms] in F3, F4.
  assert (Hlc1 : lchain c1 LL).
  { eapply lchain_frame; [exact Hlc|exact F3|]. intros x Hx. apply Kne. apply (lchain_islab _ _ _ Hlc) in Hx. apply islab_valid in Hx. lia. }
  assert (HstL : ~ In st LL).
  { intros Hin. apply (lchain_islab _ _ _ Hlc) in Hin. apply islab_valid in Hin. lia. }
  destruct (push_label_k c1 st c2 LL Ep Hlc1) as (Hlc2 & S2 & G1 & G2 & G4).
  { unfold lpn. rewrite Kn. reflexivity. }
  { exact HstL. }
  destruct (lstep_gfacts _ _ S2 Ht1) as (Ht2 & EK2 & ED2 & Hcls2).
  pose proof (ginv_pos _ Hg) as H0.
  split.
  - constructor.
    + eapply ginv_lstep; eassumption.
    + exact Hlc2.
    + eapply latt_weaken; [eapply latt_lstep; [apply Hlat1; exact Hla|exact S2|exact Ht1]|]. intros x [Hx|[]]. left. rewrite in_app_iff. auto.
    + rewrite G4, F4. apply botinv_snoc.
      * eapply botinv_kle; [exact Hb|]. eapply kle_trans; [exact Hk1|exact (ls_kle _ _ S2)].
      * intros x Ex. destruct Hc as [_ Hd]. rewrite (dl_last _ _ _ Hd) in Ex. apply lst_of_in in Ex. destruct Ex as [Ex|Ex]; [discriminate|].
        split; [apply (dl_valid _ _ _ _ Hd) in Ex; lia|].
        rewrite (isdel_kle _ _ x (kle_trans _ _ _ Hk1 (ls_kle _ _ S2))); [eapply dl_isdel; eassumption|apply (dl_valid _ _ _ _ Hd); exact Ex].
  - assert (Hls : islab (i_h c2) st = true). { unfold islab. rewrite Hcls2. unfold kcls. rewrite Kn. reflexivity. }
    assert (Hds : isdel (i_h c2) st = false). { unfold isdel. unfold islab in Hls. apply Nat.eqb_eq in Hls. rewrite Hls. reflexivity. }
    cbn [pend]. rewrite Hds, app_nil_r. split; [intros _; rewrite (ls_pr _ _ S2); exact Pn|]. split; [lia|].
    split; [rewrite ED2, ED1; symmetry; exact HS|]. split.
    + intros _ x Hx. rewrite EK2, EK1 in Hx. apply (K_valid _ _ Ht) in Hx. lia.
    + intros _. rewrite in_app_iff. cbn. auto.
Qed.


(* ---------- links: processLinkLabel ---------- *)
Lemma process_link_label_k s link last s' L LL0 :
  ctx_ok src [] (t_c s) L -> pok (i_h (t_c s)) link -> link <> 0%nat ->
  ginv (i_h (t_c s)) -> dch (i_h (t_c s)) = L -> lchain (t_c s) LL0 -> latt (i_h (t_c s)) LL0 [last] ->
  botinv (i_h (t_c s)) (LL0 ++ [last]) (i_bottoms (t_c s)) -> islab (i_h (t_c s)) last = true ->
  process_link_label s link last = Ok s' ->
  exists L', ctx_ok src [] (t_c s') L' /\ kle (i_h (t_c s)) (i_h (t_c s')) /\ t_r s' = t_r s /\
    ginv (i_h (t_c s')) /\ dch (i_h (t_c s')) = L' /\ lchain (t_c s') LL0 /\ latt (i_h (t_c s')) LL0 [last] /\
    botinv (i_h (t_c s')) LL0 (i_bottoms (t_c s')).
Proof.
  unfold process_link_label. intros Hc Hl Hl0 Hg HS Hlc Hla Hb Hlab H.
  destruct (botinv_last _ _ _ _ Hb) as (bs0 & b0 & Ebs & Hb0 & Hbl).
  rewrite (pop_bottom_snoc (t_c s) bs0 b0 Ebs) in H.
  set (c0 := cx_bottoms (t_c s) bs0) in *.
  assert (Hc0 : ctx_ok src [] c0 L).
  { destruct Hc as [Hh Hd]. split; [exact Hh|]. eapply dl_fields; [exact Hd|reflexivity|reflexivity|reflexivity]. }
  destruct (process_delimiters (ifuel s) c0 (BPtr b0)) as [c1| |] eqn:Ep; cbn [bind] in H; try discriminate.
  destruct (process_delimiters_k src _ _ _ _ _ Ep Hc0 HS (gi_incr _ Hg) (gi_rootp _ Hg)) as (L1 & Hc1 & HS1 & G1 & Fl1 & Fb1 & Hbel).
  { intros b1 Eb1. inversion Eb1; subst b0. apply (Hbl b1 eq_refl). }
  cbn [i_h cx_bottoms] in G1. subst c0. cbn [i_labels i_bottoms cx_bottoms] in Fl1, Fb1.
  destruct (i_next (i_h c1) last) as [nx| |] eqn:En; cbn [bind] in H; try discriminate.
  destruct (move_children _ _ _ _ _) as [h| |] eqn:Em; cbn [bind] in H; try discriminate.
  inversion H; subst s'. cbn [t_c t_r ist_c i_h cx_h i_bottoms]. clear H.
  pose proof (g_kle _ _ G1) as Hk1.
  destruct (move_children_ok src _ _ _ _ _ _ Em (proj1 Hc1)) as (Hh2 & K2 & Hn2 & _).
  { intros x ->. apply i_next_in in En. destruct En as (p & _ & Hin). exists p. exact Hin. }
  { destruct (pok_kle _ _ _ Hk1 Hl) as (k & E & C). rewrite E. intros E'. inversion E'; subst k. cbn in C. congruence. }
  pose proof (h_tree _ _ (proj1 Hc1)) as Ht1.
  pose proof (ginv_gstep _ _ Hg G1) as Hg1.
  assert (Hlab1 : islab (i_h c1) last = true).
  { unfold islab. rewrite (kle_kcls _ _ last Hk1 (islab_valid _ _ Hlab)). exact Hlab. }
  (* the move does not concern the delimiter children of the block node *)
  assert (Hmv : gstep (i_h c1) h /\ dch h = dch (i_h c1)).
  { destruct (pr (i_h c1) last) as [p|] eqn:Epl.
    - destruct (Nat.eq_dec p 0) as [->|Hp0].
      + pose proof (t_par _ Ht1 last 0%nat Epl) as Hin. destruct (in_split last _ Hin) as (X & T & Hsp). fold (rch (i_h c1)) in Hsp.
        pose proof (i_next_root _ _ _ _ _ Ht1 Hsp En) as Hnx. subst nx.
        destruct (move_children_k _ _ T (X ++ [last]) 0%nat None link h Em Ht1) as (G2 & Ht2 & S2 & C2p & _).
        { fold (rch (i_h c1)). rewrite Hsp, <- app_assoc. reflexivity. }
        { auto. }
        { exact Hl0. }
        { exact (gi_rootp _ Hg1). }
        split; [exact G2|].
        destruct (tk_none T) as [_ Edr]. rewrite Edr, app_nil_r in C2p.
        assert (HT : forall d, In d T -> isdel (i_h c1) d = false).
        { intros d Hd. destruct (isdel (i_h c1) d) eqn:Ed; [|reflexivity]. exfalso.
          assert (HdL : In d L1). { rewrite <- HS1. unfold dch. apply filter_In. split; [rewrite Hsp, in_app_iff; cbn; auto|exact Ed]. }
          destruct (Hbel d HdL) as (b1 & Eb1 & Hle). inversion Eb1; subst b0. destruct (Hbl b1 eq_refl) as [Hlt _].
          pose proof (gi_incr _ Hg1) as Hi. unfold K in Hi. rewrite Hsp, filter_app in Hi. cbn [filter] in Hi.
          assert (Hkl : iskey (i_h c1) last = true) by (unfold iskey; rewrite Hlab1; apply orb_true_r). rewrite Hkl in Hi.
          assert (Hlt' : (last < d)%nat).
          { eapply incr_app_lt; [exact Hi|]. apply filter_In. split; [exact Hd|]. unfold iskey. rewrite Ed. reflexivity. }
          lia. }
        unfold dch, rch. rewrite C2p. fold (rch (i_h c1)). rewrite Hsp.
        assert (Hsame : forall x, isdel h x = isdel (i_h c1) x) by (intros x; unfold isdel; rewrite (same_kcls _ _ x (sn_kd _ _ S2)); reflexivity).
        rewrite (filter_ext_in _ _ _ (fun x _ => Hsame x)). rewrite !filter_app. cbn [filter].
        rewrite (filter_all_false _ T HT). destruct (isdel (i_h c1) last); reflexivity.
      + destruct (move_children_off _ _ _ _ _ _ p Em Ht1 Hl0 Hp0 (gi_rootp _ Hg1)) as (G2 & Ht2 & R2 & S2).
        { intros x ->. apply i_next_in in En. destruct En as (p' & Hp' & Hin). rewrite Epl in Hp'. inversion Hp'; subst p'.
          apply (t_child _ Ht1). exact Hin. }
        split; [exact G2|]. apply (K_same _ _ Ht1 (g_kle _ _ G2) R2).
    - assert (nx = None).
      { unfold i_next in En. destruct (iget (i_h c1) last) as [n| |] eqn:E; cbn [bind] in En; try discriminate.
        apply iget_kd in E. destruct E as (_ & Ep' & _). rewrite <- Ep', Epl in En. inversion En. reflexivity. }
      subst nx. cbn in Em. inversion Em; subst h. split; [apply gstep_refl|reflexivity]. }
  destruct Hmv as [G2 ED2].
  exists L1. split; [eapply ctx_neutral; eassumption|]. split; [eapply kle_trans; [exact Hk1|apply kle_same; exact K2]|].
  split; [reflexivity|]. split; [eapply ginv_gstep; eassumption|]. split; [congruence|].
  assert (G : gstep (i_h (t_c s)) h) by (eapply gstep_trans; eassumption).
  split; [|split].
  - eapply lchain_frame; [eapply (lchain_gstep (t_c s) (cx_h c1 h)); [exact Hlc|exact Fl1|exact G]|reflexivity|reflexivity].
  - eapply latt_gstep; eassumption.
  - rewrite Fb1. eapply botinv_kle; [exact Hb0|exact (g_kle _ _ G)].
Qed.


(* ---------- linkParser.Parse ---------- *)
Lemma pend_nkey h L LL n : nkey h n -> n <> 0%nat -> dch h = L -> pend h L LL (Some n).
Proof.
  intros Nk N0 HS. pose proof (nkey_iskey _ _ Nk) as Hk. unfold iskey in Hk. apply orb_false_iff in Hk. destruct Hk as [Hd Hl].
  cbn [pend]. unfold iskey. rewrite Hd, Hl, app_nil_r. cbn. repeat split; auto; discriminate.
Qed.

Lemma nkey_dlk h n : nkey h n -> dlk h n = None.
Proof.
  intros (_ & H8 & _). destruct (dlk h n) eqn:E; [|reflexivity]. exfalso. apply H8.
  assert (Hd : isdel h n = true) by (apply isdel_dlk; congruence). unfold isdel in Hd. apply Nat.eqb_eq in Hd. exact Hd.
Qed.

Lemma link_parse_k s parent s' res L LL : st_ok s L -> hinv (t_c s) LL -> dch (i_h (t_c s)) = L ->
  link_parse space_table punct_table norm refs s parent = Ok (s', res) -> pstepk s s' res.
Proof.
  unfold link_parse. intros [Hc Hr] Hi HS H.
  destruct (b_peek_line (t_r s)) as [[[r1 line] segment]| |] eqn:Ep; cbn [bind] in H; try discriminate.
  destruct (ri_peek _ _ _ _ _ _ Hr Ep) as (-> & -> & Hline).
  destruct line as [[|c0 rest]|]; try discriminate.
  destruct Hline as (Hin & Hv & Hl & Hp0 & Hp1 & Hp2 & _).
  rewrite zlen_cons in Hl. pose proof (zlen_nonneg rest) as Hrest0.
  pose proof (ri_rest_ge _ _ _ Hr Hin) as Hrest.
  assert (Hnone : pstepk s (ist_r s (t_r s)) None).
  { exists L, LL. split; [split; assumption|]. split; [apply kle_refl|]. split; [intros n E; discriminate|]. split; [exact Hi|exact HS]. }
  cbn [ist_r ist_c t_c t_r] in H.
  assert (Hopen : forall r3 c1' st c2 start stop im, RI r3 -> 0 <= start <= stop -> stop <= zlen src ->
            new_inode (push_bottom (t_c s)) (ILabel (mkseg start stop) im None None None None) = (c1', st) ->
            push_label c1' st = Ok c2 -> pstepk s {| t_c := c2; t_r := r3 |} (Some st)).
  { intros r3 c1' st c2 start stop im Hr3 Hs1 Hs2 En Epl.
    destruct (open_label_ok space_table norm src Hsp32 Hsp10 _ L _ _ _ _ _ _ (push_bottom_ok src _ _ Hc) En Epl Hs1 Hs2) as (Hc2 & Hk2 & Hnd).
    destruct (open_label_k _ _ _ _ _ _ _ _ _ Hc Hi HS En Epl) as [Hi2 Hpe].
    exists L, (LL ++ [st]). split; [split; assumption|]. split; [exact Hk2|]. split; [|split; assumption].
    intros n E. inversion E; subst n. left. apply ndelim_dlk. exact Hnd. }
  destruct (N.eqb c0 33).
  { destruct rest as [|c1 rest']; [inversion H; subst; exact Hnone|].
    destruct (N.eqb c1 91); [|inversion H; subst; exact Hnone].
    rewrite zlen_cons in Hl. pose proof (zlen_nonneg rest').
    destruct (b_advance (t_r s) 1) as [r2| |] eqn:Ea; cbn [bind] in H; try discriminate.
    destruct (ri_advance src lines (t_r s) 1 r2 Hr) as (Hr2 & Hrest2 & _); [lia|exact Ea|].
    cbn [t_c t_r] in H.
    destruct (new_inode _ _) as [c1' st] eqn:En.
    destruct (push_label c1' st) as [c2| |] eqn:Epl; cbn [bind] in H; try discriminate.
    destruct (b_advance r2 1) as [r3| |] eqn:Ea3; cbn [bind] in H; try discriminate.
    inversion H; subst s' res. clear H.
    destruct (ri_advance src lines r2 1 r3 Hr2) as (Hr3 & _); [rewrite Hrest2; unfold zlen in *; rewrite skipn_length; lia|exact Ea3|].
    eapply Hopen; [exact Hr3| | |exact En|exact Epl]; lia. }
  destruct (N.eqb c0 91).
  { destruct (new_inode _ _) as [c1' st] eqn:En.
    destruct (push_label c1' st) as [c2| |] eqn:Epl; cbn [bind] in H; try discriminate.
    destruct (b_advance (t_r s) 1) as [r3| |] eqn:Ea3; cbn [bind] in H; try discriminate.
    inversion H; subst s' res. clear H.
    destruct (ri_advance1 _ _ _ _ Hr Hin Ea3) as [Hr3 _].
    eapply Hopen; [exact Hr3| | |exact En|exact Epl]; lia. }
  (* ']' *)
  destruct Hi as [Hg Hlc Hla Hb].
  destruct (i_labels (t_c s)) as [tlist|] eqn:Etl; [|inversion H; subst; exact Hnone].
  destruct (lget (i_h (t_c s)) tlist) as [[[[[[a1 a2] a3] a4] a5] tl_last]| |] eqn:Elg; cbn [bind] in H; try discriminate.
  (* the last label state *)
  assert (HLL : exists LL0 last, LL = LL0 ++ [last] /\ tl_last = Some last).
  { destruct (lget_lab _ _ _ _ _ _ _ _ Elg) as [_ Hll].
    pose proof (lc_head _ _ Hlc) as Hh. rewrite Etl in Hh. symmetry in Hh.
    rewrite (lc_last _ _ Hlc tlist Hh) in Hll. inversion Hll as [Hll'].
    assert (Hne : LL <> []) by (intros ->; cbn in Hh; discriminate).
    destruct (lst_of_some LL None Hne) as [l Hl']. destruct (lst_of_snoc LL None l Hl' Hne) as [LL0 ->].
    exists LL0, l. split; [reflexivity|]. congruence. }
  destruct HLL as (LL0 & last & -> & ->).
  destruct (b_advance (t_r s) 1) as [r| |] eqn:Ea; cbn [bind] in H; try discriminate.
  destruct (ri_advance1 _ _ _ _ Hr Hin Ea) as [Hr1 _].
  destruct (remove_label (t_c s) last) as [c| |] eqn:Erl; cbn [bind] in H; try discriminate.
  pose proof (h_tree _ _ (proj1 Hc)) as Ht.
  destruct (remove_label_nstep src _ _ _ Erl [] L Hc) as [Hcc Hkc].
  destruct (remove_label_last_k _ _ _ _ Erl Hlc) as (Hlcc & Sc & Fc1 & Fc2 & Fc4).
  destruct (lstep_gfacts _ _ Sc Ht) as (Htc & EKc & EDc & Hclsc).
  pose proof (ginv_lstep _ _ Hg Sc Ht) as Hgc.
  assert (HSc : dch (i_h c) = L) by congruence.
  assert (Hlac : latt (i_h c) LL0 [last]).
  { eapply latt_weaken; [eapply latt_lstep; eassumption|]. intros x [Hx|[]]. rewrite in_app_iff in Hx. cbn in Hx. cbn. tauto. }
  assert (Hbc : botinv (i_h c) (LL0 ++ [last]) (i_bottoms c)) by (rewrite Fc4; eapply botinv_kle; eassumption).
  assert (Hlabc : islab (i_h c) last = true).
  { unfold islab. rewrite Hclsc. apply (lchain_islab _ _ _ Hlc). rewrite in_app_iff. cbn. auto. }
  assert (Hfail : forall sx s2 res2, t_c sx = c -> RI (t_r sx) -> label_fail sx last = Ok (s2, res2) -> pstepk s s2 res2).
  { intros sx s2 res2 Ec Hrx Hf. rewrite <- Ec in Hcc, Hgc, HSc, Hlcc, Hlac, Hbc, Hkc.
    destruct (label_fail_k _ _ _ _ _ _ Hcc Hgc HSc Hlcc Hlac Hbc Hf) as (Hc2 & Hk2 & Hi2 & HS2 & Er2 & ->).
    exists L, LL0. split; [split; [exact Hc2|rewrite Er2; exact Hrx]|]. split; [eapply kle_trans; eassumption|].
    split; [intros n E; discriminate|]. split; [exact Hi2|exact HS2]. }
  destruct (label_length (i_h c) tlist) as [len| |]; cbn [bind] in H; try discriminate.
  set (s1 := ist_c (ist_r (ist_r s (t_r s)) r) c) in *.
  destruct (998 <? len); [eapply (Hfail s1); [reflexivity|exact Hr1|exact H]|].
  destruct (lget (i_h c) last) as [[[[[[lsg is_image] b3] b4] b5] b6]| |]; cbn [bind] in H; try discriminate.
  destruct (iget (i_h c) last) as [ln| |]; cbn [bind] in H; try discriminate.
  destruct (match ipar ln with Some p3 => Ok p3 | None => Panic end) as [lpar| |]; cbn [bind] in H; try discriminate.
  destruct (iget (i_h c) lpar) as [lparn| |]; cbn [bind] in H; try discriminate.
  match type of H with (_ <- ?X ;; _) = _ => destruct X as [has_link| |] end; cbn [bind] in H; try discriminate.
  destruct has_link; [eapply (Hfail s1); [reflexivity|exact Hr1|exact H]|].
  destruct (b_peek r) as [pk| |] eqn:Epk; cbn [bind] in H; try discriminate.
  match type of H with (_ <- ?X ;; _) = _ => destruct X as [o3| |] eqn:Eo end; cbn [bind] in H; try discriminate.
  (* the outcome of the (...) / [...] part *)
  assert (Ho : match o3 with
               | inl sx => t_c sx = c /\ RI (t_r sx)
               | inr (sx, lres) => (t_c sx = c /\ RI (t_r sx)) /\ link_data_ok lres
               end).
  { destruct (N.eqb pk 40) eqn:E40.
    - apply N.eqb_eq in E40. subst pk.
      assert (Hin1 : b_in_range r = true) by (eapply ri_peek_in; [exact Hr1|exact Epk|discriminate]).
      destruct (parse_link space_table punct_table r) as [[r0 lres]| |] eqn:Epl; cbn [bind] in Eo; try discriminate.
      inversion Eo; subst o3. destruct (parse_link_ri _ _ _ _ Hsrc _ _ _ Hr1 Hin1 Epl) as [Hr0 Hd].
      split; [split; [reflexivity|exact Hr0]|exact Hd].
    - destruct (N.eqb pk 91) eqn:E91.
      + apply N.eqb_eq in E91. subst pk.
        assert (Hin1 : b_in_range r = true) by (eapply ri_peek_in; [exact Hr1|exact Epk|discriminate]).
        destruct (parse_reference_link _ _ _ _ s1 last) as [[[r0 lres] hv]| |] eqn:Epl; cbn [bind] in Eo; try discriminate.
        destruct (parse_reference_link_ri _ _ _ _ _ _ Hrefs s1 last _ _ _ Hr1 Hin1 Epl) as [Hr0 Hd].
        destruct lres as [dt|]; [|destruct hv]; inversion Eo; subst o3.
        * split; [split; [reflexivity|exact Hr0]|exact Hd].
        * split; [reflexivity|exact Hr0].
        * split; [split; [reflexivity|exact Hr0]|exact Hd].
      + inversion Eo; subst o3. split; [split; [reflexivity|exact Hr1]|]. intros d t E; discriminate. }
  destruct o3 as [sx|[sx lres]]; [destruct Ho as [Ecx Hrx]; eapply (Hfail sx); eassumption|].
  destruct Ho as ([Ecx Hrx] & Hdx).
  match type of H with (_ <- ?X ;; _) = _ => destruct X as [fin| |] eqn:Efin end; cbn [bind] in H; try discriminate.
  assert (Hf : match fin with
               | inl sy => t_c sy = c /\ RI (t_r sy)
               | inr (sy, (dest, title)) => (t_c sy = c /\ RI (t_r sy)) /\ bytes_ok dest /\ (forall x, title = Some x -> bytes_ok x)
               end).
  { destruct lres as [[dest title]|].
    - inversion Efin; subst fin. destruct (Hdx dest title eq_refl) as [Hd1 Hd2]. split; [split; assumption|]. auto.
    - destruct (b_set_position (t_r sx) (b_line r) (b_pos r)) as [r0| |] eqn:Esp; cbn [bind] in Efin; try discriminate.
      destruct (ri_set_position _ _ _ _ _ Hrx Hr1 Esp) as (Hr0 & _).
      destruct (b_value r0 _) as [v| |]; cbn [bind] in Efin; try discriminate.
      destruct (999 <? zlen v); [inversion Efin; subst fin; split; [exact Ecx|exact Hr0]|].
      destruct (lookup_ref norm refs v) as [[d t]|] eqn:Elk; inversion Efin; subst fin.
      + destruct (lookup_ref_ok _ _ Hrefs _ _ _ Elk) as [Hd1 Hd2]. split; [split; [exact Ecx|exact Hr0]|]. auto.
      + split; [exact Ecx|exact Hr0]. }
  destruct fin as [sy|[sy [dest title]]]; [destruct Hf as [Ecy Hry]; eapply (Hfail sy); eassumption|].
  destruct Hf as ([Ecy Hry] & Hdest & Htitle).
  destruct (new_inode (t_c sy) (ILink dest title)) as [c3 link] eqn:En.
  destruct (process_link_label (ist_c sy c3) link last) as [s4| |] eqn:Epl; cbn [bind] in H; try discriminate.
  destruct (iget (i_h (t_c s4)) last) as [ln0| |] eqn:Eg0; cbn [bind] in H; try discriminate.
  destruct (match ipar ln0 with Some p6 => Ok p6 | None => Panic end) as [lpar0| |] eqn:Elp0; cbn [bind] in H; try discriminate.
  destruct (i_remove (i_h (t_c s4)) lpar0 last) as [h5| |] eqn:Erm; cbn [bind] in H; try discriminate.
  (* assemble *)
  rewrite Ecy in En.
  destruct (ctx_new src _ _ _ _ _ _ En (conj Hdest Htitle) Hcc) as (Hc3 & Hk3 & _ & Klink & _).
  assert (Hplk : plain (ILink dest title)) by (unfold plain; cbn; lia).
  destruct (gstep_new _ _ _ _ En Hplk Htc) as (G3 & _ & ED3 & Ht3 & _ & _ & _ & Hlk & _ & _ & _).
  destruct (new_inode_view _ _ _ _ En) as (_ & _ & _ & _ & F33 & F34 & _).
  assert (Hpl : pok (i_h c3) link). { exists (ILink dest title). split; [exact Klink|cbn; lia]. }
  pose proof (ginv_pos _ Hgc) as H0c.
  assert (Hl0 : link <> 0%nat) by lia.
  destruct (process_link_label_k (ist_c sy c3) link last s4 L LL0 Hc3 Hpl Hl0) as (L4 & Hc4 & Hk4 & Er4 & Hg4 & HS4 & Hlc4 & Hla4 & Hb4);
    cbn [ist_c t_c]; try assumption.
  { eapply ginv_gstep; eassumption. }
  { congruence. }
  { eapply lchain_gstep; eassumption. }
  { eapply latt_gstep; eassumption. }
  { rewrite F34. eapply botinv_kle; [exact Hbc|exact Hk3]. }
  { unfold islab. rewrite (kle_kcls _ _ last Hk3 (islab_valid _ _ Hlabc)). exact Hlabc. }
  cbn [ist_c t_c t_r] in Hk4, Er4.
  pose proof (h_tree _ _ (proj1 Hc4)) as Ht4.
  assert (Hpl0 : pr (i_h (t_c s4)) last = Some lpar0).
  { apply iget_kd in Eg0. destruct Eg0 as (_ & Ep0 & _). rewrite Ep0. destruct (ipar ln0); inversion Elp0; reflexivity. }
  destruct (gstep_remove _ _ _ _ Erm Ht4 Hpl0) as (G5 & Ht5 & S5 & _ & ED5 & _ & P5).
  assert (Hc5 : ctx_ok src [] (cx_h (t_c s4) h5) L4 /\ kle (i_h (t_c s4)) h5).
  { destruct (i_remove_spec _ _ _ _ Erm Ht4) as [[_ Hdet]|[_ ->]].
    - eapply ctx_detach; eassumption.
    - split; [|apply kle_refl]. destruct (cx_h_id src (t_c s4) [] L4 Hc4) as [X _]. exact X. }
  destruct Hc5 as [Hc5 Hk5].
  assert (Hk05 : kle (i_h (t_c s)) h5).
  { eapply kle_trans; [exact Hkc|]. eapply kle_trans; [exact Hk3|]. eapply kle_trans; [exact Hk4|exact Hk5]. }
  assert (Hlink5 : pok h5 link). { eapply pok_kle; [|exact Hpl]. eapply kle_trans; eassumption. }
  assert (Hlab4 : islab (i_h (t_c s4)) last = true).
  { pose proof (kle_trans _ _ _ Hk3 Hk4) as Hk34. unfold islab. rewrite (kle_kcls _ _ last Hk34 (islab_valid _ _ Hlabc)). exact Hlabc. }
  assert (HS5 : dch h5 = L4).
  { rewrite ED5, HS4. apply remove_id_notin. rewrite <- HS4. apply islab_not_dch. exact Hlab4. }
  assert (Hi5 : hinv (cx_h (t_c s4) h5) LL0).
  { constructor; cbn [i_h cx_h i_bottoms].
    - eapply ginv_gstep; eassumption.
    - eapply lchain_gstep; [exact Hlc4|reflexivity|exact G5].
    - eapply latt_drop; [eapply latt_gstep; eassumption|]. rewrite P5, Nat.eqb_refl. reflexivity.
    - eapply botinv_kle; [exact Hb4|exact Hk5]. }
  assert (Nk5 : nkey h5 link).
  { destruct Hlink5 as (k & Ek & Ck). destruct (Hk4 link _ Klink) as (k4 & Ek4 & Ck4). destruct (Hk5 link _ Ek4) as (k5 & Ek5 & Ck5).
    cbn [i_h cx_h] in *. unfold nkey, kcls. rewrite Ek5, Ck5, Ck4. cbn. lia. }
  destruct is_image.
  - destruct (new_inode (cx_h (t_c s4) h5) (IImage dest title)) as [c6 img] eqn:En6.
    destruct (iget (i_h c6) link) as [lk| |] eqn:Elk; cbn [bind] in H; try discriminate.
    match type of H with (_ <- ?X ;; _) = _ => destruct X as [h7| |] eqn:Emv end; cbn [bind] in H; try discriminate.
    inversion H; subst s' res. clear H. unfold pstepk, ParseInlineRangeParsers.st_ok. cbn [ist_c t_c t_r].
    destruct (ctx_new src _ _ _ _ _ _ En6 (conj Hdest Htitle) Hc5) as (Hc6 & Hk6 & _ & Kimg & _).
    assert (Hpli : plain (IImage dest title)) by (unfold plain; cbn; lia).
    destruct (gstep_new _ _ _ _ En6 Hpli Ht5) as (G6 & _ & ED6 & Ht6 & _ & _ & _ & Himg & _ & _ & _). cbn [i_h cx_h] in G6, ED6, Himg.
    destruct (new_inode_view _ _ _ _ En6) as (_ & _ & _ & _ & F63 & F64 & _). cbn [cx_h i_labels i_bottoms] in F63, F64.
    apply iget_kd in Elk. destruct Elk as (_ & _ & Echl).
    destruct (image_children_ok src img (ich lk) (i_h c6) h7 [] c6 L4 Hc6 eq_refl Emv) as [Hc7 Hk7].
    { exists (IImage dest title). split; [exact Kimg|cbn; lia]. }
    { intros x Hx. exists link. rewrite Echl. exact Hx. }
    assert (Hg6 : ginv (i_h c6)) by (eapply ginv_gstep; [exact (hi_g _ _ Hi5)|exact G6]).
    assert (Hi0 : img <> 0%nat). { pose proof (kle_length _ _ Hk05). pose proof (ginv_pos _ Hg). lia. }
    destruct (image_children_g img link (ich lk) (i_h c6) h7 Emv Ht6 Hi0 Hl0 (gi_rootp _ Hg6)) as (G7 & Ht7 & R7 & S7).
    { intros x Hx. apply (t_child _ Ht6). rewrite Echl. exact Hx. }
    { rewrite <- Echl. apply (t_nodup _ Ht6). }
    assert (G57 : gstep h5 h7) by (eapply gstep_trans; eassumption).
    exists L4, LL0. split; [split; [exact Hc7|rewrite Er4; exact Hry]|]. cbn [cx_h i_h].
    split; [eapply kle_trans; [exact Hk05|]; eapply kle_trans; eassumption|].
    assert (Nk7 : nkey h7 img). { eapply nkey_kd; [rewrite (sn_kd _ _ S7); exact Kimg|exact Hpli]. }
    split; [intros n E; inversion E; subst n; left; apply nkey_dlk; exact Nk7|].
    split.
    + eapply (hinv_gstep (cx_h (t_c s4) h5)); [exact Hi5|exact G57|cbn [cx_h i_labels]; exact F63|cbn [cx_h i_bottoms]; exact F64].
    + apply pend_nkey; [exact Nk7|exact Hi0|]. destruct (K_same _ _ Ht6 (g_kle _ _ G7) R7) as [_ ->]. congruence.
  - inversion H; subst s' res. clear H. unfold pstepk, ParseInlineRangeParsers.st_ok. cbn [ist_c t_c t_r cx_h i_h].
    exists L4, LL0. split; [split; [exact Hc5|rewrite Er4; exact Hry]|]. split; [exact Hk05|].
    split; [intros n E; inversion E; subst n; left; apply nkey_dlk; exact Nk5|].
    split; [exact Hi5|]. apply pend_nkey; assumption.
Qed.


(* ---------- the parser table, try_inline ---------- *)
Notation IP := (ip_parse space_table punct_table norm url_table email_table re_email_domain re_open_tag re_close_tag
                  punct_rune space_rune refs).
Notation TRY := (try_inline space_table punct_table norm url_table email_table re_email_domain re_open_tag re_close_tag
                  punct_rune space_rune refs).
Notation SCAN := (scan_line space_table punct_table norm url_table email_table re_email_domain re_open_tag re_close_tag
                  punct_rune space_rune refs).
Notation LOOP := (parse_block_loop space_table punct_table norm url_table email_table re_email_domain re_open_tag re_close_tag
                  punct_rune space_rune refs).

Lemma ip_parse_k p s parent s' res L LL : st_ok s L -> hinv (t_c s) LL -> dch (i_h (t_c s)) = L ->
  IP p s parent = Ok (s', res) -> pstepk s s' res.
Proof.
  intros Hs Hi HS H. pose proof (h_tree _ _ (proj1 (proj1 Hs))) as Ht. pose proof (ginv_pos _ (hi_g _ _ Hi)) as H0.
  destruct p; cbn [ip_parse] in H.
  - eapply quiet_pstepk; try eassumption; [eapply code_span_quiet; eassumption|].
    eapply (code_span_parse_s_ok space_table norm punct_rune space_rune src lines Hsp32 Hsp10); eassumption.
  - eapply link_parse_k; eassumption.
  - eapply quiet_pstepk; try eassumption; [apply quiet_shape; [eapply autolink_shape; exact H|exact Ht|exact H0]|].
    eapply (autolink_parse_ok space_table norm url_table email_table re_email_domain punct_rune space_rune src lines Hsp32 Hsp10); eassumption.
  - eapply quiet_pstepk; try eassumption; [apply quiet_shape; [eapply raw_html_shape; exact H|exact Ht|exact H0]|].
    eapply (raw_html_parse_ok space_table norm re_open_tag re_close_tag punct_rune space_rune src lines Hsp32 Hsp10); eassumption.
  - eapply emphasis_parse_k; eassumption.
Qed.

Lemma try_inline_k r0 : RI r0 -> forall ips s parent s' res L LL, st_ok s L -> hinv (t_c s) LL -> dch (i_h (t_c s)) = L ->
  b_line (t_r s) = b_line r0 -> b_pos (t_r s) = b_pos r0 ->
  TRY ips s parent (b_line r0) (b_pos r0) = Ok (s', res) ->
  pstepk s s' res /\ (res = None -> b_line (t_r s') = b_line r0 /\ b_pos (t_r s') = b_pos r0).
Proof.
  intros H0. induction ips as [|p rest IH]; intros s parent s' res L LL Hs Hi HS El Epos H; cbn [try_inline] in H.
  - inversion H; subst s' res. split; [|auto]. exists L, LL. split; [exact Hs|]. split; [apply kle_refl|]. split; [intros n E; discriminate|].
    split; [exact Hi|exact HS].
  - destruct (IP p s parent) as [[s1 n]| |] eqn:Ep; cbn [bind] in H; try discriminate.
    destruct (ip_parse_k _ _ _ _ _ _ _ Hs Hi HS Ep) as (L1 & LL1 & Hs1 & Hk1 & Hres1 & Hi1 & Hpe1).
    destruct n as [n|].
    + inversion H; subst s' res. split; [|discriminate]. exists L1, LL1. auto.
    + destruct (b_set_position (t_r s1) (b_line r0) (b_pos r0)) as [r2| |] eqn:Es; cbn [bind] in H; try discriminate.
      destruct (ri_set_position _ _ _ _ _ (proj2 Hs1) H0 Es) as (Hr2 & Hl2 & Hp2).
      destruct (IH (ist_r s1 r2) parent s' res L1 LL1) as [(L2 & LL2 & Hs2 & Hk2 & Hres2 & Hi2 & Hpe2) Hpos]; try assumption.
      { split; [exact (proj1 Hs1)|exact Hr2]. }
      split; [|exact Hpos]. exists L2, LL2. split; [exact Hs2|]. split; [eapply kle_trans; eassumption|]. auto.
Qed.

(* the node returned by a parser becomes the last child of the block node *)
Lemma append_result_k c L LL nd h' : i_append (i_h c) 0%nat nd = Ok h' -> tree_ok (i_h c) -> hinv c LL ->
  pend (i_h c) L LL (Some nd) -> hinv (cx_h c h') LL /\ dch h' = L.
Proof.
  intros Ea Ht Hi (Hpn & Hn0 & HL & Hlt & Hll).
  destruct (iskey (i_h c) nd) eqn:Ek.
  - specialize (Hpn eq_refl). specialize (Hlt eq_refl).
    destruct (append_pending _ _ _ Ea Ht Hpn) as (Ht' & S & R & P).
    pose proof (same_nodes_kle _ _ S) as Hk.
    assert (Hcls : forall x, kcls h' x = kcls (i_h c) x) by (intros x; apply same_kcls; apply (sn_kd _ _ S)).
    assert (EK : K h' = K (i_h c) ++ [nd]).
    { unfold K. rewrite R, filter_snoc.
      assert (Hk' : iskey h' nd = true) by (unfold iskey, isdel, islab in *; rewrite Hcls; exact Ek). rewrite Hk'.
      f_equal. apply filter_ext_in. intros x _. unfold iskey, isdel, islab. rewrite Hcls. reflexivity. }
    assert (ED : dch h' = dch (i_h c) ++ (if isdel (i_h c) nd then [nd] else [])).
    { unfold dch. rewrite R, filter_snoc. unfold isdel at 2. rewrite Hcls. fold (isdel (i_h c) nd).
      f_equal. apply filter_ext_in. intros x _. unfold isdel. rewrite Hcls. reflexivity. }
    destruct Hi as [[R0 R1 Rp Hin] Hlc Hla Hb]. split; [|congruence].
    constructor; cbn [i_h cx_h i_bottoms].
    + constructor.
      * rewrite Hcls. exact R0.
      * intros x Hx. apply R1. rewrite <- Hcls. exact Hx.
      * rewrite P. destruct (Nat.eqb_spec 0 nd); [congruence|exact Rp].
      * rewrite EK. apply incr_snoc; assumption.
    + eapply lchain_frame; [exact Hlc|reflexivity|]. intros x _. apply (sn_kd _ _ S).
    + intros x Hx Hp. rewrite P in Hp. unfold islab in Hx. rewrite Hcls in Hx. fold (islab (i_h c) x) in Hx.
      destruct (Nat.eqb_spec x nd) as [->|]; [left; apply Hll; exact Hx|apply Hla; assumption].
    + eapply botinv_kle; eassumption.
  - pose proof (append_ord _ _ _ _ Ea Ht) as Ho.
    destruct (gstep_attach _ _ _ _ Ho Ht Hn0) as (G & EK & _); [rewrite Ek; discriminate|].
    destruct (EK Ek) as [_ ED].
    assert (Hd : isdel (i_h c) nd = false) by (unfold iskey in Ek; apply orb_false_iff in Ek; tauto).
    rewrite Hd, app_nil_r in HL. split; [|congruence].
    eapply (hinv_gstep c (cx_h c h')); [exact Hi|exact G|reflexivity|reflexivity].
Qed.

Lemma pok_root h : ginv h -> pok h 0%nat.
Proof.
  intros [R _ _ _]. unfold kcls in R. destruct (kd h 0%nat) as [k|] eqn:E; [|discriminate]. exists k. split; [exact E|lia].
Qed.

(* ---------- scan_line ---------- *)
Lemma scan_line_k : forall fuel line i line_length n escaped start_pos s out l0 L LL,
  SCAN fuel line i line_length n escaped start_pos s 0%nat = Ok out ->
  st_ok s L -> hinv (t_c s) LL -> dch (i_h (t_c s)) = L -> scan_inv lines line l0 i n start_pos s ->
  match out with
  | inl (s', _) => exists L' LL', st_ok s' L' /\ kle (i_h (t_c s)) (i_h (t_c s')) /\ hinv (t_c s') LL' /\ dch (i_h (t_c s')) = L'
  | inr (s', n', sp') => exists L' LL' i', st_ok s' L' /\ kle (i_h (t_c s)) (i_h (t_c s')) /\ scan_inv lines line l0 i' n' sp' s' /\
                                           hinv (t_c s') LL' /\ dch (i_h (t_c s')) = L'
  end.
Proof.
  induction fuel as [|f IH]; intros line i line_length n escaped start_pos s out l0 L LL H Hs Hi HS Hinv;
    cbn [scan_line] in H; [discriminate|].
  assert (Hstop : exists L' LL' i', st_ok s L' /\ kle (i_h (t_c s)) (i_h (t_c s)) /\ scan_inv lines line l0 i' n start_pos s /\
                                     hinv (t_c s) LL' /\ dch (i_h (t_c s)) = L').
  { exists L, LL, i. split; [exact Hs|]. split; [apply kle_refl|]. auto. }
  destruct (line_length <=? i); [inversion H; subst out; exact Hstop|].
  destruct (zskip i line) as [|c tl] eqn:Ez; [inversion H; subst out; exact Hstop|].
  destruct (N.eqb c 10); [inversion H; subst out; exact Hstop|].
  assert (Hi' : i < zlen line).
  { pose proof (zlen_zskip i line) as Hz. rewrite Ez, zlen_cons in Hz. pose proof (zlen_nonneg tl). destruct Hinv. lia. }
  match type of H with (_ <- ?X ;; _) = _ => destruct X as [r| |] eqn:Er end; cbn [bind] in H; try discriminate.
  (* the consultation of the inline parsers *)
  assert (Hr : match r with
               | inl s' => exists L' LL', st_ok s' L' /\ kle (i_h (t_c s)) (i_h (t_c s')) /\ hinv (t_c s') LL' /\ dch (i_h (t_c s')) = L'
               | inr (s', n', sp') => exists L' LL', st_ok s' L' /\ kle (i_h (t_c s)) (i_h (t_c s')) /\ scan_inv lines line l0 i n' sp' s' /\
                                                     hinv (t_c s') LL' /\ dch (i_h (t_c s')) = L'
               end).
  { match type of Er with match ?IPS with [] => _ | _ => _ end = _ => destruct IPS as [|ip0 ips0] eqn:Eips end.
    { inversion Er; subst r. exists L, LL. split; [exact Hs|]. split; [apply kle_refl|]. auto. }
    destruct Hs as [Hc Hrd]. destruct Hinv as [I1 I2 I3 I4 I5 I6 I7].
    destruct (b_advance (t_r s) n) as [rd| |] eqn:Ea; cbn [bind] in Er; try discriminate.
    assert (Hfast : b_line rd = b_line (t_r s) /\ s_start (b_pos rd) = s_start (b_pos (t_r s)) + n /\
                    s_stop (b_pos rd) = s_stop (b_pos (t_r s))).
    { eapply ri_advance_fast; [exact Hrd| |exact Ea]. lia. }
    destruct Hfast as (Fl & Fs & Fe).
    assert (Hin : b_in_range (t_r s) = true) by (apply (ri_in_range_intro space_table norm src lines Hsp32 Hsp10); [exact Hrd|lia|lia]).
    destruct (ri_advance_in src lines (t_r s) n rd Hrd Hin) as [Hrd1 _]; [lia|exact Ea|].
    cbn [ist_r t_c t_r] in Er.
    (* flushing the pending text *)
    match type of Er with (_ <- ?X ;; _) = _ => destruct X as [[s1 sp1]| |] eqn:Et end; cbn [bind] in Er; try discriminate.
    assert (Ht : exists L1, st_ok s1 L1 /\ kle (i_h (t_c s)) (i_h (t_c s1)) /\ t_r s1 = rd /\
                 0 <= s_start sp1 <= s_start (b_pos rd) /\ s_pad sp1 = 0 /\ hinv (t_c s1) LL /\ dch (i_h (t_c s1)) = L1).
    { destruct (negb (i =? 0)).
      - destruct (seg_between start_pos (b_pos rd)) as [bt| |] eqn:Eb; cbn [bind] in Et; try discriminate.
        destruct (merge_or_append (t_c s) 0%nat bt) as [c'| |] eqn:Em; cbn [bind] in Et; try discriminate.
        inversion Et; subst s1 sp1. clear Et.
        assert (Hbt : seg_in src bt = true).
        { unfold seg_between in Eb. destruct (s_stop start_pos =? s_stop (b_pos rd)); [|discriminate Eb]. inversion Eb; subst bt.
          pose proof (ri_bounds _ _ _ Hrd1). apply seg_in_intro; cbn [mksegp s_start s_stop s_pad]; try lia.
          rewrite I7, (ri_pad _ _ _ Hrd1). lia. }
        destruct (nstep_neutral src _ _ (fun Hh => merge_or_append_ok src _ _ _ _ Em Hh Hbt) [] L Hc) as [Hc' Hk'].
        destruct (merge_or_append_g _ _ _ _ Em (h_tree _ _ (proj1 Hc))) as (G & _ & ED & _ & _ & _ & F3 & F4).
        exists L. split; [split; [exact Hc'|exact Hrd1]|]. split; [exact Hk'|]. split; [reflexivity|].
        split; [pose proof (ri_bounds _ _ _ Hrd1); lia|]. split; [exact (ri_pad _ _ _ Hrd1)|]. cbn [ist_c t_c].
        split; [eapply hinv_gstep; eassumption|congruence].
      - inversion Et; subst s1 sp1. exists L. split; [split; [exact Hc|exact Hrd1]|]. split; [apply kle_refl|].
        split; [reflexivity|]. split; [lia|]. split; [exact I7|]. auto. }
    destruct Ht as (L1 & Hs1 & Hk1 & Er1 & Hsp1 & Hpad1 & Hi1 & HS1).
    destruct (TRY (ip0 :: ips0) s1 0%nat (b_line rd) (b_pos rd)) as [[s2 node]| |] eqn:Etry; cbn [bind] in Er; try discriminate.
    destruct (try_inline_k rd Hrd1 _ _ _ _ _ L1 LL Hs1 Hi1 HS1 ltac:(rewrite Er1; reflexivity) ltac:(rewrite Er1; reflexivity) Etry)
      as [(L2 & LL2 & Hs2 & Hk2 & Hres2 & Hi2 & Hpe2) Hpos2].
    destruct node as [nd|].
    - destruct (i_append (i_h (t_c s2)) 0%nat nd) as [h| |] eqn:Eap; cbn [bind] in Er; try discriminate.
      inversion Er; subst r. clear Er. destruct Hs2 as [Hc2 Hr2].
      pose proof (i_append_spec _ _ _ _ Eap (h_tree _ _ (proj1 Hc2))) as Hat.
      assert (Hpar2 : pok (i_h (t_c s2)) 0%nat) by (apply pok_root; exact (hi_g _ _ Hi2)).
      destruct (ctx_attach src _ _ _ _ _ _ Hc2 Hat (pok_edge _ _ _ Hpar2)) as [Hc3 Hk3].
      { destruct (Hres2 nd eq_refl) as [Hn|Hn]; [left; exact Hn|right; left; exact Hn]. }
      destruct (append_result_k _ _ _ _ _ Eap (h_tree _ _ (proj1 Hc2)) Hi2 Hpe2) as [Hi3 HS3].
      exists L2, LL2. split; [split; [exact Hc3|exact Hr2]|]. cbn [ist_c t_c cx_h i_h].
      split; [eapply kle_trans; [exact Hk1|]; eapply kle_trans; [exact Hk2|exact Hk3]|]. split; [exact Hi3|exact HS3].
    - inversion Er; subst r. clear Er. destruct (Hpos2 eq_refl) as [Pl Pp].
      exists L2, LL2. split; [exact Hs2|]. split; [eapply kle_trans; eassumption|]. split; [|split; [exact Hi2|exact Hpe2]].
      constructor; rewrite ?Pl, ?Pp; try lia; try exact Hpad1. }
  destruct r as [s1|[[s1 n1] sp1]].
  - inversion H; subst out. exact Hr.
  - destruct Hr as (L1 & LL1 & Hs1 & Hk1 & Hinv1 & Hi1 & HS1).
    assert (Hnext : forall esc, SCAN f line (i + 1) line_length (n1 + 1) esc sp1 s1 0%nat = Ok out ->
             match out with
             | inl (s', _) => exists L' LL', st_ok s' L' /\ kle (i_h (t_c s)) (i_h (t_c s')) /\ hinv (t_c s') LL' /\ dch (i_h (t_c s')) = L'
             | inr (s', n', sp') => exists L' LL' i', st_ok s' L' /\ kle (i_h (t_c s)) (i_h (t_c s')) /\ scan_inv lines line l0 i' n' sp' s' /\
                                                      hinv (t_c s') LL' /\ dch (i_h (t_c s')) = L'
             end).
    { intros esc Hsc.
      assert (Hi1' : scan_inv lines line l0 (i + 1) (n1 + 1) sp1 s1).
      { destruct Hinv1 as [I1 I2 I3 I4 I5 I6 I7]. constructor; try lia; assumption. }
      pose proof (IH line (i + 1) line_length (n1 + 1) esc sp1 s1 out l0 L1 LL1 Hsc Hs1 Hi1 HS1 Hi1') as IHr.
      destruct out as [[s' e']|[[s' n'] sp']].
      - destruct IHr as (L' & LL' & Hs' & Hk' & Hx). exists L', LL'. split; [exact Hs'|]. split; [eapply kle_trans; eassumption|exact Hx].
      - destruct IHr as (L' & LL' & i' & Hs' & Hk' & Hx). exists L', LL', i'. split; [exact Hs'|]. split; [eapply kle_trans; eassumption|exact Hx]. }
    destruct escaped; [apply Hnext in H; exact H|]. destruct (N.eqb c 92); apply Hnext in H; exact H.
Qed.


(* ---------- parseBlock: the loop over the lines ---------- *)
Lemma parse_block_loop_k : forall fuel s escaped s' L LL, LOOP fuel s 0%nat escaped = Ok s' ->
  st_ok s L -> hinv (t_c s) LL -> dch (i_h (t_c s)) = L ->
  exists L' LL', st_ok s' L' /\ kle (i_h (t_c s)) (i_h (t_c s')) /\ hinv (t_c s') LL' /\ dch (i_h (t_c s')) = L'.
Proof.
  induction fuel as [|f IH]; intros s escaped s' L LL H Hs Hi HS; cbn [parse_block_loop] in H; [discriminate|].
  destruct Hs as [Hc Hr].
  destruct (b_peek_line (t_r s)) as [[[r1 line] sg]| |] eqn:Ep; cbn [bind] in H; try discriminate.
  destruct (ri_peek _ _ _ _ _ _ Hr Ep) as (-> & -> & Hline).
  destruct line as [line|].
  2:{ inversion H; subst s'. exists L, LL. split; [split; assumption|]. split; [apply kle_refl|]. auto. }
  destruct Hline as (Hin & Hv & Hl & Hp0 & Hp1 & Hp2 & Hlt).
  match type of H with context [match ?X with pair _ _ => _ end] =>
    match type of X with (Z * bool * bool * bool)%type => destruct X as [[[line_length hard] visible] soft] end end.
  cbn [ist_r t_c t_r] in H.
  destruct (SCAN (S (length line)) line 0 line_length 0 escaped (b_pos (t_r s)) (ist_r s (t_r s)) 0%nat) as [out| |] eqn:Esc;
    cbn [bind] in H; try discriminate.
  assert (Hinv0 : scan_inv lines line (b_line (t_r s)) 0 0 (b_pos (t_r s)) (ist_r s (t_r s))).
  { pose proof (zlen_nonneg line). constructor; cbn [ist_r t_r]; try lia; try reflexivity. exact (ri_pad _ _ _ Hr). }
  pose proof (scan_line_k _ _ _ _ _ _ _ _ _ _ L LL Esc (conj Hc Hr) Hi HS Hinv0) as Hout.
  destruct out as [[s1 esc]|[[s1 n] sp]].
  - destruct Hout as (L1 & LL1 & Hs1 & Hk1 & Hi1 & HS1). cbn [ist_r t_c] in Hk1.
    destruct (IH _ _ _ L1 LL1 H Hs1 Hi1 HS1) as (L2 & LL2 & Hs2 & Hk2 & Hx).
    exists L2, LL2. split; [exact Hs2|]. split; [eapply kle_trans; eassumption|exact Hx].
  - destruct Hout as (L1 & LL1 & i' & [Hc1 Hr1] & Hk1 & [I1 I2 I3 I4 I5 I6 I7] & Hi1 & HS1). cbn [ist_r t_c] in Hk1.
    assert (Hpar1 : pok (i_h (t_c s1)) 0%nat) by (apply pok_root; exact (hi_g _ _ Hi1)).
    match type of H with (_ <- ?X ;; _) = _ => destruct X as [r2| |] eqn:Ea end; cbn [bind] in H; try discriminate.
    assert (Hr2 : RI r2 /\ pos_le (t_r s1) r2).
    { destruct (negb (n =? 0)) eqn:En.
      - apply negb_true_iff, Z.eqb_neq in En.
        assert (Hin1 : b_in_range (t_r s1) = true) by (apply (ri_in_range_intro space_table norm src lines Hsp32 Hsp10); [exact Hr1|lia|lia]).
        eapply ri_advance_in; [exact Hr1|exact Hin1| |exact Ea]. lia.
      - inversion Ea; subst r2. split; [exact Hr1|apply pos_le_refl]. }
    destruct Hr2 as [Hr2 Hpos2]. cbn [ist_r t_c t_r] in H.
    destruct (negb (b_line (t_r s) =? b_line r2)) eqn:Eline.
    { destruct (IH _ _ _ L1 LL1 H) as (L2 & LL2 & Hs2 & Hk2 & Hx); [split; [exact Hc1|exact Hr2]|exact Hi1|exact HS1|].
      exists L2, LL2. split; [exact Hs2|]. split; [eapply kle_trans; eassumption|exact Hx]. }
    apply negb_false_iff, Z.eqb_eq in Eline.
    destruct (seg_between sp (b_pos r2)) as [diff| |] eqn:Eb; cbn [bind] in H; try discriminate.
    assert (Hdiff : seg_in src diff = true).
    { unfold seg_between in Eb. destruct (s_stop sp =? s_stop (b_pos r2)); [|discriminate Eb]. inversion Eb; subst diff.
      destruct Hpos2 as [_ Hp2']. destruct (Hp2' ltac:(lia)) as [Hle _].
      pose proof (ri_bounds _ _ _ Hr2). apply seg_in_intro; cbn [mksegp s_start s_stop s_pad]; try lia.
      rewrite I7, (ri_pad _ _ _ Hr2). lia. }
    match type of H with (_ <- ?X ;; _) = _ => destruct X as [[c2 tseg]| |] eqn:Et end; cbn [bind] in H; try discriminate.
    assert (Ht : ctx_ok src [] c2 L1 /\ kle (i_h (t_c s1)) (i_h c2) /\ seg_in src tseg = true /\ hinv c2 LL1 /\ dch (i_h c2) = L1).
    { assert (Hsame : forall tg, seg_in src tg = true -> ctx_ok src [] (t_c s1) L1 /\ kle (i_h (t_c s1)) (i_h (t_c s1)) /\ seg_in src tg = true /\
                        hinv (t_c s1) LL1 /\ dch (i_h (t_c s1)) = L1).
      { intros tg Htg. split; [exact Hc1|]. split; [apply kle_refl|]. auto. }
      destruct (hard && visible); [inversion Et; subst c2 tseg; apply Hsame; exact Hdiff|].
      rewrite (ri_src _ _ _ Hr2) in Et.
      destruct (seg_trim_right_space space_table src diff) as [trimmed| |] eqn:Etr; cbn [bind] in Et; try discriminate.
      pose proof (trim_right_in space_table norm src Hsp32 Hsp10 _ _ Hdiff Etr) as Htrim.
      destruct (seg_is_empty trimmed); [|inversion Et; subst c2 tseg; apply Hsame; exact Htrim].
      destruct (iget (i_h (t_c s1)) 0%nat) as [pn| |]; cbn [bind] in Et; try discriminate.
      destruct (last_id (ich pn)) as [lst|]; [|inversion Et; subst c2 tseg; apply Hsame; exact Htrim].
      destruct (iget (i_h (t_c s1)) lst) as [ln| |] eqn:Eg; cbn [bind] in Et; try discriminate.
      apply iget_kd in Eg. destruct Eg as (Ekl & _).
      destruct (ik ln) as [|ts sf hd raw| | | | | | | |]; try (inversion Et; subst c2 tseg; apply Hsame; exact Htrim).
      destruct (_ && _ && _ && _); [|inversion Et; subst c2 tseg; apply Hsame; exact Htrim].
      destruct (seg_trim_right_space space_table src ts) as [ts'| |] eqn:Ets; cbn [bind] in Et; try discriminate.
      destruct (iupd (i_h (t_c s1)) lst _) as [h| |] eqn:Eu; cbn [bind] in Et; try discriminate.
      inversion Et; subst c2 tseg. clear Et.
      pose proof (iupd_kind_step _ _ _ _ Eu) as Hst.
      pose proof (h_kind _ _ (proj1 Hc1) lst _ Ekl) as Hko. cbn in Hko.
      destruct (ctx_kind src _ _ _ _ _ _ _ Hc1 Hst Ekl eq_refl) as [Hc2 Hk2]; [cbn; lia|cbn; eapply (trim_right_in space_table norm src Hsp32 Hsp10); eassumption|].
      destruct (kind_gstep _ _ _ _ _ Hst Ekl eq_refl ltac:(cbn; lia) (h_tree _ _ (proj1 Hc1))) as (G & _ & ED & _).
      split; [exact Hc2|]. split; [exact Hk2|]. split; [exact Htrim|]. cbn [i_h cx_h].
      split; [eapply (hinv_gstep (t_c s1) (cx_h (t_c s1) h)); [exact Hi1|exact G|reflexivity|reflexivity]|congruence]. }
    destruct Ht as (Hc2 & Hk2 & Htseg & Hi2 & HS2).
    destruct (new_inode c2 (IText tseg soft hard false)) as [c3 tx] eqn:En.
    destruct (i_append (i_h c3) 0%nat tx) as [h4| |] eqn:Eap; cbn [bind] in H; try discriminate.
    destruct (b_advance_line r2) as [r3| |] eqn:Eal; cbn [bind] in H; try discriminate.
    destruct (ctx_new src _ _ _ _ _ _ En Htseg Hc2) as (Hc3 & Hk3 & _ & Kx & _).
    pose proof (i_append_spec _ _ _ _ Eap (h_tree _ _ (proj1 Hc3))) as Hat.
    destruct (ctx_attach src _ _ _ _ _ _ Hc3 Hat) as [Hc4 Hk4].
    { eapply text_edge. exact Kx. }
    { left. eapply kd_dlk_none; [exact Kx|cbn; lia]. }
    destruct (fresh_append_g c2 _ 0%nat c3 tx h4 (h_tree _ _ (proj1 Hc2)) (plain_text _ _ _ _) (ginv_pos _ (hi_g _ _ Hi2)) En Eap)
      as (G4 & _ & ED4 & _).
    destruct (new_inode_view _ _ _ _ En) as (_ & _ & _ & _ & F3 & F4 & _).
    destruct (ri_advance_line _ _ _ _ Hr2 Eal) as (Hr3 & _).
    assert (Hk04 : kle (i_h (t_c s)) h4).
    { eapply kle_trans; [exact Hk1|]. eapply kle_trans; [exact Hk2|]. eapply kle_trans; [exact Hk3|exact Hk4]. }
    destruct (IH {| t_c := cx_h c3 h4; t_r := r3 |} false s' L1 LL1 H) as (L2 & LL2 & Hs2 & Hk5 & Hx).
    + split; [exact Hc4|exact Hr3].
    + cbn [t_c]. eapply (hinv_gstep c2 (cx_h c3 h4)); [exact Hi2|exact G4|exact F3|exact F4].
    + cbn [t_c cx_h i_h]. congruence.
    + exists L2, LL2. split; [exact Hs2|]. split; [eapply kle_trans; [exact Hk04|exact Hk5]|exact Hx].
Qed.

End KP.
