(* Leaf blocks (plain paragraphs, ATX headings, thematic breaks, fenced code blocks), shared
   definitions: the shape of the source (blocks joined by one empty line), the nodes the block
   phase allocates for it, the trees after the block phase and after the inline phase, and the
   HTML the renderer writes.  Builds on SpecParaBytes.v. *)
Require Import GM.model.Base GM.model.Util GM.model.UtilI GM.model.Ids GM.model.Reader GM.model.HtmlWriter GM.model.Html
               GM.model.SpecDoc GM.model.ListItem GM.model.BlockParse GM.model.InlineParse.
Require Import GM.gen.Tables GM.proofs.SpecParaBytes.
From Coq Require Import List NArith ZArith Bool Lia.
Import ListNotations.
Open Scope Z_scope.

(* ---------- the blocks of the fragment ---------- *)
Inductive lblock :=
| LPara (p : list bytes)                     (* line bodies *)
| LAtx (lv : N) (text : bytes)               (* level 1..6, the words joined by single blanks *)
| LHr (ch : N)                               (* the byte written three times: * - _ *)
| LFence (info : bytes) (lines : list bytes). (* info word or nothing; code lines *)

Definition hashes (lv : N) : bytes := repeat 35%N (N.to_nat lv).
Definition ticks : bytes := [96%N; 96%N; 96%N].
Definition code_text (ls : list bytes) : bytes := flat_map (fun l => l ++ [10%N]) ls.

(* the lines of a block joined by newlines, without the final newline *)
Definition lblock_src (b : lblock) : bytes :=
  match b with
  | LPara p => para_src p
  | LAtx lv t => hashes lv ++ [32%N] ++ t
  | LHr ch => [ch; ch; ch]
  | LFence info ls => ticks ++ info ++ [10%N] ++ code_text ls ++ ticks
  end.
Definition ldoc_body (d : list lblock) : bytes := join [10%N; 10%N] (map lblock_src d).
Definition ldoc_src (d : list lblock) (fin : bool) : bytes := ldoc_body d ++ (if fin then [10%N] else []).

Definition hr_char (ch : N) : bool := (N.eqb ch 42 || N.eqb ch 45 || N.eqb ch 95)%bool.
Definition lblock_ok (b : lblock) : bool :=
  match b with
  | LPara p => para_ok p
  | LAtx lv t => ((1 <=? lv)%N && (lv <=? 6)%N && body_okb t)%bool
  | LHr ch => hr_char ch
  | LFence info ls => (forallb wordc info && forallb (forallb textc) ls)%bool
  end.
Definition ldoc_ok (d : list lblock) : bool := (negb (is_nil d) && forallb lblock_ok d)%bool.

(* ---------- the nodes of the block phase ---------- *)
Definition fseg (a b : Z) : seg := {| s_start := a; s_stop := b; s_pad := 0; s_fnl := true |}.
Fixpoint fence_segs (off : Z) (ls : list bytes) : list seg :=
  match ls with
  | [] => []
  | l :: r => fseg off (off + zlen l + 1) :: fence_segs (off + zlen l + 1) r
  end.
Definition info_seg (off : Z) (info : bytes) : option seg :=
  match info with [] => None | _ => Some (mkseg (off + 3) (off + 3 + zlen info)) end.

Definition lblock_bk (b : lblock) : bkind :=
  match b with LPara _ => BParagraph | LAtx _ _ => BHeading | LHr _ => BThematicBreak | LFence _ _ => BFenced end.
Definition lblock_lines (off : Z) (b : lblock) : list seg :=
  match b with
  | LPara p => para_segs off p
  | LAtx lv t => [mkseg (off + Z.of_N lv + 1) (off + Z.of_N lv + 1 + zlen t)]
  | LHr _ => []
  | LFence info ls => fence_segs (off + 3 + zlen info + 1) ls
  end.
Definition lblock_i1 (b : lblock) : Z := match b with LAtx lv _ => Z.of_N lv | _ => 0 end.
Definition lblock_seg (off : Z) (b : lblock) : option seg :=
  match b with LFence info _ => info_seg off info | _ => None end.
(* the node of block b, which begins at offset off of the source *)
Definition node_of (off : Z) (b : lblock) (bl : bool) : bnode :=
  {| bk := lblock_bk b; bpar := Some 0%nat; bch := []; blines := lblock_lines off b; bblank := bl;
     b_i1 := lblock_i1 b; b_i2 := 0; b_tight := true; b_seg := lblock_seg off b |}.

(* ---------- the trees ---------- *)
Definition lblock_kind (b : lblock) : kind :=
  match b with
  | LPara _ => KParagraph
  | LAtx lv _ => KHeading (Z.of_N lv)
  | LHr _ => KThematicBreak
  | LFence info _ => KFencedCodeBlock (match info with [] => None | _ => Some info end)
  end.
Definition lblock_kids (off : Z) (b : lblock) : list tree :=
  match b with
  | LPara p => para_texts off p
  | LAtx lv t => [text_node (off + Z.of_N lv + 1) t false]
  | _ => []
  end.
Definition lblock_tree (off : Z) (b : lblock) : tree := Node (lblock_kind b) (lblock_lines off b) None [].
Definition lblock_full (off : Z) (b : lblock) : tree := Node (lblock_kind b) (lblock_lines off b) None (lblock_kids off b).
Fixpoint ldoc_blocks (off : Z) (d : list lblock) : list tree :=
  match d with
  | [] => []
  | b :: r => lblock_tree off b :: ldoc_blocks (off + zlen (lblock_src b) + 2) r
  end.
Fixpoint ldoc_full (off : Z) (d : list lblock) : list tree :=
  match d with
  | [] => []
  | b :: r => lblock_full off b :: ldoc_full (off + zlen (lblock_src b) + 2) r
  end.

(* ---------- the HTML ---------- *)
Definition lblock_html (b : lblock) : bytes :=
  match b with
  | LPara p => para_html p
  | LAtx lv t => [60%N; 104%N] ++ dec lv ++ [62%N] ++ t ++ [60%N; 47%N; 104%N] ++ dec lv ++ [62%N; 10%N]
  | LHr _ => [60;104;114;32;47;62;10]%N
  | LFence info ls =>
      [60;112;114;101;62;60;99;111;100;101]%N ++
      (match info with
       | [] => []
       | _ => [32;99;108;97;115;115;61;34;108;97;110;103;117;97;103;101;45]%N ++ info ++ [34%N]
       end) ++ [62%N] ++ code_text ls ++ [60;47;99;111;100;101;62;60;47;112;114;101;62;10]%N
  end.
Definition ldoc_html (d : list lblock) : bytes := flat_map lblock_html d.

(* ---------- first facts ---------- *)
Lemma ldoc_body_cons2 b b' r : ldoc_body (b :: b' :: r) = lblock_src b ++ [10%N; 10%N] ++ ldoc_body (b' :: r).
Proof. reflexivity. Qed.
Lemma ldoc_src_cons2 b b' r fin : ldoc_src (b :: b' :: r) fin = lblock_src b ++ 10%N :: 10%N :: ldoc_src (b' :: r) fin.
Proof. unfold ldoc_src. rewrite ldoc_body_cons2. rewrite <- !app_assoc. reflexivity. Qed.
Lemma ldoc_src_one b fin : ldoc_src [b] fin = lblock_src b ++ (if fin then [10%N] else []).
Proof. reflexivity. Qed.

Lemma zlen_hashes lv : zlen (hashes lv) = Z.of_N lv.
Proof. unfold hashes, zlen. rewrite repeat_length. lia. Qed.
Lemma zlen_repeat {A} (x : A) n : zlen (repeat x n) = Z.of_nat n.
Proof. unfold zlen. rewrite repeat_length. reflexivity. Qed.

Lemma hr_char_cases ch : hr_char ch = true -> ch = 42%N \/ ch = 45%N \/ ch = 95%N.
Proof.
  unfold hr_char. intros H. apply orb_true_iff in H. destruct H as [H|H]; [apply orb_true_iff in H; destruct H as [H|H]|];
    apply N.eqb_eq in H; auto.
Qed.

(* every block begins with a byte that is not white space *)
Definition startc (c : N) : bool := (wordc c || N.eqb c 35 || N.eqb c 42 || N.eqb c 45 || N.eqb c 95 || N.eqb c 96)%bool.
Lemma lblock_src_head b : lblock_ok b = true -> exists c r, lblock_src b = c :: r /\ startc c = true.
Proof.
  destruct b as [p|lv t|ch|info ls]; cbn [lblock_ok lblock_src]; intros H.
  - destruct (para_ok_inv p H) as (b & r & -> & Hb & _). destruct (body_ok_head b Hb) as (c & t & -> & Hc).
    destruct r as [|b' r]; [exists c, t|exists c, (t ++ [10%N] ++ para_src (b' :: r))].
    + split; [reflexivity|]. unfold startc. rewrite Hc. reflexivity.
    + split; [reflexivity|]. unfold startc. rewrite Hc. reflexivity.
  - apply andb_true_iff in H. destruct H as [H _]. apply andb_true_iff in H. destruct H as [H1 _].
    apply N.leb_le in H1. unfold hashes. destruct (N.to_nat lv) as [|n] eqn:E; [lia|].
    cbn [repeat app]. eexists _, _. split; reflexivity.
  - destruct (hr_char_cases ch H) as [->|[->| ->]]; eexists _, _; split; reflexivity.
  - eexists _, _. split; reflexivity.
Qed.
Lemma startc_not_space c : startc c = true -> is_space space_table c = false.
Proof.
  unfold startc. intros H. repeat (apply orb_true_iff in H; destruct H as [H|H]); try (apply N.eqb_eq in H; subst c; vm_compute; reflexivity).
  apply word_not_space. exact H.
Qed.
