(* C05 / C03 / C04 / C01 for the GFM parser model (model/GfmI.v) without the run-time check of
   model/GfmChecked.v: every tree ParseTreeX yields is well formed, and ParseTreeX returns for
   every source; hence safe-mode output of ConvertModelX is inert and ConvertModelX is total.
   Proof: the block phase (proofs/GfmWfBlk*.v), the inline phase (proofs/GfmWfInl*.v), the table
   paragraph transformer (proofs/GfmWfTab.v) and the two tree passes (proofs/GfmWfTree.v). *)
Require Import GM.model.Base GM.model.Util GM.model.UtilI GM.model.Reader GM.model.Regex GM.model.HtmlWriter GM.model.Html GM.model.HtmlI GM.model.HtmlSpec
               GM.model.DelimI GM.model.TableX GM.model.BlockParse GM.model.InlineParse GM.model.BlockParseX GM.model.InlineParseX
               GM.model.GfmParse GM.model.GfmI GM.model.GfmChecked.
Require Import GM.gen.Tables GM.gen.Regexes.
Require Import GM.proofs.ParseInv GM.proofs.ParseCompose GM.proofs.HtmlConcrete GM.proofs.GfmCheckedProofs.
Require Import GM.proofs.GfmWfDefs GM.proofs.GfmWfTree GM.proofs.GfmWfInl GM.proofs.GfmWfBlk.
Require Import GM.proofs.GfmWfTot GM.proofs.GfmWfTotInl GM.proofs.GfmWfTotBlk.
From Coq Require Import List ZArith Bool.
Import ListNotations.

(* the white space table regenerated from the code classes the blank and the newline as white space *)
Lemma gfm_sp32 : is_space space_table 32%N = true.
Proof. vm_compute. reflexivity. Qed.
Lemma gfm_sp10 : is_space space_table 10%N = true.
Proof. vm_compute. reflexivity. Qed.

(* the inline phase on the lines the block phase hands over *)
Lemma InlineChildrenX_ok xc refs src : bytes_ok src -> refs_ok refs -> forall in_item lines ts,
  lines_okX_b src lines = true ->
  inline_childrenX xc space_table punct_table ToLinkReference url_table email_table re_emailDomain re_openTag re_closeTag
                   PunctRune SpaceRune re_taskList re_url re_wwwURL refs in_item src lines = Ok ts ->
  Forall (fun t => wf_node src false false t = true) ts.
Proof.
  intros Hsrc Hrefs in_item lines ts Hl H.
  destruct (lines_okX_cases src lines Hl) as [Hlo|(a & p & f & ->)].
  - exact (inline_childrenX_ok_sp xc space_table punct_table ToLinkReference url_table email_table re_emailDomain re_openTag
             re_closeTag PunctRune SpaceRune re_taskList re_url re_wwwURL gfm_sp32 gfm_sp10 refs in_item src lines ts Hsrc Hrefs Hlo H).
  - destruct (new_block_reader_empty src a p f) as (r & Hr & Hout).
    rewrite (inline_childrenX_out xc space_table punct_table ToLinkReference url_table email_table re_emailDomain re_openTag
               re_closeTag PunctRune SpaceRune re_taskList re_url re_wwwURL refs in_item src _ r Hr Hout) in H.
    injection H as <-. constructor.
Qed.

(* C05: every tree the GFM parser model yields is well formed *)
Theorem ParseTreeX_wf : forall xc src t, bytes_ok src -> ParseTreeX xc src = Ok t -> wf_tree src t = true.
Proof.
  intros xc src t Hsrc H. unfold ParseTreeX, parse_treeX in H.
  apply pc_bind_ok in H as ([bt refs] & Hb & H).
  destruct (parse_blocks_treeX_ok_sp xc space_table punct_table ToLinkReference
              re_htmlBlockType1Open re_htmlBlockType1Close re_htmlBlockType2Open re_htmlBlockType3Open
              re_htmlBlockType4Open re_htmlBlockType5Open re_htmlBlockType6 re_htmlBlockType7 allowed_block_tags
              gfm_sp32 gfm_sp10 src bt refs Hsrc Hb) as (Hwf & Hlines & Hrefs).
  apply pc_bind_ok in H as (t1 & Ha & H).
  destruct (attachX_wf _ src (InlineChildrenX_ok xc refs src Hsrc Hrefs) bt false false false t1 Hwf Hlines Ha) as [Hwf1 _].
  unfold wf_tree. rewrite Hsrc. cbn [andb].
  destruct (x_table xc).
  - exact (proj1 (table_ast_transform_wf src t1 false false t Hwf1 H)).
  - apply pc_Ok_inj in H as <-. exact Hwf1.
Qed.

(* C01: the GFM parser model never panics and never runs out of fuel *)
Theorem ParseTreeX_total : forall xc src, bytes_ok src -> exists t, ParseTreeX xc src = Ok t.
Proof.
  intros xc src Hsrc. unfold ParseTreeX, parse_treeX.
  destruct (ParseBlocksTreeX_total xc src Hsrc) as [[bt refs] Hb]. rewrite Hb. cbn [bind].
  destruct (parse_blocks_treeX_ok_sp xc space_table punct_table ToLinkReference
              re_htmlBlockType1Open re_htmlBlockType1Close re_htmlBlockType2Open re_htmlBlockType3Open
              re_htmlBlockType4Open re_htmlBlockType5Open re_htmlBlockType6 re_htmlBlockType7 allowed_block_tags
              gfm_sp32 gfm_sp10 src bt refs Hsrc Hb) as (Hwf & Hlines & Hrefs).
  set (inl := fun in_item lines => inline_childrenX xc space_table punct_table ToLinkReference url_table email_table re_emailDomain
                re_openTag re_closeTag PunctRune SpaceRune re_taskList re_url re_wwwURL refs in_item src lines).
  assert (Htot : forall in_item lines, lines_okX_b src lines = true -> exists ts, inl in_item lines = Ok ts).
  { intros in_item lines Hl. destruct (lines_okX_cases src lines Hl) as [Hlo|(a & p & f & ->)].
    - exact (InlineChildrenX_total xc refs in_item src lines Hsrc Hlo).
    - destruct (new_block_reader_empty src a p f) as (r & Hr & Hout). exists []. unfold inl.
      exact (inline_childrenX_out xc space_table punct_table ToLinkReference url_table email_table re_emailDomain re_openTag
               re_closeTag PunctRune SpaceRune re_taskList re_url re_wwwURL refs in_item src _ r Hr Hout). }
  destruct (attachX_total inl src Htot bt false Hlines) as [t1 Ha]. fold inl. rewrite Ha. cbn [bind].
  destruct (x_table xc); [|eexists; reflexivity].
  destruct (attachX_wf inl src (InlineChildrenX_ok xc refs src Hsrc Hrefs) bt false false false t1 Hwf Hlines Ha) as [Hwf1 _].
  exact (table_ast_transform_total src t1 false false Hwf1).
Qed.

(* consequences *)
Theorem ParseTreeXC_eq : forall xc src, bytes_ok src -> ParseTreeXC xc src = ParseTreeX xc src.
Proof.
  intros xc src Hsrc. unfold ParseTreeXC. destruct (ParseTreeX xc src) as [t| |] eqn:E; cbn [bind]; try reflexivity.
  rewrite (ParseTreeX_wf xc src t Hsrc E). reflexivity.
Qed.

Lemma ConvertModelX_ok xc c src o : ConvertModelX xc c src = Ok o ->
  exists t, ParseTreeX xc src = Ok t /\ RenderHTML c src t = Ok o.
Proof. unfold ConvertModelX. intros H. exact (pc_bind_ok _ _ _ H). Qed.

(* C03 / C04: safe-mode output of the GFM Convert model is inert, for every source *)
Theorem ConvertModelX_safe_inert : forall xc c src o, unsafe c = false -> bytes_ok src -> ConvertModelX xc c src = Ok o -> Inert o.
Proof.
  intros xc c src o Hu Hsrc H. apply ConvertModelX_ok in H as (t & Ht & Hr).
  exact (RenderHTML_safe_inert c src t o Hu (ParseTreeX_wf xc src t Hsrc Ht) Hr).
Qed.
Theorem ConvertModelX_safe_inert_xhtml : forall xc c src o, unsafe c = false -> xhtml c = true -> bytes_ok src ->
  ConvertModelX xc c src = Ok o -> InertX o.
Proof.
  intros xc c src o Hu Hx Hsrc H. apply ConvertModelX_ok in H as (t & Ht & Hr).
  exact (RenderHTML_safe_inert_xhtml c src t o Hu Hx (ParseTreeX_wf xc src t Hsrc Ht) Hr).
Qed.

(* C01: once the GFM parser model has returned a tree, rendering cannot fail *)
Theorem ConvertModelX_render_total : forall xc c src t, bytes_ok src -> ParseTreeX xc src = Ok t ->
  exists o, ConvertModelX xc c src = Ok o.
Proof.
  intros xc c src t Hsrc Ht. unfold ConvertModelX. rewrite Ht. cbn [bind].
  exact (RenderHTML_total c src t (ParseTreeX_wf xc src t Hsrc Ht)).
Qed.

Theorem ConvertModelX_total : forall xc c src, bytes_ok src -> exists o, ConvertModelX xc c src = Ok o.
Proof.
  intros xc c src Hsrc. destruct (ParseTreeX_total xc src Hsrc) as [t Ht].
  exact (ConvertModelX_render_total xc c src t Hsrc Ht).
Qed.
