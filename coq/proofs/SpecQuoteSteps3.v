(* Block quotes around plain paragraphs, block phase, part 3: the open paragraph (the last node
   of the heap) on a further text line and on an empty rest of line; closing it and the quotes
   around it. *)
Require Import GM.model.Base GM.model.Util GM.model.Reader GM.model.ListItem GM.model.Blocks GM.model.CodeBlock
               GM.model.Regex GM.model.BlockParse.
Require Import GM.gen.Tables GM.proofs.SpecParaBytes GM.proofs.SpecParaReader GM.proofs.SpecParaBlocks
               GM.proofs.SpecQuoteShape GM.proofs.SpecQuoteMachine GM.proofs.SpecQuoteReader GM.proofs.SpecQuoteSteps
               GM.proofs.SpecQuoteSteps2.
From Coq Require Import List NArith ZArith Bool Lia.
Import ListNotations.
Open Scope Z_scope.

Opaque space_table punct_table.

Lemma is_paragraph_app_last h par ls bl : is_paragraph (h ++ [pnode par ls bl]) (length h) = Ok true.
Proof. unfold is_paragraph. rewrite hget_app_last. reflexivity. Qed.
Lemma attached_app_last h p ls bl : attached (h ++ [pnode (Some p) ls bl]) (length h) = Ok true.
Proof. unfold attached. rewrite hget_app_last. reflexivity. Qed.

(* ---------- closing the paragraph ---------- *)
Lemma paragraph_close_at h0 pp acc src pre body term rest a e bl c r :
  r_src r = src -> Forall (good_seg src) acc -> cur_line src pre body term rest a e ->
  paragraph_close space_table (mkst (h0 ++ [pnode (Some pp) (acc ++ [mkseg a e]) bl]) c r) (length h0) =
  Ok (mkst (h0 ++ [pnode (Some pp) (acc ++ [mkseg a (a + zlen body)]) bl]) c r).
Proof.
  intros Hsrc Hacc Hc. unfold paragraph_close. cbn [s_h]. rewrite hget_app_last. cbn [bind pnode blines].
  assert (Hne : acc ++ [mkseg a e] <> []) by (destruct acc; discriminate).
  rewrite (match_nonempty (acc ++ [mkseg a e]) _
             (fun ls => ls0 <- map_res (seg_trim_left_space space_table (src_of (mkst (h0 ++ [pnode (Some pp) (acc ++ [mkseg a e]) bl]) c r))) ls;;
                        match rev ls0 with
                        | [] => Panic
                        | lst :: pre0 =>
                          lst0 <- seg_trim_right_space space_table (src_of (mkst (h0 ++ [pnode (Some pp) (acc ++ [mkseg a e]) bl]) c r)) lst;;
                          h <- hupd (h0 ++ [pnode (Some pp) (acc ++ [mkseg a e]) bl]) (length h0) (fun m => set_lines m (rev pre0 ++ [lst0]));;
                          Ok (st_h (mkst (h0 ++ [pnode (Some pp) (acc ++ [mkseg a e]) bl]) c r) h)
                        end) Hne).
  unfold src_of. cbn [s_r]. rewrite Hsrc.
  rewrite map_trim_left_good by (apply Forall_app; split; [exact Hacc|constructor; [exact (cur_line_good _ _ _ _ _ _ _ Hc)|constructor]]).
  cbn [bind]. rewrite rev_app_distr. cbn [rev app].
  rewrite (cur_line_trim_right _ _ _ _ _ _ _ Hc). cbn [bind]. rewrite rev_involutive.
  rewrite hupd_app_last. cbn [bind]. reflexivity.
Qed.

Section Lrd.
Variable norm : bytes -> bytes.
Lemma transform_paragraph_at h0 pp first more bl c r :
  good_seg (r_src r) first ->
  transform_paragraph space_table punct_table norm (mkst (h0 ++ [pnode (Some pp) (first :: more) bl]) c r) (length h0) =
  Ok (mkst (h0 ++ [pnode (Some pp) (first :: more) bl]) c r, false).
Proof.
  intros Hg. destruct (good_seg_value _ _ Hg) as (ch & v & Hv & Hc).
  unfold transform_paragraph, lrd_transform. cbn [s_h]. rewrite hget_app_last. cbn [bind pnode blines].
  unfold src_of. cbn [s_r].
  destruct (new_block_reader_first (r_src r) first more) as (br & Hbr & Hsrc & Hpos & Hsegs).
  rewrite Hbr. cbn [bind].
  replace (length (r_src r) + length (first :: more) + 2)%nat with (S (length (r_src r) + length (first :: more) + 1))%nat by lia.
  cbn [lrd_loop s_c].
  rewrite (parse_lrd_text norm br c ch v) by (rewrite ?Hsrc, ?Hpos; assumption).
  cbn [bind]. change (-1 <? -1) with false. cbv iota. cbn [apply_removes bind].
  unfold st_c. cbn [s_h s_c s_r bpar]. rewrite hupd_app_last. cbn [bind]. unfold st_h. cbn [s_h s_c s_r].
  rewrite hget_app_last. cbn [bind]. reflexivity.
Qed.
End Lrd.

Lemma zlen_qop q : zlen (qop q) = zlen q.
Proof. unfold zlen. rewrite qop_length. reflexivity. Qed.
Lemma nth_error_qop q i x : nth_error q i = Some x -> nth_error (qop q) i = Some (x, PBlockquote).
Proof. intros H. unfold qop. rewrite nth_error_map, H. reflexivity. Qed.

Section Driver.
Variable norm : bytes -> bytes.
Variables re_t1o re_t1c re_t2 re_t3 re_t4 re_t5 re_t6 re_t7 : re.
Variable allowed_tags : list bytes.
Notation OBL := (open_blocks_loop space_table punct_table norm re_t1o re_t2 re_t3 re_t4 re_t5 re_t6 re_t7 allowed_tags).
Notation OB := (open_blocks space_table punct_table norm re_t1o re_t1c re_t2 re_t3 re_t4 re_t5 re_t6 re_t7 allowed_tags).
Notation CLOSE := (close_blocks space_table punct_table norm).
Notation CRANGE := (close_range space_table punct_table norm).

(* quotes close without any change *)
Lemma close_range_quotes q tail : forall cnt i s,
  Forall (is_bq (s_h s)) q -> Z.of_nat cnt <= i + 1 -> i < zlen q ->
  CRANGE s (qop q ++ tail) cnt i = Ok s.
Proof.
  induction cnt as [|cnt IH]; intros i s Hq Hc Hi; [reflexivity|].
  cbn [close_range].
  assert (Hi0 : 0 <= i) by lia.
  replace (i <? 0) with false by (symmetry; apply Z.ltb_ge; lia).
  replace (zlen (qop q ++ tail) <=? i) with false.
  2:{ symmetry. apply Z.leb_gt. rewrite zlen_app, zlen_qop. pose proof (zlen_nonneg tail). lia. }
  cbn [orb]. cbv iota.
  assert (Hlt : (Z.to_nat i < length q)%nat) by (unfold zlen in Hi; lia).
  destruct (nth_error q (Z.to_nat i)) as [x|] eqn:Ex; [|apply nth_error_None in Ex; lia].
  rewrite nth_error_app1 by (rewrite qop_length; exact Hlt). rewrite (nth_error_qop q _ x Ex).
  assert (Hx : is_bq (s_h s) x) by (apply (proj1 (Forall_forall _ _) Hq); eapply nth_error_In; exact Ex).
  rewrite (is_bq_not_para _ _ Hx). cbn [bind]. rewrite (is_bq_attached _ _ Hx). cbn [bind andb]. cbv iota.
  rewrite (is_bq_attached _ _ Hx). cbn [bind]. cbv iota. cbn [p_close bind].
  apply IH; [exact Hq|lia|lia].
Qed.

(* closeBlocks from the open paragraph down to the quote number n *)
Lemma close_blocks_at h0 pp q junk acc src pre body term rest a e bl r (n : nat) :
  r_src r = src -> Forall (good_seg src) acc -> cur_line src pre body term rest a e ->
  Forall (is_bq h0) q -> (n <= length q)%nat ->
  CLOSE (mkst (h0 ++ [pnode (Some pp) (acc ++ [mkseg a e]) bl]) (octx (qop q ++ [(length h0, PParagraph)]) junk) r)
        (zlen q) (Z.of_nat n) =
  Ok (mkst (h0 ++ [pnode (Some pp) (acc ++ [mkseg a (a + zlen body)]) bl])
           (octx (qop (firstn n q)) (qop (skipn n q) ++ [(length h0, PParagraph)] ++ junk)) r).
Proof.
  intros Hsrc Hacc Hc Hq Hn. unfold close_blocks. cbn [s_c]. rewrite opened_octx.
  replace (Z.to_nat (zlen q - Z.of_nat n + 1)) with (S (length q - n)) by (unfold zlen; lia).
  cbn [close_range].
  pose proof (zlen_nonneg q) as Hzq.
  replace (zlen q <? 0) with false by (symmetry; apply Z.ltb_ge; lia).
  replace (zlen (qop q ++ [(length h0, PParagraph)]) <=? zlen q) with false.
  2:{ symmetry. apply Z.leb_gt. rewrite zlen_app, zlen_qop. change (zlen [(length h0, PParagraph)]) with 1. lia. }
  cbn [orb]. cbv iota.
  replace (Z.to_nat (zlen q)) with (length (qop q)) by (rewrite qop_length; unfold zlen; lia).
  rewrite nth_error_mid. cbn [s_h].
  rewrite is_paragraph_app_last. cbn [bind]. rewrite attached_app_last. cbn [bind andb]. cbv iota.
  assert (Hg : good_seg (r_src r) (hd (mkseg a e) (acc ++ [mkseg a e]))).
  { rewrite Hsrc. destruct Hacc as [|x acc' Hx Hacc']; cbn [app hd]; [exact (cur_line_good _ _ _ _ _ _ _ Hc)|exact Hx]. }
  destruct (acc ++ [mkseg a e]) as [|first more] eqn:E; [destruct acc; discriminate|]. cbn [hd] in Hg.
  rewrite (transform_paragraph_at norm h0 pp first more bl _ r Hg). cbn [bind fst s_h].
  rewrite attached_app_last. cbn [bind]. cbv iota. cbn [p_close]. rewrite <- E.
  rewrite (paragraph_close_at h0 pp acc src pre body term rest a e bl _ r Hsrc Hacc Hc). cbn [bind].
  rewrite close_range_quotes.
  2:{ cbn [s_h]. eapply Forall_impl; [|exact Hq]. intros x Hx. apply is_bq_app. exact Hx. }
  2:{ unfold zlen. lia. }
  2:{ lia. }
  cbn [bind s_c]. unfold octx at 1 2 3. cbn [ctx c_len c_arr].
  replace (Z.of_nat (length (qop q ++ [(length h0, PParagraph)])) - 1) with (zlen q)
    by (rewrite app_length, qop_length; cbn [length]; unfold zlen; lia).
  rewrite Z.eqb_refl. cbv iota.
  replace (Z.of_nat n <? 0) with false by (symmetry; apply Z.ltb_ge; lia).
  replace (Z.of_nat (length (qop q ++ [(length h0, PParagraph)])) <? Z.of_nat n) with false
    by (symmetry; apply Z.ltb_ge; rewrite app_length, qop_length; cbn [length]; lia).
  cbn [orb]. cbv iota. unfold st_c, cset_open, octx, ctx. cbn [s_h s_c s_r c_arr c_len c_boff c_bind c_refs c_skip_list c_empty_item c_fence c_tmp_para].
  rewrite Nat2Z.id.
  assert (Earr : (qop q ++ [(length h0, PParagraph)]) ++ junk =
                 qop (firstn n q) ++ qop (skipn n q) ++ [(length h0, PParagraph)] ++ junk).
  { rewrite <- (firstn_skipn n q) at 1. rewrite qop_app, <- !app_assoc. reflexivity. }
  rewrite Earr. rewrite qop_length, firstn_length, Nat.min_l by exact Hn. reflexivity.
Qed.

(* openBlocks with the paragraph open, on a further text line: paragraph continuation *)
Lemma ob_cont_text f h0 pp op junk ls bl src pre body term rest k hd b st parent blank :
  cur_line src pre body term rest st b -> 0 <= hd ->
  OB (S f) parent blank (mkst (h0 ++ [pnode (Some pp) ls bl]) (octx (op ++ [(length h0, PParagraph)]) junk)
                              (rd src k hd b st (SomeB (body ++ term)) (-1))) =
  Ok (paragraphContinuation,
      mkst (h0 ++ [pnode (Some pp) (ls ++ [mkseg st b]) bl]) (octx (op ++ [(length h0, PParagraph)]) junk)
           (rd src k hd b (b - 1) None (-1))).
Proof.
  intros Hc Hhd. pose proof (cur_line_range _ _ _ _ _ _ _ Hc) as Hr. pose proof (cl_body _ _ _ _ _ _ _ Hc) as Hb.
  pose proof (cur_line_len _ _ _ _ _ _ _ Hc) as Hl.
  assert (Hne : body ++ term <> []) by (apply text_line_nonempty; exact Hb).
  unfold open_blocks. cbn [s_c s_h]. rewrite last_opened_snoc. rewrite is_paragraph_app_last. cbn [bind].
  cbn [open_blocks_loop].
  rewrite (peek_s_any _ _ src pre (body ++ term) rest) by (try exact (cl_at _ _ _ _ _ _ _ Hc); try exact Hne; right; reflexivity).
  cbn [bind]. rewrite line_offset_s_any by (try (left; reflexivity); lia). cbn [bind line_of].
  rewrite (text_line_indent body term _ Hb).
  replace (zlen (body ++ term) <=? 0) with false by (symmetry; apply Z.leb_gt; apply text_line_zlen; exact Hb).
  unfold st_c. cbn [s_h s_c s_r]. rewrite cset_off_octx. rewrite (line_skip_text body term Hb).
  replace (0 <? zlen (body ++ term)) with true by (symmetry; apply Z.ltb_lt; apply text_line_zlen; exact Hb).
  rewrite (candidates_text body term Hb).
  unfold free_parsers. cbn [try_parsers andb can_interrupt_paragraph negb].
  change (noBlocksOpened =? noBlocksOpened) with true. cbn [andb bind]. cbv iota.
  cbn [s_c]. rewrite last_opened_snoc. cbn [p_continue].
  unfold paragraph_continue.
  rewrite (peek_s_any _ _ src pre (body ++ term) rest) by (try exact (cl_at _ _ _ _ _ _ _ Hc); try exact Hne; right; reflexivity).
  cbn [bind line_of].
  rewrite (text_line_not_blank body term Hb). cbn [s_h]. rewrite hupd_app_last. cbn [bind].
  unfold st_h. cbn [s_h s_c s_r]. unfold seg_len, lseg. cbn [s_start s_stop s_pad].
  rewrite advance_s_fast_at by (rewrite zlen_app; lia). cbn [bind fst snd].
  replace (st + (b - st + 0 - 1)) with (b - 1) by lia. reflexivity.
Qed.

(* openBlocks with the paragraph open, the rest of the line empty: nothing opens, no continuation *)
Lemma ob_cont_blank f h0 pp op junk ls bl src pre rest k hd b st lo parent blank :
  at_line src pre [10%N] rest st b -> 0 <= hd -> lo = -1 \/ lo = lofs src hd st ->
  OB (S f) parent blank (mkst (h0 ++ [pnode (Some pp) ls bl]) (octx (op ++ [(length h0, PParagraph)]) junk)
                              (rd src k hd b st (SomeB [10%N]) lo)) =
  Ok (noBlocksOpened,
      mkst (h0 ++ [pnode (Some pp) ls bl]) (octx (op ++ [(length h0, PParagraph)]) junk)
           (rd src k hd b st (SomeB [10%N]) (lofs src hd st))).
Proof.
  intros Hat Hhd Hlo. assert (Hr : 0 <= st /\ st < b /\ b <= zlen src) by (apply (at_line_in_range _ _ _ _ _ _ Hat); discriminate).
  unfold open_blocks. cbn [s_c s_h]. rewrite last_opened_snoc. rewrite is_paragraph_app_last. cbn [bind].
  cbn [open_blocks_loop].
  rewrite (peek_s_any _ _ src pre [10%N] rest) by (try exact Hat; try discriminate; right; reflexivity).
  cbn [bind]. rewrite line_offset_s_any by (try exact Hlo; lia). cbn [bind line_of].
  rewrite indent_width_nb by discriminate.
  change (zlen [10%N] <=? 0) with false. cbv iota.
  unfold st_c. cbn [s_h s_c s_r]. rewrite cset_off_octx. change (N.eqb 10 10) with true. cbv iota. cbn [bind]. cbv iota.
  change (noBlocksOpened =? noBlocksOpened) with true. cbn [andb]. cbv iota.
  cbn [s_c]. rewrite last_opened_snoc. cbn [p_continue].
  unfold paragraph_continue.
  rewrite (peek_s_any _ _ src pre [10%N] rest) by (try exact Hat; try discriminate; right; reflexivity).
  cbn [bind line_of Reader.is_blank].
  rewrite nl_is_space. cbn [andb bind fst snd]. reflexivity.
Qed.
End Driver.
