(* Lifting boolean sweeps over the 256 byte values to universally quantified facts. *)
Require Import GM.model.Base.
From Coq Require Import Lia.
Open Scope N_scope.

Lemma byte_forall (P : N -> bool) :
  forallb (fun n => P (N.of_nat n)) (seq 0 256) = true ->
  forall c, c < 256 -> P c = true.
Proof.
  intros H c Hc. rewrite forallb_forall in H.
  specialize (H (N.to_nat c)). rewrite N2Nat.id in H. apply H.
  apply in_seq. lia.
Qed.

Lemma tbl_overflow {A} (t : list A) d c : length t = 256%nat -> 256 <= c -> tbl t d c = d.
Proof. intros Hl Hc. unfold tbl. apply nth_overflow. lia. Qed.

Fixpoint obytes_eqb (a b : option bytes) : bool :=
  match a, b with
  | None, None => true
  | Some x, Some y => bytes_eqb x y
  | _, _ => false
  end.

Lemma bytes_eqb_eq a : forall b, bytes_eqb a b = true <-> a = b.
Proof.
  induction a as [|x a IH]; destruct b as [|y b]; cbn [bytes_eqb]; split; try congruence; try discriminate.
  - intro H. apply andb_prop in H as [H1 H2]. apply N.eqb_eq in H1. apply IH in H2. congruence.
  - intro H. injection H as -> ->. rewrite N.eqb_refl. cbn. now apply IH.
Qed.

Lemma obytes_eqb_eq a b : obytes_eqb a b = true -> a = b.
Proof.
  destruct a, b; cbn; try discriminate; try reflexivity.
  intro H. apply bytes_eqb_eq in H. now subst.
Qed.
