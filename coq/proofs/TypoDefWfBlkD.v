(* Helper library for TypoDefWfBlk.v, part D: Continue of the block parsers. *)
Require Import GM.model.Base GM.model.Util GM.model.Reader GM.model.ReaderSpec GM.model.Blocks GM.model.ListItem
               GM.model.LeafBlocks GM.model.CodeBlock GM.model.LinkDest GM.model.Regex GM.model.HtmlWriter
               GM.model.Html GM.model.HtmlSpec GM.model.BlockParse GM.model.InlineParse GM.model.TypoDefParseD.
Require Import GM.proofs.ReaderProofs GM.proofs.BlockRangeProofs GM.proofs.ParseInv
               GM.proofs.ParseBlocksRangeA GM.proofs.TypoDefWfBlkB GM.proofs.TypoDefWfBlkT GM.proofs.TypoDefWfBlkC.
From Coq Require Import ZArith Lia Sorted.
Open Scope Z_scope.

Section D.
Variable space_table punct_table : list N.
Variable norm : bytes -> bytes.
Variable re_t1o re_t1c re_t2 re_t3 re_t4 re_t5 re_t6 re_t7 : re.
Variable allowed_tags : list bytes.
Variable src : bytes.
Hypothesis sp32 : is_space space_table 32%N = true.
Set Default Proof Using "All".

Notation CC f := (f space_table punct_table norm re_t1o re_t1c re_t2 re_t3 re_t4 re_t5 re_t6 re_t7 allowed_tags src sp32) (only parsing).
Notation SInv := (SInv space_table src).
Notation HI := (HI space_table src).
Notation nodeP := (nodeP space_table src).
Notation heapS := (heapS space_table src).
Notation Jinv := (Jinv src).
Notation openS := (openS src).
Notation pline := (pline space_table src).
Notation oline := (oline src).
Notation fin_lines := (fin_lines src).

(* ---------- entries ---------- *)
Lemma nodup_fst_fun (E : list (nat * bparser)) x a b : NoDup (ids E) -> In (x, a) E -> In (x, b) E -> a = b.
Proof.
  induction E as [|[y c] t IH]; intros Hnd Ha Hb; [destruct Ha|]. cbn [ids map fst] in Hnd.
  inversion Hnd as [|? ? Hy Ht]; subst. destruct Ha as [Ha|Ha], Hb as [Hb|Hb].
  - congruence.
  - injection Ha as -> ->. exfalso. apply Hy. eapply in_ids. exact Hb.
  - injection Hb as -> ->. exfalso. apply Hy. eapply in_ids. exact Ha.
  - apply IH; assumption.
Qed.

Lemma entry_not_prot h c A D N x bp : openS h c A D N -> In (x, bp) (A ++ D ++ N) -> bp <> PATX ->
  ~ prot c (A ++ D ++ N) x.
Proof.
  intros HO Hin Hbp [Hp|[Ht [y Hy]]].
  - apply Hbp. eapply os_fun; [exact HO|exact Hin|exact Hp].
  - destruct (os_tmp _ _ _ _ _ _ HO y Hy) as [tmp [t [E1 [_ [_ [_ Hni]]]]]]. apply Hni.
    assert (tmp = x) by congruence. subst. eapply in_ids. exact Hin.
Qed.

(* changing the data (not the shape) of an opened node *)
Lemma HI_set_entry b h c A D N x bp n n' : HI b h c A D N -> In (x, bp) (A ++ D ++ N) -> bp <> PATX ->
  nth_error h x = Some n -> same_shape n n' -> nodeP n' ->
  (bk n' = BParagraph -> forall sg, In sg (blines n') -> s_stop sg <= b) -> HI b (hset h x n') c A D N.
Proof.
  intros [H1 H2 H3 H4 H5] Hin Hbp E Hs Hn Hb. constructor; auto.
  - apply Bnd_hset; assumption.
  - eapply heapS_hset; eassumption.
  - eapply Jinv_hset; [exact H3|exact E|]. intros _. right. eapply in_ids. exact Hin.
  - eapply openS_hset; try eassumption. right. eapply entry_not_prot; eassumption.
Qed.

Lemma nodeP_add_line n sg : nodeP n -> bk n <> BParagraph -> bk n <> BTextBlock -> is_dt n = false -> seg_inr src sg ->
  nodeP (set_lines n (blines n ++ [sg])).
Proof.
  intros [H1 H2 H3 H4 H5 H6 H7 H8 H9] Hk1 Hk2 Hdt Hsg. constructor; cbn [set_lines blines b_seg bk b_i1 bch]; auto; try contradiction.
  - apply Forall_app. split; [exact H1|]. constructor; [exact Hsg|constructor].
  - intros E. change (is_dt (set_lines n (blines n ++ [sg]))) with (is_dt n) in E. congruence.
Qed.

Lemma nodeP_set_seg n sg : nodeP n -> seg_inr src sg -> nodeP (set_seg n (Some sg)).
Proof.
  intros [H1 H2 H3 H4 H5 H6 H7 H8 H9] Hsg. constructor; cbn [set_seg blines b_seg bk b_i1 bch]; auto.
  intros sg' E _. injection E as <-. exact Hsg.
Qed.

Lemma not_dt_kind (n : bnode) : bk n <> BHTML -> is_dt n = false.
Proof. intros H. apply (not_html_d n H). Qed.

Lemma same_shape_lines n l : same_shape n (set_lines n l).
Proof. repeat split. Qed.
Lemma same_shape_seg n v : is_dl n = false -> same_shape n (set_seg n v).
Proof.
  intros H. repeat split. change (is_dl (set_seg n v)) with (is_dl n). rewrite H. reflexivity.
Qed.
(* an opened node that is not of kind BHTML is no node of the extension *)
Lemma entry_not_d h c A D N x bp n : openS h c A D N -> In (x, bp) (A ++ D ++ N) -> nth_error h x = Some n -> bp <> PHTML ->
  is_dl n = false /\ is_dt n = false /\ is_dd n = false.
Proof.
  intros HO Hin E Hbp. destruct (os_pair _ _ _ _ _ _ HO x bp Hin) as [n0 [E0 K]]. assert (n0 = n) by congruence. subst n0.
  apply not_html_d. rewrite K. destruct bp; cbn; congruence.
Qed.

Lemma sorted_snoc (l : list seg) sg : sorted_segs l -> (forall a, In a l -> s_stop a <= s_start sg) -> sorted_segs (l ++ [sg]).
Proof.
  intros Hs Ha. induction l as [|x t IH]; cbn [app].
  - apply (CC sorted_single).
  - inversion Hs as [|? ? Ht Hx]; subst. constructor.
    + apply IH; [exact Ht|]. intros a Hin. apply Ha. right. exact Hin.
    + apply Forall_app. split; [exact Hx|]. constructor; [|constructor]. apply Ha. left. reflexivity.
Qed.

(* what Continue leaves behind *)
Definition cont_post (bp : bparser) (s s' : st) (cont : bool) (A D N : list (nat * bparser)) : Prop :=
  c_arr (s_c s') = c_arr (s_c s) /\ c_len (s_c s') = c_len (s_c s) /\
  (cont = false -> SInv FF s' A D N) /\
  (cont = true -> if container (pkind bp) then SInv FF s' A D N else SInv WW s' A D N).

(* ---------- code_block.go Continue ---------- *)
Lemma code_continue_ok s node s' cont A D N : SInv FF s A D N -> In (node, PCodeBlock) (A ++ D ++ N) ->
  code_continue space_table s node = Ok (s', cont) -> cont_post PCodeBlock s s' cont A D N.
Proof.
  intros HS Hin H. unfold code_continue in H. bind_inv H x Ex. destruct x as [[sg r]|[]].
  2: { injection H as <- <-. unfold cont_post. csplit; auto. discriminate. }
  bind_inv H h1 Eh. injection H as <- <-. apply hupd_ok in Eh. destruct Eh as [n [En ->]].
  destruct (code_block_continue_ok space_table src _ _ _ (proj1 HS) Ex) as [HW [Hle Hsg]].
  unfold cont_post. cbn [st_r st_h s_c s_h s_r pkind container]. csplit; auto; [discriminate|]. intros _.
  destruct (CC SInv_weak _ _ _ _ _ HS HW Hle) as [_ HH]. split; [exact HW|]. cbn [st_r st_h s_c s_h s_r] in *.
  destruct (os_pair _ _ _ _ _ _ (hi_open _ _ _ _ _ _ _ _ HH) node PCodeBlock Hin) as [n0 [En0 Kn]].
  assert (n0 = n) by congruence. subst n0. cbn [pkind] in Kn.
  eapply HI_set_entry; try eassumption; try discriminate.
  - apply same_shape_lines.
  - apply nodeP_add_line; auto; try congruence; [apply (hs_node _ _ _ (hi_heap _ _ _ _ _ _ _ _ HH) _ _ En)|].
    apply not_dt_kind. congruence.
  - cbn [set_lines bk]. congruence.
Qed.

(* ---------- fcode_block.go Continue ---------- *)
Lemma fenced_continue_ok s node s' cont A D N : SInv FF s A D N -> In (node, PFenced) (A ++ D ++ N) ->
  fenced_continue space_table s node = Ok (s', cont) -> cont_post PFenced s s' cont A D N.
Proof.
  intros HS Hin H. unfold fenced_continue in H.
  destruct (c_fence (s_c s)) as [[[[ch indent] flen] fn]|] eqn:Ef; [|discriminate].
  assert (0 <= indent) as Hind.
  { destruct HS as [_ HH]. eapply (os_fence _ _ _ _ _ _ (hi_open _ _ _ _ _ _ _ _ HH)). exact Ef. }
  bind_inv H p Ep. destruct p as [[s1 l] sg].
  destruct (CC peek_s_ok _ _ _ _ _ _ _ HS Ep) as [HS1 [Eh1 [Ec1 [Ep1 [Esg _]]]]].
  bind_inv H x Ex. destruct x as [[closed ln] r].
  destruct (fence_continue_r_ok space_table src _ _ _ _ _ _ _ (proj1 HS1) Hind Ex) as [Hcl Hop].
  destruct closed.
  - injection H as <- <-. destruct (Hcl eq_refl) as [HR Hle].
    unfold cont_post. cbn [st_r s_c]. rewrite Ec1. csplit; auto; [|discriminate].
    intros _. apply (CC SInv_reader); assumption.
  - destruct (Hop eq_refl) as [HW [Hle [st [pd [-> [Hst Hpd]]]]]].
    bind_inv H h1 Eh. injection H as <- <-. apply hupd_ok in Eh. destruct Eh as [n [En ->]].
    unfold cont_post. cbn [st_r st_h s_c s_h s_r pkind container]. rewrite Ec1. csplit; auto; [discriminate|]. intros _.
    destruct (CC SInv_weak _ _ _ _ _ HS1 HW Hle) as [_ HH]. split; [exact HW|]. cbn [st_r st_h s_c s_h s_r] in *.
    destruct (os_pair _ _ _ _ _ _ (hi_open _ _ _ _ _ _ _ _ HH) node PFenced Hin) as [n0 [En0 Kn]].
    assert (n0 = n) by congruence. subst n0. cbn [pkind] in Kn.
    eapply HI_set_entry; try eassumption; try discriminate.
    + apply same_shape_lines.
    + apply nodeP_add_line; auto; try congruence; [apply (hs_node _ _ _ (hi_heap _ _ _ _ _ _ _ _ HH) _ _ En)|apply not_dt_kind; congruence|].
      pose proof (CC R2_bounds _ (proj1 HS1)) as Hb. subst sg. rewrite Ep1 in *.
      unfold seg_inr. cbn [s_start s_stop s_pad]. lia.
    + cbn [set_lines bk]. congruence.
Qed.


Lemma SInv_set_entry fl s x bp n n' A D N : SInv fl s A D N -> In (x, bp) (A ++ D ++ N) -> bp <> PATX ->
  nth_error (s_h s) x = Some n -> same_shape n n' -> nodeP n' -> bk n' <> BParagraph ->
  SInv fl (st_h s (hset (s_h s) x n')) A D N.
Proof.
  intros [HR HH] Hin Hbp E Hs Hn Hk. split; [exact HR|]. cbn [st_h s_h s_c s_r].
  eapply HI_set_entry; try eassumption. congruence.
Qed.

(* ---------- html_block.go Continue ---------- *)
Lemma consume_nonneg s l : SInv FF s [] [] [] \/ R2 src (s_r s) ->
  l = (if r_in_range (s_r s) then Some (r_view (s_r s)) else None) ->
  0 <= seg_len (r_pos (s_r s)) - trim_right_space_len space_table (line_of l).
Proof.
  intros HR Hl. assert (R2 src (s_r s)) as HR2 by (destruct HR as [[H _]|H]; exact H).
  pose proof (CC R2_bounds _ HR2) as Hb. destruct HR2 as [Hinv _]. pose proof (ri_pad _ Hinv) as Hp.
  pose proof (br_trs_range space_table (line_of l)) as Ht. unfold seg_len.
  destruct (r_in_range (s_r s)); subst l; cbn [line_of] in *.
  - rewrite view_zlen in Ht by exact Hinv. lia.
  - change (trim_right_space_len space_table []) with 0. lia.
Qed.

Lemma html_continue_ok s node s' cont A D N : SInv FF s A D N -> In (node, PHTML) (A ++ D ++ N) ->
  (forall n, nth_error (s_h s) node = Some n -> is_dl n = false) ->
  html_continue space_table re_t1c s node = Ok (s', cont) -> cont_post PHTML s s' cont A D N.
Proof.
  intros HS Hin Hndl H. unfold html_continue in H. bind_inv H n En. apply hget_ok in En.
  pose proof (Hndl n En) as Hdl.
  pose proof (os_dt _ _ _ _ _ _ (hi_open _ _ _ _ _ _ _ _ (proj2 HS)) node PHTML n Hin En) as Hdt.
  bind_inv H x Ex. destruct x as [[s1 l] sg].
  destruct (CC peek_s_ok _ _ _ _ _ _ _ HS Ex) as [HS1 [Eh1 [Ec1 [Ep1 [Esg [El [Ein Esrc1]]]]]]].
  cbv zeta in H.
  pose proof (consume_nonneg s l (or_intror (proj1 HS)) El) as Hnn. rewrite <- Esg in Hnn.
  destruct (os_pair _ _ _ _ _ _ (hi_open _ _ _ _ _ _ _ _ (proj2 HS)) node PHTML Hin) as [n0 [En0 Kn]].
  assert (n0 = n) by congruence. subst n0. cbn [pkind] in Kn.
  pose proof (hs_node _ _ _ (hi_heap _ _ _ _ _ _ _ _ (proj2 HS)) _ _ En) as HnP.
  assert (seg_inr src sg) as Hsg by (subst sg; apply pos_inr; exact (proj1 HS)).
  rewrite <- Eh1 in En.
  assert (cont_post PHTML s s1 false A D N) as Hfalse.
  { unfold cont_post. rewrite Ec1. csplit; auto. discriminate. }
  (* appending the line, consuming it *)
  assert (forall h1 s2 n', hupd (s_h s1) node (fun _ => n') = Ok h1 \/ h1 = hset (s_h s1) node n' ->
            h1 = hset (s_h s1) node n' -> same_shape n n' -> nodeP n' -> bk n' <> BParagraph ->
            advance_s (st_h s1 h1) (seg_len sg - trim_right_space_len space_table (line_of l)) = Ok s2 ->
            forall cont', cont_post PHTML s s2 cont' A D N) as Hupd.
  { intros h1 s2 n' _ -> Hsh Hn' Hk' Ea cont'.
    pose proof (SInv_set_entry FF s1 node PHTML n n' A D N HS1 Hin ltac:(discriminate) En Hsh Hn' Hk') as HS2.
    destruct (CC adv_s_full _ _ _ _ _ _ HS2 Hnn Ea) as [HS3 [Eh3 Ec3]].
    unfold cont_post. rewrite Ec3. cbn [st_h s_c pkind container]. rewrite Ec1. csplit; auto.
    intros _. apply (CC SInv_FW). exact HS3. }
  destruct ((1 <=? b_i1 n) && (b_i1 n <=? 5))%bool.
  - bind_inv H fc Efc. destruct fc; [injection H as <- <-; exact Hfalse|].
    match type of H with (if ?b then _ else _) = _ => destruct b end.
    + bind_inv H h1 Eh. bind_inv H s2 Ea. injection H as <- <-. apply hupd_ok in Eh. destruct Eh as [n1 [En1 ->]].
      assert (n1 = n) by congruence. subst n1.
      eapply (Hupd _ s2 (set_seg n (Some sg))); [right; reflexivity|reflexivity|apply same_shape_seg; exact Hdl|apply nodeP_set_seg; assumption| |exact Ea].
      cbn [set_seg bk]. congruence.
    + bind_inv H h1 Eh. bind_inv H s2 Ea. injection H as <- <-. apply hupd_ok in Eh. destruct Eh as [n1 [En1 ->]].
      assert (n1 = n) by congruence. subst n1.
      eapply (Hupd _ s2 (set_lines n (blines n ++ [sg]))); [right; reflexivity|reflexivity|apply same_shape_lines| | |exact Ea].
      * apply nodeP_add_line; auto; congruence.
      * cbn [set_lines bk]. congruence.
  - destruct (Reader.is_blank space_table (line_of l)); [injection H as <- <-; exact Hfalse|].
    bind_inv H h1 Eh. bind_inv H s2 Ea. injection H as <- <-. apply hupd_ok in Eh. destruct Eh as [n1 [En1 ->]].
    assert (n1 = n) by congruence. subst n1.
    eapply (Hupd _ s2 (set_lines n (blines n ++ [sg]))); [right; reflexivity|reflexivity|apply same_shape_lines| | |exact Ea].
    + apply nodeP_add_line; auto; congruence.
    + cbn [set_lines bk]. congruence.
Qed.

(* ---------- paragraph.go Continue ---------- *)
Lemma paragraph_continue_ok s node s' cont A D N : SInv FF s A D N -> In (node, PParagraph) (A ++ D ++ N) ->
  paragraph_continue space_table s node = Ok (s', cont) -> cont_post PParagraph s s' cont A D N.
Proof.
  intros HS Hin H. unfold paragraph_continue in H.
  bind_inv H x Ex. destruct x as [[s1 l] sg].
  destruct (CC peek_s_ok _ _ _ _ _ _ _ HS Ex) as [HS1 [Eh1 [Ec1 [Ep1 [Esg [El [Ein Esrc1]]]]]]].
  destruct (Reader.is_blank space_table (line_of l)) eqn:Eb.
  { injection H as <- <-. unfold cont_post. rewrite Ec1. csplit; auto. discriminate. }
  bind_inv H h1 Eh. bind_inv H s2 Ea. injection H as <- <-. apply hupd_ok in Eh. destruct Eh as [n [En ->]].
  unfold advance_s in Ea. cbn [st_h s_r s_h s_c] in Ea. bind_inv Ea r2 Er. injection Ea as <-.
  destruct HS1 as [HR1 HH1]. destruct (adv_RW src _ _ _ (proj1 HR1) Esrc1 Er) as [HW Hle].
  pose proof (CC R2_bounds _ HR1) as Hb.
  unfold cont_post. cbn [st_r st_h s_c s_h s_r pkind container]. rewrite Ec1. csplit; auto; [discriminate|]. intros _.
  split; [exact HW|]. cbn [st_r st_h s_c s_h s_r rd_bound] in *.
  destruct (os_pair _ _ _ _ _ _ (hi_open _ _ _ _ _ _ _ _ HH1) node PParagraph Hin) as [n0 [En0 Kn]].
  assert (n0 = n) by congruence. subst n0. cbn [pkind] in Kn.
  pose proof (hs_node _ _ _ (hi_heap _ _ _ _ _ _ _ _ HH1) _ _ En) as HnP.
  destruct (np_para _ _ _ HnP Kn) as [Hpl [Hso Hne]].
  (* the line is not blank: it has a byte that is not white space *)
  destruct l as [v|]; [|cbn in Eb; discriminate].
  destruct (peeked_some _ _ El v eq_refl) as [Hir Hv]. cbn [line_of] in Eb.
  assert (pline sg) as Hpsg.
  { subst sg. split; [apply pos_inr; exact (proj1 HS)|]. split; [apply (ri_fnl _ (proj1 (proj1 HS)))|].
    rewrite Hv, view_spaces in Eb. rewrite (CC is_blank_app), (CC is_blank_spaces) in Eb. cbn [andb] in Eb.
    destruct HS as [[_ [Hsrc _]] _]. rewrite Hsrc in Eb. exact Eb. }
  assert (forall a, In a (blines n) -> s_stop a <= s_start sg) as Hbnd.
  { intros a Ha. subst sg. rewrite <- Ep1. eapply (hi_bnd _ _ _ _ _ _ _ _ HH1); eassumption. }
  eapply HI_set_entry; try eassumption; try discriminate.
  - eapply (CC HI_mono); [exact HH1|]. lia.
  - apply same_shape_lines.
  - destruct HnP as [H1 H2 H3 H4 H5 H6 H7 H8 H9]. constructor; cbn [set_lines blines b_seg bk b_i1 bch]; auto; try congruence.
    + apply Forall_app. split; [exact H1|]. constructor; [apply Hpsg|constructor].
    + intros _. csplit.
      * apply Forall_app. split; [exact Hpl|]. constructor; [exact Hpsg|constructor].
      * apply sorted_snoc; assumption.
      * destruct (blines n); discriminate.
    + intros E. change (is_dt (set_lines n (blines n ++ [sg]))) with (is_dt n) in E.
      rewrite not_dt_kind in E by congruence. discriminate.
  - cbn [set_lines bk blines]. intros _ a Ha. apply in_app_or in Ha. destruct Ha as [Ha|[<-|[]]].
    + specialize (Hbnd a Ha). rewrite Esg, <- Ep1 in Hbnd. lia.
    + rewrite Esg, <- Ep1. exact Hle.
Qed.

(* ---------- blockquote.go Continue ---------- *)
Lemma bq_continue_ok s s' cont A D N : SInv FF s A D N ->
  bq_continue s = Ok (s', cont) -> cont_post PBlockquote s s' cont A D N.
Proof.
  intros HS H. unfold bq_continue in H. bind_inv H x Ex. destruct x as [r ok]. injection H as <- <-.
  destruct (bq_process_total_ok src _ _ _ (proj1 HS) Ex) as [HR [Hle _]].
  pose proof (CC SInv_reader s r A D N HS HR Hle) as HS1.
  unfold cont_post. cbn [st_r s_c pkind container]. csplit; auto.
Qed.


(* ---------- list.go / list_item.go Continue ---------- *)
Definition indent_of (s : st) : Z :=
  fst (indent_width (r_view (s_r s)) (r_column (s_r s) (r_head (s_r s)))).
(* what a continuing list has checked about the current line *)
Definition verdict (s : st) (p : nat) : Prop :=
  forall offset, last_offset (s_h s) p = Ok offset ->
  Reader.is_blank space_table (r_view (s_r s)) = false ->
  offset <= indent_of s \/ (indent_of s < 4 /\ snd (matches_list_item (r_view (s_r s)) true) <> 0%N).
Definition item_guard (s : st) (node : nat) : Prop :=
  forall n p, nth_error (s_h s) node = Some n -> bpar n = Some p -> verdict s p.

Lemma verdict_eq s s' p : s_h s' = s_h s -> rkey (s_r s') = rkey (s_r s) -> verdict s p -> verdict s' p.
Proof.
  intros Eh Ek Hv. unfold verdict, indent_of in *. destruct (rkey_view _ _ Ek) as [E1 [E2 _]].
  rewrite Eh, E1, E2. exact Hv.
Qed.

Lemma peek_s_rkey s s' l sg : RInv (s_r s) -> peek_line_s s = Ok (s', l, sg) -> rkey (s_r s') = rkey (s_r s).
Proof.
  intros Hi H. unfold peek_line_s in H. bind_inv H x Ex. destruct x as [[r1 l1] sg1]. injection H as <- <- <-.
  cbn [st_r s_r]. eapply peek_rkey; eassumption.
Qed.
Lemma loff_s_rkey s s' o : RInv (s_r s) -> line_offset_s s = Ok (s', o) ->
  rkey (s_r s') = rkey (s_r s) /\ o = r_column (s_r s) (r_head (s_r s)).
Proof.
  intros Hi H. unfold line_offset_s in H. bind_inv H x Ex. destruct x as [r1 o1]. injection H as <- <-.
  cbn [st_r s_r]. eapply loff_rkey; eassumption.
Qed.

Lemma strict_match line : snd (matches_list_item line false) <> 0%N ->
  snd (matches_list_item line true) <> 0%N.
Proof.
  unfold matches_list_item. destruct (parse_list_item line) as [m typ] eqn:E.
  destruct (N.eqb_spec typ 0) as [E0|E0]; cbn [negb andb orb snd]; [congruence|].
  intros _. destruct (parse_list_item_in_range line m typ E E0) as [Hm1 _].
  destruct (Z.ltb_spec (m1 m) 4); [cbn [snd]; exact E0|lia].
Qed.

Lemma list_continue_ok s node s' cont A D N : SInv FF s A D N -> r_in_range (s_r s) = true ->
  list_continue space_table s node = Ok (s', cont) ->
  cont_post PList s s' cont A D N /\ s_h s' = s_h s /\ rkey (s_r s') = rkey (s_r s) /\
  (cont = true -> verdict s' node).
Proof.
  intros HS Hin H. unfold list_continue in H. bind_inv H n En.
  bind_inv H x Ex. destruct x as [[s1 l] sg].
  destruct (CC peek_s_ok _ _ _ _ _ _ _ HS Ex) as [HS1 [Eh1 [Ec1 [Ep1 [Esg [El [Ein Esrc1]]]]]]].
  pose proof (peek_s_rkey _ _ _ _ (proj1 (proj1 HS)) Ex) as Ek1.
  rewrite Hin in El. subst l. cbn [line_of] in H.
  bind_inv H lastc Elc. bind_inv H lcc Elcc.
  assert (forall s2 b, s_h s2 = s_h s -> rkey (s_r s2) = rkey (s_r s) -> SInv FF s2 A D N ->
            c_arr (s_c s2) = c_arr (s_c s) -> c_len (s_c s2) = c_len (s_c s) ->
            cont_post PList s s2 b A D N /\ s_h s2 = s_h s /\ rkey (s_r s2) = rkey (s_r s)) as Hpost.
  { intros s2 b E1 E2 E3 E4 E5. unfold cont_post. cbn [pkind container]. csplit; auto. }
  destruct (Reader.is_blank space_table (r_view (s_r s))) eqn:Eb.
  { injection H as <- <-. destruct (Hpost (if lcc =? 0 then st_c s1 (cset_empty (s_c s1) true) else s1) true) as [H1 [H2 H3]].
    - destruct (lcc =? 0); cbn [st_c s_h]; congruence.
    - destruct (lcc =? 0); cbn [st_c s_r]; congruence.
    - destruct (lcc =? 0); [apply (CC SInv_ctx); auto|exact HS1].
    - destruct (lcc =? 0); cbn [st_c s_c cset_empty c_arr]; congruence.
    - destruct (lcc =? 0); cbn [st_c s_c cset_empty c_len]; congruence.
    - csplit; auto. intros _ offset _ Hb. destruct (rkey_view _ _ H3) as [Ev _]. rewrite Ev in Hb. congruence. }
  bind_inv H offset Eoff. cbv zeta in H.
  bind_inv H y Ey. destruct y as [s2 off].
  destruct (CC loff_s_ok _ _ _ _ _ _ HS1 Ey) as [HS2 [Eh2 [Ec2 [Ep2 Ein2]]]].
  destruct (loff_s_rkey _ _ _ (proj1 (proj1 HS1)) Ey) as [Ek2 Eoffv].
  assert (rkey (s_r s2) = rkey (s_r s)) as Ek by congruence.
  destruct (rkey_view _ _ Ek1) as [Ev1 [Ecol1 _]].
  assert (off = r_column (s_r s) (r_head (s_r s))) as Eoff' by congruence.
  destruct (Hpost s2 cont) as [H1 [H2 H3]]; try congruence.
  (* whatever the branch, the final state is s2 *)
  set (line := r_view (s_r s)) in *. set (indent := fst (indent_width line off)) in *.
  assert (s' = s2 /\ (cont = true -> offset <= indent \/ (indent < 4 /\ snd (matches_list_item line true) <> 0%N))) as [-> Hv].
  { destruct (matches_list_item line false) as [m typ] eqn:Em.
    assert (forall (X : result (st * bool)),
              X = (mk <- at_ line (m3 m - 1);;
                   if negb ((Z.of_N mk =? b_i1 n) && Bool.eqb (typ =? 2)%N (is_ordered_marker (b_i1 n))) then Ok (s2, false)
                   else if is_thematic_break space_table (zskip (m3 m - 1) line) 0 then
                     last_para <- match last_opened (s_c s2) with None => Ok false | Some (l, _) => is_paragraph (s_h s2) l end;;
                     bar <- (if last_para then matches_setext_bar space_table (zskip (m3 m - 1) line) else Ok None);;
                     (if negb match bar with Some c => (c =? 45)%N | None => false end then Ok (s2, false) else Ok (s2, true))
                   else Ok (s2, true)) ->
              X = Ok (s', cont) -> s' = s2) as Hinner.
    { intros X -> HX. bind_inv HX mk Emk.
      match type of HX with (if ?b then _ else _) = _ => destruct b end; [injection HX as <- <-; reflexivity|].
      match type of HX with (if ?b then _ else _) = _ => destruct b end; [|injection HX as <- <-; reflexivity].
      bind_inv HX lp Elp. bind_inv HX bar Ebar.
      match type of HX with (if ?b then _ else _) = _ => destruct b end; injection HX as <- <-; reflexivity. }
    destruct ((indent <? 4) && negb (typ =? 0)%N && (m1 m - offset <? 4))%bool eqn:Ecd2.
    - (* a list item of this list starts here *)
      assert (indent < 4 /\ snd (matches_list_item line true) <> 0%N) as Hr.
      { apply andb_true_iff in Ecd2. destruct Ecd2 as [Ecd2 _]. apply andb_true_iff in Ecd2. destruct Ecd2 as [E4 Et].
        split; [lia|]. apply strict_match. rewrite Em. cbn [snd]. intros E0. rewrite E0 in Et. discriminate. }
      destruct ((indent <? offset) || (lcc =? 0))%bool.
      + split; [eapply Hinner; [reflexivity|exact H]|]. intros _. right. exact Hr.
      + destruct ((lcc =? 0) && (indent <? offset))%bool; [injection H as <- <-; split; [reflexivity|discriminate]|].
        destruct (c_empty_item (s_c s2)); injection H as <- <-; split; auto; try discriminate.
    - destruct (Z.ltb_spec indent offset) as [Hlt|Hge]; destruct (lcc =? 0) eqn:E0; cbn [orb andb negb] in H.
      + injection H as <- <-. split; [reflexivity|discriminate].
      + injection H as <- <-. split; [reflexivity|discriminate].
      + destruct (c_empty_item (s_c s2)); injection H as <- <-; split; auto; try discriminate.
      + destruct (c_empty_item (s_c s2)); injection H as <- <-; split; auto; try discriminate. }
  csplit; auto. intros Hc offset' Eo' Hb.
  assert (offset' = offset).
  { rewrite H2 in Eo'. rewrite <- Eh1 in Eo'. unfold src_of in *. congruence. }
  subst offset'. unfold indent_of. destruct (rkey_view _ _ H3) as [Ev [Ecol _]]. rewrite Ev, Ecol.
  fold line. rewrite <- Eoff'. exact (Hv Hc).
Qed.

End D.
