(* The table paragraph transformer (model/TableX.v transform) on lines inside the source: the cells
   of the table it yields lie inside the source (GfmWfDefs.table_ok), the lines it leaves in the
   paragraph are a prefix of the paragraph's lines, followed by at least the header line and the
   delimiter line; and it never panics or runs out of fuel on such lines. *)
Require Import GM.model.Base GM.model.Util GM.model.Reader GM.model.ReaderSpec GM.model.Html GM.model.TableX.
Require Import GM.proofs.ParseInv GM.proofs.ParseBlocksRangeA GM.proofs.TableProofs GM.proofs.GfmWfDefs.
From Coq Require Import List ZArith Lia Bool.
Import ListNotations.
Open Scope Z_scope.

Section Tab.
Variable space_table : list N.
Variable src : bytes.

(* ---------- slices and trims of a segment inside the source ---------- *)

Lemma tab_slice_ok a b : 0 <= a -> a <= b -> b <= zlen src ->
  exists v, slice src a b = Ok v /\ zlen v = b - a.
Proof.
  intros H0 H1 H2. unfold slice.
  destruct (Z.leb_spec 0 a) as [_|Hn]; [|lia].
  destruct (Z.leb_spec a b) as [_|Hn]; [|lia].
  destruct (Z.leb_spec b (zlen src)) as [_|Hn]; [|lia].
  cbn [andb]. eexists. split; [reflexivity|].
  unfold zlen in *. rewrite firstn_length, skipn_length. lia.
Qed.

Lemma tab_tls_range (v : bytes) : 0 <= trim_left_space_len space_table v <= zlen v.
Proof.
  induction v as [|c r IH]; cbn [trim_left_space_len]; unfold zlen in *; cbn [length].
  - lia.
  - destruct (Util.is_space space_table c); lia.
Qed.

Lemma tab_trs_range (v : bytes) : 0 <= trim_right_space_len space_table v <= zlen v.
Proof.
  unfold trim_right_space_len. pose proof (tab_tls_range (rev v)) as H.
  unfold zlen in *. rewrite rev_length in H. exact H.
Qed.

(* TrimLeftSpace then TrimRightSpace of a segment inside the source: a segment inside the
   given one, without padding *)
Lemma tab_trim_both t : 0 <= s_start t -> s_start t <= s_stop t -> s_stop t <= zlen src ->
  exists s1 s2, seg_trim_left_space space_table src t = Ok s1 /\
                seg_trim_right_space space_table src s1 = Ok s2 /\
                s_start t <= s_start s2 /\ s_start s2 <= s_stop s2 /\ s_stop s2 <= s_stop t /\
                s_pad s2 = 0 /\ s_fnl s2 = false.
Proof.
  intros H0 H1 H2. unfold seg_trim_left_space.
  destruct (tab_slice_ok (s_start t) (s_stop t) H0 H1 H2) as [v [Hv Hlv]].
  rewrite Hv. cbn [bind].
  pose proof (tab_tls_range v) as Hb.
  exists (mkseg (s_start t + trim_left_space_len space_table v) (s_stop t)).
  unfold seg_trim_right_space. cbn [mkseg s_start s_stop s_pad s_fnl].
  destruct (tab_slice_ok (s_start t + trim_left_space_len space_table v) (s_stop t)) as [w [Hw Hlw]];
    [lia|lia|lia|].
  rewrite Hw. cbn [bind].
  pose proof (tab_trs_range w) as Hc.
  destruct (Z.eqb_spec (trim_right_space_len space_table w) (zlen w)) as [E|E].
  - eexists. split; [reflexivity|]. split; [reflexivity|].
    cbn [mkseg s_start s_stop s_pad s_fnl]. repeat split; lia.
  - eexists. split; [reflexivity|]. split; [reflexivity|].
    cbn [mksegp s_start s_stop s_pad s_fnl]. repeat split; lia.
Qed.

(* Segment.Value of a segment inside the source with non-negative padding *)
Lemma tab_seg_value_inr sg : seg_inr src sg -> exists v, seg_value src sg = Ok v.
Proof.
  unfold seg_inr. intros [[H0 H1] [H2 H3]]. unfold seg_value.
  destruct (tab_slice_ok (s_start sg) (s_stop sg) H0 H1 H2) as [v [Hv _]].
  rewrite Hv. cbn [bind].
  destruct (Z.ltb_spec (s_pad sg) 0) as [Hn|_]; [lia|].
  destruct (s_fnl sg).
  - destruct (rev _) as [|c r]; [eexists; reflexivity|].
    destruct (N.eqb c 10); eexists; reflexivity.
  - eexists; reflexivity.
Qed.

(* Segment.Value of a segment without padding is the slice *)
Lemma tab_seg_value_nopad sg : 0 <= s_start sg -> s_start sg <= s_stop sg -> s_stop sg <= zlen src ->
  s_pad sg = 0 -> s_fnl sg = false ->
  exists v, seg_value src sg = Ok v /\ zlen v = s_stop sg - s_start sg.
Proof.
  intros H0 H1 H2 Hp Hf. unfold seg_value.
  destruct (tab_slice_ok (s_start sg) (s_stop sg) H0 H1 H2) as [v [Hv Hl]].
  rewrite Hv, Hp, Hf. cbn [bind].
  exists v. split; [reflexivity|exact Hl].
Qed.

(* ---------- parse_cells ---------- *)

Lemma tab_fcp_ge : forall v i prev, i <= find_closure_pipe v i prev.
Proof.
  induction v as [|c r IH]; intros i prev; cbn [find_closure_pipe].
  - lia.
  - destruct ((c =? 124)%N && negb (prev =? 92)%N); [lia|].
    pose proof (IH (i + 1) c). lia.
Qed.

Lemma tab_padding_ok (aligns : list align) :
  Forall (cell_ok src) (map (fun _ : align => (@None seg, ANone)) aligns).
Proof.
  induction aligns as [|a t IH]; cbn [map]; constructor; [exact I|exact IH].
Qed.

Lemma tab_parse_cells_ok : forall fuel line base pos limit aligns hdr,
  0 <= base -> 0 <= pos -> base + limit <= zlen src ->
  1 <= Z.of_nat fuel -> limit - pos + 1 <= Z.of_nat fuel ->
  exists cells, parse_cells space_table fuel src line base pos limit aligns hdr = Ok cells /\
                Forall (cell_ok src) cells.
Proof.
  induction fuel as [|f IH]; intros line base pos limit aligns hdr Hb Hp Hl Hf1 Hf2.
  - cbn in Hf1. lia.
  - cbn [parse_cells].
    destruct (Z.ltb_spec pos limit) as [Hlt|Hge].
    + assert (Hstep : forall (a : align) (al : list align),
        let prev := if (pos =? 0)%Z then 0%N else nth (Z.to_nat (pos - 1)) line 0%N in
        let closure := Z.min limit (find_closure_pipe (skipn (Z.to_nat pos) (firstn (Z.to_nat limit) line)) pos prev) in
        exists cells,
          (s1 <- seg_trim_left_space space_table src (mkseg (base + pos) (base + closure)) ;;
           s2 <- seg_trim_right_space space_table src s1 ;;
           rest <- parse_cells space_table f src line base (closure + 1)%Z limit al hdr ;;
           Ok ((Some s2, a) :: rest)) = Ok cells /\ Forall (cell_ok src) cells).
      { intros a al prev closure.
        assert (Hc : pos <= closure <= limit).
        { unfold closure.
          pose proof (tab_fcp_ge (skipn (Z.to_nat pos) (firstn (Z.to_nat limit) line)) pos prev). lia. }
        destruct (tab_trim_both (mkseg (base + pos) (base + closure))) as [s1 [s2 [E1 [E2 [R1 [R2 [R3 [R4 R5]]]]]]]];
          cbn [mkseg s_start s_stop]; try lia.
        cbn [mkseg s_start s_stop] in R1, R3.
        destruct (IH line base (closure + 1) limit al hdr) as [rest [Er Hr]]; try lia.
        rewrite E1. cbn [bind]. rewrite E2. cbn [bind]. rewrite Er. cbn [bind].
        eexists. split; [reflexivity|].
        constructor; [|exact Hr].
        unfold cell_ok, cseg_ok. cbn [fst]. repeat split; try assumption; lia. }
      destruct aligns as [|a0 t]; [destruct hdr|].
      * apply Hstep.
      * eexists. split; [reflexivity|constructor].
      * apply Hstep.
    + destruct hdr.
      * eexists. split; [reflexivity|constructor].
      * eexists. split; [reflexivity|apply tab_padding_ok].
Qed.

(* ---------- parse_row, parse_rows ---------- *)

Lemma tab_parse_row_ok sg aligns hdr : seg_inr src sg ->
  exists cells, parse_row space_table src sg aligns hdr = Ok cells /\ Forall (cell_ok src) cells.
Proof.
  unfold seg_inr. intros [[H0 H1] [H2 _]]. unfold parse_row.
  destruct (tab_trim_both sg H0 H1 H2) as [s1 [s2 [E1 [E2 [R1 [R2 [R3 [R4 R5]]]]]]]].
  rewrite E1. cbn [bind]. rewrite E2. cbn [bind].
  destruct (tab_seg_value_nopad s2) as [line [Ev Hlen]]; try assumption; try lia.
  rewrite Ev. cbn [bind].
  assert (Hn : 0 <= zlen line) by (unfold zlen; lia).
  assert (Hfuel : Z.of_nat (length line + 2) = zlen line + 2) by (unfold zlen; lia).
  cbv zeta.
  match goal with
  | |- context [parse_cells _ _ _ _ _ ?p ?l _ _] => set (pos := p); set (limit := l)
  end.
  assert (Hpos : 0 <= pos <= 1).
  { unfold pos. destruct line as [|c r]; [lia|].
    destruct c as [|p]; [lia|]. do 7 (destruct p as [p|p|]; try lia). }
  assert (Hlim : limit <= zlen line).
  { unfold limit. destruct (rev line) as [|c r]; [lia|].
    destruct c as [|p]; [lia|]. do 7 (destruct p as [p|p|]; try lia). }
  apply tab_parse_cells_ok; lia.
Qed.

(* parse_rows on lines inside the source *)
Lemma tab_parse_rows_ok aligns : forall ls, Forall (seg_inr src) ls ->
  exists rows, parse_rows space_table src ls aligns = Ok rows /\ Forall (Forall (cell_ok src)) rows.
Proof.
  induction ls as [|l r IH]; intros Hls; cbn [parse_rows].
  - eexists. split; [reflexivity|constructor].
  - inversion Hls as [|x xs Hl Hr]; subst x xs.
    destruct (tab_parse_row_ok l aligns false Hl) as [row [Erow Hrow]].
    destruct (IH Hr) as [rest [Erest Hrest]].
    rewrite Erow. cbn [bind]. rewrite Erest. cbn [bind].
    eexists. split; [reflexivity|constructor; assumption].
Qed.

(* ---------- transform ---------- *)

Definition tab_result_ok (all : list seg) (r : option (list seg * table)) : Prop :=
  match r with
  | Some (kept, tbl) => table_ok src tbl /\ exists hdr delim rest, all = kept ++ hdr :: delim :: rest
  | None => True
  end.

Lemma tab_transform_from_ok : forall fuel before prev rest,
  (length rest < fuel)%nat -> seg_inr src prev -> Forall (seg_inr src) rest ->
  exists r, transform_from space_table fuel src before prev rest = Ok r /\
            tab_result_ok (before ++ prev :: rest) r.
Proof.
  induction fuel as [|f IH]; intros before prev rest Hf Hprev Hrest.
  - lia.
  - cbn [transform_from].
    destruct rest as [|cur after].
    + eexists. split; [reflexivity|exact I].
    + inversion Hrest as [|x xs Hcur Hafter]; subst x xs.
      destruct (tab_seg_value_inr cur Hcur) as [line Eline].
      rewrite Eline. cbn [bind].
      destruct (parse_delimiter space_table line) as [aligns|].
      * destruct (tab_parse_row_ok prev aligns true Hprev) as [header [Eh Hh]].
        rewrite Eh. cbn [bind].
        destruct (negb (Nat.eqb (length aligns) (length header))).
        -- eexists. split; [reflexivity|exact I].
        -- destruct (tab_parse_rows_ok aligns after Hafter) as [rows [Er Hr]].
           rewrite Er. cbn [bind].
           eexists. split; [reflexivity|].
           cbn [tab_result_ok]. split.
           ++ unfold table_ok. cbn [t_header t_rows]. split; assumption.
           ++ exists prev, cur, after. reflexivity.
      * cbn [length] in Hf.
        destruct (IH (before ++ [prev]) cur after) as [r [Er Hr]]; [lia|exact Hcur|exact Hafter|].
        exists r. split; [exact Er|].
        rewrite <- app_assoc in Hr. exact Hr.
Qed.

Lemma tab_transform_ok lines : Forall (seg_inr src) lines ->
  exists r, TableX.transform space_table src lines = Ok r /\ tab_result_ok lines r.
Proof.
  intros Hl. unfold transform.
  destruct lines as [|l0 rest].
  - eexists. split; [reflexivity|exact I].
  - inversion Hl as [|x xs H0 Hrest]; subst x xs.
    destruct (tab_transform_from_ok (length (l0 :: rest) + 1) [] l0 rest) as [r [Er Hr]];
      [cbn [length]; lia|exact H0|exact Hrest|].
    exists r. split; [exact Er|exact Hr].
Qed.

(* seg_inr src sg (ParseBlocksRangeA.v) : 0 <= s_start sg <= s_stop sg /\ s_stop sg <= zlen src /\ 0 <= s_pad sg *)
Theorem transform_range : forall lines before tbl,
  Forall (seg_inr src) lines ->
  TableX.transform space_table src lines = Ok (Some (before, tbl)) ->
  table_ok src tbl /\ exists hdr delim rest, lines = before ++ hdr :: delim :: rest.
Proof.
  intros lines before tbl Hl H.
  destruct (tab_transform_ok lines Hl) as [r [Er Hr]].
  rewrite H in Er. inversion Er; subst r. exact Hr.
Qed.

(* second priority *)
Theorem transform_total : forall lines,
  Forall (seg_inr src) lines ->
  exists r, TableX.transform space_table src lines = Ok r.
Proof.
  intros lines Hl.
  destruct (tab_transform_ok lines Hl) as [r [Er _]].
  exists r. exact Er.
Qed.

End Tab.
