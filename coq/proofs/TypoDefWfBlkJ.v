(* Helper library for TypoDefWfBlk.v, part J: the link reference definition transformer (transformParagraph).
   Uses the complete sibling file ParseBlocksTotalLrd.v (lrd_lines_total: the new lines are a sublist of the old ones)
   and BReaderProofs.v (new_block_reader_spec), both required without Import. *)
Require Import GM.model.Base GM.model.Util GM.model.Reader GM.model.ReaderSpec GM.model.Blocks GM.model.ListItem
               GM.model.LeafBlocks GM.model.CodeBlock GM.model.LinkDest GM.model.Regex GM.model.HtmlWriter
               GM.model.Html GM.model.HtmlSpec GM.model.BlockParse GM.model.InlineParse GM.model.TypoDefParseD.
Require Import GM.proofs.ReaderProofs GM.proofs.BlockRangeProofs GM.proofs.ParseInv
               GM.proofs.ParseBlocksRangeA GM.proofs.TypoDefWfBlkB GM.proofs.TypoDefWfBlkT GM.proofs.TypoDefWfBlkC
               GM.proofs.TypoDefWfBlkD.
Require GM.proofs.BReaderProofs GM.proofs.ParseBlocksTotalLrd.
From Coq Require Import ZArith Lia Sorted.
Open Scope Z_scope.

(* ================= the reference map: destinations and titles are byte strings ================= *)
(* ---------- byte strings (copies of the lemmas of ParseInlineRangeReader.v, kept here so that this file
   does not depend on the ParseInlineRange* files) ---------- *)
Lemma J_bytes_ok_app a b : bytes_ok a -> bytes_ok b -> bytes_ok (a ++ b).
Proof. unfold bytes_ok, all_bytes_b. rewrite forallb_app. intros -> ->. reflexivity. Qed.
Lemma J_bytes_ok_sub (v w : bytes) : (forall x, In x w -> In x v) -> bytes_ok v -> bytes_ok w.
Proof.
  unfold bytes_ok, all_bytes_b. rewrite !forallb_forall. intros Hs Hv x Hx. apply Hv. apply Hs. exact Hx.
Qed.
Lemma J_in_firstn {A} n (l : list A) x : In x (firstn n l) -> In x l.
Proof. revert l. induction n as [|n IH]; intros [|a l]; cbn [firstn In]; try tauto. intros [H|H]; auto. Qed.
Lemma J_in_skipn {A} n (l : list A) x : In x (skipn n l) -> In x l.
Proof. revert l. induction n as [|n IH]; intros [|a l]; cbn [skipn In]; try tauto. intros H; auto. Qed.
Lemma J_bytes_ok_spaces p : bytes_ok (spaces_n p).
Proof.
  unfold spaces_n, bytes_ok, all_bytes_b. rewrite forallb_forall. intros x Hx. apply repeat_spec in Hx. subst x. reflexivity.
Qed.
Lemma J_slice_bytes src a b v : bytes_ok src -> slice src a b = Ok v -> bytes_ok v.
Proof.
  unfold slice. intros Hs. destruct (_ && _ && _)%bool; [|discriminate]. intros H. injection H as <-.
  eapply J_bytes_ok_sub; [|exact Hs]. intros x Hx. apply J_in_firstn in Hx. apply J_in_skipn in Hx. exact Hx.
Qed.
Lemma J_seg_value_bytes src t v : bytes_ok src -> seg_value src t = Ok v -> bytes_ok v.
Proof.
  unfold seg_value. intros Hs H. bind_inv H w E. pose proof (J_slice_bytes _ _ _ _ Hs E) as Hw.
  set (r := if s_pad t =? 0 then w else if s_pad t <? 0 then w else spaces_n (s_pad t) ++ w) in *.
  assert (bytes_ok r) as Hr.
  { subst r. destruct (s_pad t =? 0); [exact Hw|]. destruct (s_pad t <? 0); [exact Hw|].
    apply J_bytes_ok_app; [apply J_bytes_ok_spaces|exact Hw]. }
  destruct (s_pad t <? 0); [discriminate|]. destruct (s_fnl t).
  - destruct (rev r) as [|c rr]; [injection H as <-; exact Hr|].
    destruct (N.eqb c 10); injection H as <-; [exact Hr|].
    apply J_bytes_ok_app; [exact Hr|reflexivity].
  - injection H as <-. exact Hr.
Qed.

Lemma J_b_value_loop_bytes : forall fuel r sg line i acc v, bytes_ok (b_src r) -> bytes_ok acc ->
  b_value_loop fuel r sg line i acc = Ok v -> bytes_ok v.
Proof.
  induction fuel as [|f IH]; intros r sg line i acc v Hs Ha H; cbn [b_value_loop] in H; [discriminate|].
  destruct (line <? b_nsegs r); [|injection H as <-; exact Ha].
  bind_inv H s Es.
  assert (forall t, bytes_ok (pad_bytes t)) as Hp.
  { intros t. unfold pad_bytes. destruct (0 <? s_pad t); [apply J_bytes_ok_spaces|reflexivity]. }
  assert (forall j w, copy_range (b_src r) j (s_stop sg) (s_stop s) = Ok w -> bytes_ok w) as Hcr.
  { intros j w Ec. unfold copy_range in Ec. destruct (j <? Z.min (s_stop sg) (s_stop s)); [eapply J_slice_bytes; [exact Hs|exact Ec]|injection Ec as <-; reflexivity]. }
  destruct (i <? 0); bind_inv H w Ec; apply Hcr in Ec.
  - destruct (s_stop sg <=? s_stop s).
    + injection H as <-. repeat apply J_bytes_ok_app; auto.
    + eapply IH; [exact Hs| |exact H]. repeat apply J_bytes_ok_app; auto.
  - destruct (s_stop sg <=? s_stop s).
    + injection H as <-. repeat apply J_bytes_ok_app; auto.
    + eapply IH; [exact Hs| |exact H]. repeat apply J_bytes_ok_app; auto.
Qed.

Lemma J_b_value_bytes r sg v : bytes_ok (b_src r) -> b_value r sg = Ok v -> bytes_ok v.
Proof.
  unfold b_value. intros Hs H. destruct (_ <? 0); [discriminate|]. bind_inv H line El.
  destruct (s_start sg <? 0).
  - apply (J_b_value_loop_bytes _ _ _ _ _ [] _ Hs eq_refl H).
  - destruct (line <? 0).
    + destruct (0 <? b_nsegs r); [discriminate|]. injection H as <-. reflexivity.
    + apply (J_b_value_loop_bytes _ _ _ _ _ [] _ Hs eq_refl H).
Qed.

(* the destination consists of bytes of the line *)
Lemma J_pld_sub stbl ptbl line d adv : parse_link_destination stbl ptbl line = Some (d, adv) ->
  forall x, In x d -> In x line.
Proof.
  unfold parse_link_destination. intros H.
  assert (forall i, (if i =? 0 then None else Some (zfirst i line, i)) = Some (d, adv) ->
                    forall x, In x d -> In x line) as Hbare.
  { intros i E. destruct (i =? 0); [discriminate|]. injection E as <- _. intros x Hx. unfold zfirst in Hx.
    eapply J_in_firstn. exact Hx. }
  destruct line as [|c rest]; [cbn in H; discriminate|].
  destruct (N.eqb_spec c 60) as [->|Hne].
  - destruct (angle_close ptbl (S (length (60%N :: rest))) rest 1) as [i|]; [|discriminate].
    injection H as <- _. intros x Hx. right. unfold zfirst in Hx. eapply J_in_firstn. exact Hx.
  - refine (Hbare (bare_end stbl ptbl (S (length (c :: rest))) (c :: rest) 0 0) _). destruct c as [|p]; [exact H|].
    do 7 (try (destruct p as [p|p|]; try exact H)). congruence.
Qed.

(* ---------- the block reader keeps its source ---------- *)
Lemma b_set_position_src r line pos r' : b_set_position r line pos = Ok r' -> b_src r' = b_src r.
Proof.
  unfold b_set_position. intros H.
  destruct (s_start pos =? -1); destruct (_ <? _); try (bind_inv H s Es); injection H as <-; reflexivity.
Qed.

Lemma b_advance_line_src r r' : b_advance_line r = Ok r' -> b_src r' = b_src r.
Proof.
  unfold b_advance_line. intros H. bind_inv H r1 E1. injection H as <-. apply b_set_position_src in E1. exact E1.
Qed.

Lemma b_advance_slow_src : forall fuel r n r', b_advance_slow fuel r n = Ok r' -> b_src r' = b_src r.
Proof.
  induction fuel as [|f IH]; intros r n r' H; [discriminate|]. cbn [b_advance_slow] in H.
  destruct (0 <? n); [|injection H as <-; reflexivity].
  destruct (negb (s_pad (b_pos r) =? 0)); [apply IH in H; exact H|].
  destruct (_ && _).
  - bind_inv H r1 E1. apply IH in H. apply b_advance_line_src in E1. congruence.
  - apply IH in H. exact H.
Qed.

Lemma b_advance_src r n r' : b_advance r n = Ok r' -> b_src r' = b_src r.
Proof.
  unfold b_advance. intros H. destruct (_ && _); [injection H as <-; reflexivity|].
  apply b_advance_slow_src in H. exact H.
Qed.

(* PeekLine does not change the reader; the line consists of bytes *)
Lemma b_peek_line_bytes r r' l sg : bytes_ok (b_src r) -> b_peek_line r = Ok (r', l, sg) ->
  r' = r /\ bytes_ok (line_of l).
Proof.
  unfold b_peek_line. intros Hs H. destruct (b_in_range r).
  - bind_inv H v Ev. injection H as <- <- <-. split; [reflexivity|]. cbn [line_of].
    eapply J_seg_value_bytes; eassumption.
  - injection H as <- <- <-. split; reflexivity.
Qed.

Lemma ssi_src tbl : forall l i r chars sg r' res,
  skip_spaces_inner tbl breader b_advance l i r chars sg = Ok (r', res) -> b_src r' = b_src r.
Proof.
  induction l as [|c l IH]; intros i r chars sg r' res H; cbn [skip_spaces_inner] in H.
  - injection H as <- <-. reflexivity.
  - destruct (is_space tbl c); [|injection H as <- <-; reflexivity].
    bind_inv H r1 E1. apply IH in H. apply b_advance_src in E1. congruence.
Qed.

Lemma skip_spaces_src tbl : forall fuel r chars r' sg ch ok, bytes_ok (b_src r) ->
  skip_spaces tbl breader b_peek_line b_advance fuel r chars = Ok (r', sg, ch, ok) -> b_src r' = b_src r.
Proof.
  induction fuel as [|f IH]; intros r chars r' sg ch ok Hs H; [discriminate|]. cbn [skip_spaces] in H.
  bind_inv H x Ex. destruct x as [[r1 l] sg1]. destruct (b_peek_line_bytes _ _ _ _ Hs Ex) as [-> _].
  destruct l as [l|]; [|injection H as <- <- <- <-; reflexivity].
  bind_inv H y Ey. destruct y as [r2 [[sg' ch']|]].
  - injection H as <- <- <- <-. eapply ssi_src. exact Ey.
  - apply ssi_src in Ey. apply IH in H; [congruence|]. rewrite Ey. exact Hs.
Qed.

Lemma fc_lines_src ptbl opts o c : forall fuel r opened cso ret r' res, bytes_ok (b_src r) ->
  fc_lines ptbl breader b_peek_line b_advance b_advance_line fuel opts o c r opened cso ret = Ok (r', res) ->
  b_src r' = b_src r.
Proof.
  induction fuel as [|f IH]; intros r opened cso ret r' res Hs H; [discriminate|]. cbn [fc_lines] in H.
  bind_inv H x Ex. destruct x as [[r1 l] sg1]. destruct (b_peek_line_bytes _ _ _ _ Hs Ex) as [-> _].
  destruct l as [bs|]; [|injection H as <- <-; reflexivity].
  bind_inv H s Es. destruct s as [i| |opened' cso'].
  - bind_inv H r2 E2. injection H as <- <-. eapply b_advance_src. exact E2.
  - injection H as <- <-. reflexivity.
  - destruct (negb (o_newline opts)); [injection H as <- <-; reflexivity|].
    bind_inv H r2 E2. apply b_advance_line_src in E2. apply IH in H; [congruence|]. rewrite E2. exact Hs.
Qed.

Lemma find_closure_src ptbl fuel r o c opts r' res : bytes_ok (b_src r) ->
  b_find_closure ptbl fuel r o c opts = Ok (r', res) -> b_src r' = b_src r.
Proof.
  unfold b_find_closure, find_closure, b_position. intros Hs H. bind_inv H x Ex. destruct x as [r1 res1].
  apply fc_lines_src in Ex; [|exact Hs]. bind_inv H r2 E2. injection H as <- <-.
  destruct (negb (o_advance opts)); [apply b_set_position_src in E2|injection E2 as <-]; congruence.
Qed.

Lemma concat_values_bytes r l v : bytes_ok (b_src r) -> concat_values r l = Ok v -> bytes_ok v.
Proof.
  intros Hs. revert v. induction l as [|x t IH]; intros v H; cbn [concat_values] in H.
  - injection H as <-. reflexivity.
  - bind_inv H a Ea. bind_inv H w Ew. injection H as <-.
    apply J_bytes_ok_app; [eapply J_b_value_bytes; eassumption|apply IH; exact Ew].
Qed.

Lemma b_pld_bytes stbl ptbl r r' dest : bytes_ok (b_src r) ->
  b_parse_link_destination stbl ptbl r = Ok (r', dest) ->
  b_src r' = b_src r /\ forall d, dest = Some d -> bytes_ok d.
Proof.
  unfold b_parse_link_destination. intros Hs H. bind_inv H x Ex. destruct x as [[[r1 sg] ch] ok].
  apply skip_spaces_src in Ex; [|exact Hs]. rewrite <- Ex in Hs.
  bind_inv H y Ey. destruct y as [[r2 line] sg2]. destruct (b_peek_line_bytes _ _ _ _ Hs Ey) as [-> Hl].
  destruct (parse_link_destination stbl ptbl (line_of line)) as [[d adv]|] eqn:Ed.
  - bind_inv H r3 E3. injection H as <- <-. apply b_advance_src in E3. split; [congruence|].
    intros d0 E0. injection E0 as <-. eapply J_bytes_ok_sub; [|exact Hl].
    exact (J_pld_sub _ _ _ _ _ Ed).
  - injection H as <- <-. split; [exact Ex|discriminate].
Qed.

Local Ltac dif H := match type of H with (if ?b then _ else _) = _ => destruct b end.

Section Refs.
Variable space_table punct_table : list N.
Variable norm : bytes -> bytes.

Lemma add_ref_ok c label dest title : refs_ok (c_refs c) -> bytes_ok dest -> (forall t, title = Some t -> bytes_ok t) ->
  refs_ok (c_refs (add_ref norm c label dest title)).
Proof.
  intros Hr Hd Ht. unfold add_ref. destruct (existsb _ _); [exact Hr|]. cbn [cset_refs c_refs].
  apply Forall_app. split; [exact Hr|]. constructor; [|constructor]. cbn [fst snd]. split; assumption.
Qed.

Definition lrd_res (r : breader) (c : pctx) (x : breader * pctx * Z * Z) : Prop :=
  let '(r', c', _, _) := x in b_src r' = b_src r /\ refs_ok (c_refs c').

Lemma parse_lrd_refs r c x : bytes_ok (b_src r) -> refs_ok (c_refs c) ->
  parse_lrd space_table punct_table norm r c = Ok x -> lrd_res r c x.
Proof.
  intros Hs Hc H. unfold parse_lrd in H. cbv zeta in H.
  assert (forall r1, b_src r1 = b_src r -> lrd_res r c (r1, c, -1, -1)) as Hnone.
  { intros r1 E. split; assumption. }
  assert (forall r1 label dest title a b, b_src r1 = b_src r -> bytes_ok dest -> (forall t, title = Some t -> bytes_ok t) ->
            lrd_res r c (r1, add_ref norm c label dest title, a, b)) as Hsome.
  { intros r1 label dest title a b E Hd Ht. split; [exact E|]. apply add_ref_ok; assumption. }
  assert (forall t : bytes, @None bytes = Some t -> bytes_ok t) as HN by discriminate.
  bind_inv H x1 E1. destruct x1 as [[[r1 sg1] ch1] ok1]. apply skip_spaces_src in E1; [|exact Hs].
  assert (bytes_ok (b_src r1)) as Hs1 by (rewrite E1; exact Hs).
  bind_inv H y1 Ey1. destruct y1 as [[r1' line] sg]. destruct (b_peek_line_bytes _ _ _ _ Hs1 Ey1) as [-> _].
  destruct line as [line|]; [|injection H as <-; auto].
  destruct (indent_width line 0) as [width pos].
  destruct (3 <? width); [injection H as <-; auto|].
  bind_inv H ch Ech. destruct (negb (N.eqb ch 91)); [injection H as <-; auto|].
  bind_inv H r2 E2. apply b_advance_src in E2.
  assert (bytes_ok (b_src r2)) as Hs2 by (rewrite E2; exact Hs1).
  bind_inv H z Ez. destruct z as [r3 segs]. apply find_closure_src in Ez; [|exact Hs2].
  assert (b_src r3 = b_src r) as E3 by congruence.
  destruct segs as [segs|]; [|injection H as <-; auto].
  bind_inv H label El. destruct (Reader.is_blank space_table label); [injection H as <-; auto|].
  bind_inv H pk Epk. destruct (negb (N.eqb pk 58)); [injection H as <-; auto|].
  bind_inv H r4 E4. apply b_advance_src in E4.
  assert (bytes_ok (b_src r4)) as Hs4 by (rewrite E4, E3; exact Hs).
  bind_inv H x2 Ex2. destruct x2 as [[[r5 sg5] ch5] ok5]. apply skip_spaces_src in Ex2; [|exact Hs4].
  assert (bytes_ok (b_src r5)) as Hs5 by (rewrite Ex2; exact Hs4).
  bind_inv H d Ed. destruct d as [r6 dest]. destruct (b_pld_bytes _ _ _ _ _ Hs5 Ed) as [E6 Hdest].
  assert (b_src r6 = b_src r) as E6' by congruence.
  destruct dest as [dest|]; [|injection H as <-; auto].
  specialize (Hdest dest eq_refl).
  assert (bytes_ok (b_src r6)) as Hs6 by (rewrite E6'; exact Hs).
  bind_inv H y2 Ey2. destruct y2 as [[r6' line2] sg2]. destruct (b_peek_line_bytes _ _ _ _ Hs6 Ey2) as [-> _].
  bind_inv H x3 Ex3. destruct x3 as [[[r7 sg7] spaces] ok7]. apply skip_spaces_src in Ex3; [|exact Hs6].
  assert (b_src r7 = b_src r) as E7 by congruence.
  bind_inv H opener Eop.
  destruct (negb (N.eqb opener 34 || N.eqb opener 39 || N.eqb opener 40)).
  { dif H; injection H as <-; auto. }
  destruct (spaces =? 0); [injection H as <-; auto|].
  bind_inv H r8 E8. apply b_advance_src in E8.
  assert (bytes_ok (b_src r8)) as Hs8 by (rewrite E8, E7; exact Hs).
  bind_inv H z2 Ez2. destruct z2 as [r9 tsegs]. apply find_closure_src in Ez2; [|exact Hs8].
  assert (b_src r9 = b_src r) as E9 by congruence.
  destruct tsegs as [tsegs|].
  - bind_inv H title Et. assert (bytes_ok (b_src r9)) as Hs9 by (rewrite E9; exact Hs).
    pose proof (concat_values_bytes _ _ _ Hs9 Et) as Htitle.
    assert (forall t, Some title = Some t -> bytes_ok t) as HT by (intros t E; injection E as <-; exact Htitle).
    bind_inv H y3 Ey3. destruct y3 as [[r9' line3] sg3]. destruct (b_peek_line_bytes _ _ _ _ Hs9 Ey3) as [-> _].
    destruct line3 as [l3|]; [|injection H as <-; auto].
    destruct (negb (Reader.is_blank space_table l3)); [|injection H as <-; auto].
    dif H; injection H as <-; auto.
  - dif H; [injection H as <-; auto|].
    bind_inv H r10 E10. apply b_advance_line_src in E10. injection H as <-. apply Hsome; auto. congruence.
Qed.

Lemma lrd_loop_refs : forall fuel r c rem c' rem', bytes_ok (b_src r) -> refs_ok (c_refs c) ->
  lrd_loop space_table punct_table norm fuel r c rem = Ok (c', rem') -> refs_ok (c_refs c').
Proof.
  induction fuel as [|f IH]; intros r c rem c' rem' Hs Hc H; [discriminate|]. cbn [lrd_loop] in H.
  bind_inv H x Ex. pose proof (parse_lrd_refs _ _ _ Hs Hc Ex) as Hx. destruct x as [[[r1 c1] a] b].
  destruct Hx as [E1 Hc1]. destruct (-1 <? a).
  - eapply IH; [|exact Hc1|exact H]. rewrite E1. exact Hs.
  - injection H as <- <-. exact Hc1.
Qed.
End Refs.

(* ================= the lines: a sublist of the paragraph's lines ================= *)
Local Notation sublist := ParseBlocksTotalLrd.sublist.

Lemma Adj_tail a l q x : Adj (a :: l) q x -> In x l.
Proof.
  intros H. apply Adj_cons in H. destruct H as [[_ [t ->]]|H]; [left; reflexivity|]. exact (proj2 (Adj_in _ _ _ H)).
Qed.

Lemma nodup_dropD_ne (A D N : list (nat * bparser)) e y :
  NoDup (ids (A ++ (D ++ [e]) ++ N)) -> In y (ids (A ++ D ++ N)) -> y <> fst e.
Proof.
  rewrite !ids_app. cbn [ids map]. intros Hnd Hy ->.
  rewrite <- app_assoc in Hnd. cbn [app] in Hnd. rewrite app_assoc in Hnd. apply NoDup_remove_2 in Hnd.
  apply Hnd. rewrite <- app_assoc. exact Hy.
Qed.

Section J0.
Variable space_table : list N.
Variable src : bytes.
Notation nodeP := (nodeP space_table src).
Notation heapS := (heapS space_table src).
Notation pline := (pline space_table src).

Lemma sorted_sublist (l' l : list seg) : sublist l' l -> sorted_segs l -> sorted_segs l'.
Proof.
  intros H. induction H as [|y l1 l2 H IH|y l1 l2 H IH]; intros Hs.
  - exact Hs.
  - inversion Hs as [|? ? Ht Hy]; subst. apply IH. exact Ht.
  - inversion Hs as [|? ? Ht Hy]; subst. constructor; [apply IH; exact Ht|].
    eapply ParseBlocksTotalLrd.Forall_sublist; eassumption.
Qed.

Lemma sorted_segs_sorted (l : list seg) : sorted_segs l -> segs_sorted l.
Proof.
  induction l as [|a t IH]; intros Hs; [exact I|]. inversion Hs as [|? ? Ht Ha]; subst.
  destruct t as [|b t']; [exact I|]. change (s_stop a <= s_start b /\ segs_sorted (b :: t')).
  split; [inversion Ha; assumption|apply IH; exact Ht].
Qed.

Lemma pline_seg_ok sg : pline sg -> seg_ok src sg.
Proof.
  intros [[H1 [H2 H3]] [H4 H5]].
  assert (s_start sg <> s_stop sg) as Hne.
  { intros E. rewrite sub_empty in H5 by lia. discriminate. }
  unfold seg_ok. csplit; try lia; exact H4.
Qed.

Lemma para_segs_ok n : nodeP n -> bk n = BParagraph -> segs_ok src (blines n).
Proof.
  intros Hn Hk. destruct (np_para _ _ _ Hn Hk) as [Hp [Hs _]]. split.
  - eapply Forall_impl; [|exact Hp]. apply pline_seg_ok.
  - apply sorted_segs_sorted. exact Hs.
Qed.

Lemma fin_lines_sublist (l' l : list seg) : sublist l' l -> fin_lines src l -> fin_lines src l'.
Proof.
  intros H [H1 H2]. split; [eapply ParseBlocksTotalLrd.Forall_sublist; eassumption|eapply sorted_sublist; eassumption].
Qed.

(* the paragraph with some of its lines *)
Lemma nodeP_sublines n l : nodeP n -> bk n = BParagraph -> sublist l (blines n) -> l <> [] -> nodeP (set_lines n l).
Proof.
  intros [H1 H2 H3 H4 H5 H6 H7 H8 H9] Hk Hsub Hne. destruct (H5 Hk) as [Hp [Hs _]].
  constructor; cbn [set_lines blines b_seg bk b_i1 bch]; auto; try congruence.
  - eapply ParseBlocksTotalLrd.Forall_sublist; eassumption.
  - intros _. csplit; [eapply ParseBlocksTotalLrd.Forall_sublist; eassumption|eapply sorted_sublist; eassumption|exact Hne].
  - intros E. change (is_dt (set_lines n l)) with (is_dt n) in E.
    destruct (not_html_d n ltac:(congruence)) as [_ [D2 _]]. congruence.
Qed.

(* the opened-blocks bookkeeping survives a change of the heap that keeps kinds and lines and the
   (last-)child facts about the opened nodes *)
Lemma openS_tr h h' c A D N : openS src h c A D N -> data_le h h' ->
  (forall q y, In y (ids (A ++ D ++ N)) -> lastchild h q y -> lastchild h' q y) ->
  (forall q y, In y (ids (A ++ D ++ N)) -> child h q y -> child h' q y) ->
  openS src h' c A D N.
Proof.
  intros HO Hle Hlc Hch. eapply openS_kind; [exact HO|apply data_kind_le; exact Hle| |exact Hlc|exact Hch].
  intros x n _ E. destruct (Hle x n E) as [n' [E' [_ L]]]. eauto.
Qed.

Lemma HI_refs b h c refs A D N : HI space_table src b h c A D N -> refs_ok refs ->
  HI space_table src b h (cset_refs c refs) A D N.
Proof.
  intros [H1 H2 H3 H4 H5] Hr. constructor; auto. eapply openS_ctx; [exact H4|reflexivity|reflexivity].
Qed.

(* an attached node hangs below a node of the heap *)
Lemma closing_attached h x n p : heapS h -> nth_error h x = Some n -> bpar n = Some p ->
  exists nq, nth_error h p = Some nq /\ In x (bch nq).
Proof. intros HS En Pn. exact (hs_P _ _ _ HS x n p En Pn). Qed.
End J0.

Lemma in_dropD_inv (A D N : list (nat * bparser)) e y :
  In y (ids (A ++ (D ++ [e]) ++ N)) -> y = fst e \/ In y (ids (A ++ D ++ N)).
Proof.
  rewrite !ids_app. cbn [ids map]. intros H. apply in_app_or in H. destruct H as [H|H].
  - right. apply in_or_app. left. exact H.
  - apply in_app_or in H. destruct H as [H|H].
    + apply in_app_or in H. destruct H as [H|[H|[]]]; [|left; congruence].
      right. apply in_or_app. right. apply in_or_app. left. exact H.
    + right. apply in_or_app. right. apply in_or_app. right. exact H.
Qed.

Section J.
Variable space_table punct_table : list N.
Variable norm : bytes -> bytes.
Variable re_t1o re_t1c re_t2 re_t3 re_t4 re_t5 re_t6 re_t7 : re.
Variable allowed_tags : list bytes.
Variable src : bytes.
Hypothesis sp32 : is_space space_table 32%N = true.
Set Default Proof Using "All".

(* lemmas of parts C and D take all the section variables: CC supplies them *)
Notation CC f := (f space_table punct_table norm re_t1o re_t1c re_t2 re_t3 re_t4 re_t5 re_t6 re_t7 allowed_tags src sp32) (only parsing).
Notation SInv := (SInv space_table src).
Notation HI := (HI space_table src).
Notation nodeP := (nodeP space_table src).
Notation heapS := (heapS space_table src).
Notation Jinv := (Jinv src).
Notation openS := (openS src).
Notation pline := (pline space_table src).
Notation oline := (oline src).
Notation fin_lines := (fin_lines src).
Notation fin := (fin src).
Notation cont_post := (cont_post space_table src).
Notation item_guard := (item_guard space_table).
Notation verdict := (verdict space_table).
Hypothesis Hsrc : bytes_ok src.

Lemma rd_ok_src fl r : rd_ok src fl r -> r_src r = src.
Proof.
  destruct fl; cbn [rd_ok]; [intros [_ [E _]]; exact E|intros [r0 [_ [_ [E _]]]]; exact E].
Qed.

(* transformParagraph on the last of the blocks being closed *)
Lemma transform_paragraph_ok fl s node s' gone A D N :
  SInv fl s A (D ++ [(node, PParagraph)]) N ->
  (exists n0 p0, nth_error (s_h s) node = Some n0 /\ bpar n0 = Some p0) ->
  transform_paragraph space_table punct_table norm s node = Ok (s', gone) ->
  c_arr (s_c s') = c_arr (s_c s) /\ c_len (s_c s') = c_len (s_c s) /\ c_tmp_para (s_c s') = c_tmp_para (s_c s) /\
  s_r s' = s_r s /\ (length (s_h s) <= length (s_h s'))%nat /\
  (forall n', nth_error (s_h s') node = Some n' -> (gone = true <-> bpar n' = None)) /\
  (gone = true -> SInv fl s' A D N) /\
  (gone = false -> SInv fl s' A (D ++ [(node, PParagraph)]) N /\
      forall n n', nth_error (s_h s) node = Some n -> nth_error (s_h s') node = Some n' ->
        fin_lines (blines n) -> fin_lines (blines n')) /\
  kind_le (s_h s) (s_h s').
Proof.
  intros [HR HH] [na [pa [Ena Pna]]] H. unfold transform_paragraph in H. bind_inv H s1 E1. bind_inv H n1 En1. apply hget_ok in En1.
  injection H as <- <-. unfold lrd_transform in E1. bind_inv E1 n En. apply hget_ok in En.
  assert (src_of s = src) as Esrc by (apply (rd_ok_src fl); exact HR). rewrite Esrc in E1.
  pose proof (hi_heap _ _ _ _ _ _ _ _ HH) as HS. pose proof (hi_open _ _ _ _ _ _ _ _ HH) as HO.
  assert (In (node, PParagraph) (A ++ (D ++ [(node, PParagraph)]) ++ N)) as Hin.
  { apply in_or_app; right; apply in_or_app; left; apply in_or_app; right; left; reflexivity. }
  destruct (os_pair _ _ _ _ _ _ HO node PParagraph Hin) as [n0 [En0 Kn]]. assert (n0 = n) by congruence. subst n0.
  cbn [pkind] in Kn. pose proof (hs_node _ _ _ HS _ _ En) as HnP.
  assert (na = n) by congruence. subst na. rename pa into p. rename Pna into Pn.
  destruct (closing_attached _ _ _ _ _ _ HS En Pn) as [np [Ep Hch]].
  pose proof (para_segs_ok _ _ _ HnP Kn) as Hok.
  destruct (ParseBlocksTotalLrd.lrd_lines_total space_table punct_table norm sp32 src (blines n) (s_c s) Hok)
    as [br [c1 [removes [lines' [Ebr [Eloop [[refs Ec1] [Erem Hsub]]]]]]]].
  rewrite Ebr in E1. cbn [bind] in E1. rewrite Eloop in E1. cbn [bind] in E1. cbv beta iota zeta in E1.
  rewrite Erem in E1. cbn [bind] in E1.
  assert (refs_ok (c_refs c1)) as Hrefs.
  { eapply lrd_loop_refs; [|exact (hi_refs _ _ _ _ _ _ _ _ HH)|exact Eloop].
    destruct (BReaderProofs.new_block_reader_spec src (blines n) Hok) as [br' [E' [_ [Es _]]]].
    assert (br' = br) by congruence. subst br'. rewrite Es. exact Hsrc. }
  assert (HI (rd_bound fl (s_r s)) (s_h s) c1 A (D ++ [(node, PParagraph)]) N) as HH1.
  { rewrite Ec1. apply HI_refs; [exact HH|]. rewrite Ec1 in Hrefs. exact Hrefs. }
  assert (c_arr c1 = c_arr (s_c s) /\ c_len c1 = c_len (s_c s) /\ c_tmp_para c1 = c_tmp_para (s_c s)) as [Ca [Cl Ct]].
  { rewrite Ec1. csplit; reflexivity. }
  pose proof (nth_some_lt _ _ _ En) as Hnlt. pose proof (nth_some_lt _ _ _ Ep) as Hplt.
  assert (node <> p) as Hop. { intros ->. exact (hs_noself _ _ _ HS _ _ En Pn). }
  destruct lines' as [|x l].
  - (* no line is left: a text block takes the place of the paragraph *)
    unfold new_node, halloc in E1. cbv beta iota zeta in E1. rewrite Pn in E1. bind_inv E1 h1 Er. injection E1 as <-.
    cbn [st_h st_c s_h s_c s_r] in *.
    set (tn := set_blank (mknode BTextBlock 0) (bblank n)) in *. set (h := s_h s) in *. set (t := length h) in *.
    assert (t <> p) as Hnp by lia. assert (t <> node) as Hno by lia.
    destruct (replace_child_spec _ _ _ _ _ Er Hop Hnp Hno) as [no [Eo [[Hbad _]|[Po [np' [nn [Ep' [Enn [Hlen [E1o [E1n [E1p E1x]]]]]]]]]]]];
      rewrite nth_error_app1 in Eo by exact Hnlt; assert (no = n) by congruence; subst no; [congruence|].
    rewrite nth_error_app1 in Ep' by exact Hplt. assert (np' = np) by congruence. subst np'.
    unfold t in Enn. rewrite nth_app_new in Enn. injection Enn as <-.
    assert (n1 = set_par n None) by congruence. subst n1. cbn [set_par bpar].
    assert (nth_error (h ++ [tn]) node = Some n) as Eo' by (rewrite nth_error_app1 by exact Hnlt; exact En).
    assert (nth_error (h ++ [tn]) p = Some np) as Ep'' by (rewrite nth_error_app1 by exact Hplt; exact Ep).
    assert (nth_error (h ++ [tn]) t = Some tn) as Et' by apply nth_app_new.
    assert (nodeP tn) as Htn.
    { constructor; cbn [tn set_blank mknode blines b_seg bk b_i1 bch]; try discriminate; auto.
      intros _. split; constructor. }
    pose proof (CC HI_alloc _ _ _ _ _ _ tn HH1 Htn eq_refl eq_refl ltac:(discriminate)) as [B0 S0 J0 O0 _]. fold h in B0, S0, J0, O0.
    csplit; auto.
    + rewrite Hlen, app_length. lia.
    + intros n' E'. assert (n' = set_par n None) by congruence. subst n'. cbn [set_par bpar]. split; reflexivity.
    + intros _. split; [exact HR|]. cbn [st_h st_c s_h s_c s_r]. constructor.
      * exact (Bnd_replace _ _ _ _ _ _ _ _ Eo' Et' Ep'' E1o E1n E1p E1x _ B0).
      * apply (heapS_replace space_table src _ _ _ _ _ _ _ _ Hop Hnp Hno Eo' Et' Ep'' Pn eq_refl eq_refl E1o E1n E1p E1x S0); [|discriminate].
        destruct (hs_root _ _ _ HS) as [n0 [E0 _]]. apply nth_some_lt in E0. fold h in E0. lia.
      * intros c0 nc Hc Hp.
        destruct (Jinv_replace src _ _ _ _ _ n tn np Ep'' E1o E1n E1p E1x _ J0 ltac:(intros [K|K]; discriminate) c0 nc Hc Hp) as [F|Hi];
          [left; exact F|right].
        apply in_dropD_inv in Hi. destruct Hi as [->|Hi]; [|exact Hi]. cbn [fst] in Hc.
        assert (nc = set_par n None) by congruence. subst nc. cbn [set_par bpar] in Hp. congruence.
      * apply (openS_tr src (h ++ [tn])).
        -- eapply openS_dropD. exact O0.
        -- exact (replace_data_le _ _ _ _ _ _ _ _ Eo' Et' Ep'' E1o E1n E1p E1x).
        -- intros q y Hy Hl. apply (replace_lastchild _ _ _ _ _ _ _ _ Eo' Et' Ep'' E1o E1n E1p E1x _ _ Hl).
           intros ->. exact (os_last_notin _ _ _ _ _ _ _ _ HO ltac:(discriminate) Hy).
        -- intros q y Hy Hl. apply (replace_child_keep _ _ _ _ _ _ _ _ Eo' Et' Ep'' E1o E1n E1p E1x _ _ Hl).
           intros ->. exact (os_last_notin _ _ _ _ _ _ _ _ HO ltac:(discriminate) Hy).
      * exact Hrefs.
    + discriminate.
    + eapply kind_le_trans; [apply kind_le_app|]. apply data_kind_le.
      exact (replace_data_le _ _ _ _ _ _ _ _ Eo' Et' Ep'' E1o E1n E1p E1x).
  - (* some lines are left *)
    bind_inv E1 h1 Eh. injection E1 as <-. cbn [st_h st_c s_h s_c s_r] in *.
    apply hupd_ok in Eh. destruct Eh as [n0 [En0' ->]]. assert (n0 = n) by congruence. subst n0.
    rewrite nth_hset_eq in En1 by exact Hnlt. injection En1 as <-. cbn [set_lines bpar]. rewrite Pn.
    csplit; auto.
    + rewrite length_hset. lia.
    + intros n' E'. rewrite nth_hset_eq in E' by exact Hnlt. injection E' as <-. cbn [set_lines bpar]. rewrite Pn.
      split; discriminate.
    + discriminate.
    + intros _. split.
      * split; [exact HR|]. cbn [st_h st_c s_h s_c s_r].
        eapply (CC HI_set_entry); [exact HH1|exact Hin|discriminate|exact En|apply (CC same_shape_lines)| |].
        -- apply nodeP_sublines; [exact HnP|exact Kn|exact Hsub|discriminate].
        -- cbn [set_lines bk blines]. intros _ sg Hsg. eapply (hi_bnd _ _ _ _ _ _ _ _ HH); [exact En|exact Kn|].
           eapply ParseBlocksTotalLrd.sublist_In; eassumption.
      * intros n0 n' E0 E' Hf. assert (n0 = n) by congruence. subst n0.
        rewrite nth_hset_eq in E' by exact Hnlt. injection E' as <-. cbn [set_lines blines].
        eapply fin_lines_sublist; eassumption.
    + eapply kind_le_hset; [exact En|apply (CC same_shape_lines)].
Qed.

End J.
