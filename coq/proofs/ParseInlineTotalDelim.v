(* The delimiter list of the parse context (model/InlineParse.v): a ghost list dl of the nodes
   on the doubly linked list, the invariant DL, and PushDelimiter / RemoveDelimiter. *)
Require Import GM.model.Base GM.model.Util GM.model.Reader GM.model.BlockParse GM.model.InlineParse.
Require Import GM.proofs.ParseInlineTotalHeap.
From Coq Require Import ZArith Lia List Arith.
Import ListNotations.

Lemma kd_inv h y k : kd h y = Some k -> exists n, nth_error h y = Some n /\ ik n = k.
Proof. unfold kd. destruct (nth_error h y) as [n|]; [|discriminate]. intros E. inversion E. eauto. Qed.
Lemma bind_ok {A B} (m : result A) (f : A -> result B) a : m = Ok a -> bind m f = f a.
Proof. intros E. rewrite E. reflexivity. Qed.

(* ---------- the link operations ---------- *)
Lemma dget_spec h d s co cc len orig ch p nx :
  kd h d = Some (IDelim s co cc len orig ch p nx) -> dget h d = Ok (s, co, cc, len, orig, ch, p, nx).
Proof.
  intros Hk. destruct (kd_inv _ _ _ Hk) as (n & Hn & Ek). unfold dget. rewrite (iget_ok _ _ _ Hn). cbn [bind].
  rewrite Ek. reflexivity.
Qed.

Lemma iset_kind_spec h d n k' : nth_error h d = Some n ->
  same_tree h (iset h d (iset_kind n k')) /\ kd (iset h d (iset_kind n k')) d = Some k' /\
  (forall y, y <> d -> kd (iset h d (iset_kind n k')) y = kd h y).
Proof.
  intros Hn. pose proof (nth_error_lt _ _ _ Hn) as Hd. split; [|split].
  - split; [apply length_iset|]. split; intros y.
    + destruct (Nat.eq_dec y d) as [E|E]; [subst y; rewrite par_iset_eq by exact Hd; unfold par; rewrite Hn; reflexivity | apply par_iset_ne; exact E].
    + destruct (Nat.eq_dec y d) as [E|E]; [subst y; rewrite chl_iset_eq by exact Hd; unfold chl; rewrite Hn; reflexivity | apply chl_iset_ne; exact E].
  - rewrite kd_iset_eq by exact Hd. reflexivity.
  - intros y Hy. apply kd_iset_ne. exact Hy.
Qed.

Lemma dset_links_spec h d s co cc len orig ch p0 n0 p nx :
  kd h d = Some (IDelim s co cc len orig ch p0 n0) ->
  exists h', dset_links h d p nx = Ok h' /\ same_tree h h' /\
    kd h' d = Some (IDelim s co cc len orig ch p nx) /\ (forall y, y <> d -> kd h' y = kd h y).
Proof.
  intros Hk. destruct (kd_inv _ _ _ Hk) as (n & Hn & Ek). unfold dset_links. rewrite (iget_ok _ _ _ Hn). cbn [bind].
  rewrite Ek. eexists. split; [reflexivity|]. apply iset_kind_spec. exact Hn.
Qed.

Lemma dset_prev_spec h d s co cc len orig ch p0 n0 p :
  kd h d = Some (IDelim s co cc len orig ch p0 n0) ->
  exists h', dset_prev h d p = Ok h' /\ same_tree h h' /\
    kd h' d = Some (IDelim s co cc len orig ch p n0) /\ (forall y, y <> d -> kd h' y = kd h y).
Proof.
  intros Hk. unfold dset_prev. rewrite (dget_spec _ _ _ _ _ _ _ _ _ _ Hk). cbn [bind].
  eapply dset_links_spec. exact Hk.
Qed.

Lemma dset_next_spec h d s co cc len orig ch p0 n0 nx :
  kd h d = Some (IDelim s co cc len orig ch p0 n0) ->
  exists h', dset_next h d nx = Ok h' /\ same_tree h h' /\
    kd h' d = Some (IDelim s co cc len orig ch p0 nx) /\ (forall y, y <> d -> kd h' y = kd h y).
Proof.
  intros Hk. unfold dset_next. rewrite (dget_spec _ _ _ _ _ _ _ _ _ _ Hk). cbn [bind].
  eapply dset_links_spec. exact Hk.
Qed.

Lemma consume_chars_spec h d s co cc len orig ch p nx n :
  kd h d = Some (IDelim s co cc len orig ch p nx) ->
  exists h', consume_chars h d n = Ok h' /\ same_tree h h' /\
    kd h' d = Some (IDelim (seg_with_stop s (s_start s + (len - n))) co cc (len - n) orig ch p nx) /\
    (forall y, y <> d -> kd h' y = kd h y).
Proof.
  intros Hk. destruct (kd_inv _ _ _ Hk) as (nd & Hn & Ek). unfold consume_chars. rewrite (iget_ok _ _ _ Hn). cbn [bind].
  rewrite Ek. eexists. split; [reflexivity|]. apply iset_kind_spec. exact Hn.
Qed.

(* the fields of a delimiter other than its links *)
Definition dcore (k : ikind) : option (seg * bool * bool * Z * Z * N) :=
  match k with IDelim s co cc len orig ch _ _ => Some (s, co, cc, len, orig, ch) | _ => None end.
Definition dcoreh (h : iheap) (y : nat) := match kd h y with Some k => dcore k | None => None end.
Definition dlinks (h : iheap) (d : nat) (p nx : option nat) : Prop :=
  exists s co cc len orig ch, kd h d = Some (IDelim s co cc len orig ch p nx).

Definition hd_or (l : list nat) (nxt : option nat) : option nat := match l with [] => nxt | x :: _ => Some x end.
Definition last_or (l : list nat) (prv : option nat) : option nat :=
  match last_error l with Some x => Some x | None => prv end.

Lemma last_or_nil p : last_or [] p = p.
Proof. reflexivity. Qed.
Lemma last_or_snoc l a p : last_or (l ++ [a]) p = Some a.
Proof. unfold last_or. rewrite last_error_snoc. reflexivity. Qed.
Lemma last_or_cons a l p : last_or (a :: l) p = last_or l (Some a).
Proof.
  unfold last_or. destruct l as [|b t]; [reflexivity|]. rewrite last_error_cons by discriminate.
  destruct (last_error (b :: t)) eqn:E; [reflexivity|].
  exfalso. unfold last_error in E. destruct (rev (b :: t)) eqn:E2; [|discriminate].
  apply (f_equal (@length nat)) in E2. rewrite rev_length in E2. discriminate.
Qed.
Lemma last_error_app2 {A} (l1 l2 : list A) : l2 <> [] -> last_error (l1 ++ l2) = last_error l2.
Proof.
  intros Hl. destruct (exists_last Hl) as (l' & x & E). subst l2. rewrite app_assoc, !last_error_snoc. reflexivity.
Qed.
Lemma last_error_none {A} (l : list A) : last_error l = None -> l = [].
Proof.
  unfold last_error. destruct (rev l) eqn:E; [|discriminate]. intros _.
  apply (f_equal (@rev A)) in E. rewrite rev_involutive in E. exact E.
Qed.

(* a segment of the doubly linked list: first element's prev is [prev], last element's next is [nxt] *)
Fixpoint dseg (h : iheap) (prev : option nat) (l : list nat) (nxt : option nat) : Prop :=
  match l with
  | [] => True
  | d :: rest => dlinks h d prev (hd_or rest nxt) /\ dseg h (Some d) rest nxt
  end.

Lemma dseg_app h l1 : forall p l2 n,
  dseg h p (l1 ++ l2) n <-> dseg h p l1 (hd_or l2 n) /\ dseg h (last_or l1 p) l2 n.
Proof.
  induction l1 as [|a t IH]; intros p l2 n.
  - cbn [app dseg]. rewrite last_or_nil. tauto.
  - cbn [app dseg]. rewrite IH. rewrite last_or_cons.
    assert (E : hd_or (t ++ l2) n = hd_or t (hd_or l2 n)) by (destruct t; reflexivity).
    rewrite E. tauto.
Qed.

Lemma dseg_frame h h' l : forall p n, (forall x, In x l -> kd h' x = kd h x) -> dseg h p l n -> dseg h' p l n.
Proof.
  induction l as [|a t IH]; intros p n Hk; [auto|]. cbn [dseg]. intros [(s & co & cc & len & orig & ch & Ha) Ht].
  split.
  - exists s, co, cc, len, orig, ch. rewrite Hk by (left; reflexivity). exact Ha.
  - apply IH; [|exact Ht]. intros x Hx. apply Hk. right. exact Hx.
Qed.

Lemma dseg_split h p l1 d l2 n : dseg h p (l1 ++ d :: l2) n -> dlinks h d (last_or l1 p) (hd_or l2 n).
Proof. intros H. apply dseg_app in H. destruct H as [_ H]. cbn [dseg] in H. apply H. Qed.

Lemma dseg_set_last_next h h' p l a n n' s co cc len orig ch p0 n0 :
  dseg h p (l ++ [a]) n -> ~ In a l ->
  kd h a = Some (IDelim s co cc len orig ch p0 n0) -> kd h' a = Some (IDelim s co cc len orig ch p0 n') ->
  (forall y, y <> a -> kd h' y = kd h y) -> dseg h' p (l ++ [a]) n'.
Proof.
  intros H Ha Hk Hk' Hn. apply dseg_app in H. destruct H as [H1 H2]. apply dseg_app. split.
  - eapply dseg_frame; [|exact H1]. intros x Hx. apply Hn. intros E. subst x. contradiction.
  - cbn [dseg hd_or] in *. split; [|exact I]. destruct H2 as [(s1 & co1 & cc1 & len1 & orig1 & ch1 & H2) _].
    rewrite Hk in H2. inversion H2; subst. exists s1, co1, cc1, len1, orig1, ch1. exact Hk'.
Qed.

Lemma dseg_set_first_prev h h' p p' l a n s co cc len orig ch p0 n0 :
  dseg h p (a :: l) n -> ~ In a l ->
  kd h a = Some (IDelim s co cc len orig ch p0 n0) -> kd h' a = Some (IDelim s co cc len orig ch p' n0) ->
  (forall y, y <> a -> kd h' y = kd h y) -> dseg h' p' (a :: l) n.
Proof.
  intros H Ha Hk Hk' Hn. cbn [dseg] in *. destruct H as [(s1 & co1 & cc1 & len1 & orig1 & ch1 & H1) H2]. split.
  - rewrite Hk in H1. inversion H1; subst. exists s1, co1, cc1, len1, orig1, ch1. exact Hk'.
  - eapply dseg_frame; [|exact H2]. intros x Hx. apply Hn. intros E. subst x. contradiction.
Qed.

(* ---------- the invariant of the delimiter list ---------- *)
Record DL (h : iheap) (dfirst dlast : option nat) (dl : list nat) : Prop := {
  dl_nd : NoDup dl;
  dl_first : dfirst = hd_error dl;
  dl_last : dlast = last_error dl;
  dl_seg : dseg h None dl None;
  dl_att : forall d, In d dl -> par h d <> None;
  dl_all : forall y k, kd h y = Some k -> is_dk k = true -> par h y <> None -> In y dl
}.

Lemma dseg_in_dk h l : forall p n d, dseg h p l n -> In d l -> exists k, kd h d = Some k /\ is_dk k = true.
Proof.
  induction l as [|a t IH]; intros p n d H Hd; [destruct Hd|]. cbn [dseg] in H. destruct H as [(s & co & cc & len & orig & ch & Ha) Ht].
  destruct Hd as [E|Hd]; [subst a; eexists; split; [exact Ha|reflexivity] | eapply IH; eauto].
Qed.

Lemma dv_kd h h' y : dv h' y = dv h y -> forall k, is_dk k = true -> (kd h' y = Some k <-> kd h y = Some k).
Proof.
  intros E k Hk. split; intros X.
  - assert (Y : dv h' y = Some k) by (apply dv_some; auto). rewrite E in Y. apply dv_some in Y. tauto.
  - assert (Y : dv h y = Some k) by (apply dv_some; auto). rewrite <- E in Y. apply dv_some in Y. tauto.
Qed.

Lemma dseg_frame_dv h h' l p n : (forall y, dv h' y = dv h y) -> dseg h p l n -> dseg h' p l n.
Proof.
  intros E. revert p. induction l as [|a t IH]; intros p; [auto|]. cbn [dseg].
  intros [(s & co & cc & len & orig & ch & Ha) Ht]. split; [|apply IH; exact Ht].
  exists s, co, cc, len, orig, ch. apply (dv_kd h h' a (E a)); [reflexivity|exact Ha].
Qed.

(* DL depends only on the delimiter view and on which delimiters are attached *)
Lemma DL_frame h h' f l dl : DL h f l dl -> (forall y, dv h' y = dv h y) ->
  (forall y k, dv h y = Some k -> (par h' y = None <-> par h y = None)) -> DL h' f l dl.
Proof.
  intros [Hnd Hf Hl Hseg Hatt Hall] Edv Epar. constructor; try assumption.
  - eapply dseg_frame_dv; eassumption.
  - intros d Hd. destruct (dseg_in_dk _ _ _ _ _ Hseg Hd) as (k & Hk & Hdk).
    assert (Y : dv h d = Some k) by (apply dv_some; auto).
    intros C. apply (Epar d k Y) in C. exact (Hatt d Hd C).
  - intros y k Hk Hdk Hp. apply (dv_kd h h' y (Edv y) k Hdk) in Hk.
    assert (Y : dv h y = Some k) by (apply dv_some; auto).
    apply (Hall y k Hk Hdk). intros C. apply (Epar y k Y) in C. contradiction.
Qed.

Lemma DL_in_links h f l dl d : DL h f l dl -> In d dl ->
  exists l1 l2, dl = l1 ++ d :: l2 /\ ~ In d l1 /\ ~ In d l2 /\ dlinks h d (last_or l1 None) (hd_or l2 None).
Proof.
  intros D Hd. destruct (in_split_nodup d dl Hd (dl_nd _ _ _ _ D)) as (l1 & l2 & E & H1 & H2).
  exists l1, l2. split; [exact E|]. split; [exact H1|]. split; [exact H2|].
  pose proof (dl_seg _ _ _ _ D) as S. rewrite E in S. eapply dseg_split. exact S.
Qed.

Lemma dl_length_le h f l dl : DL h f l dl -> (length dl <= length h)%nat.
Proof.
  intros D. apply nodup_bounded_length; [apply (dl_nd _ _ _ _ D)|].
  intros a Ha. destruct (dseg_in_dk _ _ _ _ _ (dl_seg _ _ _ _ D) Ha) as (k & Hk & _). eapply kd_lt; eauto.
Qed.

Lemma hd_error_app1 {A} (l1 l2 : list A) : l1 <> [] -> hd_error (l1 ++ l2) = hd_error l1.
Proof. destruct l1; [congruence|reflexivity]. Qed.

Lemma dcoreh_of_kd h h' y : kd h' y = kd h y -> dcoreh h' y = dcoreh h y.
Proof. unfold dcoreh. intros E. rewrite E. reflexivity. Qed.

(* dcoreh is kept by a link update *)
Lemma dcoreh_links h h' d s co cc len orig ch p0 n0 p1 n1 :
  kd h d = Some (IDelim s co cc len orig ch p0 n0) -> kd h' d = Some (IDelim s co cc len orig ch p1 n1) ->
  (forall y, y <> d -> kd h' y = kd h y) -> forall y, dcoreh h' y = dcoreh h y.
Proof.
  intros Hk Hk' Hn y. destruct (Nat.eq_dec y d) as [E|E].
  - subst y. unfold dcoreh. rewrite Hk, Hk'. reflexivity.
  - apply dcoreh_of_kd. apply Hn. exact E.
Qed.
Lemma lv_links h h' d k k' : kd h d = Some k -> is_lk k = false -> kd h' d = Some k' -> is_lk k' = false ->
  (forall y, y <> d -> kd h' y = kd h y) -> forall y, lv h' y = lv h y.
Proof.
  intros Hk Hl Hk' Hl' Hn y. unfold lv. destruct (Nat.eq_dec y d) as [E|E].
  - subst y. rewrite Hk, Hk', Hl, Hl'. reflexivity.
  - rewrite Hn by exact E. reflexivity.
Qed.

(* ---------- heaps that differ only in delimiter links ---------- *)
Definition relinked (k k' : ikind) : Prop :=
  k' = k \/ exists s co cc len orig ch p0 n0 p1 n1,
    k = IDelim s co cc len orig ch p0 n0 /\ k' = IDelim s co cc len orig ch p1 n1.
Definition okrel (a b : option ikind) : Prop :=
  match a, b with Some k, Some k' => relinked k k' | None, None => True | _, _ => False end.
Definition linkonly (h h' : iheap) : Prop := same_tree h h' /\ forall y, okrel (kd h y) (kd h' y).

Lemma relinked_refl k : relinked k k.
Proof. left. reflexivity. Qed.
Lemma relinked_trans a b c : relinked a b -> relinked b c -> relinked a c.
Proof.
  intros [E1|(s & co & cc & len & orig & ch & p0 & n0 & p1 & n1 & Ea & Eb)] [E2|(s2 & co2 & cc2 & len2 & orig2 & ch2 & p2 & n2 & p3 & n3 & Eb2 & Ec)].
  - left. congruence.
  - subst a. right. do 10 eexists. split; eassumption.
  - subst c. right. do 10 eexists. split; eassumption.
  - subst a b c. inversion Eb2; subst. right. do 10 eexists. split; reflexivity.
Qed.
Lemma okrel_refl a : okrel a a.
Proof. destruct a; cbn; [apply relinked_refl|exact I]. Qed.
Lemma okrel_trans a b c : okrel a b -> okrel b c -> okrel a c.
Proof. destruct a, b, c; cbn; try tauto. apply relinked_trans. Qed.
Lemma linkonly_refl h : linkonly h h.
Proof. split; [apply same_tree_refl|]. intros y. apply okrel_refl. Qed.
Lemma linkonly_trans a b c : linkonly a b -> linkonly b c -> linkonly a c.
Proof. intros [T1 K1] [T2 K2]. split; [eapply same_tree_trans; eassumption|]. intros y. eapply okrel_trans; eauto. Qed.
Lemma linkonly_step h h' x s co cc len orig ch p0 n0 p1 n1 : same_tree h h' ->
  kd h x = Some (IDelim s co cc len orig ch p0 n0) -> kd h' x = Some (IDelim s co cc len orig ch p1 n1) ->
  (forall y, y <> x -> kd h' y = kd h y) -> linkonly h h'.
Proof.
  intros T Hk Hk' Hn. split; [exact T|]. intros y. destruct (Nat.eq_dec y x) as [E|E].
  - subst y. rewrite Hk, Hk'. cbn. right. do 10 eexists. split; reflexivity.
  - rewrite Hn by exact E. apply okrel_refl.
Qed.
Lemma linkonly_core h h' : linkonly h h' -> forall y, dcoreh h' y = dcoreh h y.
Proof.
  intros [_ K] y. specialize (K y). unfold dcoreh. destruct (kd h y) as [k|], (kd h' y) as [k'|]; cbn in K; try tauto.
  destruct K as [E|(s & co & cc & len & orig & ch & p0 & n0 & p1 & n1 & Ea & Eb)]; subst; reflexivity.
Qed.
Lemma linkonly_lv h h' : linkonly h h' -> forall y, lv h' y = lv h y.
Proof.
  intros [_ K] y. specialize (K y). unfold lv. destruct (kd h y) as [k|], (kd h' y) as [k'|]; cbn in K; try tauto.
  destruct K as [E|(s & co & cc & len & orig & ch & p0 & n0 & p1 & n1 & Ea & Eb)]; subst; reflexivity.
Qed.
Lemma linkonly_nondk h h' y k : linkonly h h' -> is_dk k = false -> (kd h y = Some k <-> kd h' y = Some k).
Proof.
  intros [_ K] Hk. specialize (K y). destruct (kd h y) as [k0|], (kd h' y) as [k'|]; cbn in K; try tauto;
    try (split; discriminate).
  destruct K as [E|(s & co & cc & len & orig & ch & p0 & n0 & p1 & n1 & Ea & Eb)]; subst.
  - tauto.
  - split; intros X; inversion X; subst; discriminate.
Qed.
Lemma linkonly_dk h h' y : linkonly h h' ->
  ((exists k, kd h y = Some k /\ is_dk k = true) <-> (exists k, kd h' y = Some k /\ is_dk k = true)).
Proof.
  intros [_ K]. specialize (K y). destruct (kd h y) as [k0|], (kd h' y) as [k'|]; cbn in K; try tauto;
    try (split; intros (k & X & _); discriminate).
  destruct K as [E|(s & co & cc & len & orig & ch & p0 & n0 & p1 & n1 & Ea & Eb)]; subst.
  - tauto.
  - split; intros _; eexists; split; reflexivity.
Qed.
Lemma linkonly_kok src lo h h' : linkonly h h' -> KOKh src lo h -> KOKh src lo h'.
Proof.
  intros [_ K] H y k' Hy. specialize (K y). rewrite Hy in K. destruct (kd h y) as [k|] eqn:E; cbn in K; [|tauto].
  specialize (H y k E). destruct K as [E2|(s & co & cc & len & orig & ch & p0 & n0 & p1 & n1 & Ea & Eb)]; subst; exact H.
Qed.
Lemma linkonly_len h h' : linkonly h h' -> length h' = length h.
Proof. intros [[L _] _]. exact L. Qed.
Lemma linkonly_par h h' : linkonly h h' -> forall y, par h' y = par h y.
Proof. intros [(_ & P & _) _]. exact P. Qed.

Lemma dseg_last_next h p l a : dseg h p (l ++ [a]) None -> exists p0, dlinks h a p0 None.
Proof. intros H. apply dseg_split in H. eauto. Qed.

(* the common suffix of RemoveDelimiter: first.prev = nil, last.next = nil, d unlinked *)
Lemma rd_suffix hA P0 L d s co cc len orig ch p n :
  dseg hA P0 L None -> NoDup L -> ~ In d L -> kd hA d = Some (IDelim s co cc len orig ch p n) ->
  exists h2 h3 h4,
    match hd_error L with Some f => dset_prev hA f None | None => Ok hA end = Ok h2 /\
    match last_error L with Some l => dset_next h2 l None | None => Ok h2 end = Ok h3 /\
    dset_links h3 d None None = Ok h4 /\
    linkonly hA h4 /\ dseg h4 None L None /\ kd h4 d = Some (IDelim s co cc len orig ch None None).
Proof.
  intros S Hnd Hd Hk.
  (* step 1 *)
  assert (H1 : exists h2, match hd_error L with Some f => dset_prev hA f None | None => Ok hA end = Ok h2 /\
                 linkonly hA h2 /\ dseg h2 None L None /\ kd h2 d = kd hA d).
  { destruct L as [|a t]; cbn [hd_error].
    - exists hA. split; [reflexivity|]. split; [apply linkonly_refl|]. split; [exact I|reflexivity].
    - cbn [dseg] in S. destruct S as [(s1 & co1 & cc1 & len1 & orig1 & ch1 & Ha) St].
      destruct (dset_prev_spec hA a _ _ _ _ _ _ _ _ None Ha) as (h2 & E2 & T2 & Ka & Kn).
      exists h2. split; [exact E2|]. split; [eapply (linkonly_step hA h2 a); [exact T2|exact Ha|exact Ka|exact Kn]|]. split.
      + inversion Hnd as [|? ? Hat Hndt]; subst.
        eapply (dseg_set_first_prev hA h2 P0 None t a None); [|exact Hat|exact Ha|exact Ka|exact Kn].
        cbn [dseg]. split; [do 6 eexists; exact Ha | exact St].
      + apply Kn. intros E. subst a. apply Hd. left. reflexivity. }
  destruct H1 as (h2 & E2 & LO2 & S2 & Kd2). exists h2.
  assert (H2 : exists h3, match last_error L with Some l => dset_next h2 l None | None => Ok h2 end = Ok h3 /\
                 linkonly h2 h3 /\ dseg h3 None L None /\ kd h3 d = kd h2 d).
  { destruct (last_error L) as [b|] eqn:El.
    - assert (EL : exists t, L = t ++ [b]).
      { unfold last_error in El. destruct (rev L) as [|x r] eqn:Er; [discriminate|]. inversion El; subst x.
        exists (rev r). rewrite <- (rev_involutive L), Er. reflexivity. }
      destruct EL as [t EL]. subst L.
      destruct (dseg_last_next _ _ _ _ S2) as (p0 & s1 & co1 & cc1 & len1 & orig1 & ch1 & Hb).
      destruct (dset_next_spec h2 b _ _ _ _ _ _ _ _ None Hb) as (h3 & E3 & T3 & Kb & Kn).
      exists h3. split; [exact E3|]. split; [eapply (linkonly_step h2 h3 b); [exact T3|exact Hb|exact Kb|exact Kn]|]. split.
      + eapply (dseg_set_last_next h2 h3 None t b None None); [exact S2| |exact Hb|exact Kb|exact Kn].
        apply NoDup_remove_2 in Hnd. rewrite app_nil_r in Hnd. exact Hnd.
      + apply Kn. intros E. subst b. apply Hd. apply in_app_iff. right. left. reflexivity.
    - exists h2. split; [reflexivity|]. split; [apply linkonly_refl|]. split; [exact S2|reflexivity]. }
  destruct H2 as (h3 & E3 & LO3 & S3 & Kd3). exists h3.
  assert (Hk3 : kd h3 d = Some (IDelim s co cc len orig ch p n)) by congruence.
  destruct (dset_links_spec h3 d _ _ _ _ _ _ _ _ None None Hk3) as (h4 & E4 & T4 & Kd4 & Kn4).
  exists h4. split; [exact E2|]. split; [exact E3|]. split; [exact E4|]. split.
  - eapply linkonly_trans; [exact LO2|]. eapply linkonly_trans; [exact LO3|]. eapply (linkonly_step h3 h4 d); [exact T4|exact Hk3|exact Kd4|exact Kn4].
  - split; [|exact Kd4]. eapply dseg_frame; [|exact S3]. intros x Hx. apply Kn4. intros E. subst x. contradiction.
Qed.

Lemma dcoreh_dv h h' : (forall y, dv h' y = dv h y) -> forall y, dcoreh h' y = dcoreh h y.
Proof.
  intros E y. specialize (E y). unfold dcoreh, dv in *.
  destruct (kd h y) as [k|], (kd h' y) as [k'|].
  - destruct (is_dk k) eqn:A, (is_dk k') eqn:B; try discriminate.
    + inversion E; reflexivity.
    + destruct k, k'; try discriminate; reflexivity.
  - destruct (is_dk k) eqn:A; [discriminate|]. destruct k; try discriminate; reflexivity.
  - destruct (is_dk k') eqn:B; [discriminate|]. destruct k'; try discriminate; reflexivity.
  - reflexivity.
Qed.

Lemma list_snoc_or_nil {A} (l : list A) : l = [] \/ exists l' x, l = l' ++ [x].
Proof. destruct l as [|a t]; [left; reflexivity|]. right. destruct (@exists_last _ (a :: t)) as (l' & x & E); [discriminate|eauto]. Qed.
Lemma nodup_app_r {A} (a b : list A) : NoDup (a ++ b) -> NoDup b.
Proof. induction a as [|x t IH]; [auto|]. cbn [app]. intros H. inversion H; subst. auto. Qed.
Lemma nodup_app_l {A} (a b : list A) : NoDup (a ++ b) -> NoDup a.
Proof.
  induction a as [|x t IH]; [constructor|]. cbn [app]. intros H. inversion H as [|? ? Hx Ht]; subst.
  constructor; [|auto]. intros C. apply Hx. apply in_app_iff. left. exact C.
Qed.
Lemma nodup_app_disj {A} (a b : list A) x : NoDup (a ++ b) -> In x a -> In x b -> False.
Proof.
  induction a as [|y t IH]; [intros _ []|]. cbn [app]. intros H Ha Hb. inversion H as [|? ? Hy Ht]; subst.
  destruct Ha as [E|Ha]; [subst y; apply Hy; apply in_app_iff; right; exact Hb | exact (IH Ht Ha Hb)].
Qed.

Section Remove.
Variable src : bytes.
Variable lo : Z.

(* the tree part of RemoveDelimiter: the delimiter becomes text or disappears *)
Lemma rd_tail c4 d P s co cc len orig ch p n :
  HWF (i_h c4) -> KOKh src lo (i_h c4) -> Acyc (i_h c4) -> par (i_h c4) d = Some P ->
  kd (i_h c4) d = Some (IDelim s co cc len orig ch p n) ->
  exists c' m,
    (nd <- iget (i_h c4) d ;;
     match ipar nd with
     | None => Panic
     | Some par => if negb (len =? 0)%Z then merge_or_replace c4 par d s
                   else h <- i_remove (i_h c4) par d ;; Ok (cx_h c4 h)
     end) = Ok c' /\
    HWF (i_h c') /\ KOKh src lo (i_h c') /\ Acyc (i_h c') /\ ctx_same c4 c' /\ dl_same (i_h c4) (i_h c') /\
    (length (i_h c4) <= length (i_h c'))%nat /\ par (i_h c') d = None /\
    (forall y, (y < length (i_h c4))%nat -> y <> d -> par (i_h c') y = par (i_h c4) y) /\
    (forall l1 l2, chl (i_h c4) P = l1 ++ d :: l2 -> ~ In d l1 -> chl (i_h c') P = l1 ++ m ++ l2) /\
    (forall a, In a m -> (length (i_h c4) <= a)%nat) /\
    (forall a, (length (i_h c4) <= a)%nat -> par (i_h c') a = None \/ par (i_h c') a = Some P).
Proof.
  intros H K A Hp Hk. pose proof (par_lt _ _ _ Hp) as Hd.
  destruct (nth_error_ex_lt _ _ Hd) as [nd Hnd]. rewrite (iget_ok _ _ _ Hnd). cbn [bind].
  assert (Ep : ipar nd = Some P) by (unfold par in Hp; rewrite Hnd in Hp; exact Hp). rewrite Ep.
  destruct (negb (len =? 0)%Z).
  - pose proof (K d _ Hk) as Kd. cbn in Kd.
    destruct (merge_or_replace_spec src lo c4 P d s H K A Hp) as (c' & m & E & W & K' & A' & CS & DS & L & Pd & Pn & C & M).
    { unfold seg_in. lia. }
    exists c', m. split; [exact E|]. repeat (split; [assumption|]). exact M.
  - destruct (i_remove_spec (i_h c4) P d H Hd) as (h' & E & W & SK & Pd & Pn & _ & C).
    rewrite E. cbn [bind]. exists (cx_h c4 h'), []. split; [reflexivity|]. cbn [i_h cx_h].
    split; [exact W|]. split; [eapply kokh_same; eassumption|]. split.
    { destruct A as [rk R]. exists rk. eapply ranked_detach; [exact R|exact (Pd Hp)|exact Pn]. }
    split; [apply ctx_same_cx_h|]. split; [apply dl_same_kinds; exact SK|]. destruct SK as [L _].
    split; [lia|]. split; [exact (Pd Hp)|]. split; [intros y _ Hy; apply Pn; exact Hy|]. split; [|split; [intros a []|]].
    + intros l1 l2 El Hl1. rewrite C, Hp.
      replace (opt_nat_eqb (Some P) (Some P)) with true by (symmetry; apply opt_nat_eqb_true; reflexivity).
      rewrite El. rewrite remove_id_split by exact Hl1. reflexivity.
    + intros a Ha. left. destruct (par h' a) eqn:X; [apply par_lt in X; lia|reflexivity].
Qed.

Lemma remove_delimiter_spec c d dl :
  HWF (i_h c) -> KOKh src lo (i_h c) -> Acyc (i_h c) -> DL (i_h c) (i_dfirst c) (i_dlast c) dl -> In d dl ->
  exists c' m l1 l2, remove_delimiter c d = Ok c' /\ dl = l1 ++ d :: l2 /\
    HWF (i_h c') /\ KOKh src lo (i_h c') /\ Acyc (i_h c') /\
    DL (i_h c') (i_dfirst c') (i_dlast c') (l1 ++ l2) /\
    i_labels c' = i_labels c /\ i_bottoms c' = i_bottoms c /\
    (forall y, lv (i_h c') y = lv (i_h c) y) /\ (forall y, dcoreh (i_h c') y = dcoreh (i_h c) y) /\
    (length (i_h c) <= length (i_h c'))%nat /\ par (i_h c') d = None /\
    (forall y, (y < length (i_h c))%nat -> y <> d -> par (i_h c') y = par (i_h c) y) /\
    (forall P l1' l2', par (i_h c) d = Some P -> chl (i_h c) P = l1' ++ d :: l2' -> ~ In d l1' ->
        chl (i_h c') P = l1' ++ m ++ l2') /\
    (forall a, In a m -> (length (i_h c) <= a)%nat) /\
    (forall a, (length (i_h c) <= a)%nat -> par (i_h c') a = None \/ par (i_h c') a = par (i_h c) d).
Proof.
  intros H K A D Hd.
  destruct (DL_in_links _ _ _ _ _ D Hd) as (l1 & l2 & Edl & Hd1 & Hd2 & (s & co & cc & len & orig & ch & Hk)).
  pose proof (dl_nd _ _ _ _ D) as Hnd. pose proof (dl_seg _ _ _ _ D) as Hseg.
  pose proof (dl_first _ _ _ _ D) as Hf. pose proof (dl_last _ _ _ _ D) as Hl. rewrite Edl in Hnd, Hseg, Hf, Hl.
  assert (Hnd12 : NoDup (l1 ++ l2)) by (eapply NoDup_remove_1; exact Hnd).
  assert (Hd12 : ~ In d (l1 ++ l2)) by (intros C; apply in_app_iff in C; tauto).
  apply dseg_app in Hseg. destruct Hseg as [S1 S2]. cbn [dseg hd_or] in S1, S2. destruct S2 as [_ S2].
  set (h := i_h c) in *.
  (* everything up to the tree part *)
  assert (HU : exists h4, linkonly h h4 /\ dseg h4 None (l1 ++ l2) None /\
                 kd h4 d = Some (IDelim s co cc len orig ch None None) /\
                 forall (K0 : ictx -> result ictx),
                 (c0 <- match last_or l1 None with
                        | None => Ok (cx_d c (hd_or l2 None) (i_dlast c))
                        | Some pp =>
                          h0 <- dset_next (i_h c) pp (hd_or l2 None) ;;
                          h0 <- match hd_or l2 None with Some n => dset_prev h0 n (Some pp) | None => Ok h0 end ;;
                          Ok (cx_h c h0)
                        end ;;
                  let c0 := match hd_or l2 None with None => cx_d c0 (i_dfirst c0) (last_or l1 None) | Some _ => c0 end in
                  h0 <- match i_dfirst c0 with Some f => dset_prev (i_h c0) f None | None => Ok (i_h c0) end ;;
                  h0 <- match i_dlast c0 with Some l => dset_next h0 l None | None => Ok h0 end ;;
                  h0 <- dset_links h0 d None None ;;
                  K0 (cx_h c0 h0)) =
                 K0 {| i_h := h4; i_dfirst := hd_error (l1 ++ l2); i_dlast := last_error (l1 ++ l2);
                       i_labels := i_labels c; i_bottoms := i_bottoms c |}).
  { destruct (list_snoc_or_nil l1) as [E1|(l1' & pp & E1)].
    - (* d is the first of the list *)
      subst l1. cbn [app] in *. rewrite last_or_nil in *.
      destruct (rd_suffix h (Some d) l2 d _ _ _ _ _ _ _ _ S2 Hnd12 Hd2 Hk) as (h2 & h3 & h4 & E2 & E3 & E4 & LO & S4 & Kd4).
      exists h4. split; [exact LO|]. split; [exact S4|]. split; [exact Kd4|]. intros K0. cbn [bind].
      destruct l2 as [|n2 l2'].
      + cbn [hd_or hd_error last_error rev] in *. cbn [i_dfirst i_dlast i_h cx_d cx_h]. cbn [bind].
        injection E2 as E2. injection E3 as E3. rewrite <- E3, <- E2 in E4. unfold h in E4. rewrite E4. cbn [bind]. reflexivity.
      + cbn [hd_or hd_error] in *. cbn [i_dfirst i_dlast i_h cx_d cx_h]. fold h.
        rewrite E2. cbn [bind]. rewrite Hl. rewrite (last_error_cons d (n2 :: l2')) by discriminate.
        rewrite E3. cbn [bind]. rewrite E4. cbn [bind]. reflexivity.
    - (* d has a predecessor pp *)
      subst l1. rewrite last_or_snoc in *.
      assert (Hpp : ~ In pp l1').
      { apply NoDup_remove_1 in Hnd. rewrite <- app_assoc in Hnd. apply NoDup_remove_2 in Hnd.
        intros C. apply Hnd. apply in_app_iff. left. exact C. }
      assert (Hppl2 : ~ In pp l2).
      { rewrite <- app_assoc in Hnd. cbn [app] in Hnd. apply NoDup_remove_2 in Hnd.
        intros C. apply Hnd. apply in_app_iff. right. right. exact C. }
      destruct (dseg_split _ _ _ _ _ _ S1) as (sp & cop & ccp & lenp & origp & chp & Hkp). cbn [hd_or] in Hkp.
      destruct (dset_next_spec h pp _ _ _ _ _ _ _ _ (hd_or l2 None) Hkp) as (h1 & E1 & T1 & Kp1 & Kn1).
      assert (S1' : dseg h1 None (l1' ++ [pp]) (hd_or l2 None)).
      { eapply (dseg_set_last_next h h1 None l1' pp (Some d) (hd_or l2 None)); [exact S1|exact Hpp|exact Hkp|exact Kp1|exact Kn1]. }
      assert (S2' : dseg h1 (Some d) l2 None).
      { eapply dseg_frame; [|exact S2]. intros x Hx. apply Kn1. intros E. subst x. contradiction. }
      assert (LO1 : linkonly h h1) by (eapply (linkonly_step h h1 pp); eassumption).
      assert (Kd1 : kd h1 d = Some (IDelim s co cc len orig ch (Some pp) (hd_or l2 None))).
      { rewrite Kn1; [exact Hk|]. intros E. subst pp. apply Hd1. apply in_app_iff. right. left. reflexivity. }
      (* second relinking step *)
      assert (HB : exists hA, match hd_or l2 None with Some n => dset_prev h1 n (Some pp) | None => Ok h1 end = Ok hA /\
                     linkonly h1 hA /\ dseg hA None ((l1' ++ [pp]) ++ l2) None /\ kd hA d = kd h1 d).
      { destruct l2 as [|n2 l2']; cbn [hd_or] in *.
        - exists h1. split; [reflexivity|]. split; [apply linkonly_refl|]. split; [|reflexivity].
          rewrite app_nil_r. exact S1'.
        - cbn [dseg] in S2'. destruct S2' as [(s2 & co2 & cc2 & len2 & orig2 & ch2 & Hk2) S2t].
          destruct (dset_prev_spec h1 n2 _ _ _ _ _ _ _ _ (Some pp) Hk2) as (hA & EA & TA & K2A & KnA).
          exists hA. split; [exact EA|]. split; [eapply (linkonly_step h1 hA n2); eassumption|]. split.
          + apply dseg_app. rewrite last_or_snoc. cbn [hd_or]. split.
            * eapply dseg_frame; [|exact S1']. intros x Hx. apply KnA. intros E. subst x.
              apply NoDup_remove_1 in Hnd. apply (nodup_app_disj _ _ n2 Hnd Hx). left. reflexivity.
            * assert (Hn2 : ~ In n2 l2').
              { apply NoDup_remove_1 in Hnd. apply nodup_app_r in Hnd. inversion Hnd; assumption. }
              eapply (dseg_set_first_prev h1 hA (Some d) (Some pp) l2' n2 None); [|exact Hn2|exact Hk2|exact K2A|exact KnA].
              cbn [dseg]. split; [do 6 eexists; exact Hk2|exact S2t].
          + apply KnA. intros E. subst n2. apply Hd2. left. reflexivity. }
      destruct HB as (hA & EA & LOA & SA & KdA).
      assert (KdA' : kd hA d = Some (IDelim s co cc len orig ch (Some pp) (hd_or l2 None))) by congruence.
      destruct (rd_suffix hA None ((l1' ++ [pp]) ++ l2) d _ _ _ _ _ _ _ _ SA Hnd12 Hd12 KdA') as (h2 & h3 & h4 & E2 & E3 & E4 & LO & S4 & Kd4).
      exists h4. split; [eapply linkonly_trans; [exact LO1|]; eapply linkonly_trans; [exact LOA|exact LO]|].
      split; [exact S4|]. split; [exact Kd4|]. intros K0.
      fold h. rewrite E1. cbn [bind]. rewrite EA. cbn [bind].
      assert (Hf' : i_dfirst c = hd_error ((l1' ++ [pp]) ++ l2)).
      { rewrite Hf. rewrite (hd_error_app1 (l1' ++ [pp]) (d :: l2)), (hd_error_app1 (l1' ++ [pp]) l2); try reflexivity; destruct l1'; discriminate. }
      rewrite <- Hf' in E2.
      destruct l2 as [|n2 l2']; cbn [hd_or].
      + cbn [i_dfirst i_dlast i_h cx_d cx_h]. rewrite E2. cbn [bind].
        rewrite app_nil_r in E3. rewrite last_error_snoc in E3. rewrite E3. cbn [bind]. rewrite E4. cbn [bind].
        f_equal. unfold cx_h, cx_d. cbn [i_h i_dfirst i_dlast i_labels i_bottoms].
        rewrite app_nil_r, last_error_snoc, <- (app_nil_r (l1' ++ [pp])), <- Hf'. reflexivity.
      + cbn [i_dfirst i_dlast i_h cx_d cx_h]. rewrite E2. cbn [bind].
        assert (Hl' : i_dlast c = last_error ((l1' ++ [pp]) ++ n2 :: l2')).
        { rewrite Hl. rewrite !last_error_app2 by discriminate. rewrite (last_error_cons d (n2 :: l2')) by discriminate. reflexivity. }
        rewrite <- Hl' in E3. rewrite E3. cbn [bind]. rewrite E4. cbn [bind].
        f_equal. unfold cx_h. cbn [i_h i_dfirst i_dlast i_labels i_bottoms]. rewrite <- Hf', <- Hl'. reflexivity. }
  destruct HU as (h4 & LO & S4 & Kd4 & HU).
  set (c4 := {| i_h := h4; i_dfirst := hd_error (l1 ++ l2); i_dlast := last_error (l1 ++ l2);
                i_labels := i_labels c; i_bottoms := i_bottoms c |}).
  assert (Erd : remove_delimiter c d =
     (nd <- iget (i_h c4) d ;;
     match ipar nd with
     | None => Panic
     | Some par => if negb (len =? 0)%Z then merge_or_replace c4 par d s
                   else h0 <- i_remove (i_h c4) par d ;; Ok (cx_h c4 h0)
     end)).
  { unfold remove_delimiter. fold h. rewrite (dget_spec _ _ _ _ _ _ _ _ _ _ Hk). cbn [bind].
    exact (HU (fun c0 => nd <- iget (i_h c0) d ;;
     match ipar nd with
     | None => Panic
     | Some par => if negb (len =? 0)%Z then merge_or_replace c0 par d s
                   else h0 <- i_remove (i_h c0) par d ;; Ok (cx_h c0 h0)
     end)). }
  rewrite Erd. clear Erd HU.
  assert (W4 : HWF h4) by (eapply hwf_same_tree; [exact (proj1 LO)|exact H]).
  assert (K4 : KOKh src lo h4) by (eapply linkonly_kok; eassumption).
  assert (A4 : Acyc h4) by (destruct A as [rk R]; exists rk; eapply ranked_same_tree; [exact (proj1 LO)|exact R]).
  destruct (par h d) as [P|] eqn:EP; [|exfalso; apply (dl_att _ _ _ _ D d Hd); exact EP].
  assert (P4 : par h4 d = Some P) by (rewrite (linkonly_par _ _ LO); exact EP).
  destruct (rd_tail c4 d P _ _ _ _ _ _ _ _ W4 K4 A4 P4 Kd4) as (c' & m & E & W' & K' & A' & CS & DS & L' & Pd & Pn & C & M & FP).
  exists c', m, l1, l2. split; [exact E|]. split; [exact Edl|]. split; [exact W'|]. split; [exact K'|]. split; [exact A'|].
  destruct CS as (F1 & F2 & F3 & F4). cbn [c4 i_dfirst i_dlast i_labels i_bottoms] in F1, F2, F3, F4.
  pose proof (linkonly_len _ _ LO) as L4. cbn [c4 i_h] in *.
  split.
  { rewrite F1, F2. constructor; try assumption; try reflexivity.
    - eapply dseg_frame_dv; [exact (proj1 DS)|exact S4].
    - intros x Hx. assert (Hxd : x <> d) by (intros E0; subst x; contradiction).
      assert (Hxdl : In x dl) by (rewrite Edl; apply in_app_iff; apply in_app_iff in Hx; cbn [In]; tauto).
      pose proof (dl_att _ _ _ _ D x Hxdl) as Hx0.
      destruct (dseg_in_dk _ _ _ _ _ S4 Hx) as (k & Hkx & _). pose proof (kd_lt _ _ _ Hkx) as Hxlt.
      rewrite Pn by (try lia; exact Hxd). rewrite (linkonly_par _ _ LO). exact Hx0.
    - intros y k Hy Hdk Hpy.
      assert (Hyd : y <> d) by (intros E0; subst y; contradiction).
      apply (dv_kd h4 (i_h c') y (proj1 DS y) k Hdk) in Hy.
      pose proof (kd_lt _ _ _ Hy) as Hylt.
      rewrite Pn in Hpy by (try lia; exact Hyd). rewrite (linkonly_par _ _ LO) in Hpy.
      destruct (proj2 (linkonly_dk h h4 y LO) (ex_intro _ k (conj Hy Hdk))) as (k0 & Hk0 & Hdk0).
      pose proof (dl_all _ _ _ _ D y k0 Hk0 Hdk0 Hpy) as Hin. rewrite Edl in Hin.
      apply in_app_iff in Hin. apply in_app_iff. cbn [In] in Hin. destruct Hin as [X|[X|X]]; [tauto|congruence|tauto]. }
  split; [exact F3|]. split; [exact F4|]. split.
  { intros y. rewrite (proj2 DS y). apply linkonly_lv. exact LO. }
  split.
  { intros y. rewrite (dcoreh_dv _ _ (proj1 DS) y). apply linkonly_core. exact LO. }
  split; [lia|]. split; [exact Pd|]. split.
  { intros y Hy Hyd. rewrite Pn by (try lia; exact Hyd). apply (linkonly_par _ _ LO). }
  split; [|split; [intros a Ha; specialize (M a Ha); lia|]].
  - intros P0 l1' l2' EP0 El Hl1'. inversion EP0; subst P0. apply C; [|exact Hl1'].
    destruct LO as [(_ & _ & Cc) _]. rewrite Cc. exact El.
  - intros a Ha. apply FP. lia.
Qed.
End Remove.

(* ---------- frames of the delimiter phase ---------- *)
Definition isdk (h : iheap) (y : nat) : Prop := exists k, kd h y = Some k /\ is_dk k = true.
Lemma isdk_dcoreh h y : isdk h y <-> dcoreh h y <> None.
Proof.
  unfold isdk, dcoreh. destruct (kd h y) as [k|].
  - destruct k; cbn; split; try (intros (k0 & E & X); inversion E; subst; discriminate); try congruence.
    intros _. eexists. split; reflexivity.
  - split; [intros (k0 & E & _); discriminate | congruence].
Qed.
Lemma isdk_lt h y : isdk h y -> (y < length h)%nat.
Proof. intros (k & E & _). eapply kd_lt; eauto. Qed.
Lemma dlinks_isdk h y p n : dlinks h y p n -> isdk h y.
Proof. intros (s & co & cc & len & orig & ch & E). eexists. split; [exact E|reflexivity]. Qed.

Lemma dseg_frame_links h h' l : forall p n, (forall y p0 n0, dlinks h y p0 n0 -> dlinks h' y p0 n0) ->
  dseg h p l n -> dseg h' p l n.
Proof.
  induction l as [|a t IH]; intros p n F; [auto|]. cbn [dseg]. intros [Ha Ht]. split; [apply F; exact Ha | apply IH; assumption].
Qed.

Lemma DL_frame_gen h h' f l dl : DL h f l dl ->
  (forall y p n, dlinks h y p n -> dlinks h' y p n) ->
  (forall y, isdk h' y -> isdk h y) ->
  (forall y, isdk h y -> (par h' y = None <-> par h y = None)) -> DL h' f l dl.
Proof.
  intros [Hnd Hf Hl Hseg Hatt Hall] F1 F2 F3. constructor; try assumption.
  - eapply dseg_frame_links; eassumption.
  - intros d Hd C. destruct (dseg_in_dk _ _ _ _ _ Hseg Hd) as (k & Hk & Hdk).
    apply (F3 d) in C; [|exists k; auto]. exact (Hatt d Hd C).
  - intros y k Hk Hdk Hp. destruct (F2 y (ex_intro _ k (conj Hk Hdk))) as (k0 & Hk0 & Hdk0).
    apply (Hall y k0 Hk0 Hdk0). intros C. apply (F3 y) in C; [contradiction|exists k0; auto].
Qed.

Definition dlen (h : iheap) (d : nat) : nat :=
  match dcoreh h d with Some (_, _, _, len, _, _) => Z.to_nat len | None => 0%nat end.
Definition sumlen (h : iheap) (l : list nat) : nat := list_sum (map (dlen h) l).
Lemma sumlen_app h a b : sumlen h (a ++ b) = (sumlen h a + sumlen h b)%nat.
Proof. unfold sumlen. rewrite map_app, list_sum_app. reflexivity. Qed.
Lemma sumlen_cons h a l : sumlen h (a :: l) = (dlen h a + sumlen h l)%nat.
Proof. reflexivity. Qed.
Lemma sumlen_frame h h' l : (forall y, In y l -> dcoreh h' y = dcoreh h y) -> sumlen h' l = sumlen h l.
Proof.
  induction l as [|a t IH]; intros F; [reflexivity|]. rewrite !sumlen_cons. rewrite IH by (intros y Hy; apply F; right; exact Hy).
  unfold dlen. rewrite F by (left; reflexivity). reflexivity.
Qed.

Section Phase.
Variable src : bytes.
Variable lo : Z.

Record DInv (c : ictx) (dl : list nat) : Prop := {
  di_wf : HWF (i_h c);
  di_kok : KOKh src lo (i_h c);
  di_acyc : Acyc (i_h c);
  di_dl : DL (i_h c) (i_dfirst c) (i_dlast c) dl
}.

Record dstep (c c' : ictx) : Prop := {
  ds_labels : i_labels c' = i_labels c;
  ds_bottoms : i_bottoms c' = i_bottoms c;
  ds_lv : forall y, lv (i_h c') y = lv (i_h c) y;
  ds_len : (length (i_h c) <= length (i_h c'))%nat;
  ds_dk : forall y, (y < length (i_h c))%nat -> (isdk (i_h c') y <-> isdk (i_h c) y);
  ds_att : forall y, (y < length (i_h c))%nat -> ~ isdk (i_h c) y ->
             (par (i_h c') y = None <-> par (i_h c) y = None);
  (* every parent is a new node or was a parent before *)
  ds_par : forall x y, par (i_h c') x = Some y -> (length (i_h c) <= y)%nat \/ exists z, par (i_h c) z = Some y
}.
Lemma dstep_refl c : dstep c c.
Proof. constructor; auto; try tauto. intros x y Hx. right. eauto. Qed.
Lemma dstep_trans a b c : dstep a b -> dstep b c -> dstep a c.
Proof.
  intros [A1 A2 A3 A4 A5 A6 A7] [B1 B2 B3 B4 B5 B6 B7]. constructor.
  - congruence.
  - congruence.
  - intros y. rewrite B3, A3. reflexivity.
  - lia.
  - intros y Hy. rewrite B5 by lia. apply A5. exact Hy.
  - intros y Hy Hn. rewrite B6; [apply A6; assumption | lia | rewrite A5 by exact Hy; exact Hn].
  - intros x y Hx. destruct (B7 x y Hx) as [X|[z Hz]]; [left; lia|]. exact (A7 z y Hz).
Qed.

Lemma rd_step c d dl : DInv c dl -> In d dl ->
  exists c' m l1 l2, remove_delimiter c d = Ok c' /\ dl = l1 ++ d :: l2 /\ ~ In d l1 /\ ~ In d l2 /\
    DInv c' (l1 ++ l2) /\ dstep c c' /\
    (forall y, dcoreh (i_h c') y = dcoreh (i_h c) y) /\
    par (i_h c') d = None /\
    (forall y, (y < length (i_h c))%nat -> y <> d -> par (i_h c') y = par (i_h c) y) /\
    (forall P l1' l2', par (i_h c) d = Some P -> chl (i_h c) P = l1' ++ d :: l2' -> ~ In d l1' ->
        chl (i_h c') P = l1' ++ m ++ l2') /\
    (forall a, In a m -> (length (i_h c) <= a)%nat).
Proof.
  intros [W K A D] Hd.
  destruct (remove_delimiter_spec src lo c d dl W K A D Hd) as
    (c' & m & l1 & l2 & E & Edl & W' & K' & A' & D' & FL & FB & FLV & FC & FLEN & Pd & Pn & C & M & FP).
  exists c', m, l1, l2. split; [exact E|]. split; [exact Edl|].
  pose proof (dl_nd _ _ _ _ D) as Hnd. rewrite Edl in Hnd.
  assert (Hd12 : ~ In d l1 /\ ~ In d l2).
  { apply NoDup_remove_2 in Hnd. split; intros X; apply Hnd; apply in_app_iff; tauto. }
  split; [tauto|]. split; [tauto|]. split; [constructor; assumption|]. split.
  { constructor; try assumption.
    - intros y Hy. rewrite !isdk_dcoreh, FC. tauto.
    - intros y Hy Hn. rewrite Pn; [tauto|exact Hy|]. intros X. subst y. apply Hn.
      destruct (dseg_in_dk _ _ _ _ _ (dl_seg _ _ _ _ D) Hd) as (k & Hk & Hdk). exists k. auto.
    - intros x y Hx. destruct (Nat.lt_ge_cases x (length (i_h c))) as [Hlt|Hge].
      + destruct (Nat.eq_dec x d) as [Exd|Exd]; [subst x; rewrite Pd in Hx; discriminate|].
        rewrite Pn in Hx by assumption. right. eauto.
      + destruct (FP x Hge) as [X|X]; [rewrite X in Hx; discriminate|]. rewrite X in Hx. right. eauto. }
  repeat (split; [assumption|]). exact M.
Qed.

Lemma sumlen_remove h h' l1 d l2 : (forall y, dcoreh h' y = dcoreh h y) ->
  (sumlen h' (l1 ++ l2) <= sumlen h (l1 ++ d :: l2))%nat.
Proof.
  intros F. rewrite (sumlen_frame h h') by (intros; apply F). rewrite !sumlen_app, sumlen_cons. lia.
Qed.

(* ---------- ClearDelimiters ---------- *)
Lemma is_delim_spec h x k : kd h x = Some k -> is_delim h x = Ok (is_dk k).
Proof.
  intros Hk. destruct (kd_inv _ _ _ Hk) as (n & Hn & Ek). unfold is_delim. rewrite (iget_ok _ _ _ Hn). cbn [bind].
  rewrite Ek. destruct k; reflexivity.
Qed.

Lemma clear_loop_spec b : forall fuel c dl cur,
  DInv c dl ->
  match cur with
  | None => (1 <= fuel)%nat
  | Some x => exists P l1 l2, par (i_h c) x = Some P /\ chl (i_h c) P = l1 ++ x :: l2 /\ ~ In x l1 /\ (length l1 + 2 <= fuel)%nat
  end ->
  exists c' dl', clear_loop fuel c cur b = Ok c' /\ DInv c' dl' /\ dstep c c' /\
    (sumlen (i_h c') dl' <= sumlen (i_h c) dl)%nat /\
    (forall d, In d dl' -> In d dl /\ dcoreh (i_h c') d = dcoreh (i_h c) d).
Proof.
  induction fuel as [|f IH]; intros c dl cur I Hcur.
  - destruct cur as [x|]; [destruct Hcur as (P & l1 & l2 & _ & _ & _ & X); lia | lia].
  - cbn [clear_loop]. destruct cur as [x|].
    2:{ exists c, dl. split; [reflexivity|]. split; [exact I|]. split; [apply dstep_refl|]. split; [lia|auto]. }
    destruct Hcur as (P & l1 & l2 & HP & HC & Hx1 & Hf).
    destruct (is_bottom b x).
    { exists c, dl. split; [reflexivity|]. split; [exact I|]. split; [apply dstep_refl|]. split; [lia|auto]. }
    pose proof (di_wf _ _ I) as W. pose proof (par_lt _ _ _ HP) as Hxlt.
    rewrite (i_prev_spec _ _ Hxlt W). cbn [bind]. rewrite HP, HC. rewrite prev_in_split by exact Hx1.
    destruct (kd_some _ _ Hxlt) as [k Hk]. rewrite (is_delim_spec _ _ _ Hk). cbn [bind].
    (* the state after the possible removal *)
    assert (HR : exists c1 dl1 m, (if is_dk k then remove_delimiter c x else Ok c) = Ok c1 /\ DInv c1 dl1 /\ dstep c c1 /\
              (sumlen (i_h c1) dl1 <= sumlen (i_h c) dl)%nat /\
              (forall d, In d dl1 -> In d dl /\ dcoreh (i_h c1) d = dcoreh (i_h c) d) /\
              chl (i_h c1) P = l1 ++ m ++ l2 /\ (forall y, In y l1 -> par (i_h c1) y = Some P)).
    { assert (Hl1P : forall y, In y l1 -> par (i_h c) y = Some P).
      { intros y Hy. apply (w_pc _ W). rewrite HC. apply in_app_iff. left. exact Hy. }
      destruct (is_dk k) eqn:Edk.
      - assert (Hin : In x dl).
        { apply (dl_all _ _ _ _ (di_dl _ _ I) x k Hk Edk). congruence. }
        destruct (rd_step c x dl I Hin) as (c1 & m & d1 & d2 & E & Edl & _ & _ & I1 & S1 & FC & Pd & Pn & C & M).
        exists c1, (d1 ++ d2), m. split; [exact E|]. split; [exact I1|]. split; [exact S1|]. split.
        + rewrite Edl. apply sumlen_remove. exact FC.
        + split.
          { intros d0 Hd0. split; [|apply FC]. rewrite Edl. apply in_app_iff in Hd0. apply in_app_iff. cbn [In]. tauto. }
          split; [apply (C P l1 l2 HP HC Hx1)|].
          intros y Hy. rewrite Pn; [apply Hl1P; exact Hy| |intros X; subst y; contradiction].
          eapply par_lt. apply Hl1P. exact Hy.
      - exists c, dl, [x]. split; [reflexivity|]. split; [exact I|]. split; [apply dstep_refl|]. split; [lia|].
        split; [auto|]. split; [exact HC|exact Hl1P]. }
    destruct HR as (c1 & dl1 & m & E1 & I1 & S1 & SL1 & SUB1 & C1 & P1). rewrite E1. cbn [bind].
    assert (Hcur' : match last_error l1 with
                    | None => (1 <= f)%nat
                    | Some x0 => exists P0 l3 l4, par (i_h c1) x0 = Some P0 /\ chl (i_h c1) P0 = l3 ++ x0 :: l4 /\ ~ In x0 l3 /\ (length l3 + 2 <= f)%nat
                    end).
    { destruct (last_error l1) as [y|] eqn:El; [|lia].
      assert (EL : exists t, l1 = t ++ [y]).
      { unfold last_error in El. destruct (rev l1) as [|z r] eqn:Er; [discriminate|]. inversion El; subst z.
        exists (rev r). rewrite <- (rev_involutive l1), Er. reflexivity. }
      destruct EL as [t EL]. subst l1. exists P, t, (m ++ l2). split; [apply P1; apply in_app_iff; right; left; reflexivity|].
      split; [rewrite C1, <- app_assoc; reflexivity|]. split.
      - pose proof (w_nd _ (di_wf _ _ I1) P) as Hnd. rewrite C1, <- app_assoc in Hnd. cbn [app] in Hnd.
        apply NoDup_remove_2 in Hnd. intros X. apply Hnd. apply in_app_iff. left. exact X.
      - rewrite app_length in Hf. cbn [length] in Hf. lia. }
    destruct (IH c1 dl1 (last_error l1) I1 Hcur') as (c' & dl' & E' & I' & S' & SL' & SUB').
    exists c', dl'. split; [|split; [exact I'|split; [eapply dstep_trans; eassumption|split; [lia|]]]].
    + rewrite <- E'. destruct (last_error l1); reflexivity.
    + intros d0 Hd0. destruct (SUB' d0 Hd0) as [X1 X2]. destruct (SUB1 d0 X1) as [Y1 Y2]. split; [exact Y1|congruence].
Qed.

Lemma clear_delimiters_spec c dl b : DInv c dl ->
  exists c' dl', clear_delimiters c b = Ok c' /\ DInv c' dl' /\ dstep c c' /\
    (sumlen (i_h c') dl' <= sumlen (i_h c) dl)%nat /\
    (forall d, In d dl' -> In d dl /\ dcoreh (i_h c') d = dcoreh (i_h c) d).
Proof.
  intros I. unfold clear_delimiters. destruct (i_dlast c) as [l|] eqn:El.
  2:{ exists c, dl. split; [reflexivity|]. split; [exact I|]. split; [apply dstep_refl|]. split; [lia|auto]. }
  pose proof (di_dl _ _ I) as D. pose proof (di_wf _ _ I) as W.
  assert (Hin : In l dl) by (apply last_error_in; rewrite <- (dl_last _ _ _ _ D); exact El).
  destruct (par (i_h c) l) as [P|] eqn:EP; [|exfalso; exact (dl_att _ _ _ _ D l Hin EP)].
  assert (HinP : In l (chl (i_h c) P)) by (apply (w_pc _ W); exact EP).
  destruct (in_split_nodup l _ HinP (w_nd _ W P)) as (l1 & l2 & EC & H1 & H2).
  apply clear_loop_spec; [exact I|]. exists P, l1, l2. split; [exact EP|]. split; [exact EC|]. split; [exact H1|].
  pose proof (chl_length_le (i_h c) P W) as HL. rewrite EC, app_length in HL. cbn [length] in HL. lia.
Qed.
End Phase.
