(* Frame property of the core inline model (model/InlineParse.v) for emphasis nodes: no core
   operation changes the kind of an existing IEmphasis node or turns another node into an
   IEmphasis node, and every IEmphasis node that is created has a positive level.
   Pure partial correctness: every statement is "f args = Ok out -> ef (heap before) (heap after)". *)
Require Import GM.model.Base GM.model.Util GM.model.Reader GM.model.Blocks GM.model.CodeSpan
               GM.model.LinkDest GM.model.Regex GM.model.Delim GM.model.BlockParse GM.model.InlineParse.
Require Import GM.proofs.ParseInlineTotalHeap.
From Coq Require Import ZArith Lia List Arith Bool.
Import ListNotations.

Definition ef (h h' : iheap) : Prop :=
  forall y l, kd h' y = Some (IEmphasis l) -> kd h y = Some (IEmphasis l) \/ (0 < l)%Z.

Lemma ef_refl h : ef h h.
Proof. intros y l H. left. exact H. Qed.
Lemma ef_trans a b c : ef a b -> ef b c -> ef a c.
Proof.
  intros Hab Hbc y l H. destruct (Hbc y l H) as [H1|H1]; [|right; exact H1].
  apply Hab. exact H1.
Qed.

(* ---------- the primitive heap updates ---------- *)
Lemma iset_ef h i n :
  (forall l, ik n = IEmphasis l -> kd h i = Some (IEmphasis l) \/ (0 < l)%Z) -> ef h (iset h i n).
Proof.
  intros Hn y l H. destruct (Nat.eq_dec y i) as [E|E].
  - subst y. assert (Hlt : (i < length h)%nat).
    { apply kd_lt in H. rewrite length_iset in H. exact H. }
    rewrite kd_iset_eq in H by exact Hlt. injection H as H1. apply Hn. exact H1.
  - rewrite kd_iset_ne in H by exact E. left. exact H.
Qed.

Lemma iget_kd h i n : iget h i = Ok n -> kd h i = Some (ik n).
Proof.
  unfold iget, kd. destruct (nth_error h i) as [m|]; [|discriminate].
  intros H. inversion H. reflexivity.
Qed.

Lemma iupd_ef h i f h' : iupd h i f = Ok h' ->
  (forall m l, ik (f m) = IEmphasis l -> ik m = IEmphasis l \/ (0 < l)%Z) -> ef h h'.
Proof.
  unfold iupd. intros H Hf. destruct (iget h i) as [n| |] eqn:E; cbn [bind] in H; try discriminate H.
  inversion H. subst h'. apply iset_ef. intros l Hl.
  destruct (Hf n l Hl) as [H1|H1]; [left|right; exact H1].
  rewrite (iget_kd _ _ _ E). f_equal. exact H1.
Qed.

Lemma snoc_ef h k : (forall l, k = IEmphasis l -> (0 < l)%Z) -> ef h (h ++ [fresh k]).
Proof.
  intros Hk y l H. rewrite kd_snoc in H. destruct (Nat.eqb y (length h)).
  - injection H as H1. right. apply Hk. exact H1.
  - left. exact H.
Qed.

Lemma new_inode_ef c k c' n : new_inode c k = (c', n) ->
  (forall l, k = IEmphasis l -> (0 < l)%Z) -> ef (i_h c) (i_h c').
Proof.
  rewrite new_inode_eq. intros H Hk. inversion H. cbn [i_h cx_h]. apply snoc_ef. exact Hk.
Qed.

Lemma pop_bottom_ef c c' b : pop_bottom c = (c', b) -> ef (i_h c) (i_h c').
Proof.
  unfold pop_bottom. destruct (rev (i_bottoms c)) as [|v pre]; intros H; inversion H; apply ef_refl.
Qed.

(* ---------- the stepping tactics ---------- *)
Lemma bind_ok {A B} (X : result A) (K : A -> result B) out :
  bind X K = Ok out -> exists v, X = Ok v /\ K v = Ok out.
Proof. destruct X as [v| |]; cbn [bind]; intros H; try discriminate H. exists v. split; [reflexivity|exact H]. Qed.

Ltac ef_side :=
  let m := fresh "m" in let l := fresh "l" in let Hm := fresh "Hm" in
  intros m l Hm; cbn [ik iset_kind iset_par iset_ch] in Hm; first [discriminate Hm | left; exact Hm].

(* find_opener only returns openers with a positive consumption *)
Definition fo_pos (r : option (nat * Z) * bool) : Prop :=
  forall o cs, fst r = Some (o, cs) -> (0 < cs)%Z.

Ltac kindpos :=
  let l := fresh "l" in let Hl := fresh "Hl" in
  intros l Hl;
  first [ discriminate Hl
        | injection Hl as Hl; subst;
          match goal with P : fo_pos _ |- _ => eapply P; reflexivity end ].

Ltac ef_simpl :=
  cbn [i_h cx_h cx_d cx_labels cx_bottoms t_c t_r ist_c ist_r push_bottom fst snd] in *.

(* the facts collected from an equation E : f args = Ok out; extended below with ::= *)
Ltac collect_more F := fail.
Ltac collect E :=
  try (let F := fresh "F" in
       pose proof E as F;
       first [ apply iupd_ef in F; [|ef_side]
             | apply new_inode_ef in F; [|kindpos]
             | apply pop_bottom_ef in F
             | collect_more F
             | clear F ]).

Ltac step H :=
  lazymatch type of H with
  | bind ?X _ = Ok _ =>
      let E := fresh "E" in let v := fresh "v" in
      apply bind_ok in H; destruct H as (v & E & H); cbv beta in H;
      repeat step E; try collect E
  | Ok _ = Ok _ => inversion H; subst; clear H
  | Panic = Ok _ => discriminate H
  | OutOfFuel = Ok _ => discriminate H
  | (match ?X with _ => _ end) = Ok _ =>
      let E := fresh "E" in
      tryif is_var X then (destruct X; try discriminate H)
      else (destruct X eqn:E; try discriminate H; collect E)
  end; ef_simpl.

Ltac iset_side :=
  let l := fresh "l" in let Hl := fresh "Hl" in
  intros l Hl; cbn [ik iset_kind iset_par iset_ch] in Hl; discriminate Hl.

Ltac chain :=
  first [ apply ef_refl | eassumption
        | match goal with
          | F : ef ?a ?b |- ef ?a _ => solve [eapply ef_trans; [exact F | chain]]
          | |- ef _ (iset ?b _ _) =>
              solve [eapply ef_trans; [|apply iset_ef; iset_side]; chain]
          end ].

Ltac steps H := repeat step H; try collect H; ef_simpl; try solve [chain].

(* ---------- tree surgery ---------- *)
Lemma i_detach_ef h c h' : i_detach h c = Ok h' -> ef h h'.
Proof. unfold i_detach. intros H. steps H. Qed.
Ltac collect_more F ::= first [ apply i_detach_ef in F ].

Lemma i_append_ef h p c h' : i_append h p c = Ok h' -> ef h h'.
Proof. unfold i_append. intros H. steps H. Qed.
Ltac collect_more F ::= first [ apply i_detach_ef in F | apply i_append_ef in F ].

Lemma i_remove_ef h p c h' : i_remove h p c = Ok h' -> ef h h'.
Proof. unfold i_remove. intros H. steps H. Qed.
Ltac collect_more F ::= first [ apply i_detach_ef in F | apply i_append_ef in F | apply i_remove_ef in F ].

Lemma i_insert_before_ef h p r n h' : i_insert_before h p r n = Ok h' -> ef h h'.
Proof. unfold i_insert_before. intros H. steps H. Qed.
Ltac collect_more F ::=
  first [ apply i_detach_ef in F | apply i_append_ef in F | apply i_remove_ef in F
        | apply i_insert_before_ef in F ].

Lemma i_replace_ef h p o n h' : i_replace h p o n = Ok h' -> ef h h'.
Proof. unfold i_replace. intros H. steps H. Qed.

Lemma i_insert_after_ef h p r n h' : i_insert_after h p r n = Ok h' -> ef h h'.
Proof. unfold i_insert_after. intros H. steps H. Qed.
Ltac collect_more F ::=
  first [ apply i_detach_ef in F | apply i_append_ef in F | apply i_remove_ef in F
        | apply i_insert_before_ef in F | apply i_replace_ef in F | apply i_insert_after_ef in F ].

Lemma merge_or_append_ef c parent s c' : merge_or_append c parent s = Ok c' -> ef (i_h c) (i_h c').
Proof. unfold merge_or_append. intros H. steps H. Qed.

Lemma merge_or_replace_ef c parent n s c' : merge_or_replace c parent n s = Ok c' -> ef (i_h c) (i_h c').
Proof. unfold merge_or_replace. intros H. steps H. Qed.

(* ---------- delimiters ---------- *)
Lemma dset_links_ef h d p nx h' : dset_links h d p nx = Ok h' -> ef h h'.
Proof. unfold dset_links. intros H. steps H. Qed.
Ltac collect_more F ::=
  first [ apply i_detach_ef in F | apply i_append_ef in F | apply i_remove_ef in F
        | apply i_insert_before_ef in F | apply i_replace_ef in F | apply i_insert_after_ef in F
        | apply merge_or_append_ef in F | apply merge_or_replace_ef in F
        | apply dset_links_ef in F ].

Lemma dset_prev_ef h d p h' : dset_prev h d p = Ok h' -> ef h h'.
Proof. unfold dset_prev. intros H. steps H. Qed.
Lemma dset_next_ef h d p h' : dset_next h d p = Ok h' -> ef h h'.
Proof. unfold dset_next. intros H. steps H. Qed.
Lemma consume_chars_ef h d n h' : consume_chars h d n = Ok h' -> ef h h'.
Proof. unfold consume_chars. intros H. steps H. Qed.
Lemma lset_ef h x p nx fs ls h' : lset h x p nx fs ls = Ok h' -> ef h h'.
Proof. unfold lset. intros H. steps H. Qed.
Ltac collect_more F ::=
  first [ apply i_detach_ef in F | apply i_append_ef in F | apply i_remove_ef in F
        | apply i_insert_before_ef in F | apply i_replace_ef in F | apply i_insert_after_ef in F
        | apply merge_or_append_ef in F | apply merge_or_replace_ef in F
        | apply dset_links_ef in F | apply dset_prev_ef in F | apply dset_next_ef in F
        | apply consume_chars_ef in F | apply lset_ef in F ].

Lemma push_delimiter_ef c d c' : push_delimiter c d = Ok c' -> ef (i_h c) (i_h c').
Proof. unfold push_delimiter. intros H. steps H. Qed.

Lemma remove_delimiter_ef c d c' : remove_delimiter c d = Ok c' -> ef (i_h c) (i_h c').
Proof.
  unfold remove_delimiter. intros H.
  steps H; match goal with o : option nat |- _ => destruct o; ef_simpl; chain end.
Qed.
Ltac collect_more F ::=
  first [ apply i_detach_ef in F | apply i_append_ef in F | apply i_remove_ef in F
        | apply i_insert_before_ef in F | apply i_replace_ef in F | apply i_insert_after_ef in F
        | apply merge_or_append_ef in F | apply merge_or_replace_ef in F
        | apply dset_links_ef in F | apply dset_prev_ef in F | apply dset_next_ef in F
        | apply consume_chars_ef in F | apply lset_ef in F
        | apply push_delimiter_ef in F | apply remove_delimiter_ef in F ].

Lemma clear_loop_ef fuel : forall c cur b c', clear_loop fuel c cur b = Ok c' -> ef (i_h c) (i_h c').
Proof.
  induction fuel as [|f IH]; intros c cur b c' H; [discriminate H|].
  cbn [clear_loop] in H. steps H; apply IH in H; chain.
Qed.

Lemma clear_delimiters_ef c b c' : clear_delimiters c b = Ok c' -> ef (i_h c) (i_h c').
Proof.
  unfold clear_delimiters. intros H. steps H. apply clear_loop_ef in H. exact H.
Qed.

Lemma find_opener_pos fuel : forall h cur b co len orig ch m r,
  find_opener fuel h cur b co len orig ch m = Ok r -> fo_pos r.
Proof.
  induction fuel as [|f IH]; intros h cur b co len orig ch m r H; [discriminate H|].
  cbn [find_opener] in H. steps H; try (intros o' cs' Ho; discriminate Ho); try (eapply IH; exact H).
  intros o' cs' Ho. cbn [fst] in Ho. injection Ho as Ho1 Ho2. subst cs'.
  match goal with Hc : (0 <? _)%Z = true |- _ => apply Z.ltb_lt in Hc; exact Hc end.
Qed.

Lemma move_children_ef fuel : forall h cur stop node h', move_children fuel h cur stop node = Ok h' -> ef h h'.
Proof.
  induction fuel as [|f IH]; intros h cur stop node h' H; [discriminate H|].
  cbn [move_children] in H. steps H; apply IH in H; chain.
Qed.

Lemma remove_between_ef fuel : forall c cur closer c', remove_between fuel c cur closer = Ok c' -> ef (i_h c) (i_h c').
Proof.
  induction fuel as [|f IH]; intros c cur closer c' H; [discriminate H|].
  cbn [remove_between] in H. steps H; apply IH in H; chain.
Qed.
Ltac collect_more F ::=
  first [ apply i_detach_ef in F | apply i_append_ef in F | apply i_remove_ef in F
        | apply i_insert_before_ef in F | apply i_replace_ef in F | apply i_insert_after_ef in F
        | apply merge_or_append_ef in F | apply merge_or_replace_ef in F
        | apply dset_links_ef in F | apply dset_prev_ef in F | apply dset_next_ef in F
        | apply consume_chars_ef in F | apply lset_ef in F
        | apply push_delimiter_ef in F | apply remove_delimiter_ef in F
        | apply clear_loop_ef in F | apply clear_delimiters_ef in F
        | apply find_opener_pos in F
        | apply move_children_ef in F | apply remove_between_ef in F ].

Lemma closer_loop_ef fuel : forall c closer b c', closer_loop fuel c closer b = Ok c' -> ef (i_h c) (i_h c').
Proof.
  induction fuel as [|f IH]; intros c closer b c' H; [discriminate H|].
  cbn [closer_loop] in H. steps H; apply IH in H; chain.
Qed.

Ltac collect_more F ::=
  first [ apply i_detach_ef in F | apply i_append_ef in F | apply i_remove_ef in F
        | apply i_insert_before_ef in F | apply i_replace_ef in F | apply i_insert_after_ef in F
        | apply merge_or_append_ef in F | apply merge_or_replace_ef in F
        | apply dset_links_ef in F | apply dset_prev_ef in F | apply dset_next_ef in F
        | apply consume_chars_ef in F | apply lset_ef in F
        | apply push_delimiter_ef in F | apply remove_delimiter_ef in F
        | apply clear_loop_ef in F | apply clear_delimiters_ef in F
        | apply find_opener_pos in F
        | apply move_children_ef in F | apply remove_between_ef in F
        | apply closer_loop_ef in F ].

Lemma process_delimiters_ef fuel c b c' : process_delimiters fuel c b = Ok c' -> ef (i_h c) (i_h c').
Proof.
  unfold process_delimiters. intros H. steps H.
Qed.

(* ---------- link labels ---------- *)
Lemma push_label_ef c v c' : push_label c v = Ok c' -> ef (i_h c) (i_h c').
Proof. unfold push_label. intros H. steps H. Qed.

Lemma remove_label_ef c d c' : remove_label c d = Ok c' -> ef (i_h c) (i_h c').
Proof. unfold remove_label. intros H. steps H. Qed.
Ltac collect_more F ::=
  first [ apply i_detach_ef in F | apply i_append_ef in F | apply i_remove_ef in F
        | apply i_insert_before_ef in F | apply i_replace_ef in F | apply i_insert_after_ef in F
        | apply merge_or_append_ef in F | apply merge_or_replace_ef in F
        | apply dset_links_ef in F | apply dset_prev_ef in F | apply dset_next_ef in F
        | apply consume_chars_ef in F | apply lset_ef in F
        | apply push_delimiter_ef in F | apply remove_delimiter_ef in F
        | apply clear_loop_ef in F | apply clear_delimiters_ef in F
        | apply find_opener_pos in F
        | apply move_children_ef in F | apply remove_between_ef in F
        | apply closer_loop_ef in F | apply process_delimiters_ef in F
        | apply push_label_ef in F | apply remove_label_ef in F ].

Lemma close_labels_ef fuel : forall c cur c', close_labels fuel c cur = Ok c' -> ef (i_h c) (i_h c').
Proof.
  induction fuel as [|f IH]; intros c cur c' H; [discriminate H|].
  cbn [close_labels] in H. steps H; apply IH in H; ef_simpl; chain.
Qed.

Lemma link_close_block_ef c c' : link_close_block c = Ok c' -> ef (i_h c) (i_h c').
Proof.
  unfold link_close_block. intros H. apply close_labels_ef in H. ef_simpl. exact H.
Qed.

(* ---------- the five inline parsers ---------- *)
Lemma mv_ef img : forall l h h',
  (fix mv (l : list nat) (h : iheap) : result iheap :=
     match l with [] => Ok h | x :: t => h <- i_append h img x ;; mv t h end) l h = Ok h' -> ef h h'.
Proof.
  induction l as [|x t IH]; intros h h' H.
  - injection H as H. subst h'. apply ef_refl.
  - cbn [bind] in H. step H. apply IH in H. chain.
Qed.

Lemma add_ef n : forall segs c c',
  (fix add (l : list seg) (c : ictx) : result ictx :=
     match l with
     | [] => Ok c
     | sg :: t =>
       let '(c, x) := new_inode c (IText sg false false true) in
       h <- i_append (i_h c) n x ;; add t (cx_h c h)
     end) segs c = Ok c' -> ef (i_h c) (i_h c').
Proof.
  induction segs as [|sg t IH]; intros c c' H.
  - injection H as H. subst c'. apply ef_refl.
  - cbn [bind] in H. step H. step H. apply IH in H. ef_simpl. chain.
Qed.

Section WithTables.
Variable space_table punct_table : list N.
Variable norm : bytes -> bytes.
Variable url_table email_table : list N.
Variable re_email_domain re_open_tag re_close_tag : re.
Variable punct_rune space_rune : N -> bool.
Variable refs : list (bytes * (bytes * option bytes)).

Lemma process_link_label_ef s link last s' :
  process_link_label s link last = Ok s' -> ef (i_h (t_c s)) (i_h (t_c s')).
Proof. unfold process_link_label. intros H. steps H. Qed.

Lemma label_fail_ef s last s' res :
  label_fail s last = Ok (s', res) -> ef (i_h (t_c s)) (i_h (t_c s')).
Proof. unfold label_fail. intros H. steps H. Qed.

Ltac collect_more F ::=
  first [ apply i_detach_ef in F | apply i_append_ef in F | apply i_remove_ef in F
        | apply i_insert_before_ef in F | apply i_replace_ef in F | apply i_insert_after_ef in F
        | apply merge_or_append_ef in F | apply merge_or_replace_ef in F
        | apply dset_links_ef in F | apply dset_prev_ef in F | apply dset_next_ef in F
        | apply consume_chars_ef in F | apply lset_ef in F
        | apply push_delimiter_ef in F | apply remove_delimiter_ef in F
        | apply clear_loop_ef in F | apply clear_delimiters_ef in F
        | apply find_opener_pos in F
        | apply move_children_ef in F | apply remove_between_ef in F
        | apply closer_loop_ef in F | apply process_delimiters_ef in F
        | apply push_label_ef in F | apply remove_label_ef in F
        | apply mv_ef in F | apply add_ef in F
        | apply process_link_label_ef in F | apply label_fail_ef in F ].

Lemma link_parse_ef s parent s' res :
  link_parse space_table punct_table norm refs s parent = Ok (s', res) ->
  ef (i_h (t_c s)) (i_h (t_c s')).
Proof.
  unfold link_parse. intros H. steps H.
  destruct (pop_bottom (t_c s)) as [cpop bpop] eqn:Ep. apply pop_bottom_ef in Ep. exact Ep.
Qed.

Lemma autolink_parse_ef s s' res :
  autolink_parse url_table email_table re_email_domain s = Ok (s', res) ->
  ef (i_h (t_c s)) (i_h (t_c s')).
Proof. unfold autolink_parse. intros H. steps H. Qed.

Lemma raw_regexp_ef s rx s' res :
  raw_regexp s rx = Ok (s', res) -> ef (i_h (t_c s)) (i_h (t_c s')).
Proof. unfold raw_regexp. intros H. steps H. Qed.

Lemma raw_collect_ef s closer offset s' res :
  raw_collect s closer offset = Ok (s', res) -> ef (i_h (t_c s)) (i_h (t_c s')).
Proof. unfold raw_collect. intros H. steps H. Qed.

Lemma raw_html_parse_ef s s' res :
  raw_html_parse re_open_tag re_close_tag s = Ok (s', res) -> ef (i_h (t_c s)) (i_h (t_c s')).
Proof.
  unfold raw_html_parse. intros H.
  steps H; first [ apply raw_regexp_ef in H | apply raw_collect_ef in H ]; ef_simpl; exact H.
Qed.

Lemma emphasis_parse_ef s s' res :
  emphasis_parse punct_rune space_rune s = Ok (s', res) -> ef (i_h (t_c s)) (i_h (t_c s')).
Proof. unfold emphasis_parse. intros H. steps H. Qed.

Lemma code_span_parse_s_ef s s' res :
  code_span_parse_s space_table s = Ok (s', res) -> ef (i_h (t_c s)) (i_h (t_c s')).
Proof. unfold code_span_parse_s. intros H. steps H. Qed.

Lemma ip_parse_ef p s parent s' res :
  ip_parse space_table punct_table norm url_table email_table re_email_domain re_open_tag re_close_tag
           punct_rune space_rune refs p s parent = Ok (s', res) ->
  ef (i_h (t_c s)) (i_h (t_c s')).
Proof.
  unfold ip_parse. intros H. destruct p.
  - eapply code_span_parse_s_ef; exact H.
  - eapply link_parse_ef; exact H.
  - eapply autolink_parse_ef; exact H.
  - eapply raw_html_parse_ef; exact H.
  - eapply emphasis_parse_ef; exact H.
Qed.
End WithTables.
