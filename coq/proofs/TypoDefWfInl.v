(* C05 / C03 / C04 (inline phase of the parser model with extension.Typographer, model/TypoDefParseT.v):
   the inline children inline_childrenT produces for a block whose lines satisfy TypoDefWfDefs.linesTD_ok
   (lines_ok, or one line with padding: see TypoDefWfDefs.v) are well formed in the sense of
   HtmlSpec.wf_node, for both settings of the switch and all quote counters.
   Port of proofs/ParseInlineRange.v (inline_children_ok_sp); template for the port to a generalised
   driver: proofs/GfmWfInl*.v.  Helper files: proofs/TypoDefWfInl*.v. *)
Require Import GM.model.Base GM.model.Util GM.model.UtilI GM.model.Reader GM.model.ReaderSpec GM.model.Regex GM.model.Delim GM.model.DelimI
               GM.model.HtmlWriter GM.model.Html GM.model.HtmlSpec GM.model.BlockParse GM.model.InlineParse
               GM.model.TypoDefParseU GM.model.TypoDefParseT GM.model.TypoDefI.
Require Import GM.gen.Tables GM.gen.Regexes.
Require Import GM.proofs.BReaderProofs GM.proofs.ParseInv GM.proofs.TypoDefWfDefs.
Require Import GM.proofs.ParseInlineRangeHeap GM.proofs.ParseInlineRangeReader GM.proofs.ParseInlineRange.
Require Import GM.proofs.TypoDefWfInlReader GM.proofs.TypoDefWfInlParsers GM.proofs.TypoDefWfInlTypo GM.proofs.TypoDefWfInlLoop.
From Coq Require Import ZArith Lia List Bool.
Import ListNotations.
Open Scope Z_scope.

Section S.
Variable typo : bool.
Variable space_table punct_table : list N.
Variable norm : bytes -> bytes.
Variable url_table email_table : list N.
Variable re_email_domain re_open_tag re_close_tag : re.
Variable punct_rune space_rune : N -> bool.
Variable uni_punct uni_space uni_digit uni_letter : N -> bool.
Hypothesis Hsp32 : is_space space_table 32 = true.
Hypothesis Hsp10 : is_space space_table 10 = true.
Notation ICT := (inline_childrenT typo space_table punct_table norm url_table email_table
                   re_email_domain re_open_tag re_close_tag punct_rune space_rune uni_punct uni_space uni_digit uni_letter).

Notation PBT := (parse_blockT typo space_table punct_table norm url_table email_table
                   re_email_domain re_open_tag re_close_tag punct_rune space_rune uni_punct uni_space uni_digit uni_letter).
Notation LOOPT := (parse_block_loopT typo space_table punct_table norm url_table email_table
                   re_email_domain re_open_tag re_close_tag punct_rune space_rune uni_punct uni_space uni_digit uni_letter).

(* ---------- parseBlock ---------- *)
(* the reader over the lines of linesTD_ok: out of range (no line), inside the block, or in the
   padding of the single line *)
Lemma new_block_readerTD src lines r : linesTD_ok src lines -> new_block_reader src lines = Ok r ->
  RP src lines r \/ b_in_range r = false.
Proof.
  intros [Hl|(sg & El & Hsg)] Hn.
  - destruct lines as [|l0 lines'].
    + right. apply new_block_reader_nil in Hn. exact Hn.
    + left. left. apply ri_new; [exact Hl|discriminate|exact Hn].
  - left. eapply rp_new_one; eassumption.
Qed.

Lemma parse_blockT_ok refs cnt src lines c cnt' : bytes_ok src -> refs_ok refs -> linesTD_ok src lines ->
  PBT refs cnt src lines = Ok (c, cnt') -> exists L, ctx_ok src [] c L.
Proof.
  intros Hsrc Hrefs Hlines H. unfold parse_blockT in H.
  destruct (new_block_reader src lines) as [r| |] eqn:En; cbn [bind] in H; try discriminate.
  destruct (LOOPT refs _ _ 0%nat false) as [x| |] eqn:El; cbn [bind] in H; try discriminate.
  destruct (init_ok space_table norm Hsp32 Hsp10 src) as [Hc0 Hp0].
  destruct (parse_block_loopT_ok typo space_table punct_table norm url_table email_table re_email_domain re_open_tag re_close_tag
              punct_rune space_rune uni_punct uni_space uni_digit uni_letter refs src lines Hsp32 Hsp10 Hsrc Hrefs
              _ _ _ _ _ [] El) as (L1 & Hc1 & _).
  { exact Hc0. }
  { cbn [ts_s t_r]. apply new_block_readerTD; assumption. }
  { exact Hp0. }
  destruct (process_delimiters (ifuel (ts_s x)) (t_c (ts_s x)) BNil) as [c2| |] eqn:Ep; cbn [bind] in H; try discriminate.
  destruct (process_delimiters_ok src _ _ _ _ _ Ep Hc1) as (L2 & Hc2 & _).
  destruct (link_close_block c2) as [c3| |] eqn:Ec; cbn [bind] in H; try discriminate.
  inversion H; subst c cnt'.
  exists L2. eapply (link_close_block_ok space_table norm Hsp32 Hsp10); eassumption.
Qed.

(* ---------- from the heap to renderer trees ---------- *)
(* the substitution texts of the String nodes *)
Lemma substitution_ok src p : node_ok src false (Node (KString (substitution p) false true) [] None []) = true.
Proof.
  unfold substitution.
  repeat match goal with |- context [if ?b then _ else _] => destruct b; [reflexivity|] end. reflexivity.
Qed.

Lemma itreeT_text src h : forall fuel i t k, itreeT fuel src h i = Ok t -> kd h i = Some k -> is_text k = true ->
  is_text_node t = true.
Proof.
  intros fuel i t k H Hk Ht. destruct fuel as [|f]; cbn [itreeT] in H; [discriminate|].
  destruct (iget h i) as [n| |] eqn:Eg; cbn [bind] in H; try discriminate.
  apply iget_kd in Eg. destruct Eg as (Ek & _). rewrite Hk in Ek. inversion Ek as [Ek'].
  destruct (map_res _ _) as [kids| |]; cbn [bind] in H; try discriminate.
  rewrite <- Ek' in H. destruct k; cbn in Ht; try discriminate. cbn [bind] in H. inversion H. reflexivity.
Qed.

Lemma itreeT_wf src h : bytes_ok src -> heap_ok src h ->
  forall fuel i t, itreeT fuel src h i = Ok t -> wf_node src false false t = true.
Proof.
  intros Hsrc Hh. induction fuel as [|f IH]; intros i t H; cbn [itreeT] in H; [discriminate|].
  destruct (iget h i) as [n| |] eqn:Eg; cbn [bind] in H; try discriminate.
  apply iget_kd in Eg. destruct Eg as (Ek & _ & Ec).
  destruct (map_res (itreeT f src h) (ich n)) as [kids| |] eqn:Em; cbn [bind] in H; try discriminate.
  assert (Hkids : forall a b, a = false -> b = false -> forallb (wf_node src a b) kids = true).
  { intros a b -> ->. apply forallb_forall. intros y Hy. destruct (map_res_in _ _ _ Em y Hy) as (x & _ & Hx). eapply IH. exact Hx. }
  pose proof (h_kind _ _ Hh i _ Ek) as Hko.
  destruct (ik n) as [|s0 soft hard raw| |lv|d ti|d ti|e sg|segs| |] eqn:Ekn; cbn [bind] in H.
  - inversion H; subst t. rewrite wf_node_node. rewrite Hkids by reflexivity. reflexivity.
  - inversion H; subst t. rewrite wf_node_node. rewrite Hkids by reflexivity. cbn in Hko. cbn. rewrite Hko. reflexivity.
  - inversion H; subst t. rewrite wf_node_node. rewrite Hkids by reflexivity. cbn.
    assert (Ht : forallb is_text_node kids = true).
    { apply forallb_forall. intros y Hy. destruct (map_res_in _ _ _ Em y Hy) as (x & Hx & Hxy).
      assert (Hxc : In x (ch h i)) by (rewrite Ec; exact Hx).
      pose proof (t_child _ (h_tree _ _ Hh) i x Hxc) as Hpx. apply pr_valid in Hpx. destruct (valid_kd h x Hpx) as [kx Ekx].
      eapply itreeT_text; [exact Hxy|exact Ekx|]. eapply (h_cs _ _ Hh i x kx); [exact Ek|exact Hxc|exact Ekx]. }
    rewrite Ht. reflexivity.
  - inversion H; subst t. rewrite wf_node_node. destruct (lv <? -10).
    + rewrite Hkids by reflexivity. rewrite !andb_true_r. exact (substitution_ok src (- lv - 10)).
    + rewrite Hkids by reflexivity. reflexivity.
  - inversion H; subst t. rewrite wf_node_node. rewrite Hkids by reflexivity. cbn in Hko. destruct Hko as [Hd Ht].
    cbn. destruct ti as [ti|]; [rewrite Hd, (Ht ti eq_refl)|rewrite Hd]; reflexivity.
  - inversion H; subst t. rewrite wf_node_node. rewrite Hkids by reflexivity. cbn in Hko. destruct Hko as [Hd Ht].
    cbn. destruct ti as [ti|]; [rewrite Hd, (Ht ti eq_refl)|rewrite Hd]; reflexivity.
  - destruct (seg_value src sg) as [v| |] eqn:Ev; cbn [bind] in H; try discriminate.
    inversion H; subst t. rewrite wf_node_node. rewrite Hkids by reflexivity.
    pose proof (seg_value_bytes _ _ _ Hsrc Ev) as Hv. unfold bytes_ok in Hv. cbn. rewrite Hv. reflexivity.
  - inversion H; subst t. rewrite wf_node_node. rewrite Hkids by reflexivity. cbn in Hko. cbn. rewrite Hko. reflexivity.
  - inversion H; subst t. rewrite wf_node_node. rewrite Hkids by reflexivity. reflexivity.
  - inversion H; subst t. rewrite wf_node_node. rewrite Hkids by reflexivity. reflexivity.
Qed.

(* ---------- the theorem ---------- *)
Theorem inline_childrenT_ok_sp : forall refs cnt src lines ts cnt',
  bytes_ok src -> refs_ok refs -> linesTD_ok src lines ->
  ICT refs cnt src lines = Ok (ts, cnt') ->
  Forall (fun t => wf_node src false false t = true) ts.
Proof.
  intros refs cnt src lines ts cnt' Hsrc Hrefs Hlines H. unfold inline_childrenT in H.
  destruct (PBT refs cnt src lines) as [[c cnt1]| |] eqn:Ep; cbn [bind] in H; try discriminate.
  destruct (itreeT (S (length (i_h c))) src (i_h c) 0%nat) as [t| |] eqn:Et; cbn [bind] in H; try discriminate.
  inversion H; subst ts cnt'. clear H.
  destruct (parse_blockT_ok refs cnt src lines c cnt1 Hsrc Hrefs Hlines Ep) as (L & Hh & _).
  pose proof (itreeT_wf src (i_h c) Hsrc Hh _ _ _ Et) as Hwf.
  destruct t as [k l a kids]. rewrite wf_node_node in Hwf. apply andb_prop in Hwf. destruct Hwf as [_ Hkids].
  cbn [t_children]. apply Forall_forall. intros x Hx. rewrite forallb_forall in Hkids. specialize (Hkids x Hx).
  (* the root is not a table, header or row *)
  cbn [itreeT] in Et. destruct (iget (i_h c) 0) as [n| |]; cbn [bind] in Et; try discriminate.
  destruct (map_res _ _) as [ks| |]; cbn [bind] in Et; try discriminate.
  destruct (ik n) as [|s0 soft hard raw| |lv|d ti|d ti|e sg|segs| |]; cbn [bind] in Et; try (inversion Et; subst; exact Hkids).
  - destruct (lv <? -10); inversion Et; subst; exact Hkids.
  - destruct (seg_value src sg) as [v| |]; cbn [bind] in Et; try discriminate. inversion Et; subst; exact Hkids.
Qed.

(* the case of the default configuration: lines without padding *)
Corollary inline_childrenT_ok_lines : forall refs cnt src lines ts cnt',
  bytes_ok src -> refs_ok refs -> lines_ok src lines ->
  ICT refs cnt src lines = Ok (ts, cnt') ->
  Forall (fun t => wf_node src false false t = true) ts.
Proof.
  intros refs cnt src lines ts cnt' Hsrc Hrefs Hlines. apply inline_childrenT_ok_sp; [exact Hsrc|exact Hrefs|left; exact Hlines].
Qed.

End S.

(* the tables of model/TypoDefI.v ParseTreeTD *)
Corollary InlineChildrenTD_ok : forall typo refs cnt src lines ts cnt',
  bytes_ok src -> refs_ok refs -> linesTD_ok src lines ->
  inline_childrenT typo space_table punct_table ToLinkReference url_table email_table re_emailDomain re_openTag re_closeTag
                   PunctRune SpaceRune UniPunct UniSpace UniDigit UniLetter refs cnt src lines = Ok (ts, cnt') ->
  Forall (fun t => wf_node src false false t = true) ts.
Proof.
  intros typo refs cnt src lines ts cnt'.
  apply inline_childrenT_ok_sp; vm_compute; reflexivity.
Qed.
