(* The link label state list of the parse context (model/InlineParse.v): ghost list ll, the
   invariant LL, pushLinkLabelState / removeLinkLabelState / linkLabelStateLength. *)
Require Import GM.model.Base GM.model.Util GM.model.Reader GM.model.BlockParse GM.model.InlineParse.
Require Import GM.proofs.ParseInlineTotalHeap GM.proofs.ParseInlineTotalDelim.
From Coq Require Import ZArith Lia List Arith.
Import ListNotations.

(* ---------- the link operations ---------- *)
Lemma lget_spec h x s im p nx fs ls :
  kd h x = Some (ILabel s im p nx fs ls) -> lget h x = Ok (s, im, p, nx, fs, ls).
Proof.
  intros Hk. destruct (kd_inv _ _ _ Hk) as (n & Hn & Ek). unfold lget. rewrite (iget_ok _ _ _ Hn). cbn [bind].
  rewrite Ek. reflexivity.
Qed.

Lemma lset_spec h x s im p0 n0 f0 l0 p nx fs ls :
  kd h x = Some (ILabel s im p0 n0 f0 l0) ->
  exists h', lset h x p nx fs ls = Ok h' /\ same_tree h h' /\
    kd h' x = Some (ILabel s im p nx fs ls) /\ (forall y, y <> x -> kd h' y = kd h y).
Proof.
  intros Hk. destruct (kd_inv _ _ _ Hk) as (n & Hn & Ek). unfold lset. rewrite (iget_ok _ _ _ Hn). cbn [bind].
  rewrite Ek. eexists. split; [reflexivity|]. apply iset_kind_spec. exact Hn.
Qed.

Definition islk (h : iheap) (y : nat) : Prop := exists k, kd h y = Some k /\ is_lk k = true.
Definition optlk (h : iheap) (o : option nat) : Prop := match o with None => True | Some z => islk h z end.
Definition llinks (h : iheap) (d : nat) (p nx : option nat) : Prop :=
  exists s im f l, kd h d = Some (ILabel s im p nx f l).
(* every pointer stored in a label state points to a label state *)
Definition LC (h : iheap) : Prop :=
  forall y s im p n f l, kd h y = Some (ILabel s im p n f l) -> optlk h p /\ optlk h n /\ optlk h f /\ optlk h l.

Lemma islk_lt h y : islk h y -> (y < length h)%nat.
Proof. intros (k & E & _). eapply kd_lt; eauto. Qed.
Lemma islk_inv h y : islk h y -> exists s im p n f l, kd h y = Some (ILabel s im p n f l).
Proof. intros (k & E & Hk). destruct k; try discriminate. do 6 eexists. exact E. Qed.
Lemma islk_intro h y s im p n f l : kd h y = Some (ILabel s im p n f l) -> islk h y.
Proof. intros E. eexists. split; [exact E|reflexivity]. Qed.

(* heaps that differ only in label links *)
Definition lrelinked (k k' : ikind) : Prop :=
  k' = k \/ exists s im p0 n0 f0 l0 p1 n1 f1 l1,
    k = ILabel s im p0 n0 f0 l0 /\ k' = ILabel s im p1 n1 f1 l1.
Definition lokrel (a b : option ikind) : Prop :=
  match a, b with Some k, Some k' => lrelinked k k' | None, None => True | _, _ => False end.
Definition llinkonly (h h' : iheap) : Prop := same_tree h h' /\ forall y, lokrel (kd h y) (kd h' y).

Lemma lrelinked_trans a b c : lrelinked a b -> lrelinked b c -> lrelinked a c.
Proof.
  intros [E1|(s & im & p0 & n0 & f0 & l0 & p1 & n1 & f1 & l1 & Ea & Eb)] [E2|(s2 & im2 & p2 & n2 & f2 & l2 & p3 & n3 & f3 & l3 & Eb2 & Ec)].
  - left. congruence.
  - subst a. right. do 10 eexists. split; eassumption.
  - subst c. right. do 10 eexists. split; eassumption.
  - subst a b c. inversion Eb2; subst. right. do 10 eexists. split; reflexivity.
Qed.
Lemma lokrel_refl a : lokrel a a.
Proof. destruct a; cbn; [left; reflexivity|exact I]. Qed.
Lemma lokrel_trans a b c : lokrel a b -> lokrel b c -> lokrel a c.
Proof. destruct a, b, c; cbn; try tauto. apply lrelinked_trans. Qed.
Lemma llinkonly_refl h : llinkonly h h.
Proof. split; [apply same_tree_refl|]. intros y. apply lokrel_refl. Qed.
Lemma llinkonly_trans a b c : llinkonly a b -> llinkonly b c -> llinkonly a c.
Proof. intros [T1 K1] [T2 K2]. split; [eapply same_tree_trans; eassumption|]. intros y. eapply lokrel_trans; eauto. Qed.
Lemma llinkonly_step h h' x s im p0 n0 f0 l0 p1 n1 f1 l1 : same_tree h h' ->
  kd h x = Some (ILabel s im p0 n0 f0 l0) -> kd h' x = Some (ILabel s im p1 n1 f1 l1) ->
  (forall y, y <> x -> kd h' y = kd h y) -> llinkonly h h'.
Proof.
  intros T Hk Hk' Hn. split; [exact T|]. intros y. destruct (Nat.eq_dec y x) as [E|E].
  - subst y. rewrite Hk, Hk'. cbn. right. do 10 eexists. split; reflexivity.
  - rewrite Hn by exact E. apply lokrel_refl.
Qed.
Lemma llinkonly_dv h h' : llinkonly h h' -> forall y, dv h' y = dv h y.
Proof.
  intros [_ K] y. specialize (K y). unfold dv. destruct (kd h y) as [k|], (kd h' y) as [k'|]; cbn in K; try tauto.
  destruct K as [E|(s & im & p0 & n0 & f0 & l0 & p1 & n1 & f1 & l1 & Ea & Eb)]; subst; reflexivity.
Qed.
Lemma llinkonly_islk h h' y : llinkonly h h' -> (islk h' y <-> islk h y).
Proof.
  intros [_ K]. specialize (K y). unfold islk. destruct (kd h y) as [k0|], (kd h' y) as [k'|]; cbn in K; try tauto;
    try (split; intros (k & X & _); discriminate).
  destruct K as [E|(s & im & p0 & n0 & f0 & l0 & p1 & n1 & f1 & l1 & Ea & Eb)]; subst.
  - tauto.
  - split; intros _; eexists; split; reflexivity.
Qed.
Lemma llinkonly_kok src lo h h' : llinkonly h h' -> KOKh src lo h -> KOKh src lo h'.
Proof.
  intros [_ K] H y k' Hy. specialize (K y). rewrite Hy in K. destruct (kd h y) as [k|] eqn:E; cbn in K; [|tauto].
  specialize (H y k E). destruct K as [E2|(s & im & p0 & n0 & f0 & l0 & p1 & n1 & f1 & l1 & Ea & Eb)]; subst; exact H.
Qed.
Lemma llinkonly_par h h' : llinkonly h h' -> forall y, par h' y = par h y.
Proof. intros [(_ & P & _) _]. exact P. Qed.
Lemma llinkonly_len h h' : llinkonly h h' -> length h' = length h.
Proof. intros [[L _] _]. exact L. Qed.
(* the label's own data *)
Lemma llinkonly_seg h h' y s im p n f l : llinkonly h h' -> kd h y = Some (ILabel s im p n f l) ->
  exists p' n' f' l', kd h' y = Some (ILabel s im p' n' f' l').
Proof.
  intros [_ K] Hy. specialize (K y). rewrite Hy in K. destruct (kd h' y) as [k'|]; cbn in K; [|tauto].
  destruct K as [E|(s0 & im0 & p0 & n0 & f0 & l0 & p1 & n1 & f1 & l1 & Ea & Eb)]; subst.
  - do 4 eexists. reflexivity.
  - inversion Ea; subst. do 4 eexists. reflexivity.
Qed.

Lemma llinkonly_seg_inv h h' y s im p n f l : llinkonly h h' -> kd h' y = Some (ILabel s im p n f l) ->
  exists p' n' f' l', kd h y = Some (ILabel s im p' n' f' l').
Proof.
  intros [_ K] Hy. specialize (K y). rewrite Hy in K. destruct (kd h y) as [k|]; cbn in K; [|tauto].
  destruct K as [E|(s0 & im0 & p0 & n0 & f0 & l0 & p1 & n1 & f1 & l1 & Ea & Eb)]; subst.
  - do 4 eexists. reflexivity.
  - inversion Eb; subst. do 4 eexists. reflexivity.
Qed.

(* ---------- the list ---------- *)
Fixpoint lseg (h : iheap) (prev : option nat) (l : list nat) (nxt : option nat) : Prop :=
  match l with
  | [] => True
  | d :: rest => llinks h d prev (hd_or rest nxt) /\ lseg h (Some d) rest nxt
  end.

Lemma lseg_app h l1 : forall p l2 n,
  lseg h p (l1 ++ l2) n <-> lseg h p l1 (hd_or l2 n) /\ lseg h (last_or l1 p) l2 n.
Proof.
  induction l1 as [|a t IH]; intros p l2 n.
  - cbn [app lseg]. rewrite last_or_nil. tauto.
  - cbn [app lseg]. rewrite IH. rewrite last_or_cons.
    assert (E : hd_or (t ++ l2) n = hd_or t (hd_or l2 n)) by (destruct t; reflexivity).
    rewrite E. tauto.
Qed.
Lemma lseg_frame h h' l : forall p n, (forall x, In x l -> forall p0 n0, llinks h x p0 n0 -> llinks h' x p0 n0) ->
  lseg h p l n -> lseg h' p l n.
Proof.
  induction l as [|a t IH]; intros p n Hk; [auto|]. cbn [lseg]. intros [Ha Ht].
  split; [apply Hk; [left; reflexivity|exact Ha]|]. apply IH; [|exact Ht]. intros x Hx. apply Hk. right. exact Hx.
Qed.
Lemma lseg_frame_kd h h' l p n : (forall x, In x l -> kd h' x = kd h x) -> lseg h p l n -> lseg h' p l n.
Proof.
  intros F. apply lseg_frame. intros x Hx p0 n0 (s & im & f & l0 & E). exists s, im, f, l0. rewrite F by exact Hx. exact E.
Qed.
Lemma lseg_split h p l1 d l2 n : lseg h p (l1 ++ d :: l2) n -> llinks h d (last_or l1 p) (hd_or l2 n).
Proof. intros H. apply lseg_app in H. destruct H as [_ H]. cbn [lseg] in H. apply H. Qed.
Lemma lseg_in_lk h l : forall p n d, lseg h p l n -> In d l -> islk h d.
Proof.
  induction l as [|a t IH]; intros p n d H Hd; [destruct Hd|]. cbn [lseg] in H. destruct H as [(s & im & f & l0 & Ha) Ht].
  destruct Hd as [E|Hd]; [subst a; eapply islk_intro; exact Ha | eapply IH; eauto].
Qed.

Lemma lseg_set_last_next h h' p l a n n' :
  lseg h p (l ++ [a]) n -> ~ In a l ->
  (forall p0, llinks h a p0 n -> llinks h' a p0 n') ->
  (forall y, y <> a -> kd h' y = kd h y) -> lseg h' p (l ++ [a]) n'.
Proof.
  intros H Ha Hk Hn. apply lseg_app in H. destruct H as [H1 H2]. apply lseg_app. split.
  - eapply lseg_frame_kd; [|exact H1]. intros x Hx. apply Hn. intros E. subst x. contradiction.
  - cbn [lseg hd_or] in *. split; [|exact I]. apply Hk. exact (proj1 H2).
Qed.
Lemma lseg_set_first_prev h h' p p' l a n :
  lseg h p (a :: l) n -> ~ In a l ->
  (forall n0, llinks h a p n0 -> llinks h' a p' n0) ->
  (forall y, y <> a -> kd h' y = kd h y) -> lseg h' p' (a :: l) n.
Proof.
  intros H Ha Hk Hn. cbn [lseg] in *. destruct H as [H1 H2]. split; [apply Hk; exact H1|].
  eapply lseg_frame_kd; [|exact H2]. intros x Hx. apply Hn. intros E. subst x. contradiction.
Qed.

Record LL (h : iheap) (labels : option nat) (ll : list nat) : Prop := {
  ll_nd : NoDup ll;
  ll_head : labels = hd_error ll;
  ll_seg : lseg h None ll None;
  ll_last : forall hd, labels = Some hd ->
              exists s im p n f, kd h hd = Some (ILabel s im p n f (last_error ll));
  ll_att : forall d, In d ll -> par h d <> None;
  ll_lc : LC h
}.

(* LL depends only on the label view and on which labels are attached *)
Lemma lv_kd h h' y : lv h' y = lv h y -> forall k, is_lk k = true -> (kd h' y = Some k <-> kd h y = Some k).
Proof.
  intros E k Hk. split; intros X.
  - assert (Y : lv h' y = Some k) by (apply lv_some; auto). rewrite E in Y. apply lv_some in Y. tauto.
  - assert (Y : lv h y = Some k) by (apply lv_some; auto). rewrite <- E in Y. apply lv_some in Y. tauto.
Qed.
Lemma islk_lv h h' : (forall y, lv h' y = lv h y) -> forall y, islk h' y <-> islk h y.
Proof.
  intros E y. split; intros (k & Hk & Hl); exists k; (split; [|exact Hl]); apply (lv_kd h h' y (E y) k Hl); exact Hk.
Qed.
Lemma LC_frame h h' : (forall y, lv h' y = lv h y) -> LC h -> LC h'.
Proof.
  intros E C y s im p n f l Hy. apply (lv_kd h h' y (E y)) in Hy; [|reflexivity].
  destruct (C _ _ _ _ _ _ _ Hy) as (A1 & A2 & A3 & A4).
  assert (X : forall o, optlk h o -> optlk h' o) by (intros [z|]; cbn; [apply (islk_lv h h' E)|auto]).
  repeat split; apply X; assumption.
Qed.
Lemma LL_frame h h' labels ll : LL h labels ll -> (forall y, lv h' y = lv h y) ->
  (forall y, In y ll -> islk h y -> par h' y = None -> par h y = None) -> LL h' labels ll.
Proof.
  intros [Hnd Hh Hseg Hl Hatt Hlc] E Epar. constructor; try assumption.
  - eapply lseg_frame; [|exact Hseg]. intros x _ p0 n0 (s & im & f & l0 & X). exists s, im, f, l0.
    apply (lv_kd h h' x (E x)); [reflexivity|exact X].
  - intros hd Hhd. destruct (Hl hd Hhd) as (s & im & p & n & f & X). exists s, im, p, n, f.
    apply (lv_kd h h' hd (E hd)); [reflexivity|exact X].
  - intros d Hd C. apply (Epar d Hd) in C; [exact (Hatt d Hd C)|]. eapply lseg_in_lk; eassumption.
  - eapply LC_frame; eassumption.
Qed.

Lemma ll_length_le h labels ll : LL h labels ll -> (length ll <= length h)%nat.
Proof.
  intros L. apply nodup_bounded_length; [apply (ll_nd _ _ _ L)|].
  intros a Ha. apply islk_lt. eapply lseg_in_lk; [exact (ll_seg _ _ _ L)|exact Ha].
Qed.

(* ---------- linkLabelStateLength ---------- *)
Lemma label_length_spec h v : LC h -> islk h v -> exists z, label_length h v = Ok z.
Proof.
  intros C Hv. destruct (islk_inv _ _ Hv) as (s & im & p & n & f & l & Hk).
  unfold label_length. rewrite (lget_spec _ _ _ _ _ _ _ _ Hk). cbn [bind].
  destruct (C _ _ _ _ _ _ _ Hk) as (_ & _ & Hf & Hl).
  destruct f as [f|]; [|eexists; reflexivity]. destruct l as [l|]; [|eexists; reflexivity].
  cbn in Hf, Hl. destruct (islk_inv _ _ Hf) as (s1 & im1 & p1 & n1 & f1 & l1 & Hk1).
  destruct (islk_inv _ _ Hl) as (s2 & im2 & p2 & n2 & f2 & l2 & Hk2).
  rewrite (lget_spec _ _ _ _ _ _ _ _ Hk1). cbn [bind]. rewrite (lget_spec _ _ _ _ _ _ _ _ Hk2). cbn [bind].
  eexists. reflexivity.
Qed.

Lemma optlk_mono h h' o : llinkonly h h' -> optlk h o -> optlk h' o.
Proof. intros L. destruct o as [z|]; cbn; [apply (llinkonly_islk h h' z L)|auto]. Qed.

Lemma lset_step h x s im p0 n0 f0 l0 p n f l : LC h -> kd h x = Some (ILabel s im p0 n0 f0 l0) ->
  optlk h p -> optlk h n -> optlk h f -> optlk h l ->
  exists h', lset h x p n f l = Ok h' /\ llinkonly h h' /\ LC h' /\
    kd h' x = Some (ILabel s im p n f l) /\ (forall y, y <> x -> kd h' y = kd h y).
Proof.
  intros C Hk Hp Hn Hf Hl. destruct (lset_spec h x _ _ _ _ _ _ p n f l Hk) as (h' & E & T & Kx & Kn).
  assert (LO : llinkonly h h') by (eapply (llinkonly_step h h' x); eassumption).
  exists h'. split; [exact E|]. split; [exact LO|]. split; [|split; [exact Kx|exact Kn]].
  intros y s1 im1 p1 n1 f1 l1 Hy. destruct (Nat.eq_dec y x) as [Ey|Ey].
  - subst y. rewrite Kx in Hy. inversion Hy; subst. repeat split; eapply optlk_mono; eassumption.
  - rewrite Kn in Hy by exact Ey. destruct (C _ _ _ _ _ _ _ Hy) as (A1 & A2 & A3 & A4).
    repeat split; eapply optlk_mono; eassumption.
Qed.

Definition hlast (h : iheap) (hd : nat) (v : option nat) : Prop :=
  exists s im p n f, kd h hd = Some (ILabel s im p n f v).

Lemma lseg_hd_links h p a t n : lseg h p (a :: t) n -> llinks h a p (hd_or t n).
Proof. intros [H _]. exact H. Qed.

Lemma remove_label_spec c d l1 l2 : LL (i_h c) (i_labels c) (l1 ++ d :: l2) ->
  exists c', remove_label c d = Ok c' /\ llinkonly (i_h c) (i_h c') /\ LL (i_h c') (i_labels c') (l1 ++ l2) /\
    i_dfirst c' = i_dfirst c /\ i_dlast c' = i_dlast c /\ i_bottoms c' = i_bottoms c.
Proof.
  intros L. pose proof (ll_nd _ _ _ L) as Hnd. pose proof (ll_seg _ _ _ L) as Hseg. pose proof (ll_lc _ _ _ L) as C0.
  pose proof (ll_head _ _ _ L) as Hh. pose proof (ll_att _ _ _ L) as Hatt.
  assert (Hd12 : ~ In d l1 /\ ~ In d l2).
  { apply NoDup_remove_2 in Hnd. split; intros X; apply Hnd; apply in_app_iff; tauto. }
  destruct Hd12 as [Hd1 Hd2].
  assert (Hnd12 : NoDup (l1 ++ l2)) by (eapply NoDup_remove_1; exact Hnd).
  destruct (lseg_split _ _ _ _ _ _ Hseg) as (sd & imd & fd & ld & Hk).
  destruct (C0 _ _ _ _ _ _ _ Hk) as (Cdp & Cdn & Cdf & Cdl).
  apply lseg_app in Hseg. destruct Hseg as [S1 S2]. cbn [lseg hd_or] in S1, S2. destruct S2 as [_ S2].
  set (h := i_h c) in *. unfold remove_label.
  assert (Hlab : exists lst0, i_labels c = Some lst0 /\ hd_error (l1 ++ d :: l2) = Some lst0).
  { rewrite Hh. destruct l1; cbn; eauto. }
  destruct Hlab as (lst0 & Elab & Ehd). rewrite Elab. fold h. rewrite (lget_spec _ _ _ _ _ _ _ _ Hk). cbn [bind].
  destruct (ll_last _ _ _ L lst0 Elab) as (s0 & im0 & p0 & n0 & f0 & Hk0). fold h in Hk0.
  assert (Hattn : forall h', llinkonly h h' -> forall x, In x (l1 ++ l2) -> par h' x <> None).
  { intros h' LO x Hx. rewrite (llinkonly_par _ _ LO). apply Hatt. apply in_app_iff in Hx. apply in_app_iff. cbn [In]. tauto. }
  destruct (list_snoc_or_nil l1) as [E1|(l1' & pp & E1)].
  - (* d is the head *)
    subst l1. cbn [app] in *. rewrite last_or_nil in *. inversion Ehd; subst lst0.
    rewrite Hk in Hk0. inversion Hk0; subst s0 im0 p0 n0 f0 ld. clear Hk0.
    destruct l2 as [|nl l2']; cbn [hd_or] in *.
    + (* the only element *)
      cbn [bind cx_labels i_h]. fold h.
      destruct (lset_step h d _ _ _ _ _ _ None None None None C0 Hk I I I I) as (h2 & E2 & LO2 & C2 & Kd2 & Kn2).
      rewrite E2. cbn [bind]. eexists. split; [reflexivity|]. cbn [i_h cx_h cx_labels i_labels i_dfirst i_dlast i_bottoms].
      split; [exact LO2|]. split; [|auto].
      constructor; try assumption; try reflexivity; try exact I.
      * discriminate.
      * intros x [].
    + (* the head with a successor nl *)
      destruct (lseg_hd_links _ _ _ _ _ S2) as (sn & imn & fn & ln & Hkn).
      rewrite (lget_spec _ _ _ _ _ _ _ _ Hkn). cbn [bind].
      destruct (C0 _ _ _ _ _ _ _ Hkn) as (_ & Cnn & _ & _).
      destruct (lset_step h nl _ _ _ _ _ _ None (hd_or l2' None) (Some d) (last_error (d :: nl :: l2')) C0 Hkn I Cnn) as (h1 & E1 & LO1 & C1 & Kn1 & Ko1).
      { eapply islk_intro. exact Hk. }
      { exact Cdl. }
      rewrite E1. cbn [bind i_h cx_h cx_labels].
      assert (Hdnl : d <> nl) by (intros X; subst nl; apply Hd2; left; reflexivity).
      assert (Hk1 : kd h1 d = Some (ILabel sd imd None (Some nl) fd (last_error (d :: nl :: l2')))) by (rewrite Ko1 by exact Hdnl; exact Hk).
      destruct (lset_step h1 d _ _ _ _ _ _ None None None None C1 Hk1 I I I I) as (h2 & E2 & LO2 & C2 & Kd2 & Kn2).
      rewrite E2. cbn [bind]. eexists. split; [reflexivity|]. cbn [i_h cx_h cx_labels i_labels i_dfirst i_dlast i_bottoms].
      assert (LO : llinkonly h h2) by (eapply llinkonly_trans; eassumption).
      split; [exact LO|]. split; [|auto].
      constructor; try assumption; try reflexivity.
      * eapply lseg_frame_kd; [intros x Hx; apply Kn2; intros X; subst x; contradiction|].
        inversion Hnd12 as [|? ? Hnl _]; subst.
        eapply (lseg_set_first_prev h h1 (Some d) None l2' nl None); [exact S2|exact Hnl| |exact Ko1].
        intros n1 (s1 & im1 & f1 & l1 & X). rewrite Hkn in X. inversion X; subst. do 4 eexists. exact Kn1.
      * intros hd Ehd2. inversion Ehd2; subst hd. do 5 eexists. rewrite Kn2 by congruence. rewrite Kn1.
        rewrite (last_error_cons d (nl :: l2')) by discriminate. reflexivity.
      * apply (Hattn h2 LO).
  - (* d has a predecessor pp *)
    subst l1. rewrite last_or_snoc in *.
    assert (Hpp : ~ In pp l1').
    { apply NoDup_remove_1 in Hnd. rewrite <- app_assoc in Hnd. apply NoDup_remove_2 in Hnd.
      intros X. apply Hnd. apply in_app_iff. left. exact X. }
    assert (Hppl2 : ~ In pp l2).
    { rewrite <- app_assoc in Hnd. cbn [app] in Hnd. apply NoDup_remove_2 in Hnd.
      intros X. apply Hnd. apply in_app_iff. right. right. exact X. }
    assert (Hdpp : d <> pp) by (intros X; subst pp; apply Hd1; apply in_app_iff; right; left; reflexivity).
    destruct (lseg_split _ _ _ _ _ _ S1) as (sp & imp & pf & pl & Hkp). cbn [hd_or] in Hkp.
    rewrite (lget_spec _ _ _ _ _ _ _ _ Hkp). cbn [bind].
    destruct (C0 _ _ _ _ _ _ _ Hkp) as (Cpp & _ & Cpf & Cpl).
    destruct (lset_step h pp _ _ _ _ _ _ (last_or l1' None) (hd_or l2 None) pf pl C0 Hkp Cpp Cdn Cpf Cpl) as (h1 & E1 & LO1 & C1 & Kp1 & Ko1).
    rewrite E1. cbn [bind].
    assert (S1' : lseg h1 None (l1' ++ [pp]) (hd_or l2 None)).
    { eapply (lseg_set_last_next h h1 None l1' pp (Some d) (hd_or l2 None)); [exact S1|exact Hpp| |exact Ko1].
      intros q (s1 & im1 & f1 & l1 & X). rewrite Hkp in X. inversion X; subst. do 4 eexists. exact Kp1. }
    assert (S2' : lseg h1 (Some d) l2 None).
    { eapply lseg_frame_kd; [|exact S2]. intros x Hx. apply Ko1. intros X. subst x. contradiction. }
    assert (Hk1 : kd h1 d = Some (ILabel sd imd (Some pp) (hd_or l2 None) fd ld)) by (rewrite Ko1 by exact Hdpp; exact Hk).
    (* the head of the list *)
    assert (Ehd' : hd_error ((l1' ++ [pp]) ++ l2) = Some lst0).
    { rewrite <- Ehd. rewrite (hd_error_app1 (l1' ++ [pp]) l2), (hd_error_app1 (l1' ++ [pp]) (d :: l2)); try reflexivity; destruct l1'; discriminate. }
    assert (Hlst0d : lst0 <> d).
    { intros X. subst lst0. apply Hd1. destruct l1'; cbn in Ehd; inversion Ehd; subst; [left; reflexivity|left; reflexivity]. }
    (* second relinking step *)
    assert (HB : exists hA, match hd_or l2 None with
                            | Some nl => z <- lget h1 nl ;; let '(_, _, _, nn, nf, nl2) := z in lset h1 nl (Some pp) nn nf nl2
                            | None => Ok h1
                            end = Ok hA /\
                   llinkonly h1 hA /\ LC hA /\ lseg hA None ((l1' ++ [pp]) ++ l2) None /\ kd hA d = kd h1 d /\
                   (forall v, hlast h1 lst0 v -> hlast hA lst0 v)).
    { destruct l2 as [|nl l2']; cbn [hd_or] in *.
      - exists h1. split; [reflexivity|]. split; [apply llinkonly_refl|]. split; [exact C1|]. split; [|split; [reflexivity|auto]].
        rewrite app_nil_r. exact S1'.
      - destruct (lseg_hd_links _ _ _ _ _ S2') as (sn & imn & fn & ln & Hkn).
        rewrite (lget_spec _ _ _ _ _ _ _ _ Hkn). cbn [bind].
        destruct (C1 _ _ _ _ _ _ _ Hkn) as (_ & Cnn & Cnf & Cnl).
        destruct (lset_step h1 nl _ _ _ _ _ _ (Some pp) (hd_or l2' None) fn ln C1 Hkn) as (hA & EA & LOA & CA & KnA & KoA); try assumption.
        { eapply islk_intro. exact Kp1. }
        exists hA. split; [exact EA|]. split; [exact LOA|]. split; [exact CA|]. split; [|split].
        + apply lseg_app. rewrite last_or_snoc. cbn [hd_or]. split.
          * eapply lseg_frame_kd; [|exact S1']. intros x Hx. apply KoA. intros X. subst x.
            apply NoDup_remove_1 in Hnd. apply (nodup_app_disj _ _ nl Hnd Hx). left. reflexivity.
          * assert (Hn2 : ~ In nl l2').
            { apply NoDup_remove_1 in Hnd. apply nodup_app_r in Hnd. inversion Hnd; assumption. }
            eapply (lseg_set_first_prev h1 hA (Some d) (Some pp) l2' nl None); [exact S2'|exact Hn2| |exact KoA].
            intros n1 (s1 & im1 & f1 & l1 & X). rewrite Hkn in X. inversion X; subst. do 4 eexists. exact KnA.
        + apply KoA. intros X. subst nl. apply Hd2. left. reflexivity.
        + intros v (s1 & im1 & p1 & n1 & f1 & X). destruct (Nat.eq_dec lst0 nl) as [En|En].
          * subst lst0. rewrite Hkn in X. inversion X; subst. do 5 eexists. exact KnA.
          * do 5 eexists. rewrite KoA by exact En. exact X. }
    destruct HB as (hA & EA & LOA & CA & SA & KdA & HlastA). rewrite EA. cbn [bind i_h cx_h].
    (* the head's last pointer *)
    set (V := last_error ((l1' ++ [pp]) ++ d :: l2)) in *.
    assert (Hl1 : hlast h1 lst0 V).
    { destruct (Nat.eq_dec lst0 pp) as [En|En].
      - subst lst0. rewrite Hkp in Hk0. inversion Hk0; subst. do 5 eexists. exact Kp1.
      - do 5 eexists. rewrite Ko1 by exact En. exact Hk0. }
    apply HlastA in Hl1.
    assert (HC : exists hB, match hd_or l2 None with
                            | None => y <- lget hA lst0 ;; let '(_, _, lp, ln, lf, _) := y in lset hA lst0 lp ln lf (Some pp)
                            | Some _ => Ok hA
                            end = Ok hB /\
                   llinkonly hA hB /\ LC hB /\ lseg hB None ((l1' ++ [pp]) ++ l2) None /\ kd hB d = kd hA d /\
                   hlast hB lst0 (last_error ((l1' ++ [pp]) ++ l2))).
    { destruct l2 as [|nl l2']; cbn [hd_or].
      - destruct Hl1 as (s1 & im1 & p1 & n1 & f1 & X). rewrite (lget_spec _ _ _ _ _ _ _ _ X). cbn [bind].
        destruct (CA _ _ _ _ _ _ _ X) as (Cp1 & Cn1 & Cf1 & _).
        destruct (lset_step hA lst0 _ _ _ _ _ _ p1 n1 f1 (Some pp) CA X Cp1 Cn1 Cf1) as (hB & EB & LOB & CB & KlB & KoB).
        { cbn. apply (llinkonly_islk h1 hA pp LOA). eapply islk_intro. exact Kp1. }
        exists hB. split; [exact EB|]. split; [exact LOB|]. split; [exact CB|]. split; [|split].
        + eapply lseg_frame; [|exact SA]. intros x _ q0 q1 (s2 & im2 & f2 & l3 & Y).
          destruct (Nat.eq_dec x lst0) as [En|En].
          * subst x. rewrite X in Y. inversion Y; subst. do 4 eexists. exact KlB.
          * do 4 eexists. rewrite KoB by exact En. exact Y.
        + apply KoB. congruence.
        + rewrite app_nil_r, last_error_snoc. do 5 eexists. exact KlB.
      - exists hA. split; [reflexivity|]. split; [apply llinkonly_refl|]. split; [exact CA|]. split; [exact SA|]. split; [reflexivity|].
        unfold V in Hl1. rewrite !last_error_app2 in Hl1 |- * by discriminate.
        rewrite (last_error_cons d (nl :: l2')) in Hl1 by discriminate. exact Hl1. }
    destruct HC as (hB & EB & LOB & CB & SB & KdB & HlastB).
    assert (EB' : match Some lst0, hd_or l2 None with
                  | Some l, None => y <- lget hA l ;; let '(_, _, lp, ln, lf, _) := y in lset hA l lp ln lf (Some pp)
                  | _, _ => Ok hA
                  end = Ok hB).
    { rewrite <- EB. destruct (hd_or l2 None); reflexivity. }
    rewrite EB'. cbn [bind].
    assert (HkB : kd hB d = Some (ILabel sd imd (Some pp) (hd_or l2 None) fd ld)) by congruence.
    destruct (lset_step hB d _ _ _ _ _ _ None None None None CB HkB I I I I) as (hC & EC & LOC & CC & KdC & KoC).
    rewrite EC. cbn [bind]. eexists. split; [reflexivity|]. cbn [i_h cx_h cx_labels i_labels i_dfirst i_dlast i_bottoms].
    assert (LO : llinkonly h hC).
    { eapply llinkonly_trans; [exact LO1|]. eapply llinkonly_trans; [exact LOA|]. eapply llinkonly_trans; eassumption. }
    split; [exact LO|]. split; [|auto].
    constructor; try assumption.
    + rewrite Elab, Ehd'. reflexivity.
    + eapply lseg_frame_kd; [|exact SB]. intros x Hx. apply KoC. intros X. subst x.
      apply in_app_iff in Hx. tauto.
    + intros hd Ehd2. rewrite Elab in Ehd2. inversion Ehd2; subst hd.
      destruct HlastB as (s1 & im1 & p1 & n1 & f1 & X). do 5 eexists. rewrite KoC by exact Hlst0d. exact X.
    + apply (Hattn hC LO).
Qed.
