(* Helper file for TypoDefWfTotBlkDl.v: definitionDescriptionParser.Open below a definition list
   (add_terms, the removal of the temporary paragraph, the new description node). *)
Require Import GM.model.Base GM.model.Util GM.model.Reader GM.model.ReaderSpec GM.model.Blocks GM.model.ListItem
               GM.model.LeafBlocks GM.model.CodeBlock GM.model.LinkDest GM.model.Regex GM.model.BlockParse
               GM.model.TypoDefParseD.
Require Import GM.proofs.ReaderProofs GM.proofs.BlocksProofs GM.proofs.ParseBlocksTotalReader
               GM.proofs.ParseBlocksTotalDefs GM.proofs.ParseBlocksTotalSpec GM.proofs.ParseBlocksTotalSt
               GM.proofs.ParseBlocksTotalShape GM.proofs.ParseBlocksTotalLeaf GM.proofs.ParseBlocksTotalLeaf2
               GM.proofs.ParseBlocksTotalPair
               GM.proofs.TypoDefWfTotBlkDefs GM.proofs.TypoDefWfTotBlkSpec GM.proofs.TypoDefWfTotBlkTc
               GM.proofs.TypoDefWfTotBlkDlA.
From Coq Require Import ZArith Lia List Bool.
Import ListNotations.
Open Scope Z_scope.

Section S.
Variable space_table : list N.
Variable norm : bytes -> bytes.
Variable src : bytes.
Notation SI := (SI space_table src).
Notation SD := (SD space_table src).
Notation HInv := (HInv space_table src).
Notation HStep := (HStep space_table src).
Notation node_ok := (node_ok space_table src).

Lemma dl_seg_ok_rng sg : seg_ok src sg -> seg_rng src sg.
Proof. intros (A & B & C & _). unfold seg_rng. lia. Qed.

(* what the description parser does to the nodes of the heap it starts with: every node but `parent`
   keeps kind, type, lines and segment; parents change only at paragraphs, children not at lists *)
Definition dl_old (parent : nat) (h h' : heap) : Prop :=
  (length h <= length h')%nat /\
  (forall j n, nth_error h j = Some n -> exists n', nth_error h' j = Some n' /\
     bk n' = bk n /\ b_i1 n' = b_i1 n /\ blines n' = blines n /\ (j <> parent -> b_seg n' = b_seg n) /\
     (bk n <> BParagraph -> bpar n' = bpar n) /\ (bk n = BList -> bch n' = bch n)) /\
  (forall j n', (length h <= j)%nat -> nth_error h' j = Some n' -> bk n' = BHTML).

Lemma dl_old_refl parent h : dl_old parent h h.
Proof.
  split; [lia|]. split.
  - intros j n H. exists n. csplit; auto.
  - intros j n' L H. apply nth_error_lt in H. lia.
Qed.
Lemma dl_old_trans parent a b c : dl_old parent a b -> dl_old parent b c -> dl_old parent a c.
Proof.
  intros (L1 & O1 & N1) (L2 & O2 & N2). split; [lia|]. split.
  - intros j n Hj. destruct (O1 j n Hj) as (n1 & E1 & A1 & A2 & A3 & A4 & A5 & A6).
    destruct (O2 j n1 E1) as (n2 & E2 & B1 & B2 & B3 & B4 & B5 & B6). exists n2. split; [exact E2|].
    split; [congruence|]. split; [congruence|]. split; [congruence|].
    split; [intros J; rewrite (B4 J); auto|].
    split; [intros K; rewrite B5 by congruence; auto|intros K; rewrite B6 by congruence; auto].
  - intros j n' L H. destruct (Nat.lt_ge_cases j (length b)) as [Hlt|Hge]; [|exact (N2 j n' Hge H)].
    destruct (nth_error_ex_lt b j Hlt) as [nb Eb]. destruct (O2 j nb Eb) as (n2 & E2 & B1 & _).
    rewrite H in E2. injection E2 as <-. rewrite B1. exact (N1 j nb L Eb).
Qed.

(* ---------- add_terms ---------- *)
Lemma dl_add_terms_ok parent : forall lines s pn, SD s -> nth_error (s_h s) parent = Some pn -> bk pn = BHTML ->
  Forall (seg_ok src) lines -> Forall (seg_nonblank space_table src) lines ->
  exists s', add_terms space_table s parent lines = Ok s' /\ SD s' /\ s_c s' = s_c s /\ s_r s' = s_r s /\
    (length (s_h s) <= length (s_h s'))%nat /\
    (forall j, j <> parent -> (j < length (s_h s))%nat -> nth_error (s_h s') j = nth_error (s_h s) j) /\
    (exists chs, nth_error (s_h s') parent = Some (set_ch pn chs)) /\
    (forall j n', (length (s_h s) <= j)%nat -> nth_error (s_h s') j = Some n' -> bk n' = BHTML).
Proof.
  induction lines as [|sg rest IH]; intros s pn HD Hp Kp Hok Hnb; cbn [add_terms].
  - exists s. csplit; auto.
    + exists (bch pn). rewrite Hp. f_equal. destruct pn; reflexivity.
    + intros j n' L H. apply nth_error_lt in H. lia.
  - pose proof HD as [HS HT].
    inversion Hok as [|x1 l1 Hx Hl]; subst. inversion Hnb as [|x2 l2 Hx' Hl']; subst.
    unfold src_of. rewrite (si_src _ _ _ HS).
    destruct (trim_right_ok space_table norm src sg Hx Hx') as [y [Ey (_ & _ & Hy & _)]]. rewrite Ey. cbn [bind].
    rewrite new_node_eq. cbn [st_h s_h].
    set (tn := set_lines (mknode BHTML 101) [y]).
    assert (HD1 : SD (st_h s (s_h s ++ [tn]))).
    { apply dl_SD_new; auto; [|discriminate]. unfold ParseBlocksTotalDefs.node_ok. cbn.
      constructor; [apply dl_seg_ok_rng; exact Hy|constructor]. }
    pose proof HD1 as [HS1 HT1]. cbn [st_h s_h] in HT1.
    assert (Ht : nth_error (s_h s ++ [tn]) (length (s_h s)) = Some tn) by apply nth_error_alloc_new.
    assert (Hp1 : nth_error (s_h s ++ [tn]) parent = Some pn) by (apply nth_error_alloc_old; exact Hp).
    assert (Hpl : (parent < length (s_h s))%nat) by (eapply nth_error_lt, Hp).
    rewrite (dl_append_childD_new _ parent _ tn Ht eq_refl).
    destruct (append_child_ok space_table src (s_h s ++ [tn]) parent (length (s_h s)) pn tn (si_h _ _ _ HS1) Hp1 Ht Hpl)
      as [h2 (Ea & St2 & L2 & Hc2 & Hp2 & F2)].
    { rewrite Kp. discriminate. }
    { cbn. discriminate. }
    rewrite Ea. cbn [bind].
    assert (HD2 : SD (st_h (st_h s (s_h s ++ [tn])) h2)).
    { split; [apply SI_set_h; [exact HS1|exact St2]|]. cbn [st_h s_h].
      eapply TC_append_child; [exact HT1|exact Ea|exact Ht|reflexivity|lia]. }
    destruct (IH (st_h (st_h s (s_h s ++ [tn])) h2) (set_ch pn (bch pn ++ [length (s_h s)])) HD2 Hp2 Kp Hl Hl')
      as [s' (E' & D' & C' & R' & L' & F' & (chs & P') & N')].
    cbn [st_h s_h s_c s_r] in *. rewrite app_length in L2. cbn [length] in L2.
    exists s'. split; [exact E'|]. csplit; auto.
    + lia.
    + intros j J1 J2. rewrite F' by lia. rewrite F2 by lia. apply nth_error_app1. exact J2.
    + exists chs. rewrite P'. reflexivity.
    + intros j n' L H. destruct (Nat.lt_ge_cases j (length h2)) as [Hlt|Hge]; [|exact (N' j n' Hge H)].
      assert (j = length (s_h s)) as -> by lia.
      rewrite F' in H by lia. rewrite Hc2 in H. injection H as <-. reflexivity.
Qed.

(* ---------- the temporary paragraph becomes the terms ---------- *)
Lemma dl_terms_ok s parent pn : SD s -> nth_error (s_h s) parent = Some pn -> is_dl pn = true ->
  TmpOK (s_h s) (b_seg pn) ->
  exists s3,
    match b_seg pn with
    | None => Ok (st_h s (hset (s_h s) parent (set_seg pn None)))
    | Some sg =>
      let s := st_h s (hset (s_h s) parent (set_seg pn None)) in
      let para := Z.to_nat (s_start sg) in
      prn <- hget (s_h s) para ;;
      s <- add_terms space_table s parent (blines prn) ;;
      prn <- hget (s_h s) para ;;
      match bpar prn with
      | None => Panic
      | Some pp => h <- remove_child (s_h s) pp para ;; Ok (st_h s h)
      end
    end = Ok s3 /\
    SD s3 /\ s_c s3 = s_c s /\ s_r s3 = s_r s /\ dl_old parent (s_h s) (s_h s3) /\
    (exists pn1, nth_error (s_h s3) parent = Some pn1 /\ bpar pn1 = bpar pn /\ b_seg pn1 = None).
Proof.
  intros HD Hp Edl Htmp. pose proof HD as [HS HT]. pose proof (is_dl_kind _ Edl) as Kp.
  assert (Hpl : (parent < length (s_h s))%nat) by (eapply nth_error_lt, Hp).
  set (h1 := hset (s_h s) parent (set_seg pn None)).
  assert (HD1 : SD (st_h s h1)) by (apply dl_SD_upd with (n := pn); auto).
  assert (Hp1 : nth_error h1 parent = Some (set_seg pn None)) by (apply hset_same; exact Hpl).
  assert (O1 : dl_old parent (s_h s) h1).
  { split; [unfold h1; rewrite hset_length; lia|]. split.
    - intros j n Hj. destruct (Nat.eq_dec parent j) as [<-|Hne].
      + rewrite Hp in Hj. injection Hj as <-. exists (set_seg pn None). split; [exact Hp1|]. csplit; auto.
        intros C. contradiction.
      + exists n. unfold h1. rewrite hset_other by exact Hne. csplit; auto.
    - intros j n' L H. apply nth_error_lt in H. unfold h1 in H. rewrite hset_length in H. lia. }
  destruct (b_seg pn) as [sg|] eqn:Esg.
  2:{ exists (st_h s h1). split; [reflexivity|]. csplit; auto. exists (set_seg pn None). csplit; auto. }
  destruct (Htmp sg eq_refl) as (l & ln & pp & -> & Hl & Kl & Pl). cbv zeta. cbn [mkseg s_start st_h s_h].
  rewrite Nat2Z.id.
  assert (Hlp : l <> parent) by (intros ->; rewrite Hp in Hl; injection Hl as <-; congruence).
  assert (Hll : (l < length (s_h s))%nat) by (eapply nth_error_lt, Hl).
  assert (Hl1 : nth_error h1 l = Some ln) by (unfold h1; rewrite hset_other by lia; exact Hl).
  rewrite (hget_some _ _ _ Hl1). cbn [bind].
  pose proof (hi_ok _ _ _ (si_h _ _ _ HS) l ln Hl) as Hok. unfold ParseBlocksTotalDefs.node_ok in Hok.
  rewrite Kl in Hok. destruct Hok as (_ & [Hsegs _] & Hnb).
  destruct (dl_add_terms_ok parent (blines ln) (st_h s h1) (set_seg pn None) HD1 Hp1 Kp Hsegs Hnb)
    as [s2 (E2 & D2 & C2 & R2 & L2 & F2 & (chs & P2) & N2)].
  cbn [st_h s_h s_c s_r] in *. rewrite E2. cbn [bind].
  assert (Lh1 : length h1 = length (s_h s)) by (unfold h1; apply hset_length).
  assert (Hl2 : nth_error (s_h s2) l = Some ln) by (rewrite F2 by lia; exact Hl1).
  rewrite (hget_some _ _ _ Hl2). cbn [bind]. rewrite Pl.
  pose proof D2 as [S2 T2].
  pose proof (hi_par _ _ _ (si_h _ _ _ S2) l ln pp Hl2 Pl) as Hppl.
  destruct (remove_child_ok space_table src (s_h s2) pp l ln (si_h _ _ _ S2) Hl2) as [h3 (E3 & St3 & L3 & F3 & B3)].
  rewrite E3. cbn [bind]. exists (st_h s2 h3). split; [reflexivity|]. cbn [st_h s_h s_c s_r].
  assert (Kpp : forall ppn, nth_error (s_h s2) pp = Some ppn -> bk ppn <> BList).
  { intros ppn Epp K. pose proof (hi_listp _ _ _ (si_h _ _ _ S2) l ln pp ppn Hl2 Pl Epp K). congruence. }
  csplit; auto.
  - split; [apply SI_set_h; [exact S2|exact St3]|]. cbn [st_h s_h].
    eapply TC_remove_child; [exact T2|exact E3|lia].
  - eapply dl_old_trans; [exact O1|].
    split; [lia|]. split.
    + intros j n Hj. assert (Hjl : (j < length h1)%nat) by (eapply nth_error_lt, Hj).
      destruct (nth_error_ex_lt h3 j ltac:(lia)) as [n3 En3].
      destruct (B3 j n3 En3) as (n2 & En2 & A1 & A2 & A3 & A4 & A5 & A6).
      exists n3. split; [exact En3|].
      destruct (Nat.eq_dec j parent) as [->|Hne].
      * rewrite P2 in En2. injection En2 as <-. rewrite Hp1 in Hj. injection Hj as <-.
        cbn [set_ch set_seg bk b_i1 blines b_seg bpar bch] in *. csplit; auto.
        all: try (intros; congruence); try (intros _; apply A5; lia).
      * rewrite F2 in En2 by lia. rewrite Hj in En2. injection En2 as <-. csplit; auto.
        -- intros K. apply A5. intros ->. rewrite Hl1 in Hj. injection Hj as <-. contradiction.
        -- intros K. apply A6. intros ->. apply (Kpp n); [|exact K]. rewrite F2 by lia. exact Hj.
    + intros j n3 L H. destruct (B3 j n3 H) as (n2 & En2 & A1 & _). rewrite A1. exact (N2 j n2 L En2).
  - destruct (nth_error_ex_lt h3 parent ltac:(lia)) as [n3 En3].
    destruct (B3 parent n3 En3) as (n2 & En2 & A1 & A2 & A3 & A4 & A5 & A6).
    rewrite P2 in En2. injection En2 as <-. exists n3. split; [exact En3|].
    cbn [set_ch set_seg bk b_i1 blines b_seg bpar bch] in *. split; [apply A5; lia|exact A3].
Qed.

(* ---------- Open ---------- *)
Lemma dl_defdesc_open_dl s parent pn : SD s -> sin s -> DLine s -> nth_error (s_h s) parent = Some pn -> is_dl pn = true ->
  Wok s (b_i2 pn) -> TmpOK (s_h s) (b_seg pn) ->
  exists s1 node, defdesc_open space_table s parent = Ok (s1, Some (node, true, false)) /\
    SD s1 /\ s_c s1 = s_c s /\ same_line (s_r s) (s_r s1) /\
    s_start (r_pos (s_r s)) + 1 <= s_start (r_pos (s_r s1)) /\
    kkeep (s_h s) (s_h s1) /\ (length (s_h s) <= node)%nat /\ S node = length (s_h s1) /\
    nth_error (s_h s1) node = Some (set_tight (mknode BHTML 102) false) /\
    (exists pn1, nth_error (s_h s1) parent = Some pn1 /\ bpar pn1 = bpar pn /\ b_seg pn1 = None /\
                 blines pn1 = blines pn) /\
    (forall j n, nth_error (s_h s) j = Some n -> exists n', nth_error (s_h s1) j = Some n' /\
        blines n' = blines n /\ (bk n <> BParagraph -> bpar n' = bpar n) /\ (bk n = BList -> bch n' = bch n)) /\
    (forall j n', (length (s_h s) <= j)%nat -> nth_error (s_h s1) j = Some n' -> bk n' = BHTML).
Proof.
  intros HD Hin (D1 & D2 & D3 & D4 & D5) Hp Edl (w & Hw & EW) Htmp. pose proof HD as [HS HT].
  unfold defdesc_open.
  destruct (peek_line_s_ok _ _ s HS) as [sa (Ea & Sa & Ca & _)]. rewrite Ea. cbn [bind].
  pose proof Hin as Hin'. unfold sin in Hin'. rewrite Hin'. cbn [line_of]. pose proof Ca as (CH & CC & CP).
  pose proof (dl_SD_scache _ _ s sa HD Sa Ca) as HDa.
  rewrite CC, D1, D2. cbv zeta. change (0 <? 0) with false. cbv iota.
  rewrite at_nth by lia. cbn [bind]. unfold nth_byte in D4. rewrite D4.
  change (negb (58 =? 58)%N || negb (0 =? 0)) with false. cbv iota.
  rewrite CH, (hget_some _ _ _ Hp). cbn [bind]. rewrite Edl. cbn [negb].
  rewrite (hupd_ok _ _ _ _ Hp). cbn [bind].
  assert (Hpa : nth_error (s_h sa) parent = Some pn) by (rewrite CH; exact Hp).
  assert (Htmpa : TmpOK (s_h sa) (b_seg pn)) by (rewrite CH; exact Htmp).
  destruct (dl_terms_ok sa parent pn HDa Hpa Edl Htmpa) as [s3 (E3 & D3' & C3 & R3 & O3 & (pn1 & P1 & P2 & P3))].
  rewrite CH in E3, O3.
  match goal with |- exists s1 node, (bind ?e _) = _ /\ _ => replace e with (Ok s3) end.
  cbn [bind]. change (0 + 1) with 1. replace (b_i2 pn - 0 - 1) with w by lia.
  destruct (lp_indent_position (zskip 1 (sview s)) 1 w ltac:(lia)) as (cpos & pad & Ei & Hc1 & Hc2 & Hc3). rewrite Ei.
  rewrite (dl_zlen_zskip1 _ D5) in Hc1.
  pose proof D3' as [S3 T3].
  assert (Hsb : same_pos (s_r s) (s_r s3)) by (rewrite R3; exact CP).
  assert (Hv : r_view (s_r s3) = sview s) by (apply same_pos_view; exact Hsb).
  destruct (ri_advance_and_set_padding_in_line (s_r s3) (cpos + 1) pad (si_r _ _ _ S3)) as [r' (Er & Rr & Lr & Es)].
  { rewrite (same_pos_in_range _ _ Hsb). exact Hin'. }
  { rewrite Hv. lia. }
  { rewrite Hv. intros k Hk. destruct (Z.eq_dec k 0) as [->|Hk0]; [rewrite D4; discriminate|].
    replace k with ((k - 1) + 1) by lia. rewrite <- dl_nth_zskip1 by lia. apply Hc3. lia. }
  { exact Hc2. }
  rewrite Er. cbn [bind]. rewrite new_node_eq. cbn [st_r st_h s_h s_c s_r].
  set (dn := set_tight (mknode BHTML 102) false).
  eexists _, _. split; [reflexivity|]. cbn [st_r st_h s_h s_c s_r].
  assert (Sr : SI (st_r s3 r')) by (apply SI_set_r; [exact S3|exact Rr|apply same_line_le; exact Lr]).
  destruct O3 as (L3 & Old3 & New3).
  csplit.
  - apply (dl_SD_new space_table src (st_r s3 r') dn); [split; [exact Sr|exact T3]|reflexivity|reflexivity| |discriminate].
    unfold ParseBlocksTotalDefs.node_ok. cbn. constructor.
  - congruence.
  - eapply same_line_trans; [apply same_pos_line; exact Hsb|exact Lr].
  - rewrite Es. destruct Hsb as (_ & Q & _). rewrite Q, D3. lia.
  - split; [rewrite app_length; cbn [length]; lia|]. intros j n Hj.
    destruct (Old3 j n Hj) as (n' & En' & A1 & A2 & _). exists n'. split; [apply nth_error_alloc_old; exact En'|auto].
  - exact L3.
  - rewrite app_length. cbn [length]. lia.
  - apply nth_error_alloc_new.
  - exists pn1. split; [apply nth_error_alloc_old; exact P1|]. split; [exact P2|]. split; [exact P3|].
    destruct (Old3 parent pn Hp) as (n' & En' & _ & _ & A3 & _). rewrite P1 in En'. injection En' as <-. exact A3.
  - intros j n Hj. destruct (Old3 j n Hj) as (n' & En' & _ & _ & A3 & _ & A5 & A6).
    exists n'. split; [apply nth_error_alloc_old; exact En'|auto].
  - intros j n' L H. destruct (nth_error_alloc_inv _ _ _ _ H) as [E|[_ ->]]; [exact (New3 j n' L E)|reflexivity].
Qed.

End S.
