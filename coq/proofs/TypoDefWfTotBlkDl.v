(* Helper file for TypoDefWfTotBlk.v: the two block parsers of extension.DefinitionList
   (model/TypoDefParseD.v deflist_open / deflist_continue / add_terms / defdesc_open / defdesc_close),
   the detaching append_childD and the dispatch functions p_continueD / p_closeD under the state
   invariant SD = SI + TC. *)
Require Import GM.model.Base GM.model.Util GM.model.Reader GM.model.ReaderSpec GM.model.Blocks GM.model.ListItem
               GM.model.LeafBlocks GM.model.CodeBlock GM.model.LinkDest GM.model.Regex GM.model.BlockParse
               GM.model.TypoDefParseD.
Require Import GM.proofs.ReaderProofs GM.proofs.BlocksProofs GM.proofs.ParseBlocksTotalReader
               GM.proofs.ParseBlocksTotalDefs GM.proofs.ParseBlocksTotalSpec GM.proofs.ParseBlocksTotalSt
               GM.proofs.ParseBlocksTotalShape GM.proofs.ParseBlocksTotalLeaf GM.proofs.ParseBlocksTotalLeaf2
               GM.proofs.ParseBlocksTotalCont GM.proofs.ParseBlocksTotalPair GM.proofs.ParseBlocksTotalTransform
               GM.proofs.ParseBlocksTotalClose
               GM.proofs.GfmConservativeDefs GM.proofs.TypoDefConservativeBlkInv
               GM.proofs.TypoDefWfTotBlkDefs GM.proofs.TypoDefWfTotBlkSpec GM.proofs.TypoDefWfTotBlkTc
               GM.proofs.TypoDefWfTotBlkDlA GM.proofs.TypoDefWfTotBlkDlB GM.proofs.TypoDefWfTotBlkDlC.
From Coq Require Import ZArith Lia List Bool.
Import ListNotations.
Open Scope Z_scope.

(* ---------- the dispatch on the node ---------- *)
Section Dispatch.
Variable space_table : list N.
Variable re_t1c : re.

Lemma p_continueD_core bp s node n : nth_error (s_h s) node = Some n -> is_dl n = false -> is_dd n = false ->
  p_continueD space_table re_t1c bp s node = p_continue space_table re_t1c bp s node.
Proof using All.
  intros E A B. unfold p_continueD. rewrite (hget_some _ _ _ E). cbn [bind]. rewrite A, B. reflexivity.
Qed.
Lemma p_continueD_dl bp s node n : nth_error (s_h s) node = Some n -> is_dl n = true ->
  p_continueD space_table re_t1c bp s node = (x <- deflist_continue space_table s node ;; Ok (fst x, snd x, true)).
Proof using All.
  intros E A. unfold p_continueD. rewrite (hget_some _ _ _ E). cbn [bind]. rewrite A. reflexivity.
Qed.
Lemma p_continueD_dd bp s node n : nth_error (s_h s) node = Some n -> is_dl n = false -> is_dd n = true ->
  p_continueD space_table re_t1c bp s node = Ok (s, true, true).
Proof using All.
  intros E A B. unfold p_continueD. rewrite (hget_some _ _ _ E). cbn [bind]. rewrite A, B. reflexivity.
Qed.
Lemma p_closeD_core bp s node n : nth_error (s_h s) node = Some n -> is_dl n = false -> is_dd n = false ->
  p_closeD space_table bp s node = p_close space_table bp s node.
Proof using All.
  intros E A B. unfold p_closeD. rewrite (hget_some _ _ _ E). cbn [bind]. rewrite A, B. reflexivity.
Qed.
Lemma p_closeD_dl bp s node n : nth_error (s_h s) node = Some n -> is_dl n = true ->
  p_closeD space_table bp s node = Ok s.
Proof using All.
  intros E A. unfold p_closeD. rewrite (hget_some _ _ _ E). cbn [bind]. rewrite A. reflexivity.
Qed.
Lemma p_closeD_dd bp s node n : nth_error (s_h s) node = Some n -> is_dl n = false -> is_dd n = true ->
  p_closeD space_table bp s node = defdesc_close s node.
Proof using All.
  intros E A B. unfold p_closeD. rewrite (hget_some _ _ _ E). cbn [bind]. rewrite A, B. reflexivity.
Qed.
End Dispatch.

Section S.
Variable space_table punct_table : list N.
Variable norm : bytes -> bytes.
Variable re_t1o re_t1c re_t2 re_t3 re_t4 re_t5 re_t6 re_t7 : re.
Variable allowed_tags : list bytes.
Variable src : bytes.
Hypothesis tbl : TblOK space_table.
Notation SI := (SI space_table src).
Notation SD := (SD space_table src).
Notation HInv := (HInv space_table src).
Notation HStep := (HStep space_table src).
Notation close_postD := (close_postD space_table src).

(* ---------- append_childD ---------- *)
(* a detached node: the plain AppendChild *)
Lemma append_childD_new h p c cn : nth_error h c = Some cn -> bpar cn = None ->
  append_childD h p c = append_child h p c.
Proof using All. apply dl_append_childD_new. Qed.

(* a child of p moves behind its siblings *)
Lemma append_childD_move h p c pn cn : HInv h -> TC h -> nth_error h p = Some pn -> nth_error h c = Some cn ->
  In c (bch pn) -> bk pn <> BList -> bk cn <> BListItem ->
  exists h', append_childD h p c = Ok h' /\ HStep h h' /\ TC h' /\ length h' = length h /\
    bpar cn = Some p /\ nth_error h' c = Some cn /\
    nth_error h' p = Some (set_ch pn (remove_id c (bch pn) ++ [c])) /\
    (forall j, j <> p -> j <> c -> nth_error h' j = nth_error h j).
Proof using All. apply dl_append_childD_move. Qed.

(* ---------- definitionListParser ---------- *)
(* Open: declines without touching heap and context, or returns (1) a new list for a paragraph that is
   the last child of the parent (RequireParagraph), (2) the list in front of that paragraph, (3) the
   list that is the last child of the parent; the reader is not moved *)
Lemma deflist_open_ok s parent pn : SD s -> sin s -> BoffOK s -> OffOK s -> nth_error (s_h s) parent = Some pn ->
  exists s1 o, deflist_open s parent = Ok (s1, o) /\
    SD s1 /\ same_pos (s_r s) (s_r s1) /\ s_c s1 = s_c s /\
    match o with
    | None => s_h s1 = s_h s
    | Some (node, kids, req) =>
      kids = true /\ is_dl pn = false /\ DLine s /\
      exists l ln W, last_id (bch pn) = Some l /\ nth_error (s_h s) l = Some ln /\ Wok s W /\
        ((req = true /\ bk ln = BParagraph /\ node = length (s_h s) /\
          s_h s1 = s_h s ++ [set_seg (set_i2 (mknode BHTML 100) W) (para_ref l)])
         \/
         (req = false /\ bk ln = BParagraph /\ node <> l /\ In node (bch pn) /\
          exists nn, nth_error (s_h s) node = Some nn /\ is_dl nn = true /\
                     s_h s1 = hset (s_h s) node (set_seg (set_i2 nn W) (para_ref l)))
         \/
         (req = false /\ is_dl ln = true /\ node = l /\
          s_h s1 = hset (s_h s) l (set_seg (set_i2 ln W) None)))
    end.
Proof using All. apply dl_deflist_open_ok. Qed.

(* Continue: the heap and the context stay, the reader stays on the line *)
Lemma deflist_continue_ok s node n : SI s -> sin s -> nth_error (s_h s) node = Some n ->
  exists s' c, deflist_continue space_table s node = Ok (s', c) /\ SI s' /\ s_h s' = s_h s /\ s_c s' = s_c s /\
    same_line (s_r s) (s_r s').
Proof using All. apply dl_deflist_continue_ok. Qed.

(* ---------- definitionDescriptionParser ---------- *)
(* below a node that is no definition list the parser declines *)
Lemma defdesc_open_none s parent pn : SI s -> sin s -> BoffOK s -> nth_error (s_h s) parent = Some pn -> is_dl pn = false ->
  exists s1, defdesc_open space_table s parent = Ok (s1, None) /\ SI s1 /\ scache s s1.
Proof using All. apply dl_defdesc_open_none. Qed.

(* below the list the definition list parser has just returned (Offset computed on this line, the
   temporary paragraph, if any, attached): the terms are made, the paragraph is detached, the reader
   advances by at least one byte and a description node (detached, without children) is returned *)
Lemma defdesc_open_dl s parent pn : SD s -> sin s -> DLine s -> nth_error (s_h s) parent = Some pn -> is_dl pn = true ->
  Wok s (b_i2 pn) -> TmpOK (s_h s) (b_seg pn) ->
  exists s1 node, defdesc_open space_table s parent = Ok (s1, Some (node, true, false)) /\
    SD s1 /\ s_c s1 = s_c s /\ same_line (s_r s) (s_r s1) /\
    s_start (r_pos (s_r s)) + 1 <= s_start (r_pos (s_r s1)) /\
    kkeep (s_h s) (s_h s1) /\ (length (s_h s) <= node)%nat /\ S node = length (s_h s1) /\
    nth_error (s_h s1) node = Some (set_tight (mknode BHTML 102) false) /\
    (exists pn1, nth_error (s_h s1) parent = Some pn1 /\ bpar pn1 = bpar pn /\ b_seg pn1 = None /\
                 blines pn1 = blines pn) /\
    (forall j n, nth_error (s_h s) j = Some n -> exists n', nth_error (s_h s1) j = Some n' /\
        blines n' = blines n /\ (bk n <> BParagraph -> bpar n' = bpar n) /\ (bk n = BList -> bch n' = bch n)) /\
    (forall j n', (length (s_h s) <= j)%nat -> nth_error (s_h s1) j = Some n' -> bk n' = BHTML).
Proof using All. apply (dl_defdesc_open_dl space_table norm src). Qed.

(* Close *)
Lemma defdesc_close_ok s node n : SD s -> nth_error (s_h s) node = Some n -> is_dd n = true ->
  exists s', defdesc_close s node = Ok s' /\ close_postD PHTML node s s' /\ TC (s_h s') /\ kkeep (s_h s) (s_h s').
Proof using All. apply dl_defdesc_close_ok. Qed.

(* ---------- Close of the generalised driver ---------- *)
Lemma p_closeD_ok bp s node n : SD s -> nth_error (s_h s) node = Some n -> bk n = kind_of_parser bp ->
  bpar n <> None ->
  (bp = PFenced -> c_fence (s_c s) <> None) ->
  (bp = PSetext -> blines n <> [] /\ c_tmp_para (s_c s) <> None) ->
  exists s', p_closeD space_table bp s node = Ok s' /\ close_postD bp node s s' /\
             TC (s_h s') /\ kkeep (s_h s) (s_h s').
Proof using All.
  intros HD Hn Hk Hp Hf Hsx. pose proof HD as [HS HT].
  assert (Hbp : bk n = BHTML -> bp = PHTML).
  { intros K. rewrite K in Hk. destruct bp; cbn in Hk; congruence. }
  destruct (is_dl n) eqn:Edl.
  - rewrite (p_closeD_dl space_table re_t1c bp s node n Hn Edl). exists s. split; [reflexivity|].
    pose proof (Hbp (is_dl_kind _ Edl)) as ->. csplit.
    + apply close_post_D. apply (close_post_id space_table norm src); [exact HS|discriminate].
    + exact HT.
    + apply kkeep_refl.
  - destruct (is_dd n) eqn:Edd.
    + rewrite (p_closeD_dd space_table re_t1c bp s node n Hn Edl Edd).
      pose proof (Hbp (is_dd_kind _ Edd)) as ->. apply (dl_defdesc_close_ok space_table src s node n HD Hn Edd).
    + rewrite (p_closeD_core space_table re_t1c bp s node n Hn Edl Edd).
      destruct (p_close_ok space_table punct_table norm re_t1o re_t1c re_t2 re_t3 re_t4 re_t5 re_t6 re_t7 allowed_tags
                  src tbl bp s node n HS Hn Hk Hp Hf Hsx) as [s' [E P]].
      exists s'. split; [exact E|]. split; [apply close_post_D; exact P|].
      exact (p_close_TC space_table punct_table norm re_t1o re_t1c re_t2 re_t3 re_t4 re_t5 re_t6 re_t7 allowed_tags
               src bp s node s' (si_h _ _ _ HS) HT E).
Qed.

(* the paragraph transformer, with TC and the kind frame *)
Lemma transform_paragraph_okD s node n : SD s -> nth_error (s_h s) node = Some n -> bk n = BParagraph ->
  bpar n <> None ->
  exists s' gone, transform_paragraph space_table punct_table norm s node = Ok (s', gone) /\
    transform_post space_table src node s s' gone /\ TC (s_h s') /\ kkeep (s_h s) (s_h s').
Proof using All.
  intros [HS HT] Hn Hk Hp.
  destruct (transform_paragraph_ok space_table punct_table norm src tbl s node n HS Hn Hk Hp) as [s' [g [E P]]].
  exists s', g. split; [exact E|]. split; [exact P|].
  exact (transform_paragraph_TC space_table punct_table norm re_t1o re_t1c re_t2 re_t3 re_t4 re_t5 re_t6 re_t7 allowed_tags
           src s node s' g (si_h _ _ _ HS) HT E).
Qed.

End S.
