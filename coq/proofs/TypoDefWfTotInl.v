(* C01 (inline phase of the parser model with extension.Typographer, model/TypoDefParseT.v):
   inline_childrenT never panics and never runs out of fuel on a block whose lines satisfy TypoDefWfDefs.linesTD_ok
   (lines_ok, or one line with padding: see TypoDefWfDefs.v), for both
   settings of the switch and all quote counters.  Port of proofs/ParseInlineTotal.v; template for
   the port to a generalised driver: proofs/GfmWfTotInl*.v.  Hypotheses about the tables and regular
   expressions may be added as Section Hypotheses when a proof needs them (as Hopen and Hclose in
   ParseInlineTotal.v); each must then be discharged for the tables of model/TypoDefI.v in the
   corollary at the end, whose statement must stay as it is.  Helper files: proofs/TypoDefWfTotInl*.v,
   in compile order: TypoDefWfTotInlRd, TypoDefWfTotInlRd2, TypoDefWfTotInlPar, TypoDefWfTotInlLink (forks of
   ParseInlineTotalReader, Reader2, Parsers, Link over a reader invariant that lets the first line of the block have
   padding), TypoDefWfTotInlTypo (typo_parse), TypoDefWfTotInlDrive (ip_parseT ... parse_blockT, itreeT; the first
   loop round of the block of one line with padding). *)
Require Import GM.model.Base GM.model.Util GM.model.UtilI GM.model.Reader GM.model.ReaderSpec GM.model.Regex GM.model.Delim GM.model.DelimI
               GM.model.HtmlWriter GM.model.Html GM.model.HtmlSpec GM.model.BlockParse GM.model.InlineParse
               GM.model.TypoDefParseU GM.model.TypoDefParseT GM.model.TypoDefI.
Require Import GM.gen.Tables GM.gen.Regexes.
Require Import GM.proofs.ParseInv GM.proofs.ParseInlineTotalReader2 GM.proofs.TypoDefWfDefs.
Require GM.proofs.TypoDefWfTotInlRd2.
Require Import GM.proofs.TypoDefWfTotInlDrive.
From Coq Require Import ZArith List Bool.
Import ListNotations.
Open Scope Z_scope.

Section S.
Variable typo : bool.
Variable space_table punct_table : list N.
Variable norm : bytes -> bytes.
Variable url_table email_table : list N.
Variable re_email_domain re_open_tag re_close_tag : re.
Variable punct_rune space_rune : N -> bool.
Variable uni_punct uni_space uni_digit uni_letter : N -> bool.
Notation ICT := (inline_childrenT typo space_table punct_table norm url_table email_table
                   re_email_domain re_open_tag re_close_tag punct_rune space_rune uni_punct uni_space uni_digit uni_letter).
Hypothesis Hopen : re_nonempty re_open_tag = true.
Hypothesis Hclose : re_nonempty re_close_tag = true.

(* the forked library has its own copy of re_nonempty *)
Lemma re_nonempty_fork r : GM.proofs.TypoDefWfTotInlRd2.re_nonempty r = re_nonempty r.
Proof. reflexivity. Qed.

(* the lines of the default configuration (no padding) *)
Theorem inline_childrenT_total_lines : forall refs cnt src lines,
  bytes_ok src -> lines_ok src lines -> exists x, ICT refs cnt src lines = Ok x.
Proof.
  intros refs cnt src lines _ Hlines. apply inline_childrenT_total_lines_gen; try assumption; rewrite re_nonempty_fork; assumption.
Qed.

Theorem inline_childrenT_total : forall refs cnt src lines,
  bytes_ok src -> linesTD_ok src lines -> exists x, ICT refs cnt src lines = Ok x.
Proof.
  intros refs cnt src lines Hsrc [Hlines|(sg & -> & Hsg)].
  - apply inline_childrenT_total_lines; assumption.
  - apply inline_childrenT_total_one_gen; try assumption; rewrite re_nonempty_fork; assumption.
Qed.

End S.

(* the tables of model/TypoDefI.v ParseTreeTD *)
Corollary InlineChildrenTD_total : forall typo refs cnt src lines,
  bytes_ok src -> linesTD_ok src lines ->
  exists x, inline_childrenT typo space_table punct_table ToLinkReference url_table email_table re_emailDomain re_openTag re_closeTag
                             PunctRune SpaceRune UniPunct UniSpace UniDigit UniLetter refs cnt src lines = Ok x.
Proof.
  intros typo refs cnt src lines Hsrc Hlines.
  apply inline_childrenT_total; [vm_compute; reflexivity|vm_compute; reflexivity|exact Hsrc|exact Hlines].
Qed.
