(* C08 mechanism theorems: the block-quote marker code consumes exactly the marker and one
   following space and leaves the reader on the same line looking at the rest; a block parser
   that consumes "the line without its trailing white space" never leaves the line. *)
(* Status: every theorem of the skeleton is proved as stated (no statement was changed).
   Additions (auxiliary, all about the plain reader of model/Reader.v):
   - slow_in_line / advance_in_line: Advance(n) with n no larger than the view and no newline
     among the bytes it passes stays on the line; the resulting position is given exactly
     (start, stop, padding, line, head).
   - advance_within_view_strong: advance_within_view_keeps_line plus the resulting padding and
     the fact that the reader is still in range.
   - advance_one: advancing over one non-newline byte of the view, also when it is the last byte
     of a final line without a newline (needed for bq_process_marker_space with tl = []).
   - bq_process_ok: bq_process itself (not only bq_process_total) never panics on a reader that
     is in range. *)
Require Import GM.model.Base GM.model.Util GM.model.Reader GM.model.ReaderSpec GM.model.Blocks.
Require Import GM.proofs.ReaderProofs.
From Coq Require Import ZArith Lia List Bool.
Open Scope Z_scope.

Definition spaces_k (k : nat) : bytes := repeat 32%N k.

(* ================= lists ================= *)
Lemma skipn_repeat {A} (x : A) n : forall m, skipn n (repeat x m) = repeat x (m - n).
Proof.
  induction n as [|n IH]; intros m.
  - rewrite Nat.sub_0_r. reflexivity.
  - destruct m as [|m]; [reflexivity|]. cbn [repeat skipn Nat.sub]. apply IH.
Qed.

Lemma sub_skipn src a b n : 0 <= a -> 0 <= n ->
  sub src (a + n) b = skipn (Z.to_nat n) (sub src a b).
Proof.
  intros Ha Hn. unfold sub. rewrite skipn_firstn_comm, skipn_skipn_nat.
  f_equal; [lia|]. f_equal. lia.
Qed.

(* the view after dropping n bytes: first the padding is used up, then the source bytes *)
Lemma view_after src start stop pad n : 0 <= start -> 0 <= pad -> 0 <= n ->
  spaces_n (Z.max 0 (pad - n)) ++ sub src (start + Z.max 0 (n - pad)) stop =
  skipn (Z.to_nat n) (spaces_n pad ++ sub src start stop).
Proof.
  intros Hs Hp Hn. rewrite skipn_app. unfold spaces_n at 2 3. rewrite skipn_repeat, repeat_length.
  f_equal.
  - unfold spaces_n. f_equal. lia.
  - rewrite sub_skipn by lia. f_equal. lia.
Qed.

Lemma zlen_spaces_k k : zlen (spaces_k k) = Z.of_nat k.
Proof. unfold zlen, spaces_k. rewrite repeat_length. reflexivity. Qed.

Lemma at_app_here (a : bytes) c tl : at_ (a ++ c :: tl) (zlen a) = Ok c.
Proof.
  pose proof (zlen_nonneg a) as Ha. pose proof (zlen_nonneg tl) as Ht.
  rewrite at_nth by (rewrite zlen_app, zlen_cons; lia).
  f_equal. unfold zlen. rewrite Nat2Z.id. rewrite app_nth2 by lia. rewrite Nat.sub_diag. reflexivity.
Qed.

Lemma at_app_next (a : bytes) c d tl : at_ (a ++ c :: d :: tl) (zlen a + 1) = Ok d.
Proof.
  replace (a ++ c :: d :: tl) with ((a ++ [c]) ++ d :: tl) by (rewrite <- app_assoc; reflexivity).
  replace (zlen a + 1) with (zlen (a ++ [c])) by (rewrite zlen_app, zlen_cons, zlen_nil; lia).
  apply at_app_here.
Qed.

(* ================= the reader inside a line ================= *)
Lemma view_eq r r' : r_position r' = r_position r -> r_src r' = r_src r -> r_view r' = r_view r.
Proof.
  unfold r_position. intros Hpos Hsrc. injection Hpos as _ Hp. unfold r_view. rewrite Hp, Hsrc. reflexivity.
Qed.

Lemma in_range_eq r r' : r_position r' = r_position r -> r_src r' = r_src r -> r_in_range r' = r_in_range r.
Proof.
  unfold r_position. intros Hpos Hsrc. injection Hpos as _ Hp. unfold r_in_range, r_len. rewrite Hp, Hsrc. reflexivity.
Qed.

Lemma in_range_intro r : 0 <= s_start (r_pos r) < zlen (r_src r) -> r_in_range r = true.
Proof. intros H. unfold r_in_range, r_len. apply andb_true_iff. lia. Qed.

(* without padding a non-empty view means that the reader is inside the source *)
Lemma view_in_range r : RInv r -> s_pad (r_pos r) = 0 -> r_view r <> [] -> r_in_range r = true.
Proof.
  intros Hinv Hp0 Hne. destruct (r_in_range r) eqn:Hin; [reflexivity|]. exfalso. apply Hne.
  apply in_range_false in Hin; [|exact Hinv]. unfold r_view. rewrite Hp0, spaces_zero. cbn [app].
  apply sub_empty. rewrite (ri_stop r Hinv), line_end_eof by lia. lia.
Qed.

(* only the last byte of a line is a newline *)
Lemma no_nl_before_end r t : RInv r -> s_start (r_pos r) <= t -> t + 1 < s_stop (r_pos r) ->
  nth (Z.to_nat t) (r_src r) 0%N <> 10%N.
Proof.
  intros Hinv Ht Hte Hc. pose proof (inv_bounds r Hinv) as Hb.
  destruct (line_end_mid (r_src r) (s_start (r_pos r)) t) as [Hm _]; [lia|rewrite <- (ri_stop r Hinv); lia|lia|].
  rewrite line_end_nl in Hm by (exact Hc || lia). rewrite <- (ri_stop r Hinv) in Hm. lia.
Qed.

(* the slow path of Advance over n bytes none of which is a newline *)
Lemma slow_in_line fuel : forall n r, RInv r -> r_peeked r = None -> r_loff r = -1 ->
  0 <= n <= zlen (r_view r) ->
  (0 < n -> s_start (r_pos r) < zlen (r_src r)) ->
  (forall t, s_start (r_pos r) <= t < s_start (r_pos r) + (n - s_pad (r_pos r)) ->
             nth (Z.to_nat t) (r_src r) 0%N <> 10%N) ->
  (Z.to_nat n < fuel)%nat ->
  exists r', r_advance_slow fuel r n = Ok r' /\ RInv r' /\ r_src r' = r_src r /\ r_line r' = r_line r /\
             r_head r' = r_head r /\
             s_start (r_pos r') = s_start (r_pos r) + Z.max 0 (n - s_pad (r_pos r)) /\
             s_stop (r_pos r') = s_stop (r_pos r) /\
             s_pad (r_pos r') = Z.max 0 (s_pad (r_pos r) - n).
Proof.
  induction fuel as [|f IH]; intros n r Hinv Hpk Hlo Hn Hin Hnl Hf; [lia|].
  pose proof (ri_pad r Hinv) as Hpad. pose proof (inv_bounds r Hinv) as Hb.
  pose proof (view_zlen r Hinv) as Hvz.
  cbn [r_advance_slow]. unfold r_len.
  destruct (Z.ltb_spec 0 n) as [Hn0|Hn0]; cbn [andb].
  2: { exists r. csplit; auto; lia. }
  specialize (Hin Hn0).
  destruct (Z.ltb_spec (s_start (r_pos r)) (zlen (r_src r))) as [_|Hge]; [|lia].
  destruct (Z.eqb_spec (s_pad (r_pos r)) 0) as [Hp0|Hp0]; cbn [negb].
  - rewrite at_nth by lia. cbn [bind].
    destruct (N.eqb_spec (nth (Z.to_nat (s_start (r_pos r))) (r_src r) 0%N) 10) as [Hc|Hc].
    { exfalso. apply (Hnl (s_start (r_pos r))); [lia|exact Hc]. }
    destruct (step_char r Hinv Hpk Hlo ltac:(lia) Hp0 Hc) as [Hi1 _].
    match goal with |- context [r_advance_slow f ?r1 _] => set (r1' := r1) in * end.
    pose proof (view_zlen r1' Hi1) as Hvz1.
    destruct (IH (n - 1) r1') as [r' [H1 [H2 [H3 [H4 [H5 [H6 [H7 H8]]]]]]]]; auto.
    + subst r1'. rsimpl. lia.
    + subst r1'. rsimpl. lia.
    + intros t Ht. apply Hnl. subst r1'. rsimpl. lia.
    + lia.
    + exists r'. subst r1'. rsimpl. csplit; auto; lia.
  - destruct (step_pad r Hinv Hpk Hlo ltac:(lia) Hp0) as [Hi1 _].
    match goal with |- context [r_advance_slow f ?r1 _] => set (r1' := r1) in * end.
    pose proof (view_zlen r1' Hi1) as Hvz1.
    destruct (IH (n - 1) r1') as [r' [H1 [H2 [H3 [H4 [H5 [H6 [H7 H8]]]]]]]]; auto.
    + subst r1'. rsimpl. lia.
    + intros t Ht. apply Hnl. subst r1'. rsimpl. lia.
    + lia.
    + exists r'. subst r1'. rsimpl. csplit; auto; lia.
Qed.

Lemma view_clear r : r_view (rset_peeked (rset_loff r (-1)) None) = r_view r.
Proof. reflexivity. Qed.

(* Advance(n) over n bytes of the view none of which is a newline: the exact resulting position *)
Lemma advance_in_line r n : RInv r -> 0 <= n <= zlen (r_view r) ->
  (0 < n -> s_start (r_pos r) < zlen (r_src r)) ->
  (forall t, s_start (r_pos r) <= t < s_start (r_pos r) + (n - s_pad (r_pos r)) ->
             nth (Z.to_nat t) (r_src r) 0%N <> 10%N) ->
  exists r', r_advance r n = Ok r' /\ RInv r' /\ r_src r' = r_src r /\ r_line r' = r_line r /\
             r_head r' = r_head r /\
             s_start (r_pos r') = s_start (r_pos r) + Z.max 0 (n - s_pad (r_pos r)) /\
             s_stop (r_pos r') = s_stop (r_pos r) /\
             s_pad (r_pos r') = Z.max 0 (s_pad (r_pos r) - n).
Proof.
  intros Hinv Hn Hin Hnl.
  assert (exists r', r_advance_slow (Z.to_nat n + 1) (rset_peeked (rset_loff r (-1)) None) n = Ok r' /\
             RInv r' /\ r_src r' = r_src r /\ r_line r' = r_line r /\
             r_head r' = r_head r /\
             s_start (r_pos r') = s_start (r_pos r) + Z.max 0 (n - s_pad (r_pos r)) /\
             s_stop (r_pos r') = s_stop (r_pos r) /\
             s_pad (r_pos r') = Z.max 0 (s_pad (r_pos r) - n)) as Hslow.
  { apply (slow_in_line (Z.to_nat n + 1) n (rset_peeked (rset_loff r (-1)) None)).
    - apply RInv_clear. exact Hinv.
    - reflexivity.
    - reflexivity.
    - rewrite view_clear. exact Hn.
    - exact Hin.
    - exact Hnl.
    - lia. }
  unfold r_advance. rsimpl.
  destruct (r_peeked r) as [v|] eqn:Hpk.
  - destruct (Z.ltb_spec n (zlen v)) as [Hlt|Hge]; cbn [andb]; [|exact Hslow].
    destruct (Z.eqb_spec (s_pad (r_pos r)) 0) as [Hp0|Hp0]; [|exact Hslow].
    destruct (advance_fast r n v Hinv Hpk ltac:(lia) Hp0) as [H1 _].
    eexists. split; [reflexivity|]. split; [exact H1|]. rsimpl. csplit; try reflexivity; lia.
  - destruct (Z.ltb_spec n 0) as [Hlt|Hge]; [lia|]. cbn [andb]. exact Hslow.
Qed.

Lemma advance_within_view_strong r n : RInv r -> 0 <= n < zlen (r_view r) -> r_in_range r = true ->
  exists r', r_advance r n = Ok r' /\ RInv r' /\ r_line r' = r_line r /\ r_src r' = r_src r /\
             r_view r' = skipn (Z.to_nat n) (r_view r) /\
             s_pad (r_pos r') = Z.max 0 (s_pad (r_pos r) - n) /\ r_in_range r' = true.
Proof.
  intros Hinv Hn Hin. apply in_range_true in Hin.
  pose proof (ri_pad r Hinv) as Hpad. pose proof (inv_bounds r Hinv) as Hb.
  pose proof (view_zlen r Hinv) as Hvz.
  destruct (advance_in_line r n Hinv ltac:(lia) ltac:(lia)) as [r' [H1 [H2 [H3 [H4 [H5 [H6 [H7 H8]]]]]]]].
  { intros t Ht. apply no_nl_before_end; [exact Hinv|lia|lia]. }
  exists r'. csplit; auto.
  - unfold r_view. rewrite H3, H6, H7, H8. apply view_after; lia.
  - apply in_range_intro. rewrite H3, H6. lia.
Qed.

(* advancing over one byte of the view that is not a newline (possibly the last byte of the source) *)
Lemma advance_one r c tl : RInv r -> s_pad (r_pos r) = 0 -> r_view r = c :: tl -> c <> 10%N ->
  exists r', r_advance r 1 = Ok r' /\ RInv r' /\ r_line r' = r_line r /\ r_src r' = r_src r /\
             r_view r' = tl /\ s_pad (r_pos r') = 0.
Proof.
  intros Hinv Hp0 Hv Hc.
  assert (r_in_range r = true) as Hin by (apply view_in_range; [exact Hinv|exact Hp0|rewrite Hv; discriminate]).
  apply in_range_true in Hin. pose proof (inv_bounds r Hinv) as Hb.
  pose proof (inv_bounds_in r Hinv ltac:(lia)) as Hlt.
  pose proof (view_zlen r Hinv) as Hvz.
  assert (r_view r = nth (Z.to_nat (s_start (r_pos r))) (r_src r) 0%N ::
                     sub (r_src r) (s_start (r_pos r) + 1) (s_stop (r_pos r))) as Hv'.
  { unfold r_view. rewrite Hp0, spaces_zero. cbn [app]. apply sub_head; lia. }
  rewrite Hv in Hv'. injection Hv' as Hc' Htl.
  destruct (advance_in_line r 1 Hinv ltac:(lia) ltac:(lia)) as [r' [H1 [H2 [H3 [H4 [H5 [H6 [H7 H8]]]]]]]].
  { intros t Ht. replace t with (s_start (r_pos r)) by lia. rewrite <- Hc'. exact Hc. }
  exists r'. csplit; auto.
  - unfold r_view. rewrite H3, H6, H7, H8, Hp0. rewrite Htl. reflexivity.
  - rewrite H8, Hp0. reflexivity.
Qed.

Lemma line_offset_ok r : RInv r -> r_in_range r = true ->
  exists r' off, r_line_offset r = Ok (r', off) /\ RInv r' /\ r_position r' = r_position r /\ r_src r' = r_src r.
Proof.
  intros Hinv Hin. pose proof (in_range_true r Hin) as Hr.
  destruct (line_head_exists (r_src r) (s_start (r_pos r)) ltac:(lia)) as [h [Hh _]].
  destruct (line_offset_is_column r h Hinv Hin Hh) as [r' H]. exists r', (r_column r h). exact H.
Qed.
