(* C08 mechanism theorems: the block-quote marker code consumes exactly the marker and one
   following space and leaves the reader on the same line looking at the rest; a block parser
   that consumes "the line without its trailing white space" never leaves the line. *)
(* Status: every theorem of the skeleton is proved as stated (no statement was changed).
   Additions (auxiliary, all about the plain reader of model/Reader.v):
   - slow_in_line / advance_in_line: Advance(n) with n no larger than the view and no newline
     among the bytes it passes stays on the line; the resulting position is given exactly
     (start, stop, padding, line, head).
   - advance_within_view_strong: advance_within_view_keeps_line plus the resulting padding and
     the fact that the reader is still in range.
   - advance_one: advancing over one non-newline byte of the view, also when it is the last byte
     of a final line without a newline (needed for bq_process_marker_space with tl = []).
   - bq_process_ok: bq_process itself (not only bq_process_total) never panics on a reader that
     is in range. *)
Require Import GM.model.Base GM.model.Util GM.model.Reader GM.model.ReaderSpec GM.model.Blocks.
Require Import GM.proofs.ReaderProofs.
From Coq Require Import ZArith Lia List Bool.
Open Scope Z_scope.

Definition spaces_k (k : nat) : bytes := repeat 32%N k.

(* ================= lists ================= *)
Lemma skipn_repeat {A} (x : A) n : forall m, skipn n (repeat x m) = repeat x (m - n).
Proof.
  induction n as [|n IH]; intros m.
  - rewrite Nat.sub_0_r. reflexivity.
  - destruct m as [|m]; [reflexivity|]. cbn [repeat skipn Nat.sub]. apply IH.
Qed.

Lemma sub_skipn src a b n : 0 <= a -> 0 <= n ->
  sub src (a + n) b = skipn (Z.to_nat n) (sub src a b).
Proof.
  intros Ha Hn. unfold sub. rewrite skipn_firstn_comm, skipn_skipn_nat.
  f_equal; [lia|]. f_equal. lia.
Qed.

(* the view after dropping n bytes: first the padding is used up, then the source bytes *)
Lemma view_after src start stop pad n : 0 <= start -> 0 <= pad -> 0 <= n ->
  spaces_n (Z.max 0 (pad - n)) ++ sub src (start + Z.max 0 (n - pad)) stop =
  skipn (Z.to_nat n) (spaces_n pad ++ sub src start stop).
Proof.
  intros Hs Hp Hn. rewrite skipn_app. unfold spaces_n at 2 3. rewrite skipn_repeat, repeat_length.
  f_equal.
  - unfold spaces_n. f_equal. lia.
  - rewrite sub_skipn by lia. f_equal. lia.
Qed.

Lemma zlen_spaces_k k : zlen (spaces_k k) = Z.of_nat k.
Proof. unfold zlen, spaces_k. rewrite repeat_length. reflexivity. Qed.

Lemma at_app_here (a : bytes) c tl : at_ (a ++ c :: tl) (zlen a) = Ok c.
Proof.
  pose proof (zlen_nonneg a) as Ha. pose proof (zlen_nonneg tl) as Ht.
  rewrite at_nth by (rewrite zlen_app, zlen_cons; lia).
  f_equal. unfold zlen. rewrite Nat2Z.id. rewrite app_nth2 by lia. rewrite Nat.sub_diag. reflexivity.
Qed.

Lemma at_app_next (a : bytes) c d tl : at_ (a ++ c :: d :: tl) (zlen a + 1) = Ok d.
Proof.
  replace (a ++ c :: d :: tl) with ((a ++ [c]) ++ d :: tl) by (rewrite <- app_assoc; reflexivity).
  replace (zlen a + 1) with (zlen (a ++ [c])) by (rewrite zlen_app, zlen_cons, zlen_nil; lia).
  apply at_app_here.
Qed.

(* ================= the reader inside a line ================= *)
Lemma view_eq r r' : r_position r' = r_position r -> r_src r' = r_src r -> r_view r' = r_view r.
Proof.
  unfold r_position. intros Hpos Hsrc. injection Hpos as _ Hp. unfold r_view. rewrite Hp, Hsrc. reflexivity.
Qed.

Lemma in_range_eq r r' : r_position r' = r_position r -> r_src r' = r_src r -> r_in_range r' = r_in_range r.
Proof.
  unfold r_position. intros Hpos Hsrc. injection Hpos as _ Hp. unfold r_in_range, r_len. rewrite Hp, Hsrc. reflexivity.
Qed.

Lemma in_range_intro r : 0 <= s_start (r_pos r) < zlen (r_src r) -> r_in_range r = true.
Proof. intros H. unfold r_in_range, r_len. apply andb_true_iff. lia. Qed.

(* without padding a non-empty view means that the reader is inside the source *)
Lemma view_in_range r : RInv r -> s_pad (r_pos r) = 0 -> r_view r <> [] -> r_in_range r = true.
Proof.
  intros Hinv Hp0 Hne. destruct (r_in_range r) eqn:Hin; [reflexivity|]. exfalso. apply Hne.
  apply in_range_false in Hin; [|exact Hinv]. unfold r_view. rewrite Hp0, spaces_zero. cbn [app].
  apply sub_empty. rewrite (ri_stop r Hinv), line_end_eof by lia. lia.
Qed.

(* only the last byte of a line is a newline *)
Lemma no_nl_before_end r t : RInv r -> s_start (r_pos r) <= t -> t + 1 < s_stop (r_pos r) ->
  nth (Z.to_nat t) (r_src r) 0%N <> 10%N.
Proof.
  intros Hinv Ht Hte Hc. pose proof (inv_bounds r Hinv) as Hb.
  destruct (line_end_mid (r_src r) (s_start (r_pos r)) t) as [Hm _]; [lia|rewrite <- (ri_stop r Hinv); lia|lia|].
  rewrite line_end_nl in Hm by (exact Hc || lia). rewrite <- (ri_stop r Hinv) in Hm. lia.
Qed.

(* the slow path of Advance over n bytes none of which is a newline *)
Lemma slow_in_line fuel : forall n r, RInv r -> r_peeked r = None -> r_loff r = -1 ->
  0 <= n <= zlen (r_view r) ->
  (0 < n -> s_start (r_pos r) < zlen (r_src r)) ->
  (forall t, s_start (r_pos r) <= t < s_start (r_pos r) + (n - s_pad (r_pos r)) ->
             nth (Z.to_nat t) (r_src r) 0%N <> 10%N) ->
  (Z.to_nat n < fuel)%nat ->
  exists r', r_advance_slow fuel r n = Ok r' /\ RInv r' /\ r_src r' = r_src r /\ r_line r' = r_line r /\
             r_head r' = r_head r /\
             s_start (r_pos r') = s_start (r_pos r) + Z.max 0 (n - s_pad (r_pos r)) /\
             s_stop (r_pos r') = s_stop (r_pos r) /\
             s_pad (r_pos r') = Z.max 0 (s_pad (r_pos r) - n).
Proof.
  induction fuel as [|f IH]; intros n r Hinv Hpk Hlo Hn Hin Hnl Hf; [lia|].
  pose proof (ri_pad r Hinv) as Hpad. pose proof (inv_bounds r Hinv) as Hb.
  pose proof (view_zlen r Hinv) as Hvz.
  cbn [r_advance_slow]. unfold r_len.
  destruct (Z.ltb_spec 0 n) as [Hn0|Hn0]; cbn [andb].
  2: { exists r. csplit; auto; lia. }
  specialize (Hin Hn0).
  destruct (Z.ltb_spec (s_start (r_pos r)) (zlen (r_src r))) as [_|Hge]; [|lia].
  destruct (Z.eqb_spec (s_pad (r_pos r)) 0) as [Hp0|Hp0]; cbn [negb].
  - rewrite at_nth by lia. cbn [bind].
    destruct (N.eqb_spec (nth (Z.to_nat (s_start (r_pos r))) (r_src r) 0%N) 10) as [Hc|Hc].
    { exfalso. apply (Hnl (s_start (r_pos r))); [lia|exact Hc]. }
    destruct (step_char r Hinv Hpk Hlo ltac:(lia) Hp0 Hc) as [Hi1 _].
    match goal with |- context [r_advance_slow f ?r1 _] => set (r1' := r1) in * end.
    pose proof (view_zlen r1' Hi1) as Hvz1.
    destruct (IH (n - 1) r1') as [r' [H1 [H2 [H3 [H4 [H5 [H6 [H7 H8]]]]]]]]; auto.
    + subst r1'. rsimpl. lia.
    + subst r1'. rsimpl. lia.
    + intros t Ht. apply Hnl. subst r1'. rsimpl. lia.
    + lia.
    + exists r'. subst r1'. rsimpl. csplit; auto; lia.
  - destruct (step_pad r Hinv Hpk Hlo ltac:(lia) Hp0) as [Hi1 _].
    match goal with |- context [r_advance_slow f ?r1 _] => set (r1' := r1) in * end.
    pose proof (view_zlen r1' Hi1) as Hvz1.
    destruct (IH (n - 1) r1') as [r' [H1 [H2 [H3 [H4 [H5 [H6 [H7 H8]]]]]]]]; auto.
    + subst r1'. rsimpl. lia.
    + intros t Ht. apply Hnl. subst r1'. rsimpl. lia.
    + lia.
    + exists r'. subst r1'. rsimpl. csplit; auto; lia.
Qed.

Lemma view_clear r : r_view (rset_peeked (rset_loff r (-1)) None) = r_view r.
Proof. reflexivity. Qed.

(* Advance(n) over n bytes of the view none of which is a newline: the exact resulting position *)
Lemma advance_in_line r n : RInv r -> 0 <= n <= zlen (r_view r) ->
  (0 < n -> s_start (r_pos r) < zlen (r_src r)) ->
  (forall t, s_start (r_pos r) <= t < s_start (r_pos r) + (n - s_pad (r_pos r)) ->
             nth (Z.to_nat t) (r_src r) 0%N <> 10%N) ->
  exists r', r_advance r n = Ok r' /\ RInv r' /\ r_src r' = r_src r /\ r_line r' = r_line r /\
             r_head r' = r_head r /\
             s_start (r_pos r') = s_start (r_pos r) + Z.max 0 (n - s_pad (r_pos r)) /\
             s_stop (r_pos r') = s_stop (r_pos r) /\
             s_pad (r_pos r') = Z.max 0 (s_pad (r_pos r) - n).
Proof.
  intros Hinv Hn Hin Hnl.
  assert (exists r', r_advance_slow (Z.to_nat n + 1) (rset_peeked (rset_loff r (-1)) None) n = Ok r' /\
             RInv r' /\ r_src r' = r_src r /\ r_line r' = r_line r /\
             r_head r' = r_head r /\
             s_start (r_pos r') = s_start (r_pos r) + Z.max 0 (n - s_pad (r_pos r)) /\
             s_stop (r_pos r') = s_stop (r_pos r) /\
             s_pad (r_pos r') = Z.max 0 (s_pad (r_pos r) - n)) as Hslow.
  { apply (slow_in_line (Z.to_nat n + 1) n (rset_peeked (rset_loff r (-1)) None)).
    - apply RInv_clear. exact Hinv.
    - reflexivity.
    - reflexivity.
    - rewrite view_clear. exact Hn.
    - exact Hin.
    - exact Hnl.
    - lia. }
  unfold r_advance. rsimpl.
  destruct (r_peeked r) as [v|] eqn:Hpk.
  - destruct (Z.ltb_spec n (zlen v)) as [Hlt|Hge]; cbn [andb]; [|exact Hslow].
    destruct (Z.eqb_spec (s_pad (r_pos r)) 0) as [Hp0|Hp0]; [|exact Hslow].
    destruct (advance_fast r n v Hinv Hpk ltac:(lia) Hp0) as [H1 _].
    eexists. split; [reflexivity|]. split; [exact H1|]. rsimpl. csplit; try reflexivity; lia.
  - destruct (Z.ltb_spec n 0) as [Hlt|Hge]; [lia|]. cbn [andb]. exact Hslow.
Qed.

Lemma advance_within_view_strong r n : RInv r -> 0 <= n < zlen (r_view r) -> r_in_range r = true ->
  exists r', r_advance r n = Ok r' /\ RInv r' /\ r_line r' = r_line r /\ r_src r' = r_src r /\
             r_view r' = skipn (Z.to_nat n) (r_view r) /\
             s_pad (r_pos r') = Z.max 0 (s_pad (r_pos r) - n) /\ r_in_range r' = true.
Proof.
  intros Hinv Hn Hin. apply in_range_true in Hin.
  pose proof (ri_pad r Hinv) as Hpad. pose proof (inv_bounds r Hinv) as Hb.
  pose proof (view_zlen r Hinv) as Hvz.
  destruct (advance_in_line r n Hinv ltac:(lia) ltac:(lia)) as [r' [H1 [H2 [H3 [H4 [H5 [H6 [H7 H8]]]]]]]].
  { intros t Ht. apply no_nl_before_end; [exact Hinv|lia|lia]. }
  exists r'. csplit; auto.
  - unfold r_view. rewrite H3, H6, H7, H8. apply view_after; lia.
  - apply in_range_intro. rewrite H3, H6. lia.
Qed.

(* advancing over one byte of the view that is not a newline (possibly the last byte of the source) *)
Lemma advance_one r c tl : RInv r -> s_pad (r_pos r) = 0 -> r_view r = c :: tl -> c <> 10%N ->
  exists r', r_advance r 1 = Ok r' /\ RInv r' /\ r_line r' = r_line r /\ r_src r' = r_src r /\
             r_view r' = tl /\ s_pad (r_pos r') = 0.
Proof.
  intros Hinv Hp0 Hv Hc.
  assert (r_in_range r = true) as Hin by (apply view_in_range; [exact Hinv|exact Hp0|rewrite Hv; discriminate]).
  apply in_range_true in Hin. pose proof (inv_bounds r Hinv) as Hb.
  pose proof (inv_bounds_in r Hinv ltac:(lia)) as Hlt.
  pose proof (view_zlen r Hinv) as Hvz.
  assert (r_view r = nth (Z.to_nat (s_start (r_pos r))) (r_src r) 0%N ::
                     sub (r_src r) (s_start (r_pos r) + 1) (s_stop (r_pos r))) as Hv'.
  { unfold r_view. rewrite Hp0, spaces_zero. cbn [app]. apply sub_head; lia. }
  rewrite Hv in Hv'. injection Hv' as Hc' Htl.
  destruct (advance_in_line r 1 Hinv ltac:(lia) ltac:(lia)) as [r' [H1 [H2 [H3 [H4 [H5 [H6 [H7 H8]]]]]]]].
  { intros t Ht. replace t with (s_start (r_pos r)) by lia. rewrite <- Hc'. exact Hc. }
  exists r'. csplit; auto.
  - unfold r_view. rewrite H3, H6, H7, H8, Hp0. rewrite Htl. reflexivity.
  - rewrite H8, Hp0. reflexivity.
Qed.

Lemma line_offset_ok r : RInv r -> r_in_range r = true ->
  exists r' off, r_line_offset r = Ok (r', off) /\ RInv r' /\ r_position r' = r_position r /\ r_src r' = r_src r.
Proof.
  intros Hinv Hin. pose proof (in_range_true r Hin) as Hr.
  destruct (line_head_exists (r_src r) (s_start (r_pos r)) ltac:(lia)) as [h [Hh _]].
  destruct (line_offset_is_column r h Hinv Hin Hh) as [r' H]. exists r', (r_column r h). exact H.
Qed.

(* ================= util.IndentWidth ================= *)
Lemma indent_pos_spaces k : forall c tl cur w pos, c <> 32%N -> c <> 9%N ->
  indent_width_pos (spaces_k k ++ c :: tl) cur w pos = (w + Z.of_nat k, pos + Z.of_nat k).
Proof.
  unfold spaces_k. induction k as [|k IH]; intros c tl cur w pos Hc1 Hc2.
  - cbn [repeat app indent_width_pos].
    destruct (N.eqb_spec c 32) as [He|_]; [congruence|].
    destruct (N.eqb_spec c 9) as [He|_]; [congruence|]. f_equal; lia.
  - cbn [repeat app indent_width_pos]. rewrite N.eqb_refl. rewrite IH by assumption. f_equal; lia.
Qed.

Lemma indent_width_spaces k c tl cur : c <> 32%N -> c <> 9%N ->
  indent_width (spaces_k k ++ c :: tl) cur = (Z.of_nat k, Z.of_nat k).
Proof. intros Hc1 Hc2. unfold indent_width. rewrite indent_pos_spaces by assumption. reflexivity. Qed.

Lemma indent_pos_bounds bs : forall cur w pos w' pos', indent_width_pos bs cur w pos = (w', pos') ->
  pos <= pos' <= pos + zlen bs.
Proof.
  induction bs as [|c bs IH]; intros cur w pos w' pos' H; cbn [indent_width_pos] in H.
  - injection H as _ <-. rewrite zlen_nil. lia.
  - rewrite zlen_cons. pose proof (zlen_nonneg bs) as Hnn.
    destruct (N.eqb c 32); [apply IH in H; lia|].
    destruct (N.eqb c 9); [apply IH in H; lia|].
    injection H as _ <-. lia.
Qed.

(* ================= the block-quote marker code ================= *)
(* the part of bq_process behind the marker *)
Definition bq_after (r : reader) (pos : Z) (d : N) : result (reader * bool) :=
  r <- r_advance r pos ;;
  if N.eqb d 32 || N.eqb d 9 then
    z <- r_line_offset r ;;
    let '(r, off2) := z in
    let padding := if N.eqb d 9 then tab_width off2 - 1 else 0 in
    r <- r_advance_and_set_padding r 1 padding ;;
    Ok (r, true)
  else Ok (r, true).

(* the part of bq_process behind PeekLine and LineOffset *)
Definition bq_tail (r : reader) (line : bytes) (off : Z) : result (reader * bool) :=
  let '(w, pos) := indent_width line off in
  if (3 <? w) || (zlen line <=? pos) then Ok (r, false)
  else
    c <- at_ line pos ;;
    if negb (N.eqb c 62) then Ok (r, false)
    else
      let pos := pos + 1 in
      if zlen line <=? pos then (r <- r_advance r pos ;; Ok (r, true))
      else
        d <- at_ line pos ;;
        if N.eqb d 10 then (r <- r_advance r pos ;; Ok (r, true))
        else bq_after r pos d.

Lemma bq_process_unfold r : RInv r -> r_in_range r = true ->
  exists r2 off, bq_process r = bq_tail r2 (r_view r) off /\ RInv r2 /\
                 r_position r2 = r_position r /\ r_src r2 = r_src r.
Proof.
  intros Hinv Hin. unfold bq_process.
  destruct (peek_line_is_view r Hinv) as [r1 [Hpk [Hinv1 [Hpos1 Hsrc1]]]].
  rewrite Hpk, Hin. cbn [bind].
  destruct (line_offset_ok r1 Hinv1) as [r2 [off [Hlo [Hinv2 [Hpos2 Hsrc2]]]]].
  { rewrite (in_range_eq r r1) by assumption. exact Hin. }
  rewrite Hlo. cbn [bind]. exists r2, off. split; [reflexivity|].
  split; [exact Hinv2|]. split; congruence.
Qed.

Lemma bq_total_unfold r : RInv r -> r_in_range r = true -> bq_process_total r = bq_process r.
Proof.
  intros Hinv Hin. unfold bq_process_total.
  destruct (peek_line_is_view r Hinv) as [r1 [Hpk _]]. rewrite Hpk, Hin. reflexivity.
Qed.

Lemma bq_tail_marker r2 line off k d : indent_width line off = (k, k) -> 0 <= k <= 3 ->
  k + 1 < zlen line -> at_ line k = Ok 62%N -> at_ line (k + 1) = Ok d -> d <> 10%N ->
  bq_tail r2 line off = bq_after r2 (k + 1) d.
Proof.
  intros Hiw Hk Hlen Hat1 Hat2 Hd. unfold bq_tail. rewrite Hiw. cbv beta iota zeta.
  destruct (Z.ltb_spec 3 k) as [Hc|_]; [lia|]. destruct (Z.leb_spec (zlen line) k) as [Hc|_]; [lia|].
  cbn [orb]. rewrite Hat1. cbn [bind]. change (N.eqb 62 62) with true. cbn [negb].
  destruct (Z.leb_spec (zlen line) (k + 1)) as [Hc|_]; [lia|]. rewrite Hat2. cbn [bind].
  destruct (N.eqb_spec d 10) as [Hc|_]; [congruence|]. reflexivity.
Qed.

Lemma marker_line_nonempty k (l : bytes) c tl : spaces_k k ++ [c] ++ tl <> [].
Proof. intros E. apply (f_equal (@length N)) in E. rewrite !app_length in E. cbn [length] in E. lia. Qed.

(* a line that starts (after at most three spaces) with the marker followed by a space: the
   marker and that space are consumed, the reader stays on the line, padding 0 *)
Theorem bq_process_marker_space r k tl : RInv r -> (k <= 3)%nat -> s_pad (r_pos r) = 0 ->
  r_view r = spaces_k k ++ [62%N; 32%N] ++ tl ->
  exists r', bq_process_total r = Ok (r', true) /\ RInv r' /\ r_src r' = r_src r /\
             r_line r' = r_line r /\ r_view r' = tl /\ s_pad (r_pos r') = 0.
Proof.
  intros Hinv Hk Hp0 Hv. change ([62%N; 32%N] ++ tl) with (62%N :: 32%N :: tl) in Hv.
  assert (r_in_range r = true) as Hin.
  { apply view_in_range; [exact Hinv|exact Hp0|]. rewrite Hv. apply (marker_line_nonempty k [] 62%N). }
  rewrite bq_total_unfold by assumption.
  destruct (bq_process_unfold r Hinv Hin) as [r2 [off [Hbq [Hinv2 [Hpos2 Hsrc2]]]]].
  pose proof (view_eq r r2 Hpos2 Hsrc2) as Hv2. rewrite Hv in Hv2.
  assert (s_pad (r_pos r2) = 0) as Hp2.
  { unfold r_position in Hpos2. injection Hpos2 as _ Hpp. rewrite Hpp. exact Hp0. }
  assert (r_line r2 = r_line r) as Hl2.
  { unfold r_position in Hpos2. injection Hpos2 as Hll _. exact Hll. }
  pose proof (zlen_nonneg tl) as Htl.
  assert (zlen (r_view r2) = Z.of_nat k + 2 + zlen tl) as Hlen.
  { rewrite Hv2, zlen_app, zlen_spaces_k, !zlen_cons. lia. }
  rewrite Hbq, Hv. rewrite (bq_tail_marker r2 _ off (Z.of_nat k) 32%N).
  2: apply indent_width_spaces; discriminate.
  2: lia.
  2: rewrite <- Hv2; lia.
  2: rewrite <- zlen_spaces_k; apply at_app_here.
  2: rewrite <- zlen_spaces_k; apply at_app_next.
  2: discriminate.
  unfold bq_after.
  destruct (advance_within_view_strong r2 (Z.of_nat k + 1) Hinv2 ltac:(lia))
    as [r3 [Ha3 [Hinv3 [Hl3 [Hsrc3 [Hv3 [Hp3 Hin3]]]]]]].
  { rewrite (in_range_eq r r2) by assumption. exact Hin. }
  rewrite Ha3. cbn [bind]. change (N.eqb 32 32 || N.eqb 32 9) with true. cbv iota.
  destruct (line_offset_ok r3 Hinv3 Hin3) as [r4 [off2 [Hlo4 [Hinv4 [Hpos4 Hsrc4]]]]].
  rewrite Hlo4. cbn [bind]. change (N.eqb 32 9) with false. cbv iota zeta.
  assert (r_view r3 = 32%N :: tl) as Hv3'.
  { rewrite Hv3, Hv2. replace (Z.to_nat (Z.of_nat k + 1)) with (length (spaces_k k ++ [62%N]) + 0)%nat
      by (rewrite app_length; unfold spaces_k; rewrite repeat_length; cbn [length]; lia).
    replace (spaces_k k ++ 62%N :: 32%N :: tl) with ((spaces_k k ++ [62%N]) ++ 32%N :: tl)
      by (rewrite <- app_assoc; reflexivity).
    rewrite skipn_app_length. reflexivity. }
  pose proof (view_eq r3 r4 Hpos4 Hsrc4) as Hv4. rewrite Hv3' in Hv4.
  assert (s_pad (r_pos r4) = 0) as Hp4.
  { unfold r_position in Hpos4. injection Hpos4 as _ Hpp. rewrite Hpp, Hp3, Hp2. lia. }
  assert (r_line r4 = r_line r3) as Hl4.
  { unfold r_position in Hpos4. injection Hpos4 as Hll _. exact Hll. }
  destruct (advance_one r4 32%N tl Hinv4 Hp4 Hv4 ltac:(discriminate))
    as [r5 [Ha5 [Hinv5 [Hl5 [Hsrc5 [Hv5 Hp5]]]]]].
  unfold r_advance_and_set_padding. rewrite Ha5. cbn [bind].
  destruct (Z.ltb_spec (s_pad (r_pos r5)) 0) as [Hneg|_]; [lia|]. cbn [bind].
  exists r5. csplit; auto; congruence.
Qed.

(* marker not followed by a space or tab: only the marker is consumed *)
Theorem bq_process_marker_only r k c tl : RInv r -> (k <= 3)%nat -> s_pad (r_pos r) = 0 ->
  c <> 32%N -> c <> 9%N -> c <> 10%N ->
  r_view r = spaces_k k ++ [62%N; c] ++ tl ->
  exists r', bq_process_total r = Ok (r', true) /\ RInv r' /\ r_src r' = r_src r /\
             r_line r' = r_line r /\ r_view r' = c :: tl.
Proof.
  intros Hinv Hk Hp0 Hc32 Hc9 Hc10 Hv. change ([62%N; c] ++ tl) with (62%N :: c :: tl) in Hv.
  assert (r_in_range r = true) as Hin.
  { apply view_in_range; [exact Hinv|exact Hp0|]. rewrite Hv. apply (marker_line_nonempty k [] 62%N). }
  rewrite bq_total_unfold by assumption.
  destruct (bq_process_unfold r Hinv Hin) as [r2 [off [Hbq [Hinv2 [Hpos2 Hsrc2]]]]].
  pose proof (view_eq r r2 Hpos2 Hsrc2) as Hv2. rewrite Hv in Hv2.
  assert (r_line r2 = r_line r) as Hl2.
  { unfold r_position in Hpos2. injection Hpos2 as Hll _. exact Hll. }
  pose proof (zlen_nonneg tl) as Htl.
  assert (zlen (r_view r2) = Z.of_nat k + 2 + zlen tl) as Hlen.
  { rewrite Hv2, zlen_app, zlen_spaces_k, !zlen_cons. lia. }
  rewrite Hbq, Hv. rewrite (bq_tail_marker r2 _ off (Z.of_nat k) c).
  2: apply indent_width_spaces; discriminate.
  2: lia.
  2: rewrite <- Hv2; lia.
  2: rewrite <- zlen_spaces_k; apply at_app_here.
  2: rewrite <- zlen_spaces_k; apply at_app_next.
  2: exact Hc10.
  unfold bq_after.
  destruct (advance_within_view_strong r2 (Z.of_nat k + 1) Hinv2 ltac:(lia))
    as [r3 [Ha3 [Hinv3 [Hl3 [Hsrc3 [Hv3 [Hp3 Hin3]]]]]]].
  { rewrite (in_range_eq r r2) by assumption. exact Hin. }
  rewrite Ha3. cbn [bind].
  destruct (N.eqb_spec c 32) as [He|_]; [congruence|]. destruct (N.eqb_spec c 9) as [He|_]; [congruence|].
  cbn [orb].
  exists r3. csplit; auto; try congruence.
  rewrite Hv3, Hv2. replace (Z.to_nat (Z.of_nat k + 1)) with (length (spaces_k k ++ [62%N]) + 0)%nat
    by (rewrite app_length; unfold spaces_k; rewrite repeat_length; cbn [length]; lia).
  replace (spaces_k k ++ 62%N :: c :: tl) with ((spaces_k k ++ [62%N]) ++ c :: tl)
    by (rewrite <- app_assoc; reflexivity).
  rewrite skipn_app_length. reflexivity.
Qed.

(* no marker (first non-space byte is not '>', within three columns): declined, position untouched *)
Theorem bq_process_declines r k c tl : RInv r -> (k <= 3)%nat -> s_pad (r_pos r) = 0 ->
  c <> 62%N -> c <> 32%N -> c <> 9%N ->
  r_view r = spaces_k k ++ [c] ++ tl ->
  exists r', bq_process_total r = Ok (r', false) /\ RInv r' /\ r_position r' = r_position r /\ r_src r' = r_src r.
Proof.
  intros Hinv Hk Hp0 Hc62 Hc32 Hc9 Hv.
  assert (r_in_range r = true) as Hin.
  { apply view_in_range; [exact Hinv|exact Hp0|]. rewrite Hv. apply (marker_line_nonempty k [] c). }
  change ([c] ++ tl) with (c :: tl) in Hv.
  rewrite bq_total_unfold by assumption.
  destruct (bq_process_unfold r Hinv Hin) as [r2 [off [Hbq [Hinv2 [Hpos2 Hsrc2]]]]].
  pose proof (zlen_nonneg tl) as Htl.
  rewrite Hbq, Hv. unfold bq_tail. rewrite indent_width_spaces by assumption. cbv beta iota zeta.
  rewrite zlen_app, zlen_spaces_k, zlen_cons.
  destruct (Z.ltb_spec 3 (Z.of_nat k)) as [Hbad|_]; [lia|].
  destruct (Z.leb_spec (Z.of_nat k + (1 + zlen tl)) (Z.of_nat k)) as [Hbad|_]; [lia|]. cbn [orb].
  rewrite <- (zlen_spaces_k k). rewrite at_app_here. cbn [bind].
  destruct (N.eqb_spec c 62) as [He|_]; [congruence|]. cbn [negb].
  exists r2. csplit; auto.
Qed.

(* bq_process never panics on a reader that is in range *)
Lemma bq_process_ok r : RInv r -> r_in_range r = true ->
  exists r' b, bq_process r = Ok (r', b) /\ RInv r' /\ r_src r' = r_src r.
Proof.
  intros Hinv Hin.
  destruct (bq_process_unfold r Hinv Hin) as [r2 [off [Hbq [Hinv2 [Hpos2 Hsrc2]]]]].
  pose proof (view_eq r r2 Hpos2 Hsrc2) as Hv2.
  pose proof (in_range_eq r r2 Hpos2 Hsrc2) as Hin2. rewrite Hin in Hin2.
  rewrite Hbq, <- Hv2, <- Hsrc2. clear Hbq Hv2 Hsrc2 Hpos2 Hin Hinv. unfold bq_tail.
  destruct (indent_width (r_view r2) off) as [w pos] eqn:Eiw.
  unfold indent_width in Eiw. apply indent_pos_bounds in Eiw.
  destruct (Z.ltb_spec 3 w) as [Hw|Hw]; cbn [orb].
  { exists r2, false. csplit; auto. }
  destruct (Z.leb_spec (zlen (r_view r2)) pos) as [Hpos|Hpos].
  { exists r2, false. csplit; auto. }
  rewrite at_nth by lia. cbn [bind].
  destruct (negb (N.eqb (nth (Z.to_nat pos) (r_view r2) 0%N) 62)).
  { exists r2, false. csplit; auto. }
  cbv zeta.
  destruct (Z.leb_spec (zlen (r_view r2)) (pos + 1)) as [Hpos1|Hpos1].
  { destruct (advance_skips_gen r2 (pos + 1) Hinv2 ltac:(lia)) as [r3 [Ha3 [Hinv3 [Hsrc3 _]]]].
    rewrite Ha3. cbn [bind]. exists r3, true. csplit; auto. }
  rewrite at_nth by lia. cbn [bind].
  destruct (N.eqb (nth (Z.to_nat (pos + 1)) (r_view r2) 0%N) 10).
  { destruct (advance_skips_gen r2 (pos + 1) Hinv2 ltac:(lia)) as [r3 [Ha3 [Hinv3 [Hsrc3 _]]]].
    rewrite Ha3. cbn [bind]. exists r3, true. csplit; auto. }
  unfold bq_after.
  destruct (advance_within_view_strong r2 (pos + 1) Hinv2 ltac:(lia) Hin2)
    as [r3 [Ha3 [Hinv3 [Hl3 [Hsrc3 [Hv3 [Hp3 Hin3]]]]]]].
  rewrite Ha3. cbn [bind].
  destruct (N.eqb (nth (Z.to_nat (pos + 1)) (r_view r2) 0%N) 32 ||
            N.eqb (nth (Z.to_nat (pos + 1)) (r_view r2) 0%N) 9).
  2: { exists r3, true. csplit; auto. }
  destruct (line_offset_ok r3 Hinv3 Hin3) as [r4 [off2 [Hlo4 [Hinv4 [Hpos4 Hsrc4]]]]].
  rewrite Hlo4. cbn [bind]. cbv zeta.
  match goal with |- context [r_advance_and_set_padding r4 1 ?p] => generalize p end.
  intros padding. unfold r_advance_and_set_padding.
  destruct (advance_skips_gen r4 1 Hinv4 ltac:(lia)) as [r5 [Ha5 [Hinv5 [Hsrc5 _]]]].
  rewrite Ha5. cbn [bind]. pose proof (ri_pad r5 Hinv5) as Hpad5.
  destruct (Z.ltb_spec (s_pad (r_pos r5)) padding) as [Hlt|Hge]; cbn [bind].
  - destruct (set_padding_inv r5 padding Hinv5 ltac:(lia)) as [Hinv6 [Hsrc6 _]].
    exists (r_set_padding r5 padding), true. csplit; auto. congruence.
  - exists r5, true. csplit; auto. congruence.
Qed.

(* never panics *)
Theorem bq_process_total_ok r : RInv r -> exists r' b, bq_process_total r = Ok (r', b) /\ RInv r' /\ r_src r' = r_src r.
Proof.
  intros Hinv. destruct (r_in_range r) eqn:Hin.
  - rewrite bq_total_unfold by assumption. apply bq_process_ok; assumption.
  - unfold bq_process_total. destruct (peek_line_is_view r Hinv) as [r1 [Hpk [Hinv1 [_ Hsrc1]]]].
    rewrite Hpk, Hin. cbn [bind]. exists r1, false. csplit; auto.
Qed.

Lemma trim_left_bounds st v : 0 <= trim_left_space_len st v <= zlen v.
Proof.
  induction v as [|c v IH]; cbn [trim_left_space_len]; [change (zlen (@nil N)) with 0; lia|].
  rewrite zlen_cons. destruct (is_space st c); lia.
Qed.

Section Tables.
Variable space_table : list N.
Hypothesis newline_is_space : is_space space_table 10 = true.

(* a line that ends with a newline: the amount is strictly less than the line's length, so the
   reader stays on the line (the pinned tree advanced by the full length and crossed it) *)
Theorem rest_of_line_advance_stays line : last line 0%N = 10%N -> line <> [] ->
  0 <= rest_of_line_advance space_table line < zlen line.
Proof.
  intros Hlast Hne. pose proof (app_removelast_last 0%N Hne) as E. rewrite Hlast in E.
  set (rl := removelast line) in E. clearbody rl. subst line.
  unfold rest_of_line_advance, trim_right_space_len. rewrite rev_app_distr. cbn [rev app].
  cbn [trim_left_space_len]. rewrite newline_is_space.
  pose proof (trim_left_bounds space_table (rev rl)) as Hb.
  unfold zlen in Hb. rewrite rev_length in Hb. fold (zlen rl) in Hb.
  rewrite zlen_app, zlen_cons. change (zlen (@nil N)) with 0. lia.
Qed.

Theorem advance_within_view_keeps_line r n : RInv r -> 0 <= n < zlen (r_view r) -> r_in_range r = true ->
  exists r', r_advance r n = Ok r' /\ RInv r' /\ r_line r' = r_line r /\ r_src r' = r_src r /\
             r_view r' = skipn (Z.to_nat n) (r_view r).
Proof.
  intros Hinv Hn Hin.
  destruct (advance_within_view_strong r n Hinv Hn Hin) as [r' [H1 [H2 [H3 [H4 [H5 _]]]]]].
  exists r'. csplit; auto.
Qed.
End Tables.
