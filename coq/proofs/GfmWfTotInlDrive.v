(* The driver of the GFM inline phase (model/InlineParseX.v) over the state invariant SInv:
   ip_parseX, try_inlineX, scan_lineX, parse_block_loopX, parse_blockX, itreeX and
   inline_childrenX are total.  Port of proofs/ParseInlineTotalDrive.v. *)
Require Import GM.model.Base GM.model.Util GM.model.Reader GM.model.ReaderSpec GM.model.ListItem GM.model.LeafBlocks
               GM.model.CodeSpan GM.model.LinkDest GM.model.Regex GM.model.Delim GM.model.BlockParse GM.model.Html GM.model.InlineParse
               GM.model.InlineParseX.
Require Import GM.proofs.MiscProofs GM.proofs.BReaderProofs GM.proofs.BlockRangeProofs GM.proofs.RegexProofs GM.proofs.ParseInv.
Require Import GM.proofs.ParseInlineTotalHeap GM.proofs.ParseInlineTotalDelim GM.proofs.ParseInlineTotalEmph
               GM.proofs.ParseInlineTotalLabel GM.proofs.ParseInlineTotalCtx GM.proofs.ParseInlineTotalTree
               GM.proofs.ParseInlineTotalReader GM.proofs.ParseInlineTotalReader2 GM.proofs.ParseInlineTotalParsers
               GM.proofs.ParseInlineTotalLink GM.proofs.ParseInlineTotalDrive.
Require Import GM.proofs.GfmWfTotInlRe GM.proofs.GfmWfTotInlDelim GM.proofs.GfmWfTotInlLink GM.proofs.GfmWfTotInlNew.
From Coq Require Import ZArith Lia List Arith Bool.
Import ListNotations.
Open Scope Z_scope.

Section Drive.
Variable xc : xcfg.
Variable space_table punct_table : list N.
Variable norm : bytes -> bytes.
Variable url_table email_table : list N.
Variable re_email_domain re_open_tag re_close_tag : re.
Variable punct_rune space_rune : N -> bool.
Variable re_task re_url re_www : re.
Variable refs : list (bytes * (bytes * option bytes)).
Variable in_item : bool.
Variable src : bytes.
Variable segs : list seg.
Variable first : seg.
Hypothesis Hfirst : hd_error segs = Some first.
Hypothesis Hopen : re_nonempty re_open_tag = true.
Hypothesis Hclose : re_nonempty re_close_tag = true.
Hypothesis Htask : task_caps_ok re_task.
Hypothesis Hurl : 7 <= re_minlen re_url.
Hypothesis Hwww : 7 <= re_minlen re_www.

Notation lo := (s_start first).
Notation CInv := (CInv src lo).
Notation RI := (RI src segs).
Notation KOK := (KOK src lo).
Notation KOKh := (KOKh src lo).
Notation SInv := (SInv src segs first).
Notation PPost := (PPost src segs first).
Notation Bnd := (Bnd src).
Notation TryPost := (TryPost src segs first).
Notation IP := (ip_parseX space_table punct_table norm url_table email_table re_email_domain re_open_tag re_close_tag
                  punct_rune space_rune re_task re_url re_www refs in_item).
Notation TRY := (try_inlineX space_table punct_table norm url_table email_table re_email_domain re_open_tag re_close_tag
                   punct_rune space_rune re_task re_url re_www refs in_item).
Notation SCAN := (scan_lineX xc space_table punct_table norm url_table email_table re_email_domain re_open_tag re_close_tag
                    punct_rune space_rune re_task re_url re_www refs in_item).
Notation LOOP := (parse_block_loopX xc space_table punct_table norm url_table email_table re_email_domain re_open_tag re_close_tag
                    punct_rune space_rune re_task re_url re_www refs in_item).

(* ---------- ip_parseX ---------- *)
Lemma plain_spec s (x : result (ist * option nat)) :
  (exists s' res, x = Ok (s', res) /\ PPost s s' res) ->
  exists s' res, (y <- x ;; Ok (fst y, match snd y with Some n => Some (n, false) | None => None end)) = Ok (s', res) /\
    PPost s s' (option_map fst res).
Proof.
  intros (s' & res & E & P). rewrite E. cbn [bind fst snd]. eexists _, _. split; [reflexivity|].
  destruct res; exact P.
Qed.

Lemma ip_parseX_spec p s dl ll : SInv s dl ll -> b_in_range (t_r s) = true ->
  (p = XCore IPCodeSpan -> hd 255%N (b_view (t_r s)) = 96%N) ->
  exists s' res, IP p s 0%nat = Ok (s', res) /\ PPost s s' (option_map fst res).
Proof.
  intros Iv Hin Hcs. destruct p as [p| | |]; [destruct p|..]; cbn [ip_parseX]; try apply plain_spec.
  - apply (code_span_parse_s_spec src segs first re_open_tag re_close_tag Hopen Hclose space_table s dl ll Iv Hin). apply Hcs. reflexivity.
  - apply (link_parseX_spec src segs first Hfirst space_table punct_table norm refs s dl ll Iv Hin).
  - apply (autolink_parse_spec src segs first punct_rune space_rune url_table email_table re_email_domain s dl ll Iv Hin).
  - apply (raw_html_parse_spec src segs first re_open_tag re_close_tag Hopen Hclose s dl ll Iv Hin).
  - apply (emphasis_parse_spec src segs first punct_rune space_rune s dl ll Iv Hin).
  - apply (strike_parse_spec src segs first punct_rune space_rune s dl ll Iv Hin).
  - apply (task_parse_spec src segs first re_task Htask in_item s dl ll Iv Hin).
  - apply (linkify_parse_spec src segs first punct_rune space_rune punct_table email_table re_email_domain re_url re_www Hurl Hwww s dl ll Iv Hin).
Qed.

(* ---------- try_inlineX: the parsers in turn, the reader reset after each failure ---------- *)
Lemma try_inlineX_spec r0 : RI r0 -> forall ips s dl ll, SInv s dl ll -> b_in_range (t_r s) = true ->
  b_line (t_r s) = b_line r0 -> b_pos (t_r s) = b_pos r0 ->
  (In (XCore IPCodeSpan) ips -> hd 255%N (b_view (t_r s)) = 96%N) ->
  exists s' res, TRY ips s 0%nat (b_line r0) (b_pos r0) = Ok (s', res) /\ TryPost r0 s s' (option_map fst res).
Proof.
  intros HR0. induction ips as [|p rest IH]; intros s dl ll Iv Hin El Ep Hcs; cbn [try_inlineX].
  - exists s, None. split; [reflexivity|]. exists dl, ll. auto.
  - destruct (ip_parseX_spec p s dl ll Iv Hin) as (s1 & res1 & E1 & P1).
    { intros X. apply Hcs. left. exact X. }
    rewrite E1. cbn [bind]. destruct res1 as [nd|].
    + exists s1, (Some nd). split; [reflexivity|exact P1].
    + cbn [option_map] in P1. destruct P1 as (dl1 & ll1 & C1 & R1 & B1). pose proof Iv as [C R B].
      destruct (ri_set_position src segs (t_r s1) r0 R1 HR0 (segs_nonempty src segs _ R Hin)) as (r2 & E2 & HR2 & L2 & P2).
      rewrite E2. cbn [bind].
      destruct (ri_same_pos src segs r2 (t_r s) HR2 R) as (In2 & V2 & Rest2); [congruence|congruence|].
      assert (Iv2 : SInv (ist_r s1 r2) dl1 ll1).
      { constructor; cbn [ist_r t_c t_r]; [exact C1|exact HR2|].
        apply (Bnd_same_pos src segs (t_c s1) dl1 ll1 (t_r s) r2 R HR2); [congruence|congruence|exact B1]. }
      destruct (IH (ist_r s1 r2) dl1 ll1 Iv2) as (s' & res & E' & P'); cbn [ist_r t_r].
      * rewrite In2. exact Hin.
      * exact L2.
      * exact P2.
      * intros X. rewrite V2. apply Hcs. right. exact X.
      * exists s', res. split; [exact E'|]. destruct res as [nd|]; [|exact P'].
        cbn [option_map] in P' |- *.
        destruct P' as (dl' & ll' & h'' & Ea & Iv' & Hlt). exists dl', ll', h''. split; [exact Ea|]. split; [exact Iv'|].
        cbn [ist_r t_r] in Hlt. rewrite Rest2 in Hlt. exact Hlt.
Qed.

(* ---------- scan_lineX ---------- *)
Definition ScanPostX (line : bytes) (l : Z) (s : ist) (out : (xst * bool) + (xst * Z * seg)) : Prop :=
  match out with
  | inl (x', _) => exists dl' ll', SInv (xs_s x') dl' ll' /\ zlen (b_rest (t_r (xs_s x'))) < zlen (b_rest (t_r s))
  | inr (x', n', sp') => exists dl' ll' i', SInv (xs_s x') dl' ll' /\ ScanI line l i' n' sp' (xs_s x') /\
      zlen (b_rest (t_r (xs_s x'))) <= zlen (b_rest (t_r s))
  end.

(* advancing over the pending text, inside the line *)
Lemma scan_advanceX line l i n start_pos s dl ll c tl : SInv s dl ll -> ScanI line l i n start_pos s ->
  zskip i line = c :: tl ->
  exists rd, b_advance (t_r s) n = Ok rd /\ SInv (ist_r s rd) dl ll /\ b_in_range rd = true /\ b_line rd = l /\
    s_start (b_pos rd) = s_start (b_pos (t_r s)) + n /\ s_stop (b_pos rd) = s_stop (b_pos (t_r s)) /\
    b_view rd = c :: tl /\ zlen (b_rest rd) <= zlen (b_rest (t_r s)).
Proof.
  intros [C R B] [I1 I2 I3 I4 I5 I6 I7 I8] Ez.
  assert (Hi : i < zlen line) by (eapply drv_zskip_cons_lt; [lia|exact Ez]).
  assert (Hv : zlen (b_view (t_r s)) = zlen line - (i - n)) by (rewrite I5, br_zlen_zskip; lia).
  destruct (ri_view src segs _ R I3) as (_ & _ & _ & _ & tl0 & Er).
  destruct (ri_advance_rle src segs (t_r s) n R) as (r1 & E1 & _ & Hle1 & _).
  { rewrite Er, zlen_app. pose proof (zlen_nonneg tl0). lia. }
  destruct (ri_advance_in src segs (t_r s) n R I3) as (rd & E & HRd & Hin & Hl & Hs & He & Hvw & _); [lia|].
  rewrite E1 in E. inversion E; subst r1. clear E.
  exists rd. split; [exact E1|]. split.
  { constructor; cbn [ist_r t_c t_r]; [exact C|exact HRd|eapply Bnd_rle; eassumption]. }
  split; [exact Hin|]. split; [congruence|]. split; [exact Hs|]. split; [exact He|]. split; [|exact (proj1 Hle1)].
  rewrite Hvw, I5, drv_skipn_zskip by lia. replace (i - n + n) with i by lia. exact Ez.
Qed.

Lemma inline_parsersX_codespan c : In (XCore IPCodeSpan) (inline_parsersX xc c) -> c = 96%N.
Proof.
  unfold inline_parsersX. destruct (N.eqb_spec c 96) as [E|E]; [intros _; exact E|].
  assert (Hlk : ~ In (XCore IPCodeSpan) (if x_linkify xc then [XLinkify] else [])).
  { destruct (x_linkify xc); [intros [X|[]]; discriminate|intros []]. }
  destruct (N.eqb c 91).
  { destruct (x_task xc); cbn [app]; [intros [X|[X|[]]]; discriminate|intros [X|[]]; discriminate]. }
  destruct (_ || _)%bool; [intros [X|[]]; discriminate|].
  destruct (N.eqb c 60); [intros [X|[X|[]]]; discriminate|].
  destruct (_ || _)%bool; [cbn [app]; intros [X|X]; [discriminate|contradiction]|].
  destruct (N.eqb c 126).
  { destruct (x_strike xc); cbn [app]; [intros [X|X]; [discriminate|contradiction]|exact (fun X => False_ind _ (Hlk X))]. }
  destruct (_ || _)%bool; [intros X; contradiction|intros []].
Qed.

Lemma scan_lineX_spec : forall fuel line i line_length n escaped start_pos x l dl ll,
  SInv (xs_s x) dl ll -> ScanI line l i n start_pos (xs_s x) -> (Z.to_nat (zlen line - i) + 1 <= fuel)%nat ->
  exists out, SCAN fuel line i line_length n escaped start_pos x 0%nat = Ok out /\ ScanPostX line l (xs_s x) out.
Proof.
  induction fuel as [|f IH]; intros line i line_length n escaped start_pos x l dl ll Iv Hinv Hf; [lia|].
  cbn [scan_lineX]. set (s := xs_s x) in *.
  assert (Hstop : exists out, Ok (inr (x, n, start_pos)) = Ok out /\ ScanPostX line l s out).
  { eexists. split; [reflexivity|]. exists dl, ll, i. split; [exact Iv|]. split; [exact Hinv|fold s; lia]. }
  destruct (line_length <=? i); [exact Hstop|].
  destruct (zskip i line) as [|c tl] eqn:Ez; [exact Hstop|].
  destruct (N.eqb c 10); [exact Hstop|].
  assert (Hi : i < zlen line) by (eapply drv_zskip_cons_lt; [destruct Hinv; lia|exact Ez]).
  match goal with |- context [match ?IPS with [] => _ | _ :: _ => _ end] => set (ips := IPS) end.
  assert (Hips : In (XCore IPCodeSpan) ips -> c = 96%N).
  { unfold ips. match goal with |- In _ (if ?b then _ else _) -> _ => destruct b end; [|intros []].
    intros X. apply inline_parsersX_codespan in X.
    match type of X with (if ?b then _ else _) = _ => destruct b end; [discriminate|exact X]. }
  clearbody ips.
  (* the consultation of the inline parsers *)
  match goal with |- exists out, (r <- ?X ;; _) = Ok out /\ _ =>
    assert (Hr : exists r, X = Ok r /\
              match r with
              | inl x' => exists dl' ll', SInv (xs_s x') dl' ll' /\ zlen (b_rest (t_r (xs_s x'))) < zlen (b_rest (t_r s))
              | inr (x', n', sp') => exists dl' ll', SInv (xs_s x') dl' ll' /\ ScanI line l i n' sp' (xs_s x') /\
                  zlen (b_rest (t_r (xs_s x'))) <= zlen (b_rest (t_r s))
              end) end.
  { destruct ips as [|ip0 ips0].
    { eexists. split; [reflexivity|]. exists dl, ll. split; [exact Iv|]. split; [exact Hinv|fold s; lia]. }
    destruct (scan_advanceX line l i n start_pos s dl ll c tl Iv Hinv Ez) as (rd & Ea & Iv1 & Hin1 & Hl1 & Hs1 & He1 & Hv1 & Hrest1).
    rewrite Ea. cbn [bind]. cbn [ist_r t_c t_r].
    pose proof Hinv as [I1 I2 I3 I4 I5 I6 I7 I8].
    pose proof Iv1 as [_ HRd _]. cbn [ist_r t_r] in HRd.
    destruct (ri_view src segs rd HRd Hin1) as (_ & _ & Hrange1 & Hstop1 & _).
    (* the pending text *)
    match goal with |- exists r, (t <- ?X ;; _) = Ok r /\ _ =>
      assert (Ht : exists s1 sp1, X = Ok (s1, sp1) /\ SInv s1 dl ll /\ t_r s1 = rd /\
                s_start sp1 = s_start (b_pos rd) /\ s_stop sp1 = s_stop (b_pos rd) /\ s_pad sp1 = 0) end.
    { destruct (Z.eqb_spec i 0) as [Ei|Ei]; cbn [negb].
      - eexists _, _. split; [reflexivity|]. split; [exact Iv1|]. split; [reflexivity|]. split; [lia|]. split; [lia|exact I8].
      - unfold seg_between. replace (s_stop start_pos =? s_stop (b_pos rd)) with true by lia. cbn [bind].
        destruct (sinv_flush src segs first (ist_r s rd) dl ll (mksegp (s_start start_pos) (s_start (b_pos rd)) (s_pad start_pos - s_pad (b_pos rd))) Iv1)
          as (c' & Em & Iv2).
        { unfold seg_in. cbn [mksegp s_start s_stop]. destruct (ri_view src segs _ (si_r _ _ _ _ _ _ Iv) I3) as (_ & _ & Hr0 & _). lia. }
        cbn [ist_r t_c] in Em. rewrite Em. cbn [bind]. eexists _, _. split; [reflexivity|]. split; [exact Iv2|].
        split; [reflexivity|]. split; [reflexivity|]. split; [reflexivity|]. destruct HRd as (_ & _ & _ & Hp & _). exact Hp. }
    destruct Ht as (s1 & sp1 & Et & Iv2 & Er1 & Hsp1 & Hsp2 & Hsp3). rewrite Et. cbn [bind].
    destruct (try_inlineX_spec rd HRd (ip0 :: ips0) s1 dl ll Iv2) as (s2 & node & Etry & Ptry).
    { rewrite Er1. exact Hin1. }
    { rewrite Er1. reflexivity. }
    { rewrite Er1. reflexivity. }
    { intros X. rewrite Er1, Hv1. cbn [hd]. apply Hips. exact X. }
    rewrite Etry. cbn [bind]. destruct node as [[nd http]|]; cbn [option_map fst ParseInlineTotalDrive.TryPost] in Ptry.
    - destruct Ptry as (dl' & ll' & h'' & Eap & Iv3 & Hlt). rewrite Eap. cbn [bind].
      eexists. split; [reflexivity|]. exists dl', ll'.
      assert (Exs : forall y, xs_s (if http then xst_http y (nd :: xs_http y) else y) = xs_s y) by (intros y; destruct http; reflexivity).
      rewrite Exs. cbn [xst_s xs_s]. split; [exact Iv3|]. cbn [ist_c t_r]. rewrite Er1 in Hlt. lia.
    - destruct Ptry as (dl' & ll' & Iv3 & Pl & Pp).
      pose proof (ci_d _ _ _ _ _ (si_c _ _ _ _ _ _ Iv3)) as [W3 _ _ _].
      destruct (nth_error_ex_lt _ _ (w_len _ W3)) as [pn Hpn]. rewrite (iget_ok _ _ _ Hpn). cbn [bind].
      eexists. split; [reflexivity|]. exists dl', ll'.
      assert (Exs : forall (b : bool) y v, xs_s (if b then xst_flushed y v else y) = xs_s y)
        by (intros b y v; destruct b; reflexivity).
      rewrite Exs. cbn [xst_s xs_s]. split; [exact Iv3|].
      destruct (ri_same_pos src segs (t_r s2) rd (si_r _ _ _ _ _ _ Iv3) HRd Pl Pp) as (In3 & V3 & Rest3).
      split; [|rewrite Rest3; exact Hrest1].
      constructor; rewrite ?Pl, ?Pp, ?In3, ?V3; try lia; try assumption.
      replace (i - 0) with i by lia. rewrite Hv1. symmetry. exact Ez. }
  destruct Hr as (r & Er & Pr). rewrite Er. cbn [bind].
  destruct r as [x1|[[x1 n1] sp1]].
  - eexists. split; [reflexivity|]. exact Pr.
  - destruct Pr as (dl1 & ll1 & Iv1 & Hinv1 & Hrest1).
    assert (Hnext : forall esc, exists out, SCAN f line (i + 1) line_length (n1 + 1) esc sp1 x1 0%nat = Ok out /\ ScanPostX line l s out).
    { intros esc.
      assert (Hi1 : ScanI line l (i + 1) (n1 + 1) sp1 (xs_s x1)).
      { destruct Hinv1 as [I1 I2 I3 I4 I5 I6 I7 I8]. constructor; try lia; try assumption.
        replace (i + 1 - (n1 + 1)) with (i - n1) by lia. exact I5. }
      destruct (IH line (i + 1) line_length (n1 + 1) esc sp1 x1 l dl1 ll1 Iv1 Hi1) as (out & Eo & Po); [lia|].
      exists out. split; [exact Eo|]. destruct out as [[x' e']|[[x' n'] sp']]; cbn [ScanPostX] in Po |- *.
      - destruct Po as (dl' & ll' & Iv' & Hlt). exists dl', ll'. split; [exact Iv'|lia].
      - destruct Po as (dl' & ll' & i' & Iv' & Hinv' & Hle). exists dl', ll', i'. split; [exact Iv'|]. split; [exact Hinv'|lia]. }
    destruct escaped; [apply Hnext|]. destruct (N.eqb c 92); apply Hnext.
Qed.

(* ---------- parseBlock: the loop over the lines ---------- *)
Lemma trim_right_okX t : seg_in src t ->
  exists t', seg_trim_right_space space_table src t = Ok t' /\ seg_in src t'.
Proof.
  intros [H1 H2]. unfold seg_trim_right_space. rewrite BReaderProofs.slice_ok by lia. cbn [bind].
  pose proof (br_trs_range space_table (sub src (s_start t) (s_stop t))) as Hb. rewrite sub_length in Hb by lia.
  destruct (_ =? _); eexists; (split; [reflexivity|]); unfold seg_in; cbn [mkseg mksegp s_start s_stop]; lia.
Qed.

(* two readers on the same line of the block share the end of their positions *)
Lemma same_line_stopX r r' : RI r -> RI r' -> b_in_range r = true -> b_line r' = b_line r ->
  s_stop (b_pos r') = s_stop (b_pos r) /\ s_start (b_pos r') <= s_stop (b_pos r).
Proof.
  intros (H & Es & Eg & _) (H' & Es' & Eg' & _) Hin El.
  destruct (binv_in r H Hin) as (sg & pre & post & Hn & _ & _ & _ & _ & _ & Hstop & _).
  destruct (bi_pos r' H' sg) as (Ha & Hb & _); [rewrite Eg', <- Eg, El; exact Hn|]. lia.
Qed.

(* the text of the rest of the line: trimmed; when nothing remains the preceding text node is
   trimmed as well, and takes the line break when it is the text flushed at a space *)
Lemma loop_tail_textX s dl ll diff (hard visible soft : bool) (fl : option nat) : SInv s dl ll -> seg_in src diff ->
  exists t,
    (if hard && visible then Ok (inr (t_c s, diff))
     else
       trimmed <- seg_trim_right_space space_table (b_src (t_r s)) diff ;;
       if seg_is_empty trimmed then
         pn <- iget (i_h (t_c s)) 0%nat ;;
         match last_id (ich pn) with
         | Some lst =>
           ln <- iget (i_h (t_c s)) lst ;;
           match ik ln with
           | IText ts sf hd raw =>
             if (s_stop ts =? s_start diff) && negb raw && negb sf && negb hd then
               ts' <- seg_trim_right_space space_table (b_src (t_r s)) ts ;;
               if negb (seg_is_empty ts') && opt_nat_eqb (Some lst) fl then
                 h <- iupd (i_h (t_c s)) lst (fun m => iset_kind m (IText ts' soft hard raw)) ;;
                 Ok (inl (cx_h (t_c s) h))
               else
                 h <- iupd (i_h (t_c s)) lst (fun m => iset_kind m (IText ts' sf hd raw)) ;;
                 Ok (inr (cx_h (t_c s) h, trimmed))
             else Ok (inr (t_c s, trimmed))
           | _ => Ok (inr (t_c s, trimmed))
           end
         | None => Ok (inr (t_c s, trimmed))
         end
       else Ok (inr (t_c s, trimmed))) = Ok t /\
    match t with
    | inl c => SInv (ist_c s c) dl ll
    | inr (c, tseg) => SInv (ist_c s c) dl ll /\ seg_in src tseg
    end.
Proof.
  intros Iv Hdiff. pose proof Iv as [C R B].
  assert (Hsame : forall tg, seg_in src tg -> exists t : ictx + ictx * seg, Ok (inr (t_c s, tg)) = Ok t /\
            match t with inl c => SInv (ist_c s c) dl ll | inr (c, tseg) => SInv (ist_c s c) dl ll /\ seg_in src tseg end).
  { intros tg Htg. eexists. split; [reflexivity|]. split; [|exact Htg]. constructor; assumption. }
  destruct (hard && visible)%bool; [apply Hsame; exact Hdiff|].
  assert (Esrc : b_src (t_r s) = src) by (destruct R as (_ & Es & _); exact Es). rewrite Esrc.
  destruct (trim_right_okX diff Hdiff) as (trimmed & Etr & Htrim). rewrite Etr. cbn [bind].
  destruct (seg_is_empty trimmed); [|apply Hsame; exact Htrim].
  pose proof (ci_d _ _ _ _ _ C) as [W K A D].
  destruct (nth_error_ex_lt _ _ (w_len _ W)) as [pn Hpn]. rewrite (iget_ok _ _ _ Hpn). cbn [bind].
  destruct (last_id (ich pn)) as [lst|] eqn:El; [|apply Hsame; exact Htrim].
  assert (Hl : (lst < length (i_h (t_c s)))%nat).
  { apply last_id_in in El. apply (hwf_child_lt (i_h (t_c s)) 0%nat lst W). unfold chl. rewrite Hpn. exact El. }
  destruct (nth_error_ex_lt _ _ Hl) as [ln Hln]. rewrite (iget_ok _ _ _ Hln). cbn [bind].
  destruct (ik ln) as [|ts sf hd raw| | | | | | | |] eqn:Ek; try (apply Hsame; exact Htrim).
  destruct ((s_stop ts =? s_start diff) && negb raw && negb sf && negb hd)%bool eqn:Ec; [|apply Hsame; exact Htrim].
  assert (Hraw : raw = false).
  { apply andb_prop in Ec. destruct Ec as [Ec _]. apply andb_prop in Ec. destruct Ec as [Ec _]. apply andb_prop in Ec.
    destruct Ec as [_ Ec]. destruct raw; [discriminate|reflexivity]. }
  assert (Hkl : kd (i_h (t_c s)) lst = Some (IText ts sf hd raw)) by (unfold kd; rewrite Hln, Ek; reflexivity).
  pose proof (K lst _ Hkl) as Kt. cbn in Kt. specialize (Kt Hraw).
  destruct (trim_right_okX ts Kt) as (ts' & Ets & Hts'). rewrite Ets. cbn [bind].
  (* either way the kind of the last child becomes a text over ts' *)
  assert (Hupd : forall sf' hd', exists h', iupd (i_h (t_c s)) lst (fun m => iset_kind m (IText ts' sf' hd' raw)) = Ok h' /\
            SInv (ist_c s (cx_h (t_c s) h')) dl ll).
  { intros sf' hd'.
    destruct (iupd_kind_spec (i_h (t_c s)) lst (IText ts' sf' hd' raw) Hl) as (h' & E & T & Kl & Kn).
    exists h'. split; [exact E|].
    assert (DS : dl_same (i_h (t_c s)) h').
    { eapply dl_same_upd; [exact Hkl | | | | | exact Kl | exact Kn]; reflexivity. }
    constructor; cbn [ist_c t_c t_r].
    - eapply CInv_tree; [exact C| | | | | |]; cbn [i_h cx_h].
      + eapply hwf_same_tree; eassumption.
      + eapply kokh_upd; [exact K| |exact Kl|exact Kn]. cbn. intros _. exact Hts'.
      + destruct A as [rk Rk]. exists rk. eapply ranked_same_tree; eassumption.
      + apply ctx_same_cx_h.
      + exact DS.
      + intros y _. destruct T as (_ & P & _). rewrite P. tauto.
    - exact R.
    - eapply Bnd_dl_same; [|exact B]. exact DS. }
  destruct (negb (seg_is_empty ts') && opt_nat_eqb (Some lst) fl)%bool.
  - destruct (Hupd soft hard) as (h' & E & Iv'). rewrite E. cbn [bind]. eexists. split; [reflexivity|]. exact Iv'.
  - destruct (Hupd sf hd) as (h' & E & Iv'). rewrite E. cbn [bind]. eexists. split; [reflexivity|]. split; [exact Iv'|exact Htrim].
Qed.

Lemma parse_block_loopX_spec : forall fuel x escaped dl ll, SInv (xs_s x) dl ll ->
  (Z.to_nat (zlen (b_rest (t_r (xs_s x)))) + 1 <= fuel)%nat ->
  exists x' dl' ll', LOOP fuel x 0%nat escaped = Ok x' /\ SInv (xs_s x') dl' ll'.
Proof.
  induction fuel as [|f IH]; intros x escaped dl ll Iv Hf; [lia|].
  cbn [parse_block_loopX]. unfold xst_s. set (s := xs_s x) in *. pose proof Iv as [C R B].
  rewrite (ri_peek_line src segs _ R). cbn [bind].
  destruct (b_in_range (t_r s)) eqn:Hin.
  2:{ eexists _, dl, ll. split; [reflexivity|]. cbn [xst_s xs_s]. apply SInv_ist_r_same. exact Iv. }
  set (line := b_view (t_r s)).
  match goal with |- context [match ?X with pair _ _ => _ end] =>
    match type of X with (Z * bool * bool * bool)%type => destruct X as [[[line_length hard] visible] soft] end end.
  cbn [xst_s xs_s xs_flushed xs_http ist_r t_c t_r].
  destruct (ri_view src segs _ R Hin) as (_ & Elen & Hrange & Hstop & tl0 & Erest).
  set (x0 := {| xs_s := ist_r s (t_r s); xs_flushed := xs_flushed x; xs_http := xs_http x |}).
  assert (Hinv0 : ScanI line (b_line (t_r s)) 0 0 (b_pos (t_r s)) (xs_s x0)).
  { pose proof (zlen_nonneg line). constructor; cbn [x0 xs_s ist_r t_r]; try lia; try reflexivity; try assumption.
    destruct R as (_ & _ & _ & Hp & _). exact Hp. }
  destruct (scan_lineX_spec (S (length line)) line 0 line_length 0 escaped (b_pos (t_r s)) x0 (b_line (t_r s)) dl ll)
    as (out & Esc & Pout); [cbn [x0 xs_s]; apply SInv_ist_r_same; exact Iv|exact Hinv0|unfold zlen; lia|].
  rewrite Esc. cbn [bind].
  pose proof (zlen_nonneg (b_rest (t_r s))) as Hnn.
  destruct out as [[x1 esc]|[[x1 n] sp]]; cbn [ScanPostX x0 xs_s ist_r t_r] in Pout.
  - destruct Pout as (dl1 & ll1 & Iv1 & Hlt). pose proof (zlen_nonneg (b_rest (t_r (xs_s x1)))).
    apply (IH x1 esc dl1 ll1 Iv1). lia.
  - destruct Pout as (dl1 & ll1 & i' & Iv1 & [I1 I2 I3 I4 I5 I6 I7 I8] & Hle). set (s1 := xs_s x1) in *. pose proof Iv1 as [C1 R1 B1].
    destruct (ri_view src segs _ R1 I3) as (_ & Elen1 & Hrange1 & Hstop1 & tl1 & Erest1).
    assert (Hv1 : zlen (b_view (t_r s1)) = zlen line - (i' - n)) by (rewrite I5, br_zlen_zskip; lia).
    match goal with |- exists x' dl' ll', (r <- ?X ;; _) = Ok x' /\ _ =>
      assert (Hr2 : exists r2, X = Ok r2 /\ RI r2 /\ rle (t_r s1) r2 /\
                (n <> 0 -> zlen (b_rest r2) < zlen (b_rest (t_r s1))) /\ (n = 0 -> r2 = t_r s1)) end.
    { destruct (Z.eqb_spec n 0) as [En|En]; cbn [negb].
      - exists (t_r s1). split; [reflexivity|]. split; [exact R1|]. split; [apply rle_refl|]. split; [lia|reflexivity].
      - destruct (ri_advance_rle src segs (t_r s1) n R1) as (r2 & E2 & HR2 & Hle2 & Hrest2 & _).
        { rewrite Erest1, zlen_app. pose proof (zlen_nonneg tl1). lia. }
        exists r2. split; [exact E2|]. split; [exact HR2|]. split; [exact Hle2|]. split; [lia|lia]. }
    destruct Hr2 as (r2 & E2 & HR2 & Hle2 & Hlt2 & Heq2). rewrite E2. cbn [bind]. cbn [xst_s xs_s xs_flushed xs_http ist_r t_c t_r].
    pose proof (zlen_nonneg (b_rest r2)) as Hnn2.
    assert (Iv2 : SInv (ist_r s1 r2) dl1 ll1).
    { constructor; cbn [ist_r t_c t_r]; [exact C1|exact HR2|eapply Bnd_rle; eassumption]. }
    destruct (Z.eqb_spec (b_line (t_r s)) (b_line r2)) as [Eline|Eline]; cbn [negb].
    2:{ apply (IH _ false dl1 ll1); cbn [xs_s]; [exact Iv2|]. cbn [ist_r t_r].
        assert (n <> 0) by (intros X; apply Eline; rewrite (Heq2 X); symmetry; exact I4).
        specialize (Hlt2 H). lia. }
    (* same line: the rest of the line becomes a text node *)
    destruct (same_line_stopX (t_r s1) r2 R1 HR2 I3) as [Hst2 Hsa2]; [congruence|].
    unfold seg_between. replace (s_stop sp =? s_stop (b_pos r2)) with true by lia. cbn [bind].
    set (diff := mksegp (s_start sp) (s_start (b_pos r2)) (s_pad sp - s_pad (b_pos r2))).
    assert (Hdiff : seg_in src diff).
    { unfold seg_in, diff. cbn [mksegp s_start s_stop]. destruct Hle2 as [_ Hle2]. lia. }
    destruct (loop_tail_textX (ist_r s1 r2) dl1 ll1 diff hard visible soft (xs_flushed x1) Iv2 Hdiff) as (t & Et & Pt).
    cbn [ist_r t_c t_r] in Et. rewrite Et. cbn [bind].
    destruct (ri_advance_line_rle src segs r2 HR2) as (r3 & E3 & HR3 & Hle3 & _ & Hrest3).
    assert (Hdec : (Z.to_nat (zlen (b_rest r3)) + 1 <= f)%nat).
    { pose proof (zlen_nonneg (b_rest r3)). destruct Hle3 as [Hle3 _].
      destruct (Z.eq_dec n 0) as [En|En].
      * rewrite (Heq2 En) in *. rewrite (Hrest3 I3) in *. lia.
      * specialize (Hlt2 En). lia. }
    destruct t as [c3|[c3 tseg]].
    + rewrite E3. cbn [bind]. apply (IH _ false dl1 ll1); cbn [xst_s xs_s t_r]; [|exact Hdec].
      pose proof Pt as [C3 _ B3]. cbn [ist_c ist_r t_c t_r] in C3, B3.
      constructor; cbn [t_c t_r]; [exact C3|exact HR3|eapply Bnd_rle; [exact B3|exact Hle3]].
    + destruct Pt as [Iv3 Htseg]. rewrite new_inode_eq. cbn [i_h cx_h].
      pose proof Iv3 as [C3 _ B3]. cbn [ist_c ist_r t_c t_r] in C3, B3.
      destruct (CInv_fresh_root src first c3 dl1 ll1 (IText tseg soft hard false) C3) as (h4 & E4 & C4 & DS4);
        [cbn; intros _; exact Htseg|reflexivity|reflexivity|].
      rewrite E4. cbn [bind]. rewrite E3. cbn [bind].
      apply (IH _ false dl1 ll1); cbn [xst_s xs_s t_r]; [|exact Hdec].
      constructor; cbn [t_c t_r].
      * exact C4.
      * exact HR3.
      * eapply Bnd_rle; [|exact Hle3]. eapply Bnd_dl_same; [|exact B3]. cbn [i_h cx_h]. exact DS4.
Qed.

(* ---------- parseBlock and the inline children of a block with at least one line ---------- *)
Notation PB := (parse_blockX xc space_table punct_table norm url_table email_table re_email_domain re_open_tag re_close_tag
                  punct_rune space_rune re_task re_url re_www refs in_item).
Notation ICX := (inline_childrenX xc space_table punct_table norm url_table email_table re_email_domain re_open_tag re_close_tag
                  punct_rune space_rune re_task re_url re_www refs in_item).

Lemma parse_blockX_spec : segs_ok src segs -> Forall (fun s => s_pad s = 0) segs ->
  exists c http, PB src segs = Ok (c, http) /\ HWF (i_h c) /\ KOKh (i_h c) /\ Acyc (i_h c).
Proof.
  intros Hok Hpad. unfold parse_blockX.
  destruct (new_block_reader_spec src segs Hok) as (r & E & HB & Es & Eg). rewrite E. cbn [bind].
  assert (HR : RI r).
  { split; [exact HB|]. split; [exact Es|]. split; [exact Eg|]. split; [|exact Hpad].
    destruct segs as [|a l]; [discriminate Hfirst|]. rewrite (new_block_reader_pos src a l r E).
    inversion Hpad; assumption. }
  set (x0 := {| xs_s := {| t_c := init_ictx; t_r := r |}; xs_flushed := None; xs_http := [] |}).
  assert (Iv0 : SInv (xs_s x0) [] []).
  { constructor; cbn [x0 xs_s t_c t_r]; [apply cinv_init|exact HR|]. split.
    - change (sumlen (i_h init_ictx) []) with 0%nat. pose proof (ri_rest_le src segs r HR). lia.
    - intros y sg im p n f l []. }
  destruct (parse_block_loopX_spec (2 * length src + 2 * length segs + 8) x0 false [] [] Iv0)
    as (x1 & dl1 & ll1 & E1 & Iv1).
  { cbn [x0 xs_s t_r]. pose proof (ri_rest_le src segs r HR) as Hle. unfold zlen in *. lia. }
  rewrite E1. cbn [bind]. destruct Iv1 as [C1 R1 [B1 _]].
  pose proof (ci_d _ _ _ _ _ C1) as D1.
  destruct (process_delimitersX_spec src lo (ifuel (xs_s x1)) (t_c (xs_s x1)) dl1 BNil D1 (ci_ap _ _ _ _ _ C1)) as (c2 & dl2 & E2 & D2 & _ & S2 & _).
  { unfold ifuel. destruct R1 as (_ & Es1 & _). rewrite Es1. pose proof (zlen_nonneg (b_rest (t_r (xs_s x1)))). unfold zlen in *. lia. }
  rewrite E2. cbn [bind].
  pose proof (LL_dstep _ _ _ (ci_ll _ _ _ _ _ C1) S2) as L2. destruct D2 as [W2 K2 A2 _].
  destruct (link_close_block_spec src lo c2 ll1 W2 K2 A2 L2) as (c3 & E3 & W3 & K3 & A3).
  rewrite E3. cbn [bind]. exists c3, (xs_http x1). auto.
Qed.

End Drive.

(* ---------- itreeX ---------- *)
Section TravX.
Variable rk : nat -> nat.
Variable h : iheap.
Hypothesis W : HWF h.
Hypothesis R : Ranked rk h.
Variable http : list nat.

Lemma itreeX_total src lo : KOKh src lo h -> forall fuel S i,
  (length S < fuel)%nat -> (forall y, In y S -> (y < length h)%nat) -> closed h S -> In i S ->
  exists t, itreeX fuel src h http i = Ok t.
Proof.
  intros K. induction fuel as [|f IH]; intros S i Hf Hlt C Hi; [lia|].
  cbn [itreeX]. destruct (nth_error_ex_lt h i (Hlt i Hi)) as [n Hn]. rewrite (iget_ok _ _ _ Hn). cbn [bind].
  assert (Ech : ich n = chl h i) by (unfold chl; rewrite Hn; reflexivity).
  destruct (map_res_total (itreeX f src h http) (ich n)) as [kids Ek].
  { intros c Hc. rewrite Ech in Hc. apply (IH (above rk i S) c).
    - pose proof (above_lt rk i S Hi). lia.
    - intros y Hy. apply in_above in Hy. apply Hlt. tauto.
    - apply (closed_above rk h W R). exact C.
    - apply (children_above rk h W R); assumption. }
  rewrite Ek. cbn [bind].
  assert (Hk : kd h i = Some (ik n)) by (unfold kd; rewrite Hn; reflexivity).
  pose proof (K i _ Hk) as Kk.
  destruct (ik n); cbn [bind]; try (eexists; reflexivity).
  cbn in Kk. destruct Kk as (Hs & Hp & Hfn).
  destruct (seg_value_total src s) as [v Ev]; [exact Hs|lia|]. rewrite Ev. cbn [bind]. eexists. reflexivity.
Qed.
End TravX.

Lemma itreeX_root_total src lo h http : HWF h -> Acyc h -> KOKh src lo h ->
  exists t, itreeX (S (length h)) src h http 0 = Ok t.
Proof.
  intros W [rk R] K. apply (itreeX_total rk h W R http src lo K (S (length h)) (seq 0 (length h)) 0%nat).
  - rewrite seq_length. lia.
  - intros y Hy. apply in_seq in Hy. lia.
  - intros y Hy c Hc. apply in_seq. pose proof (hwf_child_lt h y c W Hc). lia.
  - apply in_seq. pose proof (w_len h W). lia.
Qed.

(* ---------- the inline children of any block whose lines are well formed ---------- *)
Section Total.
Variable xc : xcfg.
Variable space_table punct_table : list N.
Variable norm : bytes -> bytes.
Variable url_table email_table : list N.
Variable re_email_domain re_open_tag re_close_tag : re.
Variable punct_rune space_rune : N -> bool.
Variable re_task re_url re_www : re.
Hypothesis Hopen : re_nonempty re_open_tag = true.
Hypothesis Hclose : re_nonempty re_close_tag = true.
Hypothesis Htask : task_caps_ok re_task.
Hypothesis Hurl : 7 <= re_minlen re_url.
Hypothesis Hwww : 7 <= re_minlen re_www.
Notation ICX := (inline_childrenX xc space_table punct_table norm url_table email_table re_email_domain re_open_tag re_close_tag
                  punct_rune space_rune re_task re_url re_www).

Lemma inline_childrenX_nil refs in_item src : exists ts, ICX refs in_item src [] = Ok ts.
Proof.
  unfold inline_childrenX, parse_blockX.
  replace (2 * length src + 2 * length (@nil seg) + 8)%nat with (S (2 * length src + 7))%nat by (cbn [length]; lia).
  eexists. reflexivity.
Qed.

Lemma inline_childrenX_total_gen refs in_item src lines :
  lines_ok src lines -> exists ts, ICX refs in_item src lines = Ok ts.
Proof.
  intros Hlines. destruct lines as [|first l]; [apply inline_childrenX_nil|].
  destruct (lines_ok_segs src (first :: l) Hlines) as [Hok Hpad].
  unfold inline_childrenX.
  destruct (parse_blockX_spec xc space_table punct_table norm url_table email_table re_email_domain re_open_tag re_close_tag
              punct_rune space_rune re_task re_url re_www refs in_item src (first :: l) first eq_refl Hopen Hclose Htask Hurl Hwww Hok Hpad)
    as (c & http & E & W & K & A).
  rewrite E. cbn [bind].
  destruct (itreeX_root_total src (s_start first) (i_h c) http W A K) as [t Et]. rewrite Et. cbn [bind]. eexists. reflexivity.
Qed.
End Total.
