(* C17 for the GFM parser model, part 2: every table the block phase (BlockParseX.v) stores next
   to the heap is good (GfmTableRectTab.good_table): the only function that adds an entry is
   table_transform, with a table TableX.transform yields; all others pass the list through. *)
Require Import GM.model.Base GM.model.Util GM.model.Reader GM.model.Blocks GM.model.ListItem
               GM.model.LeafBlocks GM.model.CodeBlock GM.model.LinkDest GM.model.Regex
               GM.model.Html GM.model.TableX GM.model.BlockParse GM.model.BlockParseX.
Require Import GM.proofs.TableProofs GM.proofs.GfmTableRectTab.
From Coq Require Import List ZArith Bool Lia.
Import ListNotations.

Definition tabs_good (x : stx) : Prop := Forall (fun p => good_table (snd p)) (bx_tabs x).

Lemma tabs_good_stx_s x s : tabs_good x -> tabs_good (stx_s x s).
Proof. intros H; exact H. Qed.

(* one step of taking a monadic equation apart *)
Ltac mstep H :=
  match type of H with
  | bind ?r ?f = Ok _ => let v := fresh "v" in let Hv := fresh "Hv" in bind_inv H v Hv
  | Ok _ = Ok _ => inversion H; subst; clear H
  | Panic = Ok _ => discriminate H
  | OutOfFuel = Ok _ => discriminate H
  | (if ?e then _ else _) = Ok _ => let E := fresh "E" in destruct e eqn:E
  | (let '(_, _) := ?e in _) = Ok _ => let E := fresh "E" in destruct e eqn:E
  | match ?e with _ => _ end = Ok _ => let E := fresh "E" in destruct e eqn:E
  end.

Section Blk.
Variable table_on : bool.
Variable space_table punct_table : list N.
Variable norm : bytes -> bytes.
Variable re_t1o re_t1c re_t2 re_t3 re_t4 re_t5 re_t6 re_t7 : re.
Variable allowed_tags : list bytes.

Notation table_transform := (table_transform space_table).
Notation transform_paragraphX := (transform_paragraphX table_on space_table punct_table norm).
Notation close_rangeX := (close_rangeX table_on space_table punct_table norm).
Notation close_blocksX := (close_blocksX table_on space_table punct_table norm).
Notation try_parsersX := (try_parsersX table_on space_table punct_table norm re_t1o re_t2 re_t3 re_t4 re_t5 re_t6 re_t7 allowed_tags).
Notation open_blocks_loopX := (open_blocks_loopX table_on space_table punct_table norm re_t1o re_t2 re_t3 re_t4 re_t5 re_t6 re_t7 allowed_tags).
Notation open_blocksX := (open_blocksX table_on space_table punct_table norm re_t1o re_t1c re_t2 re_t3 re_t4 re_t5 re_t6 re_t7 allowed_tags).
Notation each_openedX := (each_openedX table_on space_table punct_table norm re_t1o re_t1c re_t2 re_t3 re_t4 re_t5 re_t6 re_t7 allowed_tags).
Notation lines_loopX := (lines_loopX table_on space_table punct_table norm re_t1o re_t1c re_t2 re_t3 re_t4 re_t5 re_t6 re_t7 allowed_tags).
Notation parse_blocks_loopX := (parse_blocks_loopX table_on space_table punct_table norm re_t1o re_t1c re_t2 re_t3 re_t4 re_t5 re_t6 re_t7 allowed_tags).
Notation parse_blocksX := (parse_blocksX table_on space_table punct_table norm re_t1o re_t1c re_t2 re_t3 re_t4 re_t5 re_t6 re_t7 allowed_tags).

Lemma table_transform_good x node x' :
  tabs_good x -> table_transform x node = Ok x' -> tabs_good x'.
Proof.
  intros Hx H. unfold BlockParseX.table_transform in H.
  bind_inv H n Hn. bind_inv H r Hr.
  destruct r as [[before tbl]|]; [|inversion H; subst x'; exact Hx].
  destruct (bpar n) as [p|]; [|discriminate H].
  destruct (new_node (bx_s x) (mknode BThematicBreak 0)) as [s t] eqn:Enew.
  bind_inv H h Hh. bind_inv H h' Hh'. inversion H; subst x'.
  unfold tabs_good. cbn [bx_tabs]. apply Forall_app. split; [exact Hx|].
  constructor; [|constructor]. cbn [snd]. exact (transform_good _ _ _ _ _ Hr).
Qed.

Lemma transform_paragraphX_good x node y :
  tabs_good x -> transform_paragraphX x node = Ok y -> tabs_good (fst y).
Proof.
  intros Hx H. unfold BlockParseX.transform_paragraphX in H.
  bind_inv H s Hs. bind_inv H n Hn.
  destruct (bpar n) as [p|]; [|inversion H; subst y; exact Hx].
  destruct table_on.
  - bind_inv H x' Hx'. bind_inv H n' Hn'. inversion H; subst y. cbn [fst].
    exact (table_transform_good _ _ _ (tabs_good_stx_s x s Hx) Hx').
  - inversion H; subst y. exact Hx.
Qed.

Lemma lift0_good x r x' : tabs_good x -> lift0 x r = Ok x' -> tabs_good x'.
Proof.
  intros Hx H. unfold lift0 in H. bind_inv H s Hs. inversion H; subst x'. exact Hx.
Qed.

Lemma close_rangeX_good blocks cnt : forall x i x',
  tabs_good x -> close_rangeX x blocks cnt i = Ok x' -> tabs_good x'.
Proof.
  induction cnt as [|k IH]; intros x i x' Hx H; cbn [BlockParseX.close_rangeX] in H.
  - inversion H; subst x'. exact Hx.
  - destruct ((i <? 0)%Z || (zlen blocks <=? i)%Z); [discriminate H|].
    destruct (nth_error blocks (Z.to_nat i)) as [[node p]|]; [|discriminate H].
    bind_inv H isp Hisp. bind_inv H att Hatt. bind_inv H x1 Hx1.
    bind_inv H att2 Hatt2. bind_inv H x2 Hx2.
    assert (G1 : tabs_good x1).
    { destruct (isp && att).
      - bind_inv Hx1 y Hy. inversion Hx1; subst x1. exact (transform_paragraphX_good _ _ _ Hx Hy).
      - inversion Hx1; subst x1. exact Hx. }
    assert (G2 : tabs_good x2).
    { destruct att2.
      - exact (lift0_good _ _ _ G1 Hx2).
      - inversion Hx2; subst x2. exact G1. }
    exact (IH _ _ _ G2 H).
Qed.

Lemma close_blocksX_good x from to x' :
  tabs_good x -> close_blocksX x from to = Ok x' -> tabs_good x'.
Proof.
  intros Hx H. unfold BlockParseX.close_blocksX in H.
  bind_inv H x1 Hx1. apply close_rangeX_good in Hx1; [|exact Hx].
  repeat mstep H; exact Hx1.
Qed.

Definition try_good (r : try_resX) : Prop :=
  match r with TRetryX _ _ _ x => tabs_good x | TDoneX _ x => tabs_good x end.

Lemma try_parsersX_good bps : forall parent blank continuable res w x r,
  tabs_good x -> try_parsersX bps parent blank continuable res w x = Ok r -> try_good r.
Proof.
  induction bps as [|bp rest IH]; intros parent blank continuable res w x r Hx H;
    cbn [BlockParseX.try_parsersX] in H.
  - inversion H; subst r. exact Hx.
  - destruct (continuable && (res =? noBlocksOpened)%Z && negb (can_interrupt_paragraph bp));
      [exact (IH _ _ _ _ _ _ _ Hx H)|].
    destruct ((3 <? w)%Z && negb (can_accept_indented bp)); [exact (IH _ _ _ _ _ _ _ Hx H)|].
    bind_inv H y Hy. destruct y as [s o].
    destruct o as [[[node has_children] require_para]|];
      [|exact (IH _ _ _ _ _ _ _ (tabs_good_stx_s x s Hx) H)].
    bind_inv H r1 Hr1.
    assert (G1 : match r1 with inl x1 => tabs_good x1 | inr x1 => tabs_good x1 end).
    { destruct require_para; [|inversion Hr1; subst r1; exact Hx].
      destruct (last_opened (s_c (bx_s x))) as [[last lp]|]; [|inversion Hr1; subst r1; exact Hx].
      bind_inv Hr1 pn Hpn.
      destruct (opt_nat_eqb (Some last) (last_id (bch pn))); [|inversion Hr1; subst r1; exact Hx].
      bind_inv Hr1 s1 Hs1.
      destruct (Nat.eqb (c_len (s_c s1)) 0); [discriminate Hr1|].
      bind_inv Hr1 t Ht. destruct t as [x2 gone].
      apply transform_paragraphX_good in Ht; [|exact Hx]. cbn [fst] in Ht.
      destruct gone; inversion Hr1; subst r1; exact Ht. }
    destruct r1 as [x1|x1]; [|inversion H; subst r; exact G1].
    bind_inv H h Hh. bind_inv H x2 Hx2.
    assert (G2 : tabs_good x2).
    { destruct (last_opened (s_c (bx_s x))) as [[last lp]|]; [|inversion Hx2; subst x2; exact G1].
      bind_inv Hx2 att Hatt.
      destruct (negb att); [|inversion Hx2; subst x2; exact G1].
      exact (close_blocksX_good _ _ _ _ (tabs_good_stx_s x1 _ G1) Hx2). }
    bind_inv H h2 Hh2.
    destruct has_children; inversion H; subst r; exact G2.
Qed.

Lemma open_blocks_loopX_good fuel : forall parent blank continuable res x r,
  tabs_good x -> open_blocks_loopX fuel parent blank continuable res x = Ok r -> tabs_good (snd r).
Proof.
  induction fuel as [|f IH]; intros parent blank continuable res x r Hx H;
    cbn [BlockParseX.open_blocks_loopX] in H.
  - discriminate H.
  - bind_inv H y Hy. destruct y as [[s line] b0].
    bind_inv H z Hz. destruct z as [s1 off].
    destruct (Blocks.indent_width (line_of line) off) as [w pos].
    match type of H with (if ?e then _ else _) = _ => destruct e end.
    + inversion H; subst r. exact Hx.
    + bind_inv H t Ht.
      apply try_parsersX_good in Ht; [|exact Hx].
      destruct t as [p1 c1 r1 x1|r1 x1].
      * exact (IH _ _ _ _ _ _ Ht H).
      * inversion H; subst r. exact Ht.
Qed.

Lemma open_blocksX_good fuel parent blank x r :
  tabs_good x -> open_blocksX fuel parent blank x = Ok r -> tabs_good (snd r).
Proof.
  intros Hx H. unfold BlockParseX.open_blocksX in H.
  bind_inv H cont0 Hcont. bind_inv H y Hy.
  apply open_blocks_loopX_good in Hy; [|exact Hx].
  destruct y as [[res continuable] x1]. cbn [snd] in Hy.
  destruct ((res =? noBlocksOpened)%Z && continuable).
  - destruct (last_opened (s_c (bx_s x1))) as [[l lp]|]; [|discriminate H].
    bind_inv H z Hz. destruct z as [[s c] b]. inversion H; subst r. exact Hy.
  - inversion H; subst r. exact Hy.
Qed.

Definition sum_good (r : stx + stx) : Prop := match r with inl x => tabs_good x | inr x => tabs_good x end.

Lemma advance_line_x_good x : tabs_good x -> tabs_good (advance_line_x x).
Proof. intros H; exact H. Qed.

Lemma each_openedX_good fuel captured root : forall i last_index stats x r,
  tabs_good x -> each_openedX fuel captured root i last_index stats x = Ok r -> sum_good (fst r).
Proof.
  induction fuel as [|f IH]; intros i last_index stats x r Hx H;
    cbn [BlockParseX.each_openedX] in H.
  - discriminate H.
  - destruct (last_index <? i)%Z; [inversion H; subst r; exact Hx|].
    destruct (nth_error captured (Z.to_nat i)) as [[node bp]|]; [|discriminate H].
    bind_inv H y Hy. destruct y as [[s line] b0].
    destruct line as [line|].
    + bind_inv H isp Hisp. bind_inv H c Hc.
      destruct c as [[x1 cont0] kids].
      assert (G1 : tabs_good x1).
      { destruct (negb isp).
        - bind_inv Hc y Hy1. destruct y as [[s1 c1] k1]. inversion Hc; subst x1. exact Hx.
        - inversion Hc; subst x1. exact Hx. }
      destruct cont0.
      * match type of H with (if ?e then _ else _) = _ => destruct e end.
        -- bind_inv H o Ho. apply open_blocksX_good in Ho; [|exact G1].
           inversion H; subst r. exact Ho.
        -- exact (IH _ _ _ _ _ G1 H).
      * bind_inv H this_parent Htp. bind_inv H last_node Hln. bind_inv H o Ho.
        apply open_blocksX_good in Ho; [|exact G1]. destruct o as [res x2]. cbn [snd] in Ho.
        destruct (negb (res =? paragraphContinuation)%Z).
        -- bind_inv H now_last Hnl. bind_inv H x3 Hx3.
           apply close_blocksX_good in Hx3; [|exact Ho].
           inversion H; subst r. exact Hx3.
        -- inversion H; subst r. exact Ho.
    + bind_inv H x1 Hx1. apply close_blocksX_good in Hx1; [|exact Hx].
      inversion H; subst r. exact Hx1.
Qed.

Lemma lines_loopX_good fuel root : forall stats x r,
  tabs_good x -> lines_loopX fuel root stats x = Ok r -> sum_good (fst r).
Proof.
  induction fuel as [|f IH]; intros stats x r Hx H; cbn [BlockParseX.lines_loopX] in H.
  - discriminate H.
  - destruct (opened (s_c (bx_s x))) as [|c0 cr] eqn:Ecap; [inversion H; subst r; exact Hx|].
    bind_inv H y Hy. apply each_openedX_good in Hy; [|exact Hx].
    destruct y as [r1 stats1]. cbn [fst] in Hy.
    destruct r1 as [x1|x1].
    + inversion H; subst r. exact Hy.
    + exact (IH _ _ _ (advance_line_x_good _ Hy) H).
Qed.

Lemma parse_blocks_loopX_good fuel root : forall stats x x',
  tabs_good x -> parse_blocks_loopX fuel root stats x = Ok x' -> tabs_good x'.
Proof.
  induction fuel as [|f IH]; intros stats x x' Hx H; cbn [BlockParseX.parse_blocks_loopX] in H.
  - discriminate H.
  - bind_inv H y Hy. destruct y as [[[r b0] lines] ok].
    destruct (negb ok); [inversion H; subst x'; exact Hx|].
    bind_inv H o Ho. apply open_blocksX_good in Ho; [|exact Hx].
    destruct o as [res x1]. cbn [snd] in Ho.
    destruct (negb (res =? newBlocksOpened)%Z); [inversion H; subst x'; exact Ho|].
    bind_inv H y Hy1. apply lines_loopX_good in Hy1; [|exact (advance_line_x_good _ Ho)].
    destruct y as [r1 stats1]. cbn [fst] in Hy1.
    destruct r1 as [x2|x2].
    + inversion H; subst x'. exact Hy1.
    + exact (IH _ _ _ Hy1 H).
Qed.

(* every table the block phase stores is good *)
Theorem parse_blocksX_good src x :
  parse_blocksX src = Ok x -> tabs_good x.
Proof.
  unfold BlockParseX.parse_blocksX. intros H.
  eapply parse_blocks_loopX_good; [|exact H]. constructor.
Qed.

End Blk.
