(* Helper library for FootnoteWfBlk.v, part P (port of ParseBlocksRangeP.v to the driver of
   model/FootnoteParseBlock.v): the loop over the opened blocks of a line, the outer loops, the
   invariant at the end of the block phase. *)
Require Import GM.model.Base GM.model.Util GM.model.Reader GM.model.ReaderSpec GM.model.Blocks GM.model.ListItem
               GM.model.LeafBlocks GM.model.CodeBlock GM.model.LinkDest GM.model.Regex GM.model.HtmlWriter
               GM.model.Html GM.model.HtmlSpec GM.model.BlockParse GM.model.InlineParse GM.model.FootnoteParseBlock.
Require Import GM.proofs.ReaderProofs GM.proofs.BlockRangeProofs GM.proofs.ParseInv
               GM.proofs.ParseBlocksRangeA GM.proofs.ParseBlocksRangeB GM.proofs.ParseBlocksRangeC
               GM.proofs.ParseBlocksRangeD GM.proofs.ParseBlocksRangeE
               GM.proofs.ParseBlocksRangeF GM.proofs.ParseBlocksRangeL GM.proofs.ParseBlocksRangeM GM.proofs.ParseBlocksRangeN
               GM.proofs.ParseBlocksRangeP
               GM.proofs.FootnoteWfDefs GM.proofs.FootnoteWfDefs2 GM.proofs.FootnoteWfBlkInv GM.proofs.FootnoteWfBlkFrame GM.proofs.FootnoteWfBlkO
               GM.proofs.FootnoteWfBlkL GM.proofs.FootnoteWfBlkN.
From Coq Require Import ZArith Lia Sorted List Bool.
Import ListNotations.
Open Scope Z_scope.

(* ---------- list indices (local copies of facts of ParseBlocksRangeP.v) ---------- *)
Lemma firstn_S_nthF {X} (l : list X) : forall k e, nth_error l k = Some e -> firstn (S k) l = firstn k l ++ [e].
Proof.
  induction l as [|a t IH]; intros [|k] e H; cbn [nth_error] in H; try discriminate.
  - injection H as ->. reflexivity.
  - cbn [firstn app]. f_equal. apply IH. exact H.
Qed.
Lemma skipn_nth_consF {X} (l : list X) : forall k e, nth_error l k = Some e -> skipn k l = e :: skipn (S k) l.
Proof.
  induction l as [|a t IH]; intros [|k] e H; cbn [nth_error] in H; try discriminate.
  - injection H as ->. reflexivity.
  - cbn [skipn]. apply IH. exact H.
Qed.
Lemma nth_error_firstn_ltF {X} (l : list X) : forall n m, (m < n)%nat -> nth_error (firstn n l) m = nth_error l m.
Proof.
  induction l as [|a t IH]; intros [|n] [|m] H; cbn [firstn nth_error]; try reflexivity; try lia. apply IH. lia.
Qed.
Lemma nth_adjF (l : list nat) : forall k a b, nth_error l k = Some a -> nth_error l (S k) = Some b -> Adj l a b.
Proof.
  induction l as [|x t IH]; intros [|k] a b Ha Hb; cbn [nth_error] in *; try discriminate.
  - injection Ha as ->. destruct t as [|y t']; [discriminate|]. injection Hb as ->. exists [], t'. reflexivity.
  - apply Adj_cons. right. eapply IH; eassumption.
Qed.
Lemma ids_nthF (E : list (nat * bparser)) k y bq : nth_error E k = Some (y, bq) -> nth_error (ids E) k = Some y.
Proof. intros H. unfold ids. rewrite nth_error_map, H. reflexivity. Qed.
Lemma nodup_nth_eqF {X} (l : list X) i j x : NoDup l -> nth_error l i = Some x -> nth_error l j = Some x -> i = j.
Proof.
  intros Hnd Hi Hj. eapply NoDup_nth_error; [exact Hnd| |congruence]. apply nth_error_Some. congruence.
Qed.
Lemma split_atF (E : list (nat * bparser)) k node bp : nth_error E k = Some (node, bp) ->
  E = firstn k E ++ skipn k E /\ length (firstn k E) = k /\ skipn k E = (node, bp) :: skipn (S k) E /\
  (forall j, (j < k)%nat -> nth_error (firstn k E) j = nth_error E j).
Proof.
  intros H. pose proof (nth_some_lt _ _ _ H) as Hlt. csplit.
  - symmetry. apply firstn_skipn.
  - rewrite firstn_length. lia.
  - apply skipn_nth_consF. exact H.
  - intros j Hj. apply nth_error_firstn_ltF. exact Hj.
Qed.

(* the footnote facts only depend on the set of opened ids *)
Lemma FLs_regroup x A D N A' D' N' : FLs x A D N ->
  (forall y, In y (ids (A' ++ D' ++ N')) -> In y (ids (A ++ D ++ N))) -> FLs x A' D' N'.
Proof. unfold FLs. intros H Hi. eapply FLI_incl; eassumption. Qed.

Section P.
Variable space_table punct_table : list N.
Variable norm : bytes -> bytes.
Variable re_t1o re_t1c re_t2 re_t3 re_t4 re_t5 re_t6 re_t7 : re.
Variable allowed_tags : list bytes.
Variable src : bytes.
Hypothesis sp32 : is_space space_table 32%N = true.
Set Default Proof Using "All".

Notation CC f := (f space_table punct_table norm re_t1o re_t1c re_t2 re_t3 re_t4 re_t5 re_t6 re_t7 allowed_tags src sp32) (only parsing).
Notation SInv := (SInv space_table src).
Notation HI := (HI space_table src).
Notation heapS := (heapS space_table src).
Notation Jinv := (Jinv src).
Notation openS := (openS src).
Notation cont_post := (cont_post space_table src).
Notation item_guard := (item_guard space_table).
Notation verdict := (verdict space_table).
Hypothesis Hsrc : bytes_ok src.
Notation CE f := (f space_table punct_table norm re_t1o re_t1c re_t2 re_t3 re_t4 re_t5 re_t6 re_t7 allowed_tags src sp32) (only parsing).
Notation CJ f := (f space_table punct_table norm re_t1o re_t1c re_t2 re_t3 re_t4 re_t5 re_t6 re_t7 allowed_tags src sp32 Hsrc) (only parsing).
Notation CF f := (f space_table punct_table norm re_t1o re_t1c re_t2 re_t3 re_t4 re_t5 re_t6 re_t7 allowed_tags) (only parsing).
Notation OInv := (OInv space_table src).
Notation FInv := (FInv space_table src).
Notation p_continueF := (p_continueF space_table re_t1c).
Notation EOF := (each_openedF space_table punct_table norm re_t1o re_t1c re_t2 re_t3 re_t4 re_t5 re_t6 re_t7 allowed_tags).
Notation OBF := (open_blocksF space_table punct_table norm re_t1o re_t1c re_t2 re_t3 re_t4 re_t5 re_t6 re_t7 allowed_tags).
Notation CBF := (close_blocksF space_table punct_table norm).
Notation LLF := (lines_loopF space_table punct_table norm re_t1o re_t1c re_t2 re_t3 re_t4 re_t5 re_t6 re_t7 allowed_tags).
Notation PBLF := (parse_blocks_loopF space_table punct_table norm re_t1o re_t1c re_t2 re_t3 re_t4 re_t5 re_t6 re_t7 allowed_tags).

Lemma Oeq_nthF c L m : Oeq c L -> (m < length L)%nat -> nth_error (c_arr c) m = nth_error L m.
Proof.
  intros HO Hm. pose proof (CE Oeq_len _ _ HO) as Hl. destruct HO as [H1 _]. unfold opened in H1.
  rewrite <- H1. symmetry. apply nth_error_firstn_ltF. lia.
Qed.

(* ---------- regrouping ---------- *)
Lemma FInv_split fl x A D : FInv fl x (A ++ D) [] [] -> FInv fl x A D [].
Proof.
  intros [HO HF]. split; [apply (CE OInv_split); exact HO|]. eapply FLs_regroup; [exact HF|]. intros y. rewrite (CE flat3). auto.
Qed.
Lemma FInv_join fl x A D : FInv fl x A D [] -> spineL (s_h (bf_s x)) (0%nat :: ids (A ++ D)) -> FInv fl x (A ++ D) [] [].
Proof.
  intros [HO HF] Hsp. split; [apply (CE OInv_join); assumption|]. eapply FLs_regroup; [exact HF|]. intros y. rewrite (CE flat3). auto.
Qed.
Lemma FInv_merge fl x A N : FInv fl x A [] N -> FInv fl x (A ++ N) [] [].
Proof.
  intros [HO HF]. split; [apply (CE OInv_merge); exact HO|]. eapply FLs_regroup; [exact HF|]. intros y. rewrite (CE flat3n). auto.
Qed.
Lemma FInv_FW x A D N : FInv FF x A D N -> FInv WW x A D N.
Proof. intros [HO HF]. split; [apply (CE OInv_FW); exact HO|exact HF]. Qed.

(* ---------- Continue of any parser of the footnote driver ---------- *)
Lemma p_continueF_ok bp x node x' cont kids A D N : SInv FF (bf_s x) A D N -> FLs x A D N -> In (node, bp) (A ++ D ++ N) ->
  r_in_range (s_r (bf_s x)) = true -> (bp = PListItem -> item_guard (bf_s x) node) ->
  p_continueF bp x node = Ok (x', cont, kids) ->
  cont_post bp (bf_s x) (bf_s x') cont A D N /\ kids = container (pkind bp) /\
  (bp = PList -> cont = true -> verdict (bf_s x') node) /\ FLs x' A D N.
Proof.
  intros HS HF Hin Hir Hg H.
  destruct (CE SInv_entry _ _ _ _ _ _ _ HS Hin) as [n [En [K _]]].
  destruct (is_footnote_node n) eqn:Ef.
  - pose proof Ef as Ef'. apply is_footnote_node_spec in Ef'. destruct Ef' as [Kb _].
    assert (bp = PBlockquote) as -> by (apply pkind_bq; congruence).
    unfold FootnoteParseBlock.p_continueF, is_footnote, hget in H. rewrite En in H. cbn [bind] in H. rewrite Ef in H.
    bind_inv H y Ey. destruct y as [s1 c1]. cbn [fst snd] in H. injection H as <- <- <-. cbn [stf_s bf_s bf_list].
    destruct (CC footnote_continue_ok _ _ _ _ _ _ HS Hir Ey) as [Hp Eh]. csplit; auto; [discriminate|].
    eapply FLs_same; [exact HF|exact Eh|reflexivity].
  - destruct (CJ p_continueF_core bp x node x' cont kids n En Ef H) as [s1 [Es ->]]. cbn [stf_s bf_s bf_list].
    destruct (CE p_continue_ok bp (bf_s x) node s1 cont kids A D N HS Hin Hir Hg Es) as [H1 [H2 H3]]. csplit; auto.
    eapply FLs_cfr; [exact HF| |reflexivity]. cbn [stf_s bf_s]. eapply (CF p_continue_cfr); [|exact Es]. intros m Em. congruence.
Qed.

Definition EPostF (r : stf + stf) : Prop :=
  match r with inl x' => SInv FF (bf_s x') [] [] [] /\ FLs x' [] [] [] | inr x' => exists E', FInv WW x' E' [] [] end.

Lemma advance_line_FInv fl x A D N : FInv fl x A D N -> FInv FF (advance_line_f x) A D N.
Proof.
  intros [HO HF]. split; [apply (CJ OInv_advance_line fl); exact HO|]. eapply FLs_same; [exact HF|reflexivity|reflexivity].
Qed.

Lemma FInv_same fl x x' A D N : FInv fl x A D N -> SInv fl (bf_s x') A D N -> FLs x' A D N ->
  c_arr (s_c (bf_s x')) = c_arr (s_c (bf_s x)) -> c_len (s_c (bf_s x')) = c_len (s_c (bf_s x)) -> FInv fl x' A D N.
Proof. intros [HO _] HS HF Ea El. split; [eapply (CJ OInv_same); eassumption|exact HF]. Qed.

(* the block at index i did not continue: blocks are opened below the previous one, the rest is closed *)
Lemma not_cont_caseF E i node bp x2 fuel blank (st1 : list (Z * Z * bool)) r stats' :
  FInv FF x2 E [] [] -> 0 <= i -> nth_error E (Z.to_nat i) = Some (node, bp) ->
  (forall j y bq, (j < Z.to_nat i)%nat -> nth_error E j = Some (y, bq) -> container (pkind bq) = true) ->
  (this_parent <- (if i =? 0 then Ok 0%nat
                   else match nth_error E (Z.to_nat (i - 1)) with Some (p, _) => Ok p | None => Panic end) ;;
   last_node <- match nth_error E (Z.to_nat (zlen E - 1)) with Some (p, _) => Ok p | None => Panic end ;;
   o <- OBF fuel this_parent blank x2 ;;
   (let '(res, x) := o in
    if negb (res =? paragraphContinuation)
    then now_last <- match nth_error (c_arr (s_c (bf_s x))) (Z.to_nat (zlen E - 1)) with Some (p, _) => Ok p | None => Panic end ;;
         x0 <- CBF x (if (now_last =? last_node)%nat then zlen E - 1 else zlen E - 1 - 1) i ;;
         Ok (inr x0, st1)
    else Ok (inr x, st1))) = Ok (r, stats') -> EPostF r.
Proof.
  intros HO Hi Enth Hcb H.
  set (k := Z.to_nat i) in *.
  destruct (split_atF E k node bp Enth) as [HE [HlenA [HD HAn]]].
  set (A := firstn k E) in *. set (D := skipn k E) in *.
  assert (zlen A = i) as HzA by (unfold zlen; rewrite HlenA; unfold k; lia).
  assert (zlen E = zlen A + zlen D) as HzE by (rewrite HE at 1; apply zlen_app).
  assert (1 <= zlen D) as HzD by (rewrite HD, zlen_cons; pose proof (zlen_nonneg (skipn (S k) E)); lia).
  bind_inv H tp Etp. bind_inv H ln Eln. bind_inv H o Eo. destruct o as [res x3].
  (* the parent *)
  assert (tp = lastid (ids A)) as Htp.
  { destruct (Z.eqb_spec i 0) as [E0|E0].
    - injection Etp as <-. assert (k = 0%nat) as Ek by (unfold k; lia). unfold A. rewrite Ek. reflexivity.
    - destruct (nth_error E (Z.to_nat (i - 1))) as [[p pq]|] eqn:Ep; [|discriminate]. injection Etp as <-.
      assert (k = S (Z.to_nat (i - 1))) as Ek by (unfold k; lia). unfold A. rewrite Ek.
      rewrite (firstn_S_nthF _ _ _ Ep). symmetry. apply (CE lastid_ids_snoc). }
  assert (topC A) as Htop.
  { intros E' y bq EA. eapply (Hcb (length E')).
    - apply (f_equal (@length _)) in EA. rewrite app_length in EA. cbn [length] in EA. lia.
    - rewrite <- HAn by (apply (f_equal (@length _)) in EA; rewrite app_length in EA; cbn [length] in EA; lia).
      rewrite EA. apply nth_error_midF. }
  rewrite HE in HO. pose proof (FInv_split _ _ _ _ HO) as HO2.
  destruct (CJ open_blocksF_ok fuel tp blank x2 A D res x3 HO2 Htop Htp Eo) as [D' [N' [HW3 [HD' [Hpc [Hne Hlen3]]]]]].
  (* the last of the blocks of the line *)
  destruct (nth_error E (Z.to_nat (zlen E - 1))) as [[lnode lq]|] eqn:Elast; [|discriminate]. injection Eln as <-.
  destruct (Z.eqb_spec res paragraphContinuation) as [Eres|Eres]; cbn [negb] in H.
  - (* lazy continuation: nothing is closed *)
    injection H as <- _. destruct (Hpc Eres) as [-> [-> Hsh]]. exists E. rewrite HE.
    apply FInv_join; [exact HW3|]. rewrite <- HE.
    eapply spineL_le; [|eapply (CE SInv_spine); rewrite HE; exact (proj1 (proj1 HO))].
    intros q y _ Hl. eapply lastchild_le; eassumption.
  - bind_inv H nl Enl. bind_inv H x4 Ec. injection H as <- _.
    destruct HD' as [->|[-> [y [EDx [Hxn Harr]]]]].
    + (* the blocks D are closed *)
      pose proof HW3 as [[HS3 [HO3 Hu3]] HF3].
      assert (nth_error (c_arr (s_c (bf_s x3))) (Z.to_nat (zlen E - 1)) = Some (lnode, lq)) as Enow.
      { rewrite (Oeq_nthF _ _ _ HO3).
        - rewrite app_assoc, <- HE. rewrite nth_error_app1; [exact Elast|]. apply nth_some_lt in Elast. exact Elast.
        - rewrite app_assoc, <- HE, app_length. apply nth_some_lt in Elast. lia. }
      rewrite Enow in Enl. injection Enl as <-. rewrite Nat.eqb_refl in Ec.
      destruct (CJ close_blocksF_ok WW x3 x4 A D N' (zlen E - 1) i HW3 ltac:(lia) ltac:(lia) Ec) as [HO4 _].
      exists (A ++ N'). apply FInv_merge. exact HO4.
    + (* the paragraph has gone with a setext heading line or with its link reference definitions *)
      assert (zlen D = 1) as HzD1 by (rewrite EDx; reflexivity).
      assert ((node, bp) = (y, PParagraph)) as Enx by (rewrite HD in EDx; injection EDx as ? ?; congruence).
      assert (Z.to_nat (zlen E - 1) = k) as Ekl by (unfold k; lia).
      rewrite Ekl in *. rewrite Enth in Elast. injection Elast as <- <-. injection Enx as -> ->.
      pose proof HW3 as [[HS3 [HO3 Hu3]] HF3].
      destruct N' as [|[z zq] N''].
      * exfalso. rewrite (Harr eq_refl) in Enl. destruct HO as [[_ [HOs _]] _].
        rewrite (Oeq_nthF _ _ k HOs) in Enl.
        2: { rewrite app_nil_r, <- HE. apply nth_some_lt in Enth. exact Enth. }
        rewrite app_nil_r, <- HE, Enth in Enl. injection Enl as <-. rewrite Nat.eqb_refl in Ec.
        unfold FootnoteParseBlock.close_blocksF in Ec. replace (Z.to_nat (zlen E - 1 - i + 1)) with 1%nat in Ec by lia.
        cbn [FootnoteParseBlock.close_rangeF] in Ec. destruct HO3 as [HO3 _]. rewrite HO3 in Ec. cbn [app] in Ec. rewrite app_nil_r in Ec.
        replace (zlen A <=? zlen E - 1) with true in Ec by lia. rewrite orb_true_r in Ec. discriminate.
      * assert (nth_error (c_arr (s_c (bf_s x3))) k = Some (z, zq)) as Enow.
        { rewrite (Oeq_nthF _ _ _ HO3).
          - cbn [app]. rewrite <- HlenA. apply nth_error_midF.
          - cbn [app]. rewrite app_length. cbn [length]. lia. }
        rewrite Enow in Enl. injection Enl as <-.
        assert (z <> y) as Hyx by (intros ->; apply Hxn; left; reflexivity).
        apply Nat.eqb_neq in Hyx. rewrite Hyx in Ec.
        destruct (CJ close_blocksF_ok WW x3 x4 A [] ((z, zq) :: N'') (zlen E - 1 - 1) i HW3 ltac:(lia)) as [HO4 _];
          [rewrite zlen_nil; lia|exact Ec|].
        exists (A ++ (z, zq) :: N''). apply FInv_merge. exact HO4.
Qed.

Lemma each_openedF_ok E : forall fuel i fl x stats r stats',
  FInv fl x E [] [] -> (i <= zlen E - 1 -> fl = FF) -> 0 <= i ->
  (i <= zlen E - 1 -> forall j y bq, (j < Z.to_nat i)%nat -> nth_error E j = Some (y, bq) -> container (pkind bq) = true) ->
  (forall node, nth_error E (Z.to_nat i) = Some (node, PListItem) -> item_guard (bf_s x) node) ->
  EOF fuel E 0%nat i (zlen E - 1) stats x = Ok (r, stats') -> EPostF r.
Proof.
  induction fuel as [|f IH]; intros i fl x stats r stats' HO Hfl Hi Hcb Hig H; [discriminate|].
  cbn [FootnoteParseBlock.each_openedF] in H. destruct (Z.ltb_spec (zlen E - 1) i) as [Hend|Hin].
  - injection H as <- _. exists E. destruct fl; [apply FInv_FW|]; exact HO.
  - specialize (Hfl Hin). subst fl. specialize (Hcb Hin).
    destruct (nth_error E (Z.to_nat i)) as [[node bp]|] eqn:Enth; [|discriminate].
    bind_inv H y Ey. destruct y as [[s1 line] sg].
    pose proof HO as [[HS [HOe Hu]] HF].
    destruct (CC peek_s_ok _ _ _ _ _ _ _ HS Ey) as [HS1 [Eh1 [Ec1 [Ep1 [Esg [El [Ein1 Esrc1]]]]]]].
    pose proof (CC peek_s_rkey _ _ _ _ (proj1 (proj1 HS)) Ey) as Ek1.
    assert (FLs (stf_s x s1) E [] []) as HFL1 by (eapply FLs_same; [exact HF|exact Eh1|reflexivity]).
    assert (FInv FF (stf_s x s1) E [] []) as HO1 by (eapply FInv_same; [exact HO|exact HS1|exact HFL1|cbn [stf_s bf_s]; congruence|cbn [stf_s bf_s]; congruence]).
    destruct line as [line|].
    2: { (* end of the source: everything is closed *)
      bind_inv H x2 Ec. injection H as <- _.
      pose proof (FInv_split FF (stf_s x s1) [] E HO1) as HO1'.
      destruct (CJ close_blocksF_ok FF (stf_s x s1) x2 [] E [] (zlen E - 1) 0 HO1' eq_refl ltac:(rewrite zlen_nil; lia) Ec) as [[[HS2 _] HF2] _].
      split; [apply (CJ advance_line_FF FF); exact HS2|]. eapply FLs_same; [exact HF2|reflexivity|reflexivity]. }
    destruct (peeked_some _ _ El line eq_refl) as [Hir _].
    assert (In (node, bp) (E ++ [] ++ [])) as Hin' by (rewrite app_nil_r; eapply nth_error_In; exact Enth).
    destruct (CE SInv_entry _ _ _ _ _ _ _ HS1 Hin') as [nn [Enn [Knn _]]].
    bind_inv H isp Eisp. bind_inv H c Ec. destruct c as [[x2 cont] kids].
    cbn [stf_s bf_s] in Eisp. unfold is_paragraph, hget in Eisp. rewrite Enn in Eisp. cbn [bind] in Eisp. injection Eisp as <-.
    (* Continue of the block *)
    assert (c_arr (s_c (bf_s x2)) = c_arr (s_c s1) /\ c_len (s_c (bf_s x2)) = c_len (s_c s1) /\ FLs x2 E [] [] /\
            (cont = false -> SInv FF (bf_s x2) E [] []) /\
            (cont = true -> kids = container (pkind bp) /\ (if container (pkind bp) then SInv FF (bf_s x2) E [] [] else SInv WW (bf_s x2) E [] []) /\
                            (bp = PList -> verdict (bf_s x2) node))) as [Ea2 [El2 [HFL2 [Hcf Hct]]]].
    { destruct (bkind_eqb (bk nn) BParagraph); cbn [negb] in Ec.
      - injection Ec as <- <- <-. cbn [stf_s bf_s]. csplit; auto. discriminate.
      - assert (r_in_range (s_r s1) = true) as Hir1 by congruence.
        destruct (p_continueF_ok bp (stf_s x s1) node x2 cont kids E [] [] HS1 HFL1 Hin' Hir1) as [[Ea [El' [Hf Ht]]] [Hk [Hv HFL2]]]; [|exact Ec|].
        + intros ->. cbn [stf_s bf_s]. eapply (CJ item_guard_eq); [exact Eh1|exact Ek1|]. apply Hig. reflexivity.
        + cbn [stf_s bf_s] in *. csplit; auto. intros Hc. csplit; [exact Hk|apply Ht; exact Hc|intros Eb; apply Hv; assumption]. }
    destruct cont.
    + destruct (Hct eq_refl) as [-> [HS2 Hv]].
      destruct (container (pkind bp)) eqn:Kc; cbn [andb] in H.
      * assert (FInv FF x2 E [] []) as HO2 by (eapply FInv_same; [exact HO1|exact HS2|exact HFL2|cbn [stf_s bf_s]; congruence|cbn [stf_s bf_s]; congruence]).
        destruct (Z.eqb_spec i (zlen E - 1)) as [Elast|Elast].
        -- (* blocks are opened below the last opened block *)
           bind_inv H o Eo. destruct o as [res x3]. injection H as <- _. cbn [snd].
           assert (exists E', E = E' ++ [(node, bp)]) as [E' EE].
           { destruct (CC exists_last_or_nil E) as [->|[E' [e EE]]]; [destruct (Z.to_nat i); discriminate|].
             exists E'. rewrite EE in Enth. replace (Z.to_nat i) with (length E') in Enth.
             - rewrite nth_error_midF in Enth. congruence.
             - rewrite EE in Elast. unfold zlen in Elast. rewrite app_length in Elast. cbn [length] in Elast. lia. }
           assert (topC E) as Htop.
           { intros E'' y bq EE'. rewrite EE in EE'. apply app_inj_tail in EE'. destruct EE' as [_ EE']. injection EE' as <- <-. exact Kc. }
           assert (node = lastid (ids E)) as Hpar by (rewrite EE; symmetry; apply (CE lastid_ids_snoc)).
           destruct (CJ open_blocksF_ok _ node _ x2 E [] res x3 HO2 Htop Hpar Eo) as [D' [N' [HW3 [HD' _]]]].
           assert (D' = []) as -> by (destruct HD' as [->|[-> _]]; reflexivity).
           exists (E ++ N'). apply FInv_merge. exact HW3.
        -- (* on to the next opened block *)
           eapply (IH (i + 1) FF); [exact HO2|reflexivity|lia| | |exact H].
           ++ intros _ j y bq Hj Ej. destruct (Nat.eq_dec j (Z.to_nat i)) as [->|Hne].
              ** rewrite Enth in Ej. injection Ej as <- <-. exact Kc.
              ** eapply Hcb; [|exact Ej]. lia.
           ++ intros node' Enth'. replace (Z.to_nat (i + 1)) with (S (Z.to_nat i)) in Enth' by lia.
              pose proof (CE SInv_spine _ _ _ HS2) as Hsp.
              assert (Adj (0%nat :: ids E) node node') as Hadj.
              { apply Adj_cons. right. eapply nth_adjF; eapply ids_nthF; eassumption. }
              destruct (Hsp _ _ Hadj) as [np [Enp Hlc]]. apply last_id_in in Hlc.
              pose proof HS2 as [_ HH2]. pose proof (hi_heap _ _ _ _ _ _ _ _ HH2) as HhS.
              destruct (hs_K _ _ _ HhS _ _ _ Enp Hlc) as [nc [Enc Pnc]].
              assert (In (node', PListItem) (E ++ [] ++ [])) as Hin2 by (rewrite app_nil_r; eapply nth_error_In; exact Enth').
              destruct (CE SInv_entry _ _ _ _ _ _ _ HS2 Hin2) as [nc' [Enc' [Knc _]]]. assert (nc' = nc) by congruence. subst nc'.
              pose proof (hs_item _ _ _ HhS _ _ _ _ Enp Hlc Enc Knc) as Knp.
              destruct (CE SInv_entry _ _ _ _ _ _ _ HS2 Hin') as [np' [Enp' [Knp' _]]]. assert (np' = np) by congruence. subst np'.
              assert (bp = PList) as -> by (destruct bp; cbn [pkind] in *; congruence).
              intros n p En Pn. assert (n = nc) by congruence. subst n. assert (p = node) by congruence. subst p. apply Hv. reflexivity.
      * (* a leaf block has continued: it is the last opened block *)
        assert (i = zlen E - 1) as Hlast.
        { destruct (CC exists_last_or_nil E) as [EE|[E' [e EE]]]; [rewrite EE in Enth; destruct (Z.to_nat i); discriminate|].
          pose proof HS1 as [_ HH1].
          assert (node = fst e) as Hne.
          { eapply (CC leaf_entry_top) with (A := E) (D := []); [exact (hi_heap _ _ _ _ _ _ _ _ HH1)|exact (hi_open _ _ _ _ _ _ _ _ HH1)|rewrite app_nil_r; exact EE| |exact Enn|].
            - rewrite app_nil_r. eapply in_ids. eapply nth_error_In. exact Enth.
            - rewrite Knn. exact Kc. }
          pose proof (os_nodup _ _ _ _ _ _ (hi_open _ _ _ _ _ _ _ _ HH1)) as Hnd. rewrite app_nil_r in Hnd.
          assert (Z.to_nat i = length E') as Hidx.
          { eapply nodup_nth_eqF; [exact Hnd|eapply ids_nthF; exact Enth|]. rewrite EE, (CC ids_snoc), <- Hne.
            replace (length E') with (length (ids E')) by (unfold ids; apply map_length). apply nth_error_midF. }
          rewrite EE. unfold zlen. rewrite app_length. cbn [length]. lia. }
        eapply (IH (i + 1) WW); [|intros Hle; exfalso; lia|lia|intros Hle; exfalso; lia| |exact H].
        -- eapply FInv_same; [apply FInv_FW; exact HO1|exact HS2|exact HFL2|cbn [stf_s bf_s]; congruence|cbn [stf_s bf_s]; congruence].
        -- intros node' Enth'. exfalso. apply nth_some_lt in Enth'. unfold zlen in Hlast. lia.
    + specialize (Hcf eq_refl).
      assert (FInv FF x2 E [] []) as HO2 by (eapply FInv_same; [exact HO1|exact Hcf|exact HFL2|cbn [stf_s bf_s]; congruence|cbn [stf_s bf_s]; congruence]).
      eapply not_cont_caseF; [exact HO2|exact Hi|exact Enth|exact Hcb|exact H].
Qed.

(* ---------- the loop over the lines of a run of non-blank lines ---------- *)
Lemma lines_loopF_ok : forall fuel x stats E r stats', FInv FF x E [] [] ->
  LLF fuel 0%nat stats x = Ok (r, stats') ->
  match r with inl x' => SInv FF (bf_s x') [] [] [] /\ FLs x' [] [] [] | inr x' => FInv FF x' [] [] [] end.
Proof.
  induction fuel as [|f IH]; intros x stats E r stats' HO H; [discriminate|].
  cbn [FootnoteParseBlock.lines_loopF] in H. pose proof HO as [[HS [HOe Hu]] HF]. rewrite (CJ Oeq_opened _ _ HOe) in H.
  destruct E as [|e0 E0]; [injection H as <- _; exact HO|].
  set (E := e0 :: E0) in *. bind_inv H y Ey. destruct y as [r1 stats1].
  assert (EPostF r1) as HP.
  { replace (zlen (e0 :: E0) - 1) with (zlen E - 1) in Ey by reflexivity.
    eapply (each_openedF_ok E _ 0 FF); [exact HO|reflexivity|lia| | |exact Ey].
    - intros _ j y bq Hj. cbn in Hj. lia.
    - (* the first opened block is a child of the document, hence not a list item *)
      intros node Enth. exfalso. change (nth_error E (Z.to_nat 0)) with (Some e0) in Enth. injection Enth as Ee0.
      pose proof (CE SInv_spine _ _ _ HS) as Hsp. pose proof HS as [_ HH]. pose proof (hi_heap _ _ _ _ _ _ _ _ HH) as HhS.
      assert (Adj (0%nat :: ids E) 0%nat node) as Hadj.
      { unfold E. rewrite Ee0. cbn [ids map fst]. exists [], (map fst E0). reflexivity. }
      destruct (Hsp _ _ Hadj) as [n0 [En0 Hlc]]. apply last_id_in in Hlc.
      destruct (hs_K _ _ _ HhS _ _ _ En0 Hlc) as [nc [Enc Pnc]].
      assert (In (node, PListItem) (E ++ [] ++ [])) as Hin by (rewrite app_nil_r; unfold E; rewrite Ee0; left; reflexivity).
      destruct (CE SInv_entry _ _ _ _ _ _ _ HS Hin) as [nc' [Enc' [Knc _]]]. assert (nc' = nc) by congruence. subst nc'.
      pose proof (hs_item _ _ _ HhS _ _ _ _ En0 Hlc Enc Knc) as Kn0.
      destruct (hs_root _ _ _ HhS) as [r0 [Er0 [Kr0 _]]]. congruence. }
  destruct r1 as [x1|x1].
  - injection H as <- _. exact HP.
  - destruct HP as [E' HO']. eapply IH; [|exact H]. eapply advance_line_FInv. exact HO'.
Qed.

(* ---------- parseBlocks ---------- *)
Lemma parse_blocks_loopF_ok : forall fuel x stats x', FInv FF x [] [] [] ->
  PBLF fuel 0%nat stats x = Ok x' -> exists fl, SInv fl (bf_s x') [] [] [] /\ FLs x' [] [] [].
Proof.
  induction fuel as [|f IH]; intros x stats x' HO H; [discriminate|].
  cbn [FootnoteParseBlock.parse_blocks_loopF] in H. bind_inv H y Ey. destruct y as [[[r1 sg] lines] ok].
  pose proof HO as [[HS [HOe Hu]] HF].
  destruct (skip_blank_ok space_table src _ _ _ _ _ _ _ (proj1 HS) Ey) as [HR1 Hle1].
  assert (FInv FF (stf_s x (st_r (bf_s x) r1)) [] [] []) as HO1.
  { split; [|eapply FLs_same; [exact HF|reflexivity|reflexivity]]. cbn [stf_s bf_s].
    split; [apply (CC SInv_reader); assumption|]. split; assumption. }
  destruct ok; cbn [negb] in H; [|injection H as <-; exists FF; split; [exact (proj1 (proj1 HO1))|exact (proj2 HO1)]].
  bind_inv H o Eo. destruct o as [res x2].
  assert (topC []) as Htop by (intros E' y bq EE; destruct E'; discriminate).
  destruct (CJ open_blocksF_ok _ 0%nat _ (stf_s x (st_r (bf_s x) r1)) [] [] res x2 HO1 Htop eq_refl Eo) as [D' [N' [HW2 [HD' [_ [Hne _]]]]]].
  assert (D' = []) as -> by (destruct HD' as [->|[-> _]]; reflexivity).
  destruct (Z.eqb_spec res newBlocksOpened) as [Er|Er]; cbn [negb] in H.
  - bind_inv H y Ey'. destruct y as [r2 stats2].
    assert (FInv FF (advance_line_f x2) ([] ++ N') [] []) as HO3.
    { apply FInv_merge. eapply advance_line_FInv. exact HW2. }
    pose proof (lines_loopF_ok _ _ _ _ _ _ HO3 Ey') as Hr. destruct r2 as [x3|x3].
    + injection H as <-. exists FF. exact Hr.
    + eapply IH; [exact Hr|exact H].
  - injection H as <-. rewrite (Hne Er) in HW2. exists WW. split; [exact (proj1 (proj1 HW2))|exact (proj2 HW2)].
Qed.

Lemma init_FInv : FInv FF {| bf_s := {| s_h := [mknode BDocument 0]; s_c := init_ctx; s_r := new_reader src |}; bf_list := None |} [] [] [].
Proof.
  split; [exact (CJ init_OInv)|]. unfold FLs, FLI. cbn [bf_s bf_list s_h]. split; [|discriminate].
  assert (forall i n, nth_error [mknode BDocument 0] i = Some n -> i = 0%nat /\ n = mknode BDocument 0) as Hone.
  { intros [|i] n H; cbn in H; [injection H as <-; auto|destruct i; discriminate]. }
  constructor.
  - intros i n H K. apply Hone in H. destruct H as [_ ->]. discriminate.
  - discriminate.
  - discriminate.
  - intros c nc q H P. apply Hone in H. destruct H as [_ ->]. discriminate.
Qed.

(* the parent the FootnoteList records is a node of the heap: parent links are in range *)
Lemma FL_list_par h lst : FL h lst -> fn_list_par h lst.
Proof.
  intros HF l ln El En. destruct (fl_list _ _ HF l El) as [ln' [En' [_ Pl]]]. assert (ln' = ln) by congruence. subst ln'.
  destruct (bpar ln) as [par|] eqn:Ep; [|congruence]. pose proof (fl_par _ _ HF l ln par En Ep) as Hlt.
  destruct (nth_error h par) as [pn|] eqn:Epn; [eauto|]. apply nth_error_None in Epn. lia.
Qed.

(* the invariant at the end of the block phase *)
Theorem parse_blocksF_final2 x :
  parse_blocksF space_table punct_table norm re_t1o re_t1c re_t2 re_t3 re_t4 re_t5 re_t6 re_t7 allowed_tags src = Ok x ->
  BlkFinal2 space_table src x.
Proof.
  intros H. unfold parse_blocksF in H. destruct (parse_blocks_loopF_ok _ _ _ _ init_FInv H) as [fl [[_ [_ HhS HJ _ Hr]] [HF _]]].
  unfold BlkFinal2, BlkFinal. csplit; auto.
  - exact (fl_nodes _ _ HF).
  - eapply FL_list_ok; eassumption.
  - apply FL_list_par. exact HF.
Qed.

Theorem parse_blocksF_final x :
  parse_blocksF space_table punct_table norm re_t1o re_t1c re_t2 re_t3 re_t4 re_t5 re_t6 re_t7 allowed_tags src = Ok x ->
  BlkFinal space_table src x.
Proof.
  intros H. unfold parse_blocksF in H. destruct (parse_blocks_loopF_ok _ _ _ _ init_FInv H) as [fl [[_ [_ HhS HJ _ Hr]] [HF _]]].
  unfold BlkFinal. csplit; auto.
  - exact (fl_nodes _ _ HF).
  - eapply FL_list_ok; eassumption.
Qed.

End P.
