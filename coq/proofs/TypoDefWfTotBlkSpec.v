(* Helper file for TypoDefWfTotBlk.v: the postconditions of the Close functions of the generalised
   driver (p_closeD) and the facts about the line on which the definition list parsers open
   (shared by TypoDefWfTotBlkDl.v, ...Close.v, ...Open*.v). *)
Require Import GM.model.Base GM.model.Util GM.model.Reader GM.model.ReaderSpec GM.model.Blocks GM.model.ListItem
               GM.model.LeafBlocks GM.model.CodeBlock GM.model.LinkDest GM.model.Regex GM.model.BlockParse
               GM.model.TypoDefParseD.
Require Import GM.proofs.ReaderProofs GM.proofs.BlocksProofs GM.proofs.ParseBlocksTotalReader
               GM.proofs.ParseBlocksTotalDefs GM.proofs.ParseBlocksTotalSpec GM.proofs.ParseBlocksTotalSt
               GM.proofs.ParseBlocksTotalShape GM.proofs.TypoDefConservativeBlkInv GM.proofs.TypoDefWfTotBlkDefs.
From Coq Require Import ZArith Lia List Bool.
Import ListNotations.
Open Scope Z_scope.

(* ---------- Close ---------- *)
(* which old paragraphs the Close function of the generalised driver may detach: those of the core
   parser, and the children of a closed DefinitionDescription (defdesc_close replaces the first
   paragraph child of a tight description by a TextBlock) *)
Definition close_detachD (bp : bparser) (node : nat) (s : st) (j : nat) (n : bnode) : Prop :=
  close_detach bp node s j n \/ (bp = PHTML /\ bpar n = Some node /\ ddk (s_h s) node).

Section WithSrc.
Variable space_table : list N.
Variable src : bytes.
Notation SI := (SI space_table src).

Definition close_postD (bp : bparser) (node : nat) (s s' : st) : Prop :=
  SI s' /\ s_r s' = s_r s /\ cframe (s_c s) (s_c s') /\
  (bp <> PFenced -> c_fence (s_c s') = c_fence (s_c s)) /\
  (bp = PFenced -> forall ch ind fl nd, c_fence (s_c s) = Some (ch, ind, fl, nd) -> nd <> node ->
                   c_fence (s_c s') = c_fence (s_c s)) /\
  (bp <> PSetext -> c_tmp_para (s_c s') = c_tmp_para (s_c s)) /\
  close_frame node (close_detachD bp node s) (s_h s) (s_h s').

Lemma close_post_D bp node s s' : close_post space_table src bp node s s' -> close_postD bp node s s'.
Proof.
  intros (A1 & A2 & A3 & A4 & A5 & A6 & [L F]). unfold close_postD. csplit; auto.
  split; [exact L|]. intros j n Hj. destruct (F j n Hj) as (n' & B1 & B2 & B3 & B4 & B5).
  exists n'. csplit; auto. destruct B5 as [B5|[B5 B6]]; [left; exact B5|right; split; [exact B5|left; exact B6]].
Qed.

End WithSrc.

(* ---------- the line of a definition description ---------- *)
(* the first byte of the line is ':' (BlockOffset = 0 = BlockIndent: the indentation is 0, so the line
   has no virtual padding either) *)
Definition DLine (s : st) : Prop :=
  c_boff (s_c s) = 0 /\ c_bind (s_c s) = 0 /\ s_pad (r_pos (s_r s)) = 0 /\ nth_byte (sview s) 0 = 58%N /\ 0 < zlen (sview s).

(* W is an Offset the definition list parser computes on this line: the position behind the ':'
   plus a width 1 <= w that does not exceed the indentation behind the ':' *)
Definition Wok (s : st) (W : Z) : Prop :=
  exists w, 1 <= w <= fst (indent_width (zskip 1 (sview s)) 1) /\ W = w + 1.

(* the temporary paragraph of a definition list: an attached paragraph *)
Definition TmpOK (h : heap) (sg : option seg) : Prop :=
  forall x, sg = Some x -> exists l ln pp, x = mkseg (Z.of_nat l) 0 /\ nth_error h l = Some ln /\
                                       bk ln = BParagraph /\ bpar ln = Some pp.

(* BlockOffset / BlockIndent are the position and the width of the indentation of the line *)
Definition OffOK (s : st) : Prop :=
  c_bind (s_c s) = 0 -> 0 <= c_boff (s_c s) -> c_boff (s_c s) = 0 /\ s_pad (r_pos (s_r s)) = 0.
