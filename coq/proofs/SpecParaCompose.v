(* Plain paragraphs: the three phases composed.  On the source of a plain document (line bodies
   of letters and blanks) the Convert model yields one <p> element per paragraph. *)
Require Import GM.model.Base GM.model.Util GM.model.UtilI GM.model.Reader GM.model.HtmlWriter GM.model.Html GM.model.HtmlI
               GM.model.SpecDoc GM.model.BlockParse GM.model.InlineParse GM.model.ParseI.
Require Import GM.gen.Tables GM.gen.Entities GM.gen.Filters.
Require Import GM.proofs.SpecParaBytes GM.proofs.SpecParaBlocks3 GM.proofs.SpecParaInline GM.proofs.SpecParaRender.
From Coq Require Import List NArith ZArith Bool Lia.
Import ListNotations.
Open Scope Z_scope.

(* ---------- attaching the inline children ---------- *)
Definition attach_list (inl : list seg -> result (list tree)) : list tree -> result (list tree) :=
  fix go (l : list tree) : result (list tree) :=
    match l with
    | [] => Ok []
    | x :: r => y <- attach_inlines inl x ;; z <- go r ;; Ok (y :: z)
    end.
Lemma attach_inlines_eq inl k lines a kids :
  attach_inlines inl (Node k lines a kids) =
  if has_inlines k then (ch <- inl lines ;; Ok (Node k lines a ch))
  else (kids' <- attach_list inl kids ;; Ok (Node k lines a kids')).
Proof. reflexivity. Qed.

Lemma attach_doc_blocks refs d : forall pre post, forallb para_ok d = true ->
  attach_list (InlineChildren refs (pre ++ pdoc_body d ++ post)) (doc_blocks (zlen pre) d) = Ok (doc_full (zlen pre) d).
Proof.
  induction d as [|p r IH]; intros pre post Hd; [reflexivity|].
  cbn [forallb] in Hd. apply andb_true_iff in Hd. destruct Hd as [Hp Hr].
  cbn [doc_blocks doc_full attach_list]. rewrite attach_inlines_eq. cbn [has_inlines].
  destruct r as [|p' r'].
  - change (pdoc_body [p]) with (para_src p).
    rewrite (para_inline refs pre p post _ Hp eq_refl). cbn [bind doc_blocks doc_full attach_list]. reflexivity.
  - rewrite pdoc_body_cons2.
    rewrite <- (app_assoc (para_src p) ([10%N;10%N] ++ pdoc_body (p' :: r')) post).
    rewrite (para_inline refs pre p _ _ Hp eq_refl). cbn [bind].
    replace (pre ++ para_src p ++ ([10%N; 10%N] ++ pdoc_body (p' :: r')) ++ post)
      with ((pre ++ para_src p ++ [10%N;10%N]) ++ pdoc_body (p' :: r') ++ post)
      by (rewrite <- !app_assoc; reflexivity).
    replace (zlen pre + zlen (para_src p) + 2) with (zlen (pre ++ para_src p ++ [10%N;10%N])).
    2:{ rewrite !zlen_app. change (zlen [10%N;10%N]) with 2. lia. }
    rewrite (IH (pre ++ para_src p ++ [10%N;10%N]) post Hr). cbn [bind]. reflexivity.
Qed.

(* the whole parser model on a plain document *)
Theorem parse_tree_plain d fin : doc_ok d = true ->
  ParseTree (pdoc_src d fin) = Ok (Node KDocument [] None (doc_full 0 d)).
Proof.
  intros Hd. unfold ParseTree. rewrite (parse_blocks_tree_plain d fin Hd). cbn [bind].
  unfold doc_ok in Hd. apply andb_true_iff in Hd. destruct Hd as [_ Hd].
  rewrite attach_inlines_eq. cbn [has_inlines].
  unfold pdoc_src.
  change (pdoc_body d ++ (if fin then [10%N] else [])) with ([] ++ pdoc_body d ++ (if fin then [10%N] else [])).
  change 0 with (zlen (@nil N)).
  rewrite (attach_doc_blocks [] d [] _ Hd). reflexivity.
Qed.

Theorem convert_plain c d fin : hardwraps c = false -> doc_ok d = true ->
  ConvertModel c (pdoc_src d fin) = Ok (pdoc_html d).
Proof.
  intros Hc Hd. unfold ConvertModel. rewrite (parse_tree_plain d fin Hd). cbn [bind].
  unfold pdoc_src. apply render_plain; assumption.
Qed.

(* ---------- a single line: no soft break, so the HardWraps option does not matter ---------- *)
Lemma render_text_node_last c pre b post parent has_next is_last :
  forallb textc b = true ->
  RN c (pre ++ b ++ post) parent has_next is_last (text_node (zlen pre) b false) = Ok b.
Proof.
  intros Hb. rewrite render_node_eq. unfold text_node.
  cbn [render_enter t_kind t_children render_leave].
  rewrite seg_value_mid. cbn [bind]. rewrite (writer_write_text b Hb).
  cbn [orb andb render_list bind app]. rewrite !app_nil_r. reflexivity.
Qed.
Theorem render_plain_one c b post : body_okb b = true ->
  RenderHTML c (b ++ post) (Node KDocument [] None (doc_full 0 [[b]])) = Ok (pdoc_html [[b]]).
Proof.
  intros Hb. unfold RenderHTML, render. rewrite render_node_eq.
  cbn [render_enter t_kind t_children render_leave bind doc_full render_list para_segs para_texts].
  rewrite render_node_eq. cbn [render_enter t_kind t_children render_leave bind attrs_of render_list].
  change (b ++ post) with ([] ++ b ++ post). change 0 with (zlen (@nil N)).
  rewrite (render_text_node_last c [] b post _ _ _ (body_ok_text b Hb)). cbn [bind].
  unfold pdoc_html, para_html, para_src, tag_open, tag_close, n_p. cbn [flat_map join]. rewrite !app_nil_r. cbn [app].
  rewrite <- ?app_assoc. reflexivity.
Qed.
Theorem convert_plain_one c b fin : body_okb b = true ->
  ConvertModel c (pdoc_src [[b]] fin) = Ok (pdoc_html [[b]]).
Proof.
  intros Hb.
  assert (Hd : doc_ok [[b]] = true) by (unfold doc_ok, para_ok; cbn [is_nil negb forallb andb]; rewrite Hb; reflexivity).
  unfold ConvertModel. rewrite (parse_tree_plain [[b]] fin Hd). cbn [bind].
  unfold pdoc_src. change (pdoc_body [[b]]) with b. apply render_plain_one. exact Hb.
Qed.
