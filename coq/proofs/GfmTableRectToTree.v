(* C17 for the GFM parser model, part 3: the block tree to_treeX builds from a heap and a list of
   good tables is tables_ok: the nodes that are not Table subtrees have the kinds kind_of yields,
   none of which is a table kind. *)
Require Import GM.model.Base GM.model.Util GM.model.Reader GM.model.Regex GM.model.HtmlWriter GM.model.Html GM.model.HtmlI
               GM.model.TableX GM.model.BlockParse GM.model.InlineParse GM.model.BlockParseX GM.model.InlineParseX
               GM.model.GfmParse GM.model.GfmI GM.model.GfmSpec.
Require Import GM.proofs.TableProofs GM.proofs.GfmTableRectTab.
From Coq Require Import List ZArith Bool Lia.
Import ListNotations.

Definition block_kind (k : kind) : bool :=
  match k with
  | KDocument | KBlockquote | KList _ _ | KListItem | KParagraph | KTextBlock | KHeading _
  | KThematicBreak | KCodeBlock | KFencedCodeBlock _ | KHTMLBlock _ => true
  | _ => false
  end.

Lemma kind_of_block_kind src n k : kind_of src n = Ok k -> block_kind k = true.
Proof.
  unfold kind_of. intros H.
  destruct (bk n); try (inversion H; subst k; reflexivity).
  destruct (b_seg n) as [sg|].
  - bind_inv H v Hv. inversion H; subst k. reflexivity.
  - inversion H; subst k. reflexivity.
Qed.

Lemma find_table_good tabs : forall i t,
  Forall (fun p => good_table (snd p)) tabs -> find_table tabs i = Some t -> good_table t.
Proof.
  induction tabs as [|[j t0] r IH]; intros i t Hall H; cbn [find_table] in H.
  - discriminate H.
  - inversion Hall as [|p ps Hp Hps]; subst.
    destruct (Nat.eqb i j).
    + inversion H; subst t. exact Hp.
    + exact (IH _ _ Hps H).
Qed.

Lemma map_res_all {A B} (f : A -> result B) (P : B -> Prop) : forall l l',
  (forall x y, f x = Ok y -> P y) -> map_res f l = Ok l' -> Forall P l'.
Proof.
  induction l as [|x r IH]; intros l' Hf H; cbn [map_res] in H.
  - inversion H; subst l'. constructor.
  - bind_inv H y Hy. bind_inv H z Hz. inversion H; subst l'.
    constructor; [exact (Hf _ _ Hy)|exact (IH _ Hf Hz)].
Qed.

Lemma to_treeX_ok fuel : forall src h tabs i t,
  Forall (fun p => good_table (snd p)) tabs ->
  to_treeX fuel src h tabs i = Ok t -> tables_ok false t = true.
Proof.
  induction fuel as [|f IH]; intros src h tabs i t Hall H; cbn [to_treeX] in H.
  - discriminate H.
  - destruct (find_table tabs i) as [tb|] eqn:Ef.
    + inversion H; subst t. exact (find_table_good _ _ _ Hall Ef).
    + bind_inv H n Hn. bind_inv H k Hk. bind_inv H kids Hkids. inversion H; subst t.
      apply kind_of_block_kind in Hk.
      apply (map_res_all _ (fun y => tables_ok false y = true)) in Hkids;
        [|intros x y Hxy; exact (IH _ _ _ _ _ Hall Hxy)].
      rewrite tables_ok_unfold.
      replace (table_rect (Node k (blines n) None kids)) with true by (destruct k; try reflexivity; discriminate Hk).
      replace (match k with KTableHeader | KTableRow => false | _ => true end) with true
        by (destruct k; try reflexivity; discriminate Hk).
      replace (match k with KTable => true | _ => false end) with false
        by (destruct k; try reflexivity; discriminate Hk).
      cbn [andb]. apply forallb_forall. rewrite Forall_forall in Hkids. exact Hkids.
Qed.
