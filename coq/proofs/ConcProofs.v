(* C06 / C07: history independence of an instance; Once-protected initialisation under any
   interleaving: no deadlock, every read sees the initialised value, writes happen-before reads.

   STATEMENT CHANGE (writes_before_reads).  As first written (no hypothesis besides `guarded` and
   `spec_functional`) the theorem is FALSE when two different Onces initialise the same location:
     spec 0 = spec 1 = {| o_writes := [(0, 7)] |}, init_val 0 = 7,
     progs 0 = [ADo 0; ARead 0], progs 1 = [ADo 1]   (both reads_guarded),
     schedule [0;0;0;0;1;1;1] gives the trace
       [EWrite 0 0 0 7; EDoExit 0 0; ERead 0 0 (Some 7); EWrite 1 1 0 7; EDoExit 1 1]
     (checked with Eval vm_compute): the write at i = 3 comes after the read at j = 2.
   Fix: Section hypothesis `unique_writer` (each location is written by at most one Once); it is
   used by writes_before_reads only.  The hypothesis-free core is the added theorem
   writes_before_do_return: every write made by the closure of Once o precedes every return
   (EDoExit / EDoSkip) from o.Do; with read_after_do_return this is the happens-before chain
   write(o) < return of t from o.Do < read by t, for an o that initialises the location.
   All other statements are unchanged. *)
Require Import GM.model.Base GM.model.Instance GM.model.Conc.
From Coq Require Import Arith Lia.
Open Scope nat_scope.

(* ================= C06: Instance ================= *)
Section InstP.
Variables config ptables rtables tree : Type.
Variable freeze_p : config -> ptables.
Variable freeze_r : config -> rtables.
Variable parse_with : ptables -> bytes -> tree.
Variable render_with : rtables -> bytes -> tree -> bytes.
Notation step := (step config ptables rtables tree freeze_p freeze_r parse_with render_with).
Notation run := (run config ptables rtables tree freeze_p freeze_r parse_with render_with).
Notation new_inst := (new_inst config ptables rtables).
Notation ptab := (ptab config ptables rtables freeze_p).
Notation rtab := (rtab config ptables rtables freeze_r).

Notation inst := (inst config ptables rtables).

Definition inv_c (c : config) (i : inst) : Prop :=
  i_cfg _ _ _ i = c /\
  (i_ptab _ _ _ i = None \/ i_ptab _ _ _ i = Some (freeze_p c)) /\
  (i_rtab _ _ _ i = None \/ i_rtab _ _ _ i = Some (freeze_r c)).

Lemma inv_c_tabs c i : inv_c c i -> ptab i = freeze_p c /\ rtab i = freeze_r c.
Proof.
  intros [Hc [Hp Hr]]. unfold Instance.ptab, Instance.rtab. split.
  - destruct Hp as [Hp|Hp]; rewrite Hp; [rewrite Hc|]; reflexivity.
  - destruct Hr as [Hr|Hr]; rewrite Hr; [rewrite Hc|]; reflexivity.
Qed.

Lemma inv_c_step c i cl : inv_c c i -> inv_c c (fst (step i cl)).
Proof.
  intros Hi. destruct (inv_c_tabs c i Hi) as [Hp Hr]. destruct Hi as [Hc [Hp' Hr']].
  destruct cl as [src|src|src t]; cbn [Instance.step fst]; unfold inv_c;
    cbn [i_cfg i_ptab i_rtab]; rewrite ?Hp, ?Hr; auto.
Qed.

Lemma inv_c_run c h : forall i, inv_c c i -> inv_c c (run i h).
Proof.
  induction h as [|cl h IH]; intros i Hi.
  - exact Hi.
  - cbn [Instance.run fold_left]. apply IH. apply inv_c_step. exact Hi.
Qed.

Lemma inv_c_new c : inv_c c (new_inst c).
Proof. unfold inv_c. cbn. auto. Qed.

Lemma step_out c i cl : inv_c c i ->
  snd (step i cl) =
  match cl with
  | CConvert _ src => OBytes tree (render_with (freeze_r c) src (parse_with (freeze_p c) src))
  | CParse _ src => OTree tree (parse_with (freeze_p c) src)
  | CRender _ src t => OBytes tree (render_with (freeze_r c) src t)
  end.
Proof.
  intros Hi. destruct (inv_c_tabs c i Hi) as [Hp Hr].
  destruct cl as [src|src|src t]; cbn [Instance.step snd]; rewrite ?Hp, ?Hr; reflexivity.
Qed.

(* the frozen tables never change, whatever calls were made *)
Theorem tables_frozen c h :
  ptab (run (new_inst c) h) = freeze_p c /\ rtab (run (new_inst c) h) = freeze_r c.
Proof. apply inv_c_tabs. apply inv_c_run. apply inv_c_new. Qed.

(* the output of any call is the same after any history as on a fresh instance *)
Theorem history_independent c h call :
  snd (step (run (new_inst c) h) call) = snd (step (new_inst c) call).
Proof.
  rewrite (step_out c) by (apply inv_c_run; apply inv_c_new).
  rewrite (step_out c) by apply inv_c_new. reflexivity.
Qed.

(* Convert is Parse followed by Render *)
Theorem convert_is_parse_render c h src :
  snd (step (run (new_inst c) h) (CConvert tree src)) =
  OBytes tree (render_with (freeze_r c) src (parse_with (freeze_p c) src)).
Proof. rewrite (step_out c) by (apply inv_c_run; apply inv_c_new). reflexivity. Qed.

(* rendering the same tree again gives the same bytes *)
Theorem rerender_same c h1 h2 src t :
  snd (step (run (new_inst c) h1) (CRender tree src t)) = snd (step (run (new_inst c) (h1 ++ CRender tree src t :: h2)) (CRender tree src t)).
Proof.
  rewrite (step_out c) by (apply inv_c_run; apply inv_c_new).
  rewrite (step_out c) by (apply inv_c_run; apply inv_c_new). reflexivity.
Qed.
End InstP.

(* ================= C07: Once protocol ================= *)

(* ---- list / update helpers ---- *)
Lemma nth_error_lt {A} (l : list A) i x : nth_error l i = Some x -> i < length l.
Proof. intros H. apply nth_error_Some. congruence. Qed.

Lemma nth_error_snoc {A} (l : list A) e i x : nth_error (l ++ [e]) i = Some x ->
  (i < length l /\ nth_error l i = Some x) \/ (i = length l /\ x = e).
Proof.
  intros H. destruct (Nat.lt_ge_cases i (length l)) as [Hlt|Hge].
  - left. split; [exact Hlt|]. rewrite nth_error_app1 in H by exact Hlt. exact H.
  - right. rewrite nth_error_app2 in H by exact Hge.
    destruct (i - length l) as [|n] eqn:E.
    + cbn in H. inversion H. split; [lia|reflexivity].
    + cbn in H. destruct n; discriminate.
Qed.

Lemma nth_error_snoc_old {A} (l : list A) e i x : nth_error l i = Some x -> nth_error (l ++ [e]) i = Some x.
Proof. intros H. rewrite nth_error_app1; [exact H|]. eapply nth_error_lt; exact H. Qed.

Lemma nth_error_snoc_last {A} (l : list A) e : nth_error (l ++ [e]) (length l) = Some e.
Proof. rewrite nth_error_app2 by lia. rewrite Nat.sub_diag. reflexivity. Qed.

Lemma upd_same {A} (f : nat -> A) k v : upd_fun f k v k = v.
Proof. unfold upd_fun. rewrite Nat.eqb_refl. reflexivity. Qed.

Lemma upd_other {A} (f : nat -> A) k v x : x <> k -> upd_fun f k v x = f x.
Proof. intros H. unfold upd_fun. destruct (Nat.eqb_spec x k); [contradiction|reflexivity]. Qed.

(* thread t returns from o.Do at position k of the trace *)
Definition ret_at (tr : list event) (k : nat) (t : tid) (o : oid_) : Prop :=
  nth_error tr k = Some (EDoExit t o) \/ nth_error tr k = Some (EDoSkip t o).

Lemma ret_at_old tr e k t o : ret_at tr k t o -> ret_at (tr ++ [e]) k t o.
Proof. intros [H|H]; [left|right]; apply nth_error_snoc_old; exact H. Qed.

Lemma ret_at_last tr e t o : e = EDoExit t o \/ e = EDoSkip t o -> ret_at (tr ++ [e]) (length tr) t o.
Proof. intros [->| ->]; [left|right]; apply nth_error_snoc_last. Qed.

Lemma ret_at_snoc tr e k t o : ret_at (tr ++ [e]) k t o ->
  (k < length tr /\ ret_at tr k t o) \/ (k = length tr /\ (e = EDoExit t o \/ e = EDoSkip t o)).
Proof.
  intros [H|H]; apply nth_error_snoc in H; destruct H as [[Hk H]|[Hk H]].
  - left. split; [exact Hk|left; exact H].
  - right. split; [exact Hk|left; symmetry; exact H].
  - left. split; [exact Hk|right; exact H].
  - right. split; [exact Hk|right; symmetry; exact H].
Qed.

Lemma ret_at_nil k t o : ~ ret_at [] k t o.
Proof. intros [H|H]; destruct k; discriminate H. Qed.

Section ConcP.
Variable spec : oid_ -> once_spec.
Variable progs : tid -> list action.
Hypothesis guarded : forall t, reads_guarded spec [] (progs t) = true.
(* each location is initialised by one Once with one value *)
Variable init_val : loc -> nat.
Hypothesis spec_functional : forall o f v, In (f, v) (o_writes (spec o)) -> v = init_val f.
(* used by writes_before_reads only (see the note at the top of the file) *)
Hypothesis unique_writer : forall o o' f v v',
  In (f, v) (o_writes (spec o)) -> In (f, v') (o_writes (spec o')) -> o = o'.

Definition reachable (s : cstate) : Prop := exists sched, s = crun spec (init_state progs) sched.

(* ---- trace properties and their preservation when one event is appended ---- *)
Definition P_reads (tr : list event) : Prop :=
  forall t f v, In (ERead t f v) tr -> v = Some (init_val f).
Definition P_rret (tr : list event) : Prop :=
  forall j t f v, nth_error tr j = Some (ERead t f v) ->
    exists k o, k < j /\ (exists w, In (f, w) (o_writes (spec o))) /\ ret_at tr k t o.
Definition P_once (tr : list event) : Prop :=
  forall i j t t' o, nth_error tr i = Some (EDoExit t o) -> nth_error tr j = Some (EDoExit t' o) -> i = j.
Definition P_wspec (tr : list event) : Prop :=
  forall i t o f v, nth_error tr i = Some (EWrite t o f v) -> In (f, v) (o_writes (spec o)).
Definition P_wret (tr : list event) : Prop :=
  forall i k t t' o f v, nth_error tr i = Some (EWrite t o f v) -> ret_at tr k t' o -> i < k.

Lemma reads_snoc tr e : P_reads tr ->
  (forall t f v, e = ERead t f v -> v = Some (init_val f)) -> P_reads (tr ++ [e]).
Proof.
  intros HP He t f v Hin. apply in_app_or in Hin. destruct Hin as [Hin|[Hin|[]]].
  - eapply HP; exact Hin.
  - eapply He; exact Hin.
Qed.

Lemma rret_snoc tr e : P_rret tr ->
  (forall t f v, e = ERead t f v ->
     exists k o, (exists w, In (f, w) (o_writes (spec o))) /\ ret_at tr k t o) ->
  P_rret (tr ++ [e]).
Proof.
  intros HP He j t f v Hj. apply nth_error_snoc in Hj. destruct Hj as [[Hlt Hj]|[Hj Hx]].
  - destruct (HP _ _ _ _ Hj) as [k [o [Hk [Hw Hr]]]]. exists k, o.
    split; [exact Hk|]. split; [exact Hw|]. apply ret_at_old; exact Hr.
  - destruct (He _ _ _ (eq_sym Hx)) as [k [o [Hw Hr]]]. exists k, o.
    assert (Hk : k < length tr) by (destruct Hr as [Hr|Hr]; eapply nth_error_lt; exact Hr).
    split; [lia|]. split; [exact Hw|]. apply ret_at_old; exact Hr.
Qed.

Lemma once_snoc tr e : P_once tr ->
  (forall t o, e = EDoExit t o -> forall i t', nth_error tr i <> Some (EDoExit t' o)) ->
  P_once (tr ++ [e]).
Proof.
  intros HP He i j t t' o Hi Hj.
  apply nth_error_snoc in Hi. apply nth_error_snoc in Hj.
  destruct Hi as [[Hil Hi]|[Hil Hi]]; destruct Hj as [[Hjl Hj]|[Hjl Hj]].
  - eapply HP; eassumption.
  - exfalso. eapply (He t' o (eq_sym Hj)). exact Hi.
  - exfalso. eapply (He t o (eq_sym Hi)). exact Hj.
  - lia.
Qed.

Lemma wspec_snoc tr e : P_wspec tr ->
  (forall t o f v, e = EWrite t o f v -> In (f, v) (o_writes (spec o))) -> P_wspec (tr ++ [e]).
Proof.
  intros HP He i t o f v Hi. apply nth_error_snoc in Hi. destruct Hi as [[Hil Hi]|[Hil Hi]].
  - eapply HP; exact Hi.
  - eapply He. symmetry; exact Hi.
Qed.

Lemma wret_snoc tr e : P_wret tr ->
  (forall t o f v, e = EWrite t o f v -> forall k t', ~ ret_at tr k t' o) -> P_wret (tr ++ [e]).
Proof.
  intros HP He i k t t' o f v Hi Hk.
  apply nth_error_snoc in Hi. apply ret_at_snoc in Hk.
  destruct Hi as [[Hil Hi]|[Hil Hi]]; destruct Hk as [[Hkl Hk]|[Hkl Hk]].
  - eapply HP; eassumption.
  - lia.
  - exfalso. eapply (He _ _ _ _ (eq_sym Hi)). exact Hk.
  - exfalso. subst e. destruct Hk as [Hk|Hk]; discriminate Hk.
Qed.

(* ---- per-thread component of the invariant ---- *)
Definition thr_ok (once : oid_ -> ostate) (tr : list event) (t : tid) (p : list action) : Prop :=
  exists did, reads_guarded spec did p = true /\
    forall o, In o did -> once o = ODone /\ exists k, ret_at tr k t o.

Lemma thr_ok_mono0 once once' tr t p :
  (forall o, once o = ODone -> once' o = ODone) -> thr_ok once tr t p -> thr_ok once' tr t p.
Proof.
  intros Hm [did [Hg Hd]]. exists did. split; [exact Hg|]. intros o Hin.
  destruct (Hd _ Hin) as [H1 H2]. split; [apply Hm; exact H1|exact H2].
Qed.

Lemma thr_ok_mono once once' tr e t p :
  (forall o, once o = ODone -> once' o = ODone) -> thr_ok once tr t p -> thr_ok once' (tr ++ [e]) t p.
Proof.
  intros Hm [did [Hg Hd]]. exists did. split; [exact Hg|]. intros o Hin.
  destruct (Hd _ Hin) as [H1 [k H2]]. split; [apply Hm; exact H1|]. exists k. apply ret_at_old; exact H2.
Qed.

Lemma thr_ok_do once once' tr e t o p :
  (forall o1, once o1 = ODone -> once' o1 = ODone) -> once' o = ODone ->
  e = EDoExit t o \/ e = EDoSkip t o ->
  thr_ok once tr t (ADo o :: p) -> thr_ok once' (tr ++ [e]) t p.
Proof.
  intros Hm Ho He [did [Hg Hd]]. exists (o :: did). split; [exact Hg|]. intros o1 [<-|Hin].
  - split; [exact Ho|]. exists (length tr). apply ret_at_last; exact He.
  - destruct (Hd _ Hin) as [H1 [k H2]]. split; [apply Hm; exact H1|]. exists k. apply ret_at_old; exact H2.
Qed.

Lemma guarded_read did f :
  existsb (fun o => existsb (fun w => Nat.eqb (fst w) f) (o_writes (spec o))) did = true ->
  exists o w, In o did /\ In (f, w) (o_writes (spec o)).
Proof.
  intros H. apply existsb_exists in H. destruct H as [o [Hin H]].
  apply existsb_exists in H. destruct H as [[f' w] [Hw Hf]]. cbn [fst] in Hf.
  apply Nat.eqb_eq in Hf. subst f'. exists o, w. split; assumption.
Qed.

(* ---- the global invariant ---- *)
Record Inv (s : cstate) : Prop := {
  inv_run : forall o t todo, c_once s o = ORunning t todo ->
      (exists done, o_writes (spec o) = done ++ todo /\
                    forall f v, In (f, v) done -> c_mem s f = Some (init_val f))
      /\ (exists rest, c_threads s t = ADo o :: rest);
  inv_done : forall o, c_once s o = ODone ->
      forall f v, In (f, v) (o_writes (spec o)) -> c_mem s f = Some (init_val f);
  inv_thr : forall t, thr_ok (c_once s) (c_trace s) t (c_threads s t);
  inv_ret_done : forall k t o, ret_at (c_trace s) k t o -> c_once s o = ODone;
  inv_reads : P_reads (c_trace s);
  inv_rret : P_rret (c_trace s);
  inv_once : P_once (c_trace s);
  inv_wspec : P_wspec (c_trace s);
  inv_wret : P_wret (c_trace s)
}.

Lemma inv_init : Inv (init_state progs).
Proof.
  constructor; cbn [init_state c_once c_mem c_threads c_trace].
  - intros o t todo H. discriminate H.
  - intros o H. discriminate H.
  - intros t. exists []. split; [apply guarded|]. intros o [].
  - intros k t o H. exfalso. eapply ret_at_nil; exact H.
  - intros t f v [].
  - intros j t f v H. destruct j; discriminate H.
  - intros i j t t' o H. destruct i; discriminate H.
  - intros i t o f v H. destruct i; discriminate H.
  - intros i k t t' o f v H. destruct i; discriminate H.
Qed.

(* a later caller skips *)
Lemma step_skip s t o rest : Inv s -> c_threads s t = ADo o :: rest -> c_once s o = ODone ->
  Inv {| c_once := c_once s; c_mem := c_mem s; c_threads := upd_fun (c_threads s) t rest;
         c_trace := c_trace s ++ [EDoSkip t o] |}.
Proof.
  intros [Irun Idone Ithr Iretd Ireads Irret Ionce Iwspec Iwret] Hthr Ho.
  constructor; cbn [c_once c_mem c_threads c_trace].
  - intros o1 t1 todo H1. destruct (Irun _ _ _ H1) as [Hd [rest1 Hr]]. split; [exact Hd|].
    exists rest1. rewrite upd_other; [exact Hr|]. intros ->. rewrite Hthr in Hr.
    inversion Hr; subst. congruence.
  - exact Idone.
  - intros t1. destruct (Nat.eq_dec t1 t) as [->|Hne].
    + rewrite upd_same. eapply thr_ok_do; [intros o1 H1; exact H1|exact Ho|right; reflexivity|].
      rewrite <- Hthr. apply Ithr.
    + rewrite upd_other by exact Hne. apply thr_ok_mono with (once := c_once s); [auto|apply Ithr].
  - intros k t1 o1 H. apply ret_at_snoc in H. destruct H as [[_ H]|[_ H]].
    + eapply Iretd; exact H.
    + destruct H as [H|H]; inversion H; subst. exact Ho.
  - apply reads_snoc; [exact Ireads|]. intros t1 f v H; discriminate H.
  - apply rret_snoc; [exact Irret|]. intros t1 f v H; discriminate H.
  - apply once_snoc; [exact Ionce|]. intros t1 o1 H; discriminate H.
  - apply wspec_snoc; [exact Iwspec|]. intros t1 o1 f v H; discriminate H.
  - apply wret_snoc; [exact Iwret|]. intros t1 o1 f v H; discriminate H.
Qed.

(* the first caller enters the closure *)
Lemma step_start s t o rest : Inv s -> c_threads s t = ADo o :: rest -> c_once s o = ONotStarted ->
  Inv {| c_once := upd_fun (c_once s) o (ORunning t (o_writes (spec o))); c_mem := c_mem s;
         c_threads := c_threads s; c_trace := c_trace s |}.
Proof.
  intros [Irun Idone Ithr Iretd Ireads Irret Ionce Iwspec Iwret] Hthr Ho.
  assert (Hm : forall o1, c_once s o1 = ODone ->
                 upd_fun (c_once s) o (ORunning t (o_writes (spec o))) o1 = ODone).
  { intros o1 H1. rewrite upd_other; [exact H1|]. intros ->. congruence. }
  constructor; cbn [c_once c_mem c_threads c_trace]; try assumption.
  - intros o1 t1 todo H1. destruct (Nat.eq_dec o1 o) as [->|Hne].
    + rewrite upd_same in H1. inversion H1; subst. split.
      * exists []. split; [reflexivity|]. intros f v [].
      * exists rest. exact Hthr.
    + rewrite upd_other in H1 by exact Hne. apply Irun with (todo := todo). exact H1.
  - intros o1 H1. destruct (Nat.eq_dec o1 o) as [->|Hne].
    + rewrite upd_same in H1. discriminate H1.
    + rewrite upd_other in H1 by exact Hne. apply Idone. exact H1.
  - intros t1. eapply thr_ok_mono0; [exact Hm|apply Ithr].
  - intros k t1 o1 H. apply Hm. eapply Iretd; exact H.
Qed.

(* the initialising thread performs one write *)
Lemma step_write s t o rest f v todo : Inv s -> c_threads s t = ADo o :: rest ->
  c_once s o = ORunning t ((f, v) :: todo) ->
  Inv {| c_once := upd_fun (c_once s) o (ORunning t todo); c_mem := upd_fun (c_mem s) f (Some v);
         c_threads := c_threads s; c_trace := c_trace s ++ [EWrite t o f v] |}.
Proof.
  intros [Irun Idone Ithr Iretd Ireads Irret Ionce Iwspec Iwret] Hthr Ho.
  destruct (Irun _ _ _ Ho) as [[done [Hsplit Hdone]] _].
  assert (Hin : In (f, v) (o_writes (spec o))).
  { rewrite Hsplit. apply in_or_app. right. left. reflexivity. }
  assert (Hv : v = init_val f) by (eapply spec_functional; exact Hin).
  assert (Hmem : forall g, c_mem s g = Some (init_val g) ->
                   upd_fun (c_mem s) f (Some v) g = Some (init_val g)).
  { intros g Hg. unfold upd_fun. destruct (Nat.eqb_spec g f) as [->|_]; [congruence|exact Hg]. }
  assert (Hm : forall o1, c_once s o1 = ODone -> upd_fun (c_once s) o (ORunning t todo) o1 = ODone).
  { intros o1 H1. rewrite upd_other; [exact H1|]. intros ->. congruence. }
  constructor; cbn [c_once c_mem c_threads c_trace].
  - intros o1 t1 todo1 H1. destruct (Nat.eq_dec o1 o) as [->|Hne].
    + rewrite upd_same in H1. inversion H1; subst t1 todo1. split.
      * exists (done ++ [(f, v)]). split.
        -- rewrite Hsplit. rewrite <- app_assoc. reflexivity.
        -- intros g w Hg. apply in_app_or in Hg. destruct Hg as [Hg|[Hg|[]]].
           ++ apply Hmem. eapply Hdone; exact Hg.
           ++ inversion Hg; subst g w. rewrite upd_same. congruence.
      * exists rest. exact Hthr.
    + rewrite upd_other in H1 by exact Hne. destruct (Irun _ _ _ H1) as [[done1 [Hs1 Hd1]] Hr1]. split.
      * exists done1. split; [exact Hs1|]. intros g w Hg. apply Hmem. eapply Hd1; exact Hg.
      * exact Hr1.
  - intros o1 H1 g w Hg. destruct (Nat.eq_dec o1 o) as [->|Hne].
    + rewrite upd_same in H1. discriminate H1.
    + rewrite upd_other in H1 by exact Hne. apply Hmem. eapply Idone; eassumption.
  - intros t1. eapply thr_ok_mono; [exact Hm|apply Ithr].
  - intros k t1 o1 H. apply ret_at_snoc in H. destruct H as [[_ H]|[_ H]].
    + apply Hm. eapply Iretd; exact H.
    + destruct H as [H|H]; discriminate H.
  - apply reads_snoc; [exact Ireads|]. intros t1 g w H; discriminate H.
  - apply rret_snoc; [exact Irret|]. intros t1 g w H; discriminate H.
  - apply once_snoc; [exact Ionce|]. intros t1 o1 H; discriminate H.
  - apply wspec_snoc; [exact Iwspec|]. intros t1 o1 g w H. inversion H; subst. exact Hin.
  - apply wret_snoc; [exact Iwret|]. intros t1 o1 g w H k t2 Hk. inversion H; subst.
    apply Iretd in Hk. congruence.
Qed.

(* the initialising thread leaves Do *)
Lemma step_exit s t o rest : Inv s -> c_threads s t = ADo o :: rest -> c_once s o = ORunning t [] ->
  Inv {| c_once := upd_fun (c_once s) o ODone; c_mem := c_mem s;
         c_threads := upd_fun (c_threads s) t rest; c_trace := c_trace s ++ [EDoExit t o] |}.
Proof.
  intros [Irun Idone Ithr Iretd Ireads Irret Ionce Iwspec Iwret] Hthr Ho.
  assert (Hm : forall o1, c_once s o1 = ODone -> upd_fun (c_once s) o ODone o1 = ODone).
  { intros o1 H1. unfold upd_fun. destruct (Nat.eqb o1 o); [reflexivity|exact H1]. }
  constructor; cbn [c_once c_mem c_threads c_trace].
  - intros o1 t1 todo H1. destruct (Nat.eq_dec o1 o) as [->|Hne].
    + rewrite upd_same in H1. discriminate H1.
    + rewrite upd_other in H1 by exact Hne. destruct (Irun _ _ _ H1) as [Hd [rest1 Hr]].
      split; [exact Hd|]. exists rest1. rewrite upd_other; [exact Hr|]. intros ->.
      rewrite Hthr in Hr. inversion Hr; subst. congruence.
  - intros o1 H1 g w Hg. destruct (Nat.eq_dec o1 o) as [->|Hne].
    + destruct (Irun _ _ _ Ho) as [[done [Hsplit Hdone]] _]. rewrite app_nil_r in Hsplit.
      eapply Hdone. rewrite <- Hsplit. exact Hg.
    + rewrite upd_other in H1 by exact Hne. eapply Idone; eassumption.
  - intros t1. destruct (Nat.eq_dec t1 t) as [->|Hne].
    + rewrite upd_same. eapply thr_ok_do; [exact Hm|apply upd_same|left; reflexivity|].
      rewrite <- Hthr. apply Ithr.
    + rewrite upd_other by exact Hne. eapply thr_ok_mono; [exact Hm|apply Ithr].
  - intros k t1 o1 H. apply ret_at_snoc in H. destruct H as [[_ H]|[_ H]].
    + apply Hm. eapply Iretd; exact H.
    + destruct H as [H|H]; inversion H; subst. apply upd_same.
  - apply reads_snoc; [exact Ireads|]. intros t1 g w H; discriminate H.
  - apply rret_snoc; [exact Irret|]. intros t1 g w H; discriminate H.
  - apply once_snoc; [exact Ionce|]. intros t1 o1 H i t2 Hi. inversion H; subst.
    assert (Hd : c_once s o1 = ODone) by (eapply Iretd; left; exact Hi). congruence.
  - apply wspec_snoc; [exact Iwspec|]. intros t1 o1 g w H; discriminate H.
  - apply wret_snoc; [exact Iwret|]. intros t1 o1 g w H; discriminate H.
Qed.

(* a read *)
Lemma step_read s t f rest : Inv s -> c_threads s t = ARead f :: rest ->
  Inv {| c_once := c_once s; c_mem := c_mem s; c_threads := upd_fun (c_threads s) t rest;
         c_trace := c_trace s ++ [ERead t f (c_mem s f)] |}.
Proof.
  intros [Irun Idone Ithr Iretd Ireads Irret Ionce Iwspec Iwret] Hthr.
  destruct (Ithr t) as [did [Hg Hd]]. rewrite Hthr in Hg. cbn [reads_guarded] in Hg.
  apply andb_true_iff in Hg. destruct Hg as [Hg1 Hg2].
  apply guarded_read in Hg1. destruct Hg1 as [o [w [Hino Hw]]].
  destruct (Hd _ Hino) as [Hod [k Hk]].
  constructor; cbn [c_once c_mem c_threads c_trace].
  - intros o1 t1 todo H1. destruct (Irun _ _ _ H1) as [Hd1 [rest1 Hr]]. split; [exact Hd1|].
    exists rest1. rewrite upd_other; [exact Hr|]. intros ->. rewrite Hthr in Hr. discriminate Hr.
  - exact Idone.
  - intros t1. destruct (Nat.eq_dec t1 t) as [->|Hne].
    + rewrite upd_same. apply thr_ok_mono with (once := c_once s); [auto|].
      exists did. split; [exact Hg2|exact Hd].
    + rewrite upd_other by exact Hne. apply thr_ok_mono with (once := c_once s); [auto|apply Ithr].
  - intros k1 t1 o1 H. apply ret_at_snoc in H. destruct H as [[_ H]|[_ H]].
    + eapply Iretd; exact H.
    + destruct H as [H|H]; discriminate H.
  - apply reads_snoc; [exact Ireads|]. intros t1 g v H. inversion H; subst.
    eapply Idone; eassumption.
  - apply rret_snoc; [exact Irret|]. intros t1 g v H. inversion H; subst.
    exists k, o. split; [exists w; exact Hw|exact Hk].
  - apply once_snoc; [exact Ionce|]. intros t1 o1 H; discriminate H.
  - apply wspec_snoc; [exact Iwspec|]. intros t1 o1 g v H; discriminate H.
  - apply wret_snoc; [exact Iwret|]. intros t1 o1 g v H; discriminate H.
Qed.

Lemma inv_step s t s' : Inv s -> cstep spec s t = Some s' -> Inv s'.
Proof.
  intros HI H. unfold cstep in H.
  destruct (c_threads s t) as [|[o|f] rest] eqn:Hthr; [discriminate H| |].
  - destruct (c_once s o) as [|t1 todo|] eqn:Ho.
    + inversion H; subst s'. eapply step_start; eassumption.
    + destruct (Nat.eqb_spec t t1) as [E|E]; [subst t1|discriminate H].
      destruct todo as [|[f v] todo'].
      * inversion H; subst s'. eapply step_exit; eassumption.
      * inversion H; subst s'. eapply step_write; eassumption.
    + inversion H; subst s'. eapply step_skip; eassumption.
  - inversion H; subst s'. eapply step_read; eassumption.
Qed.

Lemma inv_crun sched : forall s, Inv s -> Inv (crun spec s sched).
Proof.
  induction sched as [|t sched IH]; intros s HI.
  - exact HI.
  - cbn [crun]. apply IH. destruct (cstep spec s t) as [s'|] eqn:E.
    + eapply inv_step; eassumption.
    + exact HI.
Qed.

Lemma reachable_inv s : reachable s -> Inv s.
Proof. intros [sched ->]. apply inv_crun. apply inv_init. Qed.

(* no deadlock: as long as some thread has work left, some thread can step *)
Theorem no_deadlock s t : reachable s -> c_threads s t <> [] -> exists t', cstep spec s t' <> None.
Proof.
  intros HR Hne. apply reachable_inv in HR.
  destruct (c_threads s t) as [|[o|f] rest] eqn:Hthr; [contradiction| |].
  - destruct (c_once s o) as [|t1 todo|] eqn:Ho.
    + exists t. unfold cstep. rewrite Hthr, Ho. discriminate.
    + destruct (inv_run s HR _ _ _ Ho) as [_ [rest1 Hr]].
      exists t1. unfold cstep. rewrite Hr, Ho, Nat.eqb_refl.
      destruct todo as [|[f v] todo']; discriminate.
    + exists t. unfold cstep. rewrite Hthr, Ho. discriminate.
  - exists t. unfold cstep. rewrite Hthr. discriminate.
Qed.

(* every read of a frozen location returns its initialised value *)
Theorem reads_see_init s t f v : reachable s -> In (ERead t f v) (c_trace s) -> v = Some (init_val f).
Proof. intros HR. apply reachable_inv in HR. apply (inv_reads s HR). Qed.

(* every write made by the closure of o precedes every return from o.Do (no extra hypothesis) *)
Theorem writes_before_do_return s i k t o f v t' : reachable s ->
  nth_error (c_trace s) i = Some (EWrite t o f v) ->
  nth_error (c_trace s) k = Some (EDoExit t' o) \/ nth_error (c_trace s) k = Some (EDoSkip t' o) ->
  i < k.
Proof. intros HR. apply reachable_inv in HR. apply (inv_wret s HR). Qed.

(* every write event is a write of the closure of its Once *)
Theorem write_in_spec s i t o f v : reachable s ->
  nth_error (c_trace s) i = Some (EWrite t o f v) -> In (f, v) (o_writes (spec o)).
Proof. intros HR. apply reachable_inv in HR. apply (inv_wspec s HR). Qed.

(* ... and the reading thread has returned from the Do of an Once initialising that location
   (EDoExit by itself or EDoSkip after the initialiser's EDoExit) before it reads *)
Theorem read_after_do_return s j t f v : reachable s ->
  nth_error (c_trace s) j = Some (ERead t f v) ->
  exists k o, k < j /\ (exists w, In (f, w) (o_writes (spec o))) /\
              (nth_error (c_trace s) k = Some (EDoExit t o) \/ nth_error (c_trace s) k = Some (EDoSkip t o)).
Proof. intros HR. apply reachable_inv in HR. apply (inv_rret s HR). Qed.

(* happens-before: every write of a location precedes, in the trace, every read of it
   (needs unique_writer, see the note at the top of the file) *)
Theorem writes_before_reads s i j t o f v t' v' : reachable s ->
  nth_error (c_trace s) i = Some (EWrite t o f v) -> nth_error (c_trace s) j = Some (ERead t' f v') -> i < j.
Proof.
  intros HR Hi Hj.
  destruct (read_after_do_return _ _ _ _ _ HR Hj) as [k [o' [Hk [[w Hw] Hr]]]].
  assert (Hin : In (f, v) (o_writes (spec o))) by (eapply write_in_spec; eassumption).
  assert (E : o = o') by (eapply unique_writer; eassumption). subst o'.
  assert (Hik : i < k) by (eapply writes_before_do_return; eassumption).
  lia.
Qed.

(* a closure runs at most once: at most one EDoExit per Once *)
Theorem once_runs_once s i j t t' o : reachable s ->
  nth_error (c_trace s) i = Some (EDoExit t o) -> nth_error (c_trace s) j = Some (EDoExit t' o) -> i = j.
Proof. intros HR. apply reachable_inv in HR. apply (inv_once s HR). Qed.
End ConcP.
