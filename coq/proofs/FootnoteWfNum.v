(* C16 for the Footnote parser model, part 5: the numbering clause for parse_treeF, from what the
   block phase guarantees (FootnoteWfDefs.BlkFinal, a Section hypothesis here; it is proved in
   proofs/FootnoteWfBlk.v). *)
Require Import GM.model.Base GM.model.Util GM.model.Reader GM.model.ListItem GM.model.Regex GM.model.HtmlWriter GM.model.Html GM.model.HtmlSpec
               GM.model.BlockParse GM.model.InlineParse GM.model.FootnoteX
               GM.model.FootnoteParseBlock GM.model.FootnoteParseInline GM.model.FootnoteParse.
Require Import GM.proofs.ParseInv GM.proofs.ParseCompose GM.proofs.ParseBlocksRangeA GM.proofs.ParseBlocksRangeB
               GM.proofs.FootnoteProofs GM.proofs.FootnoteConservativeTree
               GM.proofs.FootnoteWfDefs GM.proofs.FootnoteWfFs GM.proofs.FootnoteWfSort GM.proofs.FootnoteWfHeap GM.proofs.FootnoteWfXf
               GM.proofs.FootnoteWfTree.
From Coq Require Import List ZArith Lia Bool Permutation Sorted.
Import ListNotations.
Open Scope Z_scope.

Definition fw_numbering_ok (t : tree) : Prop :=
  fw_items t = map Z.of_nat (seq 1 (length (fw_items t))) /\
  Forall (fun i => In i (fw_items t)) (fw_links t).

(* a sorted list without repetition that holds exactly 1 .. count *)
Lemma sorted_is_seq l defs count : Inv defs count -> StronglySorted Z.le l -> Permutation l (idxs defs) ->
  l = map Z.of_nat (seq 1 (Z.to_nat count)).
Proof.
  intros [Hc [Hnd Hin]] Hs Hp. apply sorted_lt_ext.
  - apply sorted_le_lt; [exact Hs|]. apply (Permutation_NoDup (Permutation_sym Hp) Hnd).
  - apply zseq_sorted.
  - intros x. rewrite in_zseq. split; intros Hx.
    + apply (Permutation_in _ Hp) in Hx. apply Hin in Hx. lia.
    + apply (Permutation_in _ (Permutation_sym Hp)). apply Hin. lia.
Qed.

Lemma is_fnlist_inv n : is_fnlist_node n = true -> bk n = BBlockquote /\ b_i1 n = 2.
Proof.
  unfold is_fnlist_node, fn_list. intros H. apply andb_true_iff in H. destruct H as [H1 H2]. apply Z.eqb_eq in H2.
  split; [destruct (bk n); try discriminate; reflexivity|exact H2].
Qed.
Lemma is_footnote_inv n : is_footnote_node n = true -> bk n = BBlockquote /\ b_i1 n = 1.
Proof.
  unfold is_footnote_node, fn_footnote. intros H. apply andb_true_iff in H. destruct H as [H1 H2]. apply Z.eqb_eq in H2.
  split; [destruct (bk n); try discriminate; reflexivity|exact H2].
Qed.

(* the definitions the inline phase starts with have no number *)
Lemma initial_defs_spec src h lst defs : fn_nodes_ok h lst -> fn_list_ok h lst -> initial_defs src h lst = Ok defs ->
  (lst = None /\ defs = None) \/ (exists l ds, lst = Some l /\ defs = Some ds /\ idxs ds = []).
Proof.
  intros Hn Hl H. unfold initial_defs in H. destruct lst as [l|]; [|injection H as <-; left; auto].
  right. fw_bind H ln Hln. apply hget_ok in Hln. fw_bind H ds Hds. injection H as <-. exists l, ds. split; [reflexivity|]. split; [reflexivity|].
  destruct (Hl l eq_refl) as (ln' & El & _ & _ & Hch). assert (ln' = ln) by congruence. subst ln'.
  clear Hln El. revert ds Hds. induction (bch ln) as [|c cs IH]; intros ds Hds; cbn [map_res] in Hds.
  - injection Hds as <-. reflexivity.
  - fw_bind Hds d Hd. fw_bind Hds r Hr. injection Hds as <-. fw_bind Hd n En. apply hget_ok in En.
    destruct (Hch c (or_introl eq_refl)) as [cn [Ecn Hfc]]. assert (cn = n) by congruence. subst cn.
    destruct (is_footnote_inv _ Hfc) as [Kc Ic].
    destruct (Hn c n En Kc) as [H0|[[_ [H2 _]]|[H3 _]]]; try lia.
    destruct (b_seg n) as [sg|]; [|discriminate]. fw_bind Hd v Hv. injection Hd as <-.
    rewrite idxs_cons. cbn [d_index]. rewrite H2. change (0 <=? -1) with false. cbv iota.
    apply IH; [intros c' Hc'; apply Hch; right; exact Hc'|exact Hr].
Qed.

Section Num.
Variable space_table punct_table : list N.
Variable norm : bytes -> bytes.
Variable re_t1o re_t1c re_t2 re_t3 re_t4 re_t5 re_t6 re_t7 : re.
Variable allowed_tags : list bytes.
Variable url_table email_table : list N.
Variable re_email_domain re_open_tag re_close_tag : re.
Variable punct_rune space_rune : N -> bool.
Notation PBF := (parse_blocksF space_table punct_table norm re_t1o re_t1c re_t2 re_t3 re_t4 re_t5 re_t6 re_t7 allowed_tags).
Notation ICF := (inline_childrenF space_table punct_table norm url_table email_table re_email_domain re_open_tag re_close_tag
                                  punct_rune space_rune).
Notation PTF := (parse_treeF space_table punct_table norm re_t1o re_t1c re_t2 re_t3 re_t4 re_t5 re_t6 re_t7 allowed_tags
                             url_table email_table re_email_domain re_open_tag re_close_tag punct_rune space_rune).
Variable src : bytes.
Hypothesis blk_final : forall x, PBF src = Ok x -> BlkFinal space_table src x.

(* the invariant of the walk over the blocks *)
Definition entry_ok (links : list Z) (e : nat * list tree) : Prop :=
  Forall (fun t => Forall (link_ok links) (link_nodes t) /\ all_kinds not_fn_block t = true) (snd e).
Definition WI (fs0 fs : fstate) (acc : list (nat * list tree)) : Prop :=
  (FSI fs0 -> FSI fs) /\ fs_le fs0 fs /\ Forall (entry_ok (fs_links fs)) acc.

Lemma entry_ok_le a b e : fs_le a b -> entry_ok (fs_links a) e -> entry_ok (fs_links b) e.
Proof.
  intros (_ & _ & [more Hm]) He. unfold entry_ok in *. eapply Forall_impl; [|exact He]. cbv beta.
  intros t [H1 H2]. split; [|exact H2]. eapply Forall_impl; [|exact H1]. intros q Hq. rewrite Hm. apply link_ok_app. exact Hq.
Qed.

Lemma walk_WI refs h fs0 fuel r : heapS space_table src h ->
  walk_blocks (fun fs lines => ICF refs fs src lines) fuel h 0%nat fs0 [] = Ok r -> WI fs0 (fst r) (snd r).
Proof.
  intros HSh H.
  apply (walk_blocks_inv space_table src (fun fs lines => ICF refs fs src lines) h (WI fs0) HSh) with (fuel := fuel) (i := 0%nat) (fs := fs0) (acc := []).
  - intros fs acc i n y (W1 & W2 & W3) _ _ _ Hy. destruct y as [ts fs']. cbn [fst snd].
    destruct (inline_childrenF_fs _ _ _ _ _ _ _ _ _ _ _ _ _ _ _ _ Hy) as [[S1 S2] S3].
    split; [auto|]. split; [eapply fs_le_trans; eassumption|].
    apply Forall_app. split.
    + eapply Forall_impl; [|exact W3]. intros e He. eapply entry_ok_le; eassumption.
    + constructor; [|constructor]. exact S3.
  - left. reflexivity.
  - split; [auto|]. split; [apply fs_le_refl|constructor].
  - exact H.
Qed.

Theorem parse_treeF_numbering t : PTF src = Ok t -> fw_numbering_ok t.
Proof.
  intros H. unfold parse_treeF in H. fw_bind H x Hx. cbv zeta in H.
  destruct (blk_final x Hx) as (HS1 & HJ & _ & Hnodes & Hlist).
  set (h := s_h (bf_s x)) in *.
  fw_bind H defs0 Hdefs. fw_bind H w Hw. destruct w as [fs kids]. fw_bind H p Hp.
  set (fs0 := {| fs_defs := defs0; fs_count := 0; fs_links := [] |}) in *.
  pose proof (walk_WI _ _ _ _ _ HS1 Hw) as (W1 & W2 & W3). cbn [fst snd] in W1, W2, W3.
  assert (HSh : HS space_table src h) by (split; assumption).
  destruct (hs_root _ _ _ HS1) as [r0 [Er0 [Kr0 Pr0]]].
  (* the link indices of the inline trees *)
  set (links := fs_links fs) in *.
  set (fl := number_links links [] links).
  set (kids0 := map (fun e => (fst e, map (renumber fl) (snd e))) kids).
  assert (Hk0links : forall i ts t1, In (i, ts) kids0 -> In t1 ts -> Forall (fun z => In z links) (fw_links t1) /\ all_kinds no_list t1 = true).
  { intros i ts t1 Hin Ht. unfold kids0 in Hin. apply in_map_iff in Hin. destruct Hin as [[j ts0] [E Hin]]. cbn [fst snd] in E.
    injection E as <- <-. apply in_map_iff in Ht. destruct Ht as [t0 [<- Ht0]].
    rewrite Forall_forall in W3. specialize (W3 _ Hin). unfold entry_ok in W3. cbn [snd] in W3. rewrite Forall_forall in W3.
    destruct (W3 t0 Ht0) as [L1 L2]. split.
    - unfold fl. rewrite (renumber_links links t0 L1), fw_links_link_nodes. apply Forall_forall. intros z Hz.
      apply in_map_iff in Hz. destruct Hz as [q [<- Hq]]. rewrite Forall_forall in L1. destruct (L1 q Hq) as [_ Hn].
      eapply nth_error_In. exact Hn.
    - apply renumber_kinds; [reflexivity|]. eapply all_kinds_impl; [|exact L2]. intros k Hk. destruct k; try discriminate; reflexivity. }
  assert (Hleaf : forall k, is_backlink k = true -> Forall (fun z => In z links) (fw_links (leaf k)) /\ all_kinds no_list (leaf k) = true).
  { intros k Hk. destruct k; try discriminate. split; [constructor|reflexivity]. }
  destruct (initial_defs_spec _ _ _ _ Hnodes Hlist Hdefs) as [[Elst ->]|(l & ds & Elst & -> & Hidx)].
  - (* no FootnoteList *)
    rewrite Elst in *. apply ast_transform_none in Hp. subst p.
    assert (Hfs : FSI fs).
    { apply W1. unfold FSI, fs0. cbn. auto. }
    assert (Hnone : fs_defs fs = None) by (destruct W2 as [[W2 _] _]; apply W2; reflexivity).
    unfold FSI in Hfs. rewrite Hnone in Hfs. destruct Hfs as [_ Hl0]. fold links in Hl0.
    set (p0 := {| fp_h := h; fp_inl := kids; fp_back := [] |}) in *.
    assert (Hbk0 : forall i k, lookup_id (fp_back p0) i = Some k -> is_backlink k = true) by (intros i k E; cbn in E; discriminate).
    assert (Hlk : Forall (fun z => In z links) (fw_links t)).
    { apply (to_treeF_links src p0 Hbk0 (fun z => In z links)) with (fuel := S (length (fp_h p0))) (i := 0%nat); [|exact H].
      cbn [p0 fp_inl]. intros i ts t0 Hin Ht0. rewrite Forall_forall in W3. specialize (W3 _ Hin). unfold entry_ok in W3. cbn [snd] in W3.
      rewrite Forall_forall in W3. destruct (W3 t0 Ht0) as [L1 _]. rewrite fw_links_link_nodes. apply Forall_forall. intros z Hz.
      apply in_map_iff in Hz. destruct Hz as [q [<- Hq]]. rewrite Forall_forall in L1. destruct (L1 q Hq) as [_ Hn].
      eapply nth_error_In. exact Hn. }
    assert (Hr : exists n0, nth_error (fp_h p0) 0 = Some n0 /\ fw_items t = if in_dec Nat.eq_dec (length h) (bch n0) then @nil Z else []).
    { apply (to_treeF_items_root space_table src p0 HSh Hbk0 (length h)) with (fuel := S (length (fp_h p0))).
      - cbn [p0 fp_inl]. intros i ts t0 Hin Ht0. rewrite Forall_forall in W3. specialize (W3 _ Hin). unfold entry_ok in W3. cbn [snd] in W3.
        rewrite Forall_forall in W3. destruct (W3 t0 Ht0) as [_ L2]. eapply all_kinds_impl; [|exact L2]. intros k Hk. destruct k; try discriminate; reflexivity.
      - cbn [p0 fp_h]. intros j n _ Hj Hf. destruct (is_fnlist_inv _ Hf) as [K I]. destruct (Hnodes j n Hj K) as [H0|[[H1 _]|[_ H2]]]; try lia. discriminate.
      - cbn [p0 fp_h]. intros q nq Hq Hin. destruct (hs_K _ _ _ HS1 q nq _ Hq Hin) as [nc [Ec _]]. apply nth_some_lt in Ec. lia.
      - apply nth_some_lt in Er0. lia.
      - reflexivity.
      - intros f y Hy. destruct f as [|f]; [discriminate|]. rewrite to_treeF_unfold in Hy. cbn [p0 fp_back fp_h lookup_id] in Hy.
        unfold hget in Hy. assert (nth_error h (length h) = None) as E by (apply nth_error_None; lia). rewrite E in Hy. discriminate.
      - exact H. }
    destruct Hr as [n0 [E0 Hit]]. split.
    + rewrite Hit. destruct (in_dec Nat.eq_dec (length h) (bch n0)); reflexivity.
    + rewrite Hl0 in Hlk. apply Forall_forall. intros z Hz. rewrite Forall_forall in Hlk. destruct (Hlk z Hz).
  - (* with the FootnoteList l *)
    rewrite Elst in *.
    destruct (Hlist l eq_refl) as (ln & El & Hfl & _ & _).
    destruct (is_fnlist_inv _ Hfl) as [Kl Il].
    assert (Hl0 : l <> 0%nat) by (intros ->; congruence).
    assert (Hfs : FSI fs).
    { apply W1. unfold FSI, fs0. cbn [fs_defs fs_count fs_links]. split; [|intros i []].
      unfold Inv. rewrite Hidx. split; [lia|]. split; [constructor|]. intros i. split; [intros []|lia]. }
    destruct (fs_defs fs) as [defs|] eqn:Edefs.
    2:{ destruct W2 as [[_ W2] _]. specialize (W2 Edefs). discriminate. }
    unfold FSI in Hfs. rewrite Edefs in Hfs. destruct Hfs as [HInv Hlinks]. fold links in Hlinks.
    assert (Hflh : forall ln0, nth_error h l = Some ln0 -> is_fnlist_node ln0 = true) by (intros ln0 E; congruence).
    pose proof (ast_transform_some space_table src h l fs defs kids p HSh Edefs Hl0 Hflh Hp) as XP. fold links fl kids0 in XP.
    destruct XP as [X1 X2 X3 X4 X5 X6 (ln' & El' & Pl' & Sl & Pm & Hch & Hroot)].
    pose proof (sorted_is_seq _ _ _ HInv Sl Pm) as Hseq.
    pose proof (nth_some_lt _ _ _ El) as Hll. pose proof (nth_some_lt _ _ _ Er0) as H0l.
    assert (Hb0 : forall i, (i < length h)%nat -> lookup_id (fp_back p) i = None).
    { intros i Hi. destruct (lookup_id (fp_back p) i) as [k|] eqn:E; [|reflexivity]. destruct (X4 i k E) as [Hge _]. lia. }
    assert (Hbk : forall i k, lookup_id (fp_back p) i = Some k -> is_backlink k = true) by (intros i k E; apply (X4 i k E)).
    assert (Hinl : forall i ts t0, In (i, ts) (fp_inl p) -> In t0 ts -> Forall (fun z => In z links) (fw_links t0) /\ all_kinds no_list t0 = true).
    { intros i ts t0 Hin Ht0. destruct (X6 i ts t0 Hin Ht0) as [(j & ts0 & Hj & Hj2)|(k & Hk & ->)]; [eapply Hk0links; eassumption|apply Hleaf; exact Hk]. }
    assert (Hlk : Forall (fun z => In z links) (fw_links t)).
    { apply (to_treeF_links src p Hbk (fun z => In z links)) with (fuel := S (length (fp_h p))) (i := 0%nat); [|exact H].
      intros i ts t0 Hin Ht0. apply (Hinl i ts t0 Hin Ht0). }
    assert (Hfl' : is_fnlist_node ln' = true).
    { destruct (X3 l ln El) as (n' & En' & K' & I' & _). assert (n' = ln') by congruence. subst n'.
      unfold is_fnlist_node. rewrite K', I'. exact Hfl. }
    assert (HL : forall f y, to_treeF f src p l = Ok y -> fw_items y = map Z.of_nat (seq 1 (Z.to_nat (fs_count fs)))).
    { intros f y Hy. rewrite <- Hseq. apply (to_treeF_items_list src p l f ln' y El' Hfl' (Hb0 l Hll)); [|exact Hy].
      intros c Hc. destruct (Hch c Hc) as [Hc1 Hc2]. split; [apply Hb0; exact Hc1|exact Hc2]. }
    assert (Hr : exists n0, nth_error (fp_h p) 0 = Some n0 /\
               fw_items t = if in_dec Nat.eq_dec l (bch n0) then map Z.of_nat (seq 1 (Z.to_nat (fs_count fs))) else []).
    { apply (to_treeF_items_root space_table src p X1 Hbk l) with (fuel := S (length (fp_h p))).
      - intros i ts t0 Hin Ht0. apply (Hinl i ts t0 Hin Ht0).
      - intros j n Hbj Hj Hf. destruct (Nat.lt_ge_cases j (length h)) as [Hlt|Hge].
        + destruct (nth_error h j) as [nj|] eqn:Ej; [|apply nth_error_None in Ej; lia].
          destruct (X3 j nj Ej) as (n' & En' & K' & I' & _). assert (n' = n) by congruence. subst n'.
          destruct (is_fnlist_inv _ Hf) as [K I]. destruct (Hnodes j nj Ej ltac:(congruence)) as [H0|[[H1 _]|[_ H2]]]; try lia. congruence.
        + destruct (X5 j) as [k Hk]; [split; [exact Hge|eapply nth_some_lt; exact Hj]|]. congruence.
      - intros q nq Hq Hin. destruct (hs_K _ _ _ (proj1 X1) q nq l Hq Hin) as [nc [Ec Pc]]. assert (nc = ln') by congruence. subst nc.
        rewrite Pl' in Pc. destruct (fs_count fs <=? 0); [discriminate|]. congruence.
      - exact Hl0.
      - apply Hb0. exact H0l.
      - exact HL.
      - exact H. }
    destruct Hr as [n0 [E0 Hit]].
    unfold fw_numbering_ok. destruct (Z.leb_spec (fs_count fs) 0) as [Hc0|Hc0].
    + (* nothing was referenced *)
        assert (Hnl : links = []).
        { destruct links as [|z zs]; [reflexivity|]. specialize (Hlinks z (or_introl eq_refl)). lia. }
        assert (Hit0 : fw_items t = []).
        { rewrite Hit. destruct (in_dec Nat.eq_dec l (bch n0)) as [Hin|_]; [|reflexivity].
          destruct (hs_K _ _ _ (proj1 X1) 0%nat n0 l E0 Hin) as [nc [Ec Pc]]. assert (nc = ln') by congruence. subst nc. congruence. }
        rewrite Hit0. split; [reflexivity|]. rewrite Hnl in Hlk. apply Forall_forall. intros z Hz. rewrite Forall_forall in Hlk. destruct (Hlk z Hz).
    + destruct (Hroot Hc0) as [n0' [E0' Hin]]. assert (n0' = n0) by congruence. subst n0'.
        assert (Hit1 : fw_items t = map Z.of_nat (seq 1 (Z.to_nat (fs_count fs)))).
        { rewrite Hit. destruct (in_dec Nat.eq_dec l (bch n0)) as [_|Hn]; [reflexivity|contradiction]. }
        rewrite Hit1. split.
        * rewrite map_length, seq_length. reflexivity.
        * apply Forall_forall. intros z Hz. rewrite Forall_forall in Hlk. specialize (Hlinks z (Hlk z Hz)).
           apply in_zseq. lia.
Qed.

End Num.
