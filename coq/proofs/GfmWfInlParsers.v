(* Helper file for GfmWfInl.v: every inline parser of model/InlineParseX.v keeps the invariant
   "heap well formed (ParseInlineRangeHeap.ctx_ok) and reader inside the block
   (ParseInlineRangeReader.RI)": ports of process_link_label_ok, link_parse_ok, ip_parse_ok and
   try_inline_ok of proofs/ParseInlineRangeParsers.v to the generalised drivers, and the
   strikethrough, task check box and linkify parsers. *)
Require Import GM.model.Base GM.model.Util GM.model.Reader GM.model.ReaderSpec GM.model.Blocks GM.model.ListItem
               GM.model.LeafBlocks GM.model.CodeSpan GM.model.LinkDest GM.model.Regex GM.model.Delim GM.model.HtmlWriter
               GM.model.Html GM.model.HtmlSpec GM.model.BlockParse GM.model.InlineParse GM.model.InlineParseX.
Require Import GM.proofs.BReaderProofs GM.proofs.BlockRangeProofs GM.proofs.RegexProofs GM.proofs.ParseInv.
Require Import GM.proofs.ParseInlineRangeHeap GM.proofs.ParseInlineRangeReader GM.proofs.ParseInlineRangeParsers.
Require Import GM.proofs.GfmWfInlDelim.
From Coq Require Import ZArith Lia List Bool.
Import ListNotations.
Open Scope Z_scope.

(* ---------- the scans of the linkify parser ---------- *)
Lemma back_trail_range : forall fuel line i, -1 <= i -> -1 <= back_trail fuel line i <= i.
Proof.
  induction fuel as [|f IH]; intros line i Hi; cbn [back_trail]; [lia|].
  destruct ((0 <? i) && _) eqn:E; [|lia].
  apply andb_prop in E. destruct E as [E _]. apply Z.ltb_lt in E.
  specialize (IH line (i - 1) ltac:(lia)). lia.
Qed.

Lemma back_alnum_le : forall fuel line i, back_alnum fuel line i <= i.
Proof.
  induction fuel as [|f IH]; intros line i; cbn [back_alnum]; [lia|].
  destruct (_ && _); [|lia]. specialize (IH line (i - 1)). lia.
Qed.

Lemma paren_balance_le v : paren_balance v <= zlen v.
Proof.
  induction v as [|c r IH]; cbn [paren_balance]; [unfold zlen; cbn; lia|].
  rewrite zlen_cons. destruct (N.eqb c 41); [lia|]. destruct (N.eqb c 40); lia.
Qed.

Lemma zlen_zfirst_le {A} (n : Z) (l : list A) : 0 <= n -> zlen (zfirst n l) <= n.
Proof. intros Hn. unfold zlen, zfirst. rewrite firstn_length. lia. Qed.

Lemma at_ok_range (l : bytes) i c : at_ l i = Ok c -> 0 <= i < zlen l.
Proof. unfold at_. destruct (Z.leb_spec 0 i) as [H0|H0]; destruct (Z.ltb_spec i (zlen l)) as [H1|H1]; cbn; intros H; try discriminate; lia. Qed.

Lemma url_match_end_range line e e' : 0 <= e -> url_match_end line e = Ok e' -> 0 <= e' <= e.
Proof.
  unfold url_match_end. intros He H.
  destruct (at_ line (e - 1)) as [lc| |] eqn:Ea; cbn [bind] in H; try discriminate.
  apply at_ok_range in Ea.
  destruct (N.eqb lc 46); [inversion H; lia|].
  destruct (N.eqb lc 41).
  { pose proof (paren_balance_le (zfirst e line)) as Hp. pose proof (zlen_zfirst_le e line He) as Hz.
    destruct (0 <? paren_balance (zfirst e line)) eqn:E0; inversion H; [apply Z.ltb_lt in E0|]; lia. }
  destruct (N.eqb lc 59); [|inversion H; lia].
  pose proof (back_alnum_le (length line) line (e - 2)) as Hb.
  destruct (negb _); [|inversion H; lia].
  destruct (at_ line _) as [c| |] eqn:Ea2; cbn [bind] in H; try discriminate.
  apply at_ok_range in Ea2. destruct (N.eqb c 38); inversion H; lia.
Qed.

Section Parsers.
Variable xc : xcfg.
Variable space_table punct_table : list N.
Variable norm : bytes -> bytes.
Variable url_table email_table : list N.
Variable re_email_domain re_open_tag re_close_tag : re.
Variable punct_rune space_rune : N -> bool.
Variable re_task re_url re_www : re.
Variable refs : list (bytes * (bytes * option bytes)).
Variable src : bytes.
Variable lines : list seg.
Hypothesis Hsp32 : is_space space_table 32 = true.
Hypothesis Hsp10 : is_space space_table 10 = true.
Hypothesis Hsrc : bytes_ok src.
Hypothesis Hrefs : refs_ok refs.

(* the definitions and lemmas of ParseInlineRangeParsers.v at these tables *)
Local Notation RI := (ParseInlineRangeReader.RI src lines).
Local Notation st_ok := (ParseInlineRangeParsers.st_ok src lines).
Local Notation pstep := (ParseInlineRangeParsers.pstep src lines).
Local Notation cstep := (ParseInlineRangeParsers.cstep src).
Local Notation mid := (ParseInlineRangeParsers.mid src lines).
Local Notation lp_goal := (ParseInlineRangeParsers.lp_goal src lines).
Local Notation mid_fail := (ParseInlineRangeParsers.mid_fail src lines).
Local Notation open_label_ok := (ParseInlineRangeParsers.open_label_ok space_table norm src Hsp32 Hsp10).
Local Notation push_bottom_ok := (ParseInlineRangeParsers.push_bottom_ok src).
Local Notation pop_bottom_nstep := (ParseInlineRangeParsers.pop_bottom_nstep src).
Local Notation nstep_cstep := (ParseInlineRangeParsers.nstep_cstep src).
Local Notation parse_link_ri := (ParseInlineRangeParsers.parse_link_ri space_table punct_table src lines Hsrc).
Local Notation parse_reference_link_ri := (ParseInlineRangeParsers.parse_reference_link_ri space_table punct_table norm refs src lines Hrefs).
Local Notation lookup_ref_ok := (ParseInlineRangeParsers.lookup_ref_ok norm refs Hrefs).
Local Notation image_children_ok := (ParseInlineRangeParsers.image_children_ok src).
Local Notation none_step := (ParseInlineRangeParsers.none_step src lines).

Lemma process_link_labelX_ok s link last s' L : ctx_ok src [] (t_c s) L -> pok (i_h (t_c s)) link ->
  process_link_labelX s link last = Ok s' ->
  exists L', ctx_ok src [] (t_c s') L' /\ kle (i_h (t_c s)) (i_h (t_c s')) /\ t_r s' = t_r s.
Proof.
  unfold process_link_labelX. intros Hc Hl H. destruct (pop_bottom (t_c s)) as [c0 b] eqn:Epb.
  destruct (pop_bottom_fields _ _ _ Epb) as (F1 & F2 & F3).
  assert (Hc0 : ctx_ok src [] c0 L).
  { destruct Hc as [Hh Hd]. split; [rewrite F1; exact Hh|]. eapply dl_fields; eassumption. }
  destruct (process_delimitersX (ifuel s) c0 b) as [c1| |] eqn:Ep; cbn [bind] in H; try discriminate.
  destruct (process_delimitersX_ok src _ _ _ _ _ Ep Hc0) as (L1 & Hc1 & Hk1 & _).
  destruct (i_next (i_h c1) last) as [nx| |] eqn:En; cbn [bind] in H; try discriminate.
  destruct (move_children _ _ _ _ _) as [h| |] eqn:Em; cbn [bind] in H; try discriminate.
  inversion H; subst s'. cbn [t_c t_r ist_c]. rewrite F1 in Hk1.
  destruct (move_children_ok src _ _ _ _ _ _ Em (proj1 Hc1)) as (Hh2 & K2 & Hn2 & _).
  { intros x ->. apply i_next_in in En. destruct En as (p & _ & Hin). exists p. exact Hin. }
  { destruct (pok_kle _ _ _ Hk1 Hl) as (k & E & C). rewrite E. intros E'. inversion E'; subst k. cbn in C. congruence. }
  exists L1. split; [eapply ctx_neutral; eassumption|]. split; [|reflexivity].
  eapply kle_trans; [exact Hk1|apply kle_same; exact K2].
Qed.

Lemma link_parseX_ok s parent s' res L : st_ok s L ->
  link_parseX space_table punct_table norm refs s parent = Ok (s', res) -> lp_goal s s' res.
Proof.
  unfold link_parseX. intros [Hc Hr] H.
  destruct (b_peek_line (t_r s)) as [[[r1 line] segment]| |] eqn:Ep; cbn [bind] in H; try discriminate.
  destruct (ri_peek _ _ _ _ _ _ Hr Ep) as (-> & -> & Hline).
  destruct line as [[|c0 rest]|]; try discriminate.
  destruct Hline as (Hin & Hv & Hl & Hp0 & Hp1 & Hp2 & _).
  rewrite zlen_cons in Hl. pose proof (zlen_nonneg rest) as Hrest0.
  pose proof (ri_rest_ge _ _ _ Hr Hin) as Hrest.
  assert (Hnone : lp_goal s (ist_r s (t_r s)) None).
  { exists L. split; [split; assumption|]. split; [apply kle_refl|]. intros n E; discriminate. }
  cbn [ist_r ist_c t_c t_r] in H.
  destruct (N.eqb c0 33).
  { destruct rest as [|c1 rest']; [inversion H; subst; exact Hnone|].
    destruct (N.eqb c1 91); [|inversion H; subst; exact Hnone].
    rewrite zlen_cons in Hl. pose proof (zlen_nonneg rest').
    destruct (b_advance (t_r s) 1) as [r2| |] eqn:Ea; cbn [bind] in H; try discriminate.
    destruct (ri_advance src lines (t_r s) 1 r2 Hr) as (Hr2 & Hrest2 & _); [lia|exact Ea|].
    cbn [t_c t_r] in H.
    destruct (new_inode _ _) as [c1' st] eqn:En.
    destruct (push_label c1' st) as [c2| |] eqn:Epl; cbn [bind] in H; try discriminate.
    destruct (b_advance r2 1) as [r3| |] eqn:Ea3; cbn [bind] in H; try discriminate.
    inversion H; subst s' res. clear H.
    destruct (open_label_ok _ L _ _ _ _ _ _ (push_bottom_ok _ _ Hc) En Epl) as (Hc2 & Hk2 & Hnd); [lia|lia|].
    destruct (ri_advance src lines r2 1 r3 Hr2) as (Hr3 & _); [rewrite Hrest2; unfold zlen in *; rewrite skipn_length; lia|exact Ea3|].
    exists L. split; [split; assumption|]. split; [exact Hk2|]. intros n E. inversion E; subst n. exact Hnd. }
  destruct (N.eqb c0 91).
  { destruct (new_inode _ _) as [c1' st] eqn:En.
    destruct (push_label c1' st) as [c2| |] eqn:Epl; cbn [bind] in H; try discriminate.
    destruct (b_advance (t_r s) 1) as [r3| |] eqn:Ea3; cbn [bind] in H; try discriminate.
    inversion H; subst s' res. clear H.
    destruct (open_label_ok _ L _ _ _ _ _ _ (push_bottom_ok _ _ Hc) En Epl) as (Hc2 & Hk2 & Hnd); [lia|lia|].
    destruct (ri_advance1 _ _ _ _ Hr Hin Ea3) as [Hr3 _].
    exists L. split; [split; assumption|]. split; [exact Hk2|]. intros n E. inversion E; subst n. exact Hnd. }
  (* ']' *)
  destruct (i_labels (t_c s)) as [tlist|]; [|inversion H; subst; exact Hnone].
  destruct (lget (i_h (t_c s)) tlist) as [[[[[[a1 a2] a3] a4] a5] tl_last]| |]; cbn [bind] in H; try discriminate.
  destruct tl_last as [last|].
  2:{ inversion H; subst s' res. destruct (pop_bottom_nstep (t_c s) [] L Hc) as [Hc' Hk']. exists L.
      split; [split; assumption|]. split; [exact Hk'|]. intros n E; discriminate. }
  destruct (b_advance (t_r s) 1) as [r| |] eqn:Ea; cbn [bind] in H; try discriminate.
  destruct (ri_advance1 _ _ _ _ Hr Hin Ea) as [Hr1 _].
  destruct (remove_label (t_c s) last) as [c| |] eqn:Erl; cbn [bind] in H; try discriminate.
  pose proof (nstep_cstep _ _ (remove_label_nstep src _ _ _ Erl)) as C1.
  destruct (label_length (i_h c) tlist) as [len| |]; cbn [bind] in H; try discriminate.
  set (s1 := ist_c (ist_r (ist_r s (t_r s)) r) c) in *.
  assert (M1 : mid (t_c s) s1) by (split; [exact C1|exact Hr1]).
  destruct (998 <? len); [eapply mid_fail; eassumption|].
  destruct (lget (i_h c) last) as [[[[[[lsg is_image] b3] b4] b5] b6]| |]; cbn [bind] in H; try discriminate.
  destruct (iget (i_h c) last) as [ln| |]; cbn [bind] in H; try discriminate.
  destruct (match ipar ln with Some p3 => Ok p3 | None => Panic end) as [lpar| |]; cbn [bind] in H; try discriminate.
  destruct (iget (i_h c) lpar) as [lparn| |]; cbn [bind] in H; try discriminate.
  match type of H with (_ <- ?X ;; _) = _ => destruct X as [has_link| |] end; cbn [bind] in H; try discriminate.
  destruct has_link; [eapply mid_fail; eassumption|].
  destruct (b_peek r) as [pk| |] eqn:Epk; cbn [bind] in H; try discriminate.
  match type of H with (_ <- ?X ;; _) = _ => destruct X as [o3| |] eqn:Eo end; cbn [bind] in H; try discriminate.
  (* the outcome of the (...) / [...] part *)
  assert (Ho : match o3 with
               | inl sx => mid (t_c s) sx
               | inr (sx, lres) => mid (t_c s) sx /\ t_c sx = c /\ link_data_ok lres
               end).
  { destruct (N.eqb pk 40) eqn:E40.
    - apply N.eqb_eq in E40. subst pk.
      assert (Hin1 : b_in_range r = true) by (eapply ri_peek_in; [exact Hr1|exact Epk|discriminate]).
      destruct (parse_link space_table punct_table r) as [[r0 lres]| |] eqn:Epl; cbn [bind] in Eo; try discriminate.
      inversion Eo; subst o3. destruct (parse_link_ri _ _ _ Hr1 Hin1 Epl) as [Hr0 Hd].
      split; [split; [exact C1|exact Hr0]|]. split; [reflexivity|exact Hd].
    - destruct (N.eqb pk 91) eqn:E91.
      + apply N.eqb_eq in E91. subst pk.
        assert (Hin1 : b_in_range r = true) by (eapply ri_peek_in; [exact Hr1|exact Epk|discriminate]).
        destruct (parse_reference_link _ _ _ _ s1 last) as [[[r0 lres] hv]| |] eqn:Epl; cbn [bind] in Eo; try discriminate.
        destruct (parse_reference_link_ri s1 last _ _ _ Hr1 Hin1 Epl) as [Hr0 Hd].
        destruct lres as [dt|]; [|destruct hv]; inversion Eo; subst o3.
        * split; [split; [exact C1|exact Hr0]|]. split; [reflexivity|exact Hd].
        * split; [exact C1|exact Hr0].
        * split; [split; [exact C1|exact Hr0]|]. split; [reflexivity|exact Hd].
      + inversion Eo; subst o3. split; [exact M1|]. split; [reflexivity|]. intros d t E; discriminate. }
  destruct o3 as [sx|[sx lres]]; [eapply mid_fail; eassumption|].
  destruct Ho as ([Cx Hrx] & Ecx & Hdx).
  match type of H with (_ <- ?X ;; _) = _ => destruct X as [fin| |] eqn:Efin end; cbn [bind] in H; try discriminate.
  assert (Hf : match fin with
               | inl sy => mid (t_c s) sy
               | inr (sy, (dest, title)) => mid (t_c s) sy /\ t_c sy = c /\ bytes_ok dest /\ (forall x, title = Some x -> bytes_ok x)
               end).
  { destruct lres as [[dest title]|].
    - inversion Efin; subst fin. destruct (Hdx dest title eq_refl) as [Hd1 Hd2]. split; [split; assumption|]. auto.
    - destruct (b_set_position (t_r sx) (b_line r) (b_pos r)) as [r0| |] eqn:Esp; cbn [bind] in Efin; try discriminate.
      destruct (ri_set_position _ _ _ _ _ Hrx Hr1 Esp) as (Hr0 & _).
      destruct (b_value r0 _) as [v| |]; cbn [bind] in Efin; try discriminate.
      destruct (999 <? zlen v); [inversion Efin; subst fin; split; [exact Cx|exact Hr0]|].
      destruct (lookup_ref norm refs v) as [[d t]|] eqn:Elk; inversion Efin; subst fin.
      + destruct (lookup_ref_ok _ _ _ Elk) as [Hd1 Hd2]. split; [split; [exact Cx|exact Hr0]|]. auto.
      + split; [exact Cx|exact Hr0]. }
  destruct fin as [sy|[sy [dest title]]]; [eapply mid_fail; eassumption|].
  destruct Hf as ([Cy Hry] & Ecy & Hdest & Htitle).
  destruct (new_inode (t_c sy) (ILink dest title)) as [c3 link] eqn:En.
  destruct (process_link_labelX (ist_c sy c3) link last) as [s4| |] eqn:Epl; cbn [bind] in H; try discriminate.
  destruct (iget (i_h (t_c s4)) last) as [ln0| |] eqn:Eg0; cbn [bind] in H; try discriminate.
  destruct (match ipar ln0 with Some p6 => Ok p6 | None => Panic end) as [lpar0| |]; cbn [bind] in H; try discriminate.
  destruct (i_remove (i_h (t_c s4)) lpar0 last) as [h5| |] eqn:Erm; cbn [bind] in H; try discriminate.
  (* assemble *)
  destruct (Cy L Hc) as (Ly & Hcy & Hky).
  destruct (ctx_new src _ _ _ _ _ _ En (conj Hdest Htitle) Hcy) as (Hc3 & Hk3 & _ & Klink & _).
  assert (Hpl : pok (i_h c3) link). { exists (ILink dest title). split; [exact Klink|cbn; lia]. }
  destruct (process_link_labelX_ok (ist_c sy c3) link last s4 Ly Hc3 Hpl Epl) as (L4 & Hc4 & Hk4 & Er4).
  cbn [ist_c t_c t_r] in Hk4, Er4.
  assert (Hc5 : ctx_ok src [] (cx_h (t_c s4) h5) L4 /\ kle (i_h (t_c s4)) h5).
  { destruct (i_remove_spec _ _ _ _ Erm (h_tree _ _ (proj1 Hc4))) as [[_ Hdet]|[_ ->]].
    - eapply ctx_detach; eassumption.
    - split; [|apply kle_refl]. destruct (cx_h_id src (t_c s4) [] L4 Hc4) as [X _]. exact X. }
  destruct Hc5 as [Hc5 Hk5].
  assert (Hk05 : kle (i_h (t_c s)) h5).
  { eapply kle_trans; [exact Hky|]. eapply kle_trans; [exact Hk3|]. eapply kle_trans; [exact Hk4|exact Hk5]. }
  assert (Hlink5 : pok h5 link). { eapply pok_kle; [|exact Hpl]. eapply kle_trans; eassumption. }
  destruct is_image.
  - destruct (new_inode (cx_h (t_c s4) h5) (IImage dest title)) as [c6 img] eqn:En6.
    destruct (iget (i_h c6) link) as [lk| |] eqn:Elk; cbn [bind] in H; try discriminate.
    match type of H with (_ <- ?X ;; _) = _ => destruct X as [h7| |] eqn:Emv end; cbn [bind] in H; try discriminate.
    inversion H; subst s' res. clear H. unfold ParseInlineRangeParsers.lp_goal, ParseInlineRangeParsers.st_ok. cbn [ist_c t_c t_r].
    destruct (ctx_new src _ _ _ _ _ _ En6 (conj Hdest Htitle) Hc5) as (Hc6 & Hk6 & _ & Kimg & _).
    apply iget_kd in Elk. destruct Elk as (_ & _ & Echl).
    destruct (image_children_ok img (ich lk) (i_h c6) h7 [] c6 L4 Hc6 eq_refl Emv) as [Hc7 Hk7].
    { exists (IImage dest title). split; [exact Kimg|cbn; lia]. }
    { intros x Hx. exists link. rewrite Echl. exact Hx. }
    exists L4. split; [split; [exact Hc7|rewrite Er4; exact Hry]|]. cbn [cx_h i_h].
    split; [eapply kle_trans; [exact Hk05|]; eapply kle_trans; eassumption|].
    intros n E. inversion E; subst n. eapply ndelim_kle; [exact Hk7|]. exists (IImage dest title). split; [exact Kimg|cbn; lia].
  - inversion H; subst s' res. clear H. unfold ParseInlineRangeParsers.lp_goal, ParseInlineRangeParsers.st_ok. cbn [ist_c t_c t_r cx_h i_h].
    exists L4. split; [split; [exact Hc5|rewrite Er4; exact Hry]|]. split; [exact Hk05|].
    intros n E. inversion E; subst n. destruct Hlink5 as (k & Ek & Ck). exists k. split; [exact Ek|].
    destruct (Hk4 link _ Klink) as (k4 & Ek4 & Ck4). destruct (Hk5 link _ Ek4) as (k5 & Ek5 & Ck5).
    cbn [i_h cx_h] in *. rewrite Ek in Ek5. inversion Ek5; subst k5. rewrite Ck5, Ck4. cbn. lia.
Qed.

(* ---------- strikethrough ---------- *)
Lemma strike_parse_ok s s' res L : st_ok s L -> strike_parse punct_rune space_rune s = Ok (s', res) -> pstep s s' res.
Proof.
  unfold strike_parse. intros [Hc Hr] H.
  destruct (b_preceding (t_r s)) as [before| |]; cbn [bind] in H; try discriminate.
  destruct (b_peek_line (t_r s)) as [[[r1 line] sg]| |] eqn:Ep; cbn [bind] in H; try discriminate.
  destruct (ri_peek _ _ _ _ _ _ Hr Ep) as (-> & -> & Hline).
  destruct (scan_delimiter _ _ _ _ _ _) as [d| |] eqn:Es; cbn [bind] in H; try discriminate.
  assert (Hnone : pstep s (ist_r s (t_r s)) None).
  { exists L. split; [split; assumption|]. split; [apply kle_refl|]. intros n E. discriminate. }
  destruct d as [[[[co cc] len] chh]|]; [|inversion H; subst s' res; exact Hnone].
  destruct ((2 <? len) || N.eqb before 126); [inversion H; subst s' res; exact Hnone|].
  apply scan_delimiter_in_range in Es. destruct Es as (Hlen & _ & _).
  destruct line as [l|]; cbn [line_of] in Hlen; [|change (zlen (@nil N)) with 0 in Hlen; lia].
  destruct Hline as (Hin & Hv & Hl & Hs0 & Hs1 & Hs2 & _).
  cbn [ist_r t_c t_r] in H.
  destruct (new_inode (t_c s) _) as [c1 n] eqn:En.
  destruct (b_advance (t_r s) len) as [r2| |] eqn:Ea; cbn [bind] in H; try discriminate.
  destruct (push_delimiter c1 n) as [c2| |] eqn:Epd; cbn [bind] in H; try discriminate.
  inversion H; subst s' res. clear H.
  assert (Hko : kind_ok src (IDelim (seg_with_stop (b_pos (t_r s)) (s_start (b_pos (t_r s)) + len)) co cc len len chh None None)).
  { cbn. split; [|split; [lia|reflexivity]]. apply seg_in_intro; cbn [seg_with_stop mksegp s_start s_stop s_pad]; try lia.
    rewrite (ri_pad _ _ _ Hr). lia. }
  destruct (ctx_new src _ _ _ _ _ _ En Hko Hc) as (Hc1 & Hk1 & _ & Kn & _ & _ & HnL & _).
  destruct (push_delimiter_ok src _ _ _ _ _ len Epd Hc1) as (Hc2 & Hk2 & _).
  { unfold dlk. rewrite Kn. reflexivity. }
  { exact HnL. }
  { unfold dlen. rewrite Kn. reflexivity. }
  { lia. }
  exists (L ++ [n]). split; [split; [exact Hc2|]|].
  - cbn [t_r]. eapply ri_advance_in; [exact Hr|exact Hin| |exact Ea]. lia.
  - split; [eapply kle_trans; eassumption|]. intros m Em. inversion Em; subst m. right. rewrite in_app_iff. cbn. auto.
Qed.

(* ---------- task check boxes ---------- *)
Lemma task_parse_ok in_item s parent s' res L : st_ok s L -> task_parse re_task in_item s parent = Ok (s', res) -> pstep s s' res.
Proof.
  unfold task_parse. intros [Hc Hr] H.
  assert (Hsame : pstep s s None).
  { exists L. split; [split; assumption|]. split; [apply kle_refl|]. intros n E. discriminate. }
  destruct (negb in_item); [inversion H; subst s' res; exact Hsame|].
  destruct (iget (i_h (t_c s)) parent) as [pn| |]; cbn [bind] in H; try discriminate.
  destruct (ich pn) as [|k0 ks]; [|inversion H; subst s' res; exact Hsame].
  destruct (b_peek_line (t_r s)) as [[[r1 line] sg]| |] eqn:Ep; cbn [bind] in H; try discriminate.
  destruct (ri_peek _ _ _ _ _ _ Hr Ep) as (-> & -> & Hline).
  assert (Hnone : pstep s (ist_r s (t_r s)) None).
  { exists L. split; [split; assumption|]. split; [apply kle_refl|]. intros n E. discriminate. }
  destruct (re_find re_task (line_of line)) as [caps|] eqn:Ef; [|inversion H; subst s' res; exact Hnone].
  destruct (re_find_sound _ _ _ Ef) as (i & j & Hcap & Hij & Hj & _).
  rewrite Hcap in H.
  destruct (cap_at caps 1) as [[m2 m3]|]; [|discriminate].
  destruct ((m2 <? 0) || (m3 <? m2) || (zlen (line_of line) <? m3)) eqn:Echk; [discriminate|].
  apply orb_false_elim in Echk. destruct Echk as [Echk E3]. apply orb_false_elim in Echk. destruct Echk as [E1 E2].
  apply Z.ltb_ge in E1, E2, E3.
  destruct (Z.eqb_spec m3 m2) as [Eq|Hne]; [discriminate|].
  cbn [ist_r t_c t_r] in H.
  destruct (b_advance (t_r s) j) as [r2| |] eqn:Ea; cbn [bind] in H; try discriminate.
  destruct (new_inode (t_c s) _) as [c1 n] eqn:En.
  inversion H; subst s' res. clear H.
  destruct line as [l|]; cbn [line_of] in *; [|change (zlen (@nil N)) with 0 in *; lia].
  destruct Hline as (Hin & Hv & Hl & Hs0 & Hs1 & Hs2 & _).
  assert (Hko : kind_ok src (ITaskCheckBox (N.eqb (nth_byte l m2) 120 || N.eqb (nth_byte l m2) 88))) by exact I.
  destruct (ctx_new src _ _ _ _ _ _ En Hko Hc) as (Hc1 & Hk1 & _ & Kn & _).
  exists L. split; [split; [exact Hc1|]|].
  - cbn [t_r]. eapply ri_advance_in; [exact Hr|exact Hin| |exact Ea]. lia.
  - split; [exact Hk1|]. intros m Em. inversion Em; subst m. left. eapply kd_dlk_none; [exact Kn|cbn; lia].
Qed.

(* ---------- linkify ---------- *)
Lemma match_at_zero_range rx line e : match_at_zero (re_find rx line) = Some e -> 0 <= e <= zlen line.
Proof.
  unfold match_at_zero. destruct (re_find rx line) as [caps|] eqn:Ef; [|discriminate].
  destruct (re_find_sound _ _ _ Ef) as (i & j & Hcap & Hij & Hj & _). rewrite Hcap.
  destruct (Z.eqb_spec i 0); intros E; inversion E; subst. lia.
Qed.

Lemma linkify_parse_ok s parent s' res L : st_ok s L -> pok (i_h (t_c s)) parent ->
  linkify_parse punct_table email_table re_email_domain re_url re_www s parent = Ok (s', res) ->
  pstep s s' (option_map fst res).
Proof.
  unfold linkify_parse. intros [Hc Hr] Hpar H.
  assert (Hsame : pstep s s None).
  { exists L. split; [split; assumption|]. split; [apply kle_refl|]. intros n E. discriminate. }
  destruct (i_labels (t_c s)); [inversion H; subst s' res; exact Hsame|].
  destruct (b_peek_line (t_r s)) as [[[r1 line] sg]| |] eqn:Ep; cbn [bind] in H; try discriminate.
  destruct (ri_peek _ _ _ _ _ _ Hr Ep) as (-> & -> & Hline).
  destruct line as [[|c0 tl]|]; try discriminate.
  destruct Hline as (Hin & Hv & Hl & Hs0 & Hs1 & Hs2 & _).
  rewrite zlen_cons in Hl. pose proof (zlen_nonneg tl) as Htl0.
  assert (Hnone : pstep s (ist_r s (t_r s)) None).
  { exists L. split; [split; assumption|]. split; [apply kle_refl|]. intros n E. discriminate. }
  cbv zeta in H.
  set (skip := N.eqb c0 32 || N.eqb c0 42 || N.eqb c0 95 || N.eqb c0 126 || N.eqb c0 40) in *.
  set (ln := if skip then tl else c0 :: tl) in *.
  set (consumes := if skip then 1 else 0) in *.
  assert (Hln : consumes + zlen ln = 1 + zlen tl).
  { subst ln consumes. destruct skip; [lia|rewrite zlen_cons; lia]. }
  assert (Hcons : 0 <= consumes <= 1) by (subst consumes; destruct skip; lia).
  match type of H with (_ <- ?X ;; _) = _ => destruct X as [eo| |] eqn:Ee end; cbn [bind] in H; try discriminate.
  destruct eo as [[e email]|]; [|inversion H; subst s' res; exact Hnone].
  assert (He : 0 <= e <= zlen ln).
  { match type of Ee with match match_at_zero ?M with _ => _ end = _ => destruct (match_at_zero M) as [e0|] eqn:Em end.
    - destruct (url_match_end ln e0) as [e'| |] eqn:Eu; cbn [bind] in Ee; try discriminate.
      inversion Ee; subst e' email.
      assert (He0 : 0 <= e0 <= zlen ln).
      { destruct (_ && prefix_of domain_www ln) in Em; [eapply match_at_zero_range; exact Em|].
        destruct (_ || _) in Em; [eapply match_at_zero_range; exact Em|discriminate]. }
      pose proof (url_match_end_range _ _ _ (proj1 He0) Eu). lia.
    - match type of Ee with (if ?X then _ else _) = _ => destruct X end; [discriminate|].
      match type of Ee with (if ?X then _ else _) = _ => destruct X end; [discriminate|].
      set (stop := find_email_index email_table re_email_domain ln) in *.
      match type of Ee with (if ?X then _ else _) = _ => destruct X end; [discriminate|].
      match type of Ee with (if ?X then _ else _) = _ => destruct X end; [discriminate|].
      destruct (at_ ln (stop - 1)) as [lc| |] eqn:Ea; cbn [bind] in Ee; try discriminate.
      apply at_ok_range in Ea.
      assert (Hfin : forall x, Ok (Some (if N.eqb lc 46 then stop - 1 else stop, true)) = Ok (Some (e, x)) -> 0 <= e <= zlen ln).
      { intros x E. inversion E. destruct (N.eqb lc 46); lia. }
      match type of Ee with (if ?X then _ else _) = _ => destruct X end.
      + match type of Ee with (_ <- ?X ;; _) = _ => destruct X as [nc| |] end; cbn [bind] in Ee; try discriminate.
        match type of Ee with (if ?X then _ else _) = _ => destruct X end; [discriminate|]. eapply Hfin; exact Ee.
      + eapply Hfin; exact Ee. }
  clear Ee.
  match type of H with (_ <- ?X ;; _) = _ => destruct X as [c1| |] eqn:Em end; cbn [bind] in H; try discriminate.
  assert (Hc1 : ctx_ok src [] c1 L /\ kle (i_h (t_c s)) (i_h c1)).
  { cbn [ist_r t_c t_r] in Em. destruct skip.
    - assert (Hbt : seg_in src (seg_with_stop (b_pos (t_r s)) (s_start (b_pos (t_r s)) + 1)) = true).
      { apply seg_in_intro; cbn [seg_with_stop mksegp s_start s_stop s_pad]; try lia. rewrite (ri_pad _ _ _ Hr). lia. }
      exact (nstep_neutral src _ _ (fun Hh => merge_or_append_ok src _ _ _ _ Em Hh Hbt) [] L Hc).
    - inversion Em; subst c1. split; [exact Hc|apply kle_refl]. }
  destruct Hc1 as [Hc1 Hk1].
  pose proof (back_trail_range (length ln) ln (e - 1) ltac:(lia)) as Hbt.
  cbn [ist_r t_c t_r] in H.
  destruct (b_advance (t_r s) _) as [r2| |] eqn:Ea; cbn [bind] in H; try discriminate.
  destruct (new_inode c1 _) as [c2 n] eqn:En.
  inversion H; subst s' res. clear H.
  destruct (ctx_new src _ _ _ _ _ _ En I Hc1) as (Hc2 & Hk2 & _ & Kn & _).
  exists L. split; [split; [exact Hc2|]|].
  - cbn [t_r]. eapply ri_advance_in; [exact Hr|exact Hin| |exact Ea]. lia.
  - split; [eapply kle_trans; eassumption|]. intros m Em'. cbn in Em'. inversion Em'; subst m.
    left. eapply kd_dlk_none; [exact Kn|cbn; lia].
Qed.

(* ---------- the parser table, try_inlineX ---------- *)
Notation IPX := (ip_parseX space_table punct_table norm url_table email_table re_email_domain re_open_tag re_close_tag
                  punct_rune space_rune re_task re_url re_www refs).
Notation TRYX := (try_inlineX space_table punct_table norm url_table email_table re_email_domain re_open_tag re_close_tag
                  punct_rune space_rune re_task re_url re_www refs).

Lemma plain_ok s (x : result (ist * option nat)) s' res :
  (forall s1 r1, x = Ok (s1, r1) -> pstep s s1 r1) ->
  (y <- x ;; Ok (fst y, match snd y with Some n => Some (n, false) | None => None end)) = Ok (s', res) ->
  pstep s s' (option_map fst res).
Proof.
  intros Hx H. destruct x as [[s1 r1]| |]; cbn [bind] in H; try discriminate.
  cbn [fst snd] in H. inversion H; subst s' res. specialize (Hx s1 r1 eq_refl).
  destruct r1 as [n|]; exact Hx.
Qed.

Lemma ip_parseX_ok in_item p s parent s' res L : st_ok s L -> pok (i_h (t_c s)) parent ->
  IPX in_item p s parent = Ok (s', res) -> pstep s s' (option_map fst res).
Proof.
  intros Hs Hpar H. destruct p as [p| | |]; cbn [ip_parseX] in H; [destruct p|..];
    try (eapply plain_ok; [|exact H]; intros s1 r1 E).
  - eapply (code_span_parse_s_ok space_table norm punct_rune space_rune src lines Hsp32 Hsp10); eassumption.
  - destruct (link_parseX_ok _ _ _ _ _ Hs E) as (L' & Hs' & Hk & Hn). exists L'. split; [exact Hs'|]. split; [exact Hk|].
    intros n En. left. apply ndelim_dlk. apply Hn. exact En.
  - eapply (autolink_parse_ok space_table norm url_table email_table re_email_domain punct_rune space_rune src lines Hsp32 Hsp10); eassumption.
  - eapply (raw_html_parse_ok space_table norm re_open_tag re_close_tag punct_rune space_rune src lines Hsp32 Hsp10); eassumption.
  - eapply (emphasis_parse_ok space_table norm punct_rune space_rune src lines Hsp32 Hsp10); eassumption.
  - eapply strike_parse_ok; eassumption.
  - eapply task_parse_ok; eassumption.
  - eapply linkify_parse_ok; eassumption.
Qed.

Lemma try_inlineX_ok in_item r0 : RI r0 -> forall ips s parent s' res L, st_ok s L -> pok (i_h (t_c s)) parent ->
  b_line (t_r s) = b_line r0 -> b_pos (t_r s) = b_pos r0 ->
  TRYX in_item ips s parent (b_line r0) (b_pos r0) = Ok (s', res) ->
  pstep s s' (option_map fst res) /\ (res = None -> b_line (t_r s') = b_line r0 /\ b_pos (t_r s') = b_pos r0).
Proof.
  intros H0. induction ips as [|p rest IH]; intros s parent s' res L Hs Hpar El Epos H; cbn [try_inlineX] in H.
  - inversion H; subst s' res. split; [|auto]. exists L. split; [exact Hs|]. split; [apply kle_refl|]. intros n E; discriminate.
  - destruct (IPX in_item p s parent) as [[s1 n]| |] eqn:Ep; cbn [bind] in H; try discriminate.
    destruct (ip_parseX_ok _ _ _ _ _ _ _ Hs Hpar Ep) as (L1 & Hs1 & Hk1 & Hres1).
    destruct n as [n|].
    + inversion H; subst s' res. split; [|discriminate]. exists L1. auto.
    + destruct (b_set_position (t_r s1) (b_line r0) (b_pos r0)) as [r2| |] eqn:Es; cbn [bind] in H; try discriminate.
      destruct (ri_set_position _ _ _ _ _ (proj2 Hs1) H0 Es) as (Hr2 & Hl2 & Hp2).
      destruct (IH (ist_r s1 r2) parent s' res L1) as [(L2 & Hs2 & Hk2 & Hres2) Hpos]; try assumption.
      { split; [exact (proj1 Hs1)|exact Hr2]. }
      { cbn [ist_r t_c]. eapply pok_kle; eassumption. }
      split; [|exact Hpos]. exists L2. split; [exact Hs2|]. split; [eapply kle_trans; eassumption|exact Hres2].
Qed.

End Parsers.
