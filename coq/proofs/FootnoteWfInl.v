(* C05 (inline phase of the Footnote parser model, model/FootnoteParseInline.v): the inline
   children inline_childrenF produces for a block whose lines satisfy lines_ok are well formed in
   the sense of HtmlSpec.wf_node.  Port of proofs/ParseInlineRange.v (theorem
   inline_children_ok_sp) to the drivers that thread the footnote state, with the footnote
   inline parser.  A FootnoteLink is written in the inline heap as IEmphasis (-3 - serial);
   itreeF turns it into KFootnoteLink, of which node_ok asks nothing.
   Theorems: inline_childrenF_ok_sp (well-formedness), inline_childrenF_kinds_sp (every node of the
   inline children is a public inline node or a FootnoteLink: no delimiter, label state or other
   bookkeeping node is left; port of inline_children_public_kinds_sp).  Both need the space table
   to class the bytes 32 and 10 as spaces, as the core theorems do (see proofs/ParseInlineRange.v).
   Helper files, in compile order: proofs/FootnoteWfInlParsers.v (footnote_parse_ok, ip_parseF_ok,
   try_inlineF_ok), proofs/FootnoteWfInlLoop.v (scan_lineF_ok, parse_block_loopF_ok),
   proofs/FootnoteWfInlK.v (the invariants of the kinds theorem: footnote_parse_quiet,
   ip_parseF_k, try_inlineF_k, scan_lineF_k, parse_block_loopF_k). *)
Require Import GM.model.Base GM.model.Util GM.model.Reader GM.model.ReaderSpec GM.model.Blocks GM.model.ListItem
               GM.model.LeafBlocks GM.model.CodeSpan GM.model.LinkDest GM.model.Regex GM.model.Delim GM.model.HtmlWriter
               GM.model.Html GM.model.HtmlSpec GM.model.BlockParse GM.model.InlineParse
               GM.model.FootnoteX GM.model.FootnoteParseBlock GM.model.FootnoteParseInline.
Require Import GM.proofs.BReaderProofs GM.proofs.ParseInv.
Require Import GM.proofs.ParseInlineRangeHeap GM.proofs.ParseInlineRangeReader GM.proofs.ParseInlineRangeParsers.
Require Import GM.proofs.ParseInlineRangeKList GM.proofs.ParseInlineRangeKStep GM.proofs.ParseInlineRangeKDelim
               GM.proofs.ParseInlineRangeKLabel GM.proofs.ParseInlineRangeKInv GM.proofs.ParseInlineRangeKParsers.
Require Import GM.proofs.ParseInlineRange.
Require Import GM.proofs.FootnoteWfInlParsers GM.proofs.FootnoteWfInlLoop GM.proofs.FootnoteWfInlK.
From Coq Require Import ZArith Lia List Bool.
Import ListNotations.
Open Scope Z_scope.

Section S.
Variable space_table punct_table : list N.
Variable norm : bytes -> bytes.
Variable url_table email_table : list N.
Variable re_email_domain re_open_tag re_close_tag : re.
Variable punct_rune space_rune : N -> bool.
Hypothesis Hsp32 : is_space space_table 32 = true.
Hypothesis Hsp10 : is_space space_table 10 = true.
Notation ICF := (inline_childrenF space_table punct_table norm url_table email_table
                   re_email_domain re_open_tag re_close_tag punct_rune space_rune).
Notation PBF := (parse_blockF space_table punct_table norm url_table email_table
                   re_email_domain re_open_tag re_close_tag punct_rune space_rune).
Notation LOOPF := (parse_block_loopF space_table punct_table norm url_table email_table
                   re_email_domain re_open_tag re_close_tag punct_rune space_rune).

(* ---------- parseBlock ---------- *)
(* no line at all: the reader is out of range at once and the loop leaves the state alone *)
Lemma parse_block_loopF_out refs fuel x parent esc x' : b_in_range (t_r (fi_s x)) = false ->
  LOOPF refs fuel x parent esc = Ok x' -> t_c (fi_s x') = t_c (fi_s x).
Proof.
  intros Hr H. destruct fuel as [|f]; cbn [parse_block_loopF] in H; [discriminate|].
  unfold b_peek_line in H. rewrite Hr in H. cbn [bind] in H. inversion H. reflexivity.
Qed.

Lemma parse_blockF_ok refs fs src lines c fs' : bytes_ok src -> refs_ok refs -> lines_ok src lines ->
  PBF refs fs src lines = Ok (c, fs') -> exists L, ctx_ok src [] c L.
Proof.
  intros Hsrc Hrefs Hlines H. unfold parse_blockF in H.
  destruct (new_block_reader src lines) as [r| |] eqn:En; cbn [bind] in H; try discriminate.
  destruct (LOOPF refs _ _ 0%nat false) as [x| |] eqn:El; cbn [bind] in H; try discriminate.
  destruct (init_ok space_table norm Hsp32 Hsp10 src) as [Hc0 Hp0].
  assert (Hc1 : exists L1, ctx_ok src [] (t_c (fi_s x)) L1).
  { destruct lines as [|l0 lines'].
    - apply new_block_reader_nil in En. apply parse_block_loopF_out in El; [|exact En].
      rewrite El. exists []. exact Hc0.
    - pose proof (ri_new _ _ _ Hlines ltac:(discriminate) En) as Hr.
      destruct (parse_block_loopF_ok space_table punct_table norm url_table email_table re_email_domain re_open_tag re_close_tag
                  punct_rune space_rune refs src (l0 :: lines') Hsp32 Hsp10 Hsrc Hrefs _ _ _ _ _ [] El)
        as (L1 & [Hc1 _] & _).
      { split; [exact Hc0|exact Hr]. }
      { exact Hp0. }
      exists L1. exact Hc1. }
  destruct Hc1 as [L1 Hc1].
  destruct (process_delimiters (ifuel (fi_s x)) (t_c (fi_s x)) BNil) as [c2| |] eqn:Ep; cbn [bind] in H; try discriminate.
  destruct (process_delimiters_ok src _ _ _ _ _ Ep Hc1) as (L2 & Hc2 & _).
  destruct (link_close_block c2) as [c3| |] eqn:Ec; cbn [bind] in H; try discriminate.
  inversion H; subst c fs'.
  exists L2. eapply (link_close_block_ok space_table norm Hsp32 Hsp10); eassumption.
Qed.

(* ---------- from the heap to renderer trees ---------- *)
Lemma itreeF_text src h links : forall fuel i t k, itreeF fuel src h links i = Ok t -> kd h i = Some k -> is_text k = true ->
  is_text_node t = true.
Proof.
  intros fuel i t k H Hk Ht. destruct fuel as [|f]; cbn [itreeF] in H; [discriminate|].
  destruct (iget h i) as [n| |] eqn:Eg; cbn [bind] in H; try discriminate.
  apply iget_kd in Eg. destruct Eg as (Ek & _). rewrite Hk in Ek. inversion Ek as [Ek'].
  destruct (map_res _ _) as [kids| |]; cbn [bind] in H; try discriminate.
  rewrite <- Ek' in H. destruct k; cbn in Ht; try discriminate. cbn [bind] in H. inversion H. reflexivity.
Qed.

Lemma itreeF_wf src h links : bytes_ok src -> heap_ok src h ->
  forall fuel i t, itreeF fuel src h links i = Ok t -> wf_node src false false t = true.
Proof.
  intros Hsrc Hh. induction fuel as [|f IH]; intros i t H; cbn [itreeF] in H; [discriminate|].
  destruct (iget h i) as [n| |] eqn:Eg; cbn [bind] in H; try discriminate.
  apply iget_kd in Eg. destruct Eg as (Ek & _ & Ec).
  destruct (map_res (itreeF f src h links) (ich n)) as [kids| |] eqn:Em; cbn [bind] in H; try discriminate.
  assert (Hkids : forall a b, a = false -> b = false -> forallb (wf_node src a b) kids = true).
  { intros a b -> ->. apply forallb_forall. intros y Hy. destruct (map_res_in _ _ _ Em y Hy) as (x & _ & Hx). eapply IH. exact Hx. }
  pose proof (h_kind _ _ Hh i _ Ek) as Hko.
  destruct (ik n) as [|s0 soft hard raw| |lv|d ti|d ti|e sg|segs| |] eqn:Ekn; cbn [bind] in H.
  - inversion H; subst t. rewrite wf_node_node. rewrite Hkids by reflexivity. reflexivity.
  - inversion H; subst t. rewrite wf_node_node. rewrite Hkids by reflexivity. cbn in Hko. cbn. rewrite Hko. reflexivity.
  - inversion H; subst t. rewrite wf_node_node. rewrite Hkids by reflexivity. cbn.
    assert (Ht : forallb is_text_node kids = true).
    { apply forallb_forall. intros y Hy. destruct (map_res_in _ _ _ Em y Hy) as (x & Hx & Hxy).
      assert (Hxc : In x (ch h i)) by (rewrite Ec; exact Hx).
      pose proof (t_child _ (h_tree _ _ Hh) i x Hxc) as Hpx. apply pr_valid in Hpx. destruct (valid_kd h x Hpx) as [kx Ekx].
      eapply itreeF_text; [exact Hxy|exact Ekx|]. eapply (h_cs _ _ Hh i x kx); [exact Ek|exact Hxc|exact Ekx]. }
    rewrite Ht. reflexivity.
  - destruct (lv <=? -3).
    + destruct (nth_error links _) as [idx|]; cbn [bind] in H; try discriminate.
      inversion H; subst t. rewrite wf_node_node. rewrite Hkids by reflexivity. reflexivity.
    + cbn [bind] in H. inversion H; subst t. rewrite wf_node_node. rewrite Hkids by reflexivity. reflexivity.
  - inversion H; subst t. rewrite wf_node_node. rewrite Hkids by reflexivity. cbn in Hko. destruct Hko as [Hd Ht].
    cbn. destruct ti as [ti|]; [rewrite Hd, (Ht ti eq_refl)|rewrite Hd]; reflexivity.
  - inversion H; subst t. rewrite wf_node_node. rewrite Hkids by reflexivity. cbn in Hko. destruct Hko as [Hd Ht].
    cbn. destruct ti as [ti|]; [rewrite Hd, (Ht ti eq_refl)|rewrite Hd]; reflexivity.
  - destruct (seg_value src sg) as [v| |] eqn:Ev; cbn [bind] in H; try discriminate.
    inversion H; subst t. rewrite wf_node_node. rewrite Hkids by reflexivity.
    pose proof (seg_value_bytes _ _ _ Hsrc Ev) as Hv. unfold bytes_ok in Hv. cbn. rewrite Hv. reflexivity.
  - inversion H; subst t. rewrite wf_node_node. rewrite Hkids by reflexivity. cbn in Hko. cbn. rewrite Hko. reflexivity.
  - inversion H; subst t. rewrite wf_node_node. rewrite Hkids by reflexivity. reflexivity.
  - inversion H; subst t. rewrite wf_node_node. rewrite Hkids by reflexivity. reflexivity.
Qed.

(* ---------- the theorem ---------- *)
Theorem inline_childrenF_ok_sp_sec : forall refs fs src lines ts fs',
  bytes_ok src -> refs_ok refs -> lines_ok src lines ->
  ICF refs fs src lines = Ok (ts, fs') ->
  Forall (fun t => wf_node src false false t = true) ts.
Proof.
  intros refs fs src lines ts fs' Hsrc Hrefs Hlines H. unfold inline_childrenF in H.
  destruct (PBF refs fs src lines) as [[c fs1]| |] eqn:Ep; cbn [bind] in H; try discriminate.
  destruct (itreeF (S (length (i_h c))) src (i_h c) (fs_links fs1) 0%nat) as [t| |] eqn:Et; cbn [bind] in H; try discriminate.
  inversion H; subst ts fs'. clear H.
  destruct (parse_blockF_ok refs fs src lines c fs1 Hsrc Hrefs Hlines Ep) as (L & Hh & _).
  pose proof (itreeF_wf src (i_h c) (fs_links fs1) Hsrc Hh _ _ _ Et) as Hwf.
  destruct t as [k l a kids]. rewrite wf_node_node in Hwf. apply andb_prop in Hwf. destruct Hwf as [_ Hkids].
  cbn [t_children]. apply Forall_forall. intros x Hx. rewrite forallb_forall in Hkids. specialize (Hkids x Hx).
  (* the root is not a table, header or row *)
  cbn [itreeF] in Et. destruct (iget (i_h c) 0) as [n| |]; cbn [bind] in Et; try discriminate.
  destruct (map_res _ _) as [ks| |]; cbn [bind] in Et; try discriminate.
  destruct (ik n) as [|s0 soft hard raw| |lv|d ti|d ti|e sg|segs| |]; cbn [bind] in Et; try (inversion Et; subst; exact Hkids).
  - destruct (lv <=? -3).
    + destruct (nth_error _ _) as [idx|]; cbn [bind] in Et; try discriminate. inversion Et; subst; exact Hkids.
    + cbn [bind] in Et. inversion Et; subst; exact Hkids.
  - destruct (seg_value src sg) as [v| |]; cbn [bind] in Et; try discriminate. inversion Et; subst; exact Hkids.
Qed.

(* ---------- public inline kinds (and FootnoteLink) ---------- *)
Definition fn_inline_kind (k : kind) : bool :=
  inline_kind k || match k with KFootnoteLink _ _ _ => true | _ => false end.

(* a tree whose nodes with a parent are neither block, delimiter nor label state nodes *)
Lemma itreeF_kinds src h links : (forall x p, pr h x = Some p -> nkey h x) -> tree_ok h ->
  forall fuel i t, itreeF fuel src h links i = Ok t -> forallb (all_kinds fn_inline_kind) (t_children t) = true /\
                   (nkey h i -> all_kinds fn_inline_kind t = true).
Proof.
  intros Hnk Ht. induction fuel as [|f IH]; intros i t H; cbn [itreeF] in H; [discriminate|].
  destruct (iget h i) as [n| |] eqn:Eg; cbn [bind] in H; try discriminate.
  apply iget_kd in Eg. destruct Eg as (Ek & _ & Ec).
  destruct (map_res (itreeF f src h links) (ich n)) as [kids| |] eqn:Em; cbn [bind] in H; try discriminate.
  assert (Hkids : forallb (all_kinds fn_inline_kind) kids = true).
  { apply forallb_forall. intros y Hy. destruct (map_res_in _ _ _ Em y Hy) as (x & Hx & Hxy).
    apply (proj2 (IH x y Hxy)). apply (Hnk x i). apply (t_child h Ht). rewrite Ec. exact Hx. }
  assert (Hfin : forall k, Ok (Node k [] None kids) = Ok t -> (nkey h i -> fn_inline_kind k = true) ->
            forallb (all_kinds fn_inline_kind) (t_children t) = true /\ (nkey h i -> all_kinds fn_inline_kind t = true)).
  { intros k E Hk. inversion E; subst t. cbn [t_children]. split; [exact Hkids|]. intros Hn. rewrite all_kinds_node, (Hk Hn), Hkids. reflexivity. }
  unfold nkey, kcls in Hfin |- *. rewrite Ek in Hfin |- *.
  destruct (ik n) as [|s0 soft hard raw| |lv|d ti|d ti|e sg|segs| |]; cbn [bind cls] in H, Hfin |- *;
    try (apply (Hfin _ H); intros; try reflexivity; lia).
  - destruct (lv <=? -3).
    + destruct (nth_error links _) as [idx|]; cbn [bind] in H; try discriminate. apply (Hfin _ H). reflexivity.
    + cbn [bind] in H. apply (Hfin _ H). reflexivity.
  - destruct (seg_value src sg) as [v| |]; cbn [bind] in H; try discriminate. apply (Hfin _ H). reflexivity.
Qed.

(* after parseBlock no node with a parent is a block node, a delimiter or a label state *)
Lemma parse_blockF_kinds refs fs src lines c fs' : bytes_ok src -> refs_ok refs -> lines_ok src lines ->
  PBF refs fs src lines = Ok (c, fs') -> tree_ok (i_h c) /\ forall x p, pr (i_h c) x = Some p -> nkey (i_h c) x.
Proof.
  intros Hsrc Hrefs Hlines H. unfold parse_blockF in H.
  destruct (new_block_reader src lines) as [r| |] eqn:En; cbn [bind] in H; try discriminate.
  destruct (LOOPF refs _ _ 0%nat false) as [x| |] eqn:El; cbn [bind] in H; try discriminate.
  destruct (init_ok space_table norm Hsp32 Hsp10 src) as [Hc0 Hp0]. destruct hinv_init as [Hi0 HS0].
  assert (H1 : exists L1 LL1, ctx_ok src [] (t_c (fi_s x)) L1 /\ hinv (t_c (fi_s x)) LL1 /\ dch (i_h (t_c (fi_s x))) = L1).
  { destruct lines as [|l0 lines'].
    - apply new_block_reader_nil in En. apply parse_block_loopF_out in El; [|exact En].
      rewrite El. exists [], []. auto.
    - pose proof (ri_new _ _ _ Hlines ltac:(discriminate) En) as Hr.
      destruct (parse_block_loopF_k space_table punct_table norm url_table email_table re_email_domain re_open_tag re_close_tag
                  punct_rune space_rune refs src (l0 :: lines') Hsp32 Hsp10 Hsrc Hrefs _ _ _ _ [] [] El) as (L1 & LL1 & [Hc1 _] & _ & Hi1 & HS1).
      { split; [exact Hc0|exact Hr]. }
      { exact Hi0. }
      { exact HS0. }
      exists L1, LL1. auto. }
  destruct H1 as (L1 & LL1 & Hc1 & Hi1 & HS1).
  destruct (process_delimiters (ifuel (fi_s x)) (t_c (fi_s x)) BNil) as [c2| |] eqn:Ep; cbn [bind] in H; try discriminate.
  destruct (process_delimiters_k src _ _ _ _ _ Ep Hc1 HS1 (gi_incr _ (hi_g _ _ Hi1)) (gi_rootp _ (hi_g _ _ Hi1)))
    as (L2 & Hc2 & _ & G2 & Fl2 & Fb2 & Hbel); [intros b0 E; discriminate|].
  assert (L2 = []).
  { destruct L2 as [|d L2]; [reflexivity|]. destruct (Hbel d ltac:(cbn; auto)) as (b0 & E & _). discriminate. }
  subst L2.
  pose proof (hinv_gstep _ _ _ Hi1 G2 Fl2 Fb2) as Hi2.
  destruct (link_close_block c2) as [c3| |] eqn:Ec; cbn [bind] in H; try discriminate.
  inversion H; subst c fs'. clear H.
  pose proof (link_close_block_ok space_table norm Hsp32 Hsp10 src _ _ _ Ec Hc2) as Hc3.
  unfold link_close_block in Ec.
  destruct (nstep_fields src c2 (cx_bottoms c2 []) eq_refl eq_refl eq_refl [] [] Hc2) as [Hc2' _].
  destruct (close_labels_k space_table norm Hsp32 Hsp10 src _ _ _ _ [] LL1 Ec Hc2') as [Hg3 Hla3]; cbn [i_h cx_bottoms i_labels].
  - exact (hi_g _ _ Hi2).
  - eapply lchain_frame; [exact (hi_lc _ _ Hi2)|reflexivity|reflexivity].
  - exact (hi_la _ _ Hi2).
  - exact (lc_head _ _ (hi_lc _ _ Hi2)).
  - pose proof (h_tree _ _ (proj1 Hc3)) as Ht3. split; [exact Ht3|]. intros y p Hp. unfold nkey. repeat split.
    + intros E. apply (gi_root1 _ Hg3) in E. subst y. rewrite (gi_rootp _ Hg3) in Hp. discriminate.
    + intros E. assert (Hd : isdel (i_h c3) y = true) by (unfold isdel; rewrite E; reflexivity).
      apply isdel_dlk in Hd. exact (dl_att _ _ _ (proj2 Hc3) p y (t_par _ Ht3 y p Hp) Hd).
    + intros E. assert (Hl : islab (i_h c3) y = true) by (unfold islab; rewrite E; reflexivity).
      destruct (Hla3 y Hl ltac:(congruence)) as [[]|[]].
Qed.

(* no delimiter, link label state or other bookkeeping node is left in the tree: the inline
   children are public inline nodes or FootnoteLinks *)
Theorem inline_childrenF_kinds_sp_sec : forall refs fs src lines ts fs',
  bytes_ok src -> refs_ok refs -> lines_ok src lines ->
  ICF refs fs src lines = Ok (ts, fs') ->
  Forall (fun t => all_kinds fn_inline_kind t = true) ts.
Proof.
  intros refs fs src lines ts fs' Hsrc Hrefs Hlines H. unfold inline_childrenF in H.
  destruct (PBF refs fs src lines) as [[c fs1]| |] eqn:Ep; cbn [bind] in H; try discriminate.
  destruct (itreeF (S (length (i_h c))) src (i_h c) (fs_links fs1) 0%nat) as [t| |] eqn:Et; cbn [bind] in H; try discriminate.
  inversion H; subst ts fs'. clear H.
  destruct (parse_blockF_kinds refs fs src lines c fs1 Hsrc Hrefs Hlines Ep) as [Ht Hnk].
  destruct (itreeF_kinds src (i_h c) (fs_links fs1) Hnk Ht _ _ _ Et) as [Hk _].
  apply Forall_forall. intros x Hx. rewrite forallb_forall in Hk. exact (Hk x Hx).
Qed.

End S.

Theorem inline_childrenF_ok_sp : forall space_table punct_table norm url_table email_table re_email_domain re_open_tag re_close_tag
    punct_rune space_rune refs fs src lines ts fs',
  is_space space_table 32 = true -> is_space space_table 10 = true ->
  bytes_ok src -> refs_ok refs -> lines_ok src lines ->
  inline_childrenF space_table punct_table norm url_table email_table re_email_domain re_open_tag re_close_tag
                   punct_rune space_rune refs fs src lines = Ok (ts, fs') ->
  Forall (fun t => wf_node src false false t = true) ts.
Proof.
  intros space_table punct_table norm url_table email_table re_email_domain re_open_tag re_close_tag
    punct_rune space_rune refs fs src lines ts fs' H32 H10 Hsrc Hrefs Hlines H.
  eapply inline_childrenF_ok_sp_sec; eassumption.
Qed.

Theorem inline_childrenF_kinds_sp : forall space_table punct_table norm url_table email_table re_email_domain re_open_tag re_close_tag
    punct_rune space_rune refs fs src lines ts fs',
  is_space space_table 32 = true -> is_space space_table 10 = true ->
  bytes_ok src -> refs_ok refs -> lines_ok src lines ->
  inline_childrenF space_table punct_table norm url_table email_table re_email_domain re_open_tag re_close_tag
                   punct_rune space_rune refs fs src lines = Ok (ts, fs') ->
  Forall (fun t => all_kinds (fun k => inline_kind k || match k with KFootnoteLink _ _ _ => true | _ => false end) t = true) ts.
Proof.
  intros space_table punct_table norm url_table email_table re_email_domain re_open_tag re_close_tag
    punct_rune space_rune refs fs src lines ts fs' H32 H10 Hsrc Hrefs Hlines H.
  exact (inline_childrenF_kinds_sp_sec space_table punct_table norm url_table email_table re_email_domain re_open_tag re_close_tag
           punct_rune space_rune H32 H10 refs fs src lines ts fs' Hsrc Hrefs Hlines H).
Qed.
