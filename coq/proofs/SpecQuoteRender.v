(* Block quotes around plain paragraphs, renderer side: the HTML renderer model applied to the
   tree of a quoted document (SpecQuoteShape.qdoc_tree true) writes qbs_html. *)
Require Import GM.model.Base GM.model.Util GM.model.Reader GM.model.HtmlWriter GM.model.Html GM.model.HtmlI GM.model.SpecDoc.
Require Import GM.gen.Tables GM.gen.Entities GM.gen.Filters.
Require Import GM.proofs.SpecParaBytes GM.proofs.SpecParaRender GM.proofs.SpecQuoteShape GM.proofs.SpecQuoteLen.
From Coq Require Import List NArith ZArith Bool Lia.
Import ListNotations.
Open Scope Z_scope.

(* ---------- the lines of one quoted paragraph ---------- *)
Lemma render_qtexts c pfx p : forall pre post,
  hardwraps c = false -> forallb body_okb p = true ->
  render_list c (pre ++ join nl (map (app pfx) p) ++ post) KParagraph (qtexts (zlen pfx) (zlen pre) p) = Ok (para_src p).
Proof.
  induction p as [|b r IH]; intros pre post Hc Hp; [reflexivity|].
  cbn [forallb] in Hp. apply andb_true_iff in Hp. destruct Hp as [Hb Hr].
  destruct r as [|b' r'].
  - cbn [qtexts map join]. rewrite render_list_cons, render_list_nil. change (para_src [b]) with b.
    replace (pre ++ (pfx ++ b) ++ post) with ((pre ++ pfx) ++ b ++ post) by (rewrite <- !app_assoc; reflexivity).
    replace (zlen pre + zlen pfx) with (zlen (pre ++ pfx)) by (rewrite zlen_app; reflexivity).
    rewrite (render_text_node c (pre ++ pfx) b post _ _ _ false Hc (body_ok_text b Hb)).
    cbn [bind]. rewrite !app_nil_r. reflexivity.
  - change (qtexts (zlen pfx) (zlen pre) (b :: b' :: r'))
      with (text_node (zlen pre + zlen pfx) b true :: qtexts (zlen pfx) (zlen pre + zlen pfx + zlen b + 1) (b' :: r')).
    rewrite psrc_cons2, para_src_cons2, render_list_cons.
    replace (pre ++ ((pfx ++ b) ++ nl ++ join nl (map (app pfx) (b' :: r'))) ++ post)
      with ((pre ++ pfx) ++ b ++ (nl ++ join nl (map (app pfx) (b' :: r')) ++ post))
      by (rewrite <- !app_assoc; reflexivity).
    replace (zlen pre + zlen pfx) with (zlen (pre ++ pfx)) by (rewrite zlen_app; reflexivity).
    rewrite (render_text_node c (pre ++ pfx) b _ _ _ _ true Hc (body_ok_text b Hb)). cbn [bind].
    replace ((pre ++ pfx) ++ b ++ (nl ++ join nl (map (app pfx) (b' :: r')) ++ post))
      with ((pre ++ pfx ++ b ++ nl) ++ join nl (map (app pfx) (b' :: r')) ++ post)
      by (rewrite <- !app_assoc; reflexivity).
    replace (zlen (pre ++ pfx) + zlen b + 1) with (zlen (pre ++ pfx ++ b ++ nl))
      by (rewrite !zlen_app; change (zlen nl) with 1; lia).
    rewrite (IH (pre ++ pfx ++ b ++ nl) post Hc Hr). cbn [bind]. rewrite <- app_assoc. reflexivity.
Qed.

(* ---------- one quoted paragraph, under any parent ---------- *)
Lemma render_qpara c pfx p pre post parent has_next is_last :
  hardwraps c = false -> para_ok p = true ->
  RN c (pre ++ join nl (map (app pfx) p) ++ post) parent has_next is_last
     (Node KParagraph (qsegs (zlen pfx) 0 (zlen pre) p) None (qtexts (zlen pfx) (zlen pre) p)) = Ok (para_html p).
Proof.
  intros Hc Hp. destruct (para_ok_inv p Hp) as (b & r & -> & Hb & Hr).
  rewrite render_node_eq. cbn [render_enter t_kind t_children render_leave bind attrs_of].
  rewrite render_qtexts; [|exact Hc|cbn [forallb]; rewrite Hb, Hr; reflexivity].
  cbn [bind]. reflexivity.
Qed.

(* ---------- blocks and lists of blocks ---------- *)
Lemma qb_qbs_render c : hardwraps c = false ->
  (forall b pfx pre post parent has_next is_last, qb_ok b = true ->
     RN c (pre ++ qb_src pfx b ++ post) parent has_next is_last (qb_tree true (zlen pfx) (zlen pre) b) = Ok (qb_html b)) /\
  (forall bs pfx sep pre post k, qbs_ok bs = true ->
     render_list c (pre ++ qbs_src pfx sep bs ++ post) k (qbs_trees true (zlen pfx) (zlen sep) (zlen pre) bs) = Ok (qbs_html bs)).
Proof.
  intros Hc. apply qb_qbs_ind.
  - intros p pfx pre post parent hn il Hp. cbn [qb_ok] in Hp. cbn [qb_src qb_tree qb_html].
    apply render_qpara; assumption.
  - intros st bs IH pfx pre post parent hn il Hbs. cbn [qb_ok] in Hbs. cbn [qb_src qb_tree qb_html].
    rewrite render_node_eq. cbn [render_enter t_kind t_children render_leave bind].
    replace (zlen pfx + zlen (mk st)) with (zlen (pfx ++ mk st)) by (rewrite zlen_app; reflexivity).
    replace (zlen pfx + 1) with (zlen (pfx ++ [62%N])) by (rewrite zlen_app; reflexivity).
    rewrite (IH (pfx ++ mk st) (pfx ++ [62%N]) pre post KBlockquote Hbs). cbn [bind]. reflexivity.
  - intros b IH pfx sep pre post k Hb. cbn [qbs_ok] in Hb. cbn [qbs_src qbs_trees qbs_html].
    rewrite render_list_cons, render_list_nil. rewrite (IH pfx pre post _ _ _ Hb). cbn [bind]. rewrite app_nil_r. reflexivity.
  - intros b IHb r IHr pfx sep pre post k Hbr. cbn [qbs_ok] in Hbr. apply andb_true_iff in Hbr. destruct Hbr as [Hb Hr].
    cbn [qbs_src qbs_trees qbs_html]. rewrite render_list_cons.
    replace (pre ++ (qb_src pfx b ++ nl ++ sep ++ nl ++ qbs_src pfx sep r) ++ post)
      with (pre ++ qb_src pfx b ++ (nl ++ sep ++ nl ++ qbs_src pfx sep r ++ post))
      by (rewrite <- !app_assoc; reflexivity).
    rewrite (IHb pfx pre _ _ _ _ Hb). cbn [bind].
    replace (pre ++ qb_src pfx b ++ (nl ++ sep ++ nl ++ qbs_src pfx sep r ++ post))
      with ((pre ++ qb_src pfx b ++ nl ++ sep ++ nl) ++ qbs_src pfx sep r ++ post)
      by (rewrite <- !app_assoc; reflexivity).
    replace (zlen pre + qb_len (zlen pfx) b + 1 + zlen sep + 1) with (zlen (pre ++ qb_src pfx b ++ nl ++ sep ++ nl))
      by (rewrite !zlen_app, qb_len_src; change (zlen nl) with 1; lia).
    rewrite (IHr pfx sep _ post k Hr). cbn [bind]. reflexivity.
Qed.

(* ---------- the document ---------- *)
Theorem qdoc_render : forall c d post, hardwraps c = false -> qbs_ok d = true ->
  RenderHTML c (qbs_src [] [] d ++ post) (qdoc_tree true d) = Ok (qbs_html d).
Proof.
  intros c d post Hc Hd. unfold RenderHTML, render, qdoc_tree. rewrite render_node_eq.
  cbn [render_enter t_kind t_children render_leave bind].
  change (qbs_src [] [] d ++ post) with ([] ++ qbs_src [] [] d ++ post).
  change 0 with (zlen (@nil N)).
  rewrite (proj2 (qb_qbs_render c Hc) d [] [] [] post KDocument Hd). cbn [bind app]. rewrite app_nil_r. reflexivity.
Qed.
