(* Helper library for TypoDefWfBlk.v, part K: from the final heap to the tree. *)
Require Import GM.model.Base GM.model.Util GM.model.Reader GM.model.ReaderSpec GM.model.Blocks GM.model.ListItem
               GM.model.LeafBlocks GM.model.CodeBlock GM.model.LinkDest GM.model.Regex GM.model.HtmlWriter
               GM.model.Html GM.model.HtmlSpec GM.model.BlockParse GM.model.InlineParse GM.model.TypoDefParseD
               GM.model.TypoDefParseT GM.model.TypoDefParse.
Require Import GM.proofs.TypoDefWfDefs.
Require Import GM.proofs.ReaderProofs GM.proofs.BlockRangeProofs GM.proofs.ParseInv
               GM.proofs.ParseBlocksRangeA GM.proofs.TypoDefWfBlkB GM.proofs.TypoDefWfBlkT GM.proofs.TypoDefWfBlkC
               GM.proofs.TypoDefWfBlkD.
From Coq Require Import ZArith Lia Sorted.
Open Scope Z_scope.

Section K.
Variable space_table punct_table : list N.
Variable norm : bytes -> bytes.
Variable re_t1o re_t1c re_t2 re_t3 re_t4 re_t5 re_t6 re_t7 : re.
Variable allowed_tags : list bytes.
Variable src : bytes.
Hypothesis sp32 : is_space space_table 32%N = true.
Set Default Proof Using "All".

(* lemmas of parts C and D take all the section variables: CC supplies them *)
Notation CC f := (f space_table punct_table norm re_t1o re_t1c re_t2 re_t3 re_t4 re_t5 re_t6 re_t7 allowed_tags src sp32) (only parsing).
Notation SInv := (SInv space_table src).
Notation HI := (HI space_table src).
Notation nodeP := (nodeP space_table src).
Notation heapS := (heapS space_table src).
Notation Jinv := (Jinv src).
Notation openS := (openS src).
Notation pline := (pline space_table src).
Notation oline := (oline src).
Notation fin_lines := (fin_lines src).
Notation fin := (fin src).
Notation cont_post := (cont_post space_table src).
Notation item_guard := (item_guard space_table).
Notation verdict := (verdict space_table).
Hypothesis Hsrc : bytes_ok src.

(* ---------- unfolding the nested fixpoints (as in ParseCompose.v) ---------- *)
Lemma K_wf_node_unfold it ir k l a kids :
  wf_node src it ir (Node k l a kids) =
  node_ok src it (Node k l a kids) && (match k with KTableCell _ => ir | _ => true end) &&
  forallb (wf_node src (match k with KTable => true | _ => false end)
                       (match k with KTableHeader | KTableRow => true | _ => false end)) kids.
Proof.
  cbn [wf_node t_kind t_children]. f_equal; try reflexivity;
  (induction kids as [|x r IH]; [reflexivity|cbn [forallb]; rewrite IH; reflexivity]).
Qed.

(* map_res: every result satisfies P when every successful call on a list element does *)
Lemma K_map_res_all {A B} (f : A -> result B) (P : B -> Prop) l : forall ys,
  (forall x y, In x l -> f x = Ok y -> P y) -> map_res f l = Ok ys -> Forall P ys.
Proof.
  induction l as [|x r IH]; intros ys HP H; cbn [map_res] in H.
  - injection H as <-. constructor.
  - bind_inv H y Hy. bind_inv H z Hz. injection H as <-. constructor.
    + apply (HP x y); [left; reflexivity|exact Hy].
    + apply IH; [|exact Hz]. intros x' y' Hin Hf. apply (HP x' y'); [right; exact Hin|exact Hf].
Qed.

(* ---------- bytes ---------- *)
Lemma K_ab_app a b : all_bytes_b (a ++ b) = all_bytes_b a && all_bytes_b b.
Proof. unfold all_bytes_b. apply forallb_app. Qed.

Lemma K_ab_firstn n : forall v, all_bytes_b v = true -> all_bytes_b (firstn n v) = true.
Proof.
  unfold all_bytes_b. induction n as [|n IH]; intros [|c r] H; cbn [firstn forallb] in *; try reflexivity.
  apply andb_true_iff in H as [Hc Hr]. rewrite Hc. cbn [andb]. apply IH; exact Hr.
Qed.

Lemma K_ab_skipn n : forall v, all_bytes_b v = true -> all_bytes_b (skipn n v) = true.
Proof.
  unfold all_bytes_b. induction n as [|n IH]; intros [|c r] H; cbn [skipn forallb] in *; try reflexivity; try exact H.
  apply andb_true_iff in H as [Hc Hr]. apply IH; exact Hr.
Qed.

Lemma K_ab_repeat n : all_bytes_b (repeat 32%N n) = true.
Proof. unfold all_bytes_b. induction n as [|n IH]; cbn [repeat forallb]; [reflexivity|]. rewrite IH. reflexivity. Qed.

(* the value of a segment consists of bytes *)
Lemma K_seg_value_bytes sg v : seg_value src sg = Ok v -> all_bytes_b v = true.
Proof.
  unfold seg_value. intros H. bind_inv H w Hw.
  assert (Hwb : all_bytes_b w = true).
  { unfold slice in Hw. destruct ((0 <=? s_start sg) && (s_start sg <=? s_stop sg) && (s_stop sg <=? zlen src)); [|discriminate].
    injection Hw as <-. apply K_ab_firstn, K_ab_skipn. exact Hsrc. }
  destruct (s_pad sg <? 0) eqn:Hneg; [discriminate|].
  assert (Hr : all_bytes_b (if s_pad sg =? 0 then w else spaces_n (s_pad sg) ++ w) = true).
  { destruct (s_pad sg =? 0); [exact Hwb|]. rewrite K_ab_app, Hwb. unfold spaces_n. rewrite K_ab_repeat. reflexivity. }
  revert H. generalize dependent (if s_pad sg =? 0 then w else spaces_n (s_pad sg) ++ w). intros r Hr H.
  destruct (s_fnl sg).
  - destruct (rev r) as [|c tl].
    + injection H as <-. exact Hr.
    + destruct (N.eqb c 10).
      * injection H as <-. exact Hr.
      * injection H as <-. rewrite K_ab_app, Hr. reflexivity.
  - injection H as <-. exact Hr.
Qed.

Lemma K_take_until v : all_bytes_b v = true -> all_bytes_b (take_until_space v) = true.
Proof.
  unfold all_bytes_b. induction v as [|c r IH]; intros H; cbn [take_until_space forallb] in *; [reflexivity|].
  apply andb_true_iff in H as [Hc Hr]. destruct (N.eqb c 32); [reflexivity|].
  cbn [forallb]. rewrite Hc. cbn [andb]. apply IH; exact Hr.
Qed.

(* ---------- segments ---------- *)
Lemma K_seg_in sg : seg_inr src sg -> seg_in src sg = true.
Proof.
  unfold seg_inr, seg_in. intros H.
  repeat (apply andb_true_iff; split); apply Z.leb_le; lia.
Qed.

Lemma K_segs_in l : Forall (seg_inr src) l -> forallb (seg_in src) l = true.
Proof.
  intros H. apply forallb_forall. intros sg Hin. apply K_seg_in.
  rewrite Forall_forall in H. apply H; exact Hin.
Qed.

Lemma K_oline sg : oline sg -> seg_ok_b src sg = true.
Proof.
  unfold TypoDefWfBlkB.oline, seg_ok_b. intros [H1 [H2 [H3 H4]]]. rewrite H4. cbn [negb]. rewrite andb_true_r.
  repeat (apply andb_true_iff; split); [apply Z.leb_le|apply Z.ltb_lt|apply Z.leb_le|apply Z.eqb_eq]; lia.
Qed.

Lemma K_sorted l : sorted_segs l -> segs_sorted_b l = true.
Proof.
  unfold sorted_segs. induction l as [|a tl IH]; intros H; [reflexivity|].
  apply StronglySorted_inv in H as [Htl Ha].
  destruct tl as [|b tl']; [reflexivity|]. cbn [segs_sorted_b].
  apply andb_true_iff; split; [|apply IH; exact Htl].
  apply Z.leb_le. apply Forall_inv in Ha. exact Ha.
Qed.

Lemma K_fin_lines l : fin_lines l -> forallb (seg_ok_b src) l && segs_sorted_b l = true.
Proof.
  intros [Ho Hs]. apply andb_true_iff; split; [|apply K_sorted; exact Hs].
  apply forallb_forall. intros sg Hin. apply K_oline. rewrite Forall_forall in Ho. apply Ho; exact Hin.
Qed.

(* ---------- one node ---------- *)
(* the lines of the default configuration are fine for the generalised condition *)
Lemma K_fin_linesTD l : fin_lines l -> linesTD_ok_b src l = true.
Proof. intros H. unfold linesTD_ok_b. rewrite (K_fin_lines l H). reflexivity. Qed.

(* the kind built for a node of the core: no table kind; the local conditions hold *)
Lemma K_kind_of n k kids : nodeP n -> fin n -> (bk n = BHTML -> is_dl n = false) -> kind_of src n = Ok k ->
  node_ok src false (Node k (blines n) None kids) = true /\
  (match k with KTableCell _ => false | _ => true end) = true /\
  (match k with KTable => true | _ => false end) = false /\
  (match k with KTableHeader | KTableRow => true | _ => false end) = false /\
  (if has_inlinesTD k then linesTD_ok_b src (blines n) else true) = true.
Proof.
  intros HP Hfin Hdl Hk. unfold kind_of in Hk.
  pose proof (K_segs_in _ (np_lines _ _ _ HP)) as Hl.
  unfold node_ok. rewrite Hl. cbn [attrs_ok andb].
  destruct (bk n) eqn:Hbk.
  all: try (injection Hk as <-; cbn [has_inlinesTD]; repeat split; fail).
  - (* paragraph *) injection Hk as <-. cbn [has_inlinesTD]. repeat split. apply K_fin_linesTD. apply Hfin. left; exact Hbk.
  - (* text block *) injection Hk as <-. cbn [has_inlinesTD]. repeat split. apply K_fin_linesTD. apply (np_text _ _ _ HP Hbk).
  - (* heading *) injection Hk as <-. cbn [has_inlinesTD]. repeat split.
    + pose proof (np_head _ _ _ HP Hbk) as Hh. apply andb_true_iff; split; apply Z.leb_le; lia.
    + apply K_fin_linesTD. apply Hfin. right; exact Hbk.
  - (* fenced *) destruct (b_seg n) as [sg|].
    + bind_inv Hk v Hv. injection Hk as <-. cbn [has_inlinesTD]. repeat split.
      apply K_take_until. apply (K_seg_value_bytes sg v Hv).
    + injection Hk as <-. cbn [has_inlinesTD]. repeat split.
  - (* html *) injection Hk as <-. cbn [has_inlinesTD]. repeat split.
    destruct (b_seg n) as [sg|] eqn:Hsg; [|reflexivity]. apply K_seg_in. apply (np_seg _ _ _ HP sg Hsg (Hdl eq_refl)).
Qed.

(* the same for the block phase with the definition list parsers *)
Lemma K_kind_ofD n k kids : nodeP n -> fin n -> kind_ofD src n = Ok k ->
  node_ok src false (Node k (blines n) None kids) = true /\
  (match k with KTableCell _ => false | _ => true end) = true /\
  (match k with KTable => true | _ => false end) = false /\
  (match k with KTableHeader | KTableRow => true | _ => false end) = false /\
  (if has_inlinesTD k then linesTD_ok_b src (blines n) else true) = true.
Proof.
  intros HP Hfin Hk. unfold kind_ofD in Hk.
  pose proof (K_segs_in _ (np_lines _ _ _ HP)) as Hl.
  destruct (is_dl n) eqn:Edl.
  { injection Hk as <-. unfold node_ok. rewrite Hl. cbn [attrs_ok andb has_inlinesTD]. repeat split. }
  destruct (is_dt n) eqn:Edt.
  { injection Hk as <-. unfold node_ok. rewrite Hl. cbn [attrs_ok andb has_inlinesTD]. repeat split.
    destruct (np_dt _ _ _ HP Edt) as [sg [E Hsg]]. rewrite E. unfold linesTD_ok_b.
    apply (proj2 (seg_okP_b_spec src sg)) in Hsg. rewrite Hsg. apply Bool.orb_true_r. }
  destruct (is_dd n) eqn:Edd.
  { injection Hk as <-. unfold node_ok. rewrite Hl. cbn [attrs_ok andb has_inlinesTD]. repeat split. }
  apply (K_kind_of n k kids HP Hfin (fun _ => Edl) Hk).
Qed.

(* every node reachable from the root of a final heap yields a well-formed subtree *)
Lemma to_treeD_ok h : heapS h -> Jinv h [] -> forall fuel i t,
  (i = 0%nat \/ exists n, nth_error h i = Some n /\ bpar n <> None) ->
  to_treeD fuel src h i = Ok t -> wf_node src false false t = true /\ tree_lines_okTD src t = true.
Proof.
  intros HS HJ fuel. induction fuel as [|f IH]; intros i t Hi H; cbn [to_treeD] in H; [discriminate|].
  bind_inv H n Hn. apply hget_ok in Hn. bind_inv H k Hk. bind_inv H kids Hkids. injection H as <-.
  assert (Hfin : fin n).
  { destruct Hi as [->|[n' [Hn' Hp]]].
    - destruct (hs_root _ _ _ HS) as [n0 [H0 [Hk0 _]]]. rewrite H0 in Hn. injection Hn as ->.
      intros [Hc|Hc]; congruence.
    - rewrite Hn' in Hn. injection Hn as ->. destruct (HJ i n Hn' Hp) as [Hf|[]]. exact Hf. }
  pose proof (hs_node _ _ _ HS i n Hn) as HP.
  assert (Hall : Forall (fun c => wf_node src false false c = true /\ tree_lines_okTD src c = true) kids).
  { apply (K_map_res_all (to_treeD f src h) _ (bch n) kids); [|exact Hkids].
    intros c y Hin Hy. apply (IH c y); [|exact Hy]. right.
    destruct (hs_K _ _ _ HS i n c Hn Hin) as [nc [Hnc Hpar]]. exists nc. split; [exact Hnc|congruence]. }
  destruct (K_kind_ofD n k kids HP Hfin Hk) as [Hnode [Hcell [Htab [Hrow Hlines]]]].
  rewrite K_wf_node_unfold, tree_lines_okTD_unfold, Hnode, Hcell, Htab, Hrow, Hlines. cbn [andb].
  rewrite Forall_forall in Hall.
  split; apply forallb_forall; intros c Hin; apply (Hall c Hin).
Qed.

End K.
