(* From the invariant of the driver with automatic heading ids at the end of the block phase to the
   tree: the tree conversion with the attribute map of the driver is the pass AutoIds of
   model/HeadingIds.v over the tree of the default parser. *)
Require Import GM.model.Base GM.model.Util GM.model.UtilI GM.model.Reader GM.model.HtmlWriter GM.model.Html GM.model.Attr GM.model.Ids
               GM.model.BlockParse GM.model.ParseI GM.model.HeadingIds GM.model.HeadingOpts.
Require Import GM.gen.Tables.
Require Import GM.proofs.ParseBlocksRangeA GM.proofs.ParseBlocksRangeB GM.proofs.IdsProofs GM.proofs.HeadingIdsProofs
               GM.proofs.HeadingOptsEqDefs GM.proofs.HeadingOptsEqHp.
Require Import GM.proofs.ParseCompose.
From Coq Require Import List ZArith NArith Bool Lia.
Import ListNotations.

(* ---------- the attribute map ---------- *)
Lemma node_attrs_put l i a j :
  node_attrs (put_node_attrs l i a) j = if Nat.eqb i j then Some a else node_attrs l j.
Proof.
  induction l as [|[k b] r IH]; cbn [put_node_attrs node_attrs].
  - rewrite (Nat.eqb_sym j i). reflexivity.
  - destruct (Nat.eqb_spec i k) as [->|Hik]; cbn [node_attrs].
    + destruct (Nat.eqb_spec j k) as [->|Hjk].
      * rewrite Nat.eqb_refl. reflexivity.
      * destruct (Nat.eqb_spec k j) as [->|_]; [congruence|reflexivity].
    + destruct (Nat.eqb_spec j k) as [->|Hjk].
      * destruct (Nat.eqb_spec i k) as [->|_]; [congruence|reflexivity].
      * exact IH.
Qed.

(* ---------- run_log: the ids are those of generate_all, attached to the nodes of the log ---------- *)
Lemma run_log_spec : forall log t a ids attrs,
  run_log utf8len_table space_table spaces log t a = Ok (ids, attrs) -> NoDup (map fst log) ->
  exists rs, generate_all utf8len_table space_table spaces t (map snd log) = Ok rs /\
    Forall2 (fun n r => node_attrs attrs n = Some (set_attr n_id (AVBytes r) [])) (map fst log) rs /\
    (forall j, ~ In j (map fst log) -> node_attrs attrs j = node_attrs a j).
Proof.
  induction log as [|[n v] r IH]; intros t a ids attrs Hrun Hnd.
  - cbn [run_log] in Hrun. apply pc_Ok_inj in Hrun. injection Hrun as _ <-.
    exists []. split; [reflexivity|]. split; [constructor|]. intros j _. reflexivity.
  - cbn [run_log] in Hrun. apply pc_bind_ok in Hrun as ([id t'] & Hg & Hrun).
    cbn [map fst snd] in Hnd. inversion Hnd as [|x xs Hnin Hnd']; subst x xs.
    destruct (IH _ _ _ _ Hrun Hnd') as (rs & Hga & Hf2 & Hout).
    exists (id :: rs). split; [|split].
    + cbn [map snd generate_all]. rewrite Hg. cbn. rewrite Hga. reflexivity.
    + cbn [map fst]. constructor; [|exact Hf2].
      rewrite (Hout n Hnin), node_attrs_put, Nat.eqb_refl. reflexivity.
    + intros j Hj. cbn [map fst In] in Hj.
      rewrite (Hout j (fun H => Hj (or_intror H))), node_attrs_put.
      destruct (Nat.eqb_spec n j) as [->|_]; [exfalso; apply Hj; left; reflexivity|reflexivity].
Qed.

(* ---------- the main induction ---------- *)
Section Tree.
Variable src : bytes.
Variable h : heap.
Variable attrs : list (nat * list attr).

(* T n v: v is the text of the heading node n; R n r: r is the id the map attaches to n *)
Definition T (n : nat) (v : bytes) : Prop :=
  exists m, nth_error h n = Some m /\ bk m = BHeading /\ last_text src (blines m) = Ok v.
Definition R (n : nat) (r : bytes) : Prop :=
  node_attrs attrs n = Some (set_attr n_id (AVBytes r) []).

Hypothesis Hleaf : forall i n, nth_error h i = Some n -> container (bk n) = false -> bch n = [].
Hypothesis Hnone : forall j n, nth_error h j = Some n -> bk n <> BHeading -> node_attrs attrs j = None.

Definition goalT (f : nat) (i : nat) (l : list nat) (t : tree) : Prop :=
  forall vs rs, Forall2 T l vs -> Forall2 R l rs ->
    heading_texts src t = Ok vs /\
    forall rest, to_treeH f src h attrs i = Ok (fst (assign_ids t (rs ++ rest))) /\
                 snd (assign_ids t (rs ++ rest)) = rest.

Lemma kind_of_heading n k : kind_of src n = Ok k -> is_heading k = is_hd (bk n).
Proof.
  unfold kind_of. destruct (bk n); intros H; try (apply pc_Ok_inj in H as <-; reflexivity).
  destruct (b_seg n) as [sg|].
  - apply pc_bind_ok in H as (v & _ & H). apply pc_Ok_inj in H as <-. reflexivity.
  - apply pc_Ok_inj in H as <-. reflexivity.
Qed.

Lemma kids_lemma f :
  (forall i l t, hp h i l -> to_tree f src h i = Ok t -> goalT f i l t) ->
  forall cs l, hps h cs l -> forall ts, map_res (to_tree f src h) cs = Ok ts ->
  forall vs rs, Forall2 T l vs -> Forall2 R l rs ->
    texts_list src ts = Ok vs /\
    forall rest, map_res (to_treeH f src h attrs) cs = Ok (fst (assign_list ts (rs ++ rest))) /\
                 snd (assign_list ts (rs ++ rest)) = rest.
Proof.
  intros IHf cs l Hps. induction Hps as [|c cs l1 l2 Hc Hcs IH]; intros ts Hts vs rs HT HR.
  - cbn [map_res] in Hts. apply pc_Ok_inj in Hts as <-.
    inversion HT; subst. inversion HR; subst. split; [reflexivity|].
    intros rest. split; reflexivity.
  - cbn [map_res] in Hts. apply pc_bind_ok in Hts as (y & Hy & Hts).
    apply pc_bind_ok in Hts as (ys & Hys & Hts). apply pc_Ok_inj in Hts as <-.
    apply Forall2_app_inv_l in HT as (vs1 & vs2 & HT1 & HT2 & ->).
    apply Forall2_app_inv_l in HR as (rs1 & rs2 & HR1 & HR2 & ->).
    destruct (IHf _ _ _ Hc Hy _ _ HT1 HR1) as (Htx1 & Has1).
    destruct (IH _ Hys _ _ HT2 HR2) as (Htx2 & Has2).
    split.
    + cbn [texts_list]. rewrite Htx1. cbn. rewrite Htx2. reflexivity.
    + intros rest. rewrite assign_list_cons. rewrite <- app_assoc.
      destruct (Has1 (rs2 ++ rest)) as (Ht1 & Hr1). destruct (Has2 rest) as (Ht2 & Hr2).
      rewrite Hr1. cbn [fst snd]. split; [|exact Hr2].
      cbn [map_res]. rewrite Ht1. cbn. rewrite Ht2. reflexivity.
Qed.

Lemma last_text_seg ls : last_text src ls =
  match last_seg ls with Some sg => seg_value src sg | None => Ok [] end.
Proof. unfold last_text, last_seg. destruct (rev ls); reflexivity. Qed.

Lemma tree_lemma : forall f i l t, hp h i l -> to_tree f src h i = Ok t -> goalT f i l t.
Proof.
  induction f as [|f IHf]; intros i l t Hhp Ht; [discriminate Ht|].
  cbn [to_tree] in Ht. apply pc_bind_ok in Ht as (n & Hn & Ht).
  apply pc_bind_ok in Ht as (k & Hk & Ht). apply pc_bind_ok in Ht as (kids & Hkids & Ht).
  apply pc_Ok_inj in Ht as <-.
  assert (Hnth : nth_error h i = Some n).
  { unfold hget in Hn. destruct (nth_error h i); [apply pc_Ok_inj in Hn; congruence|discriminate]. }
  pose proof (kind_of_heading _ _ Hk) as Hih.
  intros vs rs HT HR.
  rewrite heading_texts_unfold.
  assert (HH : forall ks, map_res (to_treeH f src h attrs) (bch n) = Ok ks ->
            to_treeH (S f) src h attrs i = Ok (Node k (blines n) (node_attrs attrs i) ks)).
  { intros ks Hks. cbn [to_treeH]. rewrite Hn. cbn. rewrite Hk. cbn. rewrite Hks. reflexivity. }
  inversion Hhp as [i' n' Hn' Hbk|i' n' l' Hn' Hct Hps|i' n' Hn' Hint]; subst;
    rewrite Hnth in Hn'; injection Hn' as <-.
  - (* heading *)
    rewrite Hbk in Hih. cbn [is_hd] in Hih. rewrite Hih.
    assert (Hch : bch n = []) by (apply (Hleaf i n Hnth); rewrite Hbk; reflexivity).
    rewrite Hch in Hkids. cbn [map_res] in Hkids. apply pc_Ok_inj in Hkids as <-.
    inversion HT as [|x v lx vs' HTx HTr]; subst. inversion HTr; subst.
    inversion HR as [|x r lx rs' HRx HRr]; subst. inversion HRr; subst.
    destruct HTx as (m & Hm & _ & Hlt). rewrite Hnth in Hm. injection Hm as <-.
    rewrite last_text_seg in Hlt. split.
    + destruct (last_seg (blines n)) as [sg|].
      * rewrite Hlt. reflexivity.
      * apply pc_Ok_inj in Hlt as <-. reflexivity.
    + intros rest. rewrite assign_ids_unfold, Hih. cbn [app fst snd]. split; [|reflexivity].
      rewrite (HH []) by (rewrite Hch; reflexivity).
      unfold R in HRx. rewrite HRx. reflexivity.
  - (* container *)
    assert (Hnh : is_heading k = false).
    { rewrite Hih. destruct (bk n); try reflexivity; discriminate Hct. }
    rewrite Hnh.
    destruct (kids_lemma f IHf _ _ Hps _ Hkids _ _ HT HR) as (Htx & Has).
    split; [exact Htx|]. intros rest. rewrite assign_ids_unfold, Hnh. cbn [fst snd].
    destruct (Has rest) as (Hm & Hr). split; [|exact Hr].
    rewrite (HH _ Hm). rewrite (Hnone i n Hnth); [reflexivity|].
    intros E. rewrite E in Hct. discriminate Hct.
  - (* neither *)
    unfold intk in Hint. apply orb_false_elim in Hint as (Hhd & Hct).
    rewrite Hhd in Hih. rewrite Hih.
    rewrite (Hleaf i n Hnth Hct) in Hkids. cbn [map_res] in Hkids. apply pc_Ok_inj in Hkids as <-.
    inversion HT; subst. inversion HR; subst. split; [reflexivity|].
    intros rest. rewrite assign_ids_unfold, Hih. cbn [assign_list fst snd app]. split; [|reflexivity].
    rewrite (HH []) by (rewrite (Hleaf i n Hnth Hct); reflexivity).
    rewrite (Hnone i n Hnth); [reflexivity|].
    intros E. rewrite E in Hhd. discriminate Hhd.
Qed.

End Tree.

Theorem final_tree (src : bytes) (h : heap) (log : list (nat * bytes)) ids attrs t :
  TS h -> hp h 0%nat (map fst log) -> NoDup (map fst log) ->
  run_log utf8len_table space_table spaces log [] [] = Ok (ids, attrs) ->
  (forall n v, In (n, v) log ->
     exists m, nth_error h n = Some m /\ bk m = BHeading /\ last_text src (blines m) = Ok v) ->
  to_tree (S (length h)) src h 0%nat = Ok t ->
  exists t1, AutoIds src t = Ok t1 /\ to_treeH (S (length h)) src h attrs 0%nat = Ok t1.
Proof.
  intros HTS Hhp Hnd Hrun Hlog Ht.
  destruct (run_log_spec _ _ _ _ _ Hrun Hnd) as (rs & Hga & HR & Hout).
  assert (HT : Forall2 (T src h) (map fst log) (map snd log)).
  { clear - Hlog. induction log as [|[n v] r IH]; cbn [map fst snd]; constructor.
    - apply Hlog. left. reflexivity.
    - apply IH. intros n' v' Hin. apply Hlog. right. exact Hin. }
  assert (Hnone : forall j n, nth_error h j = Some n -> bk n <> BHeading -> node_attrs attrs j = None).
  { intros j n Hj Hbk. rewrite Hout; [reflexivity|].
    intros Hin. apply in_map_iff in Hin as ([j' v] & Hfst & Hin). cbn [fst] in Hfst. subst j'.
    destruct (Hlog _ _ Hin) as (m & Hm & Hbm & _). rewrite Hj in Hm. injection Hm as <-. contradiction. }
  destruct HTS as (_ & _ & _ & Hleaf).
  destruct (tree_lemma src h attrs Hleaf Hnone _ _ _ _ Hhp Ht _ _ HT HR) as (Htx & Has).
  destruct (Has []) as (HtH & _). rewrite app_nil_r in HtH.
  exists (fst (assign_ids t rs)). split; [|exact HtH].
  unfold AutoIds, GenerateAll. rewrite Htx. cbn. rewrite Hga. reflexivity.
Qed.
