(* Helper library for TypoDefWfBlk.v, part B (fork of ParseBlocksRangeB.v; its last part is TypoDefWfBlkT.v): the heap of
   block nodes, the invariant of the block phase with the definition list parsers, and its preservation by the
   primitive heap operations.  Changes with respect to the core invariant:
   - DefinitionList / DefinitionDescription nodes (BHTML, b_i1 = 100 / 102) have children: cnt;
     the b_seg of a DefinitionList is a node number (np_seg excludes it), its b_i2 is not negative (np_dl);
     a DefinitionTerm has one line that satisfies seg_ok (np_dt);
   - an attached node is a child of its parent (hs_P);
   - heap changes keep kind, type field and the b_seg of a DefinitionList (bki in shape_le / same_shape / data_le,
     kind_le);
   - a DefinitionList that is being closed can be opened again on the same line ("a" / ": b" / ": c"): it is then both
     in D and in N (os_ndD, os_ndN, os_dup instead of os_nodup);
   - an open paragraph the description parser has taken over stays in D, detached, while N grows: the chain of D is
     not claimed for a single paragraph when N is not empty (os_chain);
   - no DefinitionTerm is an opened block (os_dt); only the last of the new blocks can be a list whose b_seg is set
     (os_pend: the description parser clears it in the next round of the loop of openBlocks). *)
Require Import GM.model.Base GM.model.Util GM.model.Reader GM.model.ReaderSpec GM.model.Blocks GM.model.ListItem
               GM.model.LeafBlocks GM.model.CodeBlock GM.model.LinkDest GM.model.Regex GM.model.HtmlWriter
               GM.model.Html GM.model.HtmlSpec GM.model.BlockParse GM.model.InlineParse GM.model.TypoDefParseD.
Require Import GM.proofs.ReaderProofs GM.proofs.BlockRangeProofs GM.proofs.ParseInv
               GM.proofs.ParseBlocksRangeA.
From Coq Require Import ZArith Lia Sorted.
Open Scope Z_scope.

(* ================= heap access ================= *)
Lemma hget_ok h i n : hget h i = Ok n <-> nth_error h i = Some n.
Proof. unfold hget. destruct (nth_error h i); split; intros H; try discriminate; congruence. Qed.

Lemma length_hset h : forall i n, length (hset h i n) = length h.
Proof. induction h as [|x t IH]; intros [|i] n; cbn [hset length]; auto. Qed.

Lemma nth_hset_eq h : forall i n, (i < length h)%nat -> nth_error (hset h i n) i = Some n.
Proof.
  induction h as [|x t IH]; intros [|i] n Hi; cbn [hset length nth_error] in *; try lia; auto.
  apply IH. lia.
Qed.

Lemma nth_hset_ne h : forall i j n, i <> j -> nth_error (hset h i n) j = nth_error h j.
Proof.
  induction h as [|x t IH]; intros [|i] [|j] n Hij; cbn [hset nth_error]; auto; try congruence.
Qed.

(* a node of the updated heap is the new node or an old one *)
Lemma nth_hset_inv h i n j m : nth_error (hset h i n) j = Some m ->
  (j = i /\ m = n /\ (i < length h)%nat) \/ (j <> i /\ nth_error h j = Some m).
Proof.
  intros H. destruct (Nat.eq_dec j i) as [E|E].
  - subst j. left. assert (i < length h)%nat as Hi.
    { rewrite <- (length_hset h i n). apply nth_error_Some. congruence. }
    rewrite nth_hset_eq in H by exact Hi. injection H as <-. auto.
  - right. rewrite nth_hset_ne in H by congruence. auto.
Qed.

Lemma hupd_ok h i f h' : hupd h i f = Ok h' -> exists n, nth_error h i = Some n /\ h' = hset h i (f n).
Proof.
  unfold hupd. intros H. bind_inv H n Hn. apply hget_ok in Hn. injection H as <-. exists n. auto.
Qed.

Lemma nth_app_new {A} (h : list A) n : nth_error (h ++ [n]) (length h) = Some n.
Proof. rewrite nth_error_app2 by lia. rewrite Nat.sub_diag. reflexivity. Qed.

Lemma nth_app_inv {A} (h : list A) n j m : nth_error (h ++ [n]) j = Some m ->
  (j = length h /\ m = n) \/ ((j < length h)%nat /\ nth_error h j = Some m).
Proof.
  intros H. destruct (Nat.lt_ge_cases j (length h)) as [Hlt|Hge].
  - right. rewrite nth_error_app1 in H by exact Hlt. auto.
  - left. rewrite nth_error_app2 in H by exact Hge.
    destruct (j - length h)%nat as [|k] eqn:E; cbn in H.
    + injection H as <-. split; [lia|reflexivity].
    + destruct k; discriminate.
Qed.

Lemma nth_some_lt {A} (h : list A) i n : nth_error h i = Some n -> (i < length h)%nat.
Proof. intros H. apply nth_error_Some. congruence. Qed.

(* ================= child lists ================= *)
Lemma last_id_snoc l c : last_id (l ++ [c]) = Some c.
Proof. unfold last_id. rewrite rev_app_distr. reflexivity. Qed.

Lemma last_id_some l x : last_id l = Some x <-> exists l', l = l' ++ [x].
Proof.
  unfold last_id. split.
  - intros H. destruct (rev l) as [|y t] eqn:E; [discriminate|]. injection H as ->.
    exists (rev t). rewrite <- (rev_involutive l), E. reflexivity.
  - intros [l' ->]. rewrite rev_app_distr. reflexivity.
Qed.

Lemma last_id_in l x : last_id l = Some x -> In x l.
Proof. intros H. apply last_id_some in H. destruct H as [l' ->]. apply in_or_app. right. left. reflexivity. Qed.

Lemma remove_id_incl c l x : In x (remove_id c l) -> In x l.
Proof.
  induction l as [|y t IH]; cbn [remove_id]; [auto|]. destruct (Nat.eqb c y); intros H.
  - right. exact H.
  - destruct H as [H|H]; [left; exact H|right; auto].
Qed.

Lemma remove_id_nodup c l : NoDup l -> NoDup (remove_id c l) /\ ~ In c (remove_id c l).
Proof.
  induction l as [|y t IH]; cbn [remove_id]; intros Hnd.
  - split; [constructor|auto].
  - inversion Hnd as [|? ? Hy Ht]; subst. destruct (Nat.eqb_spec c y) as [E|E].
    + subst. auto.
    + destruct (IH Ht) as [H1 H2]. split.
      * constructor; [|exact H1]. intros H. apply Hy. eapply remove_id_incl; eassumption.
      * intros [H|H]; [congruence|auto].
Qed.

Lemma remove_id_keep c l x : In x l -> x <> c -> In x (remove_id c l).
Proof.
  induction l as [|y t IH]; cbn [remove_id]; [auto|]. intros [H|H] Hx.
  - subst y. destruct (Nat.eqb_spec c x); [congruence|left; reflexivity].
  - destruct (Nat.eqb_spec c y); [exact H|right; auto].
Qed.

Lemma remove_id_last c l x : last_id l = Some x -> x <> c -> last_id (remove_id c l) = Some x.
Proof.
  intros H Hx. apply last_id_some in H. destruct H as [l' ->]. apply last_id_some.
  induction l' as [|y t IH]; cbn [app remove_id].
  - destruct (Nat.eqb_spec c x); [congruence|]. exists []. reflexivity.
  - destruct (Nat.eqb_spec c y).
    + exists t. reflexivity.
    + destruct IH as [l'' E]. rewrite E. exists (y :: l''). reflexivity.
Qed.

Lemma replace_id_in old new l x : In x (replace_id old new l) -> x = new \/ In x l.
Proof.
  induction l as [|y t IH]; cbn [replace_id]; [auto|]. destruct (Nat.eqb old y); intros [H|H]; auto.
  - right. right. exact H.
  - right. left. exact H.
  - destruct (IH H); auto. right. right. assumption.
Qed.

Lemma replace_id_keep old new l x : In x l -> x <> old -> In x (replace_id old new l).
Proof.
  induction l as [|y t IH]; cbn [replace_id]; [auto|]. intros [H|H] Hx.
  - subst y. destruct (Nat.eqb_spec old x); [congruence|left; reflexivity].
  - destruct (Nat.eqb_spec old y); [right; exact H|right; auto].
Qed.

Lemma replace_id_nodup old new l : NoDup l -> ~ In new l -> NoDup (replace_id old new l) /\ (new <> old -> ~ In old (replace_id old new l)).
Proof.
  induction l as [|y t IH]; cbn [replace_id]; intros Hnd Hnew.
  - split; [constructor|auto].
  - inversion Hnd as [|? ? Hy Ht]; subst. destruct (Nat.eqb_spec old y) as [E|E].
    + subst y. split.
      * constructor; [|exact Ht]. intros H. apply Hnew. right. exact H.
      * intros Hne [H|H]; [congruence|auto].
    + destruct (IH Ht ltac:(intros H; apply Hnew; right; exact H)) as [H1 H2]. split.
      * constructor; [|exact H1]. intros H. apply replace_id_in in H. destruct H as [H|H]; [|auto].
        subst y. apply Hnew. left. reflexivity.
      * intros Hne [H|H]; [congruence|]. apply (H2 Hne H).
Qed.

Lemma replace_id_last old new l x : last_id l = Some x -> x <> old -> last_id (replace_id old new l) = Some x.
Proof.
  intros H Hx. apply last_id_some in H. destruct H as [l' ->]. apply last_id_some.
  induction l' as [|y t IH]; cbn [app replace_id].
  - destruct (Nat.eqb_spec old x); [congruence|]. exists []. reflexivity.
  - destruct (Nat.eqb_spec old y).
    + exists (new :: t). reflexivity.
    + destruct IH as [l'' E]. rewrite E. exists (y :: l''). reflexivity.
Qed.

Lemma replace_id_last_old old new l : last_id l = Some old -> NoDup l -> last_id (replace_id old new l) = Some new.
Proof.
  intros H Hnd. apply last_id_some in H. destruct H as [l' ->]. apply last_id_some.
  induction l' as [|y t IH]; cbn [app replace_id].
  - rewrite Nat.eqb_refl. exists []. reflexivity.
  - inversion Hnd as [|? ? Hy Ht]; subst. destruct (Nat.eqb_spec old y) as [E|E].
    + subst y. exfalso. apply Hy. apply in_or_app. right. left. reflexivity.
    + destruct (IH Ht) as [l'' E']. rewrite E'. exists (y :: l''). reflexivity.
Qed.

Lemma NoDup_app_snoc {A} (l : list A) c : NoDup l -> ~ In c l -> NoDup (l ++ [c]).
Proof.
  intros Hnd Hc. induction l as [|x t IH]; cbn [app].
  - constructor; [auto|constructor].
  - inversion Hnd as [|? ? Hx Ht]; subst. constructor.
    + intros H. apply in_app_or in H. destruct H as [H|[H|[]]]; [auto|]. subst. apply Hc. left. reflexivity.
    + apply IH; [exact Ht|]. intros H. apply Hc. right. exact H.
Qed.

(* ================= the invariant ================= *)
Definition ids (E : list (nat * bparser)) : list nat := map fst E.
Definition lastid (l : list nat) : nat := last l 0%nat.

Definition pkind (p : bparser) : bkind :=
  match p with
  | PSetext | PATX => BHeading | PThematic => BThematicBreak | PList => BList | PListItem => BListItem
  | PCodeBlock => BCodeBlock | PFenced => BFenced | PBlockquote => BBlockquote | PHTML => BHTML
  | PParagraph => BParagraph
  end.
Definition container (k : bkind) : bool :=
  match k with BDocument | BBlockquote | BList | BListItem => true | _ => false end.
(* the nodes that can have children *)
Definition cnt (n : bnode) : bool := container (bk n) || is_dl n || is_dd n.
(* what no step of the block phase changes: kind, type field, and the b_seg of a DefinitionList
   (but for the definition list parsers themselves) *)
Notation bki n := (bk n, b_i1 n, (if is_dl n then b_seg n else None)).

Lemma bki_eq n n' : bki n' = bki n ->
  bk n' = bk n /\ b_i1 n' = b_i1 n /\ is_dl n' = is_dl n /\ is_dt n' = is_dt n /\ is_dd n' = is_dd n /\ cnt n' = cnt n /\
  (is_dl n = true -> b_seg n' = b_seg n).
Proof.
  intros H. injection H as H1 H2 H3.
  assert (is_dl n' = is_dl n) as Hl by (unfold is_dl; rewrite H1, H2; reflexivity).
  assert (is_dt n' = is_dt n) as Ht by (unfold is_dt; rewrite H1, H2; reflexivity).
  assert (is_dd n' = is_dd n) as Hd by (unfold is_dd; rewrite H1, H2; reflexivity).
  csplit; auto.
  - unfold cnt. rewrite H1, Hl, Hd. reflexivity.
  - intros E. rewrite Hl, E in H3. exact H3.
Qed.
Lemma bki_intro n n' : bk n' = bk n -> b_i1 n' = b_i1 n -> (is_dl n = true -> b_seg n' = b_seg n) -> bki n' = bki n.
Proof.
  intros H1 H2 H3. assert (is_dl n' = is_dl n) as Hl by (unfold is_dl; rewrite H1, H2; reflexivity).
  rewrite H1, H2, Hl. destruct (is_dl n) eqn:E; [rewrite (H3 eq_refl)|]; reflexivity.
Qed.
Lemma cnt_kind n : cnt n = false -> container (bk n) = false /\ is_dl n = false /\ is_dd n = false.
Proof. unfold cnt. intros H. apply Bool.orb_false_iff in H. destruct H as [H H3]. apply Bool.orb_false_iff in H. tauto. Qed.
Lemma is_dl_kind n : is_dl n = true -> bk n = BHTML /\ b_i1 n = 100.
Proof. unfold is_dl. intros H. apply andb_true_iff in H. destruct H as [H1 H2]. split; [destruct (bk n); try discriminate; reflexivity|lia]. Qed.
Lemma is_dt_kind n : is_dt n = true -> bk n = BHTML /\ b_i1 n = 101.
Proof. unfold is_dt. intros H. apply andb_true_iff in H. destruct H as [H1 H2]. split; [destruct (bk n); try discriminate; reflexivity|lia]. Qed.
Lemma is_dd_kind n : is_dd n = true -> bk n = BHTML /\ b_i1 n = 102.
Proof. unfold is_dd. intros H. apply andb_true_iff in H. destruct H as [H1 H2]. split; [destruct (bk n); try discriminate; reflexivity|lia]. Qed.
Lemma not_html_d n : bk n <> BHTML -> is_dl n = false /\ is_dt n = false /\ is_dd n = false.
Proof. unfold is_dl, is_dt, is_dd. intros H. destruct (bk n); try congruence; auto. Qed.

Definition lastchild (h : heap) (p x : nat) : Prop := exists np, nth_error h p = Some np /\ last_id (bch np) = Some x.
Definition child (h : heap) (p x : nat) : Prop := exists np, nth_error h p = Some np /\ In x (bch np).
(* q immediately followed by x in l *)
Definition Adj (l : list nat) (q x : nat) : Prop := exists l1 l2, l = l1 ++ q :: x :: l2.
(* every element of l is the last child (a child) of its predecessor *)
Definition spineL (h : heap) (l : list nat) : Prop := forall q x, Adj l q x -> lastchild h q x.
Definition chainL (h : heap) (l : list nat) : Prop := forall q x, Adj l q x -> child h q x.

Lemma Adj_app_l l m q x : Adj l q x -> Adj (l ++ m) q x.
Proof. intros [l1 [l2 ->]]. exists l1, (l2 ++ m). rewrite <- app_assoc. reflexivity. Qed.
Lemma Adj_app_r l m q x : Adj m q x -> Adj (l ++ m) q x.
Proof. intros [l1 [l2 ->]]. exists (l ++ l1), l2. rewrite <- app_assoc. reflexivity. Qed.
Lemma Adj_in l q x : Adj l q x -> In q l /\ In x l.
Proof.
  intros [l1 [l2 ->]]. split; apply in_or_app; right; [left; reflexivity|right; left; reflexivity].
Qed.
Lemma Adj_cons a l q x : Adj (a :: l) q x <-> (q = a /\ exists t, l = x :: t) \/ Adj l q x.
Proof.
  split.
  - intros [l1 [l2 E]]. destruct l1 as [|b l1]; cbn [app] in E.
    + injection E as -> ->. left. split; [reflexivity|eexists; reflexivity].
    + injection E as -> ->. right. exists l1, l2. reflexivity.
  - intros [[-> [t ->]]|[l1 [l2 ->]]].
    + exists [], t. reflexivity.
    + exists (a :: l1), l2. reflexivity.
Qed.
Lemma Adj_nil q x : ~ Adj [] q x.
Proof. intros [l1 [l2 E]]. destruct l1; discriminate. Qed.
Lemma Adj_single a q x : ~ Adj [a] q x.
Proof. intros H. apply Adj_cons in H. destruct H as [[_ [t E]]|H]; [discriminate|exact (Adj_nil _ _ H)]. Qed.

Lemma last_app_single {A} (l : list A) c d : last (l ++ [c]) d = c.
Proof. induction l as [|x t IH]; [reflexivity|]. cbn [app]. destruct (t ++ [c]) eqn:E; [destruct t; discriminate|]. exact IH. Qed.
Lemma last_cons_ne {A} (a : A) l d : l <> [] -> last (a :: l) d = last l d.
Proof. destruct l; [congruence|reflexivity]. Qed.
Lemma last_in {A} (l : list A) d : l <> [] -> In (last l d) l.
Proof.
  induction l as [|x t IH]; [congruence|]. intros _. destruct t as [|y t']; [left; reflexivity|].
  right. apply IH. discriminate.
Qed.
Lemma last_indep {A} (l : list A) d d' : l <> [] -> last l d = last l d'.
Proof. induction l as [|x t IH]; [congruence|]. intros _. destruct t; [reflexivity|]. apply IH. discriminate. Qed.

Lemma Adj_snoc_inv l c q x : Adj (l ++ [c]) q x -> Adj l q x \/ (l <> [] /\ q = last l 0%nat /\ x = c).
Proof.
  intros [l1 [l2 E]]. destruct (rev l2) as [|z l2r] eqn:El2.
  - apply (f_equal (@rev nat)) in El2. rewrite rev_involutive in El2. cbn in El2. subst l2.
    change (l1 ++ [q; x]) with (l1 ++ [q] ++ [x]) in E. rewrite app_assoc in E.
    apply app_inj_tail in E. destruct E as [-> ->]. right. split; [destruct l1; discriminate|].
    rewrite last_app_single. auto.
  - apply (f_equal (@rev nat)) in El2. rewrite rev_involutive in El2. cbn [rev] in El2. subst l2.
    change (l1 ++ q :: x :: rev l2r ++ [z]) with (l1 ++ (q :: x :: rev l2r) ++ [z]) in E.
    rewrite app_assoc in E. apply app_inj_tail in E. destruct E as [-> ->]. left. exists l1, (rev l2r). reflexivity.
Qed.

Lemma Adj_not_last l q x d : NoDup l -> Adj l q x -> q <> last l d.
Proof.
  intros Hnd [l1 [l2 ->]] E. apply NoDup_remove_2 in Hnd.
  apply Hnd. apply in_or_app. right.
  assert (last (l1 ++ q :: x :: l2) d = last (x :: l2) d) as El.
  { clear. induction l1 as [|a t IH]; cbn [app].
    - reflexivity.
    - rewrite last_cons_ne by (destruct t; discriminate). exact IH. }
  rewrite El in E. rewrite E. apply last_in. discriminate.
Qed.

Lemma spineL_le h h' l : (forall q x, Adj l q x -> lastchild h q x -> lastchild h' q x) -> spineL h l -> spineL h' l.
Proof. intros Hf H q x Ha. auto. Qed.
Lemma chainL_le h h' l : (forall q x, Adj l q x -> child h q x -> child h' q x) -> chainL h l -> chainL h' l.
Proof. intros Hf H q x Ha. auto. Qed.
Lemma spineL_chainL h l : spineL h l -> chainL h l.
Proof. intros H q x Ha. destruct (H q x Ha) as [np [E L]]. exists np. split; [exact E|apply last_id_in; exact L]. Qed.

Section Inv.
Variable space_table : list N.
Variable src : bytes.
Notation is_blank := (Reader.is_blank space_table).

(* a line of an open paragraph: inside the source, some byte that is not white space *)
Definition pline (sg : seg) : Prop :=
  seg_inr src sg /\ s_fnl sg = false /\ is_blank (sub src (s_start sg) (s_stop sg)) = false.
(* a line as the inline phase wants it *)
Definition oline (sg : seg) : Prop :=
  0 <= s_start sg < s_stop sg /\ s_stop sg <= zlen src /\ s_pad sg = 0 /\ s_fnl sg = false.
Definition sorted_segs : list seg -> Prop := StronglySorted (fun a b : seg => s_stop a <= s_start b).
Definition fin_lines (l : list seg) : Prop := Forall oline l /\ sorted_segs l.

Record nodeP (n : bnode) : Prop := {
  np_lines : Forall (seg_inr src) (blines n);
  np_seg : forall sg, b_seg n = Some sg -> is_dl n = false -> seg_inr src sg;
  np_head : bk n = BHeading -> 1 <= b_i1 n <= 6;
  np_item : bk n = BListItem -> 0 <= b_i1 n;
  np_para : bk n = BParagraph -> Forall pline (blines n) /\ sorted_segs (blines n) /\ blines n <> [];
  np_text : bk n = BTextBlock -> fin_lines (blines n);
  np_leaf : cnt n = false -> bch n = [];
  np_dt : is_dt n = true -> exists sg, blines n = [sg] /\ seg_ok src sg;
  np_dl : is_dl n = true -> 0 <= b_i2 n
}.
Definition fin (n : bnode) : Prop := bk n = BParagraph \/ bk n = BHeading -> fin_lines (blines n).

Record heapS (h : heap) : Prop := {
  hs_root : exists n0, nth_error h 0 = Some n0 /\ bk n0 = BDocument /\ bpar n0 = None;
  hs_K : forall p np c, nth_error h p = Some np -> In c (bch np) ->
         exists nc, nth_error h c = Some nc /\ bpar nc = Some p;
  hs_nd : forall p np, nth_error h p = Some np -> NoDup (bch np);
  hs_noself : forall i n, nth_error h i = Some n -> bpar n <> Some i;
  hs_item : forall p np c nc, nth_error h p = Some np -> In c (bch np) -> nth_error h c = Some nc ->
            bk nc = BListItem -> bk np = BList;
  hs_node : forall i n, nth_error h i = Some n -> nodeP n;
  hs_P : forall i n p, nth_error h i = Some n -> bpar n = Some p -> child h p i
}.
(* attached nodes that are not open any more are final *)
Definition Jinv (h : heap) (R : list nat) : Prop :=
  forall c nc, nth_error h c = Some nc -> bpar nc <> None -> fin nc \/ In c R.
(* the lines of paragraphs end at or before b *)
Definition Bnd (h : heap) (b : Z) : Prop :=
  forall i n sg, nth_error h i = Some n -> bk n = BParagraph -> In sg (blines n) -> s_stop sg <= b.

Record openS (h : heap) (c : pctx) (A D N : list (nat * bparser)) : Prop := {
  os_pair : forall x bp, In (x, bp) (A ++ D ++ N) -> exists n, nth_error h x = Some n /\ bk n = pkind bp;
  os_atx : forall x, In (x, PATX) (A ++ D ++ N) -> exists n, nth_error h x = Some n /\ fin_lines (blines n);
  os_ndD : NoDup (ids (A ++ D));
  os_ndN : NoDup (ids (A ++ N));
  os_dup : forall x, In x (ids D) -> In x (ids N) -> exists n, nth_error h x = Some n /\ is_dl n = true;
  os_spine : spineL h (0%nat :: ids (A ++ N));
  os_chain : chainL h (lastid (ids A) :: ids D) \/ (N <> [] /\ exists x, D = [(x, PParagraph)]);
  os_lc : N = [] -> match D with d :: _ => lastchild h (lastid (ids A)) (fst d) | [] => True end;
  os_tmp : forall x, In (x, PSetext) (A ++ D ++ N) ->
           exists tmp t, c_tmp_para c = Some tmp /\ nth_error h tmp = Some t /\ bk t = BParagraph /\
                         fin_lines (blines t) /\ ~ In tmp (ids (A ++ D ++ N));
  os_fence : forall ch i l n, c_fence c = Some (ch, i, l, n) -> 0 <= i;
  os_dt : forall x bp n, In (x, bp) (A ++ D ++ N) -> nth_error h x = Some n -> is_dt n = false;
  os_pend : forall x bp n, In (x, bp) (A ++ D ++ N) -> nth_error h x = Some n -> is_dl n = true -> b_seg n <> None ->
            N <> [] /\ x = lastid (ids N)
}.

(* everything except the reader *)
Record HI (b : Z) (h : heap) (c : pctx) (A D N : list (nat * bparser)) : Prop := {
  hi_bnd : Bnd h b;
  hi_heap : heapS h;
  hi_J : Jinv h (ids (A ++ D ++ N));
  hi_open : openS h c A D N;
  hi_refs : refs_ok (c_refs c)
}.

Inductive flavor := FF | WW.
Definition rd_ok (fl : flavor) (r : reader) : Prop := match fl with FF => R2 src r | WW => RW src r end.
Definition rd_bound (fl : flavor) (r : reader) : Z :=
  match fl with FF => s_start (r_pos r) | WW => s_stop (r_pos r) end.
Definition SInv (fl : flavor) (s : st) (A D N : list (nat * bparser)) : Prop :=
  rd_ok fl (s_r s) /\ HI (rd_bound fl (s_r s)) (s_h s) (s_c s) A D N.

(* ================= structure-preserving changes ================= *)
(* every old node is still there with the same kind, parent and children *)
Definition shape_le (h h' : heap) : Prop :=
  forall i n, nth_error h i = Some n ->
  exists n', nth_error h' i = Some n' /\ bki n' = bki n /\ bpar n' = bpar n /\ bch n' = bch n.

Lemma shape_le_refl h : shape_le h h.
Proof. intros i n H. exists n. auto. Qed.
Lemma shape_le_trans a b c : shape_le a b -> shape_le b c -> shape_le a c.
Proof.
  intros H1 H2 i n H. destruct (H1 i n H) as [n1 [E1 [K1 [P1 C1]]]].
  destruct (H2 i n1 E1) as [n2 [E2 [K2 [P2 C2]]]]. exists n2. csplit; congruence.
Qed.

Lemma lastchild_le h h' p x : shape_le h h' -> lastchild h p x -> lastchild h' p x.
Proof. intros Hle [np [E L]]. destruct (Hle p np E) as [n' [E' [_ [_ C]]]]. exists n'. rewrite C. auto. Qed.
Lemma child_le h h' p x : shape_le h h' -> child h p x -> child h' p x.
Proof. intros Hle [np [E L]]. destruct (Hle p np E) as [n' [E' [_ [_ C]]]]. exists n'. rewrite C. auto. Qed.
(* updating one node without touching kind, parent, children *)
Definition same_shape (n n' : bnode) : Prop := bki n' = bki n /\ bpar n' = bpar n /\ bch n' = bch n.

Lemma shape_le_hset h i n n' : nth_error h i = Some n -> same_shape n n' -> shape_le h (hset h i n').
Proof.
  intros E [K [P C]] j m Hj. destruct (Nat.eq_dec j i) as [->|Hne].
  - exists n'. rewrite nth_hset_eq by (eapply nth_some_lt; eassumption). assert (m = n) by congruence. subst. auto.
  - exists m. rewrite nth_hset_ne by congruence. auto.
Qed.
Lemma shape_le_app h n : shape_le h (h ++ [n]).
Proof. intros j m Hj. exists m. rewrite nth_error_app1 by (eapply nth_some_lt; eassumption). auto. Qed.

Lemma heapS_hset h i n n' : heapS h -> nth_error h i = Some n -> same_shape n n' -> nodeP n' -> heapS (hset h i n').
Proof.
  intros [Hroot HK Hnd Hns Hit Hnode HP] E [K [P C]] Hn'. pose proof (nth_some_lt _ _ _ E) as Hi.
  apply bki_eq in K. destruct K as [K _]. constructor.
  - destruct Hroot as [n0 [E0 [K0 P0]]]. destruct (Nat.eq_dec i 0) as [->|Hne].
    + exists n'. rewrite nth_hset_eq by exact Hi. assert (n0 = n) by congruence. subst. csplit; congruence.
    + exists n0. rewrite nth_hset_ne by congruence. auto.
  - intros p np c Hp Hc. apply nth_hset_inv in Hp.
    assert (exists np0, nth_error h p = Some np0 /\ bch np0 = bch np) as [np0 [Ep0 Ec0]].
    { destruct Hp as [[-> [-> _]]|[_ Hp]]; [exists n; auto|exists np; auto]. }
    rewrite <- Ec0 in Hc. destruct (HK p np0 c Ep0 Hc) as [nc [Enc Pc]].
    destruct (Nat.eq_dec c i) as [->|Hne].
    + exists n'. rewrite nth_hset_eq by exact Hi. assert (nc = n) by congruence. subst. split; congruence.
    + exists nc. rewrite nth_hset_ne by congruence. auto.
  - intros p np Hp. apply nth_hset_inv in Hp. destruct Hp as [[-> [-> _]]|[_ Hp]].
    + rewrite C. eapply Hnd; eassumption.
    + eapply Hnd; eassumption.
  - intros j m Hj. apply nth_hset_inv in Hj. destruct Hj as [[-> [-> _]]|[_ Hj]].
    + rewrite P. eapply Hns; eassumption.
    + eapply Hns; eassumption.
  - intros p np c nc Hp Hin Hc Kc. apply nth_hset_inv in Hc. apply nth_hset_inv in Hp.
    assert (exists nc0, nth_error h c = Some nc0 /\ bk nc0 = bk nc) as [nc0 [Ec0 Kc0]].
    { destruct Hc as [[-> [-> _]]|[_ Hc]]; [exists n; auto|exists nc; auto]. }
    assert (exists np0, nth_error h p = Some np0 /\ bk np0 = bk np /\ bch np0 = bch np) as [np0 [Ep0 [Kp0 Cp0]]].
    { destruct Hp as [[-> [-> _]]|[_ Hp]]; [exists n; auto|exists np; auto]. }
    rewrite <- Kp0. eapply (Hit p np0 c nc0); try eassumption; congruence.
  - intros j m Hj. apply nth_hset_inv in Hj. destruct Hj as [[-> [-> _]]|[_ Hj]]; [exact Hn'|eapply Hnode; eassumption].
  - intros j m q Hj Pj. apply nth_hset_inv in Hj.
    assert (exists m0, nth_error h j = Some m0 /\ bpar m0 = bpar m) as [m0 [Ej0 Pj0]].
    { destruct Hj as [[-> [-> _]]|[_ Hj]]; [exists n; auto|exists m; auto]. }
    rewrite <- Pj0 in Pj. destruct (HP j m0 q Ej0 Pj) as [nq [Eq Hin]].
    destruct (Nat.eq_dec q i) as [->|Hne].
    + exists n'. rewrite nth_hset_eq by exact Hi. assert (nq = n) by congruence. subst. split; [reflexivity|]. rewrite C. exact Hin.
    + exists nq. rewrite nth_hset_ne by congruence. auto.
Qed.

Lemma heapS_app h n : heapS h -> bpar n = None -> bch n = [] -> nodeP n -> heapS (h ++ [n]).
Proof.
  intros [Hroot HK Hnd Hns Hit Hnode HP] P C Hn. constructor.
  - destruct Hroot as [n0 [E0 H0]]. exists n0. rewrite nth_error_app1 by (eapply nth_some_lt; eassumption). auto.
  - intros p np c Hp Hc. apply nth_app_inv in Hp. destruct Hp as [[-> ->]|[Hlt Hp]].
    + rewrite C in Hc. destruct Hc.
    + destruct (HK p np c Hp Hc) as [nc [Enc Pc]]. exists nc.
      rewrite nth_error_app1 by (eapply nth_some_lt; eassumption). auto.
  - intros p np Hp. apply nth_app_inv in Hp. destruct Hp as [[-> ->]|[Hlt Hp]].
    + rewrite C. constructor.
    + eapply Hnd; eassumption.
  - intros j m Hj. apply nth_app_inv in Hj. destruct Hj as [[-> ->]|[Hlt Hj]]; [congruence|eapply Hns; eassumption].
  - intros p np c nc Hp Hin Hc Kc. apply nth_app_inv in Hp. destruct Hp as [[-> ->]|[_ Hp]].
    + rewrite C in Hin. destruct Hin.
    + destruct (HK p np c Hp Hin) as [nc' [Ec' _]].
      pose proof (nth_some_lt _ _ _ Ec') as Hlt. rewrite nth_error_app1 in Hc by exact Hlt. exact (Hit p np c nc Hp Hin Hc Kc).
  - intros j m Hj. apply nth_app_inv in Hj. destruct Hj as [[-> ->]|[Hlt Hj]]; [exact Hn|eapply Hnode; eassumption].
  - intros j m q Hj Pj. apply nth_app_inv in Hj. destruct Hj as [[-> ->]|[Hlt Hj]]; [congruence|].
    destruct (HP j m q Hj Pj) as [nq [Eq Hin]]. exists nq. rewrite nth_error_app1 by (eapply nth_some_lt; eassumption). auto.
Qed.

Lemma Jinv_hset h R i n n' : Jinv h R -> nth_error h i = Some n -> (bpar n' <> None -> fin n' \/ In i R) ->
  Jinv (hset h i n') R.
Proof.
  intros HJ E Hn' c nc Hc Hp. apply nth_hset_inv in Hc. destruct Hc as [[-> [-> _]]|[_ Hc]]; [auto|].
  eapply HJ; eassumption.
Qed.
Lemma Jinv_app h R n : Jinv h R -> bpar n = None -> Jinv (h ++ [n]) R.
Proof.
  intros HJ P c nc Hc Hp. apply nth_app_inv in Hc. destruct Hc as [[-> ->]|[_ Hc]]; [congruence|].
  eapply HJ; eassumption.
Qed.
Lemma Jinv_mono h R R' : Jinv h R -> incl R R' -> Jinv h R'.
Proof. intros HJ Hi c nc Hc Hp. destruct (HJ c nc Hc Hp); [left|right]; auto. Qed.

Lemma Bnd_hset h b i n' : Bnd h b -> (bk n' = BParagraph -> forall sg, In sg (blines n') -> s_stop sg <= b) ->
  Bnd (hset h i n') b.
Proof.
  intros HB Hn' j m sg Hj Hk Hs. apply nth_hset_inv in Hj. destruct Hj as [[-> [-> _]]|[_ Hj]]; [auto|].
  eapply HB; eassumption.
Qed.
Lemma Bnd_app h b n : Bnd h b -> (bk n = BParagraph -> forall sg, In sg (blines n) -> s_stop sg <= b) ->
  Bnd (h ++ [n]) b.
Proof.
  intros HB Hn' j m sg Hj Hk Hs. apply nth_app_inv in Hj. destruct Hj as [[-> ->]|[_ Hj]]; [auto|].
  eapply HB; eassumption.
Qed.
Lemma Bnd_mono h b b' : Bnd h b -> b <= b' -> Bnd h b'.
Proof. intros HB Hle j m sg Hj Hk Hs. specialize (HB j m sg Hj Hk Hs). lia. Qed.


(* ================= nodes with the same data ================= *)
Lemma nodeP_same n n' : nodeP n -> blines n' = blines n -> b_seg n' = b_seg n -> bk n' = bk n -> b_i1 n' = b_i1 n ->
  b_i2 n' = b_i2 n -> (cnt n = false -> bch n' = []) -> nodeP n'.
Proof.
  intros [H1 H2 H3 H4 H5 H6 H7 H8 H9] El Es Ek Ei Ej Hc.
  assert (is_dl n' = is_dl n) as Hl by (unfold is_dl; rewrite Ek, Ei; reflexivity).
  assert (is_dt n' = is_dt n) as Ht by (unfold is_dt; rewrite Ek, Ei; reflexivity).
  assert (is_dd n' = is_dd n) as Hd by (unfold is_dd; rewrite Ek, Ei; reflexivity).
  assert (cnt n' = cnt n) as Hcn by (unfold cnt; rewrite Ek, Hl, Hd; reflexivity).
  constructor; rewrite ?El, ?Es, ?Ek, ?Ei, ?Ej, ?Hl, ?Ht, ?Hcn; auto.
Qed.

Lemma fin_same n n' : fin n -> blines n' = blines n -> bk n' = bk n -> fin n'.
Proof. unfold fin. intros H El Ek. rewrite El, Ek. exact H. Qed.

Lemma opt_nat_eqb_true a b : opt_nat_eqb a b = true <-> a = b.
Proof.
  destruct a as [x|], b as [y|]; cbn [opt_nat_eqb]; split; intros H; try discriminate; try reflexivity.
  - apply Nat.eqb_eq in H. congruence.
  - injection H as ->. apply Nat.eqb_refl.
Qed.

(* kind and lines of the old nodes are kept *)
Definition data_le (h h' : heap) : Prop :=
  forall i n, nth_error h i = Some n -> exists n', nth_error h' i = Some n' /\ bki n' = bki n /\ blines n' = blines n.
Lemma data_le_refl h : data_le h h.
Proof. intros i n H. exists n. auto. Qed.
Lemma data_le_trans a b c : data_le a b -> data_le b c -> data_le a c.
Proof.
  intros H1 H2 i n H. destruct (H1 i n H) as [n1 [E1 [K1 L1]]]. destruct (H2 i n1 E1) as [n2 [E2 [K2 L2]]].
  exists n2. csplit; congruence.
Qed.

(* ================= AppendChild ================= *)
Lemma append_child_spec h p c h1 : append_child h p c = Ok h1 -> c <> p ->
  exists nc np, nth_error h c = Some nc /\ nth_error h p = Some np /\ length h1 = length h /\
    nth_error h1 c = Some (set_par nc (Some p)) /\ nth_error h1 p = Some (set_ch np (bch np ++ [c])) /\
    forall j, j <> c -> j <> p -> nth_error h1 j = nth_error h j.
Proof.
  unfold append_child. intros H Hne. bind_inv H h0 E0. apply hupd_ok in E0. destruct E0 as [nc [Ec ->]].
  apply hupd_ok in H. destruct H as [np [Ep ->]]. rewrite nth_hset_ne in Ep by congruence.
  exists nc, np. csplit; auto.
  - rewrite !length_hset. reflexivity.
  - rewrite nth_hset_ne by congruence. apply nth_hset_eq. eapply nth_some_lt; eassumption.
  - apply nth_hset_eq. rewrite length_hset. eapply nth_some_lt; eassumption.
  - intros j H1 H2. rewrite !nth_hset_ne by congruence. reflexivity.
Qed.

Section Append.
Variables (h h1 : heap) (p c : nat) (nc np : bnode).
Hypothesis Hcp : c <> p.
Hypothesis Ec : nth_error h c = Some nc.
Hypothesis Ep : nth_error h p = Some np.
Hypothesis E1c : nth_error h1 c = Some (set_par nc (Some p)).
Hypothesis E1p : nth_error h1 p = Some (set_ch np (bch np ++ [c])).
Hypothesis E1o : forall j, j <> c -> j <> p -> nth_error h1 j = nth_error h j.

Lemma append_cases j m : nth_error h1 j = Some m ->
  (j = c /\ m = set_par nc (Some p)) \/ (j = p /\ m = set_ch np (bch np ++ [c])) \/
  (j <> c /\ j <> p /\ nth_error h j = Some m).
Proof.
  intros H. destruct (Nat.eq_dec j c) as [->|H1]; [left; split; congruence|].
  destruct (Nat.eq_dec j p) as [->|H2]; [right; left; split; congruence|].
  right. right. rewrite E1o in H by assumption. auto.
Qed.

Lemma append_bpar_same x nx : x <> c -> nth_error h x = Some nx -> exists nx', nth_error h1 x = Some nx' /\ bpar nx' = bpar nx.
Proof.
  intros Hx Ex. destruct (Nat.eq_dec x p) as [->|Hp].
  - eexists. split; [exact E1p|]. assert (nx = np) by congruence. subst. reflexivity.
  - exists nx. rewrite E1o by assumption. auto.
Qed.

Lemma append_data_le : data_le h h1.
Proof.
  intros j m Hj. destruct (Nat.eq_dec j c) as [->|H1].
  - eexists. split; [exact E1c|]. assert (m = nc) by congruence. subst. auto.
  - destruct (Nat.eq_dec j p) as [->|H2].
    + eexists. split; [exact E1p|]. assert (m = np) by congruence. subst. auto.
    + exists m. rewrite E1o by assumption. auto.
Qed.

Lemma append_child_keep q y : child h q y -> child h1 q y.
Proof.
  intros [nq [Eq L]]. destruct (Nat.eq_dec q c) as [->|Hqc].
  - eexists. split; [exact E1c|]. assert (nq = nc) by congruence. subst. exact L.
  - destruct (Nat.eq_dec q p) as [->|Hqp].
    + eexists. split; [exact E1p|]. assert (nq = np) by congruence. subst. cbn [set_ch bch]. apply in_or_app. left. exact L.
    + exists nq. rewrite E1o by assumption. auto.
Qed.

(* c, detached, is appended to the children of p; c can have children (a definition list that is opened again) *)
Lemma heapS_append : heapS h -> bpar nc = None -> cnt np = true -> c <> 0%nat ->
  (bk nc = BListItem -> bk np = BList) -> heapS h1.
Proof.
  intros [Hroot HK Hnd Hns Hit Hnode HP] Pc Kp Hc0 Hli.
  assert (forall x nx, nth_error h1 x = Some nx -> exists nx0, nth_error h x = Some nx0 /\ bk nx0 = bk nx) as Hkind.
  { intros x nx Hx. apply append_cases in Hx. destruct Hx as [[-> ->]|[[-> ->]|[_ [_ Hx]]]]; eexists; split; try eassumption; reflexivity. }
  constructor.
  - destruct Hroot as [n0 [E0 [K0 P0]]]. destruct (Nat.eq_dec 0 p) as [<-|Hne].
    + eexists. split; [exact E1p|]. assert (n0 = np) by congruence. subst. auto.
    + exists n0. rewrite E1o by congruence. auto.
  - intros q nq x Hq Hx. apply append_cases in Hq. destruct Hq as [[-> ->]|[[-> ->]|[H1 [H2 Hq]]]].
    + cbn [set_par bch] in Hx. destruct (HK c nc x Ec Hx) as [nx [Ex Px]].
      assert (x <> c) as Hxc by (intros ->; congruence).
      destruct (append_bpar_same x nx Hxc Ex) as [nx' [Ex' Px']]. exists nx'. split; congruence.
    + cbn [set_ch bch] in Hx. apply in_app_or in Hx. destruct Hx as [Hx|[<-|[]]].
      * destruct (HK p np x Ep Hx) as [nx [Ex Px]].
        assert (x <> c) as Hxc by (intros ->; congruence).
        destruct (append_bpar_same x nx Hxc Ex) as [nx' [Ex' Px']]. exists nx'. split; congruence.
      * eexists. split; [exact E1c|reflexivity].
    + destruct (HK q nq x Hq Hx) as [nx [Ex Px]].
      assert (x <> c) as Hxc by (intros ->; congruence).
      destruct (append_bpar_same x nx Hxc Ex) as [nx' [Ex' Px']]. exists nx'. split; congruence.
  - intros q nq Hq. apply append_cases in Hq. destruct Hq as [[-> ->]|[[-> ->]|[H1 [H2 Hq]]]].
    + cbn [set_par bch]. eapply Hnd; eassumption.
    + cbn [set_ch bch]. apply NoDup_app_snoc.
      * eapply Hnd; eassumption.
      * intros Hin. destruct (HK p np c Ep Hin) as [nx [Ex Px]]. congruence.
    + eapply Hnd; eassumption.
  - intros q nq Hq. apply append_cases in Hq. destruct Hq as [[-> ->]|[[-> ->]|[H1 [H2 Hq]]]].
    + cbn [set_par bpar]. congruence.
    + cbn [set_ch bpar]. eapply Hns; eassumption.
    + eapply Hns; eassumption.
  - intros q nq x nx Hq Hin Hx Kx. destruct (Hkind x nx Hx) as [nx0 [Ex0 Kx0]].
    apply append_cases in Hq. destruct Hq as [[-> ->]|[[-> ->]|[H1 [H2 Hq]]]].
    + cbn [set_par bch bk] in *. eapply (Hit c nc x nx0); try eassumption. congruence.
    + cbn [set_ch bch bk] in *. apply in_app_or in Hin. destruct Hin as [Hin|[<-|[]]].
      * eapply (Hit p np x nx0); try eassumption. congruence.
      * apply Hli. assert (nx0 = nc) by congruence. subst. congruence.
    + eapply (Hit q nq x nx0); try eassumption. congruence.
  - intros q nq Hq. apply append_cases in Hq. destruct Hq as [[-> ->]|[[-> ->]|[H1 [H2 Hq]]]].
    + apply (nodeP_same nc); auto; [eapply Hnode; eassumption|]. intros Hk. cbn [set_par bch]. apply (np_leaf nc (Hnode _ _ Ec) Hk).
    + apply (nodeP_same np); auto; [eapply Hnode; eassumption|]. intros Hk. congruence.
    + eapply Hnode; eassumption.
  - intros j m q Hj Pj. apply append_cases in Hj. destruct Hj as [[-> ->]|[[-> ->]|[H1 [H2 Hj]]]].
    + cbn [set_par bpar] in Pj. injection Pj as <-. eexists. split; [exact E1p|]. cbn [set_ch bch]. apply in_or_app. right. left. reflexivity.
    + cbn [set_ch bpar] in Pj. apply append_child_keep. exact (HP p np q Ep Pj).
    + apply append_child_keep. exact (HP j m q Hj Pj).
Qed.

Lemma Jinv_append R R' : Jinv h R -> incl R R' -> In c R' -> Jinv h1 R'.
Proof.
  intros HJ Hi Hc q nq Hq Hp. apply append_cases in Hq. destruct Hq as [[-> ->]|[[-> ->]|[H1 [H2 Hq]]]].
  - right. exact Hc.
  - cbn [set_ch bpar] in Hp. destruct (HJ p np Ep Hp) as [Hf|Hin]; [left|right; auto].
    apply (fin_same np); auto.
  - destruct (HJ q nq Hq Hp); [left|right]; auto.
Qed.

Lemma Bnd_append b : Bnd h b -> Bnd h1 b.
Proof.
  intros HB q nq sg Hq Hk Hs. apply append_cases in Hq. destruct Hq as [[-> ->]|[[-> ->]|[H1 [H2 Hq]]]].
  - eapply (HB c nc); eauto.
  - eapply (HB p np); eauto.
  - eapply HB; eauto.
Qed.

Lemma append_lastchild q y : lastchild h q y -> q <> p -> lastchild h1 q y.
Proof.
  intros [nq [Eq L]] Hq. destruct (Nat.eq_dec q c) as [->|Hqc].
  - eexists. split; [exact E1c|]. assert (nq = nc) by congruence. subst. exact L.
  - exists nq. rewrite E1o by assumption. auto.
Qed.
Lemma append_lastchild_new : lastchild h1 p c.
Proof. eexists. split; [exact E1p|]. cbn [set_ch bch]. apply last_id_snoc. Qed.
End Append.


(* ================= RemoveChild ================= *)
Lemma remove_child_spec h p c h1 : remove_child h p c = Ok h1 -> c <> p ->
  exists nc, nth_error h c = Some nc /\
   ((bpar nc <> Some p /\ h1 = h) \/
    (bpar nc = Some p /\ exists np, nth_error h p = Some np /\ length h1 = length h /\
      nth_error h1 c = Some (set_par nc None) /\ nth_error h1 p = Some (set_ch np (remove_id c (bch np))) /\
      forall j, j <> c -> j <> p -> nth_error h1 j = nth_error h j)).
Proof.
  unfold remove_child. intros H Hne. bind_inv H nc Ec. apply hget_ok in Ec. exists nc. split; [exact Ec|].
  destruct (opt_nat_eqb (bpar nc) (Some p)) eqn:Eo.
  - apply opt_nat_eqb_true in Eo. right. split; [exact Eo|].
    bind_inv H h0 E0. apply hupd_ok in E0. destruct E0 as [np [Ep ->]].
    apply hupd_ok in H. destruct H as [nc' [Ec' ->]]. rewrite nth_hset_ne in Ec' by congruence.
    assert (nc' = nc) by congruence. subst nc'. exists np. csplit; auto.
    + rewrite !length_hset. reflexivity.
    + apply nth_hset_eq. rewrite length_hset. eapply nth_some_lt; eassumption.
    + rewrite nth_hset_ne by congruence. apply nth_hset_eq. eapply nth_some_lt; eassumption.
    + intros j H1 H2. rewrite !nth_hset_ne by congruence. reflexivity.
  - left. injection H as <-. split; [|reflexivity]. intros E. apply opt_nat_eqb_true in E. congruence.
Qed.

Section Remove.
Variables (h h1 : heap) (p c : nat) (nc np : bnode).
Hypothesis Hcp : c <> p.
Hypothesis Ec : nth_error h c = Some nc.
Hypothesis Ep : nth_error h p = Some np.
Hypothesis Pc : bpar nc = Some p.
Hypothesis E1c : nth_error h1 c = Some (set_par nc None).
Hypothesis E1p : nth_error h1 p = Some (set_ch np (remove_id c (bch np))).
Hypothesis E1o : forall j, j <> c -> j <> p -> nth_error h1 j = nth_error h j.

Lemma remove_cases j m : nth_error h1 j = Some m ->
  (j = c /\ m = set_par nc None) \/ (j = p /\ m = set_ch np (remove_id c (bch np))) \/
  (j <> c /\ j <> p /\ nth_error h j = Some m).
Proof.
  intros H. destruct (Nat.eq_dec j c) as [->|H1]; [left; split; congruence|].
  destruct (Nat.eq_dec j p) as [->|H2]; [right; left; split; congruence|].
  right. right. rewrite E1o in H by assumption. auto.
Qed.

Lemma remove_bpar_same x nx : x <> c -> nth_error h x = Some nx -> exists nx', nth_error h1 x = Some nx' /\ bpar nx' = bpar nx.
Proof.
  intros Hx Ex. destruct (Nat.eq_dec x p) as [->|Hp].
  - eexists. split; [exact E1p|]. assert (nx = np) by congruence. subst. reflexivity.
  - exists nx. rewrite E1o by assumption. auto.
Qed.

Lemma remove_data_le : data_le h h1.
Proof.
  intros j m Hj. destruct (Nat.eq_dec j c) as [->|H1].
  - eexists. split; [exact E1c|]. assert (m = nc) by congruence. subst. auto.
  - destruct (Nat.eq_dec j p) as [->|H2].
    + eexists. split; [exact E1p|]. assert (m = np) by congruence. subst. auto.
    + exists m. rewrite E1o by assumption. auto.
Qed.

Lemma remove_child_keep q y : child h q y -> y <> c -> child h1 q y.
Proof.
  intros [nq [Eq L]] Hy. destruct (Nat.eq_dec q c) as [->|Hqc].
  - eexists. split; [exact E1c|]. assert (nq = nc) by congruence. subst. exact L.
  - destruct (Nat.eq_dec q p) as [->|Hqp].
    + eexists. split; [exact E1p|]. assert (nq = np) by congruence. subst. cbn [set_ch bch]. apply remove_id_keep; assumption.
    + exists nq. rewrite E1o by assumption. auto.
Qed.

Lemma heapS_remove : heapS h -> heapS h1.
Proof.
  intros [Hroot HK Hnd Hns Hit Hnode HP].
  assert (forall x nx, nth_error h1 x = Some nx -> exists nx0, nth_error h x = Some nx0 /\ bk nx0 = bk nx) as Hkind.
  { intros x nx Hx. apply remove_cases in Hx. destruct Hx as [[-> ->]|[[-> ->]|[_ [_ Hx]]]]; eexists; split; try eassumption; reflexivity. }
  constructor.
  - destruct Hroot as [n0 [E0 [K0 P0]]].
    assert (0%nat <> c) as H0c by (intros <-; congruence).
    destruct (Nat.eq_dec 0 p) as [<-|Hne].
    + eexists. split; [exact E1p|]. assert (n0 = np) by congruence. subst. auto.
    + exists n0. rewrite E1o by congruence. auto.
  - intros q nq x Hq Hx. apply remove_cases in Hq. destruct Hq as [[-> ->]|[[-> ->]|[H1 [H2 Hq]]]].
    + cbn [set_par bch] in Hx. destruct (HK c nc x Ec Hx) as [nx [Ex Px]].
      assert (x <> c) as Hxc by (intros ->; apply (Hns c nc Ec); congruence).
      destruct (remove_bpar_same x nx Hxc Ex) as [nx' [Ex' Px']]. exists nx'. split; congruence.
    + cbn [set_ch bch] in Hx. pose proof (remove_id_nodup c (bch np) (Hnd p np Ep)) as [_ Hnc].
      assert (x <> c) as Hxc by (intros ->; auto).
      apply remove_id_incl in Hx. destruct (HK p np x Ep Hx) as [nx [Ex Px]].
      destruct (remove_bpar_same x nx Hxc Ex) as [nx' [Ex' Px']]. exists nx'. split; congruence.
    + destruct (HK q nq x Hq Hx) as [nx [Ex Px]].
      assert (x <> c) as Hxc by (intros ->; congruence).
      destruct (remove_bpar_same x nx Hxc Ex) as [nx' [Ex' Px']]. exists nx'. split; congruence.
  - intros q nq Hq. apply remove_cases in Hq. destruct Hq as [[-> ->]|[[-> ->]|[H1 [H2 Hq]]]].
    + cbn [set_par bch]. eapply Hnd; eassumption.
    + cbn [set_ch bch]. apply remove_id_nodup. eapply Hnd; eassumption.
    + eapply Hnd; eassumption.
  - intros q nq Hq. apply remove_cases in Hq. destruct Hq as [[-> ->]|[[-> ->]|[H1 [H2 Hq]]]].
    + cbn [set_par bpar]. discriminate.
    + cbn [set_ch bpar]. eapply Hns; eassumption.
    + eapply Hns; eassumption.
  - intros q nq x nx Hq Hin Hx Kx. destruct (Hkind x nx Hx) as [nx0 [Ex0 Kx0]].
    apply remove_cases in Hq. destruct Hq as [[-> ->]|[[-> ->]|[H1 [H2 Hq]]]].
    + cbn [set_par bch bk] in *. eapply (Hit c nc x nx0); try eassumption. congruence.
    + cbn [set_ch bch bk] in *. apply remove_id_incl in Hin. eapply (Hit p np x nx0); try eassumption. congruence.
    + eapply (Hit q nq x nx0); try eassumption. congruence.
  - intros q nq Hq. apply remove_cases in Hq. destruct Hq as [[-> ->]|[[-> ->]|[H1 [H2 Hq]]]].
    + apply (nodeP_same nc); auto; [eapply Hnode; eassumption|intros Hk; cbn [set_par bch]; apply (np_leaf nc (Hnode _ _ Ec) Hk)].
    + apply (nodeP_same np); auto; [eapply Hnode; eassumption|]. intros Hk. cbn [set_ch bch].
      rewrite (np_leaf np (Hnode p np Ep) Hk). reflexivity.
    + eapply Hnode; eassumption.
  - intros j m q Hj Pj. apply remove_cases in Hj. destruct Hj as [[-> ->]|[[-> ->]|[H1 [H2 Hj]]]].
    + cbn [set_par bpar] in Pj. discriminate.
    + cbn [set_ch bpar] in Pj. apply remove_child_keep; [exact (HP p np q Ep Pj)|congruence].
    + apply remove_child_keep; [exact (HP j m q Hj Pj)|exact H1].
Qed.

Lemma Jinv_remove R : Jinv h R -> Jinv h1 R.
Proof.
  intros HJ q nq Hq Hp. apply remove_cases in Hq. destruct Hq as [[-> ->]|[[-> ->]|[H1 [H2 Hq]]]].
  - cbn [set_par bpar] in Hp. congruence.
  - cbn [set_ch bpar] in Hp. destruct (HJ p np Ep Hp) as [Hf|Hin]; [left|right; auto]. apply (fin_same np); auto.
  - destruct (HJ q nq Hq Hp); [left|right]; auto.
Qed.

Lemma Bnd_remove b : Bnd h b -> Bnd h1 b.
Proof.
  intros HB q nq sg Hq Hk Hs. apply remove_cases in Hq. destruct Hq as [[-> ->]|[[-> ->]|[H1 [H2 Hq]]]].
  - eapply (HB c nc); eauto.
  - eapply (HB p np); eauto.
  - eapply HB; eauto.
Qed.

Lemma remove_lastchild q y : lastchild h q y -> y <> c -> lastchild h1 q y.
Proof.
  intros [nq [Eq L]] Hy. destruct (Nat.eq_dec q c) as [->|Hqc].
  - eexists. split; [exact E1c|]. assert (nq = nc) by congruence. subst. exact L.
  - destruct (Nat.eq_dec q p) as [->|Hqp].
    + eexists. split; [exact E1p|]. assert (nq = np) by congruence. subst. cbn [set_ch bch]. apply remove_id_last; assumption.
    + exists nq. rewrite E1o by assumption. auto.
Qed.
End Remove.

(* ================= ReplaceChild ================= *)
Lemma replace_child_spec h p old new h1 : replace_child h p old new = Ok h1 -> old <> p -> new <> p -> new <> old ->
  exists no, nth_error h old = Some no /\
   ((bpar no <> Some p /\ h1 = h) \/
    (bpar no = Some p /\ exists np nn, nth_error h p = Some np /\ nth_error h new = Some nn /\ length h1 = length h /\
      nth_error h1 old = Some (set_par no None) /\ nth_error h1 new = Some (set_par nn (Some p)) /\
      nth_error h1 p = Some (set_ch np (replace_id old new (bch np))) /\
      forall j, j <> old -> j <> new -> j <> p -> nth_error h1 j = nth_error h j)).
Proof.
  unfold replace_child. intros H H1 H2 H3. bind_inv H no Eo. apply hget_ok in Eo. exists no. split; [exact Eo|].
  destruct (opt_nat_eqb (bpar no) (Some p)) eqn:Eq.
  - apply opt_nat_eqb_true in Eq. right. split; [exact Eq|].
    bind_inv H h0 E0. apply hupd_ok in E0. destruct E0 as [np [Ep ->]].
    bind_inv H h2 E2. apply hupd_ok in E2. destruct E2 as [nn [En ->]]. rewrite nth_hset_ne in En by congruence.
    apply hupd_ok in H. destruct H as [no' [Eo' ->]]. rewrite !nth_hset_ne in Eo' by congruence.
    assert (no' = no) by congruence. subst no'. exists np, nn.
    pose proof (nth_some_lt _ _ _ Ep). pose proof (nth_some_lt _ _ _ En). pose proof (nth_some_lt _ _ _ Eo).
    csplit; auto.
    + rewrite !length_hset. reflexivity.
    + apply nth_hset_eq. rewrite !length_hset. assumption.
    + rewrite nth_hset_ne by congruence. apply nth_hset_eq. rewrite length_hset. assumption.
    + rewrite !nth_hset_ne by congruence. apply nth_hset_eq. assumption.
    + intros j J1 J2 J3. rewrite !nth_hset_ne by congruence. reflexivity.
  - left. injection H as <-. split; [|reflexivity]. intros E. apply opt_nat_eqb_true in E. congruence.
Qed.

Section Replace.
Variables (h h1 : heap) (p old new : nat) (no nn np : bnode).
Hypothesis Hop : old <> p.
Hypothesis Hnp : new <> p.
Hypothesis Hno : new <> old.
Hypothesis Eo : nth_error h old = Some no.
Hypothesis En : nth_error h new = Some nn.
Hypothesis Ep : nth_error h p = Some np.
Hypothesis Po : bpar no = Some p.
Hypothesis Pn : bpar nn = None.
Hypothesis Cn : bch nn = [].
Hypothesis E1o : nth_error h1 old = Some (set_par no None).
Hypothesis E1n : nth_error h1 new = Some (set_par nn (Some p)).
Hypothesis E1p : nth_error h1 p = Some (set_ch np (replace_id old new (bch np))).
Hypothesis E1x : forall j, j <> old -> j <> new -> j <> p -> nth_error h1 j = nth_error h j.

Lemma replace_cases j m : nth_error h1 j = Some m ->
  (j = old /\ m = set_par no None) \/ (j = new /\ m = set_par nn (Some p)) \/
  (j = p /\ m = set_ch np (replace_id old new (bch np))) \/
  (j <> old /\ j <> new /\ j <> p /\ nth_error h j = Some m).
Proof.
  intros H. destruct (Nat.eq_dec j old) as [->|H1]; [left; split; congruence|].
  destruct (Nat.eq_dec j new) as [->|H2]; [right; left; split; congruence|].
  destruct (Nat.eq_dec j p) as [->|H3]; [right; right; left; split; congruence|].
  right. right. right. rewrite E1x in H by assumption. auto.
Qed.

Lemma replace_bpar_same x nx : x <> old -> x <> new -> nth_error h x = Some nx ->
  exists nx', nth_error h1 x = Some nx' /\ bpar nx' = bpar nx.
Proof.
  intros Hx1 Hx2 Ex. destruct (Nat.eq_dec x p) as [->|Hp].
  - eexists. split; [exact E1p|]. assert (nx = np) by congruence. subst. reflexivity.
  - exists nx. rewrite E1x by assumption. auto.
Qed.

Lemma replace_data_le : data_le h h1.
Proof.
  intros j m Hj. destruct (Nat.eq_dec j old) as [->|H1].
  - eexists. split; [exact E1o|]. assert (m = no) by congruence. subst. auto.
  - destruct (Nat.eq_dec j new) as [->|H2].
    + eexists. split; [exact E1n|]. assert (m = nn) by congruence. subst. auto.
    + destruct (Nat.eq_dec j p) as [->|H3].
      * eexists. split; [exact E1p|]. assert (m = np) by congruence. subst. auto.
      * exists m. rewrite E1x by assumption. auto.
Qed.

Lemma replace_child_keep q y : child h q y -> y <> old -> child h1 q y.
Proof.
  intros [nq [Eq L]] Hy. destruct (Nat.eq_dec q old) as [->|Hqo].
  - eexists. split; [exact E1o|]. assert (nq = no) by congruence. subst. exact L.
  - destruct (Nat.eq_dec q new) as [->|Hqn].
    + eexists. split; [exact E1n|]. assert (nq = nn) by congruence. subst. exact L.
    + destruct (Nat.eq_dec q p) as [->|Hqp].
      * eexists. split; [exact E1p|]. assert (nq = np) by congruence. subst. cbn [set_ch bch]. apply replace_id_keep; assumption.
      * exists nq. rewrite E1x by assumption. auto.
Qed.

Lemma heapS_replace : heapS h -> new <> 0%nat -> bk nn <> BListItem -> heapS h1.
Proof.
  intros [Hroot HK Hnd Hns Hit Hnode HP] Hn0 Hnli.
  assert (forall x nx, nth_error h1 x = Some nx -> exists nx0, nth_error h x = Some nx0 /\ bk nx0 = bk nx) as Hkind.
  { intros x nx Hx. apply replace_cases in Hx. destruct Hx as [[-> ->]|[[-> ->]|[[-> ->]|[_ [_ [_ Hx]]]]]]; eexists; split; try eassumption; reflexivity. }
  constructor.
  - destruct Hroot as [n0 [E0 [K0 P0]]].
    assert (0%nat <> old) as H0o by (intros <-; congruence).
    destruct (Nat.eq_dec 0 p) as [<-|Hne].
    + eexists. split; [exact E1p|]. assert (n0 = np) by congruence. subst. auto.
    + exists n0. rewrite E1x by congruence. auto.
  - intros q nq x Hq Hx. apply replace_cases in Hq. destruct Hq as [[-> ->]|[[-> ->]|[[-> ->]|[H1 [H2 [H3 Hq]]]]]].
    + cbn [set_par bch] in Hx. destruct (HK old no x Eo Hx) as [nx [Ex Px]].
      assert (x <> old) as Hx1 by (intros ->; apply (Hns old no Eo); congruence).
      assert (x <> new) as Hx2 by (intros ->; congruence).
      destruct (replace_bpar_same x nx Hx1 Hx2 Ex) as [nx' [Ex' Px']]. exists nx'. split; congruence.
    + cbn [set_par bch] in Hx. rewrite Cn in Hx. destruct Hx.
    + cbn [set_ch bch] in Hx.
      assert (~ In new (bch np)) as Hnin.
      { intros Hin. destruct (HK p np new Ep Hin) as [nx [Ex Px]]. congruence. }
      pose proof (replace_id_nodup old new (bch np) (Hnd p np Ep) Hnin) as [_ Hold].
      assert (x <> old) as Hx1 by (intros ->; apply Hold; auto).
      apply replace_id_in in Hx. destruct Hx as [->|Hx].
      * eexists. split; [exact E1n|reflexivity].
      * assert (x <> new) as Hx2 by (intros ->; auto).
        destruct (HK p np x Ep Hx) as [nx [Ex Px]].
        destruct (replace_bpar_same x nx Hx1 Hx2 Ex) as [nx' [Ex' Px']]. exists nx'. split; congruence.
    + destruct (HK q nq x Hq Hx) as [nx [Ex Px]].
      assert (x <> old) as Hx1 by (intros ->; congruence).
      assert (x <> new) as Hx2 by (intros ->; congruence).
      destruct (replace_bpar_same x nx Hx1 Hx2 Ex) as [nx' [Ex' Px']]. exists nx'. split; congruence.
  - intros q nq Hq. apply replace_cases in Hq. destruct Hq as [[-> ->]|[[-> ->]|[[-> ->]|[H1 [H2 [H3 Hq]]]]]].
    + cbn [set_par bch]. eapply Hnd; eassumption.
    + cbn [set_par bch]. eapply Hnd; eassumption.
    + cbn [set_ch bch]. apply replace_id_nodup; [eapply Hnd; eassumption|].
      intros Hin. destruct (HK p np new Ep Hin) as [nx [Ex Px]]. congruence.
    + eapply Hnd; eassumption.
  - intros q nq Hq. apply replace_cases in Hq. destruct Hq as [[-> ->]|[[-> ->]|[[-> ->]|[H1 [H2 [H3 Hq]]]]]].
    + cbn [set_par bpar]. discriminate.
    + cbn [set_par bpar]. congruence.
    + cbn [set_ch bpar]. eapply Hns; eassumption.
    + eapply Hns; eassumption.
  - intros q nq x nx Hq Hin Hx Kx. destruct (Hkind x nx Hx) as [nx0 [Ex0 Kx0]].
    apply replace_cases in Hq. destruct Hq as [[-> ->]|[[-> ->]|[[-> ->]|[H1 [H2 [H3 Hq]]]]]].
    + cbn [set_par bch bk] in *. eapply (Hit old no x nx0); try eassumption. congruence.
    + cbn [set_par bch] in Hin. rewrite Cn in Hin. destruct Hin.
    + cbn [set_ch bch bk] in *. apply replace_id_in in Hin. destruct Hin as [->|Hin].
      * assert (nx0 = nn) by congruence. subst. congruence.
      * eapply (Hit p np x nx0); try eassumption. congruence.
    + eapply (Hit q nq x nx0); try eassumption. congruence.
  - intros q nq Hq. apply replace_cases in Hq. destruct Hq as [[-> ->]|[[-> ->]|[[-> ->]|[H1 [H2 [H3 Hq]]]]]].
    + apply (nodeP_same no); auto; [eapply Hnode; eassumption|intros Hk; cbn [set_par bch]; apply (np_leaf no (Hnode _ _ Eo) Hk)].
    + apply (nodeP_same nn); auto. eapply Hnode; eassumption.
    + apply (nodeP_same np); auto; [eapply Hnode; eassumption|]. intros Hk. cbn [set_ch bch].
      rewrite (np_leaf np (Hnode p np Ep) Hk). reflexivity.
    + eapply Hnode; eassumption.
  - intros j m q Hj Pj. apply replace_cases in Hj. destruct Hj as [[-> ->]|[[-> ->]|[[-> ->]|[H1 [H2 [H3 Hj]]]]]].
    + cbn [set_par bpar] in Pj. discriminate.
    + cbn [set_par bpar] in Pj. injection Pj as <-. eexists. split; [exact E1p|]. cbn [set_ch bch].
      destruct (HP old no p Eo Po) as [np' [Ep' Hin]]. assert (np' = np) by congruence. subst np'.
      clear - Hin. induction (bch np) as [|y t IH]; [destruct Hin|]. cbn [replace_id].
      destruct (Nat.eqb_spec old y) as [E|E]; [left; reflexivity|]. destruct Hin as [Hin|Hin]; [congruence|right; auto].
    + cbn [set_ch bpar] in Pj. apply replace_child_keep; [exact (HP p np q Ep Pj)|congruence].
    + apply replace_child_keep; [exact (HP j m q Hj Pj)|exact H1].
Qed.

Lemma Jinv_replace R : Jinv h R -> fin nn -> Jinv h1 R.
Proof.
  intros HJ Hfn q nq Hq Hp. apply replace_cases in Hq. destruct Hq as [[-> ->]|[[-> ->]|[[-> ->]|[H1 [H2 [H3 Hq]]]]]].
  - cbn [set_par bpar] in Hp. congruence.
  - left. apply (fin_same nn); auto.
  - cbn [set_ch bpar] in Hp. destruct (HJ p np Ep Hp) as [Hf|Hin]; [left|right; auto]. apply (fin_same np); auto.
  - destruct (HJ q nq Hq Hp); [left|right]; auto.
Qed.

Lemma Bnd_replace b : Bnd h b -> Bnd h1 b.
Proof.
  intros HB q nq sg Hq Hk Hs. apply replace_cases in Hq. destruct Hq as [[-> ->]|[[-> ->]|[[-> ->]|[H1 [H2 [H3 Hq]]]]]].
  - eapply (HB old no); eauto.
  - eapply (HB new nn); eauto.
  - eapply (HB p np); eauto.
  - eapply HB; eauto.
Qed.

Lemma replace_lastchild q y : lastchild h q y -> y <> old -> lastchild h1 q y.
Proof.
  intros [nq [Eq L]] Hy. destruct (Nat.eq_dec q old) as [->|Hqo].
  - eexists. split; [exact E1o|]. assert (nq = no) by congruence. subst. exact L.
  - destruct (Nat.eq_dec q new) as [->|Hqn].
    + eexists. split; [exact E1n|]. assert (nq = nn) by congruence. subst. exact L.
    + destruct (Nat.eq_dec q p) as [->|Hqp].
      * eexists. split; [exact E1p|]. assert (nq = np) by congruence. subst. cbn [set_ch bch]. apply replace_id_last; assumption.
      * exists nq. rewrite E1x by assumption. auto.
Qed.
End Replace.


End Inv.
