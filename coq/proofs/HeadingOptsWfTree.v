(* Composition of the block phase of the heading option model with the inline phase: attach_inlines
   over a block tree whose heading lines satisfy lines_okN_b (tree_lines_okN of HeadingOptsWfNl.v).
   The analogue of attach_wf (proofs/ParseCompose.v) and attach_total (proofs/ParseFinal.v). *)
Require Import GM.model.Base GM.model.Util GM.model.Reader GM.model.HtmlWriter GM.model.Html GM.model.HtmlSpec
               GM.model.BlockParse GM.model.InlineParse GM.model.HeadingOpts.
Require Import GM.proofs.ParseInv GM.proofs.ParseCompose GM.proofs.ParseFinal GM.proofs.HeadingOptsWfDefs GM.proofs.HeadingOptsWfNl.
From Coq Require Import List ZArith Bool.
Import ListNotations.

Section AttachH.
Variable src : bytes.
Variable inl : list seg -> result (list tree).

(* the lines of an inline-bearing node of a tree with tree_lines_okN: the block reader's hypothesis
   (paragraphs, text blocks) or lines_okN_b (headings) *)
Definition lines_inl (l : list seg) : Prop := lines_ok src l \/ lines_okN_b src l = true.

Lemma node_lines_inl k l : has_inlines k = true ->
  (if is_heading_kind k then lines_okN_b src l else forallb (seg_ok_b src) l && segs_sorted_b l) = true ->
  lines_inl l.
Proof.
  intros _ H. destruct (is_heading_kind k); [right; exact H|left].
  apply andb_true_iff in H as [H1 H2]. split; assumption.
Qed.

Hypothesis inl_ok : forall lines ts, lines_inl lines -> inl lines = Ok ts ->
  Forall (fun t => wf_node src false false t = true) ts.

Theorem attachH_wf : forall t t',
  all_kinds block_kind t = true ->
  wf_node src false false t = true -> tree_lines_okN src t = true ->
  attach_inlines inl t = Ok t' -> wf_node src false false t' = true.
Proof.
  intros t. induction t as [k l a kids IH] using tree_ind_forall.
  intros t' Hkinds Hwf Hlines Hatt.
  rewrite all_kinds_unfold in Hkinds. apply andb_true_iff in Hkinds as [Hk Hkinds].
  rewrite wf_node_unfold in Hwf. apply andb_true_iff in Hwf as [Hwf Hwfk].
  apply andb_true_iff in Hwf as [Hnode Hcell].
  rewrite tree_lines_okN_unfold in Hlines. apply andb_true_iff in Hlines as [Hl Hlk].
  rewrite attach_inlines_unfold in Hatt.
  destruct (block_kind_flags k Hk) as (Hf1 & Hf2 & Hf3).
  rewrite Hf2, Hf3 in Hwfk.
  destruct (has_inlines k) eqn:Hhas.
  - apply pc_bind_ok in Hatt as (ch & Hch & Hatt). apply pc_Ok_inj in Hatt as <-.
    rewrite wf_node_unfold. rewrite (node_ok_block_children src false k l a ch kids Hk), Hnode, Hcell.
    rewrite Hf2, Hf3. cbn [andb].
    apply forallb_forall. apply Forall_forall. exact (inl_ok l ch (node_lines_inl k l Hhas Hl) Hch).
  - apply pc_bind_ok in Hatt as (kids' & Hk' & Hatt). apply pc_Ok_inj in Hatt as <-.
    rewrite wf_node_unfold. rewrite (node_ok_block_children src false k l a kids' kids Hk), Hnode, Hcell.
    rewrite Hf2, Hf3. cbn [andb].
    apply map_res_forall2 in Hk'.
    clear Hnode Hcell Hl Hhas.
    induction Hk' as [|x y xs ys Hxy Hrest IHrest]; [reflexivity|].
    cbn [forallb] in *.
    apply andb_true_iff in Hkinds as [Hkx Hkr]. apply andb_true_iff in Hwfk as [Hwx Hwr].
    apply andb_true_iff in Hlk as [Hlx Hlr].
    inversion IH as [|? ? IHx IHr]; subst.
    rewrite (IHx y Hkx Hwx Hlx Hxy). cbn [andb]. exact (IHrest IHr Hkr Hwr Hlr).
Qed.

Hypothesis inl_total : forall lines, lines_inl lines -> exists ts, inl lines = Ok ts.

Theorem attachH_total : forall t, tree_lines_okN src t = true -> exists t', attach_inlines inl t = Ok t'.
Proof.
  intros t. induction t as [k l a kids IH] using tree_ind_forall. intros Hl.
  rewrite tree_lines_okN_unfold in Hl. apply andb_true_iff in Hl as [Hl Hk].
  rewrite attach_inlines_unfold. destruct (has_inlines k) eqn:Hh.
  - destruct (inl_total l (node_lines_inl k l Hh Hl)) as [ts Hts]. rewrite Hts. cbn [bind]. eexists. reflexivity.
  - assert (Hall : Forall (fun x => exists y, attach_inlines inl x = Ok y) kids).
    { rewrite forallb_forall in Hk. rewrite Forall_forall in IH. apply Forall_forall. intros x Hx. exact (IH x Hx (Hk x Hx)). }
    destruct (map_res_total _ _ Hall) as [ys Hys]. rewrite Hys. cbn [bind]. eexists. reflexivity.
Qed.
End AttachH.
