(* C09 on the leaf fragment, for EVERY pair of documents of the fragment: a leaf document A, an
   empty line, one more leaf block H (in particular an ATX heading line, the separator the
   property names), an empty line and a leaf document B convert to the conversion of A, then the
   HTML of H, then the conversion of B.  Corollary of leaf_doc_conforms and of the fact that the
   printer md_of and the specification html_of are both homomorphic on leaf documents. *)
Require Import GM.model.Base GM.model.Util GM.model.UtilI GM.model.Reader GM.model.HtmlWriter GM.model.Html GM.model.HtmlI
               GM.model.SpecDoc GM.model.BlockParse GM.model.InlineParse GM.model.ParseI.
Require Import GM.proofs.SpecConformance GM.proofs.SpecParaConform GM.proofs.SpecParaSpec.
Require Import GM.proofs.SpecLeafBytes GM.proofs.SpecLeafSpec GM.proofs.SpecLeafCompose GM.proofs.SpecLeafConform.
From Coq Require Import List NArith ZArith Bool Lia.
Import ListNotations.
Open Scope N_scope.

Lemma leaf_doc_inv d : leaf_doc d = true -> d <> [] /\ forallb leaf_block_s d = true.
Proof.
  intros H. change (leaf_doc_s d = true) in H. unfold leaf_doc_s in H.
  apply andb_true_iff in H. destruct H as [Hne Hd].
  split; [destruct d; [discriminate|discriminate]|exact Hd].
Qed.
Lemma leaf_doc_app d1 d2 : leaf_doc d1 = true -> leaf_doc d2 = true -> leaf_doc (d1 ++ d2) = true.
Proof.
  intros H1 H2. destruct (leaf_doc_inv d1 H1) as [Hn1 Hd1]. destruct (leaf_doc_inv d2 H2) as [Hn2 Hd2].
  change (leaf_doc_s (d1 ++ d2) = true). unfold leaf_doc_s. rewrite forallb_app, Hd1, Hd2.
  destruct d1; [congruence|reflexivity].
Qed.
Lemma leaf_doc_one h : leaf_block h = true -> leaf_doc [h] = true.
Proof. intros H. unfold leaf_doc. cbn [forallb negb]. rewrite H. reflexivity. Qed.

(* the spelling of a leaf document is the byte string of its blocks *)
Lemma leaf_md_eq d fin : leaf_doc d = true -> md_of false fin d = ldoc_src (map lb_of d) fin.
Proof.
  intros H. destruct (leaf_doc_inv d H) as [Hne Hd]. pose proof (ldoc_shapes d Hd) as Hs.
  unfold md_of, ldoc_src. rewrite (ldoc_defs d Hs). rewrite app_nil_r.
  rewrite (ldoc_md d Hne Hs). reflexivity.
Qed.
Lemma ldoc_src_app (d1 d2 : list lblock) fin : d1 <> [] -> d2 <> [] ->
  ldoc_src d1 true ++ nl ++ ldoc_src d2 fin = ldoc_src (d1 ++ d2) fin.
Proof.
  intros H1 H2. unfold ldoc_src, ldoc_body. rewrite map_app.
  rewrite join_app_ne; [|destruct d1; [congruence|discriminate]|destruct d2; [congruence|discriminate]].
  rewrite <- !app_assoc. reflexivity.
Qed.
(* md_of is a homomorphism on leaf documents: one empty line between the halves *)
Lemma leaf_md_app d1 d2 fin : leaf_doc d1 = true -> leaf_doc d2 = true ->
  md_of false true d1 ++ nl ++ md_of false fin d2 = md_of false fin (d1 ++ d2).
Proof.
  intros H1 H2. rewrite (leaf_md_eq d1 true H1), (leaf_md_eq d2 fin H2).
  rewrite (leaf_md_eq (d1 ++ d2) fin (leaf_doc_app d1 d2 H1 H2)). rewrite map_app.
  destruct (leaf_doc_inv d1 H1) as [Hn1 _]. destruct (leaf_doc_inv d2 H2) as [Hn2 _].
  apply ldoc_src_app; [destruct d1; [congruence|discriminate]|destruct d2; [congruence|discriminate]].
Qed.

(* ---------- C09: two leaf documents around a separator block ---------- *)
Theorem leaf_docs_independent : forall c fin d1 h d2 o1 o2,
  hardwraps c = false -> xhtml c = true ->
  leaf_doc d1 = true -> leaf_block h = true -> leaf_doc d2 = true ->
  ConvertModel c (md_of false true d1) = Ok o1 ->
  ConvertModel c (md_of false fin d2) = Ok o2 ->
  ConvertModel c (md_of false true d1 ++ nl ++ md_of false true [h] ++ nl ++ md_of false fin d2)
    = Ok (o1 ++ html_of [h] ++ o2).
Proof.
  intros c fin d1 h d2 o1 o2 Hc Hx H1 Hh H2 E1 E2.
  rewrite (leaf_doc_conforms c true d1 Hc Hx H1) in E1. injection E1 as <-.
  rewrite (leaf_doc_conforms c fin d2 Hc Hx H2) in E2. injection E2 as <-.
  pose proof (leaf_doc_one h Hh) as H3.
  rewrite (leaf_md_app [h] d2 fin H3 H2).
  rewrite (leaf_md_app d1 ([h] ++ d2) fin H1 (leaf_doc_app _ _ H3 H2)).
  rewrite (leaf_doc_conforms c fin (d1 ++ [h] ++ d2) Hc Hx (leaf_doc_app _ _ H1 (leaf_doc_app _ _ H3 H2))).
  unfold html_of. rewrite !flat_map_app. reflexivity.
Qed.

(* the separator the property names: an ATX heading line "## words" between two empty lines *)
Corollary leaf_docs_independent_heading : forall c fin d1 lv ws d2 o1 o2,
  hardwraps c = false -> xhtml c = true ->
  leaf_doc d1 = true -> leaf_doc d2 = true ->
  leaf_block (SpecDoc.BHeading 0 lv 0 0 (map AWord ws)) = true ->
  ConvertModel c (md_of false true d1) = Ok o1 ->
  ConvertModel c (md_of false fin d2) = Ok o2 ->
  ConvertModel c (md_of false true d1 ++ nl ++ md_of false true [SpecDoc.BHeading 0 lv 0 0 (map AWord ws)] ++ nl ++ md_of false fin d2)
    = Ok (o1 ++ html_of [SpecDoc.BHeading 0 lv 0 0 (map AWord ws)] ++ o2).
Proof. intros. eapply leaf_docs_independent; eassumption. Qed.

(* non-vacuity: a paragraph, a heading separator, a fenced block; and what the bytes look like *)
Example leaf_indep_example :
  let d1 := [BPara 0 [AWord [97]]] in
  let h := SpecDoc.BHeading 0 2 0 0 [AWord [104]] in
  let d2 := [BCode 2 0 3 [] [[99]]] in
  leaf_doc d1 = true /\ leaf_block h = true /\ leaf_doc d2 = true /\
  md_of false true d1 ++ nl ++ md_of false true [h] ++ nl ++ md_of false true d2
    = [97;10; 10; 35;35;32;104;10; 10; 96;96;96;10;99;10;96;96;96;10].
Proof. vm_compute. repeat split. Qed.
