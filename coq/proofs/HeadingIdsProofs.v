(* C15 end to end for the model of the default parser with parser.WithAutoHeadingID()
   (model/HeadingIds.v): in every tree ParseTreeA yields, every heading carries an id attribute,
   no id is empty, and the ids of a document are pairwise distinct. *)
Require Import GM.gen.Tables.
Require Import GM.model.Base GM.model.Util GM.model.UtilI GM.model.Reader GM.model.HtmlWriter GM.model.Html GM.model.HtmlI GM.model.HtmlSpec
               GM.model.Ids GM.model.BlockParse GM.model.InlineParse GM.model.ParseI GM.model.HeadingIds.
Require Import GM.proofs.IdsProofs GM.proofs.ParseInv GM.proofs.ParseCompose GM.proofs.ParseInlineRange GM.proofs.ParseBlocksRange GM.proofs.ParseFinal.
Require Import GM.proofs.Finite GM.proofs.MiscProofs GM.proofs.HtmlConcrete GM.proofs.ParseBlocksTotal.
From Coq Require Import List NArith ZArith Bool Lia ZifyBool.
Import ListNotations.
Open Scope N_scope.

(* the ids handed out: one per heading, in document order, all different, none empty, over [a-z0-9-]
   (id_char of IdsProofs.v) *)
Definition ids_ok (t : tree) : Prop :=
  exists rs, heading_ids t = map (fun r => Some (AVBytes r)) rs /\ NoDup rs /\
             Forall (fun r => r <> [] /\ forallb id_char r = true) rs.

(* ---------- the nested fixpoints of model/HeadingIds.v as functions on lists of trees ---------- *)
Fixpoint texts_list (src : bytes) (ks : list tree) : result (list bytes) :=
  match ks with
  | [] => Ok []
  | x :: r => a <- heading_texts src x ;; b <- texts_list src r ;; Ok (a ++ b)
  end.

Fixpoint assign_list (ks : list tree) (ids : list bytes) : list tree * list bytes :=
  match ks with
  | [] => ([], ids)
  | x :: xs => let '(x', r1) := assign_ids x ids in let '(xs', r2) := assign_list xs r1 in (x' :: xs', r2)
  end.

Definition new_attrs (i : bytes) (a : option (list attr)) : option (list attr) :=
  Some (set_attr id_name (AVBytes i) (match a with Some x => x | None => [] end)).

Lemma heading_texts_unfold src k l a kids :
  heading_texts src (Node k l a kids) =
  if is_heading k then
    match last_seg l with
    | Some sg => v <- seg_value src sg ;; Ok [v]
    | None => Ok [[]]
    end
  else texts_list src kids.
Proof.
  cbn [heading_texts]. destruct (is_heading k); [reflexivity|].
  induction kids as [|x r IH]; [reflexivity|]. cbn [texts_list]. rewrite <- IH. reflexivity.
Qed.

Lemma assign_ids_unfold k l a kids ids :
  assign_ids (Node k l a kids) ids =
  if is_heading k then
    match ids with
    | i :: r => (Node k l (new_attrs i a) kids, r)
    | [] => (Node k l a kids, [])
    end
  else (Node k l a (fst (assign_list kids ids)), snd (assign_list kids ids)).
Proof.
  cbn [assign_ids]. destruct (is_heading k); [reflexivity|].
  match goal with |- (let '(_, _) := ?g kids ids in _) = _ =>
    assert (Hg : forall ks js, g ks js = assign_list ks js) end.
  { induction ks as [|x r IH]; intros js; [reflexivity|]. cbn [assign_list]. cbv beta iota fix.
    destruct (assign_ids x js) as [x' r1]. rewrite IH. reflexivity. }
  rewrite Hg. destruct (assign_list kids ids) as [kids' r]. reflexivity.
Qed.

Lemma heading_ids_unfold k l a kids :
  heading_ids (Node k l a kids) =
  if is_heading k then [match a with Some x => find_attr id_name x | None => None end]
  else flat_map heading_ids kids.
Proof.
  cbn [heading_ids]. destruct (is_heading k); [reflexivity|].
  induction kids as [|x r IH]; [reflexivity|]. cbn [flat_map]. rewrite <- IH. reflexivity.
Qed.

Lemma assign_list_cons x xs ids :
  assign_list (x :: xs) ids =
  (fst (assign_ids x ids) :: fst (assign_list xs (snd (assign_ids x ids))),
   snd (assign_list xs (snd (assign_ids x ids)))).
Proof.
  cbn [assign_list]. destruct (assign_ids x ids) as [x' r1]. cbn [fst snd].
  destruct (assign_list xs r1) as [xs' r2]. reflexivity.
Qed.

(* ---------- attributes ---------- *)
Lemma find_set_attr name v l : find_attr name (set_attr name v l) = Some v.
Proof.
  assert (Hrefl : bytes_eqb name name = true) by (apply bytes_eqb_eq; reflexivity).
  induction l as [|a l IH]; cbn [set_attr find_attr].
  - cbn [a_name a_val]. rewrite Hrefl. reflexivity.
  - destruct (bytes_eqb (a_name a) name) eqn:E; cbn [find_attr a_name a_val].
    + rewrite Hrefl. reflexivity.
    + rewrite E. exact IH.
Qed.

Lemma forallb_set_attr (p : attr -> bool) name v l :
  p {| a_name := name; a_val := v |} = true -> forallb p l = true -> forallb p (set_attr name v l) = true.
Proof.
  intros Hn. induction l as [|a l IH]; cbn [set_attr forallb]; intros Hl.
  - rewrite Hn. reflexivity.
  - apply andb_true_iff in Hl as [Ha Hl]. destruct (bytes_eqb (a_name a) name); cbn [forallb].
    + rewrite Hn, Hl. reflexivity.
    + rewrite Ha, (IH Hl). reflexivity.
Qed.

Lemma attrs_ok_new i a : all_bytes_b i = true -> attrs_ok a = true -> attrs_ok (new_attrs i a) = true.
Proof.
  intros Hi Ha. unfold new_attrs, attrs_ok. apply forallb_set_attr.
  - cbn [a_name a_val aval_bytes]. rewrite Hi. reflexivity.
  - destruct a as [x|]; [exact Ha | reflexivity].
Qed.

Lemma id_char_byte r : forallb id_char r = true -> all_bytes_b r = true.
Proof.
  unfold all_bytes_b. intros H. apply forallb_forall. intros c Hc.
  rewrite forallb_forall in H. specialize (H c Hc). unfold id_char in H. lia.
Qed.

(* ---------- the ids of the tree after the pass ---------- *)
(* given exactly as many ids as the tree has headings (and anything behind them), the pass puts
   them on the headings in order and returns what is behind *)
Lemma assign_ids_spec : forall t a b, length a = length (heading_ids t) ->
  heading_ids (fst (assign_ids t (a ++ b))) = map (fun r => Some (AVBytes r)) a /\
  snd (assign_ids t (a ++ b)) = b.
Proof.
  intros t. induction t as [k l at0 kids IH] using tree_ind_forall. intros a b Hlen.
  rewrite heading_ids_unfold in Hlen. rewrite assign_ids_unfold.
  destruct (is_heading k) eqn:Hk.
  - destruct a as [|i [|j a']]; cbn [length] in Hlen; try discriminate Hlen.
    cbn [app fst snd map]. rewrite heading_ids_unfold, Hk. unfold new_attrs.
    rewrite find_set_attr. split; reflexivity.
  - cbn [fst snd]. rewrite heading_ids_unfold, Hk.
    clear Hk. revert a b Hlen.
    induction IH as [|x xs Hx _ IHxs]; intros a b Hlen.
    + cbn [flat_map length] in Hlen. destruct a as [|i a']; [|discriminate Hlen].
      cbn [assign_list fst snd flat_map map app]. split; reflexivity.
    + cbn [flat_map] in Hlen. rewrite app_length in Hlen.
      set (n1 := length (heading_ids x)) in *.
      assert (Ha : a = firstn n1 a ++ skipn n1 a) by (symmetry; apply firstn_skipn).
      assert (H1 : length (firstn n1 a) = n1) by (apply firstn_length_le; lia).
      assert (H2 : length (skipn n1 a) = length (flat_map heading_ids xs)) by (rewrite skipn_length; lia).
      rewrite Ha, <- app_assoc. rewrite assign_list_cons. cbn [fst snd flat_map].
      destruct (Hx (firstn n1 a) (skipn n1 a ++ b) H1) as [Hx1 Hx2].
      rewrite Hx1, Hx2.
      destruct (IHxs (skipn n1 a) b H2) as [Hr1 Hr2].
      rewrite Hr1, Hr2. rewrite map_app. split; reflexivity.
Qed.

(* one text per heading *)
Lemma heading_texts_length src : forall t vs, heading_texts src t = Ok vs -> length vs = length (heading_ids t).
Proof.
  intros t. induction t as [k l a kids IH] using tree_ind_forall. intros vs H.
  rewrite heading_texts_unfold in H. rewrite heading_ids_unfold.
  destruct (is_heading k).
  - destruct (last_seg l) as [sg|].
    + apply pc_bind_ok in H as (v & _ & H). apply pc_Ok_inj in H as <-. reflexivity.
    + apply pc_Ok_inj in H as <-. reflexivity.
  - revert vs H. induction IH as [|x xs Hx _ IHxs]; intros vs H; cbn [texts_list] in H.
    + apply pc_Ok_inj in H as <-. reflexivity.
    + apply pc_bind_ok in H as (v1 & H1 & H). apply pc_bind_ok in H as (v2 & H2 & H).
      apply pc_Ok_inj in H as <-. cbn [flat_map]. rewrite !app_length.
      rewrite (Hx _ H1), (IHxs _ H2). reflexivity.
Qed.

(* every generated id is over [a-z0-9-] *)
Lemma GenerateAll_charset : forall vs t rs, GenerateAll t vs = Ok rs ->
  Forall (fun r => forallb id_char r = true) rs.
Proof.
  unfold GenerateAll. induction vs as [|v rest IH]; intros t rs H; cbn [generate_all] in H.
  - apply pc_Ok_inj in H as <-. constructor.
  - apply pc_bind_ok in H as ([r t'] & Hg & H). apply pc_bind_ok in H as (rs' & Hr & H).
    apply pc_Ok_inj in H as <-.
    apply generate_fresh in Hg as (_ & _ & _ & Hc).
    constructor; [exact Hc | exact (IH _ _ Hr)].
Qed.

Lemma GenerateAll_ok t vs rs : GenerateAll t vs = Ok rs ->
  NoDup rs /\ Forall (fun r => r <> [] /\ forallb id_char r = true) rs /\ length rs = length vs.
Proof.
  intros H. pose proof (GenerateAll_charset _ _ _ H) as Hc.
  unfold GenerateAll in H. apply generate_all_distinct in H as (Hnd & Hne & Hlen).
  split; [exact Hnd|]. split; [|exact Hlen].
  rewrite Forall_forall in *. intros r Hr. split; [exact (proj1 (Hne r Hr)) | exact (Hc r Hr)].
Qed.

Lemma AutoIds_inv src t t' : AutoIds src t = Ok t' ->
  exists vs rs, heading_texts src t = Ok vs /\ GenerateAll [] vs = Ok rs /\ t' = fst (assign_ids t rs).
Proof.
  unfold AutoIds. intros H. apply pc_bind_ok in H as (vs & Hvs & H). apply pc_bind_ok in H as (rs & Hrs & H).
  apply pc_Ok_inj in H as <-. exists vs, rs. repeat split; assumption.
Qed.

Theorem AutoIds_ids_ok : forall src t t', AutoIds src t = Ok t' -> ids_ok t'.
Proof.
  intros src t t' H. apply AutoIds_inv in H as (vs & rs & Hvs & Hrs & ->).
  apply GenerateAll_ok in Hrs as (Hnd & Hall & Hlen).
  apply heading_texts_length in Hvs.
  exists rs. split; [|split; assumption].
  rewrite <- (app_nil_r rs) at 1. apply assign_ids_spec. congruence.
Qed.

(* ---------- the inline phase keeps the headings' ids ---------- *)
(* order preserving sublists (the headings below an inline-bearing block, if there were any, would
   be dropped with the block's children; nothing else changes) *)
Inductive subl {A : Type} : list A -> list A -> Prop :=
| subl_nil : subl [] []
| subl_skip x l1 l2 : subl l1 l2 -> subl l1 (x :: l2)
| subl_cons x l1 l2 : subl l1 l2 -> subl (x :: l1) (x :: l2).

Lemma subl_nil_l {A} (l : list A) : subl [] l.
Proof. induction l as [|x l IH]; [constructor | constructor; exact IH]. Qed.

Lemma subl_refl {A} (l : list A) : subl l l.
Proof. induction l as [|x l IH]; [constructor | constructor; exact IH]. Qed.

Lemma subl_app {A} (a a' b b' : list A) : subl a a' -> subl b b' -> subl (a ++ b) (a' ++ b').
Proof.
  intros Ha Hb. induction Ha as [|x l1 l2 _ IH|x l1 l2 _ IH]; cbn [app].
  - exact Hb.
  - constructor; exact IH.
  - constructor; exact IH.
Qed.

Lemma subl_In {A} (l1 l2 : list A) x : subl l1 l2 -> In x l1 -> In x l2.
Proof.
  intros H. induction H as [|y l1 l2 _ IH|y l1 l2 _ IH]; intros Hx.
  - exact Hx.
  - right. exact (IH Hx).
  - destruct Hx as [->|Hx]; [left; reflexivity | right; exact (IH Hx)].
Qed.

Lemma subl_NoDup {A} (l1 l2 : list A) : subl l1 l2 -> NoDup l2 -> NoDup l1.
Proof.
  intros H. induction H as [|y l1 l2 H IH|y l1 l2 H IH]; intros Hnd.
  - exact Hnd.
  - inversion Hnd as [|? ? _ Hnd']; subst. exact (IH Hnd').
  - inversion Hnd as [|? ? Hy Hnd']; subst. constructor; [|exact (IH Hnd')].
    intros Hin. apply Hy. exact (subl_In _ _ _ H Hin).
Qed.

Lemma subl_Forall {A} (P : A -> Prop) (l1 l2 : list A) : subl l1 l2 -> Forall P l2 -> Forall P l1.
Proof.
  intros H Hall. rewrite Forall_forall in *. intros x Hx. exact (Hall x (subl_In _ _ _ H Hx)).
Qed.

Lemma subl_map_inv {A B} (f : A -> B) (l : list B) (rs : list A) :
  subl l (map f rs) -> exists rs', l = map f rs' /\ subl rs' rs.
Proof.
  revert l. induction rs as [|r rs IH]; intros l H; cbn [map] in H.
  - inversion H; subst. exists []. split; [reflexivity | constructor].
  - inversion H as [|x l1 l2 H'|x l1 l2 H']; subst.
    + destruct (IH _ H') as (rs' & -> & Hs). exists rs'. split; [reflexivity | constructor; exact Hs].
    + destruct (IH _ H') as (rs' & -> & Hs). exists (r :: rs'). split; [reflexivity | constructor; exact Hs].
Qed.

Lemma inline_kind_not_heading k : inline_kind k = true -> is_heading k = false.
Proof. destruct k; intros H; try discriminate H; reflexivity. Qed.

(* no headings in an inline tree *)
Lemma heading_ids_inline : forall t, all_kinds inline_kind t = true -> heading_ids t = [].
Proof.
  intros t. induction t as [k l a kids IH] using tree_ind_forall. intros H.
  rewrite all_kinds_unfold in H. apply andb_true_iff in H as [Hk Hkids].
  rewrite heading_ids_unfold, (inline_kind_not_heading k Hk).
  induction IH as [|x xs Hx _ IHxs]; [reflexivity|].
  cbn [forallb] in Hkids. apply andb_true_iff in Hkids as [H1 H2].
  cbn [flat_map]. rewrite (Hx H1), (IHxs H2). reflexivity.
Qed.

Lemma heading_has_inlines k : is_heading k = true -> has_inlines k = true.
Proof. destruct k; intros H; try discriminate H; reflexivity. Qed.

Section AttachIds.
Variable src : bytes.
Variable inl : list seg -> result (list tree).
Hypothesis inl_kinds : forall lines ts, lines_ok src lines -> inl lines = Ok ts ->
  Forall (fun t => all_kinds inline_kind t = true) ts.

Lemma attach_heading_ids : forall t t', tree_lines_ok src t = true -> attach_inlines inl t = Ok t' ->
  subl (heading_ids t') (heading_ids t).
Proof.
  intros t. induction t as [k l a kids IH] using tree_ind_forall. intros t' Hl H.
  rewrite tree_lines_ok_unfold in Hl. apply andb_true_iff in Hl as [Hl Hlk].
  rewrite attach_inlines_unfold in H. destruct (has_inlines k) eqn:Hh.
  - apply pc_bind_ok in H as (ch & Hch & H). apply pc_Ok_inj in H as <-.
    rewrite !heading_ids_unfold. destruct (is_heading k); [apply subl_refl|].
    apply andb_true_iff in Hl as [Hl1 Hl2].
    pose proof (inl_kinds l ch (conj Hl1 Hl2) Hch) as Hk.
    replace (flat_map heading_ids ch) with (@nil (option aval)); [apply subl_nil_l|].
    clear Hch. induction Hk as [|x xs Hx _ IHxs]; [reflexivity|].
    cbn [flat_map]. rewrite (heading_ids_inline x Hx), <- IHxs. reflexivity.
  - apply pc_bind_ok in H as (kids' & Hk' & H). apply pc_Ok_inj in H as <-.
    rewrite !heading_ids_unfold.
    assert (Hnh : is_heading k = false).
    { destruct (is_heading k) eqn:E; [|reflexivity]. apply heading_has_inlines in E. congruence. }
    rewrite Hnh. apply map_res_forall2 in Hk'. clear Hl Hh Hnh.
    induction Hk' as [|x y xs ys Hxy _ IHrest]; [constructor|].
    cbn [forallb] in Hlk. apply andb_true_iff in Hlk as [Hlx Hlr].
    inversion IH as [|? ? IHx IHr]; subst.
    cbn [flat_map]. apply subl_app; [exact (IHx y Hlx Hxy) | exact (IHrest IHr Hlr)].
Qed.
End AttachIds.

Lemma ids_ok_subl t t' : subl (heading_ids t') (heading_ids t) -> ids_ok t -> ids_ok t'.
Proof.
  intros Hs (rs & Hrs & Hnd & Hall). rewrite Hrs in Hs.
  apply subl_map_inv in Hs as (rs' & Hrs' & Hs).
  exists rs'. split; [exact Hrs'|]. split; [exact (subl_NoDup _ _ Hs Hnd) | exact (subl_Forall _ _ _ Hs Hall)].
Qed.

(* ---------- what the pass leaves alone ---------- *)
Lemma assign_ids_rest (P : bytes -> Prop) : forall t ids, Forall P ids -> Forall P (snd (assign_ids t ids)).
Proof.
  intros t. induction t as [k l a kids IH] using tree_ind_forall. intros ids Hids.
  rewrite assign_ids_unfold. destruct (is_heading k).
  - destruct ids as [|i r]; cbn [snd]; [constructor|]. inversion Hids; subst; assumption.
  - cbn [snd]. revert ids Hids. induction IH as [|x xs Hx _ IHxs]; intros ids Hids.
    + exact Hids.
    + rewrite assign_list_cons. cbn [snd]. apply IHxs. apply Hx. exact Hids.
Qed.

(* tree_lines_ok and all_kinds do not look at attributes *)
Lemma assign_ids_lines src : forall t ids, tree_lines_ok src (fst (assign_ids t ids)) = tree_lines_ok src t.
Proof.
  intros t. induction t as [k l a kids IH] using tree_ind_forall. intros ids.
  rewrite assign_ids_unfold. destruct (is_heading k).
  - destruct ids as [|i r]; cbn [fst]; [reflexivity|]. rewrite !tree_lines_ok_unfold. reflexivity.
  - cbn [fst]. rewrite !tree_lines_ok_unfold. f_equal.
    revert ids. induction IH as [|x xs Hx _ IHxs]; intros ids; [reflexivity|].
    rewrite assign_list_cons. cbn [fst forallb]. rewrite Hx, IHxs. reflexivity.
Qed.

Lemma assign_ids_kinds p : forall t ids, all_kinds p (fst (assign_ids t ids)) = all_kinds p t.
Proof.
  intros t. induction t as [k l a kids IH] using tree_ind_forall. intros ids.
  rewrite assign_ids_unfold. destruct (is_heading k).
  - destruct ids as [|i r]; cbn [fst]; [reflexivity|]. rewrite !all_kinds_unfold. reflexivity.
  - cbn [fst]. rewrite !all_kinds_unfold. f_equal.
    revert ids. induction IH as [|x xs Hx _ IHxs]; intros ids; [reflexivity|].
    rewrite assign_list_cons. cbn [fst forallb]. rewrite Hx, IHxs. reflexivity.
Qed.

Lemma node_ok_heading_attrs src it k l a a' kids : is_heading k = true -> attrs_ok a' = true ->
  node_ok src it (Node k l a kids) = true -> node_ok src it (Node k l a' kids) = true.
Proof.
  intros Hk Ha H. destruct k; try discriminate Hk. cbn [node_ok] in *.
  apply andb_true_iff in H as [H H3]. apply andb_true_iff in H as [H1 H2].
  rewrite H1, Ha, H3. reflexivity.
Qed.

Lemma node_ok_attrs_ok src it k l a kids : node_ok src it (Node k l a kids) = true ->
  forallb (seg_in src) l = true /\ attrs_ok a = true.
Proof.
  cbn [node_ok]. intros H. apply andb_true_iff in H as [H _]. apply andb_true_iff in H as [H1 H2]. split; assumption.
Qed.

(* well-formedness: the new attribute is  id="<bytes>"  *)
Lemma assign_ids_wf src : forall t ids, Forall (fun i => all_bytes_b i = true) ids ->
  all_kinds block_kind t = true -> wf_node src false false t = true ->
  wf_node src false false (fst (assign_ids t ids)) = true.
Proof.
  intros t. induction t as [k l a kids IH] using tree_ind_forall. intros ids Hids Hkinds Hwf.
  rewrite assign_ids_unfold. destruct (is_heading k) eqn:Hk.
  - destruct ids as [|i r]; cbn [fst]; [exact Hwf|].
    rewrite wf_node_unfold in *. apply andb_true_iff in Hwf as [Hwf Hwfk].
    apply andb_true_iff in Hwf as [Hnode Hcell]. rewrite Hcell, Hwfk.
    rewrite (node_ok_heading_attrs src false k l a (new_attrs i a) kids Hk); [reflexivity| |exact Hnode].
    apply attrs_ok_new; [inversion Hids; subst; assumption|].
    exact (proj2 (node_ok_attrs_ok _ _ _ _ _ _ Hnode)).
  - cbn [fst].
    rewrite all_kinds_unfold in Hkinds. apply andb_true_iff in Hkinds as [Hbk Hkinds].
    rewrite wf_node_unfold in *. apply andb_true_iff in Hwf as [Hwf Hwfk].
    apply andb_true_iff in Hwf as [Hnode Hcell].
    rewrite (node_ok_block_children src false k l a _ kids Hbk), Hnode, Hcell. cbn [andb].
    destruct (block_kind_flags k Hbk) as (_ & Hf2 & Hf3). rewrite Hf2, Hf3 in *.
    clear Hnode Hcell Hk Hbk Hf2 Hf3.
    revert ids Hids. induction IH as [|x xs Hx _ IHxs]; intros ids Hids; [reflexivity|].
    cbn [forallb] in Hkinds, Hwfk.
    apply andb_true_iff in Hkinds as [Hkx Hkr]. apply andb_true_iff in Hwfk as [Hwx Hwr].
    rewrite assign_list_cons. cbn [fst forallb].
    rewrite (Hx ids Hids Hkx Hwx). cbn [andb].
    apply (IHxs Hkr Hwr). apply assign_ids_rest. exact Hids.
Qed.

(* ---------- the pass never fails ---------- *)
Lemma seg_in_value src sg : seg_in src sg = true -> exists v, seg_value src sg = Ok v.
Proof.
  unfold seg_in. intros H. apply seg_value_total; [unfold seg_range|]; lia.
Qed.

Lemma last_seg_In l sg : last_seg l = Some sg -> In sg l.
Proof.
  unfold last_seg. destruct (rev l) as [|x r] eqn:E; intros H; [discriminate H|].
  injection H as ->. apply in_rev. rewrite E. left. reflexivity.
Qed.

Lemma heading_texts_total src : forall t it ir, wf_node src it ir t = true -> exists vs, heading_texts src t = Ok vs.
Proof.
  intros t. induction t as [k l a kids IH] using tree_ind_forall. intros it ir Hwf.
  rewrite wf_node_unfold in Hwf. apply andb_true_iff in Hwf as [Hwf Hwfk].
  apply andb_true_iff in Hwf as [Hnode _].
  rewrite heading_texts_unfold. destruct (is_heading k).
  - destruct (last_seg l) as [sg|] eqn:El; [|eexists; reflexivity].
    apply last_seg_In in El. destruct (node_ok_attrs_ok _ _ _ _ _ _ Hnode) as [Hl _].
    rewrite forallb_forall in Hl. destruct (seg_in_value src sg (Hl sg El)) as [v Hv].
    rewrite Hv. cbn [bind]. eexists; reflexivity.
  - clear Hnode.
    set (it' := match k with KTable => true | _ => false end) in Hwfk.
    set (ir' := match k with KTableHeader | KTableRow => true | _ => false end) in Hwfk.
    clearbody it' ir'.
    induction IH as [|x xs Hx _ IHxs]; cbn [texts_list]; [eexists; reflexivity|].
    cbn [forallb] in Hwfk. apply andb_true_iff in Hwfk as [Hwx Hwr].
    destruct (Hx it' ir' Hwx) as [v1 H1]. destruct (IHxs Hwr) as [v2 H2].
    rewrite H1. cbn [bind]. rewrite H2. cbn [bind]. eexists; reflexivity.
Qed.

(* the pass never fails: every heading's last line lies inside the source (ParseBlocksTree_ok) and
   Generate is total (generate_all_total) *)
Theorem AutoIds_total : forall src t refs, bytes_ok src -> ParseBlocksTree src = Ok (t, refs) ->
  exists t', AutoIds src t = Ok t'.
Proof.
  intros src t refs Hsrc Hb. destruct (ParseBlocksTree_ok src t refs Hsrc Hb) as (Hwf & _ & _).
  destruct (heading_texts_total src t false false Hwf) as [vs Hvs].
  destruct (generate_all_total utf8len_table space_table spaces [] vs) as [rs Hrs].
  unfold AutoIds. rewrite Hvs. cbn [bind]. unfold GenerateAll. rewrite Hrs. cbn [bind]. eexists; reflexivity.
Qed.

(* ---------- ParseTreeA ---------- *)
Lemma ParseTreeA_inv src t' : ParseTreeA src = Ok t' ->
  exists t refs t1, ParseBlocksTree src = Ok (t, refs) /\ AutoIds src t = Ok t1 /\
                    attach_inlines (InlineChildren refs src) t1 = Ok t'.
Proof.
  unfold ParseTreeA. intros H. apply pc_bind_ok in H as ([t refs] & Hb & H).
  apply pc_bind_ok in H as (t1 & H1 & H). exists t, refs, t1. repeat split; assumption.
Qed.

Lemma ParseBlocksTree_block_kinds src t refs : ParseBlocksTree src = Ok (t, refs) -> all_kinds block_kind t = true.
Proof.
  unfold ParseBlocksTree. intros H. apply pc_bind_ok in H as (s & _ & H). apply pc_bind_ok in H as (t0 & Ht & H).
  apply pc_Ok_inj in H. injection H as -> _. exact (to_tree_block_kinds _ _ _ _ _ Ht).
Qed.

(* the tree after the pass is as good as the block tree *)
Lemma AutoIds_ok src t refs t1 : bytes_ok src -> ParseBlocksTree src = Ok (t, refs) -> AutoIds src t = Ok t1 ->
  all_kinds block_kind t1 = true /\ wf_node src false false t1 = true /\ tree_lines_ok src t1 = true /\ refs_ok refs.
Proof.
  intros Hsrc Hb H1. destruct (ParseBlocksTree_ok src t refs Hsrc Hb) as (Hwf & Hl & Hrefs).
  pose proof (ParseBlocksTree_block_kinds src t refs Hb) as Hk.
  apply AutoIds_inv in H1 as (vs & rs & _ & Hrs & ->).
  apply GenerateAll_ok in Hrs as (_ & Hall & _).
  rewrite assign_ids_kinds, assign_ids_lines. repeat split; try assumption.
  apply assign_ids_wf; try assumption.
  rewrite Forall_forall in *. intros r Hr. apply id_char_byte. exact (proj2 (Hall r Hr)).
Qed.

(* attaching the inline children does not touch the headings' attributes (block kinds above,
   public inline kinds below: InlineChildren_public_kinds) *)
Theorem ParseTreeA_ids_ok : forall src t, bytes_ok src -> ParseTreeA src = Ok t -> ids_ok t.
Proof.
  intros src t' Hsrc H. apply ParseTreeA_inv in H as (t & refs & t1 & Hb & H1 & Hatt).
  destruct (AutoIds_ok src t refs t1 Hsrc Hb H1) as (_ & _ & Hl & Hrefs).
  apply (ids_ok_subl t1 t'); [|exact (AutoIds_ids_ok src t t1 H1)].
  apply (attach_heading_ids src (InlineChildren refs src)); [|exact Hl|exact Hatt].
  intros lines ts Hlo Hi. exact (InlineChildren_public_kinds refs src lines ts Hsrc Hrefs Hlo Hi).
Qed.

(* C05 with automatic heading ids: every tree ParseTreeA yields is well formed *)
Theorem ParseTreeA_wf : forall src t, bytes_ok src -> ParseTreeA src = Ok t -> wf_tree src t = true.
Proof.
  intros src t' Hsrc H. apply ParseTreeA_inv in H as (t & refs & t1 & Hb & H1 & Hatt).
  destruct (AutoIds_ok src t refs t1 Hsrc Hb H1) as (Hk & Hwf & Hl & Hrefs).
  unfold wf_tree. rewrite Hsrc. cbn [andb].
  apply (attach_wf src (InlineChildren refs src)) with (t := t1); try assumption.
  intros lines ts Hlo Hi. exact (InlineChildren_ok refs src lines ts Hsrc Hrefs Hlo Hi).
Qed.

Section Total.
Hypothesis inlines_total : forall refs src lines, bytes_ok src -> lines_ok src lines ->
  exists ts, InlineChildren refs src lines = Ok ts.
(* with the totality of the inline phase: the Convert model with automatic heading ids returns
   for every source *)
Theorem ParseTreeA_total : forall src, bytes_ok src -> exists t, ParseTreeA src = Ok t.
Proof.
  intros src Hsrc. destruct (ParseBlocksTree_total src Hsrc) as [[t refs] Hb].
  destruct (AutoIds_total src t refs Hsrc Hb) as [t1 H1].
  destruct (AutoIds_ok src t refs t1 Hsrc Hb H1) as (_ & _ & Hl & _).
  unfold ParseTreeA. rewrite Hb. cbn [bind]. rewrite H1. cbn [bind].
  exact (attach_total src (InlineChildren refs src) (fun lines Hlo => inlines_total refs src lines Hsrc Hlo) t1 Hl).
Qed.
Theorem ConvertModelA_total : forall c src, bytes_ok src -> exists o, ConvertModelA c src = Ok o.
Proof.
  intros c src Hsrc. destruct (ParseTreeA_total src Hsrc) as [t Ht].
  unfold ConvertModelA. rewrite Ht. cbn [bind].
  exact (RenderHTML_total c src t (ParseTreeA_wf src t Hsrc Ht)).
Qed.
End Total.
