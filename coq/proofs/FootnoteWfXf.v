(* C16 / C05 for the Footnote parser model, part 3: the AST transformer on the heap
   (model/FootnoteParse.v ast_transform): what it leaves behind (XfPost). *)
Require Import GM.model.Base GM.model.Util GM.model.Reader GM.model.ListItem GM.model.Regex GM.model.HtmlWriter GM.model.Html GM.model.HtmlSpec
               GM.model.BlockParse GM.model.InlineParse GM.model.FootnoteX
               GM.model.FootnoteParseBlock GM.model.FootnoteParseInline GM.model.FootnoteParse.
Require Import GM.proofs.ParseInv GM.proofs.ParseBlocksRangeA GM.proofs.ParseBlocksRangeB GM.proofs.FootnoteProofs
               GM.proofs.FootnoteWfDefs GM.proofs.FootnoteWfFs GM.proofs.FootnoteWfSort GM.proofs.FootnoteWfHeap.
From Coq Require Import List ZArith Lia Bool Permutation Sorted.
Import ListNotations.
Open Scope Z_scope.

Definition idx_of (h : heap) (c : nat) : Z := match nth_error h c with Some n => b_i2 n | None => -1 end.
Definition keep (h : heap) (c : nat) : bool := 0 <=? idx_of h c.
Definition is_backlink (k : kind) : bool := match k with KFootnoteBacklink _ _ _ => true | _ => false end.
Definition leaf (k : kind) : tree := Node k [] None [].

(* the trees of the entries of b: trees of the entries of a, or back-link leaves *)
Definition inl_ext (a b : list (nat * list tree)) : Prop :=
  forall i ts t, In (i, ts) b -> In t ts ->
    (exists j ts0, In (j, ts0) a /\ In t ts0) \/ (exists k, is_backlink k = true /\ t = leaf k).

(* ---------- lists ---------- *)
Lemma set_i2_id n : set_i2 n (b_i2 n) = n.
Proof. destruct n; reflexivity. Qed.

Lemma remove_id_app_notin f : forall A R, ~ In f A -> remove_id f (A ++ f :: R) = A ++ R.
Proof.
  induction A as [|a A IH]; intros R Hn; cbn [app remove_id].
  - rewrite Nat.eqb_refl. reflexivity.
  - destruct (Nat.eqb_spec f a) as [->|Hne]; [exfalso; apply Hn; left; reflexivity|].
    f_equal. apply IH. intros Hin. apply Hn. right. exact Hin.
Qed.

Lemma map_filter_comm {A B} (f : A -> B) (p : B -> bool) l : map f (filter (fun c => p (f c)) l) = filter p (map f l).
Proof.
  induction l as [|x l IH]; [reflexivity|]. cbn [filter map]. destruct (p (f x)); cbn [map]; rewrite IH; reflexivity.
Qed.

Lemma lookup_id_app {A} (a b : list (nat * A)) i :
  lookup_id (a ++ b) i = match lookup_id a i with Some v => Some v | None => lookup_id b i end.
Proof.
  induction a as [|[j v] a IH]; [reflexivity|]. cbn [app lookup_id]. destruct (Nat.eqb i j); [reflexivity|exact IH].
Qed.

Lemma lookup_id_in {A} (l : list (nat * A)) i v : lookup_id l i = Some v -> In (i, v) l.
Proof.
  induction l as [|[j w] l IH]; cbn [lookup_id]; [discriminate|].
  destruct (Nat.eqb_spec i j) as [->|Hne].
  - intros H. injection H as <-. left. reflexivity.
  - intros H. right. apply IH. exact H.
Qed.

Lemma append_entry_in l c new : forall i ts, In (i, ts) (append_entry l c new) ->
  In (i, ts) l \/ (exists ts0, In (i, ts0) l /\ ts = ts0 ++ new) \/ (i = c /\ ts = new).
Proof.
  induction l as [|[j v] l IH]; intros i ts H; cbn [append_entry] in H.
  - destruct H as [H|[]]. injection H as <- <-. right. right. auto.
  - destruct (Nat.eqb_spec c j) as [->|Hne].
    + destruct H as [H|H].
      * injection H as <- <-. right. left. exists v. split; [left; reflexivity|reflexivity].
      * left. right. exact H.
    + destruct H as [H|H].
      * left. left. exact H.
      * destruct (IH i ts H) as [H1|[[ts0 [H1 H2]]|H1]].
        -- left. right. exact H1.
        -- right. left. exists ts0. split; [right; exact H1|exact H2].
        -- right. right. exact H1.
Qed.

Lemma inl_ext_refl a : inl_ext a a.
Proof. intros i ts t H1 H2. left. exists i, ts. auto. Qed.

Lemma inl_ext_append a b c ks : inl_ext a b -> Forall (fun k => is_backlink k = true) ks ->
  inl_ext a (append_entry b c (map leaf ks)).
Proof.
  intros Hab Hks i ts t Hin Ht.
  assert (Hleaf : In t (map leaf ks) -> exists k, is_backlink k = true /\ t = leaf k).
  { intros H. apply in_map_iff in H. destruct H as [k [<- Hk]]. exists k. split; [|reflexivity].
    rewrite Forall_forall in Hks. apply Hks. exact Hk. }
  destruct (append_entry_in _ _ _ _ _ Hin) as [H|[[ts0 [H1 ->]]|[-> ->]]].
  - exact (Hab i ts t H Ht).
  - apply in_app_or in Ht. destruct Ht as [Ht|Ht]; [exact (Hab i ts0 t H1 Ht)|right; apply Hleaf; exact Ht].
  - right. apply Hleaf. exact Ht.
Qed.

Lemma backlink_kinds_ok links index : Forall (fun k => is_backlink k = true) (backlink_kinds links index).
Proof. unfold backlink_kinds. apply Forall_forall. intros k Hk. apply in_map_iff in Hk. destruct Hk as [x [<- _]]. reflexivity. Qed.

Lemma idx_of_tstep h h' c : tstep h h' -> (c < length h)%nat -> idx_of h' c = idx_of h c.
Proof.
  intros [_ H] Hc. unfold idx_of. destruct (nth_error h c) as [n|] eqn:E.
  - destruct (H c n E) as (n' & E' & _ & _ & I2 & _). rewrite E'. exact I2.
  - apply nth_error_None in E. lia.
Qed.

Lemma idx_of_tstep_len h h' : tstep h h' -> length h' = length h -> forall c, idx_of h' c = idx_of h c.
Proof.
  intros T L c. destruct (Nat.lt_ge_cases c (length h)) as [Hc|Hc]; [apply idx_of_tstep; assumption|].
  unfold idx_of. assert (nth_error h c = None) as -> by (apply nth_error_None; lia).
  assert (nth_error h' c = None) as -> by (apply nth_error_None; lia). reflexivity.
Qed.

Lemma keyed_spec hp : forall ids keyed,
  map_res (fun i => n <- hget hp i ;; Ok (i, b_i2 n)) ids = Ok keyed -> keyed = map (fun i => (i, idx_of hp i)) ids.
Proof.
  induction ids as [|i ids IH]; intros keyed H; cbn [map_res] in H.
  - injection H as <-. reflexivity.
  - fw_bind H y Hy. fw_bind H r Hr. injection H as <-. fw_bind Hy n Hn. injection Hy as <-.
    apply hget_ok in Hn. cbn [map]. unfold idx_of at 1. rewrite Hn. f_equal. apply IH. exact Hr.
Qed.

Section X.
Variable space_table : list N.
Variable src : bytes.
Notation HS := (HS space_table src).

(* ---------- write_indices ---------- *)
Lemma write_indices_spec : forall ids defs h h1, HS h -> NoDup ids -> write_indices h ids defs = Ok h1 ->
  HS h1 /\ length h1 = length h /\
  (forall i n, nth_error h i = Some n -> exists v, nth_error h1 i = Some (set_i2 n v)) /\
  map (idx_of h1) ids = map d_index defs.
Proof.
  induction ids as [|i ids IH]; intros defs h h1 HH Hnd H; destruct defs as [|d defs]; cbn [write_indices] in H; try discriminate.
  - injection H as <-. split; [exact HH|]. split; [reflexivity|]. split; [|reflexivity].
    intros i n Hi. exists (b_i2 n). rewrite set_i2_id. exact Hi.
  - fw_bind H h' Hh'. apply hupd_ok in Hh'. destruct Hh' as [n [En ->]].
    apply NoDup_cons_iff in Hnd. destruct Hnd as [Hni Hnd].
    assert (HH' : HS (hset h i (set_i2 n (d_index d)))).
    { apply (HS_hset_data space_table src h i n); auto. }
    destruct (IH defs _ h1 HH' Hnd H) as (A1 & A2 & A3 & A4).
    pose proof (nth_some_lt _ _ _ En) as Hi.
    split; [exact A1|]. split; [rewrite A2; apply length_hset|]. split.
    + intros j m Hj. destruct (Nat.eq_dec j i) as [->|Hne].
      * assert (m = n) by congruence. subst m.
        destruct (A3 i (set_i2 n (d_index d))) as [v Hv]; [apply nth_hset_eq; exact Hi|]. exists v. exact Hv.
      * apply A3. rewrite nth_hset_ne by congruence. exact Hj.
    + cbn [map]. f_equal; [|exact A4].
      destruct (A3 i (set_i2 n (d_index d))) as [v Hv]; [apply nth_hset_eq; exact Hi|].
      (* i is not among the remaining ids: its index is the one just written *)
      assert (Hkeep : forall ids0 defs0 ha hb, ~ In i ids0 -> write_indices ha ids0 defs0 = Ok hb -> nth_error hb i = nth_error ha i).
      { clear. induction ids0 as [|j ids0 IH0]; intros defs0 ha hb Hn Hw; destruct defs0 as [|d0 defs0]; cbn [write_indices] in Hw; try discriminate.
        - injection Hw as <-. reflexivity.
        - fw_bind Hw hc Hc. apply hupd_ok in Hc. destruct Hc as [m [Em ->]].
          rewrite (IH0 _ _ _ (fun Hx => Hn (or_intror Hx)) Hw). apply nth_hset_ne. intros ->. apply Hn. left. reflexivity. }
      unfold idx_of. rewrite (Hkeep _ _ _ _ Hni H). rewrite nth_hset_eq by exact Hi. reflexivity.
Qed.

(* ---------- the loop over the children of the list ---------- *)
Record LI (h1 : heap) (l : nat) (ch : list nat) (kids0 : list (nat * list tree)) (p : fpost) : Prop := {
  li_hs : HS (fp_h p);
  li_ts : tstep h1 (fp_h p);
  li_l : exists ln, nth_error (fp_h p) l = Some ln /\ bch ln = ch /\
                    forall ln1, nth_error h1 l = Some ln1 -> bpar ln = bpar ln1;
  li_back : forall i k, lookup_id (fp_back p) i = Some k -> (length h1 <= i)%nat /\ is_backlink k = true;
  li_new : forall i, (length h1 <= i < length (fp_h p))%nat -> exists k, lookup_id (fp_back p) i = Some k;
  li_inl : inl_ext kids0 (fp_inl p)
}.

Lemma add_placeholders_LI h1 l ch kids0 f : forall ks p p', LI h1 l ch kids0 p -> f <> l ->
  (exists nf, nth_error (fp_h p) f = Some nf /\ container (bk nf) = true) ->
  Forall (fun k => is_backlink k = true) ks ->
  add_placeholders p f ks = Ok p' -> LI h1 l ch kids0 p'.
Proof.
  induction ks as [|k ks IH]; intros p p' HL Hfl Hf Hks H; cbn [add_placeholders] in H.
  - injection H as <-. exact HL.
  - unfold halloc in H. fw_bind H h2 Hh2.
    destruct HL as [L1 L2 [ln [L3 [L3b L3c]]] L4 L5 L6]. destruct Hf as [nf [Ef Kf]].
    destruct (place_HS space_table src (fp_h p) f nf h2 L1 Ef Kf Hh2) as (A1 & A2 & A3 & A4 & A5).
    apply Forall_cons_iff in Hks. destruct Hks as [Hk Hks].
    apply (IH _ p') in H; auto.
    + cbn [fp_h fp_inl fp_back]. constructor; cbn [fp_h fp_inl fp_back].
      * exact A1.
      * eapply tstep_trans; eassumption.
      * exists ln. split; [|split; assumption]. rewrite A5; [exact L3|congruence|eapply nth_some_lt; exact L3].
      * intros i k0 Hi. rewrite lookup_id_app in Hi. destruct (lookup_id (fp_back p) i) as [v|] eqn:Ev.
        -- injection Hi as <-. apply L4. exact Ev.
        -- cbn [lookup_id] in Hi. destruct (Nat.eqb_spec i (length (fp_h p))) as [->|Hne]; [|discriminate].
           injection Hi as <-. split; [apply L2|exact Hk].
      * intros i Hi. rewrite lookup_id_app. destruct (lookup_id (fp_back p) i) as [v|] eqn:Ev; [eauto|].
        cbn [lookup_id]. destruct (Nat.eqb_spec i (length (fp_h p))) as [->|Hne]; [eauto|].
        exfalso. destruct (L5 i) as [k0 Hk0]; [lia|congruence].
      * exact L6.
    + cbn [fp_h]. eexists. split; [exact A4|exact Kf].
Qed.

Lemma fn_items_loop h1 l links kids0 : forall rest done p p',
  NoDup (done ++ rest) -> ~ In l (done ++ rest) -> (forall c, In c rest -> (c < length h1)%nat) ->
  LI h1 l (filter (keep h1) done ++ rest) kids0 p ->
  FootnoteParse.fn_items rest l links p = Ok p' ->
  LI h1 l (filter (keep h1) (done ++ rest)) kids0 p' /\
  (forall c n, In c rest -> nth_error h1 c = Some n -> is_footnote_node n = true).
Proof.
  induction rest as [|f rest IH]; intros done p p' Hnd Hnl Hlt HL H; cbn [FootnoteParse.fn_items] in H.
  - injection H as <-. rewrite !app_nil_r in *. split; [exact HL|]. intros c n [].
  - fw_bind H n Hn. apply hget_ok in Hn.
    destruct (is_footnote_node n) eqn:Efn; cbn [negb] in H; [|discriminate].
    fw_bind H container Hcont. fw_bind H p1 Hp1.
    assert (Hfl : f <> l). { intros ->. apply Hnl. apply in_or_app. right. left. reflexivity. }
    assert (Hf1 : (f < length h1)%nat) by (apply Hlt; left; reflexivity).
    assert (Hidx : b_i2 n = idx_of h1 f).
    { pose proof (idx_of_tstep h1 (fp_h p) f (li_ts _ _ _ _ _ HL) Hf1) as E. unfold idx_of at 1 in E. rewrite Hn in E. exact E. }
    assert (Hn1 : forall n1, nth_error h1 f = Some n1 -> is_footnote_node n1 = true).
    { intros n1 E1. destruct (li_ts _ _ _ _ _ HL) as [_ Hts]. destruct (Hts f n1 E1) as (n' & E' & K & I1 & _).
      assert (n' = n) by congruence. subst n'. unfold is_footnote_node in *. rewrite <- K, <- I1. exact Efn. }
    assert (Hstep : LI h1 l (filter (keep h1) (done ++ [f]) ++ rest) kids0 p1).
    { rewrite filter_app. cbn [filter]. unfold keep at 2. rewrite <- Hidx.
      destruct HL as [L1 L2 [ln [L3 [L3b L3c]]] L4 L5 L6].
      destruct (Z.ltb_spec (b_i2 n) 0) as [Hneg|Hpos].
      - (* removed *)
        destruct (Z.leb_spec 0 (b_i2 n)) as [Hbad|_]; [lia|]. rewrite app_nil_r.
        fw_bind Hp1 h' Hh'. injection Hp1 as <-.
        assert (Pn : bpar n = Some l).
        { destruct (hs_K _ _ _ (proj1 L1) l ln f L3) as [nc [Ec Pc]].
          - rewrite L3b. apply in_or_app. right. left. reflexivity.
          - congruence. }
        destruct (remove_child_HS space_table src (fp_h p) l f h' n L1 Hh' Hfl Hn Pn) as (A1 & A2 & A3 & A4 & [np [A5 A5b]] & A6).
        assert (np = ln) by congruence. subst np.
        constructor; cbn [fp_set_h fp_h fp_inl fp_back].
        + exact A1.
        + eapply tstep_trans; eassumption.
        + eexists. split; [exact A5b|]. cbn [set_ch bch bpar]. split; [|exact L3c].
          rewrite L3b. apply remove_id_app_notin.
          intros Hin. apply filter_In in Hin. destruct Hin as [Hin _].
          apply NoDup_remove_2 in Hnd. apply Hnd. apply in_or_app. left. exact Hin.
        + exact L4.
        + intros i Hi. apply L5. lia.
        + exact L6.
      - (* kept *)
        destruct (Z.leb_spec 0 (b_i2 n)) as [_|Hbad]; [|lia].
        rewrite <- app_assoc. cbn [app].
        assert (HL0 : LI h1 l (filter (keep h1) done ++ f :: rest) kids0 p).
        { constructor; auto. exists ln. auto. }
        destruct (Nat.eqb_spec container f) as [->|Hne].
        + eapply (add_placeholders_LI h1 l _ kids0 f); [exact HL0|exact Hfl| |apply backlink_kinds_ok|exact Hp1].
          exists n. split; [exact Hn|]. unfold is_footnote_node in Efn. apply andb_true_iff in Efn. destruct Efn as [Ek _].
          destruct (bk n); try discriminate; reflexivity.
        + injection Hp1 as <-. constructor; cbn [fp_h fp_inl fp_back]; auto.
          * exists ln. auto.
          * apply inl_ext_append; [exact L6|apply backlink_kinds_ok]. }
    destruct (IH (done ++ [f]) p1 p') as [R1 R2].
    + rewrite <- app_assoc. exact Hnd.
    + rewrite <- app_assoc. exact Hnl.
    + intros c Hc. apply Hlt. right. exact Hc.
    + exact Hstep.
    + exact H.
    + rewrite <- app_assoc in R1. split; [exact R1|].
      intros c m [<-|Hc] Em; [apply Hn1; exact Em|eapply R2; eassumption].
Qed.

(* ---------- the whole transformer ---------- *)
Record XfPost (h : heap) (l : nat) (defs : list fdef) (count : Z) (kids0 : list (nat * list tree)) (p : fpost) : Prop := {
  xp_hs : HS (fp_h p);
  xp_len : (length h <= length (fp_h p))%nat;
  xp_old : forall i n, nth_error h i = Some n -> exists n', nth_error (fp_h p) i = Some n' /\
             bk n' = bk n /\ b_i1 n' = b_i1 n /\ blines n' = blines n /\ b_seg n' = b_seg n;
  xp_back : forall i k, lookup_id (fp_back p) i = Some k -> (length h <= i)%nat /\ is_backlink k = true;
  xp_new : forall i, (length h <= i < length (fp_h p))%nat -> exists k, lookup_id (fp_back p) i = Some k;
  xp_inl : inl_ext kids0 (fp_inl p);
  xp_l : exists ln, nth_error (fp_h p) l = Some ln /\ bpar ln = (if count <=? 0 then None else Some 0%nat) /\
           StronglySorted Z.le (map (idx_of (fp_h p)) (bch ln)) /\
           Permutation (map (idx_of (fp_h p)) (bch ln)) (idxs defs) /\
           (forall c, In c (bch ln) -> (c < length h)%nat /\ exists cn, nth_error (fp_h p) c = Some cn /\ is_footnote_node cn = true) /\
           (0 < count -> exists n0, nth_error (fp_h p) 0 = Some n0 /\ In l (bch n0))
}.

Lemma tstep_weak h h' : tstep h h' -> forall i n, nth_error h i = Some n -> exists n', nth_error h' i = Some n' /\
  bk n' = bk n /\ b_i1 n' = b_i1 n /\ blines n' = blines n /\ b_seg n' = b_seg n.
Proof. intros [_ H] i n E. destruct (H i n E) as (n' & E' & A & B & _ & C & D). exists n'. auto. Qed.

Theorem ast_transform_some h l fs defs kids p : HS h -> fs_defs fs = Some defs -> l <> 0%nat ->
  (forall ln, nth_error h l = Some ln -> is_fnlist_node ln = true) ->
  ast_transform h (Some l) fs kids = Ok p ->
  XfPost h l defs (fs_count fs) (map (fun e => (fst e, map (renumber (number_links (fs_links fs) [] (fs_links fs))) (snd e))) kids) p.
Proof.
  intros HH Ed Hl0 Hfl H. unfold ast_transform in H. rewrite Ed in H.
  fw_bind H ln Hln. apply hget_ok in Hln. fw_bind H h1 Hh1.
  pose proof (hs_nd _ _ _ (proj1 HH) l ln Hln) as Hnd.
  destruct (write_indices_spec _ _ _ _ HH Hnd Hh1) as (W1 & W2 & W3 & W4).
  set (kids0 := map _ kids) in *. set (links := fs_links fs) in *.
  fw_bind H p1 Hp1.
  destruct (W3 l ln Hln) as [v Hl1].
  (* the loop *)
  assert (Hnl : ~ In l (bch ln)).
  { intros Hin. destruct (hs_K _ _ _ (proj1 HH) l ln l Hln Hin) as [nc [Ec Pc]]. exact (hs_noself _ _ _ (proj1 HH) l nc Ec Pc). }
  assert (Hlt : forall c, In c (bch ln) -> (c < length h1)%nat).
  { intros c Hc. destruct (hs_K _ _ _ (proj1 HH) l ln c Hln Hc) as [nc [Ec _]]. rewrite W2. eapply nth_some_lt. exact Ec. }
  destruct (fn_items_loop h1 l links kids0 (bch ln) [] {| fp_h := h1; fp_inl := kids0; fp_back := [] |} p1) as [L R]; cbn [app filter]; auto.
  { constructor; cbn [fp_h fp_inl fp_back].
    - exact W1.
    - apply tstep_refl.
    - eexists. split; [exact Hl1|]. cbn [set_i2 bch bpar]. split; [reflexivity|]. intros ln1 E1. rewrite Hl1 in E1. injection E1 as <-. reflexivity.
    - intros i k Hi. discriminate.
    - intros i Hi. lia.
    - apply inl_ext_refl. }
  destruct L as [L1 L2 [ln2 [L3 [L3b L3c]]] L4 L5 L6]. cbn [app] in L3b.
  fw_bind H ln2' Hln2. apply hget_ok in Hln2. assert (ln2' = ln2) by congruence. subst ln2'.
  fw_bind H keyed Hkeyed. apply keyed_spec in Hkeyed.
  fw_bind H h3 Hh3. apply hupd_ok in Hh3. destruct Hh3 as [ln2' [E2 ->]]. assert (ln2' = ln2) by congruence. subst ln2'.
  destruct (sort_children_spec keyed) as [Ssort Psort].
  set (sorted := sort_children keyed) in *.
  assert (Pfst : Permutation (map fst sorted) (bch ln2)).
  { eapply perm_trans; [apply Permutation_map; exact Psort|]. rewrite Hkeyed, map_map. cbn [fst]. rewrite map_id. apply Permutation_refl. }
  pose proof (perm_ch_HS space_table src (fp_h p1) l ln2 (map fst sorted) L1 L3 Pfst) as HS3.
  set (h3 := hset (fp_h p1) l (set_ch ln2 (map fst sorted))) in *.
  pose proof (nth_some_lt _ _ _ L3) as Hll.
  assert (E3l : nth_error h3 l = Some (set_ch ln2 (map fst sorted))) by (unfold h3; apply nth_hset_eq; exact Hll).
  assert (T3 : tstep (fp_h p1) h3).
  { split; [unfold h3; rewrite length_hset; lia|]. intros i n Hi. destruct (Nat.eq_dec i l) as [->|Hne].
    - assert (n = ln2) by congruence. subst. eexists. split; [exact E3l|]. cbn. auto 10.
    - exists n. unfold h3. rewrite nth_hset_ne by congruence. auto 10. }
  assert (Hidx3 : forall c, idx_of h3 c = idx_of (fp_h p1) c).
  { intros c. unfold idx_of, h3. destruct (Nat.eq_dec c l) as [->|Hne].
    - rewrite nth_hset_eq by exact Hll. rewrite L3. reflexivity.
    - rewrite nth_hset_ne by congruence. reflexivity. }
  (* the keys of the sorted children *)
  assert (Hkeys : map (idx_of h3) (map fst sorted) = keys sorted).
  { unfold keys. rewrite map_map. apply map_ext_in. intros e He. rewrite Hidx3.
    apply (Permutation_in _ Psort) in He. rewrite Hkeyed in He. apply in_map_iff in He. destruct He as [c [<- _]]. reflexivity. }
  assert (Hperm : Permutation (keys sorted) (idxs defs)).
  { unfold keys. eapply perm_trans; [apply Permutation_map; exact Psort|]. rewrite Hkeyed, map_map. cbn [snd].
    rewrite L3b.
    rewrite (map_ext_in _ (idx_of h1)).
    2:{ intros c Hc. apply filter_In in Hc. destruct Hc as [Hc _]. apply idx_of_tstep; [exact L2|apply Hlt; exact Hc]. }
    unfold keep. rewrite (map_filter_comm (idx_of h1) (fun z => 0 <=? z)). rewrite W4.
    unfold idxs. rewrite <- (map_filter_comm d_index (fun z => 0 <=? z)). apply Permutation_refl. }
  assert (Hfoot : forall c, In c (map fst sorted) -> forall hx, tstep h3 hx -> (c < length h)%nat /\ exists cn, nth_error hx c = Some cn /\ is_footnote_node cn = true).
  { intros c Hc hx Hx. apply (Permutation_in _ Pfst) in Hc. rewrite L3b in Hc. apply filter_In in Hc. destruct Hc as [Hc _].
    split; [rewrite <- W2; apply Hlt; exact Hc|].
    destruct (nth_error h1 c) as [n1|] eqn:E1; [|apply nth_error_None in E1; specialize (Hlt c Hc); lia].
    pose proof (R c n1 Hc E1) as Hfn.
    destruct (tstep_weak _ _ (tstep_trans _ _ _ (tstep_trans _ _ _ L2 T3) Hx) c n1 E1) as (cn & Ecn & K & I1 & _).
    exists cn. split; [exact Ecn|]. unfold is_footnote_node in *. rewrite K, I1. exact Hfn. }
  assert (Hold : forall hx, tstep h3 hx -> forall i n, nth_error h i = Some n -> exists n', nth_error hx i = Some n' /\
            bk n' = bk n /\ b_i1 n' = b_i1 n /\ blines n' = blines n /\ b_seg n' = b_seg n).
  { intros hx Hx i n Hi. destruct (W3 i n Hi) as [v' Hv'].
    destruct (tstep_weak _ _ (tstep_trans _ _ _ (tstep_trans _ _ _ L2 T3) Hx) i _ Hv') as (n' & E' & A & B & C & D).
    exists n'. cbn in A, B, C, D. auto. }
  assert (Hlen3 : length h3 = length (fp_h p1)) by (unfold h3; apply length_hset).
  destruct (Z.leb_spec (fs_count fs) 0) as [Hc0|Hc0].
  - (* the list is removed from its parent *)
    destruct (bpar ln2) as [par|] eqn:Epar; [|discriminate].
    fw_bind H h4 Hh4. injection H as <-.
    assert (Hlp : l <> par).
    { intros <-. exact (hs_noself _ _ _ (proj1 L1) l ln2 L3 Epar). }
    destruct (remove_child_HS space_table src h3 par l h4 _ HS3 Hh4 Hlp E3l Epar) as (A1 & A2 & A3 & A4 & [np [A5 A5b]] & A6).
    constructor; cbn [fp_set_h fp_h fp_inl fp_back].
    + exact A1.
    + rewrite A3, Hlen3, <- W2. apply L2.
    + apply Hold. exact A2.
    + intros i k Hi. rewrite <- W2. apply L4. exact Hi.
    + intros i Hi. apply L5. lia.
    + exact L6.
    + eexists. split; [exact A4|]. cbn [set_par set_ch bpar bch]. split; [destruct (Z.leb_spec (fs_count fs) 0); [reflexivity|lia]|].
      pose proof (idx_of_tstep_len _ _ A2 A3) as Hi4.
      rewrite (map_ext _ _ Hi4), Hkeys. split; [exact Ssort|]. split; [exact Hperm|].
      split; [intros c Hc; apply (Hfoot c Hc h4 A2)|intros Hpos; lia].
  - (* the list is hung below the document *)
    fw_bind H h4 Hh4. injection H as <-. unfold append_child_iso in Hh4. fw_bind Hh4 hd Hhd.
    unfold detach in Hhd. rewrite (proj2 (hget_ok h3 l _) E3l) in Hhd. cbn [bind set_ch bpar] in Hhd.
    (* after detaching *)
    assert (Hd : exists lnd, HS hd /\ tstep h3 hd /\ length hd = length h3 /\ nth_error hd l = Some lnd /\
                   bpar lnd = None /\ bch lnd = map fst sorted /\ bk lnd = bk ln2).
    { destruct (bpar ln2) as [par|] eqn:Epar.
      - assert (Hlp : l <> par). { intros <-. exact (hs_noself _ _ _ (proj1 L1) l ln2 L3 Epar). }
        destruct (remove_child_HS space_table src h3 par l hd _ HS3 Hhd Hlp E3l Epar) as (A1 & A2 & A3 & A4 & _ & _).
        eexists. split; [exact A1|]. split; [exact A2|]. split; [exact A3|]. split; [exact A4|]. cbn. auto.
      - injection Hhd as <-. eexists. split; [exact HS3|]. split; [apply tstep_refl|]. split; [reflexivity|].
        split; [exact E3l|]. cbn. auto. }
    destruct Hd as (lnd & D1 & D2 & D3 & D4 & D5 & D6 & D7).
    destruct (hs_root _ _ _ (proj1 D1)) as [n0 [E0 [K0 P0]]].
    assert (Kl : bk lnd = BBlockquote).
    { destruct (tstep_weak _ _ L2 l _ Hl1) as (n' & E' & K & _). assert (n' = ln2) by congruence. subst n'.
      rewrite D7, K. cbn [set_i2 bk]. specialize (Hfl ln Hln). unfold is_fnlist_node in Hfl.
      apply andb_true_iff in Hfl. destruct Hfl as [Hk _]. destruct (bk ln); try discriminate; reflexivity. }
    destruct (append_child_HS space_table src hd 0%nat l h4 lnd n0 D1 Hh4) as (A1 & A2 & A3 & A4 & A5 & A6); auto.
    { rewrite K0. reflexivity. } { rewrite Kl. discriminate. } { apply fin_other; rewrite Kl; discriminate. }
    assert (T34 : tstep h3 h4) by (eapply tstep_trans; eassumption).
    constructor; cbn [fp_set_h fp_h fp_inl fp_back].
    + exact A1.
    + rewrite A3, D3, Hlen3, <- W2. apply L2.
    + apply Hold. exact T34.
    + intros i k Hi. rewrite <- W2. apply L4. exact Hi.
    + intros i Hi. apply L5. lia.
    + exact L6.
    + eexists. split; [exact A4|]. cbn [set_par bpar bch]. split; [destruct (Z.leb_spec (fs_count fs) 0); [lia|reflexivity]|].
      assert (Hi4 : forall c, idx_of h4 c = idx_of h3 c) by (apply idx_of_tstep_len; [exact T34|lia]).
      rewrite D6, (map_ext _ _ Hi4), Hkeys. split; [exact Ssort|]. split; [exact Hperm|].
      split; [intros c Hc; apply (Hfoot c Hc h4 T34)|].
      intros _. eexists. split; [exact A5|]. cbn [set_ch bch]. apply in_or_app. right. left. reflexivity.
Qed.

(* without a FootnoteList the transformer does nothing *)
Lemma ast_transform_none h fs kids p : ast_transform h None fs kids = Ok p -> p = {| fp_h := h; fp_inl := kids; fp_back := [] |}.
Proof. unfold ast_transform. intros H. injection H as <-. reflexivity. Qed.

End X.
