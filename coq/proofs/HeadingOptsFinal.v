(* C15 for the heading option model with automatic ids: transferred from the pass of
   model/HeadingIds.v through heading_opts_ids_is_pass. *)
Require Import GM.model.Base GM.model.Util GM.model.HtmlWriter GM.model.Html GM.model.ParseI GM.model.HeadingIds GM.model.HeadingOpts GM.model.HeadingOptsI.
Require Import GM.proofs.IdsProofs GM.proofs.ParseInv GM.proofs.HeadingIdsProofs GM.proofs.HeadingOptsEq.
From Coq Require Import List NArith.
Import ListNotations.

Theorem ParseTreeH_ids_ok : forall src t, bytes_ok src -> ParseTreeH h_ids src = Ok t -> ids_ok t.
Proof. intros src t Hb H. rewrite (heading_opts_ids_is_pass src Hb) in H. exact (ParseTreeA_ids_ok src t Hb H). Qed.
