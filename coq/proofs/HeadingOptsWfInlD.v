(* HeadingOptsWfInl, part D (hwInl): the raw HTML parser of model/InlineParse.v under the lock-step
   relation of part A (the regular-expression case needs the invariant RI of the core proofs to know
   that the match does not run past the end of the block), then ip_parse and try_inline. *)
Require Import GM.model.Base GM.model.Util GM.model.Reader GM.model.ReaderSpec GM.model.ListItem GM.model.CodeSpan GM.model.LinkDest
               GM.model.Regex GM.model.Delim GM.model.BlockParse GM.model.InlineParse.
Require Import GM.proofs.BReaderProofs GM.proofs.BlockRangeProofs GM.proofs.RegexProofs GM.proofs.ParseInv GM.proofs.ParseInlineRangeReader
               GM.proofs.ParseInlineRangeParsers
               GM.proofs.HeadingOptsWfInlA GM.proofs.HeadingOptsWfInlB GM.proofs.HeadingOptsWfInlC.
From Coq Require Import ZArith Lia ZifyBool List Bool.
Import ListNotations.
Open Scope Z_scope.

Ltac nrm := cbn [bind] in *; unfold ist_r, ist_c in *; cbn [t_c t_r] in *.

Section D.
Variable space_table punct_table : list N.
Variable norm : bytes -> bytes.
Variable url_table email_table : list N.
Variable re_email_domain re_open_tag re_close_tag : re.
Variable punct_rune space_rune : N -> bool.
Variable refs : list (bytes * (bytes * option bytes)).
Variable src : bytes.
Variable pre : list seg.
Variable e : seg.
Hypothesis Hpre : segs_ok src pre.
Hypothesis Hpads : Forall (fun s => s_pad s = 0) pre.
Hypothesis Hne : pre <> [].
Hypothesis He1 : s_start e = s_stop e.
Hypothesis He2 : s_pad e = 0.
Hypothesis He3 : s_fnl e = false.
Hypothesis Hke : last_stop pre <= s_start e.

Notation Sim := (Sim src pre e).
Notation EQS := (EQS src pre e).
Notation EQ := (EQ pre e).
Notation Out := (Out pre).
Notation Out' := (Out' pre e).
Notation RI := (RI src pre).
Notation k' := (last_stop pre).
Notation k := (s_start e).
Notation m := (zlen pre).

Ltac inst L := let X := fresh in pose proof (L src pre e) as X;
  repeat match type of X with ?P -> _ => specialize (X ltac:(assumption)) end; exact X.
Definition d_peek_line := ltac:(inst sim_peek_line).
Definition d_set_position := ltac:(inst sim_set_position).
Definition d_advance := ltac:(inst sim_advance).
Definition d_advance_line := ltac:(inst sim_advance_line).
Definition d_in_eqs := ltac:(inst sim_in_eqs).
Definition d_inv0 := ltac:(inst sim_inv0).
Definition d_inv1 := ltac:(inst sim_inv1).
Definition d_adv_line1 := ltac:(inst adv_line1).
Definition d_adv_last0 := ltac:(inst adv_last0).
Definition d_out_range' := ltac:(inst out_range').
Definition d_EQ_dec := EQ_dec pre e.
Definition d_RI_of := ltac:(inst RI_of).
Definition d_cur_facts := ltac:(inst cur_facts).
Definition d_m_pos := ltac:(inst m_pos).
Definition d_read_rune := ltac:(inst sim_read_rune).

Lemma sim_segs_len r r' : Sim r r' -> length (b_segs r') = S (length (b_segs r)).
Proof. intros (I & J & _). rewrite (i_segs _ _ _ I), (j_segs _ _ _ _ J), app_length. cbn [length]. lia. Qed.

(* ---------- the input of the regular expression engine ---------- *)
Lemma sim_rune_input : forall fuel r r' acc v, Sim r r' -> rune_input fuel r acc = Ok v -> rune_input fuel r' acc = Ok v.
Proof.
  induction fuel as [|f IH]; intros r r' acc v S H; [discriminate H|]. cbn [rune_input] in *.
  bd H x Ex. destruct x as [[[r2 rn] w] eof].
  destruct (d_read_rune _ _ _ _ _ _ S Ex) as (r2' & Ex' & S2). rewrite Ex'. cbn [bind].
  destruct eof; [exact H|]. exact (IH _ _ _ _ S2 H).
Qed.

(* ---------- parseUntil ---------- *)
Lemma sim_raw_until closer : forall fuel fuel' r r' offset acc res, (fuel <= fuel')%nat -> Sim r r' -> 0 <= offset ->
  raw_until fuel r closer offset acc = Ok res ->
  match res with
  | None => raw_until fuel' r' closer offset acc = Ok None
  | Some (segs, r1) => exists r1', raw_until fuel' r' closer offset acc = Ok (Some (segs, r1')) /\ Sim r1 r1'
  end.
Proof.
  induction fuel as [|f IH]; intros fuel' r r' offset acc res Hf S Ho H; [discriminate H|].
  destruct fuel' as [|f']; [lia|]. cbn [raw_until] in *.
  bd H y Ey. destruct y as [[r0 ln] sg0].
  destruct (d_peek_line r r' r0 ln sg0 S Ey) as [-> [(v & -> & Hin & Q & -> & E')|(-> & Hin & E')]]; rewrite E'; cbn [bind].
  - destruct (Z.ltb_spec (-1) (index_of closer (zskip offset v) 0)) as [Hi|Hi].
    + bd H r2 E2. inversion H; subst res.
      assert (Hn : 0 <= offset + index_of closer (zskip offset v) 0 + zlen closer) by (pose proof (zlen_nonneg closer); lia).
      destruct (d_advance _ _ _ r2 S Hn E2) as (r2' & E2' & S2 & _). rewrite E2'. cbn [bind]. exists r2'. auto.
    + bd H r2 E2. destruct (d_advance_line r r' r2 S E2) as (r2' & E2' & S2 & _). rewrite E2'. cbn [bind].
      apply (IH f' r2 r2'); [lia|exact S2|lia|exact H].
  - inversion H; subst res. reflexivity.
Qed.

Lemma sim_raw_collect c r r' closer offset s1 n : Sim r r' -> 0 <= offset ->
  raw_collect {| t_c := c; t_r := r |} closer offset = Ok (s1, n) ->
  exists r1', raw_collect {| t_c := c; t_r := r' |} closer offset = Ok ({| t_c := t_c s1; t_r := r1' |}, n) /\ Sim (t_r s1) r1'.
Proof.
  unfold raw_collect. intros S Ho H. nrm.
  bd H x Ex.
  assert (Hfu : (Datatypes.S (length (b_segs r)) <= Datatypes.S (length (b_segs r')))%nat) by (rewrite (sim_segs_len _ _ S); lia).
  pose proof (sim_raw_until closer _ _ _ _ _ _ _ Hfu S Ho Ex) as Hx.
  destruct x as [[segs r2]|].
  - destruct Hx as (r2' & Ex' & S2). rewrite Ex'. nrm. destruct (new_inode c (IRawHTML segs)) as [c1 nn].
    inversion H; subst. exists r2'. cbn [t_c t_r]. auto.
  - rewrite Hx. nrm. bd H r2 E2. inversion H; subst.
    destruct (d_set_position r r' r r' r2 (d_inv0 _ _ S) (d_inv1 _ _ S) S E2) as (r2' & E2' & S2 & _). rewrite E2'. nrm.
    exists r2'. auto.
Qed.

(* ---------- parseMultiLineRegexp ---------- *)
Definition at_head (r : breader) : Prop :=
  forall s, nth_error pre (Z.to_nat (b_line r)) = Some s -> s_start (b_pos r) = s_start s.

Lemma adv_line_head r r2 : RInv0 src pre r -> b_in_range r = true -> b_advance_line r = Ok r2 ->
  b_line r2 = b_line r + 1 /\ at_head r2.
Proof.
  intros I Hin Ha. destruct (ri_advance_line src pre r r2 (d_RI_of r I Hin) Ha) as (_ & Hl & Hn). split; [exact Hl|].
  intros s Hs. destruct (d_cur_facts _ _ Hs) as (_ & _ & _ & _ & _ & Hlt & _).
  assert (H0 : 0 <= b_line r2) by (pose proof (i_line _ _ _ I); lia). rewrite Z2Nat.id in Hlt by lia.
  rewrite (Hn Hlt) in Hs. inversion Hs. reflexivity.
Qed.

(* both runs end on the same line at the same offset *)
Lemma sim_rrl sline sstart eline estart :
  (forall s, nth_error pre (Z.to_nat eline) = Some s -> s_start s <= estart) -> (eline = sline -> sstart <= estart) ->
  forall fuel fuel' r r' acc segs r1, (fuel <= fuel')%nat -> Sim r r' -> sline <= b_line r ->
  (b_line r = sline -> s_start (b_pos r) = sstart) -> (sline < b_line r -> at_head r) ->
  raw_regexp_lines fuel r sline sstart eline estart acc = Ok (segs, r1) ->
  exists r1', raw_regexp_lines fuel' r' sline sstart eline estart acc = Ok (segs, r1') /\ Sim r1 r1'.
Proof.
  intros Hee Hse. induction fuel as [|f IH]; intros fuel' r r' acc segs r1 Hf SM Hsl Hs1 Hhead H; [discriminate H|].
  destruct fuel' as [|f']; [lia|]. cbn [raw_regexp_lines] in *.
  bd H y Ey. destruct y as [[r0 ln] sg0].
  destruct (d_peek_line r r' r0 ln sg0 SM Ey) as [-> [(v & -> & Hin & Q & -> & E')|(-> & Hin & E')]]; rewrite E'; cbn [bind].
  2:{ inversion H; subst. exists r'. auto. }
  destruct Q as (I & J & (El & Ep & Hl & Hq)). rewrite El.
  assert (Hstart : (if b_line r =? sline then sstart else s_start (b_pos r)) = s_start (b_pos r)).
  { destruct (Z.eqb_spec (b_line r) sline) as [E|E]; [symmetry; apply Hs1; exact E|reflexivity]. }
  rewrite Hstart in *.
  destruct (Z.eqb_spec (b_line r) eline) as [Ee|Ee].
  - bd H r2 E2. inversion H; subst segs r2. clear H.
    assert (Hle : 0 <= estart - s_start (b_pos r)).
    { destruct (nth_pre_lt pre (b_line r)) as [s0 Hs0]; [pose proof (i_line _ _ _ I); lia|].
      destruct (Z.eq_dec (b_line r) sline) as [E|E].
      - rewrite (Hs1 E). pose proof (Hse ltac:(lia)). lia.
      - rewrite (Hhead ltac:(lia) s0 Hs0). rewrite Ee in Hs0. pose proof (Hee s0 Hs0). lia. }
    destruct (d_advance _ _ _ r1 SM Hle E2) as (r2' & E2' & S2 & _). rewrite E2'. cbn [bind]. exists r2'. auto.
  - bd H r2 E2. destruct (d_advance_line r r' r2 SM E2) as (r2' & E2' & S2 & _). rewrite E2'. cbn [bind].
    destruct (adv_line_head r r2 I Hin E2) as [L2 H2].
    apply (IH f' r2 r2'); [lia|exact S2|lia|intros C; lia|intros _; exact H2|exact H].
Qed.

(* the match reaches the end of the block: the run over pre ends on its last line at the stop of that
   line, the run over pre ++ [e] has moved on to the empty line *)
Lemma sim_rrl_end sline sstart estart' : k' < k ->
  forall fuel r r' acc segs r1, Sim r r' -> sline <= b_line r ->
  (b_line r = sline -> s_start (b_pos r) = sstart) ->
  raw_regexp_lines fuel r sline sstart (m - 1) k' acc = Ok (segs, r1) ->
  exists r1', raw_regexp_lines (Datatypes.S fuel) r' sline sstart m estart' acc = Ok (segs, r1') /\ Sim r1 r1'.
Proof.
  intros Hgap. induction fuel as [|f IH]; intros r r' acc segs r1 SM Hsl Hs1 H; [discriminate H|].
  cbn [raw_regexp_lines] in H. remember (Datatypes.S f) as f1 eqn:Ef1 in |- *. cbn [raw_regexp_lines]. subst f1.
  bd H y Ey. destruct y as [[r0 ln] sg0].
  destruct (d_peek_line r r' r0 ln sg0 SM Ey) as [-> [(v & -> & Hin & Q & -> & E')|(-> & Hin & E')]]; rewrite E'; cbn [bind].
  2:{ inversion H; subst. exists r'. auto. }
  destruct Q as (I & J & (El & Ep & Hl & Hq)). rewrite El.
  assert (Hstart : (if b_line r =? sline then sstart else s_start (b_pos r)) = s_start (b_pos r)).
  { destruct (Z.eqb_spec (b_line r) sline) as [E|E]; [symmetry; apply Hs1; exact E|reflexivity]. }
  rewrite Hstart in *.
  replace (b_line r =? m) with false by lia.
  destruct (Z.eqb_spec (b_line r) (m - 1)) as [Ee|Ee].
  - bd H r2 E2. inversion H; subst segs r2. clear H.
    destruct (nth_pre_lt pre (b_line r)) as [s0 Hs0]; [pose proof (i_line _ _ _ I); lia|].
    destruct (i_cur _ _ _ I s0 Hs0) as (C1 & C2 & _). destruct (d_cur_facts _ _ Hs0) as (_ & _ & _ & _ & _ & _ & _ & F8).
    rewrite Z2Nat.id in F8 by (pose proof (i_line _ _ _ I); lia). specialize (F8 Ee).
    assert (Hst : s_start (b_pos r) < k') by (apply in_range_true in Hin; rewrite (i_last _ _ _ I) in Hin; lia).
    assert (Hle : 0 <= k' - s_start (b_pos r)) by lia.
    destruct (d_advance _ _ _ r1 SM Hle E2) as (r2'' & _ & S2 & _).
    destruct (d_adv_last0 r _ r1 I Ee Hle E2) as [L1 P1].
    destruct (d_adv_line1 r' J) as (r2' & E2' & J2 & L2 & _). rewrite E2'. cbn [bind].
    assert (O2 : Out' r2') by (left; lia).
    cbn [raw_regexp_lines]. unfold b_peek_line. rewrite (d_out_range' r2' J2 O2). cbn [bind].
    exists r2'. split; [rewrite C1, F8; reflexivity|].
    split; [exact (d_inv0 _ _ S2)|]. split; [exact J2|]. right. split; [right; lia|exact O2].
  - bd H r2 E2. destruct (d_advance_line r r' r2 SM E2) as (r2' & E2' & S2 & _). rewrite E2'. cbn [bind].
    destruct (adv_line_head r r2 I Hin E2) as [L2 H2].
    apply (IH r2 r2'); [exact S2|lia|intros C; lia|exact H].
Qed.

(* ---------- the regular-expression case of the raw HTML parser ---------- *)
Lemma sim_raw_regexp c r r' rx s1 n : Sim r r' -> b_in_range r = true ->
  raw_regexp {| t_c := c; t_r := r |} rx = Ok (s1, n) ->
  exists r1', raw_regexp {| t_c := c; t_r := r' |} rx = Ok ({| t_c := t_c s1; t_r := r1' |}, n) /\ Sim (t_r s1) r1'.
Proof.
  unfold raw_regexp. intros SM Hin H. nrm.
  pose proof (d_in_eqs _ _ SM Hin) as Q. destruct Q as (I & J & QE). pose proof QE as (El & Ep & Hl & Hq).
  pose proof (d_RI_of r I Hin) as Hr.
  assert (Esrc : b_src r' = b_src r) by (rewrite (i_src _ _ _ I), (j_src _ _ _ _ J); reflexivity).
  rewrite Esrc, El, Ep.
  bd H inp Ei. rewrite (sim_rune_input _ _ _ _ _ SM Ei). nrm.
  pose proof (rune_input_len src pre _ _ _ _ Hr Ei) as Hlen. change (zlen (@nil N)) with 0 in Hlen.
  destruct (re_find rx inp) as [caps|] eqn:Ef.
  2:{ bd H r1 E1. inversion H; subst.
      destruct (d_set_position r r' r r' r1 I J SM E1) as (r1' & E1' & S1 & _). rewrite El, Ep in E1'. rewrite E1'. nrm. exists r1'. auto. }
  destruct (re_find_sound _ _ _ Ef) as (i & j & Hcap & Hij & Hj & _). rewrite Hcap in *.
  bd H r1 E1. destruct (d_set_position r r' r r' r1 I J SM E1) as (r1' & E1' & S1 & Q1). rewrite El, Ep in E1'. rewrite E1'. nrm.
  destruct (Q1 QE) as (QS1 & L1 & P1).
  destruct (ri_set_position _ _ _ _ _ Hr Hr E1) as (Hr1 & _ & _).
  destruct (ri_same_rest _ _ _ _ Hr Hr1 L1 P1) as [Hrest1 _].
  bd H r2 E2. assert (Hji : 0 <= j - i) by lia.
  destruct (d_advance _ _ _ r2 S1 Hji E2) as (r2' & E2' & S2 & Q2 & B2 & B2'). rewrite E2'. nrm.
  destruct (ri_advance src pre r1 (j - i) r2 Hr1) as (Hr2 & _ & Hpos2); [rewrite Hrest1; lia|exact E2|].
  bd H r3 E3. destruct (d_set_position r2 r2' r r' r3 (d_inv0 _ _ S2) (d_inv1 _ _ S2) SM E3) as (r3' & E3' & S3 & Q3).
  rewrite El, Ep in E3'. rewrite E3'. nrm. destruct (Q3 QE) as (QS3 & L3 & P3).
  bd H x Ex. destruct x as [segs r4].
  assert (Hx : exists r4', raw_regexp_lines (Datatypes.S (length (b_segs r3'))) r3' (b_line r) (s_start (b_pos r)) (b_line r2') (s_start (b_pos r2')) [] = Ok (segs, r4') /\ Sim r4 r4').
  { destruct (d_EQ_dec r2 r2') as [QE2|NE2].
    - destruct QE2 as (El2 & Ep2 & _). rewrite El2, Ep2.
      apply (sim_rrl (b_line r) (s_start (b_pos r)) (b_line r2) (s_start (b_pos r2))) with (fuel := Datatypes.S (length (b_segs r3))) (r := r3).
      + intros s Hs. rewrite <- (ri_segs _ _ _ Hr2) in Hs. destruct (bi_pos _ (ri_inv _ _ _ Hr2) s Hs) as (Hb & _). lia.
      + intros E. destruct Hpos2 as [_ Hp2]. rewrite L1 in Hp2. destruct (Hp2 E) as [Hp2' _]. rewrite P1 in Hp2'. exact Hp2'.
      + rewrite (sim_segs_len _ _ S3). lia.
      + exact S3.
      + lia.
      + intros _. rewrite P3. reflexivity.
      + intros C. lia.
      + exact Ex.
    - (* the match ends at the end of the block *)
      assert (Hgap : k' < k).
      { destruct (Z_lt_dec k' k) as [X|X]; [exact X|]. exfalso. apply NE2. apply Q2; [lia|]. destruct QS1 as (_ & _ & X1). exact X1. }
      destruct S2 as (I2 & J2 & [X|[O2 O2']]); [destruct (NE2 X)|].
      pose proof (d_m_pos) as Hmp.
      assert (L2 : b_line r2 <= m - 1) by (apply B2; lia).
      assert (L2' : b_line r2' <= m) by (apply B2'; destruct QS1 as (_ & _ & (X1 & _)); lia).
      assert (Y2 : b_line r2 = m - 1 /\ s_start (b_pos r2) = k').
      { destruct O2 as [X|[X1 X2]]; [lia|]. split; [exact X1|].
        destruct (nth_pre_lt pre (b_line r2)) as [s Hs]; [pose proof (i_line _ _ _ I2); lia|].
        destruct (d_cur_facts _ _ Hs) as (_ & _ & _ & _ & _ & _ & _ & F8). rewrite Z2Nat.id in F8 by (pose proof (i_line _ _ _ I2); lia).
        rewrite <- (ri_segs _ _ _ Hr2) in Hs. destruct (bi_pos _ (ri_inv _ _ _ Hr2) s Hs) as (Hb & _). specialize (F8 X1). lia. }
      assert (Y2' : b_line r2' = m).
      { destruct O2' as [X|[X1 X2]]; [lia|]. exfalso.
        destruct (nth_pre_lt pre (b_line r2')) as [s Hs]; [pose proof (j_line _ _ _ _ J2); lia|].
        destruct (j_cur _ _ _ _ J2 s Hs) as (D1 & D2 & D3). destruct (d_cur_facts _ _ Hs) as (_ & F2 & _).
        assert (s_start (b_pos r2') < s_stop s) by (apply D3; right; left; exact Hgap). lia. }
      destruct Y2 as [Y2a Y2b]. rewrite Y2a, Y2b in Ex. rewrite Y2'.
      replace (Datatypes.S (length (b_segs r3'))) with (Datatypes.S (Datatypes.S (length (b_segs r3)))) by (rewrite (sim_segs_len _ _ S3); reflexivity).
      apply (sim_rrl_end (b_line r) (s_start (b_pos r)) (s_start (b_pos r2')) Hgap) with (r := r3); [exact S3|lia|intros _; rewrite P3; reflexivity|exact Ex]. }
  destruct Hx as (r4' & Ex' & S4). rewrite Ex'. nrm.
  destruct (new_inode c (IRawHTML segs)) as [c1 nn]. inversion H; subst. exists r4'. cbn [t_c t_r]. auto.
Qed.

(* ---------- raw HTML ---------- *)
Lemma sim_raw_html_parse c r r' s1 n : Sim r r' -> b_in_range r = true ->
  raw_html_parse re_open_tag re_close_tag {| t_c := c; t_r := r |} = Ok (s1, n) ->
  exists r1', raw_html_parse re_open_tag re_close_tag {| t_c := c; t_r := r' |} = Ok ({| t_c := t_c s1; t_r := r1' |}, n) /\ Sim (t_r s1) r1'.
Proof.
  unfold raw_html_parse. intros SM Hin H. nrm.
  bd H y Ey. destruct y as [[r0 ln] segment].
  destruct (d_peek_line r r' r0 ln segment SM Ey) as [-> [(v & -> & _ & Q & -> & E')|(-> & Hout & _)]]; [|congruence].
  rewrite E'. nrm. cbn [line_of] in *.
  destruct (_ && is_alnum_b _); [exact (sim_raw_regexp _ _ _ _ _ _ SM Hin H)|].
  destruct (_ && _ && is_alnum_b _); [exact (sim_raw_regexp _ _ _ _ _ _ SM Hin H)|].
  destruct (prefix_of open_comment v).
  { destruct (prefix_of empty_comment1 v).
    { destruct (new_inode c _) as [c1 nn]. bd H r2 E2. inversion H; subst.
      destruct (d_advance _ _ 5 r2 SM ltac:(lia) E2) as (r2' & E2' & S2 & _). rewrite E2'. nrm. exists r2'. auto. }
    destruct (prefix_of empty_comment2 v).
    { destruct (new_inode c _) as [c1 nn]. bd H r2 E2. inversion H; subst.
      destruct (d_advance _ _ 6 r2 SM ltac:(lia) E2) as (r2' & E2' & S2 & _). rewrite E2'. nrm. exists r2'. auto. }
    exact (sim_raw_collect _ _ _ _ 4 _ _ SM ltac:(lia) H). }
  destruct (prefix_of open_pi v); [exact (sim_raw_collect _ _ _ _ 0 _ _ SM ltac:(lia) H)|].
  destruct (_ && _ && _); [exact (sim_raw_collect _ _ _ _ 0 _ _ SM ltac:(lia) H)|].
  destruct (prefix_of open_cdata v); [exact (sim_raw_collect _ _ _ _ 0 _ _ SM ltac:(lia) H)|].
  inversion H; subst. exists r'. cbn [t_c t_r]. auto.
Qed.

(* ---------- the inline parsers, tried in turn ---------- *)
Notation IP := (ip_parse space_table punct_table norm url_table email_table re_email_domain re_open_tag re_close_tag
                  punct_rune space_rune refs).
Notation TRY := (try_inline space_table punct_table norm url_table email_table re_email_domain re_open_tag re_close_tag
                  punct_rune space_rune refs).

Ltac instc L := let X := fresh in pose proof L as X;
  repeat match type of X with ?P -> _ => specialize (X ltac:(assumption)) end; exact X.

Lemma sim_ip_parse p c r r' parent s1 n : Sim r r' -> b_in_range r = true ->
  IP p {| t_c := c; t_r := r |} parent = Ok (s1, n) ->
  exists r1', IP p {| t_c := c; t_r := r' |} parent = Ok ({| t_c := t_c s1; t_r := r1' |}, n) /\ Sim (t_r s1) r1'.
Proof.
  intros SM Hin H. destruct p; cbn [ip_parse] in *.
  - exact (sim_code_span_parse_s space_table punct_table norm url_table email_table re_email_domain punct_rune space_rune refs src pre e Hpre Hpads Hne He1 He2 He3 Hke _ _ _ _ _ SM Hin H).
  - exact (sim_link_parse space_table punct_table norm url_table email_table re_email_domain punct_rune space_rune refs src pre e Hpre Hpads Hne He1 He2 He3 Hke _ _ _ _ _ _ SM H).
  - exact (sim_autolink_parse space_table punct_table norm url_table email_table re_email_domain punct_rune space_rune refs src pre e Hpre Hpads Hne He1 He2 He3 Hke _ _ _ _ _ SM H).
  - exact (sim_raw_html_parse _ _ _ _ _ SM Hin H).
  - exact (sim_emphasis_parse space_table punct_table norm url_table email_table re_email_domain punct_rune space_rune refs src pre e Hpre Hpads Hne He1 He2 He3 Hke _ _ _ _ _ SM Hin H).
Qed.

(* r0 r0' : the readers whose position is restored after a parser that gives up *)
Lemma sim_try_inline r0 r0' : EQS r0 r0' -> b_in_range r0 = true ->
  forall ips c r r' parent s1 n, Sim r r' -> b_in_range r = true ->
  TRY ips {| t_c := c; t_r := r |} parent (b_line r0) (b_pos r0) = Ok (s1, n) ->
  exists r1', TRY ips {| t_c := c; t_r := r' |} parent (b_line r0) (b_pos r0) = Ok ({| t_c := t_c s1; t_r := r1' |}, n) /\ Sim (t_r s1) r1' /\
              (n = None -> (ips = [] -> EQS r r') -> EQS (t_r s1) r1' /\ (ips <> [] -> b_line (t_r s1) = b_line r0 /\ b_pos (t_r s1) = b_pos r0)).
Proof using All.
  intros Q0 Hin0. pose proof Q0 as (I0 & J0 & QE0). pose proof QE0 as (El0 & Ep0 & _).
  induction ips as [|p rest IH]; intros c r r' parent s1 n SM Hin H; cbn [try_inline] in *.
  - inversion H; subst. exists r'. cbn [t_c t_r]. split; [reflexivity|]. split; [exact SM|]. intros _ X. split; [exact (X eq_refl)|congruence].
  - bd H x Ex. destruct x as [s2 n2].
    destruct (sim_ip_parse _ _ _ _ _ _ _ SM Hin Ex) as (r2' & Ex' & S2). rewrite Ex'. nrm.
    destruct n2 as [nd|].
    + inversion H; subst. exists r2'. split; [reflexivity|]. split; [exact S2|]. intros C; discriminate C.
    + bd H r3 E3. destruct s2 as [c2 r2]. nrm.
      destruct (d_set_position r2 r2' r0 r0' r3 (d_inv0 _ _ S2) (d_inv1 _ _ S2) ltac:(apply eqs_sim; exact Q0) E3) as (r3' & E3' & S3 & Q3).
      rewrite El0, Ep0 in E3'. rewrite E3'. nrm. destruct (Q3 QE0) as (QS3 & L3 & P3).
      assert (Hin3 : b_in_range r3 = true).
      { destruct QS3 as (I3 & _). unfold b_in_range, b_nsegs in *. rewrite (i_segs _ _ _ I3), (i_last _ _ _ I3), L3, P3.
        rewrite (i_segs _ _ _ I0), (i_last _ _ _ I0) in Hin0. exact Hin0. }
      destruct (IH c2 r3 r3' parent s1 n S3 Hin3 H) as (r1' & E1 & S1 & X1). exists r1'. split; [exact E1|]. split; [exact S1|].
      intros En _. destruct (X1 En (fun _ => QS3)) as [Y1 Y2]. split; [exact Y1|]. intros _.
      destruct rest as [|p2 rest2].
      * cbn [try_inline] in H. inversion H; subst. cbn [t_r]. auto.
      * apply Y2. discriminate.
Qed.

End D.
