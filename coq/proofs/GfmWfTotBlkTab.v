(* Helper file for GfmWfTotBlk.v: the table paragraph transformer (BlockParseX.v table_transform) and
   transformParagraph of the generalised driver (transform_paragraphX) under the state invariant SI:
   they return Ok and have the postcondition transform_post of the core transformer.  The paragraph
   must have the strong property para_lines (it is the open paragraph); afterwards the heap
   invariant holds in its weak form (a detached paragraph without lines, or lines whose last
   newline is cut). *)
Require Import GM.model.Base GM.model.Util GM.model.Reader GM.model.ReaderSpec GM.model.Blocks GM.model.ListItem
               GM.model.LeafBlocks GM.model.CodeBlock GM.model.LinkDest GM.model.Regex GM.model.Html GM.model.TableX
               GM.model.BlockParse GM.model.BlockParseX.
Require Import GM.proofs.MiscProofs GM.proofs.ReaderProofs GM.proofs.BReaderProofs GM.proofs.BlocksProofs
               GM.proofs.ParseBlocksTotalReader GM.proofs.GfmWfTotBlkDefs GM.proofs.GfmWfTotBlkSpec
               GM.proofs.GfmWfTotBlkSt GM.proofs.GfmWfTotBlkTransform GM.proofs.GfmWfTab.
From Coq Require Import ZArith Lia List Bool.
Import ListNotations.
Open Scope Z_scope.

(* ---------- lists ---------- *)
Lemma in_insert_after_id x r y l : In x (insert_after_id r y l) -> x = y \/ In x l.
Proof.
  induction l as [|z l IH]; cbn [insert_after_id].
  - intros [<-|[]]. left. reflexivity.
  - destruct (Nat.eqb r z); cbn [In]; intuition.
Qed.

Lemma hset_comm h : forall i j a b, i <> j -> hset (hset h i a) j b = hset (hset h j b) i a.
Proof.
  induction h as [|x h IH]; intros i j a b Hij; [reflexivity|].
  destruct i, j; cbn [hset]; try reflexivity; try lia. f_equal. apply IH. lia.
Qed.
Lemma hset_twice h : forall i a b, hset (hset h i a) i b = hset h i b.
Proof. induction h as [|x h IH]; intros i a b; [reflexivity|]. destruct i; cbn [hset]; [reflexivity|]. rewrite IH. reflexivity. Qed.

(* ---------- cut_last_newline ---------- *)
Lemma cut_nonempty ls : ls <> [] -> cut_last_newline ls <> [].
Proof. destruct ls as [|a [|b r]]; cbn [cut_last_newline]; intros H; [contradiction|discriminate|discriminate]. Qed.
Lemma cut_rng src ls : Forall (seg_ok src) ls -> Forall (seg_rng src) (cut_last_newline ls).
Proof.
  induction ls as [|a ls IH]; intros H; [constructor|]. inversion H as [|x y Ha Hl]; subst.
  destruct ls as [|b r].
  - cbn [cut_last_newline]. constructor; [|constructor]. destruct Ha as (A & B & C & D).
    unfold seg_rng. cbn [s_start s_stop s_pad]. lia.
  - change (cut_last_newline (a :: b :: r)) with (a :: cut_last_newline (b :: r)).
    constructor; [apply seg_ok_rng, Ha|apply IH, Hl].
Qed.
Lemma cut_stops B ls : Forall (fun sg => s_stop sg <= B) ls -> Forall (fun sg => s_stop sg <= B) (cut_last_newline ls).
Proof.
  induction ls as [|a ls IH]; intros H; [constructor|]. inversion H as [|x y Ha Hl]; subst.
  destruct ls as [|b r].
  - cbn [cut_last_newline]. constructor; [|constructor]. cbn [s_stop]. lia.
  - change (cut_last_newline (a :: b :: r)) with (a :: cut_last_newline (b :: r)).
    constructor; [exact Ha|apply IH, Hl].
Qed.

Lemma new_node_eq s nd : new_node s nd = (st_h s (s_h s ++ [nd]), length (s_h s)).
Proof. reflexivity. Qed.

Section S.
Variable space_table punct_table : list N.
Variable norm : bytes -> bytes.
Variable src : bytes.
Hypothesis tbl : TblOK space_table.
Notation SI := (SI space_table src).
Notation HInv := (HInv space_table src).
Notation HStep := (HStep space_table src).
Notation node_ok := (node_ok space_table src).
Notation para_lines := (para_lines space_table src).

(* InsertAfter of a fresh detached node (not a list item, not a paragraph) below an older node that is
   not a list *)
Lemma insert_after_ok h p ref new pn nn : HInv h -> nth_error h p = Some pn -> nth_error h new = Some nn ->
  (p < new)%nat -> bk pn <> BList -> bk nn <> BListItem -> bk nn <> BParagraph ->
  exists h', insert_after h p ref new = Ok h' /\ HStep h h' /\ length h' = length h /\
    nth_error h' p = Some (set_ch pn (insert_after_id ref new (bch pn))) /\
    nth_error h' new = Some (set_par nn (Some p)) /\
    (forall j, j <> p -> j <> new -> nth_error h' j = nth_error h j).
Proof.
  intros HH Hp Hn Hpn Kp Kn Knp. pose proof HH as [H1 H2 H3 H4 H5 H6 H7].
  assert (Hnl : (new < length h)%nat) by (eapply nth_error_lt, Hn).
  unfold insert_after. rewrite (hupd_ok _ _ _ _ Hp). cbn [bind].
  set (pn' := set_ch pn (insert_after_id ref new (bch pn))).
  set (h1 := hset h p pn').
  assert (Hn1 : nth_error h1 new = Some nn) by (unfold h1; rewrite hset_other by lia; exact Hn).
  rewrite (hupd_ok _ _ _ _ Hn1). eexists. split; [reflexivity|].
  assert (Hp1 : nth_error h1 p = Some pn') by (unfold h1; apply hset_same; eapply nth_error_lt, Hp).
  assert (HH1 : HInv h1).
  { apply (HInv_hset space_table src h p pn _ HH Hp); cbn [pn' set_ch bk bch bpar].
    - reflexivity.
    - pose proof (H2 p pn Hp) as HF. rewrite Forall_forall in *. intros x Hx.
      apply in_insert_after_id in Hx. destruct Hx as [->|Hx]; [lia|apply HF, Hx].
    - intros q Eq. exact (H3 p pn q Hp Eq).
    - exact (H4 p pn Hp).
    - intros K. contradiction.
    - intros q qn Eq Eqn Kq. exact (H6 p pn q qn Hp Eq Eqn Kq).
    - intros K q qn Eq Eqn. exact (H7 p pn q qn Hp K Eq Eqn). }
  assert (HH2 : HInv (hset h1 new (set_par nn (Some p)))).
  { apply (HInv_hset space_table src h1 new nn _ HH1 Hn1); cbn [set_par bk bch bpar].
    - reflexivity.
    - exact (hi_ch _ _ _ HH1 new nn Hn1).
    - intros q Eq. injection Eq as <-. exact Hpn.
    - apply node_ok_set_par; [exact (H4 new nn Hn)|]. intros K. contradiction.
    - intros K x xn Hin Ex. exact (hi_list _ _ _ HH1 new nn x xn Hn1 K Hin Ex).
    - intros q qn Eq Eqn Kq. injection Eq as <-. rewrite Hp1 in Eqn. injection Eqn as <-. cbn [pn' set_ch bk] in Kq. contradiction.
    - intros K. contradiction. }
  split; [split; [exact HH2|split]|].
  - apply (hext_trans h h1); [unfold h1; apply (hext_hset h p pn); [exact Hp|reflexivity]|].
    apply (hext_hset h1 new nn); [exact Hn1|reflexivity].
  - intros r HL. eapply Lim_hset; [|exact Hn1|].
    + eapply Lim_hset; [exact HL|exact Hp|]. cbn [pn' set_ch bk blines]. intros K. exact (HL p pn Hp K).
    + cbn [set_par bk blines]. intros K. exact (HL new nn Hn K).
  - csplit.
    + rewrite hset_length. unfold h1. apply hset_length.
    + rewrite hset_other by lia. exact Hp1.
    + apply hset_same. unfold h1. rewrite hset_length. exact Hnl.
    + intros j J1 J2. rewrite hset_other by lia. unfold h1. apply hset_other. lia.
Qed.

(* ---------- frames ---------- *)
Lemma cf_refl node P h : close_frame node P h h.
Proof. split; [lia|]. intros j n H. exists n. csplit; auto. Qed.

Lemma close_frame_trans node h h1 h2 :
  close_frame node (fun j _ => j = node) h h1 -> close_frame node (fun j _ => j = node) h1 h2 ->
  close_frame node (fun j _ => j = node) h h2.
Proof.
  intros [L1 H1] [L2 H2]. split; [lia|]. intros j n Hj.
  destruct (H1 j n Hj) as (n1 & E1 & K1 & A1 & B1 & C1).
  destruct (H2 j n1 E1) as (n2 & E2 & K2 & A2 & B2 & C2).
  exists n2. csplit.
  - exact E2.
  - congruence.
  - intros Hne. rewrite (A2 Hne). apply A1, Hne.
  - intros K. rewrite B2 by congruence. apply B1, K.
  - destruct C1 as [C1|[C1 C1']]; [|right; split; assumption].
    destruct C2 as [C2|[C2 C2']]; [left; congruence|right; split; [congruence|assumption]].
Qed.

(* the frame of a heap step that touches the nodes p (children only, not a list), node, and new nodes *)
Lemma close_frame_local node p h h' pn : nth_error h p = Some pn -> bk pn <> BList -> p <> node ->
  (length h <= length h')%nat ->
  (exists pn', nth_error h' p = Some pn' /\ bk pn' = bk pn /\ blines pn' = blines pn /\ bpar pn' = bpar pn) ->
  (forall n, nth_error h node = Some n -> exists n', nth_error h' node = Some n' /\ bk n' = bk n /\ bk n = BParagraph) ->
  (forall j, j <> p -> j <> node -> (j < length h)%nat -> nth_error h' j = nth_error h j) ->
  close_frame node (fun j _ => j = node) h h'.
Proof.
  intros Hp Kp Hpn L (pn' & Ep' & Kp' & Lp' & Pp') Hnode Hoth. split; [exact L|]. intros j n Hj.
  destruct (Nat.eq_dec j node) as [->|Hjn].
  - destruct (Hnode n Hj) as (n' & En' & Kn' & Kn). exists n'. csplit; auto.
    + intros C. contradiction.
    + intros K. congruence.
  - destruct (Nat.eq_dec j p) as [->|Hjp].
    + rewrite Hp in Hj. injection Hj as <-. exists pn'. csplit; auto. intros K. contradiction.
    + exists n. rewrite (Hoth j Hjp Hjn) by (eapply nth_error_lt, Hj). csplit; auto.
Qed.

(* ---------- the table paragraph transformer ---------- *)
Lemma table_transform_ok x node n p : SI (bx_s x) -> nth_error (s_h (bx_s x)) node = Some n ->
  bk n = BParagraph -> bpar n = Some p -> para_lines (blines n) ->
  exists x', table_transform space_table x node = Ok x' /\
    SI (bx_s x') /\ s_r (bx_s x') = s_r (bx_s x) /\ s_c (bx_s x') = s_c (bx_s x) /\
    close_frame node (fun j _ => j = node) (s_h (bx_s x)) (s_h (bx_s x')) /\
    (Below (s_h (bx_s x)) (s_r (bx_s x)) -> Below (s_h (bx_s x')) (s_r (bx_s x))) /\
    (* (fork) only the parent of the paragraph gets other children *)
    bch_frame (fun j _ _ => j = p) (s_h (bx_s x)) (s_h (bx_s x')).
Proof.
  intros HS Hn Kn Ep Hpl. set (s := bx_s x) in *.
  unfold table_transform. fold s. rewrite (hget_some _ _ _ Hn). cbn [bind].
  pose proof (si_h _ _ _ HS) as HH.
  assert (Hinr : Forall (ParseBlocksRangeA.seg_inr src) (blines n)) by (exact (para_lines_rng space_table src _ Hpl)).
  destruct (transform_total space_table src (blines n) Hinr) as [r Er].
  unfold src_of. rewrite (si_src _ _ _ HS). rewrite Er. cbn [bind].
  destruct r as [[before tb]|].
  2:{ exists x. split; [reflexivity|]. fold s. csplit; auto. { apply cf_refl. }
      intros j nj nj' Hj Hj'. rewrite Hj in Hj'. injection Hj' as <-. left. reflexivity. }
  destruct (transform_range space_table src (blines n) before tb Hinr Er) as [_ (hdr & delim & rest & Elines)].
  rewrite Ep. rewrite new_node_eq.
  set (nd := mknode BThematicBreak 0). set (t := length (s_h s)).
  destruct (new_node_ok space_table src s nd HS eq_refl eq_refl I) as (S1 & _ & _ & _ & _); [intros K; discriminate K|].
  rewrite new_node_eq in S1. cbn [fst] in S1. set (s1 := st_h s (s_h s ++ [nd])) in *.
  cbn [st_h s_h].
  pose proof (hi_par _ _ _ HH node n p Hn Ep) as Hpn.
  assert (Hnl : (node < length (s_h s))%nat) by (eapply nth_error_lt, Hn).
  destruct (nth_error_ex_lt (s_h s) p ltac:(lia)) as [pn Hp].
  assert (Kp : bk pn <> BList).
  { intros K. pose proof (hi_listp _ _ _ HH node n p pn Hn Ep Hp K). congruence. }
  destruct (insert_after_ok (s_h s ++ [nd]) p node t pn nd (si_h _ _ _ S1)
              (nth_error_alloc_old _ _ _ _ Hp) (nth_error_alloc_new _ _) ltac:(unfold t; lia) Kp
              ltac:(cbn; discriminate) ltac:(cbn; discriminate))
    as (h2 & E2 & St2 & L2 & P2 & T2 & O2).
  change (s_h s1) with (s_h s ++ [nd]). rewrite E2. cbn [bind].
  assert (S2 : SI (st_h s1 h2)) by (apply SI_set_h; [exact S1|exact St2]).
  assert (Hn2 : nth_error h2 node = Some n).
  { rewrite (O2 node ltac:(lia) ltac:(unfold t; lia)). apply nth_error_alloc_old, Hn. }
  assert (Lh2 : length h2 = S (length (s_h s))) by (rewrite L2, app_length; cbn [length]; lia).
  (* the strong property of the lines in front of the table *)
  assert (Hbef : Forall (seg_ok src) before).
  { destruct Hpl as (_ & (Hall & _) & _). rewrite Elines in Hall. apply Forall_app in Hall. apply Hall. }
  assert (Hlimb : forall B, Forall (fun sg => s_stop sg <= B) (blines n) -> Forall (fun sg => s_stop sg <= B) before).
  { intros B HB. rewrite Elines in HB. apply Forall_app in HB. apply HB. }
  destruct before as [|b0 bs].
  - (* no line is left: the paragraph is removed *)
    rewrite (hupd_ok _ _ _ _ Hn2). cbn [bind].
    set (n3 := set_lines n []). set (h3 := hset h2 node n3).
    unfold remove_child.
    assert (Hn3 : nth_error h3 node = Some n3) by (unfold h3; apply hset_same; lia).
    rewrite (hget_some _ _ _ Hn3). cbn [bind]. cbn [n3 set_lines bpar]. rewrite Ep. cbn [opt_nat_eqb]. rewrite Nat.eqb_refl.
    set (pn2 := set_ch pn (insert_after_id node t (bch pn))) in *.
    assert (Hp3 : nth_error h3 p = Some pn2) by (unfold h3; rewrite hset_other by lia; exact P2).
    rewrite (hupd_ok _ _ _ _ Hp3). cbn [bind].
    set (pn4 := set_ch pn2 (remove_id node (bch pn2))).
    assert (Hn4 : nth_error (hset h3 p pn4) node = Some n3) by (rewrite hset_other by lia; exact Hn3).
    rewrite (hupd_ok _ _ _ _ Hn4). cbn [bind].
    set (n5 := set_par n3 None).
    (* the same heap, built in an order in which the invariant holds at every step *)
    assert (Eheap : hset (hset h3 p pn4) node n5 = hset (hset h2 p pn4) node n5).
    { unfold h3. rewrite (hset_comm h2 node p n3 pn4) by lia. apply hset_twice. }
    rewrite Eheap.
    set (h4 := hset h2 p pn4).
    assert (HH2 : HInv h2) by (apply (si_h _ _ _ S2)).
    assert (HH4 : HInv h4).
    { apply (HInv_hset space_table src h2 p pn2 _ HH2 P2); cbn [pn4 set_ch bk bch bpar].
      - reflexivity.
      - pose proof (hi_ch _ _ _ HH2 p pn2 P2) as HF. rewrite Forall_forall in *. intros y Hy. apply HF. eapply in_remove_id, Hy.
      - intros q Eq. exact (hi_par _ _ _ HH2 p pn2 q P2 Eq).
      - exact (hi_ok _ _ _ HH2 p pn2 P2).
      - intros K. cbn [pn2 set_ch bk] in K. contradiction.
      - intros q qn Eq Eqn Kq. exact (hi_listp _ _ _ HH2 p pn2 q qn P2 Eq Eqn Kq).
      - intros K q qn Eq Eqn. exact (hi_item _ _ _ HH2 p pn2 q qn P2 K Eq Eqn). }
    assert (Hn4' : nth_error h4 node = Some n) by (unfold h4; rewrite hset_other by lia; exact Hn2).
    assert (HH5 : HInv (hset h4 node n5)).
    { apply (HInv_hset space_table src h4 node n _ HH4 Hn4'); unfold n5, n3; cbn [set_par set_lines bk bch bpar].
      - reflexivity.
      - exact (hi_ch _ _ _ HH4 node n Hn4').
      - intros q Eq. discriminate.
      - unfold node_ok. cbn [set_par set_lines bk blines bpar]. rewrite Kn. split; [constructor|reflexivity].
      - intros K. congruence.
      - intros q qn Eq. discriminate.
      - intros K. congruence. }
    eexists. split; [reflexivity|]. cbn [bx_s st_h s_h s_c s_r]. fold s.
    assert (Hlim5 : forall r, Lim (s_h s1) r -> Lim (hset h4 node n5) r).
    { intros r HL. destruct St2 as (_ & _ & St2l). specialize (St2l r HL).
      eapply Lim_hset; [|exact Hn4'|].
      - eapply Lim_hset; [exact St2l|exact P2|]. cbn [pn4 pn2 set_ch bk blines]. intros K. exact (St2l p pn2 P2 K).
      - cbn [n5 n3 set_par set_lines blines]. intros _. constructor. }
    assert (Hext5 : hext (s_h s1) (hset h4 node n5)).
    { destruct St2 as (_ & St2e & _). eapply hext_trans; [exact St2e|].
      eapply hext_trans; [apply (hext_hset h2 p pn2 pn4); [exact P2|reflexivity]|].
      apply (hext_hset h4 node n n5); [exact Hn4'|reflexivity]. }
    assert (S5 : SI (st_h s (hset h4 node n5))).
    { change (st_h s (hset h4 node n5)) with (st_h s1 (hset h4 node n5)).
      apply SI_set_h. { exact S1. } split; [exact HH5|]. split; [exact Hext5|exact Hlim5]. }
    split; [exact S5|]. split; [reflexivity|]. split; [reflexivity|].
    assert (L5 : length (hset h4 node n5) = S (length (s_h s))) by (unfold h4; rewrite !hset_length; exact Lh2).
    split; [|split].
    + apply (close_frame_local node p (s_h s) (hset h4 node n5) pn Hp Kp); [lia|lia|..].
      * exists pn4. split; [rewrite hset_other by lia; unfold h4; apply hset_same; lia|]. cbn [pn4 pn2 set_ch bk blines bpar]. auto.
      * intros n0 En0. rewrite Hn in En0. injection En0 as <-. exists n5. split; [apply hset_same; unfold h4; rewrite hset_length; lia|]. auto.
      * intros j J1 J2 Jl. rewrite hset_other by lia. unfold h4. rewrite hset_other by lia.
        rewrite (O2 j J1 ltac:(unfold t; lia)). apply nth_error_app1, Jl.
    + intros HB i m Hm Km. destruct (Nat.eq_dec i node) as [->|Hin'].
      * rewrite hset_same in Hm by (unfold h4; rewrite hset_length; lia). injection Hm as <-. constructor.
      * rewrite hset_other in Hm by lia. destruct (Nat.eq_dec i p) as [->|Hip].
        -- unfold h4 in Hm. rewrite hset_same in Hm by lia. injection Hm as <-. cbn [pn4 pn2 set_ch bk blines] in *. exact (HB p pn Hp Km).
        -- unfold h4 in Hm. rewrite hset_other in Hm by lia. destruct (Nat.eq_dec i t) as [->|Hit].
           ++ rewrite T2 in Hm. injection Hm as <-. discriminate Km.
           ++ rewrite (O2 i Hip Hit) in Hm. apply nth_error_alloc_inv in Hm. destruct Hm as [Hm|[C _]]; [exact (HB i m Hm Km)|contradiction].
    + intros j nj nj' Hj Hj'. destruct (Nat.eq_dec j p) as [->|Hjp]; [right; reflexivity|left].
      assert (Hjl : (j < length (s_h s))%nat) by (eapply nth_error_lt, Hj).
      apply hset_nth_inv in Hj'. destruct Hj' as [(-> & -> & _)|(Hjn & Hj')].
      * rewrite Hn in Hj. injection Hj as <-. reflexivity.
      * unfold h4 in Hj'. rewrite hset_other in Hj' by lia. rewrite (O2 j Hjp ltac:(unfold t; lia)) in Hj'.
        rewrite nth_error_app1 in Hj' by exact Hjl. congruence.
  - (* the first lines stay in the paragraph, without the last newline *)
    rewrite (hupd_ok _ _ _ _ Hn2). cbn [bind].
    set (n3 := set_lines n (cut_last_newline (b0 :: bs))).
    eexists. split; [reflexivity|]. cbn [bx_s st_h s_h s_c s_r]. fold s.
    assert (S3 : SI (st_h (st_h s1 h2) (hset h2 node n3))).
    { apply (upd_node_ok space_table src (st_h s1 h2) node n n3 S2 Hn2); unfold n3; cbn [set_lines bk bch bpar blines]; auto.
      - unfold node_ok. cbn [set_lines bk blines bpar]. rewrite Kn. split; [apply cut_rng, Hbef|].
        intros E. exfalso. revert E. apply cut_nonempty. discriminate.
      - intros _. apply cut_stops, Hlimb. cbn [st_h s_r s1]. exact (si_lim _ _ _ HS node n Hn Kn). }
    split; [exact S3|]. split; [reflexivity|]. split; [reflexivity|].
    assert (L3 : length (hset h2 node n3) = S (length (s_h s))) by (rewrite hset_length; exact Lh2).
    split; [|split].
    + apply (close_frame_local node p (s_h s) (hset h2 node n3) pn Hp Kp); [lia|lia|..].
      * eexists. split; [rewrite hset_other by lia; exact P2|]. cbn [set_ch bk blines bpar]. auto.
      * intros n0 En0. rewrite Hn in En0. injection En0 as <-. exists n3. split; [apply hset_same; lia|]. auto.
      * intros j J1 J2 Jl. rewrite hset_other by lia.
        rewrite (O2 j J1 ltac:(unfold t; lia)). apply nth_error_app1, Jl.
    + intros HB i m Hm Km. destruct (Nat.eq_dec i node) as [->|Hin'].
      * rewrite hset_same in Hm by lia. injection Hm as <-. cbn [n3 set_lines blines].
        apply cut_stops, Hlimb. exact (HB node n Hn Kn).
      * rewrite hset_other in Hm by lia. destruct (Nat.eq_dec i p) as [->|Hip].
        -- rewrite P2 in Hm. injection Hm as <-. cbn [set_ch bk blines] in *. exact (HB p pn Hp Km).
        -- destruct (Nat.eq_dec i t) as [->|Hit].
           ++ rewrite T2 in Hm. injection Hm as <-. discriminate Km.
           ++ rewrite (O2 i Hip Hit) in Hm. apply nth_error_alloc_inv in Hm. destruct Hm as [Hm|[C _]]; [exact (HB i m Hm Km)|contradiction].
    + intros j nj nj' Hj Hj'. destruct (Nat.eq_dec j p) as [->|Hjp]; [right; reflexivity|left].
      assert (Hjl : (j < length (s_h s))%nat) by (eapply nth_error_lt, Hj).
      apply hset_nth_inv in Hj'. destruct Hj' as [(-> & -> & _)|(Hjn & Hj')].
      * rewrite Hn in Hj. injection Hj as <-. reflexivity.
      * rewrite (O2 j Hjp ltac:(unfold t; lia)) in Hj'.
        rewrite nth_error_app1 in Hj' by exact Hjl. congruence.
Qed.

(* ---------- transformParagraph of the generalised driver ---------- *)
Lemma transform_paragraphX_ok table_on x node n : SI (bx_s x) -> nth_error (s_h (bx_s x)) node = Some n ->
  bk n = BParagraph -> bpar n <> None -> para_lines (blines n) ->
  exists x' gone, transform_paragraphX table_on space_table punct_table norm x node = Ok (x', gone) /\
                  transform_post space_table src node (bx_s x) (bx_s x') gone.
Proof.
  intros HS Hn Kn Hpar Hpl. unfold transform_paragraphX.
  destruct (transform_paragraph_ok space_table punct_table norm src tbl (bx_s x) node n HS Hn Kn Hpar Hpl)
    as (s1 & gone & E & TP & Hstrong).
  unfold transform_paragraph in E.
  destruct (lrd_transform space_table punct_table norm (bx_s x) node) as [s1'| |]; cbn [bind] in E; try discriminate.
  cbn [bind].
  destruct TP as (S1 & R1 & Cf1 & Ff1 & Ft1 & Fs1 & Fe1 & CF1 & (n1 & En1 & Hg1) & HB1 & BF1).
  assert (s1' = s1 /\ gone = match bpar n1 with None => true | Some _ => false end) as [-> Eg].
  { destruct (hget (s_h s1') node) as [m| |] eqn:Em; cbn [bind] in E; try discriminate.
    injection E as <- <-. apply hget_inv in Em. rewrite En1 in Em. injection Em as <-. auto. }
  cbn [stx_s bx_s]. rewrite (hget_some _ _ _ En1). cbn [bind].
  destruct (bpar n1) as [p1|] eqn:Ep1.
  2:{ exists (stx_s x s1), true. split; [reflexivity|]. subst gone. cbn [stx_s bx_s].
      unfold transform_post. csplit; auto. exists n1. split; [exact En1|]. rewrite Ep1. tauto. }
  subst gone. destruct table_on.
  2:{ exists (stx_s x s1), false. split; [reflexivity|]. cbn [stx_s bx_s].
      unfold transform_post. csplit; auto. exists n1. split; [exact En1|]. rewrite Ep1. split; intros C; discriminate C. }
  assert (Kn1 : bk n1 = BParagraph).
  { destruct CF1 as [_ H]. destruct (H node n Hn) as (n1' & E' & K' & _). rewrite En1 in E'. injection E' as <-. congruence. }
  destruct (Hstrong eq_refl n1 En1) as [Hstr1 Epn1].
  destruct (table_transform_ok (stx_s x s1) node n1 p1 S1 En1 Kn1 Ep1 Hstr1)
    as (x2 & E2 & S2 & R2 & C2 & CF2 & HB2 & BF2).
  rewrite E2. cbn [bind]. cbn [stx_s bx_s] in *.
  destruct CF2 as [L2 H2]. destruct (H2 node n1 En1) as (n2 & En2 & K2 & _).
  rewrite (hget_some _ _ _ En2). cbn [bind]. eexists _, _. split; [reflexivity|].
  unfold transform_post. rewrite C2. csplit; auto.
  - congruence.
  - eapply close_frame_trans; [exact CF1|split; [exact L2|exact H2]].
  - exists n2. split; [exact En2|]. destruct (bpar n2); split; intros C; congruence.
  - intros HB. rewrite <- R1. apply HB2. rewrite R1. apply HB1, HB.
  - intros j nj nj2 Hj Hj2. destruct CF1 as [_ H1]. destruct (H1 j nj Hj) as (nj1 & Hj1 & _).
    destruct (BF2 j nj1 nj2 Hj1 Hj2) as [B2|B2].
    + destruct (BF1 j nj nj1 Hj Hj1) as [B1|B1]; [left; congruence|right; exact B1].
    + right. subst j. exists n. split; [exact Hn|congruence].
Qed.

End S.
