(* Helper library for TypoDefWfBlk.v, part G: Close of paragraphs, indented and fenced code blocks. *)
Require Import GM.model.Base GM.model.Util GM.model.Reader GM.model.ReaderSpec GM.model.Blocks GM.model.ListItem
               GM.model.LeafBlocks GM.model.CodeBlock GM.model.LinkDest GM.model.Regex GM.model.HtmlWriter
               GM.model.Html GM.model.HtmlSpec GM.model.BlockParse GM.model.InlineParse GM.model.TypoDefParseD.
Require Import GM.proofs.ReaderProofs GM.proofs.BlockRangeProofs GM.proofs.ParseInv
               GM.proofs.ParseBlocksRangeA GM.proofs.TypoDefWfBlkB GM.proofs.TypoDefWfBlkT GM.proofs.TypoDefWfBlkC
               GM.proofs.TypoDefWfBlkD.
From Coq Require Import ZArith Lia Sorted.
Open Scope Z_scope.

Section G.
Variable space_table punct_table : list N.
Variable norm : bytes -> bytes.
Variable re_t1o re_t1c re_t2 re_t3 re_t4 re_t5 re_t6 re_t7 : re.
Variable allowed_tags : list bytes.
Variable src : bytes.
Hypothesis sp32 : is_space space_table 32%N = true.
Set Default Proof Using "All".

(* lemmas of parts C and D take all the section variables: CC supplies them *)
Notation CC f := (f space_table punct_table norm re_t1o re_t1c re_t2 re_t3 re_t4 re_t5 re_t6 re_t7 allowed_tags src sp32) (only parsing).
Notation SInv := (SInv space_table src).
Notation HI := (HI space_table src).
Notation nodeP := (nodeP space_table src).
Notation heapS := (heapS space_table src).
Notation Jinv := (Jinv src).
Notation openS := (openS src).
Notation pline := (pline space_table src).
Notation oline := (oline src).
Notation fin_lines := (fin_lines src).
Notation fin := (fin src).
Notation cont_post := (cont_post space_table src).
Notation item_guard := (item_guard space_table).
Notation verdict := (verdict space_table).

(* ---------- the source of the reader, any flavour ---------- *)
Lemma SInv_src fl s A D N : SInv fl s A D N -> src_of s = src.
Proof.
  intros [HR _]. unfold src_of. destruct fl; cbn [rd_ok] in HR.
  - destruct HR as [_ [E _]]. exact E.
  - destruct HR as [r0 [_ [_ [E _]]]]. exact E.
Qed.

(* ---------- trimming one paragraph line ---------- *)
(* sg' is a trimmed version of sg: still a paragraph line, final, inside sg *)
Definition trimmed (sg sg' : seg) : Prop :=
  pline sg' /\ oline sg' /\ s_start sg <= s_start sg' /\ s_stop sg' <= s_stop sg.

Lemma trimmed_trans a b c : trimmed a b -> trimmed b c -> trimmed a c.
Proof. intros [_ [_ [H1 H2]]] [H3 [H4 [H5 H6]]]. unfold trimmed. csplit; auto; lia. Qed.

Lemma trim_left_pline sg sg' : pline sg -> seg_trim_left_space space_table src sg = Ok sg' -> trimmed sg sg'.
Proof.
  intros [[Hr [Hl Hp]] [Hf Hb]] H. unfold seg_trim_left_space in H. rewrite slice_sub in H by lia.
  cbn [bind] in H. injection H as <-.
  set (v := sub src (s_start sg) (s_stop sg)) in *.
  pose proof (br_tls_range space_table v) as Htl.
  assert (zlen v = s_stop sg - s_start sg) as Hzv by (apply ReaderProofs.zlen_sub; lia).
  pose proof (CC tls_lt_nonblank v Hb) as Hlt.
  unfold trimmed, pline, oline, seg_inr. cbn [mkseg s_start s_stop s_pad s_fnl].
  csplit; try lia; try reflexivity.
  rewrite (CC sub_skip) by lia. fold v. rewrite (CC tls_skip). exact Hb.
Qed.

Lemma trim_right_pline sg sg' : pline sg -> oline sg -> seg_trim_right_space space_table src sg = Ok sg' -> trimmed sg sg'.
Proof.
  intros [[Hr [Hl Hp]] [Hf Hb]] [Ho1 [Ho2 [Ho3 Ho4]]] H. unfold seg_trim_right_space in H.
  rewrite slice_sub in H by lia. cbn [bind] in H.
  set (v := sub src (s_start sg) (s_stop sg)) in *.
  pose proof (br_trs_range space_table v) as Htr.
  assert (zlen v = s_stop sg - s_start sg) as Hzv by (apply ReaderProofs.zlen_sub; lia).
  destruct (CC trs_keep v Hb) as [Hlt Hnb].
  destruct (Z.eqb_spec (trim_right_space_len space_table v) (zlen v)) as [E|_]; [lia|].
  injection H as <-.
  unfold trimmed, pline, oline, seg_inr. cbn [mksegp s_start s_stop s_pad s_fnl].
  csplit; try lia; try reflexivity.
  rewrite (CC sub_take) by lia. fold v.
  replace (s_stop sg - s_start sg - trim_right_space_len space_table v) with (zlen v - trim_right_space_len space_table v) by lia.
  exact Hnb.
Qed.

(* ---------- trimming all the lines ---------- *)
Lemma map_trim_left ls : forall ls', Forall pline ls ->
  map_res (seg_trim_left_space space_table src) ls = Ok ls' -> Forall2 trimmed ls ls'.
Proof.
  induction ls as [|x t IH]; intros ls' HF H; cbn [map_res] in H.
  - injection H as <-. constructor.
  - inversion HF as [|? ? Hx Ht]; subst. bind_inv H y Ey. bind_inv H r Er. injection H as <-.
    constructor; [apply trim_left_pline; assumption|apply IH; assumption].
Qed.

Lemma trimmed_in ls ls' : Forall2 trimmed ls ls' -> forall b', In b' ls' -> exists b, In b ls /\ trimmed b b'.
Proof.
  intros HF. induction HF as [|x y l l' Hxy Hl IH]; intros b' Hin; [destruct Hin|].
  destruct Hin as [<-|Hin].
  - exists x. split; [left; reflexivity|exact Hxy].
  - destruct (IH b' Hin) as [b [Hb Ht]]. exists b. split; [right; exact Hb|exact Ht].
Qed.

Lemma trimmed_sorted ls ls' : Forall2 trimmed ls ls' -> sorted_segs ls -> sorted_segs ls'.
Proof.
  intros HF. induction HF as [|x y l l' Hxy Hl IH]; intros Hs; [constructor|].
  inversion Hs as [|? ? Ht Hx]; subst. constructor; [apply IH; exact Ht|].
  apply Forall_forall. intros b' Hin. destruct (trimmed_in _ _ Hl b' Hin) as [b [Hb [_ [_ [Hb1 _]]]]].
  rewrite Forall_forall in Hx. specialize (Hx b Hb). destruct Hxy as [_ [_ [_ Hx2]]]. lia.
Qed.

Lemma trimmed_pline ls ls' : Forall2 trimmed ls ls' -> Forall pline ls' /\ Forall oline ls'.
Proof.
  intros HF. induction HF as [|x y l l' Hxy Hl [IH1 IH2]]; [split; constructor|].
  destruct Hxy as [H1 [H2 _]]. split; constructor; assumption.
Qed.

(* the last line is trimmed once more *)
Lemma trimmed_last ls pre lst lst' : Forall2 trimmed ls (pre ++ [lst]) -> trimmed lst lst' ->
  Forall2 trimmed ls (pre ++ [lst']).
Proof.
  intros HF Ht. apply Forall2_app_inv_r in HF. destruct HF as [l1 [l2 [H1 [H2 ->]]]].
  apply Forall2_app; [exact H1|].
  inversion H2 as [|x y l l' Hxy Hl]; subst. inversion Hl; subst.
  constructor; [|constructor]. eapply trimmed_trans; eassumption.
Qed.

Lemma drop_trailing_incl l : forall l', drop_trailing_blank space_table src l = Ok l' -> incl l' l.
Proof.
  induction l as [|x t IH]; intros l' H; cbn [drop_trailing_blank] in H.
  - injection H as <-. apply incl_refl.
  - bind_inv H v Ev. match type of H with (if ?b then _ else _) = _ => destruct b end.
    + apply incl_tl. apply IH. exact H.
    + injection H as <-. apply incl_refl.
Qed.

(* paragraph.go Close on an opened paragraph: the lines are trimmed and become final *)
Lemma paragraph_close_ok fl s node s' A D N : SInv fl s A D N -> In (node, PParagraph) (A ++ D ++ N) ->
  paragraph_close space_table s node = Ok s' ->
  SInv fl s' A D N /\ s_c s' = s_c s /\ s_r s' = s_r s /\ length (s_h s') = length (s_h s) /\
  shape_le (s_h s) (s_h s') /\
  exists n', nth_error (s_h s') node = Some n' /\ fin_lines (blines n').
Proof.
  intros HS Hin H. pose proof (SInv_src _ _ _ _ _ HS) as Esrc. destruct HS as [HR HH].
  unfold paragraph_close in H. rewrite Esrc in H. bind_inv H n En. apply hget_ok in En.
  destruct (os_pair _ _ _ _ _ _ (hi_open _ _ _ _ _ _ _ _ HH) node PParagraph Hin) as [n0 [En0 Kn]].
  assert (n0 = n) by congruence. subst n0. cbn [pkind] in Kn.
  pose proof (hs_node _ _ _ (hi_heap _ _ _ _ _ _ _ _ HH) _ _ En) as HnP.
  destruct (np_para _ _ _ HnP Kn) as [Hpl [Hso Hne]].
  destruct (blines n) as [|l0 lt] eqn:El; [congruence|]. rewrite <- El in *. clear El l0 lt.
  bind_inv H ls Els. pose proof (map_trim_left _ _ Hpl Els) as HF.
  destruct (rev ls) as [|lst pre] eqn:Erev; [discriminate|].
  assert (ls = rev pre ++ [lst]) as Els2.
  { rewrite <- (rev_involutive ls), Erev. reflexivity. }
  bind_inv H lst' Et. bind_inv H h1 Eh. injection H as <-.
  apply hupd_ok in Eh. destruct Eh as [n1 [En1 ->]]. assert (n1 = n) by congruence. subst n1.
  cbn [st_h s_h s_c s_r]. rewrite Els2 in HF.
  assert (trimmed lst lst') as Hlast.
  {    pose proof (trimmed_pline _ _ HF) as [Hp1 Ho1]. rewrite Forall_forall in Hp1, Ho1.
    apply trim_right_pline; [apply Hp1|apply Ho1|exact Et]; apply in_or_app; right; left; reflexivity. }
  pose proof (trimmed_last _ _ _ _ HF Hlast) as HF'.
  destruct (trimmed_pline _ _ HF') as [Hp' Ho'].
  pose proof (trimmed_sorted _ _ HF' Hso) as Hso'.
  set (fl' := rev pre ++ [lst']) in *.
  assert (nodeP (set_lines n fl')) as Hn'.
  { destruct HnP as [H1 H2 H3 H4 H5 H6 H7 H8 H9]. constructor; cbn [set_lines blines b_seg bk b_i1 bch]; auto; try congruence.
    - eapply Forall_impl; [|exact Hp']. intros a Ha. apply Ha.
    - intros _. csplit; [exact Hp'|exact Hso'|]. unfold fl'. destruct (rev pre); discriminate.
    - intros E. change (is_dt (set_lines n fl')) with (is_dt n) in E. rewrite (CC not_dt_kind) in E by congruence. discriminate. }
  split.
  { split; [exact HR|]. cbn [st_h s_h s_c s_r].
    eapply (CC HI_set_entry); try eassumption; try discriminate.
    - apply (CC same_shape_lines).
    - cbn [set_lines bk blines]. intros _ sg Hsg.
      destruct (trimmed_in _ _ HF' sg Hsg) as [b [Hb [_ [_ [_ Hle]]]]].
      pose proof (hi_bnd _ _ _ _ _ _ _ _ HH node n b En Kn Hb). lia. }
  csplit; try reflexivity.
  - apply length_hset.
  - eapply shape_le_hset; [exact En|apply (CC same_shape_lines)].
  - exists (set_lines n fl'). split; [apply nth_hset_eq; eapply nth_some_lt; exact En|].
    cbn [set_lines blines]. split; assumption.
Qed.

(* code_block.go Close *)
Lemma code_close_ok fl s node s' A D N : SInv fl s A D N -> In (node, PCodeBlock) (A ++ D ++ N) ->
  code_close space_table s node = Ok s' ->
  SInv fl s' A D N /\ s_c s' = s_c s /\ s_r s' = s_r s /\ length (s_h s') = length (s_h s) /\ shape_le (s_h s) (s_h s').
Proof.
  intros HS Hin H. pose proof (SInv_src _ _ _ _ _ HS) as Esrc.
  unfold code_close in H. rewrite Esrc in H. bind_inv H n En. apply hget_ok in En.
  bind_inv H ls Els. bind_inv H h1 Eh. injection H as <-.
  apply hupd_ok in Eh. destruct Eh as [n1 [En1 ->]]. assert (n1 = n) by congruence. subst n1.
  destruct (os_pair _ _ _ _ _ _ (hi_open _ _ _ _ _ _ _ _ (proj2 HS)) node PCodeBlock Hin) as [n0 [En0 Kn]].
  assert (n0 = n) by congruence. subst n0. cbn [pkind] in Kn.
  pose proof (hs_node _ _ _ (hi_heap _ _ _ _ _ _ _ _ (proj2 HS)) _ _ En) as HnP.
  unfold code_block_close in Els. bind_inv Els l Edrop. injection Els as <-.
  apply drop_trailing_incl in Edrop.
  cbn [st_h s_h s_c s_r]. csplit; try reflexivity; [|apply length_hset|eapply shape_le_hset; [exact En|apply (CC same_shape_lines)]].
  eapply (CC SInv_set_entry); try eassumption; try discriminate.
  - apply (CC same_shape_lines).
  - destruct HnP as [H1 H2 H3 H4 H5 H6 H7 H8 H9]. constructor; cbn [set_lines blines b_seg bk b_i1 bch]; auto; try congruence.
    + apply Forall_forall. intros a Ha. rewrite Forall_forall in H1. apply H1.
      apply in_rev. apply Edrop. apply in_rev. exact Ha.
    + intros E. change (is_dt (set_lines n (rev l))) with (is_dt n) in E. rewrite (CC not_dt_kind) in E by congruence. discriminate.
  - cbn [set_lines bk]. congruence.
Qed.

(* fcode_block.go Close *)
Lemma fenced_close_ok fl s node s' A D N : SInv fl s A D N -> fenced_close s node = Ok s' ->
  SInv fl s' A D N /\ s_h s' = s_h s /\ s_r s' = s_r s /\
  c_arr (s_c s') = c_arr (s_c s) /\ c_len (s_c s') = c_len (s_c s) /\ c_tmp_para (s_c s') = c_tmp_para (s_c s).
Proof.
  intros HS H. unfold fenced_close in H.
  destruct (c_fence (s_c s)) as [[[[ch i] l] fn]|]; [|discriminate]. injection H as <-.
  destruct (Nat.eqb fn node).
  - cbn [st_c s_h s_c s_r cset_fence c_arr c_len c_tmp_para]. csplit; try reflexivity.
    apply (CC SInv_fence); [exact HS|]. intros ? ? ? ? E. discriminate.
  - csplit; auto.
Qed.

End G.
