(* Helper library for TypoDefWfBlk.v, part T (second half of the fork of ParseBlocksRangeB.v): the opened-blocks part of the
   invariant of TypoDefWfBlkB.v under changes of the heap and of the lists (openS_kind, openS_le, openS_dropD, ...),
   what replaces NoDup (ids (A ++ D ++ N)) (os_fun, os_last_notin), the chain of the blocks being closed. *)
Require Import GM.model.Base GM.model.Util GM.model.Reader GM.model.ReaderSpec GM.model.Blocks GM.model.ListItem
               GM.model.LeafBlocks GM.model.CodeBlock GM.model.LinkDest GM.model.Regex GM.model.HtmlWriter
               GM.model.Html GM.model.HtmlSpec GM.model.BlockParse GM.model.InlineParse GM.model.TypoDefParseD.
Require Import GM.proofs.ReaderProofs GM.proofs.BlockRangeProofs GM.proofs.ParseInv
               GM.proofs.ParseBlocksRangeA GM.proofs.TypoDefWfBlkB.
From Coq Require Import ZArith Lia Sorted.
Open Scope Z_scope.


Section Inv.
Variable space_table : list N.
Variable src : bytes.
Notation is_blank := (Reader.is_blank space_table).
Notation pline := (pline space_table src).
Notation oline := (oline src).
Notation fin_lines := (fin_lines src).
Notation nodeP := (nodeP space_table src).
Notation fin := (fin src).
Notation heapS := (heapS space_table src).
Notation Jinv := (Jinv src).
Notation Bnd := Bnd.
Notation openS := (openS src).
Notation HI := (HI space_table src).
Notation SInv := (SInv space_table src).

(* ================= the opened-blocks part of the invariant ================= *)
Lemma ids_app E1 E2 : ids (E1 ++ E2) = ids E1 ++ ids E2.
Proof. apply map_app. Qed.
Lemma in_ids x bp E : In (x, bp) E -> In x (ids E).
Proof. intros H. apply (in_map fst) in H. exact H. Qed.
Lemma in_ids_inv x E : In x (ids E) -> exists bp, In (x, bp) E.
Proof. intros H. apply in_map_iff in H. destruct H as [[y bp] [<- H]]. exists bp. exact H. Qed.

(* nodes whose lines other parts of the invariant rely on *)
Definition prot (c : pctx) (E : list (nat * bparser)) (x : nat) : Prop :=
  In (x, PATX) E \/ (c_tmp_para c = Some x /\ exists y, In (y, PSetext) E).

(* old nodes keep what bki records *)
Definition kind_le (h h' : heap) : Prop :=
  forall i n, nth_error h i = Some n -> exists n', nth_error h' i = Some n' /\ bki n' = bki n.
Lemma shape_kind_le h h' : shape_le h h' -> kind_le h h'.
Proof. intros H i n E. destruct (H i n E) as [n' [E' [K _]]]. eauto. Qed.
Lemma data_kind_le h h' : data_le h h' -> kind_le h h'.
Proof. intros H i n E. destruct (H i n E) as [n' [E' [K _]]]. eauto. Qed.

Lemma kind_le_refl h : kind_le h h.
Proof. intros i n E. exists n. auto. Qed.
Lemma kind_le_trans a b c : kind_le a b -> kind_le b c -> kind_le a c.
Proof.
  intros H1 H2 i n E. destruct (H1 i n E) as [n1 [E1 K1]]. destruct (H2 i n1 E1) as [n2 [E2 K2]].
  exists n2. split; [exact E2|]. apply bki_eq in K1. apply bki_eq in K2.
  destruct K1 as [A1 [A2 [A3 [_ [_ [_ A4]]]]]]. destruct K2 as [B1 [B2 [B3 [_ [_ [_ B4]]]]]].
  apply bki_intro; try congruence. intros Hd. rewrite B4 by congruence. auto.
Qed.
Lemma kind_le_app h n : kind_le h (h ++ [n]).
Proof. apply shape_kind_le. apply shape_le_app. Qed.
Lemma kind_le_hset h i n n' : nth_error h i = Some n -> same_shape n n' -> kind_le h (hset h i n').
Proof. intros E Hs. apply shape_kind_le. eapply shape_le_hset; eassumption. Qed.
Lemma kind_le_length h h' : kind_le h h' -> (length h <= length h')%nat.
Proof.
  intros H. destruct (Nat.le_gt_cases (length h) (length h')) as [Hle|Hgt]; [exact Hle|exfalso].
  destruct (nth_error h (length h')) as [n|] eqn:E.
  - destruct (H _ _ E) as [n' [E' _]]. apply nth_some_lt in E'. lia.
  - apply nth_error_None in E. lia.
Qed.
(* the kind facts about one node *)
Lemma kind_le_nth h h' i n : kind_le h h' -> nth_error h i = Some n ->
  exists n', nth_error h' i = Some n' /\ bk n' = bk n /\ b_i1 n' = b_i1 n /\ is_dl n' = is_dl n /\ is_dt n' = is_dt n /\
             is_dd n' = is_dd n /\ cnt n' = cnt n /\ (is_dl n = true -> b_seg n' = b_seg n).
Proof. intros H E. destruct (H i n E) as [n' [E' K]]. exists n'. split; [exact E'|]. apply bki_eq. exact K. Qed.

Lemma in_D_all (A D N : list (nat * bparser)) y : In y (ids D) -> In y (ids (A ++ D ++ N)).
Proof. rewrite !ids_app, !in_app_iff. tauto. Qed.
Lemma in_AN_all (A D N : list (nat * bparser)) y : In y (ids (A ++ N)) -> In y (ids (A ++ D ++ N)).
Proof. rewrite !ids_app, !in_app_iff. tauto. Qed.
Lemma in_N_all (A D N : list (nat * bparser)) y : In y (ids N) -> In y (ids (A ++ D ++ N)).
Proof. rewrite !ids_app, !in_app_iff. tauto. Qed.
Lemma Adj_snd_in0 a l q x : Adj (a :: l) q x -> In x l.
Proof.
  intros H. apply Adj_cons in H. destruct H as [[_ [t ->]]|H]; [left; reflexivity|]. apply Adj_in in H. tauto.
Qed.

(* the opened-blocks bookkeeping survives a change of the heap that keeps the kinds, the lines of the protected
   nodes and the (last-)child facts about the opened nodes *)
Lemma openS_kind h h' c A D N : openS h c A D N -> kind_le h h' ->
  (forall x n, prot c (A ++ D ++ N) x -> nth_error h x = Some n ->
               exists n', nth_error h' x = Some n' /\ blines n' = blines n) ->
  (forall q y, In y (ids (A ++ D ++ N)) -> lastchild h q y -> lastchild h' q y) ->
  (forall q y, In y (ids (A ++ D ++ N)) -> child h q y -> child h' q y) ->
  openS h' c A D N.
Proof.
  intros [Hp Ha HnD HnN Hdu Hs Hc Hl Ht Hf Hdt Hpe] Hle Hpr Hlc Hch.
  assert (forall x bp n', In (x, bp) (A ++ D ++ N) -> nth_error h' x = Some n' ->
            exists n, nth_error h x = Some n /\ bki n' = bki n) as Hback.
  { intros x bp n' Hin E'. destruct (Hp x bp Hin) as [n [E K]]. destruct (Hle x n E) as [n2 [E2 K2]].
    assert (n2 = n') by congruence. subst n2. exists n. split; [exact E|exact K2]. }
  constructor.
  - intros x bp Hin. destruct (Hp x bp Hin) as [n [E K]]. destruct (Hle x n E) as [n' [E' K']].
    exists n'. split; congruence.
  - intros x Hin. destruct (Ha x Hin) as [n [E F]]. destruct (Hpr x n (or_introl Hin) E) as [n' [E' L]].
    exists n'. rewrite L. auto.
  - exact HnD.
  - exact HnN.
  - intros x H1 H2. destruct (Hdu x H1 H2) as [n [E K]]. destruct (Hle x n E) as [n' [E' K']].
    exists n'. split; [exact E'|]. apply bki_eq in K'. destruct K' as [_ [_ [K' _]]]. congruence.
  - intros q x Hq. apply Hlc; [|apply Hs; exact Hq]. apply in_AN_all. eapply Adj_snd_in0. exact Hq.
  - destruct Hc as [Hc|Hc]; [left|right; exact Hc].
    intros q x Hq. apply Hch; [|apply Hc; exact Hq]. apply in_D_all. eapply Adj_snd_in0. exact Hq.
  - intros HN. specialize (Hl HN). destruct D as [|d D']; [auto|]. apply Hlc; [|exact Hl].
    apply in_D_all. left. reflexivity.
  - intros x Hin. destruct (Ht x Hin) as [tmp [t [E1 [E2 [K [F Hni]]]]]].
    destruct (Hpr tmp t (or_intror (conj E1 (ex_intro _ x Hin))) E2) as [t' [E' L]].
    destruct (Hle tmp t E2) as [t'' [E'' K'']]. assert (t'' = t') by congruence. subst t''.
    exists tmp, t'. rewrite L. csplit; auto. congruence.
  - exact Hf.
  - intros x bp n' Hin E'. destruct (Hback x bp n' Hin E') as [n [E K]]. apply bki_eq in K.
    destruct K as [_ [_ [_ [K _]]]]. rewrite K. eapply Hdt; eassumption.
  - intros x bp n' Hin E' Hdl Hsg. destruct (Hback x bp n' Hin E') as [n [E K]]. apply bki_eq in K.
    destruct K as [_ [_ [K [_ [_ [_ Ks]]]]]]. rewrite K in Hdl. rewrite (Ks Hdl) in Hsg. eapply Hpe; eassumption.
Qed.

Lemma openS_le h h' c A D N : openS h c A D N -> shape_le h h' ->
  (forall x n, prot c (A ++ D ++ N) x -> nth_error h x = Some n ->
               exists n', nth_error h' x = Some n' /\ blines n' = blines n) ->
  openS h' c A D N.
Proof.
  intros H Hle Hpr. eapply openS_kind; [exact H|apply shape_kind_le; exact Hle|exact Hpr|..].
  - intros q y _ Hq. eapply lastchild_le; eassumption.
  - intros q y _ Hq. eapply child_le; eassumption.
Qed.

Lemma openS_app h n c A D N : openS h c A D N -> openS (h ++ [n]) c A D N.
Proof.
  intros H. eapply openS_le; [exact H|apply shape_le_app|].
  intros x m _ E. exists m. rewrite nth_error_app1 by (eapply nth_some_lt; eassumption). auto.
Qed.

Lemma openS_hset h i n n' c A D N : openS h c A D N -> nth_error h i = Some n -> same_shape n n' ->
  (blines n' = blines n \/ ~ prot c (A ++ D ++ N) i) -> openS (hset h i n') c A D N.
Proof.
  intros H E Hs Hl. eapply openS_le; [exact H|eapply shape_le_hset; eassumption|].
  intros x m Hp Ex. destruct (Nat.eq_dec x i) as [->|Hne].
  - destruct Hl as [Hl|Hl]; [|contradiction]. exists n'. rewrite nth_hset_eq by (eapply nth_some_lt; eassumption).
    assert (m = n) by congruence. subst. auto.
  - exists m. rewrite nth_hset_ne by congruence. auto.
Qed.

Lemma openS_ctx h c c' A D N : openS h c A D N -> c_tmp_para c' = c_tmp_para c -> c_fence c' = c_fence c ->
  openS h c' A D N.
Proof.
  intros [Hp Ha HnD HnN Hdu Hs Hc Hl Ht Hf Hdt Hpe] E1 E2. constructor; auto.
  - intros x Hin. destruct (Ht x Hin) as [tmp [t H]]. exists tmp, t. rewrite E1. exact H.
  - intros ch i l n. rewrite E2. apply Hf.
Qed.

Lemma openS_fence h c v A D N : openS h c A D N -> (forall ch i l n, v = Some (ch, i, l, n) -> 0 <= i) ->
  openS h (cset_fence c v) A D N.
Proof.
  intros [Hp Ha HnD HnN Hdu Hs Hc Hl Ht Hf Hdt Hpe] Hv. constructor; auto.
Qed.

Lemma incl_dropD {X} (A D N : list X) x e : In e (A ++ D ++ N) -> In e (A ++ (D ++ [x]) ++ N).
Proof.
  intros H. apply in_app_or in H. apply in_or_app. destruct H as [H|H]; [left; exact H|right].
  apply in_app_or in H. apply in_or_app. destruct H as [H|H]; [left; apply in_or_app; left; exact H|right; exact H].
Qed.

Lemma openS_dropD h c A D x N : openS h c A (D ++ [x]) N -> openS h c A D N.
Proof.
  intros [Hp Ha HnD HnN Hdu Hs Hc Hl Ht Hf Hdt Hpe]. constructor; auto.
  - intros y bp Hin. apply Hp. apply incl_dropD. exact Hin.
  - intros y Hin. apply Ha. apply incl_dropD. exact Hin.
  - rewrite app_assoc, ids_app in HnD. change (ids [x]) with [fst x] in HnD. apply NoDup_remove_1 in HnD. rewrite app_nil_r in HnD. exact HnD.
  - intros y H1 H2. apply Hdu; [|exact H2]. rewrite ids_app. apply in_or_app. left. exact H1.
  - destruct Hc as [Hc|[HN [y Hy]]].
    + left. intros q y Hq. apply Hc. rewrite ids_app. rewrite app_comm_cons. apply Adj_app_l. exact Hq.
    + left. assert (D = []) as -> by (destruct D as [|d [|d' D']]; [reflexivity|discriminate..]).
      intros q z Hq. exfalso. eapply Adj_single. exact Hq.
  - intros HN. specialize (Hl HN). destruct D as [|d D']; [auto|]. exact Hl.
  - intros y Hin. destruct (Ht y (incl_dropD _ _ _ _ _ Hin)) as [tmp [t [E1 [E2 [K [F Hni]]]]]].
    exists tmp, t. csplit; auto. intros Hi. apply Hni. apply in_ids_inv in Hi. destruct Hi as [bp Hi].
    eapply in_ids. apply incl_dropD. exact Hi.
  - intros y bp n Hin. apply (Hdt y bp n). apply incl_dropD. exact Hin.
  - intros y bp n Hin. apply (Hpe y bp n). apply incl_dropD. exact Hin.
Qed.

(* ---------- the ids of the opened blocks: what replaces NoDup (ids (A ++ D ++ N)) ---------- *)
Lemma nodup_fst_fun0 (E : list (nat * bparser)) x a b : NoDup (ids E) -> In (x, a) E -> In (x, b) E -> a = b.
Proof.
  induction E as [|[y c] t IH]; intros Hnd Ha Hb; [destruct Ha|]. cbn [ids map fst] in Hnd.
  inversion Hnd as [|? ? Hy Ht]; subst. destruct Ha as [Ha|Ha], Hb as [Hb|Hb].
  - congruence.
  - injection Ha as -> ->. exfalso. apply Hy. eapply in_ids. exact Hb.
  - injection Hb as -> ->. exfalso. apply Hy. eapply in_ids. exact Ha.
  - apply IH; assumption.
Qed.

(* an opened node has one parser *)
Lemma os_fun h c A D N x a b : openS h c A D N -> In (x, a) (A ++ D ++ N) -> In (x, b) (A ++ D ++ N) -> a = b.
Proof.
  intros HO Ha Hb. destruct (os_pair _ _ _ _ _ _ HO x a Ha) as [n [E K]]. destruct (os_pair _ _ _ _ _ _ HO x b Hb) as [n2 [E2 K2]].
  assert (n2 = n) by congruence. subst n2.
  rewrite !app_assoc in Ha, Hb. apply in_app_or in Ha. apply in_app_or in Hb.
  destruct Ha as [Ha|Ha], Hb as [Hb|Hb].
  - eapply nodup_fst_fun0; [exact (os_ndD _ _ _ _ _ _ HO)|exact Ha|exact Hb].
  - assert (In (x, a) (A ++ N) \/ In (x, a) D) as Ha' by (apply in_app_or in Ha; destruct Ha; [left; apply in_or_app; left|right]; assumption).
    destruct Ha' as [Ha'|Ha']; [eapply nodup_fst_fun0; [exact (os_ndN _ _ _ _ _ _ HO)|exact Ha'|apply in_or_app; right; exact Hb]|].
    destruct (os_dup _ _ _ _ _ _ HO x (in_ids _ _ _ Ha') (in_ids _ _ _ Hb)) as [m [Em Km]]. assert (m = n) by congruence. subst m.
    apply is_dl_kind in Km. destruct Km as [Km _]. destruct a, b; cbn [pkind] in *; congruence.
  - assert (In (x, b) (A ++ N) \/ In (x, b) D) as Hb' by (apply in_app_or in Hb; destruct Hb; [left; apply in_or_app; left|right]; assumption).
    destruct Hb' as [Hb'|Hb']; [eapply nodup_fst_fun0; [exact (os_ndN _ _ _ _ _ _ HO)|apply in_or_app; right; exact Ha|exact Hb']|].
    destruct (os_dup _ _ _ _ _ _ HO x (in_ids _ _ _ Hb') (in_ids _ _ _ Ha)) as [m [Em Km]]. assert (m = n) by congruence. subst m.
    apply is_dl_kind in Km. destruct Km as [Km _]. destruct a, b; cbn [pkind] in *; congruence.
  - eapply nodup_fst_fun0; [exact (os_ndN _ _ _ _ _ _ HO)|apply in_or_app; right; exact Ha|apply in_or_app; right; exact Hb].
Qed.

Lemma nodup_snoc_notin (E : list (nat * bparser)) x bp : NoDup (ids (E ++ [(x, bp)])) -> ~ In x (ids E) /\ NoDup (ids E).
Proof.
  rewrite ids_app. change (ids [(x, bp)]) with [x]. intros H. split.
  - apply NoDup_remove_2 in H. rewrite app_nil_r in H. exact H.
  - apply NoDup_remove_1 in H. rewrite app_nil_r in H. exact H.
Qed.

(* the last of the blocks being closed, when it is no definition list, is not among the other opened blocks *)
Lemma os_last_notin h c A D N x bp : openS h c A (D ++ [(x, bp)]) N -> bp <> PHTML -> ~ In x (ids (A ++ D ++ N)).
Proof.
  intros HO Hbp Hin. pose proof (os_ndD _ _ _ _ _ _ HO) as HnD. rewrite app_assoc in HnD. apply nodup_snoc_notin in HnD. destruct HnD as [HnD _].
  rewrite app_assoc, ids_app in Hin. apply in_app_or in Hin. destruct Hin as [Hin|Hin]; [contradiction|].
  destruct (os_dup _ _ _ _ _ _ HO x) as [n [E K]]; [rewrite ids_app; apply in_or_app; right; left; reflexivity|exact Hin|].
  destruct (os_pair _ _ _ _ _ _ HO x bp) as [n2 [E2 K2]].
  { apply in_or_app. right. apply in_or_app. left. apply in_or_app. right. left. reflexivity. }
  assert (n2 = n) by congruence. subst n2. apply is_dl_kind in K. destruct K as [K _]. destruct bp; cbn [pkind] in K2; congruence.
Qed.

Lemma in_adj_cons a l x : In x l -> exists q, Adj (a :: l) q x.
Proof.
  intros H. apply in_split in H. destruct H as [l1 [l2 ->]]. destruct (rev l1) as [|z r] eqn:E.
  - apply (f_equal (@rev nat)) in E. rewrite rev_involutive in E. cbn in E. subst l1. exists a, [], l2. reflexivity.
  - apply (f_equal (@rev nat)) in E. rewrite rev_involutive in E. cbn [rev] in E. subst l1.
    exists z, (a :: rev r), l2. cbn [app]. rewrite <- app_assoc. reflexivity.
Qed.

(* an element of a chain is attached; hence the root is not in it *)
Lemma chain_attached h p l x : heapS h -> chainL h (p :: l) -> In x l ->
  exists q nx, nth_error h x = Some nx /\ bpar nx = Some q.
Proof.
  intros HS Hc Hin. destruct (in_adj_cons p l x Hin) as [q Hq]. destruct (Hc q x Hq) as [nq [Eq Hx]].
  destruct (hs_K _ _ h HS q nq x Eq Hx) as [nx [Ex Px]]. exists q, nx. auto.
Qed.
Lemma chain_no_root h p l : heapS h -> chainL h (p :: l) -> ~ In 0%nat l.
Proof.
  intros HS Hc Hin. destruct (chain_attached h p l 0%nat HS Hc Hin) as [q [nx [Ex Px]]].
  destruct (hs_root _ _ h HS) as [n0 [E0 [_ P0]]]. congruence.
Qed.

(* a node with a child is a container *)
Lemma parent_container h q y : heapS h -> child h q y -> exists nq, nth_error h q = Some nq /\ cnt nq = true.
Proof.
  intros HS [nq [Eq Hy]]. exists nq. split; [exact Eq|].
  destruct (cnt nq) eqn:Ec; [reflexivity|].
  rewrite (np_leaf _ _ nq (hs_node _ _ h HS q nq Eq) Ec) in Hy. destruct Hy.
Qed.

(* the chain of the blocks being closed, when it is claimed *)
Lemma os_chain_nil h c A D : openS h c A D [] -> chainL h (lastid (ids A) :: ids D).
Proof. intros HO. destruct (os_chain _ _ _ _ _ _ HO) as [H|[H _]]; [exact H|congruence]. Qed.
Lemma os_chain_last h c A D x bp N : openS h c A (D ++ [(x, bp)]) N -> bp <> PParagraph ->
  chainL h (lastid (ids A) :: ids (D ++ [(x, bp)])).
Proof.
  intros HO Hbp. destruct (os_chain _ _ _ _ _ _ HO) as [H|[_ [y H]]]; [exact H|].
  destruct D as [|d [|d' D']]; cbn [app] in H; try discriminate H. injection H as _ E. congruence.
Qed.
Lemma lastid_snoc l x : lastid (l ++ [x]) = x.
Proof. unfold lastid. apply last_app_single. Qed.

End Inv.
